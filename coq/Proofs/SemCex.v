(* Witnesses that the hypothesis arity_ok of the semantic theorems of C14 and of
   replace_subcircuit (C19) cannot be dropped. *)
Require Import Cirbo.Model.Base Cirbo.Model.Gate Cirbo.Model.Den Cirbo.Model.Circuit Cirbo.Model.Connect
        Cirbo.Model.Eval Cirbo.Model.Sem Cirbo.Model.History Cirbo.Model.WF.
Require Import Cirbo.Generated.Operators Cirbo.Generated.GateTypes.
Require Import Cirbo.Proofs.WFEmplace Cirbo.Proofs.WFBench Cirbo.Proofs.WFStep Cirbo.Proofs.SemExt
        Cirbo.Proofs.SemReplaceSub.

Ltac inv_gate H Hops Hop :=
  let Hg := fresh "Hg" in let Ht := fresh "Ht" in
  inversion H as [? ? Hg Ht|? ? ? ? Hg Ht Hops Hop]; subst;
  vm_compute in Hg; injection Hg as <-; [discriminate Ht|]; cbn [gops gtyp] in Hops, Hop.

(* ---- C14: a comparison gate with three operands has no value (TypeError), its conversion has one ---- *)
Example into_bench_bad_arity_gains_value :
  wfb cex_ternary = true /\ inputs_nullary cex_ternary /\
  exists c', into_bench cex_ternary ["X"] = Ok c' /\
    (forall v, ~ Eval cex_ternary [("a", T); ("b", T); ("d", T)] "l" v) /\
    Eval c' [("a", T); ("b", T); ("d", T)] "l" F.
Proof.
  split; [vm_compute; reflexivity|]. split; [apply nullaryb_sound; vm_compute; reflexivity|].
  eexists; split; [vm_compute; reflexivity|]. split.
  - intros v H. inv_gate H Hops Hop.
    inversion Hops as [|? ? ? ? _ H1]; subst. inversion H1 as [|? ? ? ? _ H2]; subst.
    inversion H2 as [|? ? ? ? _ H3]; subst. inversion H3; subst. discriminate Hop.
  - eapply (EvalGate _ _ "l" (mkGate AND ["new_gate_LT_for_lX"; "b"]) [F; T]);
      [reflexivity|discriminate| |reflexivity].
    constructor; [|constructor; [apply (Eval_input_val _ _ "b" (mkGate INPUT [])); reflexivity|constructor]].
    eapply (EvalGate _ _ "new_gate_LT_for_lX" (mkGate NOT ["a"]) [T]); [reflexivity|discriminate| |reflexivity].
    constructor; [apply (Eval_input_val _ _ "a" (mkGate INPUT [])); reflexivity|constructor].
Qed.

(* ---- C19 replace_subcircuit: the host has a unary AND gate `bad` (no value) in the cut; the
   replaced slice g = NOT y ignores it, the replacement g = OR(NOT y, AND(bad, NOT bad)) is the same
   Boolean function but reads it: the output g loses its value ---- *)
Definition cex_rs_host : circuit :=
  match foldM step [OpAddInputs ["y"; "z"]; OpEmplace "bad" AND ["z"]; OpEmplace "g" NOT ["y"];
                    OpMarkOutput "g"] empty_circuit with
  | Ok c => c | Err _ => empty_circuit end.

Definition cex_rs_sub : circuit :=
  match foldM step [OpAddInputs ["y"; "bad"]; OpEmplace "n" NOT ["y"]; OpEmplace "t" NOT ["bad"];
                    OpEmplace "u" AND ["bad"; "t"]; OpEmplace "g" OR ["n"; "u"]; OpMarkOutput "g"]
              empty_circuit with
  | Ok c => c | Err _ => empty_circuit end.

Definition cex_rs_imap : dict label := [("y", "y"); ("bad", "bad")].
Definition cex_rs_omap : dict label := [("g", "g")].
Definition cex_rs_a : assignment := [("y", T); ("z", T)].

Example replace_subcircuit_bad_arity_loses_value :
  Inv cex_rs_host /\ Inv cex_rs_sub /\ ~ arity_ok cex_rs_host /\
  (* the equivalence hypothesis of the semantic theorem holds *)
  (forall b, (forall k, In k (dkeys cex_rs_imap) ->
                Eval cex_rs_host cex_rs_a k (aval b (ren_all (cex_rs_imap ++ cex_rs_omap) k))) ->
             forall k v, In k (dkeys cex_rs_omap) -> Eval cex_rs_host cex_rs_a k v ->
                         Eval cex_rs_sub b (ren_all (cex_rs_imap ++ cex_rs_omap) k) v) /\
  exists c', replace_subcircuit cex_rs_host cex_rs_sub cex_rs_imap cex_rs_omap "f" = Ok c' /\
    Eval cex_rs_host cex_rs_a "g" F /\ forall v, ~ Eval c' cex_rs_a "g" v.
Proof.
  assert (Hbad : forall v, ~ Eval cex_rs_host cex_rs_a "bad" v).
  { intros v H. inv_gate H Hops Hop. inversion Hops as [|? ? ? ? _ H1]; subst. inversion H1; subst.
    discriminate Hop. }
  split; [apply Inv_b; vm_compute; reflexivity|]. split; [apply Inv_b; vm_compute; reflexivity|].
  split.
  { intros A. specialize (A "bad" (mkGate AND ["z"]) eq_refl). simpl in A.
    assert (AND <> INPUT) as Hne by discriminate. specialize (A Hne). discriminate A. }
  split.
  { intros b Hb. exfalso. apply (Hbad (aval b "bad")).
    apply (Hb "bad"). right; left; reflexivity. }
  eexists; split; [vm_compute; reflexivity|]. split.
  - eapply (EvalGate _ _ "g" (mkGate NOT ["y"]) [T]); [reflexivity|discriminate| |reflexivity].
    constructor; [apply (Eval_input_val _ _ "y" (mkGate INPUT [])); reflexivity|constructor].
  - intros v H. inv_gate H Hops Hop.
    inversion Hops as [|? ? ? ? _ H1]; subst. inversion H1 as [|? ? ? ? Hu _]; subst.
    inv_gate Hu Hops2 Hop2. inversion Hops2 as [|? ? ? ? Hb _]; subst.
    inv_gate Hb Hops3 Hop3. inversion Hops3 as [|? ? ? ? _ H4]; subst. inversion H4; subst.
    discriminate Hop3.
Qed.
