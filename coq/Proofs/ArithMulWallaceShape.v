(* C08, add_mul_wallace: the SHAPE of the cell matrix (which cells hold a gate) and hence the number of
   result bits depend on the operand widths only.  [wg_s], [wr_s], [wl_s] are the group / round / loop
   on Boolean matrices; [wallace_len n m] is the length computed from them.  Every successful run whose
   final circuit has no gate called '_PLACEHOLDER_STR_' returns exactly [wallace_len n m] labels
   ([wallace_length_shape]).  That this number is n + m is proved in ArithMulWallaceTotal.v. *)
Require Import Cirbo.Model.Base Cirbo.Model.Gate Cirbo.Model.Den Cirbo.Model.Circuit
  Cirbo.Model.Eval Cirbo.Model.Sem Cirbo.Model.Builder.
Require Import Cirbo.Generated.ArithTables Cirbo.Generated.ArithCells.
Require Import Cirbo.Model.ArithSub Cirbo.Model.ArithSum2 Cirbo.Model.ArithSumN Cirbo.Model.ArithSumW
  Cirbo.Model.ArithMul.
Require Import Cirbo.Proofs.DictFacts Cirbo.Proofs.BuilderFacts Cirbo.Proofs.ArithFacts
  Cirbo.Proofs.ArithMulFacts Cirbo.Proofs.ArithMulDiag Cirbo.Proofs.ArithMulPow2 Cirbo.Proofs.ArithMulWallace.

(* ---- add_sum_n_bits on one, two and three labels ------------------------------------------------------ *)
Lemma sum_n_2 fresh x y s xy s1 g s2 :
  run fresh (gate_tt tt_xor y x) s = Ok (xy, s1) ->
  run fresh (gate_tt tt_gt y xy) s1 = Ok (g, s2) ->
  run fresh (add_sum_n_bits (BEnum XAIG) false [x; y]) s = Ok ([xy; g], s2).
Proof.
  intros E1 E2. cbn -[gate_tt xaig_loop]. rewrite E1. cbn -[gate_tt]. rewrite E2. reflexivity.
Qed.

Lemma sum_n_3 fresh x y z s xy s1 r s2 :
  run fresh (gate_tt tt_xor z y) s = Ok (xy, s1) ->
  run fresh (add_stockmeyer_block [x; z; xy]) s1 = Ok (r, s2) ->
  run fresh (add_sum_n_bits (BEnum XAIG) false [x; y; z]) s =
  match r with [a; b] => Ok ([a; b], s2) | _ => Err PyValueError end.
Proof.
  intros E1 E2. cbn -[gate_tt xaig_loop]. rewrite E1. cbn -[gate_tt add_stockmeyer_block]. rewrite E2.
  destruct r as [|a [|b [|? ?]]]; reflexivity.
Qed.

Lemma gate_tt_has fresh t x y s l s' : run fresh (gate_tt t x y) s = Ok (l, s') -> has_gate (bc s') l = true.
Proof.
  intros H. apply gate_tt_spec in H as (_ & _ & _ & _ & G & _). unfold has_gate. rewrite G.
  apply dmem_keys. unfold dkeys. rewrite map_app, in_app_iff. right; left; reflexivity.
Qed.

Lemma stockmeyer_has fresh x y z s r s' :
  run fresh (add_stockmeyer_block [x; y; z]) s = Ok (r, s') ->
  exists a b, r = [a; b] /\ has_gate (bc s') a = true /\ has_gate (bc s') b = true.
Proof.
  unfold add_stockmeyer_block. intros H.
  apply run_bind_inv in H as (w0 & s1 & H1 & H). apply run_bind_inv in H as (g2 & s2 & H2 & H).
  apply run_bind_inv in H as (g3 & s3 & H3 & H). apply run_bind_inv in H as (w1 & s4 & H4 & H).
  apply run_ret_inv in H as (-> & ->). exists w0, w1. split; [reflexivity|]. split; [|eapply gate_tt_has; eassumption].
  apply gate_tt_has in H1.
  apply (ext_has_gate _ _ _ (run_ext _ _ _ _ _ H4)), (ext_has_gate _ _ _ (run_ext _ _ _ _ _ H3)),
        (ext_has_gate _ _ _ (run_ext _ _ _ _ _ H2)), H1.
Qed.

Lemma sum_small_spec fresh inp s res s' :
  run fresh (add_sum_n_bits (BEnum XAIG) false inp) s = Ok (res, s') ->
  match inp with
  | [x] => res = [x] /\ s' = s
  | [_; _] | [_; _; _] => exists a b, res = [a; b] /\ has_gate (bc s') a = true /\ has_gate (bc s') b = true
  | _ => True
  end.
Proof.
  intros H. destruct inp as [|x [|y [|z [|w inp']]]]; try exact I.
  - cbn in H. injection H as <- <-. split; reflexivity.
  - destruct (run fresh (gate_tt tt_xor y x) s) as [[xy s1]|e] eqn:E1.
    2:{ exfalso. cbn -[gate_tt xaig_loop] in H. rewrite E1 in H. discriminate. }
    destruct (run fresh (gate_tt tt_gt y xy) s1) as [[g s2]|e] eqn:E2.
    2:{ exfalso. cbn -[gate_tt xaig_loop] in H. rewrite E1 in H. cbn -[gate_tt] in H. rewrite E2 in H. discriminate. }
    rewrite (sum_n_2 _ _ _ _ _ _ _ _ E1 E2) in H. injection H as <- <-.
    exists xy, g. split; [reflexivity|]. split; [|eapply gate_tt_has; eassumption].
    apply (ext_has_gate _ _ _ (run_ext _ _ _ _ _ E2)). eapply gate_tt_has; eassumption.
  - destruct (run fresh (gate_tt tt_xor z y) s) as [[xy s1]|e] eqn:E1.
    2:{ exfalso. cbn -[gate_tt xaig_loop] in H. rewrite E1 in H. discriminate. }
    destruct (run fresh (add_stockmeyer_block [x; z; xy]) s1) as [[r s2]|e] eqn:E2.
    2:{ exfalso. cbn -[gate_tt xaig_loop] in H. rewrite E1 in H. cbn -[gate_tt add_stockmeyer_block] in H.
        rewrite E2 in H. discriminate. }
    rewrite (sum_n_3 _ _ _ _ _ _ _ _ _ E1 E2) in H.
    apply stockmeyer_has in E2 as (a & b & -> & Ha & Hb). injection H as <- <-. exists a, b. auto.
Qed.

(* ---- shapes ----------------------------------------------------------------------------------------------- *)
Definition is_some (c : cell) : bool := match c with Some _ => true | None => false end.
Definition shp (r : list cell) : list bool := map is_some r.
Definition good (r : list cell) : Prop := Forall (fun cl => cl <> Some PLACEHOLDER_STR) r.

Lemma cell_of_good l : cell_of l <> Some PLACEHOLDER_STR.
Proof.
  unfold cell_of. destruct (String.eqb_spec l PLACEHOLDER_STR) as [->|Hne]; [discriminate|].
  intros [= E]. contradiction.
Qed.

Lemma cell_of_neq l : l <> PLACEHOLDER_STR -> cell_of l = Some l.
Proof. unfold cell_of. intros H. destruct (String.eqb_spec l PLACEHOLDER_STR); [contradiction|reflexivity]. Qed.

Lemma cell_of_gate c l : noP c -> has_gate c l = true -> cell_of l = Some l.
Proof. intros HP Hl. apply cell_of_neq. intros ->. unfold noP in HP. congruence. Qed.

Fixpoint wg_s (a b c : list bool) : list bool * list bool :=
  match a, b, c with
  | x :: a', y :: b', z :: c' =>
    let cnt := (Nat.b2n x + Nat.b2n y + Nat.b2n z)%nat in
    let r := wg_s a' b' c' in
    ((1 <=? cnt)%nat :: fst r, (2 <=? cnt)%nat :: snd r)
  | _, _, _ => ([], [])
  end.

Fixpoint wr_s (rows : list (list bool)) : list (list bool) :=
  match rows with
  | ra :: rb :: rc :: rest => let r := wg_s ra rb rc in fst r :: (false :: removelast (snd r)) :: wr_s rest
  | _ => rows
  end.

Fixpoint wl_s (fuel : nat) (rows : list (list bool)) : list (list bool) :=
  if (length rows =? 2)%nat then rows
  else match fuel with O => rows | S f => wl_s f (wr_s rows) end.

Fixpoint lead_f (b : list bool) : nat := match b with false :: b' => S (lead_f b') | _ => O end.
Fixpoint all_f (b : list bool) : bool := match b with [] => true | false :: b' => all_f b' | true :: _ => false end.
Fixpoint trim_len (b : list bool) : nat :=
  match b with [] => O | _ :: b' => if all_f b then O else S (trim_len b') end.

(* the number of labels the final shifted adder returns *)
Definition flen (b0 b1 : list bool) : nat :=
  let sh := lead_f b1 in
  let la := trim_len b0 in
  let lb := trim_len (skipn sh b1) in
  if (la <=? sh)%nat then (sh + lb)%nat else (sh + S (Nat.max (la - sh) lb))%nat.

Fixpoint init_s (n i m k : nat) : list (list bool) :=
  match k with
  | O => []
  | S k' => (repeat false i ++ repeat true n ++ repeat false (m - i)) :: init_s n (S i) m k'
  end.

Definition wallace_len (n m : nat) : nat :=
  match wl_s m (init_s n 0 m m) with
  | [b0; b1] => Nat.min (n + m) (flen b0 b1)
  | _ => O
  end.

Lemma leading_none_shape r : leading_none r = lead_f (shp r).
Proof. induction r as [|[l|] r IH]; simpl; congruence. Qed.
Lemma all_none_shape r : all_none r = all_f (shp r).
Proof. induction r as [|[l|] r IH]; simpl; congruence. Qed.
Lemma trim_fill_shape z r : length (trim_fill z r) = trim_len (shp r).
Proof.
  induction r as [|c r IH]; [reflexivity|]. cbn [trim_fill]. rewrite all_none_shape.
  change (shp (c :: r)) with (is_some c :: shp r). cbn [trim_len].
  destruct (all_f (is_some c :: shp r)); [reflexivity|]. simpl. rewrite IH. reflexivity.
Qed.
Lemma shp_skipn k r : shp (skipn k r) = skipn k (shp r).
Proof. unfold shp. revert r; induction k as [|k IH]; intros [|c r]; simpl; auto. Qed.
Lemma shp_removelast r : shp (removelast r) = removelast (shp r).
Proof.
  unfold shp. induction r as [|c r IH]; [reflexivity|]. destruct r as [|c2 r]; [reflexivity|].
  change (removelast (c :: c2 :: r)) with (c :: removelast (c2 :: r)). cbn [map]. rewrite IH. reflexivity.
Qed.
Lemma good_removelast r : good r -> good (removelast r).
Proof.
  unfold good. induction 1 as [|c r Hc Hr IH]; [constructor|]. destruct r as [|c2 r]; [constructor|].
  change (removelast (c :: c2 :: r)) with (c :: removelast (c2 :: r)). constructor; assumption.
Qed.

(* ---- one column, one group, one round, the loop ------------------------------------------------------------- *)
Lemma wallace_col_shape fresh x y z s sc s1 :
  run fresh (match cell_list x ++ cell_list y ++ cell_list z with
             | [] => Ret (None, None)
             | inp =>
               bdo res <- add_sum_n_bits (BEnum XAIG) false inp;
               match res with
               | [s0] => Ret (cell_of s0, None)
               | [s0; cy] => Ret (cell_of s0, cell_of cy)
               | _ => Fail PyIndexError
               end
             end) s = Ok (sc, s1) ->
  forall c, ext (bc s1) c -> noP c ->
  x <> Some PLACEHOLDER_STR -> y <> Some PLACEHOLDER_STR -> z <> Some PLACEHOLDER_STR ->
  fst sc <> Some PLACEHOLDER_STR /\ snd sc <> Some PLACEHOLDER_STR /\
  is_some (fst sc) = (1 <=? Nat.b2n (is_some x) + Nat.b2n (is_some y) + Nat.b2n (is_some z))%nat /\
  is_some (snd sc) = (2 <=? Nat.b2n (is_some x) + Nat.b2n (is_some y) + Nat.b2n (is_some z))%nat.
Proof.
  intros H c Hc HP Gx Gy Gz.
  assert (forall l, Some l <> Some PLACEHOLDER_STR -> cell_of l = Some l) as Hsome.
  { intros l Hl. apply cell_of_neq. congruence. }
  assert (forall l, has_gate (bc s1) l = true -> cell_of l = Some l) as Hgate.
  { intros l Hl. eapply cell_of_gate; [exact HP|]. eapply ext_has_gate; eassumption. }
  destruct x as [lx|], y as [ly|], z as [lz|]; cbn [cell_list app] in H;
    first
      [ apply run_ret_inv in H as (-> & _); cbn; repeat split; (discriminate || reflexivity)
      | apply run_bind_inv in H as (res & s3 & Hres & H); apply sum_small_spec in Hres; cbv beta iota in Hres;
        first
          [ destruct Hres as (-> & ->); apply run_ret_inv in H as (-> & _); cbn [fst snd];
            rewrite Hsome by assumption; cbn; repeat split; (assumption || discriminate || reflexivity)
          | destruct Hres as (a & b & -> & Ha & Hb); apply run_ret_inv in H as (-> & ->); cbn [fst snd];
            repeat split; try apply cell_of_good; rewrite ?(Hgate a Ha), ?(Hgate b Hb); reflexivity ] ].
Qed.

Lemma wallace_group_shape fresh : forall ra rb rc s S C s',
  run fresh (wallace_group ra rb rc) s = Ok ((S, C), s') ->
  forall c, ext (bc s') c -> noP c -> good ra -> good rb -> good rc ->
  good S /\ good C /\ shp S = fst (wg_s (shp ra) (shp rb) (shp rc)) /\ shp C = snd (wg_s (shp ra) (shp rb) (shp rc)).
Proof.
  induction ra as [|x ra IH]; intros rb rc s S C s' H c Hc HP Ga Gb Gc.
  { cbn [wallace_group] in H. apply run_ret_inv in H as (E & _). injection E as -> ->. repeat split; constructor. }
  destruct rb as [|y rb]; [apply run_ret_inv in H as (E & _); injection E as -> ->; repeat split; constructor|].
  destruct rc as [|z rc]; [apply run_ret_inv in H as (E & _); injection E as -> ->; repeat split; constructor|].
  cbn [wallace_group] in H. apply run_bind_inv in H as (sc & s1 & Hcol & H).
  apply run_bind_inv in H as ([S' C'] & s2 & Hrest & H). apply run_ret_inv in H as (E & ->).
  cbn [fst snd] in E. injection E as -> ->.
  inversion Ga as [|? ? Gx Ga']; subst. inversion Gb as [|? ? Gy Gb']; subst. inversion Gc as [|? ? Gz Gc']; subst.
  pose proof (run_ext _ _ _ _ _ Hrest) as X2.
  destruct (IH _ _ _ _ _ _ Hrest c Hc HP Ga' Gb' Gc') as (GS & GC & ES & EC).
  destruct (wallace_col_shape _ _ _ _ _ _ _ Hcol c (ext_trans _ _ _ X2 Hc) HP Gx Gy Gz) as (G1 & G2 & E1 & E2).
  split; [constructor; assumption|]. split; [constructor; assumption|].
  unfold shp in *. cbn [map wg_s fst snd]. rewrite E1, E2, ES, EC. split; reflexivity.
Qed.

Lemma wallace_round_shape fresh : forall k rows s rows' s',
  (length rows <= k)%nat -> run fresh (wallace_round rows) s = Ok (rows', s') ->
  forall c, ext (bc s') c -> noP c -> Forall good rows ->
  Forall good rows' /\ map shp rows' = wr_s (map shp rows).
Proof.
  induction k as [|k IH]; intros rows s rows' s' Hk H c Hc HP G.
  { destruct rows; [|simpl in Hk; lia]. apply run_ret_inv in H as (-> & _). split; [constructor|reflexivity]. }
  destruct rows as [|ra [|rb [|rc rest]]];
    [apply run_ret_inv in H as (-> & _); split; [exact G|reflexivity]..|].
  cbn [wallace_round] in H. apply run_bind_inv in H as ([S C] & s1 & Hg & H).
  apply run_bind_inv in H as (t & s2 & Ht & H). apply run_ret_inv in H as (-> & ->). cbn [fst snd].
  pose proof (run_ext _ _ _ _ _ Ht) as X2.
  inversion G as [|? ? Ga G1]; subst. inversion G1 as [|? ? Gb G2]; subst. inversion G2 as [|? ? Gc G3]; subst.
  destruct (wallace_group_shape _ _ _ _ _ _ _ _ Hg c (ext_trans _ _ _ X2 Hc) HP Ga Gb Gc) as (GS & GC & ES & EC).
  assert (length rest <= k)%nat as Hk' by (simpl in Hk; lia).
  destruct (IH _ _ _ _ Hk' Ht c Hc HP G3) as (Gt & Et).
  split.
  - constructor; [exact GS|]. constructor; [|exact Gt]. constructor; [discriminate|apply good_removelast, GC].
  - cbn [map wr_s]. rewrite <- ES, <- EC, <- Et. cbn [fst snd]. f_equal. f_equal.
    change (shp (None :: removelast C)) with (false :: shp (removelast C)). rewrite shp_removelast. reflexivity.
Qed.

Lemma wallace_loop_shape fresh : forall fuel rows s rows' s',
  run fresh (wallace_loop fuel rows) s = Ok (rows', s') ->
  forall c, ext (bc s') c -> noP c -> Forall good rows ->
  Forall good rows' /\ map shp rows' = wl_s fuel (map shp rows).
Proof.
  induction fuel as [|f IH]; intros rows s rows' s' H c Hc HP G; cbn [wallace_loop wl_s] in *;
    rewrite map_length; destruct (length rows =? 2)%nat.
  1,3: apply run_ret_inv in H as (-> & _); split; [exact G|reflexivity].
  { discriminate. }
  apply run_bind_inv in H as (r & s1 & Hr & H). pose proof (run_ext _ _ _ _ _ H) as X2.
  destruct (wallace_round_shape _ (length rows) _ _ _ _ (le_n _) Hr c (ext_trans _ _ _ X2 Hc) HP G) as (G1 & E1).
  destruct (IH _ _ _ _ H c Hc HP G1) as (G2 & E2). split; [exact G2|]. rewrite E2, E1. reflexivity.
Qed.

(* ---- the start matrix ----------------------------------------------------------------------------------------- *)
Lemma pp_matrix_has fresh a : forall b s c s',
  run fresh (pp_matrix a b) s = Ok (c, s') -> Forall (Forall (fun l => has_gate (bc s') l = true)) c.
Proof.
  assert (Hrow : forall bi a0 s row s', run fresh (pp_row a0 bi) s = Ok (row, s') ->
                   Forall (fun l => has_gate (bc s') l = true) row).
  { intros bi. unfold pp_row. induction a0 as [|aj a0 IH]; intros s row s' H; cbn [mapP] in H.
    - apply run_ret_inv in H as (-> & _). constructor.
    - apply run_bind_inv in H as (g & s1 & Hg & H). apply run_bind_inv in H as (r & s2 & Hr & H).
      apply run_ret_inv in H as (-> & ->). constructor; [|eapply IH; exact Hr].
      apply (ext_has_gate _ _ _ (run_ext _ _ _ _ _ Hr)). eapply gate_tt_has; exact Hg. }
  unfold pp_matrix. induction b as [|bi b IH]; intros s c s' H; cbn [mapP] in H.
  - apply run_ret_inv in H as (-> & _). constructor.
  - apply run_bind_inv in H as (row & s1 & Hr & H). apply run_bind_inv in H as (r & s2 & Hrest & H).
    apply run_ret_inv in H as (-> & ->). constructor; [|eapply IH; exact Hrest].
    apply Hrow in Hr. eapply Forall_impl; [|exact Hr]. intros l. apply ext_has_gate. eapply run_ext; exact Hrest.
Qed.

Lemma shp_app a b : shp (a ++ b) = shp a ++ shp b.
Proof. apply map_app. Qed.
Lemma shp_nones k : shp (repeat None k) = repeat false k.
Proof. induction k; simpl; congruence. Qed.

Lemma wallace_rows_shape c n : noP c -> forall cm i m,
  Forall (Forall (fun l => has_gate c l = true)) cm -> Forall (fun row : list label => length row = n) cm ->
  Forall good (wallace_rows i m cm) /\ map shp (wallace_rows i m cm) = init_s n i m (length cm).
Proof.
  intros HP. induction cm as [|row cm IH]; intros i m Hh Hn; cbn [wallace_rows]; [split; [constructor|reflexivity]|].
  pose proof (Forall_inv Hh) as Hrow. pose proof (Forall_inv Hn) as Lrow. cbv beta in Lrow.
  destruct (IH (S i) m (Forall_inv_tail Hh) (Forall_inv_tail Hn)) as (G & E). split.
  - constructor; [|exact G]. apply Forall_app. split; [clear; induction i; simpl; constructor; [discriminate|assumption]|].
    apply Forall_app. split; [|clear; induction (m - i)%nat; simpl; constructor; [discriminate|assumption]].
    clear. induction row; simpl; constructor; [apply cell_of_good|assumption].
  - cbn [map length init_s]. rewrite E. f_equal. rewrite !shp_app, !shp_nones. f_equal. f_equal.
    subst n. clear -HP Hrow. induction Hrow as [|l row Hl _ IH]; [reflexivity|]. simpl.
    rewrite (cell_of_gate c l HP Hl), IH. reflexivity.
Qed.

(* ---- the number of result bits --------------------------------------------------------------------------------- *)
Lemma noP_ext c c' : ext c c' -> noP c' -> noP c.
Proof.
  unfold noP. intros X H. destruct (has_gate c PLACEHOLDER_STR) eqn:E; [|reflexivity].
  apply (ext_has_gate _ _ _ X) in E. congruence.
Qed.

Lemma mapP_length fresh {A B} (f : A -> prog B) : forall l s out s',
  run fresh (mapP f l) s = Ok (out, s') -> length out = length l.
Proof.
  induction l as [|x l IH]; intros s out s' H; cbn [mapP] in H.
  - apply run_ret_inv in H as (-> & _). reflexivity.
  - apply run_bind_inv in H as (y & s1 & _ & H). apply run_bind_inv in H as (ys & s2 & Hys & H).
    apply run_ret_inv in H as (-> & _). simpl. f_equal. eapply IH; exact Hys.
Qed.

Theorem wallace_length_shape fresh xs ys be s rs s' :
  run fresh (add_mul_wallace xs ys be) s = Ok (rs, s') ->
  length xs <> 1%nat -> length ys <> 1%nat -> noP (bc s') ->
  length rs = wallace_len (length xs) (length ys).
Proof.
  intros H Hn1 Hm1 HP. unfold add_mul_wallace in H. rewrite !rev_if_length in H.
  apply run_bind_inv in H as (cm & s1 & Hpp & H).
  pose proof (pp_matrix_has _ _ _ _ _ _ Hpp) as Hhas.
  apply pp_matrix_spec in Hpp as (_ & _ & L1 & F1 & _). rewrite rev_if_length in L1, F1.
  set (n := length xs) in *. set (m := length ys) in *.
  apply Nat.eqb_neq in Hn1, Hm1. rewrite Hn1, Hm1 in H.
  destruct (n + m =? 0)%nat; [discriminate|].
  apply run_bind_inv in H as (rows' & s2 & Hloop & H).
  destruct rows' as [|r0 [|r1 [|? ?]]]; try discriminate.
  apply run_bind_inv in H as ([[sh la] lb] & s3 & Hfin & H).
  apply run_bind_inv in H as (r & s4 & Hr & H). apply run_ret_inv in H as (-> & ->).
  pose proof (run_ext _ _ _ _ _ Hr) as X4. pose proof (run_ext _ _ _ _ _ Hfin) as X3.
  pose proof (run_ext _ _ _ _ _ Hloop) as X2.
  assert (ext (bc s2) (bc s4)) as X24 by (eapply ext_trans; eassumption).
  assert (noP (bc s1)) as HP1 by (eapply noP_ext; [eapply ext_trans; eassumption|exact HP]).
  destruct (wallace_rows_shape (bc s1) n HP1 cm 0%nat m Hhas F1) as (G0 & E0).
  destruct (wallace_loop_shape _ _ _ _ _ _ Hloop (bc s4) X24 HP G0) as (G2 & E2).
  rewrite wallace_rows_length, L1 in E2. rewrite E0, L1 in E2. cbn [map] in E2.
  unfold wallace_len. rewrite <- E2.
  unfold wallace_final in Hfin. apply run_bind_inv in Hfin as (z & s5 & _ & Hfin).
  apply run_ret_inv in Hfin as (E & _). injection E as -> -> ->.
  apply with_shift_length in Hr. rewrite rev_if_length, firstn_length, Hr.
  rewrite !trim_fill_shape, shp_skipn, leading_none_shape. reflexivity.
Qed.
