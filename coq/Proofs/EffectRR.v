(* C18, RemoveRedundantGates: the result consists of exactly the gates reachable from the outputs
   (plus all inputs unless their removal is allowed), the pass is idempotent including the order of
   the gate map, and it never fails on a well-formed circuit. *)
Require Import Cirbo.Model.Base Cirbo.Model.Gate Cirbo.Model.Circuit Cirbo.Model.Traverse Cirbo.Model.WF.
Require Import Cirbo.Model.Passes.
Require Import Cirbo.Generated.GateTypes.
Require Import Cirbo.Proofs.DictFacts Cirbo.Proofs.WFBase Cirbo.Proofs.WFSimple Cirbo.Proofs.WFEmplace
               Cirbo.Proofs.TopSort Cirbo.Proofs.TopSortWF Cirbo.Proofs.TraverseStep Cirbo.Proofs.TraverseInv
               Cirbo.Proofs.TraverseSpec Cirbo.Proofs.TraverseFinal Cirbo.Proofs.TraverseDet
               Cirbo.Proofs.RebuildFacts.

Definition outs_ok (c : circuit) : Prop := forall o, In o (outputs c) -> has_gate c o = true.

Lemma passes_exits_eq log : Passes.exits log = TraverseInv.exits log.
Proof. reflexivity. Qed.

(* the labels added as fresh INPUT gates when inputs may not be removed *)
Definition rr_extra0 (allow : bool) (n1 c : circuit) : list label :=
  if allow then [] else filter (fun i => negb (has_gate n1 i)) (inputs c).
Definition rr_extra (allow : bool) (order : list label) (c : circuit) : list label :=
  if allow then [] else filter (fun i => negb (memb i order)) (inputs c).

Lemma dfs_emission_false c order :
  dfs_emission c false = Ok order <->
  exists log, traverse DFS false c (Some (outputs c)) false no_abort = Ok log /\ order = TraverseInv.exits log.
Proof.
  unfold dfs_emission. split.
  - intros H. binv H log Hl. injection H as <-. exists log. rewrite app_nil_r. auto.
  - intros (log & -> & ->). simpl. rewrite app_nil_r. reflexivity.
Qed.

(* the stages of the pass *)
Lemma rr_unfold allow c c' : remove_redundant_gates allow c = Ok c' ->
  exists order n1 n2,
    dfs_emission c false = Ok order /\ foldM (rr_step c) order empty_circuit = Ok n1 /\
    add_inputs n1 (rr_extra0 allow n1 c) = Ok n2 /\
    set_inputs n2 (filter (fun i => memb i (inputs n2)) (inputs c)) =
      Ok (set_inputs_raw n2 (filter (fun i => memb i (inputs n2)) (inputs c))) /\
    set_outputs (set_inputs_raw n2 (filter (fun i => memb i (inputs n2)) (inputs c))) (outputs c) = Ok c'.
Proof.
  unfold remove_redundant_gates. intros H. binv H order Ho. binv H n1 Hn1. binv H n2 Hn2. binv H n3 Hn3.
  exists order, n1, n2. split; [exact Ho|]. split; [exact Hn1|]. split.
  - unfold rr_extra0. destruct allow; [simpl; exact Hn2|exact Hn2].
  - pose proof (set_inputs_inv _ _ _ Hn3) as E. subst n3. split; [exact Hn3|exact H].
Qed.

Lemma rr_fold allow c order n1 n2 c' :
  dfs_emission c false = Ok order -> foldM (rr_step c) order empty_circuit = Ok n1 ->
  add_inputs n1 (rr_extra0 allow n1 c) = Ok n2 ->
  set_inputs n2 (filter (fun i => memb i (inputs n2)) (inputs c)) =
    Ok (set_inputs_raw n2 (filter (fun i => memb i (inputs n2)) (inputs c))) ->
  set_outputs (set_inputs_raw n2 (filter (fun i => memb i (inputs n2)) (inputs c))) (outputs c) = Ok c' ->
  remove_redundant_gates allow c = Ok c'.
Proof.
  intros Ho Hn1 Hn2 Hn3 Hc. unfold remove_redundant_gates. rewrite Ho. simpl.
  change (fun n l => do g <- get_gate c l; emplace_gate n l (gtyp g) (gops g)) with (rr_step c).
  rewrite Hn1. simpl. unfold rr_extra0 in Hn2.
  destruct allow; simpl in *; [injection Hn2 as <-|rewrite Hn2; simpl]; rewrite Hn3; simpl; exact Hc.
Qed.

(* what the stages produce *)
Record RRspec (allow : bool) (c c' : circuit) (order : list label) : Prop := mkRRspec {
  rs_nodup : NoDup order;
  rs_has : forall l, In l order -> exists g, dget (gates c) l = Some g;
  rs_before : ops_before c order;
  rs_extra_nodup : NoDup (rr_extra allow order c);
  rs_gates : gates c' = map (fun l => (l, gate_at c l)) order ++
                        map (fun i => (i, mkGate INPUT [])) (rr_extra allow order c);
  rs_extra : forall i, In i (rr_extra allow order c) <-> allow = false /\ In i (inputs c) /\ ~ In i order;
  rs_inputs : inputs c' = filter (fun i => memb i (filter (is_input_at c) order ++ rr_extra allow order c)) (inputs c);
  rs_outputs : outputs c' = outputs c;
  rs_blocks : blocks c' = [];
  rs_wf : WF c' }.

Lemma has_gate_gates c c' l : gates c = gates c' -> has_gate c l = has_gate c' l.
Proof. unfold has_gate. intros ->. reflexivity. Qed.

Lemma rr_spec allow c c' : remove_redundant_gates allow c = Ok c' ->
  exists order, dfs_emission c false = Ok order /\ RRspec allow c c' order.
Proof.
  intros H. destruct (rr_unfold allow c c' H) as (order & n1 & n2 & Ho & Hn1 & Hn2 & Hn3 & Hc).
  exists order. split; [exact Ho|].
  destruct (rr_fold_inv c order _ _ Hn1) as (Hnd & Hall & Hg1 & Hpre & Hout1 & Hblk1 & Hin1).
  simpl in Hg1, Hin1, Hout1, Hblk1.
  destruct (add_inputs_inv _ _ _ Hn2) as (Hnde & Halle & Hg2 & Hin2 & Hout2 & Hblk2).
  apply set_outputs_inv in Hc. destruct Hc as [-> Hex].
  assert (Hhas1 : forall l, has_gate n1 l = true <-> In l order).
  { intros l. rewrite has_gate_key, Hg1, dkeys_map_keys. tauto. }
  assert (Eextra : rr_extra0 allow n1 c = rr_extra allow order c).
  { unfold rr_extra0, rr_extra. destruct allow; [reflexivity|]. apply filter_ext. intros i. f_equal.
    destruct (memb i order) eqn:E.
    - apply Hhas1, memb_In; exact E.
    - destruct (has_gate n1 i) eqn:E'; [|reflexivity]. apply Hhas1, memb_In in E'. congruence. }
  rewrite Eextra in *.
  assert (W1 : WF n1) by (eapply rr_fold_wf; [apply WF_empty|exact Hn1]).
  assert (W2 : WF n2) by (eapply add_inputs_wf; eassumption).
  assert (W3 : WF (set_inputs_raw n2 (filter (fun i => memb i (inputs n2)) (inputs c)))) by (eapply set_inputs_wf; eassumption).
  constructor; simpl.
  - exact Hnd.
  - intros l Hl. apply Hall; exact Hl.
  - intros pre a post E b Hb. destruct (Hpre pre a post E b Hb) as [Hf|Hb']; [discriminate|exact Hb'].
  - exact Hnde.
  - rewrite Hg2, Hg1. reflexivity.
  - intros i. unfold rr_extra. destruct allow; [simpl; split; [tauto|intros [? _]; discriminate]|].
    rewrite filter_In, negb_true_iff, memb_nIn. tauto.
  - rewrite Hin2, Hin1. reflexivity.
  - reflexivity.
  - rewrite Hblk2, Hblk1. reflexivity.
  - apply WF_set_outputs_raw; [exact W3|exact Hex].
Qed.

(* ---------------- B.2 idempotence, including the order of the gate map ---------------- *)
Lemma filter_filter {A} (f g : A -> bool) l : filter f (filter g l) = filter (fun x => g x && f x) l.
Proof.
  induction l as [|x l IH]; simpl; [reflexivity|]. destruct (g x); simpl; [|exact IH].
  destruct (f x); rewrite IH; reflexivity.
Qed.

Lemma rr_get_gate allow c c' order l : RRspec allow c c' order -> In l order -> get_gate c' l = get_gate c l.
Proof.
  intros S Hl. unfold get_gate. rewrite (rs_gates _ _ _ _ S), dget_app, dget_map_keys by exact Hl.
  destruct (rs_has _ _ _ _ S l Hl) as (g & Hg). rewrite Hg, (gate_at_get c l g Hg). reflexivity.
Qed.

Lemma rr_emission_same allow c c' order :
  outs_ok c -> dfs_emission c false = Ok order -> RRspec allow c c' order ->
  dfs_emission c' false = Ok order.
Proof.
  intros Hok Ho S. apply dfs_emission_false in Ho. destruct Ho as (log & Hlog & ->).
  pose proof (rs_wf _ _ _ _ S) as W'.
  assert (Hse : starts_exist false c' (Some (outputs c'))) by (intros s Hs; apply (wf_outs c' W'); exact Hs).
  destruct (traverse_total DFS false c' (Some (outputs c')) false W' Hse) as [log' Hlog'].
  apply dfs_emission_false. exists log'. split; [exact Hlog'|].
  rewrite (rs_outputs _ _ _ _ S) in Hlog'.
  destruct (traverse_dfs_inv c' _ _ Hlog') as [[Eg ->]|(Hne' & sts' & log0' & HSt' & ->)].
  - rewrite (rs_gates _ _ _ _ S) in Eg. apply app_eq_nil in Eg. destruct Eg as [Eg _].
    destruct (exits log); [reflexivity|discriminate].
  - destruct (traverse_dfs_inv c _ _ Hlog) as [[Eg ->]|(Hne & sts & log0 & HSt & E)].
    + assert (Eo : outputs c = []).
      { destruct (outputs c) as [|o r] eqn:Eo; [reflexivity|exfalso].
        assert (Ho : has_gate c o = true) by (apply Hok; rewrite Eo; left; reflexivity).
        unfold has_gate, dmem in Ho. rewrite Eg in Ho. discriminate. }
      rewrite Eo in HSt'.
      destruct (Steps_det_final false c' no_abort _ _ _ _ _ HSt' (Steps_refl _ _ _ _ _)) as [_ ->]. reflexivity.
    + rewrite E in *. destruct (dfs_final_exits false c no_abort _ _ _ HSt) as [_ Hre].
      assert (HK : forall l, In l (exits log0) ->
                 key c l /\ ops_of c l = ops_of c' l /\ forall o, In o (ops_of c l) -> In o (exits log0)).
      { intros l Hl. destruct (rs_has _ _ _ _ S l Hl) as (g & Hg). split; [eapply dget_In_keys; exact Hg|]. split.
        - pose proof (rr_get_gate _ _ _ _ l S Hl) as Egg. unfold get_gate in Egg. rewrite Hg in Egg.
          unfold ops_of. rewrite Hg. destruct (dget (gates c') l); [injection Egg as ->; reflexivity|discriminate].
        - intros o Ho. apply in_split in Hl. destruct Hl as (pre & post & Epp).
          pose proof (rs_before _ _ _ _ S pre l post Epp o Ho) as Hin. rewrite Epp. apply in_or_app; left; exact Hin. }
      assert (HSt2 : Steps DFS false c no_abort ([], outputs c, []) (sts', [], log0')).
      { apply (Steps_lift c c' (fun l => In l (exits log0)) HK _ _ HSt'). simpl. intros l Hl.
        apply Hre. apply reach_start; exact Hl. }
      destruct (Steps_det_final false c no_abort _ _ _ _ _ HSt HSt2) as [_ ->]. reflexivity.
Qed.

Theorem rr_idempotent allow c c' :
  outs_ok c -> remove_redundant_gates allow c = Ok c' -> remove_redundant_gates allow c' = Ok c'.
Proof.
  intros Hok H. destruct (rr_spec allow c c' H) as (order' & Ho' & S).
  destruct (rr_unfold allow c c' H) as (order & n1 & n2 & Ho & Hn1 & Hn2 & Hn3 & Hc).
  assert (order' = order) by congruence. subst order'.
  pose proof (rr_emission_same allow c c' order Hok Ho S) as Ho2.
  destruct (rr_fold_inv c order _ _ Hn1) as (Hnd & Hall & Hg1 & Hpre & Hout1 & Hblk1 & Hin1).
  simpl in Hg1, Hin1.
  destruct (add_inputs_inv _ _ _ Hn2) as (Hnde & Halle & Hg2 & Hin2 & Hout2 & Hblk2).
  pose proof (set_outputs_inv _ _ _ Hc) as [Ec' Hex].
  assert (Hi' : inputs c' = filter (fun i => memb i (inputs n2)) (inputs c)) by (rewrite Ec'; reflexivity).
  assert (Hout' : outputs c' = outputs c) by (rewrite Ec'; reflexivity).
  assert (Hn1' : foldM (rr_step c') order empty_circuit = Ok n1).
  { rewrite <- Hn1. apply rr_fold_ext. intros l Hl. apply (rr_get_gate allow c c' order l S Hl). }
  assert (Eex : rr_extra0 allow n1 c' = rr_extra0 allow n1 c).
  { unfold rr_extra0. destruct allow; [reflexivity|]. rewrite Hi', filter_filter. apply filter_ext_in.
    intros i Hi. destruct (has_gate n1 i) eqn:E; simpl; [apply andb_false_r|]. rewrite andb_true_r.
    apply memb_In. rewrite Hin2. apply in_or_app; right. unfold rr_extra0. apply filter_In. rewrite E. auto. }
  assert (Eins : filter (fun i => memb i (inputs n2)) (inputs c') = filter (fun i => memb i (inputs n2)) (inputs c)).
  { rewrite Hi', filter_filter. apply filter_ext. intros i. apply andb_diag. }
  apply (rr_fold allow c' order n1 n2 c' Ho2 Hn1').
  - rewrite Eex. exact Hn2.
  - rewrite Eins. exact Hn3.
  - rewrite Eins, Hout'. exact Hc.
Qed.

(* ---------------- B.3 totality on well-formed circuits ---------------- *)
Lemma reach_key c outs l : WF c -> (forall o, In o outs -> has_gate c o = true) ->
  reach (ops_of c) outs l -> key c l.
Proof.
  intros W Ho. apply reach_closed.
  - intros s Hs. apply has_gate_key, Ho; exact Hs.
  - intros a b _ Hb. unfold ops_of in Hb. destruct (dget (gates c) a) as [g|] eqn:E; [|contradiction].
    apply has_gate_key. eapply (wf_ops c W); eassumption.
Qed.

Lemma dfs_emission_total c tu : WF c -> exists order, dfs_emission c tu = Ok order.
Proof.
  intros W. assert (Hse : starts_exist false c (Some (outputs c))) by (intros s Hs; apply (wf_outs c W); exact Hs).
  destruct (traverse_total DFS false c (Some (outputs c)) tu W Hse) as [log Hlog].
  unfold dfs_emission. rewrite Hlog. simpl. eauto.
Qed.

Theorem rr_total allow c : WF c -> exists c', remove_redundant_gates allow c = Ok c'.
Proof.
  intros W. destruct (dfs_emission_total c false W) as [order Ho].
  pose proof Ho as Ho'. apply dfs_emission_false in Ho'. destruct Ho' as (log & Hlog & Eo).
  destruct (dfs_exits_wf c (outputs c) false log W (wf_outs c W) Hlog) as (Hnd & Hre & Hbe). rewrite <- Eo in *.
  assert (Hkey : forall l, In l order -> key c l).
  { intros l Hl. eapply reach_key; [exact W|apply (wf_outs c W)|apply Hre; exact Hl]. }
  destruct (rr_fold_total c order empty_circuit Hnd) as [n1 Hn1].
  { intros l Hl. split; [reflexivity|apply Hkey; exact Hl]. }
  { intros pre a post E b Hb. right. eapply Hbe; eassumption. }
  destruct (rr_fold_inv c order _ _ Hn1) as (_ & Hall & Hg1 & _ & _ & _ & Hin1). simpl in Hg1, Hin1.
  assert (W1 : WF n1) by (eapply rr_fold_wf; [apply WF_empty|exact Hn1]).
  assert (Hhas1 : forall l, has_gate n1 l = true <-> In l order).
  { intros l. rewrite has_gate_key, Hg1, dkeys_map_keys. tauto. }
  destruct (add_inputs_total (rr_extra0 allow n1 c) n1) as [n2 Hn2].
  { unfold rr_extra0. destruct allow; [constructor|apply NoDup_filter, (wf_inputs_nodup c W)]. }
  { unfold rr_extra0. destruct allow; [intros l []|]. intros l Hl. apply filter_In in Hl.
    destruct Hl as [_ Hl]. apply negb_true_iff in Hl. exact Hl. }
  destruct (add_inputs_inv _ _ _ Hn2) as (_ & _ & Hg2 & Hin2 & _ & _).
  assert (W2 : WF n2) by (eapply add_inputs_wf; eassumption).
  set (ins := filter (fun i => memb i (inputs n2)) (inputs c)).
  destruct (set_inputs_total n2 ins W2) as [n3 Hn3].
  { apply NoDup_filter, (wf_inputs_nodup c W). }
  { intros i. unfold ins. rewrite filter_In, memb_In. split; [tauto|]. intros Hi. split; [|exact Hi].
    rewrite Hin2, Hin1 in Hi. apply in_app_or in Hi. destruct Hi as [Hi|Hi].
    - apply filter_In in Hi. destruct Hi as [Hi Ht]. unfold is_input_at in Ht.
      destruct (Hall i Hi) as (_ & g & Hg). rewrite (gate_at_get c i g Hg) in Ht.
      apply (wf_inputs c W). exists g. split; [exact Hg|apply gtype_beq_eq; exact Ht].
    - unfold rr_extra0 in Hi. destruct allow; [destruct Hi|]. apply filter_In in Hi. tauto. }
  pose proof (set_inputs_inv _ _ _ Hn3) as E3.
  assert (Hex : forall o, In o (outputs c) -> has_gate n3 o = true).
  { intros o Hoo. rewrite E3. unfold has_gate; simpl. rewrite Hg2. unfold dmem. rewrite dget_app.
    assert (Hin : In o order) by (apply Hre, reach_start; exact Hoo).
    apply Hhas1 in Hin. unfold has_gate, dmem in Hin. destruct (dget (gates n1) o); [reflexivity|discriminate]. }
  exists (set_outputs_raw n3 (outputs c)). subst n3. subst ins.
  eapply rr_fold; try eassumption.
  unfold set_outputs. rewrite (proj2 (check_gates_exist_ok _ _) Hex). reflexivity.
Qed.

(* ---------------- B.1 the gates of the result ---------------- *)
Definition reachable (c : circuit) (l : label) : Prop := reach (ops_of c) (outputs c) l.

Theorem rr_effect allow c c' : WF c -> remove_redundant_gates allow c = Ok c' ->
  NoDup (dkeys (gates c')) /\
  (forall l g, dget (gates c') l = Some g <->
     (reachable c l /\ dget (gates c) l = Some g) \/
     (allow = false /\ ~ reachable c l /\ In l (inputs c) /\ g = mkGate INPUT [])) /\
  outputs c' = outputs c /\
  inputs c' = filter (fun i => has_gate c' i) (inputs c) /\
  (allow = false -> inputs c' = inputs c).
Proof.
  intros W H. destruct (rr_spec allow c c' H) as (order & Ho & S).
  apply dfs_emission_false in Ho. destruct Ho as (log & Hlog & Eo).
  destruct (dfs_exits_wf c (outputs c) false log W (wf_outs c W) Hlog) as (Hnd & Hre & Hbe). rewrite <- Eo in *.
  pose proof (rs_gates _ _ _ _ S) as Hg. pose proof (rs_extra _ _ _ _ S) as Hx.
  assert (Hdget : forall l g, dget (gates c') l = Some g <->
     (reachable c l /\ dget (gates c) l = Some g) \/
     (allow = false /\ ~ reachable c l /\ In l (inputs c) /\ g = mkGate INPUT [])).
  { intros l g. unfold reachable. rewrite <- Hre, Hg, dget_app.
    assert (Hdec : In l order \/ ~ In l order) by (destruct (memb l order) eqn:E; [left; apply memb_In|right; apply memb_nIn]; exact E).
    destruct Hdec as [Hl|Hl].
    - rewrite dget_map_keys by exact Hl. destruct (rs_has _ _ _ _ S l Hl) as (g0 & Hg0).
      rewrite (gate_at_get c l g0 Hg0), Hg0. split; [intros E; left; auto|]. intros [[_ E]|(_ & Hn & _)]; [exact E|contradiction].
    - rewrite dget_map_keys_none by exact Hl.
      assert (Hdec2 : In l (rr_extra allow order c) \/ ~ In l (rr_extra allow order c)).
      { destruct (memb l (rr_extra allow order c)) eqn:E; [left; apply memb_In|right; apply memb_nIn]; exact E. }
      destruct Hdec2 as [Hl2|Hl2].
      + rewrite (dget_map_keys (fun _ => mkGate INPUT []) _ l Hl2). apply Hx in Hl2. destruct Hl2 as (Ea & Hi & _).
        split; [intros [= <-]; right; auto|]. intros [[Hr _]|(_ & _ & _ & ->)]; [contradiction|reflexivity].
      + rewrite (dget_map_keys_none (fun _ => mkGate INPUT []) _ l Hl2). split; [discriminate|].
        intros [[Hr _]|(Ea & _ & Hi & _)]; [contradiction|]. exfalso. apply Hl2, Hx. auto. }
  split; [apply (wf_gkeys c' (rs_wf _ _ _ _ S))|]. split; [exact Hdget|]. split; [apply (rs_outputs _ _ _ _ S)|].
  assert (Hin : forall i, In i (inputs c) ->
            memb i (filter (is_input_at c) order ++ rr_extra allow order c) = has_gate c' i).
  { intros i Hi. apply (wf_inputs c W) in Hi. destruct Hi as (g & Hgi & Ht).
    assert (Hi : In i (inputs c)) by (apply (wf_inputs c W); eauto).
    destruct (has_gate c' i) eqn:E.
    - apply memb_In. apply has_gate_get in E. destruct E as [g' E]. apply Hdget in E.
      destruct E as [[Hr _]|(Ea & Hn & _ & _)].
      + apply in_or_app; left. apply filter_In. split; [apply Hre; exact Hr|].
        unfold is_input_at. rewrite (gate_at_get c i g Hgi), Ht. reflexivity.
      + apply in_or_app; right. apply Hx. split; [exact Ea|]. split; [exact Hi|]. rewrite Hre. exact Hn.
    - apply memb_nIn. intros Hm. apply in_app_or in Hm.
      assert (Hsome : exists g', dget (gates c') i = Some g').
      { destruct Hm as [Hm|Hm].
        - apply filter_In in Hm. destruct Hm as [Hm _]. exists g. apply Hdget. left. split; [apply Hre; exact Hm|exact Hgi].
        - apply Hx in Hm. destruct Hm as (Ea & _ & Hn). exists (mkGate INPUT []). apply Hdget. right.
          rewrite Hre in Hn. auto. }
      destruct Hsome as [g' Hg']. apply get_has_gate in Hg'. congruence. }
  assert (Ein : inputs c' = filter (fun i => has_gate c' i) (inputs c)).
  { rewrite (rs_inputs _ _ _ _ S). apply filter_ext_in. exact Hin. }
  split; [exact Ein|]. intros Ea. rewrite Ein.
  assert (Hall : forall i, In i (inputs c) -> has_gate c' i = true).
  { intros i Hi. rewrite <- (Hin i Hi). apply memb_In.
    destruct (memb i order) eqn:E.
    - apply memb_In in E. apply in_or_app; left. apply filter_In. split; [exact E|].
      apply (wf_inputs c W) in Hi. destruct Hi as (g & Hgi & Ht). unfold is_input_at.
      rewrite (gate_at_get c i g Hgi), Ht. reflexivity.
    - apply memb_nIn in E. apply in_or_app; right. apply Hx. auto. }
  clear - Hall. induction (inputs c) as [|i l IH]; simpl; [reflexivity|].
  rewrite (Hall i (or_introl eq_refl)). f_equal. apply IH. intros j Hj; apply Hall; right; exact Hj.
Qed.
