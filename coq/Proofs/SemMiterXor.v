(* C13, part 1: list helpers, the n-ary OR / unary IFF at the end of the miter, and the
   structure of generate_pairwise_xor (derived from its returning Ok: no reasoning about the
   concrete label strings is needed). *)
Require Import Cirbo.Model.Base Cirbo.Model.Gate Cirbo.Model.Den Cirbo.Model.Circuit Cirbo.Model.Eval
        Cirbo.Model.Sem Cirbo.Model.Connect Cirbo.Model.WF Cirbo.Model.Miter.
Require Import Cirbo.Generated.Operators Cirbo.Generated.GateTypes.
Require Import Cirbo.Proofs.DictFacts Cirbo.Proofs.OpFacts Cirbo.Proofs.WFBase Cirbo.Proofs.WFSimple
        Cirbo.Proofs.WFEmplace Cirbo.Proofs.SemFacts Cirbo.Proofs.SemExtConnect.

(* ------------------------------------------------------------------ *)
Lemma Forall2_of_nth {A B} (P : A -> B -> Prop) : forall l m,
  length l = length m ->
  (forall i x y, nth_error l i = Some x -> nth_error m i = Some y -> P x y) -> Forall2 P l m.
Proof.
  induction l as [|x l IH]; intros [|y m] Hlen H; try discriminate; constructor.
  - apply (H 0); reflexivity.
  - apply IH; [simpl in Hlen; lia|]. intros i; apply (H (S i)).
Qed.

Lemma Forall2_nth {A B} (P : A -> B -> Prop) : forall l m i x y,
  Forall2 P l m -> nth_error l i = Some x -> nth_error m i = Some y -> P x y.
Proof.
  intros l m i x y H; revert i; induction H as [|a b l m Hab _ IH]; intros i Hx Hy; [destruct i; discriminate|].
  destruct i as [|i]; simpl in *; [injection Hx as <-; injection Hy as <-; exact Hab|eapply IH; eassumption].
Qed.

Lemma nth_error_combine {A B} : forall (l : list A) (m : list B) i x y,
  nth_error l i = Some x -> nth_error m i = Some y -> nth_error (combine l m) i = Some (x, y).
Proof.
  induction l as [|a l IH]; intros [|b m] i x y Hx Hy; destruct i; simpl in *; try discriminate.
  - injection Hx as <-; injection Hy as <-; reflexivity.
  - apply IH; assumption.
Qed.

Lemma nth_error_some_lt {A} (l : list A) i x : nth_error l i = Some x -> i < length l.
Proof. intros H; apply nth_error_Some; congruence. Qed.

Lemma nth_error_lt_some {A} (l : list A) i : i < length l -> exists x, nth_error l i = Some x.
Proof. intros H. apply nth_error_Some in H. destruct (nth_error l i); [eauto|congruence]. Qed.

Lemma nth_error_app_l {A} (l m : list A) i x : nth_error l i = Some x -> nth_error (l ++ m) i = Some x.
Proof. intros H. rewrite nth_error_app1; [exact H|eapply nth_error_some_lt; exact H]. Qed.

Lemma nth_error_app_r {A} (l m : list A) i x : nth_error m i = Some x -> nth_error (l ++ m) (length l + i) = Some x.
Proof. intros H. rewrite nth_error_app2 by lia. replace (length l + i - length l) with i by lia. exact H. Qed.

(* ------------------------------------------------------------------ *)
(* the last gate of the miter: OR over >= 2 operands, IFF over one *)
Lemma fold_orb_true : forall l a, fold_left orb l a = true <-> a = true \/ In true l.
Proof.
  induction l as [|x l IH]; intros a; simpl; [tauto|].
  rewrite IH. destruct a, x; simpl; intuition congruence.
Qed.

Definition miter_top (n : nat) : gtype := if Nat.ltb 1 n then OR else IFF.

Lemma miter_top_value (xl : list bool) :
  xl <> [] ->
  exists b, operator_of (miter_top (length xl)) (map inj xl) = Ok (inj b) /\ (b = true <-> In true xl).
Proof.
  intros Hne. destruct xl as [|x0 [|x1 rest]]; [contradiction| |].
  - exists x0. split; [destruct x0; reflexivity|]. simpl. intuition congruence.
  - exists (fold_left orb (x1 :: rest) x0). split.
    + unfold miter_top. simpl Nat.ltb. cbv iota. rewrite operator_of_den. reflexivity.
    + rewrite fold_orb_true. simpl. intuition congruence.
Qed.

Lemma xor_gate_value v1 v2 : operator_of XOR [v1; v2] = Ok (xor3 v1 v2).
Proof. reflexivity. Qed.

(* ------------------------------------------------------------------ *)
(* zip3 *)
Lemma nth_error_zip3 : forall a b c i x y z,
  nth_error (zip3 a b c) i = Some (x, y, z) ->
  nth_error a i = Some x /\ nth_error b i = Some y /\ nth_error c i = Some z.
Proof.
  induction a as [|a0 a IH]; intros [|b0 b] [|c0 c] i x y z H; try (destruct i; discriminate).
  destruct i as [|i]; simpl in *; [injection H as <- <- <-; auto|apply IH, H].
Qed.

Lemma zip3_length : forall a b c n, length a = n -> length b = n -> length c = n -> length (zip3 a b c) = n.
Proof.
  induction a as [|a0 a IH]; intros [|b0 b] [|c0 c] n Ha Hb Hc; simpl in *; try congruence.
  destruct n; [discriminate|]. f_equal. apply IH; lia.
Qed.

Lemma zip3_thirds : forall a b c, length a = length c -> length b = length c ->
  map (fun t : label * label * label => snd t) (zip3 a b c) = c.
Proof.
  induction a as [|a0 a IH]; intros [|b0 b] [|c0 c] Ha Hb; simpl in *; try congruence; try discriminate.
  f_equal. apply IH; lia.
Qed.

Lemma generate_labels_length p n : length (generate_labels p n) = n.
Proof. unfold generate_labels. rewrite map_length, seq_length. reflexivity. Qed.

(* ------------------------------------------------------------------ *)
(* add_inputs *)
Lemma add_inputs_spec : forall ls c c', add_inputs c ls = Ok c' ->
  inputs c' = inputs c ++ ls /\ outputs c' = outputs c /\
  (forall x g, dget (gates c) x = Some g -> dget (gates c') x = Some g) /\
  (forall x, In x ls -> dget (gates c') x = Some (mkGate INPUT [])).
Proof.
  induction ls as [|l ls IH]; intros c c' H; simpl in H.
  - injection H as <-. rewrite app_nil_r. repeat split; auto. intros x [].
  - binv H u Hu. binv H c1 H1. apply emplace_gate_inv in H1. destruct H1 as (Hnl & _ & ->).
    apply IH in H. destruct H as (Hi & Ho & Hg & Hn).
    assert (Hkeep : forall x g, dget (gates c) x = Some g ->
                                dget (gates (emplace_gate_raw c l INPUT [])) x = Some g).
    { intros x g Hx. rewrite emplace_raw_gates, dget_dset. destruct (leqb_spec x l) as [->|_]; [|exact Hx].
      apply get_has_gate in Hx. congruence. }
    split; [rewrite Hi, emplace_raw_inputs; simpl; rewrite <- app_assoc; reflexivity|].
    split; [rewrite Ho, emplace_raw_outputs; reflexivity|].
    split; [intros x g Hx; apply Hg, Hkeep, Hx|].
    intros x [<-|Hx]; [|apply Hn, Hx].
    apply Hg. rewrite emplace_raw_gates. apply dget_dset_same.
Qed.

(* generate_pairwise_xor *)
Record PxSpec (n : nat) (px : circuit) (xs ys rs : list label) : Prop := mkPxSpec {
  px_wf : WF px;
  px_len : length xs = n /\ length ys = n /\ length rs = n;
  px_inputs : inputs px = xs ++ ys;
  px_outputs : outputs px = rs;
  px_xor : forall i x y r, nth_error xs i = Some x -> nth_error ys i = Some y -> nth_error rs i = Some r ->
                           dget (gates px) r = Some (mkGate XOR [x; y]) }.

Theorem generate_pairwise_xor_spec_labels n px :
  generate_pairwise_xor n = Ok px ->
  PxSpec n px (generate_labels "x" n) (generate_labels "y" n) (generate_labels "xor" n).
Proof.
  unfold generate_pairwise_xor. intros H. binv H c1 H1. binv H c2 H2.
  set (xs := generate_labels "x" n) in *. set (ys := generate_labels "y" n) in *.
  set (rs := generate_labels "xor" n) in *.
  pose proof (add_inputs_wf _ _ _ WF_empty H1) as W1. pose proof (add_inputs_wf _ _ _ W1 H2) as W2.
  destruct (add_inputs_spec _ _ _ H1) as (I1 & O1 & _ & _).
  destruct (add_inputs_spec _ _ _ H2) as (I2 & O2 & _ & _).
  simpl in I1, O1. rewrite I1 in I2. rewrite O1 in O2.
  assert (P : WF px /\ inputs px = xs ++ ys /\
              outputs px = map (fun t : label * label * label => snd t) (zip3 xs ys rs) /\
              forall x y r, In (x, y, r) (zip3 xs ys rs) -> dget (gates px) r = Some (mkGate XOR [x; y])).
  { revert H. apply (foldM_prefix_inv _ (fun done c =>
      WF c /\ inputs c = xs ++ ys /\ outputs c = map (fun t : label * label * label => snd t) done /\
      forall x y r, In (x, y, r) done -> dget (gates c) r = Some (mkGate XOR [x; y]))).
    - intros done [[x y] r0] rest c c' _ (W & Hi & Ho & Hg) Hs.
      binv Hs c3 H3. unfold add_gate in H3. pose proof (emplace_gate_wf _ _ _ _ _ W H3) as W3.
      apply emplace_gate_inv in H3. destruct H3 as (Hnl & _ & E3).
      pose proof (mark_as_output_wf _ _ _ W3 Hs) as W'.
      unfold mark_as_output in Hs. binv Hs u Hu. injection Hs as <-.
      assert (F1 : inputs c3 = inputs c) by (rewrite E3, emplace_raw_inputs; reflexivity).
      assert (F2 : outputs c3 = outputs c) by (rewrite E3; apply emplace_raw_outputs).
      assert (F3 : gates c3 = dset (gates c) r0 (mkGate XOR [x; y])) by (rewrite E3; apply emplace_raw_gates).
      clear E3. unfold set_outputs_raw; cbn [inputs outputs gates].
      split; [exact W'|]. split; [rewrite F1; exact Hi|]. split.
      + rewrite F2, Ho, map_app. reflexivity.
      + intros x' y' r' Hin. rewrite F3, dget_dset.
        apply in_app_or in Hin. destruct Hin as [Hin|[E|[]]].
        * destruct (leqb_spec r' r0) as [->|_]; [|apply Hg, Hin].
          pose proof (Hg _ _ _ Hin) as Hx. apply get_has_gate in Hx. congruence.
        * injection E as <- <- <-. rewrite leqb_refl. reflexivity.
    - split; [exact W2|]. split; [exact I2|]. split; [exact O2|]. intros x y r [].
  }
  destruct P as (W & Hi & Ho & Hg).
  assert (Lx : length xs = n) by apply generate_labels_length.
  assert (Ly : length ys = n) by apply generate_labels_length.
  assert (Lr : length rs = n) by apply generate_labels_length.
  constructor.
  - exact W.
  - auto.
  - exact Hi.
  - rewrite Ho. apply zip3_thirds; congruence.
  - intros i x y r Hx Hy Hr. apply Hg.
    assert (Hlt : i < length (zip3 xs ys rs)).
    { rewrite (zip3_length xs ys rs n Lx Ly Lr). rewrite <- Lx. eapply nth_error_some_lt; exact Hx. }
    destruct (nth_error_lt_some _ _ Hlt) as [[[x' y'] r'] Ht].
    pose proof (nth_error_zip3 _ _ _ _ _ _ _ Ht) as (A & B & C).
    assert (x' = x) by congruence. assert (y' = y) by congruence. assert (r' = r) by congruence. subst x' y' r'.
    eapply nth_error_In; exact Ht.
Qed.

Theorem generate_pairwise_xor_spec n px :
  generate_pairwise_xor n = Ok px -> exists xs ys rs, PxSpec n px xs ys rs.
Proof. intros H. eexists; eexists; eexists. apply generate_pairwise_xor_spec_labels, H. Qed.
