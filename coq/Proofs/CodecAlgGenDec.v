(* T16 tie, part 4: the regenerated circuit DECODER (Generated/CodecAlgGen.v, from
   cirbo/circuits_db/circuits_encoding.py) against the hand model Model/Codec.v.

   The generated decoder threads a BitReader object, a Dict[int, Gate] and the circuit; the hand model threads
   the bits not yet read, the list of labels by identifier and the circuit.  `drel` below is the simulation
   relation; the result `gen_decode_circuit bs = decode_circuit bs` holds for EVERY byte string. *)
Require Import Cirbo.Model.Base Cirbo.Model.Gate Cirbo.Model.Circuit Cirbo.Model.BitIO Cirbo.Model.Codec.
Require Import Cirbo.Generated.CodecTables Cirbo.Generated.CircuitCore Cirbo.Generated.CircuitAlgos.
Require Import Cirbo.Generated.CodecAlgGen.
Require Import Cirbo.Proofs.BitIOFacts Cirbo.Proofs.CircuitCoreGen.
Require Import Cirbo.Proofs.CodecAlgGenBits Cirbo.Proofs.CodecAlgGenEnc.

(* ---- results related by a relation ---- *)
Definition rrel {A B} (R : A -> B -> Prop) (x : res A) (y : res B) : Prop :=
  match x, y with
  | Ok a, Ok b => R a b
  | Err e, Err f => e = f
  | _, _ => False
  end.

Lemma rrel_eq {A} (x y : res A) : rrel eq x y -> x = y.
Proof. destruct x, y; simpl; intros H; try contradiction; congruence. Qed.

Lemma rrel_bind {A B A' B'} (R : A -> B -> Prop) (R' : A' -> B' -> Prop) x y f g :
  rrel R x y -> (forall a b, R a b -> rrel R' (f a) (g b)) -> rrel R' (bind x f) (bind y g).
Proof. destruct x, y; simpl; intros H Hf; try contradiction; [apply Hf, H|exact H]. Qed.

(* ---- range(n) ---- *)
Lemma py_range_0 n : py_range 0 (Z.of_nat n) = map Z.of_nat (seq 0 n).
Proof.
  unfold py_range. rewrite Z.sub_0_r, Nat2Z.id. apply map_ext. intros i. reflexivity.
Qed.

Lemma py_range_0_N n : py_range 0 (Z.of_N n) = map Z.of_nat (seq 0 (N.to_nat n)).
Proof. rewrite <- (N2Nat.id n) at 1. rewrite nat_N_Z. apply py_range_0. Qed.

(* a loop of the hand model (iterM) against a generated foldM over range: an indexed simulation *)
Lemma iter_sim {S G} (R : nat -> S -> G -> Prop) (f : S -> res S) (F : G -> Z -> res G) :
  (forall i s g, R i s g -> rrel (R (Datatypes.S i)) (f s) (F g (Z.of_nat i))) ->
  forall n a s g, R a s g -> rrel (R (a + n)%nat) (iterM n f s) (foldM F (map Z.of_nat (seq a n)) g).
Proof.
  intros Hstep n. induction n as [|n IH]; intros a s g HR; simpl.
  - rewrite Nat.add_0_r. exact HR.
  - specialize (Hstep a s g HR).
    destruct (f s) as [s'|e], (F g (Z.of_nat a)) as [g'|e']; simpl in *; try contradiction; [|exact Hstep].
    replace (a + Datatypes.S n)%nat with (Datatypes.S a + n)%nat by lia. apply IH, Hstep.
Qed.

(* ---- the Dict[int, Gate] of the decoder: keys 0 .. len-1 in order ---- *)
Fixpoint zg_from (a : nat) (fl : list (label * gate)) : list (Z * (label * gate)) :=
  match fl with
  | [] => []
  | x :: r => (Z.of_nat a, x) :: zg_from (Datatypes.S a) r
  end.

Lemma zg_len a fl : py_len (zg_from a fl) = Z.of_nat (length fl).
Proof. unfold py_len. f_equal. revert a; induction fl as [|x r IH]; intros a; simpl; [reflexivity|f_equal; apply IH]. Qed.

Lemma zg_get_low a fl z : (z < Z.of_nat a)%Z -> kget Z.eqb (zg_from a fl) z = None.
Proof.
  revert a; induction fl as [|x r IH]; intros a Hz; simpl; [reflexivity|].
  destruct (Z.eqb_spec z (Z.of_nat a)); [lia|]. apply IH. lia.
Qed.

Lemma zg_get a fl i : kget Z.eqb (zg_from a fl) (Z.of_nat (a + i)) = nth_error fl i.
Proof.
  revert a i; induction fl as [|x r IH]; intros a i; simpl; [destruct i; reflexivity|].
  destruct i as [|i]; simpl.
  - rewrite Nat.add_0_r, Z.eqb_refl. reflexivity.
  - destruct (Z.eqb_spec (Z.of_nat (a + Datatypes.S i)) (Z.of_nat a)); [lia|].
    replace (a + Datatypes.S i)%nat with (Datatypes.S a + i)%nat by lia. apply IH.
Qed.

Lemma zg_set a fl x : kset Z.eqb (zg_from a fl) (Z.of_nat (a + length fl)) x = zg_from a (fl ++ [x]).
Proof.
  revert a; induction fl as [|y r IH]; intros a; simpl.
  - rewrite Nat.add_0_r. reflexivity.
  - destruct (Z.eqb_spec (Z.of_nat (a + Datatypes.S (length r))) (Z.of_nat a)); [lia|].
    f_equal. replace (a + Datatypes.S (length r))%nat with (Datatypes.S a + length r)%nat by lia. apply IH.
Qed.

(* gates.get(id) for an identifier read from the stream, against the hand model's nth_label *)
Lemma zg_get_N fl (i : N) :
  option_map fst (kget Z.eqb (zg_from 0 fl) (Z.of_N i)) = nth_label (map fst fl) i.
Proof.
  unfold nth_label. rewrite map_length.
  rewrite <- (N2Nat.id i) at 1. rewrite nat_N_Z.
  change (Z.of_nat (N.to_nat i)) with (Z.of_nat (0 + N.to_nat i)). rewrite (zg_get 0 fl (N.to_nat i)).
  destruct (N.ltb_spec i (N.of_nat (length fl))) as [Hlt|Hge].
  - rewrite nth_error_map. reflexivity.
  - assert (Hn : nth_error fl (N.to_nat i) = None) by (apply nth_error_None; lia).
    rewrite Hn. reflexivity.
Qed.

(* ---- the reader ---- *)
Lemma skipn_add {A} k n (l : list A) : skipn k (skipn n l) = skipn (n + k) l.
Proof.
  revert l; induction n as [|n IH]; intros l; simpl; [reflexivity|].
  destruct l as [|x l]; [destruct k; reflexivity|apply IH].
Qed.

Lemma rd_number data n k : (n <= 8 * length data)%nat ->
  match read_number k (skipn n (unpack data)) with
  | Ok (x, r') =>
      gen_BitReader_read_number (br_at data n) (Z.of_nat k) = Ok (Z.of_N x, br_at data (n + k))
      /\ r' = skipn (n + k) (unpack data) /\ (n + k <= 8 * length data)%nat
  | Err e => gen_BitReader_read_number (br_at data n) (Z.of_nat k) = Err e
  end.
Proof.
  intros Hn. rewrite (gen_BitReader_read_number_eq data n k Hn).
  destruct (read_number k (skipn n (unpack data))) as [[x r']|e] eqn:E; simpl; [|reflexivity].
  destruct (read_number_rest _ _ _ _ E) as [Hr Hlen].
  rewrite skipn_length, length_unpack in Hlen.
  split; [reflexivity|]. split; [|lia].
  rewrite Hr. apply skipn_add.
Qed.

(* reader state against unread bits *)
Definition rdrel (data : bytes) (r : bits) (br : gen_BitReader) : Prop :=
  exists n, (n <= 8 * length data)%nat /\ br = br_at data n /\ r = skipn n (unpack data).

Lemma rd_number_rel data r br k :
  rdrel data r br ->
  rrel (fun xr zb => fst zb = Z.of_N (fst xr) /\ rdrel data (snd xr) (snd zb))
       (read_number k r) (gen_BitReader_read_number br (Z.of_nat k)).
Proof.
  intros (n & Hn & -> & ->). pose proof (rd_number data n k Hn) as H.
  destruct (read_number k (skipn n (unpack data))) as [[x r']|e]; simpl.
  - destruct H as (-> & -> & Hle). simpl. split; [reflexivity|]. exists (n + k)%nat. auto.
  - rewrite H. reflexivity.
Qed.

(* ---- the operand loop of _decode_gate ---- *)
Definition oprel data (fl : list (label * gate)) (s : list label * bits) (g : gen_BitReader * list label) : Prop :=
  fst s = snd g /\ rdrel data (snd s) (fst g).

Definition ops_body (fl : list (label * gate)) (ws : nat) :=
  (fun '((v_bit_reader, v_operands) : gen_BitReader * (list label)) (v__ : Z) =>
          do (v_arg_gate_id, v_bit_reader) <- gen_BitReader_read_number v_bit_reader (Z.of_nat ws);
          let v_arg_gate := kget Z.eqb (zg_from 0 fl) v_arg_gate_id in
          match v_arg_gate with
          | None =>
            Err CircuitEncodingError
          | Some v_arg_gate =>
            let v_operands := v_operands ++ [fst v_arg_gate] in
            Ok (v_bit_reader, v_operands)
          end).

Lemma operands_sim data fl ws n : forall a r br acc,
  rdrel data r br ->
  rrel (oprel data fl)
    (read_operands n ws r (map fst fl) acc)
    (foldM (ops_body fl ws) (map Z.of_nat (seq a n)) (br, acc)).
Proof.
  induction n as [|n IH]; intros a r br acc Hrd; simpl.
  - split; [reflexivity|exact Hrd].
  - pose proof (rd_number_rel data r br ws Hrd) as H.
    destruct (read_number ws r) as [[x r']|e], (gen_BitReader_read_number br (Z.of_nat ws)) as [[z br']|e'];
      simpl in *; try contradiction; [|exact H].
    destruct H as (-> & Hrd').
    pose proof (zg_get_N fl x) as Hg.
    destruct (kget Z.eqb (zg_from 0 fl) (Z.of_N x)) as [[l g]|]; simpl in Hg; rewrite <- Hg; simpl.
    + apply IH, Hrd'.
    + reflexivity.
Qed.

(* ---- the decoder state ---- *)
Definition drel (data : bytes) (st : dstate) (g : gen_BitReader * list (Z * (label * gate)) * circuit) : Prop :=
  let '(r, gl, c) := st in
  let '(br, gs, c') := g in
  rdrel data r br /\ (exists fl, gs = zg_from 0 fl /\ gl = map fst fl) /\ c' = c.

Lemma decode_gate_sim data ws st br gs c :
  drel data st (br, gs, c) ->
  rrel (drel data) (decode_gate ws st) (gen__decode_gate br (Z.of_nat ws) gs c).
Proof.
  destruct st as [[r gl] c0]. intros (Hrd & (fl & -> & ->) & ->).
  unfold decode_gate, gen__decode_gate.
  pose proof (rd_number_rel data r br GATE_TYPE_BIT_SIZE Hrd) as H.
  rewrite gen_GATE_TYPE_BIT_SIZE_eq.
  destruct (read_number GATE_TYPE_BIT_SIZE r) as [[x r']|e],
           (gen_BitReader_read_number br (Z.of_nat GATE_TYPE_BIT_SIZE)) as [[z br']|e'];
    simpl in H; try contradiction; cbn [bind fst snd]; [|exact H].
  destruct H as (-> & Hrd'). rewrite gen__int_to_gate_type_eq.
  destruct (int_to_gate_type x) as [t|]; [|reflexivity].
  rewrite zg_len, map_length, <- nat_N_Z, gen__generate_label_eq. cbn [bind].
  rewrite gen__get_arity_eq. cbn [bind]. rewrite py_range_0.
  pose proof (operands_sim data fl ws (get_arity t) 0 r' br' [] Hrd') as Hops. unfold ops_body in Hops.
  destruct (read_operands (get_arity t) ws r' (map fst fl) []) as [[ops r'']|e]; simpl in Hops.
  - match type of Hops with match ?X with _ => _ end => destruct X as [[br'' ops']|e'] end; [|contradiction].
    destruct Hops as (Ho & Hrd''). simpl in Ho, Hrd''. subst ops'. cbn [bind fst snd].
    rewrite gen_add_gate_eq. simpl gtyp. simpl gops.
    destruct (add_gate c0 (gen_label (N.of_nat (length fl))) t ops) as [c'|e]; simpl; [|reflexivity].
    split; [exact Hrd''|]. split; [|reflexivity].
    exists (fl ++ [(gen_label (N.of_nat (length fl)), mkGate t ops)]). split.
    + rewrite nat_N_Z. apply (zg_set 0 fl).
    + rewrite map_app. reflexivity.
  - match type of Hops with match ?X with _ => _ end => destruct X as [[br'' ops']|e'] end; [contradiction|].
    subst e'. reflexivity.
Qed.

(* ---- the three loops of _decode_circuit_body ---- *)
Definition in_body :=
  (fun '((v_circuit, v_gates) : circuit * (list (Z * (label * gate)))) (v_i : Z) =>
        do t1 <- gen__generate_label v_i;
        let v_gate_ := (t1, mkGate INPUT []) in
        let v_gates := kset Z.eqb v_gates v_i v_gate_ in
        do v_circuit <- gen_add_gate v_circuit (fst v_gate_) (snd v_gate_);
        Ok (v_circuit, v_gates)).

Definition inrel (r0 : bits) (i : nat) (st : dstate) (g : circuit * list (Z * (label * gate))) : Prop :=
  let '(r, gl, c) := st in
  r = r0 /\ (exists fl, snd g = zg_from 0 fl /\ gl = map fst fl /\ length fl = i) /\ fst g = c.

Lemma input_step r0 i st g :
  inrel r0 i st g -> rrel (inrel r0 (S i)) (decode_input st) (in_body g (Z.of_nat i)).
Proof.
  destruct st as [[r gl] c], g as [c' gs]. intros (-> & (fl & Hgs & -> & Hlen) & Hc). simpl in Hgs, Hc. subst gs c'.
  unfold decode_input, in_body. rewrite map_length, Hlen.
  rewrite <- nat_N_Z, gen__generate_label_eq. cbn [bind fst snd].
  rewrite gen_add_gate_eq. simpl gtyp. simpl gops.
  destruct (add_gate c (gen_label (N.of_nat i)) INPUT []) as [c'|e]; simpl; [|reflexivity].
  split; [reflexivity|]. split; [|reflexivity].
  exists (fl ++ [(gen_label (N.of_nat i), mkGate INPUT [])]). split; [|split].
  - rewrite nat_N_Z. rewrite <- Hlen. apply (zg_set 0 fl).
  - rewrite map_app. reflexivity.
  - rewrite app_length. simpl. lia.
Qed.

Definition gate_body (ws : Z) :=
  (fun '((v_bit_reader, v_circuit, v_gates) : gen_BitReader * circuit * (list (Z * (label * gate)))) (v__ : Z) =>
        do (v_bit_reader, v_gates, v_circuit) <- gen__decode_gate v_bit_reader ws v_gates v_circuit;
        Ok (v_bit_reader, v_circuit, v_gates)).

Definition grel (data : bytes) (st : dstate) (g : gen_BitReader * circuit * list (Z * (label * gate))) : Prop :=
  let '(br, c, gs) := g in drel data st (br, gs, c).

Lemma gate_step data ws i st g :
  grel data st g -> rrel (grel data) (decode_gate ws st) (gate_body (Z.of_nat ws) g (Z.of_nat i)).
Proof.
  destruct g as [[br c] gs]. intros H. unfold gate_body.
  pose proof (decode_gate_sim data ws st br gs c H) as Hs.
  destruct (decode_gate ws st) as [st'|e], (gen__decode_gate br (Z.of_nat ws) gs c) as [[[br' gs'] c']|e'];
    simpl in Hs; try contradiction; cbn [bind]; [exact Hs|exact Hs].
Qed.

Definition out_body (ws : Z) :=
  (fun '((v_bit_reader, v_circuit) : gen_BitReader * circuit) (v__ : Z) =>
        do (v_output_id, v_bit_reader) <- gen_BitReader_read_number v_bit_reader ws;
        do t2 <- gen__generate_label v_output_id;
        do v_circuit <- gen_mark_as_output v_circuit t2;
        Ok (v_bit_reader, v_circuit)).

Definition orel (data : bytes) (st : dstate) (g : gen_BitReader * circuit) : Prop :=
  let '(r, gl, c) := st in rdrel data r (fst g) /\ snd g = c.

Lemma out_step data ws i st g :
  orel data st g -> rrel (orel data) (decode_output ws st) (out_body (Z.of_nat ws) g (Z.of_nat i)).
Proof.
  destruct st as [[r gl] c], g as [br c']. intros (Hrd & Hc). simpl in Hrd, Hc. subst c'.
  unfold decode_output, out_body.
  pose proof (rd_number_rel data r br ws Hrd) as H.
  destruct (read_number ws r) as [[x r']|e], (gen_BitReader_read_number br (Z.of_nat ws)) as [[z br']|e'];
    simpl in H; try contradiction; cbn [bind fst snd]; [|exact H].
  destruct H as (-> & Hrd'). rewrite gen__generate_label_eq. cbn [bind].
  rewrite gen_mark_as_output_eq.
  destruct (mark_as_output c (gen_label x)) as [c'|e]; simpl; [|reflexivity].
  split; [exact Hrd'|reflexivity].
Qed.

Lemma decode_body_sim data r br ws n1 n2 n3 :
  rdrel data r br ->
  rrel eq
    (do s1 <- iterM (N.to_nat n1) decode_input (r, [], empty_circuit);
     do s2 <- iterM (N.to_nat n3) (decode_gate ws) s1;
     do s3 <- iterM (N.to_nat n2) (decode_output ws) s2;
     Ok (snd s3))
    (do (_, c) <- gen__decode_circuit_body br (Z.of_nat ws) (Z.of_N n1) (Z.of_N n2) (Z.of_N n3) empty_circuit;
     Ok c).
Proof.
  intros Hrd. unfold gen__decode_circuit_body. rewrite !py_range_0_N.
  fold in_body. fold (gate_body (Z.of_nat ws)). fold (out_body (Z.of_nat ws)).
  pose proof (iter_sim (inrel r) decode_input in_body (input_step r) (N.to_nat n1) 0
                (r, [], empty_circuit) (empty_circuit, [])) as H1.
  assert (H0 : inrel r 0 (r, [], empty_circuit) (empty_circuit, [])).
  { split; [reflexivity|]. split; [|reflexivity]. exists []. repeat split. }
  specialize (H1 H0).
  destruct (iterM (N.to_nat n1) decode_input (r, [], empty_circuit)) as [[[r1 gl1] c1]|e],
           (foldM in_body (map Z.of_nat (seq 0 (N.to_nat n1))) (empty_circuit, [])) as [[c1' gs1]|e'];
    simpl in H1; try contradiction; cbn [bind]; [|exact H1].
  destruct H1 as (-> & (fl & Hgs & -> & _) & Hc). simpl in Hgs, Hc. subst gs1 c1'.
  pose proof (iter_sim (fun _ => grel data) (decode_gate ws) (gate_body (Z.of_nat ws))
                (gate_step data ws) (N.to_nat n3) 0 (r, map fst fl, c1) (br, c1, zg_from 0 fl)) as H2.
  assert (H20 : grel data (r, map fst fl, c1) (br, c1, zg_from 0 fl)).
  { split; [exact Hrd|]. split; [exists fl; split; reflexivity|reflexivity]. }
  specialize (H2 H20).
  destruct (iterM (N.to_nat n3) (decode_gate ws) (r, map fst fl, c1)) as [[[r2 gl2] c2]|e],
           (foldM (gate_body (Z.of_nat ws)) (map Z.of_nat (seq 0 (N.to_nat n3))) (br, c1, zg_from 0 fl))
             as [[[br2 c2'] gs2]|e'];
    simpl in H2; try contradiction; cbn [bind]; [|exact H2].
  destruct H2 as (Hrd2 & _ & ->).
  pose proof (iter_sim (fun _ => orel data) (decode_output ws) (out_body (Z.of_nat ws))
                (out_step data ws) (N.to_nat n2) 0 (r2, gl2, c2) (br2, c2)) as H3.
  assert (H30 : orel data (r2, gl2, c2) (br2, c2)) by (split; [exact Hrd2|reflexivity]).
  specialize (H3 H30).
  destruct (iterM (N.to_nat n2) (decode_output ws) (r2, gl2, c2)) as [[[r3 gl3] c3]|e],
           (foldM (out_body (Z.of_nat ws)) (map Z.of_nat (seq 0 (N.to_nat n2))) (br2, c2)) as [[br3 c3']|e'];
    simpl in H3; try contradiction; cbn [bind]; [|exact H3].
  destruct H3 as (_ & Hc3). simpl in Hc3. simpl. congruence.
Qed.

(* ---- decode_circuit: for every byte string, the same circuit or the same error ---- *)
Theorem gen_decode_circuit_eq bs : gen_decode_circuit bs = decode_circuit bs.
Proof.
  symmetry. apply rrel_eq.
  unfold gen_decode_circuit, decode_circuit, decode_bits, gen__decode_header, gen__decode_circuit_parameters.
  rewrite gen_BitReader_init_eq. cbn [bind].
  assert (H0 : rdrel bs (unpack bs) (br_at bs 0)) by (exists 0%nat; repeat split; lia).
  unfold read_byte, gen_BitReader_read_byte.
  pose proof (rd_number_rel bs _ _ 8 H0) as Hb. change (Z.of_nat 8) with 8%Z in Hb.
  destruct (read_number 8 (unpack bs)) as [[w r0]|e], (gen_BitReader_read_number (br_at bs 0) 8) as [[z br0]|e'];
    simpl in Hb; try contradiction; cbn [bind fst snd]; [|exact Hb].
  destruct Hb as (-> & Hrd0).
  assert (Hw : Z.of_N w = Z.of_nat (N.to_nat w)) by (rewrite N_nat_Z; reflexivity).
  rewrite Hw. clear Hw. set (ws := N.to_nat w).
  pose proof (rd_number_rel bs _ _ ws Hrd0) as H1.
  destruct (read_number ws r0) as [[n1 r1]|e], (gen_BitReader_read_number br0 (Z.of_nat ws)) as [[z1 br1]|e'];
    simpl in H1; try contradiction; cbn [bind fst snd]; [|exact H1].
  destruct H1 as (-> & Hrd1).
  pose proof (rd_number_rel bs _ _ ws Hrd1) as H2.
  destruct (read_number ws r1) as [[n2 r2]|e], (gen_BitReader_read_number br1 (Z.of_nat ws)) as [[z2 br2]|e'];
    simpl in H2; try contradiction; cbn [bind fst snd]; [|exact H2].
  destruct H2 as (-> & Hrd2).
  pose proof (rd_number_rel bs _ _ ws Hrd2) as H3.
  destruct (read_number ws r2) as [[n3 r3]|e], (gen_BitReader_read_number br2 (Z.of_nat ws)) as [[z3 br3]|e'];
    simpl in H3; try contradiction; cbn [bind fst snd]; [|exact H3].
  destruct H3 as (-> & Hrd3).
  pose proof (decode_body_sim bs r3 br3 ws n1 n2 n3 Hrd3) as Hbody.
  destruct (gen__decode_circuit_body br3 (Z.of_nat ws) (Z.of_N n1) (Z.of_N n2) (Z.of_N n3) empty_circuit)
    as [[br4 c4]|e']; cbn [bind] in Hbody |- *; exact Hbody.
Qed.
