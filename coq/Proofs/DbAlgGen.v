(* T23 tie for C17: the regenerated methods of the class CircuitsDatabase (Generated/DbAlgGen.v, from
   cirbo/circuits_db/db.py) against the hand model Model/Db.v: get_by_label, get_by_raw_truth_table, add_circuit,
   save.  (get_by_raw_truth_table_model: Proofs/DbAlgGenModel.v.)

   Every method is stated twice: on the object that is not opened (`db_obj None`: CircuitDatabaseNotOpenedError,
   raised where the source raises it - after NormalizationInfo(t) for get_by_raw_truth_table), and on an opened
   object (`db_obj (Some d)`: the hand model on the dictionary d).  See Proofs/DbAlgGenDefs.v for to_db2. *)
Require Import Cirbo.Model.Base Cirbo.Model.Gate Cirbo.Model.Circuit Cirbo.Model.Eval Cirbo.Model.BitIO Cirbo.Model.DictIO.
Require Import Cirbo.Model.Codec Cirbo.Model.Db.
Require Import Cirbo.Generated.CodecAlgGen Cirbo.Generated.NormAlgGen Cirbo.Generated.DbAlgGen.
Require Import Cirbo.Proofs.CodecAlgGenDict Cirbo.Proofs.CodecAlgGenEnc Cirbo.Proofs.CodecAlgGenDec.
Require Import Cirbo.Proofs.NormAlgGen Cirbo.Proofs.NormAlgGenDen.
Require Import Cirbo.Proofs.DbAlgGenDefs Cirbo.Proofs.DbAlgGenErr.

(* ---- to_db2 ---- *)
Lemma to_db2_err {A} e : db_alias e = false -> @to_db2 A (Err e) = DbErr (BaseErr e).
Proof. destruct e; intros H; try reflexivity; discriminate H. Qed.

Lemma to_db2_lift {A} (r : res A) : (forall e, r = Err e -> db_alias e = false) -> to_db2 r = lift r.
Proof. destruct r as [a|e]; intros H; [reflexivity|]. simpl lift. apply to_db2_err, H. reflexivity. Qed.

Lemma to_db2_bind_ok {A B} (r : res A) (f : A -> B) :
  to_db2 (do x <- r; Ok (f x)) = dbdo x <- to_db2 r; DbOk (f x).
Proof. destruct r as [a|e]; [reflexivity|]. destruct e; reflexivity. Qed.

(* denormalize: T16's equality (through to_db) read through to_db2 *)
Lemma to_db2_denormalize ni c :
  to_db2 (gen_NormalizationInfo_denormalize (gen_of_norm ni) c) = denormalize ni c.
Proof.
  pose proof (gen_denormalize_eq ni c) as H.
  destruct (gen_NormalizationInfo_denormalize (gen_of_norm ni) c) as [c'|e]; [exact H|].
  destruct e; try exact H.
  simpl in H. symmetry in H. apply denormalize_no_alias in H. discriminate H.
Qed.

(* ---- get_by_label ---- *)
Theorem gen_get_by_label_closed l :
  gen_CircuitsDatabase_get_by_label (db_obj None) l = Err NotOpened.
Proof. reflexivity. Qed.

Theorem gen_get_by_label_eq d l :
  gen_CircuitsDatabase_get_by_label (db_obj (Some d)) l = get_by_label d l.
Proof.
  unfold gen_CircuitsDatabase_get_by_label, get_by_label, db_obj. cbn [CircuitsDatabase__dict]. cbv zeta.
  destruct (dget d l) as [bs|]; [|reflexivity].
  rewrite gen_decode_circuit_eq. reflexivity.
Qed.

(* ---- get_by_raw_truth_table ---- *)
Theorem gen_get_by_raw_truth_table_closed t :
  gen_CircuitsDatabase_get_by_raw_truth_table (db_obj None) t = do _ <- normalize t; Err NotOpened.
Proof.
  unfold gen_CircuitsDatabase_get_by_raw_truth_table. rewrite gen_NormalizationInfo_init_eq.
  destruct (normalize t) as [ni|e]; [|reflexivity]. cbn [bind]. cbv zeta.
  rewrite gen__truth_table_to_label_eq. cbn [bind]. rewrite gen_get_by_label_closed. reflexivity.
Qed.

Theorem gen_get_by_raw_truth_table_eq d t :
  to_db2 (gen_CircuitsDatabase_get_by_raw_truth_table (db_obj (Some d)) t) = get_by_raw_truth_table d t.
Proof.
  unfold gen_CircuitsDatabase_get_by_raw_truth_table, get_by_raw_truth_table.
  rewrite gen_NormalizationInfo_init_eq.
  destruct (normalize t) as [ni|e] eqn:En.
  - cbn [bind lift dbbind]. cbv zeta.
    change (NormalizationInfo_truth_table (gen_of_norm ni)) with (norm_table ni).
    rewrite gen__truth_table_to_label_eq. cbn [bind]. rewrite gen_get_by_label_eq.
    destruct (get_by_label d (truth_table_to_label (norm_table ni))) as [[c|]|e] eqn:Eg; cbn [bind lift dbbind].
    + rewrite to_db2_bind_ok, to_db2_denormalize. reflexivity.
    + reflexivity.
    + apply to_db2_err. eapply get_by_label_no_alias; exact Eg.
  - cbn [bind lift dbbind]. apply to_db2_err. eapply normalize_no_alias; exact En.
Qed.

(* ---- add_circuit ---- *)
Lemma dmem_memb {V} (d : dict V) l : memb l (map fst d) = dmem d l.
Proof.
  unfold dmem. induction d as [|[k v] d IH]; [reflexivity|].
  simpl. destruct (leqb l k); [reflexivity|exact IH].
Qed.

Theorem gen_add_circuit_closed fuel c l :
  gen_CircuitsDatabase_add_circuit fuel (db_obj None) c l = Err NotOpened.
Proof. reflexivity. Qed.

(* an explicit label: the hand model's add_circuit; the new object is the one with the new dictionary *)
Theorem gen_add_circuit_eq d c l :
  to_db2 (gen_CircuitsDatabase_add_circuit (length (non_input_labels c)) (db_obj (Some d)) c (Some l))
  = dbdo d' <- add_circuit d c l; DbOk (db_obj (Some d')).
Proof.
  unfold gen_CircuitsDatabase_add_circuit, add_circuit, db_obj. cbn [CircuitsDatabase__dict bind].
  rewrite dmem_memb. destruct (dmem d l); [reflexivity|].
  rewrite gen_encode_circuit_eq.
  destruct (encode_circuit c) as [bs|e] eqn:Ee; cbn [bind lift dbbind].
  - reflexivity.
  - apply to_db2_err. eapply encode_circuit_no_alias; exact Ee.
Qed.

(* label=None: the label of the circuit's truth table, which must be normalised; then as with that label *)
Theorem gen_add_circuit_auto fuel o c :
  gen_CircuitsDatabase_add_circuit fuel (db_obj (Some o)) c None
  = do t <- py_circuit_truth_table c;
    do ni <- normalize t;
    if negb (all_eqb (all_eqb Bool.eqb) (norm_table ni) t) then Err BadDefinitionError
    else gen_CircuitsDatabase_add_circuit fuel (db_obj (Some o)) c (Some (truth_table_to_label (norm_table ni))).
Proof.
  unfold gen_CircuitsDatabase_add_circuit, db_obj. cbn [CircuitsDatabase__dict].
  destruct (py_circuit_truth_table c) as [t|e]; [|reflexivity]. cbn [bind].
  rewrite gen_NormalizationInfo_init_eq.
  destruct (normalize t) as [ni|e]; [|reflexivity]. cbn [bind]. cbv zeta.
  change (NormalizationInfo_truth_table (gen_of_norm ni)) with (norm_table ni).
  destruct (negb (all_eqb (all_eqb Bool.eqb) (norm_table ni) t)); [reflexivity|].
  rewrite gen__truth_table_to_label_eq. reflexivity.
Qed.

(* ---- save ---- *)
Theorem gen_save_closed s : gen_CircuitsDatabase_save (db_obj None) s = Err NotOpened.
Proof. reflexivity. Qed.

Theorem gen_save_eq d s : gen_CircuitsDatabase_save (db_obj (Some d)) s = do b <- save d; Ok (s ++ b).
Proof.
  unfold gen_CircuitsDatabase_save, save, db_obj. cbn [CircuitsDatabase__dict].
  rewrite gen_write_binary_dict_eq. destruct (write_binary_dict d); reflexivity.
Qed.
