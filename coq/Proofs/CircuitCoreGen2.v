(* Second part of the regenerated tie (translator T9): the index accessors and rename_gate. *)
Require Import Cirbo.Model.Base Cirbo.Model.Gate Cirbo.Model.Circuit Cirbo.Model.Eval Cirbo.Model.TseytinAlg.
Require Import Cirbo.Generated.CircuitCore.
Require Import Cirbo.Proofs.DictFacts Cirbo.Proofs.CircuitCoreGen.

(* ---------------------------------------------------------------- input_at_index / output_at_index *)
Lemma list_at_index_nat (l : list label) i :
  (if Z.leb (Z.of_nat (length l)) (Z.of_nat i) then Err GateDoesntExistError else list_index l (Z.of_nat i))
  = match nth_error l i with Some x => Ok x | None => Err GateDoesntExistError end.
Proof.
  destruct (Z.leb (Z.of_nat (length l)) (Z.of_nat i)) eqn:E.
  - apply Z.leb_le in E. assert (H : (length l <= i)%nat) by lia.
    apply nth_error_None in H. rewrite H. reflexivity.
  - apply Z.leb_gt in E. unfold list_index.
    assert (H1 : (Z.of_nat i <? - Z.of_nat (length l))%Z = false) by (apply Z.ltb_ge; lia).
    assert (H2 : (Z.of_nat (length l) <=? Z.of_nat i)%Z = false) by (apply Z.leb_gt; lia).
    assert (H3 : (Z.of_nat i <? 0)%Z = false) by (apply Z.ltb_ge; lia).
    rewrite H1, H2, H3. cbn [orb]. rewrite Nat2Z.id. unfold nth_res.
    destruct (nth_error l i) eqn:En; [reflexivity|].
    apply nth_error_None in En. lia.
Qed.

(* the Python-int version of the model used by the Tseytin encoder *)
Lemma gen_output_at_index_z c i : gen_output_at_index c i = output_at_index_z c i.
Proof.
  unfold gen_output_at_index, output_at_index_z, list_index.
  rewrite Z.geb_leb.
  destruct (Z.leb (Z.of_nat (length (outputs c))) i); [reflexivity|].
  rewrite orb_false_r. reflexivity.
Qed.

(* the natural-number version of the model used by evaluate_at *)
Lemma gen_output_at_index_nat c i : gen_output_at_index c (Z.of_nat i) = output_at_index c i.
Proof. unfold gen_output_at_index, output_at_index. apply list_at_index_nat. Qed.

Lemma gen_input_at_index_nat c i :
  gen_input_at_index c (Z.of_nat i)
  = match nth_error (inputs c) i with Some x => Ok x | None => Err GateDoesntExistError end.
Proof. unfold gen_input_at_index. apply list_at_index_nat. Qed.

(* ---------------------------------------------------------------- list helpers behind rename_gate *)
Lemma leqb_sym a b : leqb a b = leqb b a.
Proof. apply String.eqb_sym. Qed.

(* l[l.index(old)] = new  is  subst_first *)
Lemma index_set_subst_first old new : forall l,
  memb old l = true ->
  (do i <- list_index_of old l; list_set l i new) = Ok (subst_first old new l).
Proof.
  induction l as [|y ys IH]; simpl; [discriminate|].
  rewrite (leqb_sym old y). destruct (leqb y old); [reflexivity|].
  intros H. specialize (IH H).
  destruct (list_index_of old ys) as [i|e]; cbn [bind] in *; [|discriminate].
  rewrite IH. reflexivity.
Qed.

Lemma list_set_app_length (pre : list label) x rest v :
  list_set (pre ++ x :: rest) (length pre) v = Ok (pre ++ v :: rest).
Proof.
  induction pre as [|p pre IH]; simpl; [reflexivity|]. rewrite IH. reflexivity.
Qed.

(* for idx in [i for i, o in enumerate(l) if o == old]: l[idx] = new   is  subst_label *)
Lemma set_all_indexes old new : forall suffix pre,
  foldM (fun cur i => list_set cur i new)
        (map (fun p : nat * label => fst p)
             (filter (fun p : nat * label => leqb (snd p) old) (combine (seq (length pre) (length suffix)) suffix)))
        (pre ++ suffix)
  = Ok (pre ++ subst_label old new suffix).
Proof.
  induction suffix as [|x rest IH]; intros pre; [reflexivity|].
  cbn [length seq combine filter snd subst_label map].
  specialize (IH (pre ++ [if leqb x old then new else x])).
  rewrite app_length in IH. cbn [length] in IH. rewrite Nat.add_1_r in IH.
  rewrite <- app_assoc in IH. cbn [app] in IH.
  destruct (leqb x old).
  - cbn [map fst foldM]. rewrite list_set_app_length. cbn [bind]. rewrite IH.
    rewrite <- app_assoc. reflexivity.
  - rewrite IH. rewrite <- app_assoc. reflexivity.
Qed.

Lemma foldM_lens {S T A} (get : S -> T) (set : S -> T -> S) (g : T -> A -> res T) l :
  (forall s t, get (set s t) = t) -> (forall s t t', set (set s t) t' = set s t') -> (forall s, set s (get s) = s) ->
  forall s, foldM (fun s x => do t <- g (get s) x; Ok (set s t)) l s = (do t <- foldM g l (get s); Ok (set s t)).
Proof.
  intros Hgs Hss Heta. induction l as [|x xs IH]; intros s; simpl; [rewrite Heta; reflexivity|].
  destruct (g (get s) x) as [t|e]; cbn [bind]; [|reflexivity].
  rewrite IH, Hgs. destruct (foldM g xs t); cbn [bind]; [rewrite Hss|]; reflexivity.
Qed.

Lemma mapM_total {A B} (f : A -> res B) (g : A -> B) l :
  (forall x, f x = Ok (g x)) -> mapM f l = Ok (map g l).
Proof.
  intros H; induction l as [|x xs IH]; simpl; [reflexivity|]. rewrite H, IH. reflexivity.
Qed.

(* ---------------------------------------------------------------- Block._rename_gate *)
Lemma gen_Block__rename_gate_eq b old new : gen_Block__rename_gate b old new = Ok (rename_in_block old new b).
Proof. reflexivity. Qed.

(* ---------------------------------------------------------------- rename_gate, step by step *)
Lemma set_inputs_eta c : set_inputs_raw c (inputs c) = c. Proof. destruct c; reflexivity. Qed.
Lemma set_outputs_eta c : set_outputs_raw c (outputs c) = c. Proof. destruct c; reflexivity. Qed.
Lemma set_gates_eta c : set_gates c (gates c) = c. Proof. destruct c; reflexivity. Qed.

(* inputs: self._inputs[self.index_of_input(old)] = new *)
Lemma rename_step_inputs c old new :
  (if memb old (inputs c)
   then do t1 <- gen_index_of_input c old; do t2 <- list_set (inputs c) t1 new; Ok (set_inputs_raw c t2)
   else Ok c)
  = Ok (if memb old (inputs c) then set_inputs_raw c (subst_first old new (inputs c)) else c).
Proof.
  destruct (memb old (inputs c)) eqn:E; [|reflexivity].
  unfold gen_index_of_input. rewrite E. cbn [negb].
  pose proof (index_set_subst_first old new (inputs c) E) as H.
  destruct (list_index_of old (inputs c)); cbn [bind] in *; [|discriminate].
  rewrite H. reflexivity.
Qed.

(* outputs: for idx in self.all_indexes_of_output(old): self._outputs[idx] = new *)
Lemma rename_step_outputs c old new :
  (if memb old (outputs c)
   then do t3 <- gen_all_indexes_of_output c old;
        do s <- foldM (fun s idx => do t4 <- list_set (outputs s) idx new; Ok (set_outputs_raw s t4)) t3 c;
        Ok s
   else Ok c)
  = Ok (if memb old (outputs c) then set_outputs_raw c (subst_label old new (outputs c)) else c).
Proof.
  destruct (memb old (outputs c)) eqn:E; [|reflexivity].
  unfold gen_all_indexes_of_output. rewrite E. cbn [negb bind].
  rewrite (foldM_lens outputs set_outputs_raw (fun t idx => list_set t idx new) _); try reflexivity.
  2:{ intros s; apply set_outputs_eta. }
  unfold enumerate.
  pose proof (set_all_indexes old new (outputs c) []) as H. cbn [app length] in H.
  rewrite H. reflexivity.
Qed.

(* users of old: their operand tuples are rewritten, then the users list moves to the new key *)
Lemma rename_step_users c old new :
  (if dmem (users c) old
   then do t5 <- dget_res (users c) old;
        do s <- foldM (fun s u =>
                  do t6 <- dget_res (gates s) u; do t7 <- dget_res (gates s) u;
                  Ok (set_gates s (dset (gates s) u
                        (mkGate (gtyp t6) (map (fun op => if leqb op old then new else op) (gops t7)))))) t5 c;
        do t8 <- dget_res (users s) old;
        do t9 <- ddel_res (users (set_users s (dset (users s) new t8))) old;
        Ok (set_users (set_users s (dset (users s) new t8)) t9)
   else Ok c)
  = match dget (users c) old with
    | Some us =>
      do gs <- foldM (fun gs u =>
                 match dget gs u with
                 | Some ug => Ok (dset gs u (mkGate (gtyp ug) (subst_label old new (gops ug))))
                 | None => Err PyKeyError
                 end) us (gates c);
      Ok (set_users (set_gates c gs) (ddel (dset (users (set_gates c gs)) new us) old))
    | None => Ok c
    end.
Proof.
  unfold dmem, dget_res at 1. destruct (dget (users c) old) as [us|] eqn:Eu; [|reflexivity]. cbn [bind].
  set (g := fun (gs : dict gate) (u : label) => match dget gs u with
                 | Some ug => Ok (dset gs u (mkGate (gtyp ug) (subst_label old new (gops ug))))
                 | None => Err PyKeyError end).
  rewrite (foldM_ext _ (fun s u => do t <- g (gates s) u; Ok (set_gates s t))).
  2:{ intros s u. unfold g, dget_res. destruct (dget (gates s) u); reflexivity. }
  rewrite (foldM_lens gates set_gates g); try reflexivity.
  2:{ intros s; apply set_gates_eta. }
  destruct (foldM g us (gates c)) as [gs|e]; cbn [bind]; [|reflexivity].
  cbn [users set_gates]. unfold dget_res. rewrite Eu. cbn [bind].
  unfold ddel_res. cbn [users set_users]. rewrite dmem_dset.
  assert (Hm : dmem (users c) old = true) by (unfold dmem; rewrite Eu; reflexivity).
  rewrite Hm, orb_true_r. reflexivity.
Qed.

(* operands of old: the entry `old` in each of their users lists is replaced *)
Lemma rename_step_operands old new ops : forall c,
  foldM (fun s op =>
           do t11 <- dget_res (users s) op;
           if memb old t11
           then do t12 <- list_index_of old t11; do t13 <- list_set t11 t12 new;
                Ok (set_users s (dset (users s) op t13))
           else Err PyAssertionError) ops c
  = (do us' <- foldM (fun usd op =>
                 match dget usd op with
                 | None => Err PyKeyError
                 | Some ou => if memb old ou then Ok (dset usd op (subst_first old new ou)) else Err PyAssertionError
                 end) ops (users c);
     Ok (set_users c us')).
Proof.
  intros c.
  set (g := fun (usd : dict (list label)) (op : label) =>
                 match dget usd op with
                 | None => Err PyKeyError
                 | Some ou => if memb old ou then Ok (dset usd op (subst_first old new ou)) else Err PyAssertionError
                 end).
  rewrite (foldM_ext _ (fun s op => do t <- g (users s) op; Ok (set_users s t))).
  2:{ intros s op. unfold g, dget_res. destruct (dget (users s) op) as [ou|]; cbn [bind]; [|reflexivity].
      destruct (memb old ou) eqn:E; [|reflexivity].
      pose proof (index_set_subst_first old new ou E) as H.
      destruct (list_index_of old ou); cbn [bind] in *; [|discriminate].
      rewrite H. reflexivity. }
  apply (foldM_lens users set_users g); try reflexivity.
  intros s; apply set_users_eta.
Qed.

Lemma gen_rename_gate_eq c old new : gen_rename_gate c old new = rename_gate c old new.
Proof.
  unfold gen_rename_gate, rename_gate, has_gate. cbv zeta.
  destruct (dmem (gates c) old); cbn [negb]; [|reflexivity].
  destruct (dmem (gates c) new); [reflexivity|].
  rewrite rename_step_inputs. cbn [bind].
  generalize (if memb old (inputs c) then set_inputs_raw c (subst_first old new (inputs c)) else c). clear c. intros c.
  rewrite rename_step_outputs. cbn [bind].
  generalize (if memb old (outputs c) then set_outputs_raw c (subst_label old new (outputs c)) else c). clear c. intros c.
  rewrite rename_step_users.
  match goal with |- bind ?a _ = bind ?b _ => change a with b; destruct b as [c3|e]; cbn [bind]; [|reflexivity] end.
  clear c. unfold dget_res at 1.
  destruct (dget (gates c3) old) as [og|]; cbn [bind]; [|reflexivity].
  rewrite rename_step_operands.
  destruct (foldM _ (gops og) (users c3)) as [us'|e]; cbn [bind]; [|reflexivity].
  generalize (set_users c3 us'). clear c3 us'. intros c4.
  unfold dget_res. destruct (dget (gates c4) old) as [og'|] eqn:Eg; cbn [bind]; [|reflexivity].
  cbn [gates set_gates]. unfold ddel_res. rewrite dmem_dset.
  assert (Hm : dmem (gates c4) old = true) by (unfold dmem; rewrite Eg; reflexivity).
  rewrite Hm, orb_true_r. cbn [bind blocks set_gates].
  rewrite (mapM_total _ (fun kb : label * block => (fst kb, rename_in_block old new (snd kb)))).
  2:{ intros x. reflexivity. }
  reflexivity.
Qed.

(* ---------------------------------------------------------------- summary *)
Theorem core_methods_regenerated_2 :
  (forall c i, gen_output_at_index c i = output_at_index_z c i) /\
  (forall c i, gen_output_at_index c (Z.of_nat i) = output_at_index c i) /\
  (forall c i, gen_input_at_index c (Z.of_nat i)
               = match nth_error (inputs c) i with Some x => Ok x | None => Err GateDoesntExistError end) /\
  (forall b old new, gen_Block__rename_gate b old new = Ok (rename_in_block old new b)) /\
  (forall c old new, gen_rename_gate c old new = rename_gate c old new).
Proof.
  repeat match goal with |- _ /\ _ => split end.
  - exact gen_output_at_index_z.
  - exact gen_output_at_index_nat.
  - exact gen_input_at_index_nat.
  - exact gen_Block__rename_gate_eq.
  - exact gen_rename_gate_eq.
Qed.
