(* Soundness of the executable well-formedness check: wfb c = true -> WF c. *)
Require Import Cirbo.Model.Base Cirbo.Model.Gate Cirbo.Model.Circuit Cirbo.Model.WF.
Require Import Cirbo.Proofs.DictFacts Cirbo.Proofs.WFBase.

(* ------------------------------------------------------------------ *)
(* filters that keep the length keep everything *)
Lemma flt_len_le {A} (f : A -> bool) l : length (filter f l) <= length l.
Proof. induction l as [|x xs IH]; simpl; [lia|destruct (f x); simpl; lia]. Qed.

Lemma flt_len_eq {A} (f : A -> bool) l : length (filter f l) = length l -> filter f l = l.
Proof.
  induction l as [|x xs IH]; simpl; [reflexivity|].
  destruct (f x); simpl; intros H.
  - f_equal; apply IH; lia.
  - pose proof (flt_len_le f xs); lia.
Qed.

(* ------------------------------------------------------------------ *)
(* the resolution stages *)
Lemma resolve_S_r n : forall c d, resolve (S n) c d = resolve_round c (resolve n c d).
Proof.
  induction n as [|n IH]; intros c d; [reflexivity|].
  change (resolve (S (S n)) c d) with (resolve (S n) c (resolve_round c d)).
  rewrite IH; reflexivity.
Qed.

Definition stage (c : circuit) (k : nat) : list label := resolve k c [].

Lemma stage_S c k : stage c (S k) = resolve_round c (stage c k).
Proof. apply resolve_S_r. Qed.

Lemma In_resolve_round c d l g o :
  NoDup (dkeys (gates c)) -> dget (gates c) l = Some g ->
  In l (resolve_round c d) -> In o (gops g) -> In o d.
Proof.
  intros Hnd Hg Hin Ho. unfold resolve_round in Hin.
  apply in_map_iff in Hin. destruct Hin as [[l' g'] [E Hin]]. simpl in E; subst l'.
  apply filter_In in Hin. destruct Hin as [Hin Hf]. simpl in Hf.
  apply In_dget in Hin; [|exact Hnd]. rewrite Hg in Hin. injection Hin as <-.
  rewrite forallb_forall in Hf. apply memb_In, Hf, Ho.
Qed.

(* when the check succeeds the last stage holds every gate label *)
Lemma stage_full c l g :
  acyclicb c = true -> dget (gates c) l = Some g -> In l (stage c (size c)).
Proof.
  unfold acyclicb, stage. intros H Hg. apply Nat.eqb_eq in H.
  destruct (size c) as [|m] eqn:Esz.
  - unfold size in Esz. destruct (gates c); [discriminate Hg|discriminate Esz].
  - rewrite resolve_S_r in H |- *. unfold resolve_round in H |- *.
    rewrite map_length in H. rewrite <- Esz in H. unfold size in H.
    apply flt_len_eq in H. rewrite H.
    apply dget_In_keys in Hg. exact Hg.
Qed.

(* rank = number of stages 0..size at which the label is still unresolved *)
Definition absent (c : circuit) (x : label) (k : nat) : nat :=
  if memb x (stage c k) then 0 else 1.

Fixpoint rk (c : circuit) (x : label) (m : nat) : nat :=
  match m with O => 0 | S m' => rk c x m' + absent c x m' end.

Lemma absent_edge c l g o k :
  NoDup (dkeys (gates c)) -> dget (gates c) l = Some g -> In o (gops g) ->
  absent c o k <= absent c l (S k).
Proof.
  intros Hnd Hg Ho. unfold absent.
  destruct (memb l (stage c (S k))) eqn:E; [|destruct (memb o (stage c k)); lia].
  apply memb_In in E. rewrite stage_S in E.
  pose proof (In_resolve_round c _ l g o Hnd Hg E Ho) as Hin.
  apply memb_In in Hin. rewrite Hin. lia.
Qed.

Lemma rk_edge c l g o m :
  NoDup (dkeys (gates c)) -> dget (gates c) l = Some g -> In o (gops g) ->
  rk c o m + 1 <= rk c l (S m).
Proof.
  intros Hnd Hg Ho. induction m as [|m IH].
  - cbn [rk]. unfold absent, stage. simpl. lia.
  - pose proof (absent_edge c l g o m Hnd Hg Ho) as Ha.
    cbn [rk] in IH |- *. lia.
Qed.

Lemma acyclicb_rank c :
  NoDup (dkeys (gates c)) ->
  (forall l g o, dget (gates c) l = Some g -> In o (gops g) -> has_gate c o = true) ->
  acyclicb c = true ->
  exists rank : label -> nat,
    forall l g o, dget (gates c) l = Some g -> In o (gops g) -> rank o < rank l.
Proof.
  intros Hnd Hops Hac. exists (fun x => rk c x (S (size c))).
  intros l g o Hg Ho.
  destruct (has_gate_get c o (Hops l g o Hg Ho)) as [g' Hg'].
  pose proof (stage_full c o g' Hac Hg') as Hin.
  pose proof (rk_edge c l g o (size c) Hnd Hg Ho) as Hlt.
  assert (Ha : absent c o (size c) = 0).
  { unfold absent. apply memb_In in Hin. rewrite Hin. reflexivity. }
  cbn [rk] in Hlt |- *. lia.
Qed.

(* ------------------------------------------------------------------ *)
(* the users index *)
Lemma users_okb_sound c :
  users_okb c = true -> forall l u, count u (users_of c l) = count l (ops_of c u).
Proof.
  unfold users_okb. intros H l u. apply andb_true_iff in H. destruct H as [HA HB].
  rewrite forallb_forall in HA, HB.
  destruct (memb u (users_of c l)) eqn:Eu.
  - apply memb_In in Eu. unfold users_of in Eu |- *.
    destruct (dget (users c) l) as [us|] eqn:E; [|destruct Eu].
    apply dget_In in E. specialize (HA _ E). simpl in HA.
    rewrite forallb_forall in HA. apply Nat.eqb_eq, HA, Eu.
  - destruct (memb l (ops_of c u)) eqn:El.
    + apply memb_In in El. unfold ops_of in El |- *.
      destruct (dget (gates c) u) as [g|] eqn:E; [|destruct El].
      apply dget_In in E. specialize (HB _ E). simpl in HB.
      rewrite forallb_forall in HB. apply Nat.eqb_eq, HB, El.
    + apply memb_nIn in Eu, El. apply count_zero_nIn in Eu, El. lia.
Qed.

(* ------------------------------------------------------------------ *)
Theorem wfb_sound : forall c, wfb c = true -> WF c.
Proof.
  intros c H. unfold wfb in H. repeat rewrite andb_true_iff in H.
  destruct H as [[[[[[[[[[Hg Hu] Hb] Hops] Houts] Husr] Hin] Hinp] Hinp'] Hac] Hblk].
  apply nodupb_NoDup in Hg, Hu, Hb, Hin.
  rewrite forallb_forall in Hops, Houts, Hinp, Hinp', Hblk.
  assert (Hops' : forall l g o, dget (gates c) l = Some g -> In o (gops g) -> has_gate c o = true).
  { intros l g o Hl Ho. apply dget_In in Hl. specialize (Hops _ Hl). simpl in Hops.
    rewrite forallb_forall in Hops. apply Hops, Ho. }
  constructor; try assumption.
  - apply users_okb_sound, Husr.
  - intros l; split.
    + intros Hl. specialize (Hinp _ Hl). unfold is_input_gate in Hinp.
      destruct (dget (gates c) l) as [g|]; [|discriminate].
      exists g; split; [reflexivity|apply gtype_beq_eq, Hinp].
    + intros [g [Hl Ht]]. apply dget_In in Hl. specialize (Hinp' _ Hl). simpl in Hinp'.
      apply gtype_beq_eq in Ht. rewrite Ht in Hinp'. simpl in Hinp'. apply memb_In, Hinp'.
  - apply acyclicb_rank; assumption.
  - intros b blk l Hbk Hl. apply dget_In in Hbk. specialize (Hblk _ Hbk). simpl in Hblk.
    rewrite forallb_forall in Hblk. apply Hblk, Hl.
Qed.

(* ------------------------------------------------------------------ *)
(* completeness: WF c -> wfb c = true *)
Lemma resolve_round_mono c d d' :
  incl d d' -> incl (resolve_round c d) (resolve_round c d').
Proof.
  intros Hi x Hx. unfold resolve_round in Hx |- *.
  apply in_map_iff in Hx. destruct Hx as [kg [E Hx]].
  apply in_map_iff. exists kg. split; [exact E|].
  apply filter_In in Hx. destruct Hx as [Hx Hf]. apply filter_In. split; [exact Hx|].
  rewrite forallb_forall in Hf |- *. intros o Ho.
  apply memb_In, Hi, memb_In, Hf, Ho.
Qed.

Lemma stage_mono c k : incl (stage c k) (stage c (S k)).
Proof.
  induction k as [|k IH]; [intros x []|].
  intros x Hx. rewrite stage_S in Hx. rewrite stage_S.
  apply (resolve_round_mono c _ _ IH). exact Hx.
Qed.

Lemma stage_nodup c k : NoDup (dkeys (gates c)) -> NoDup (stage c k).
Proof.
  intros Hnd. destruct k as [|k]; [constructor|].
  rewrite stage_S. unfold resolve_round.
  apply (dkeys_filter_NoDup _ (gates c) Hnd).
Qed.

Lemma stage_len_le c k : length (stage c k) <= size c.
Proof.
  destruct k as [|k]; [unfold stage; simpl; lia|].
  rewrite stage_S. unfold resolve_round, size. rewrite map_length. apply flt_len_le.
Qed.

(* a set closed under one resolution round contains every gate of an acyclic circuit *)
Lemma closed_full c (rank : label -> nat) D :
  (forall l g o, dget (gates c) l = Some g -> In o (gops g) -> has_gate c o = true) ->
  (forall l g o, dget (gates c) l = Some g -> In o (gops g) -> rank o < rank l) ->
  incl (resolve_round c D) D ->
  forall l g, dget (gates c) l = Some g -> In l D.
Proof.
  intros Hops Hrank Hcl.
  assert (Hr : forall r l g, dget (gates c) l = Some g -> rank l < r -> In l D).
  { induction r as [|r IH]; intros l g Hg Hlt; [lia|].
    apply Hcl. unfold resolve_round. apply in_map_iff. exists (l, g). split; [reflexivity|].
    apply filter_In. split; [apply dget_In, Hg|]. simpl.
    apply forallb_forall. intros o Ho. apply memb_In.
    destruct (has_gate_get c o (Hops l g o Hg Ho)) as [g' Hg'].
    apply (IH o g' Hg'). pose proof (Hrank l g o Hg Ho). lia. }
  intros l g Hg. apply (Hr (S (rank l)) l g Hg). lia.
Qed.

Lemma stage_grows c (rank : label -> nat) :
  NoDup (dkeys (gates c)) ->
  (forall l g o, dget (gates c) l = Some g -> In o (gops g) -> has_gate c o = true) ->
  (forall l g o, dget (gates c) l = Some g -> In o (gops g) -> rank o < rank l) ->
  forall k, k <= size c -> k <= length (stage c k).
Proof.
  intros Hnd Hops Hrank. induction k as [|k IH]; intros Hk; [lia|].
  assert (IH' : k <= length (stage c k)) by (apply IH; lia).
  pose proof (NoDup_incl_length (stage_nodup c k Hnd) (stage_mono c k)) as Hle.
  destruct (Nat.eq_dec (length (stage c (S k))) (length (stage c k))) as [E|E]; [|lia].
  assert (Hcl : incl (stage c (S k)) (stage c k)).
  { apply NoDup_length_incl; [apply stage_nodup, Hnd|lia|apply stage_mono]. }
  rewrite stage_S in Hcl.
  pose proof (closed_full c rank _ Hops Hrank Hcl) as Hall.
  assert (Hin : incl (dkeys (gates c)) (stage c k)).
  { intros x Hx. apply dmem_keys in Hx. apply dmem_true_get in Hx.
    destruct Hx as [g Hg]. apply (Hall x g Hg). }
  pose proof (NoDup_incl_length Hnd Hin) as Hlen.
  unfold dkeys in Hlen. rewrite map_length in Hlen. unfold size in Hk. lia.
Qed.

Lemma users_okb_complete c :
  NoDup (dkeys (gates c)) -> NoDup (dkeys (users c)) ->
  (forall l u, count u (users_of c l) = count l (ops_of c u)) -> users_okb c = true.
Proof.
  intros Hg Hu Hus. unfold users_okb. apply andb_true_iff. split.
  - apply forallb_forall. intros [l us] Hin. simpl. apply forallb_forall. intros u _.
    apply Nat.eqb_eq. apply In_dget in Hin; [|exact Hu].
    specialize (Hus l u). unfold users_of in Hus. rewrite Hin in Hus. exact Hus.
  - apply forallb_forall. intros [u g] Hin. simpl. apply forallb_forall. intros o _.
    apply Nat.eqb_eq. apply In_dget in Hin; [|exact Hg].
    rewrite (Hus o u). rewrite (ops_of_get c u g Hin). reflexivity.
Qed.

Theorem wfb_complete : forall c, WF c -> wfb c = true.
Proof.
  intros c [Hg Hu Hb Hops Houts Husr Hin Hinp [rank Hrank] Hblk].
  unfold wfb. repeat rewrite andb_true_iff.
  repeat match goal with |- _ /\ _ => split end.
  - apply nodupb_NoDup, Hg.
  - apply nodupb_NoDup, Hu.
  - apply nodupb_NoDup, Hb.
  - apply forallb_forall. intros [l g] Hl. simpl. apply forallb_forall. intros o Ho.
    apply In_dget in Hl; [|exact Hg]. apply (Hops l g o Hl Ho).
  - apply forallb_forall. exact Houts.
  - apply users_okb_complete; assumption.
  - apply nodupb_NoDup, Hin.
  - apply forallb_forall. intros l Hl. apply Hinp in Hl. destruct Hl as [g [Hl Ht]].
    unfold is_input_gate. rewrite Hl. apply gtype_beq_eq, Ht.
  - apply forallb_forall. intros [l g] Hl. simpl.
    destruct (gtype_beq (gtyp g) INPUT) eqn:Et; [|reflexivity]. simpl.
    apply memb_In, Hinp. exists g. split; [apply In_dget; assumption|apply gtype_beq_eq, Et].
  - unfold acyclicb. apply Nat.eqb_eq.
    pose proof (stage_grows c rank Hg Hops Hrank (size c) (le_n _)) as H1.
    pose proof (stage_len_le c (size c)) as H2. unfold stage in H1, H2. lia.
  - apply forallb_forall. intros [b blk] Hbk. simpl. apply forallb_forall. intros l Hl.
    apply In_dget in Hbk; [|exact Hb]. apply (Hblk b blk l Hbk Hl).
Qed.

Corollary wfb_iff : forall c, wfb c = true <-> WF c.
Proof. intros c; split; [apply wfb_sound|apply wfb_complete]. Qed.
