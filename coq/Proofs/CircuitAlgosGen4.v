(* T10, fourth part: make_block_from_slice.

   The source keeps the collected gates in a Python set and starts its work list with `list(gates)`, whose order
   is the hash order of the strings.  The regenerated function takes the canonical order (gate-map order) for
   that list, the hand model the order of the `outputs` argument.  The LOOP is the same function in both
   (gen_slice_loop_eq); only the order of the initial work list differs.  This file proves that the order does
   not matter for the result: the loop computes the least set that contains the start gates and is closed under
   "operand that is not a block input", so both return the same set, hence (the block's gate list being
   canonicalised) the same circuit; both raise or neither does; only WHICH of GateDoesntExistError /
   CreateBlockError is seen first may differ. *)
Require Import Cirbo.Model.Base Cirbo.Model.Gate Cirbo.Model.Circuit Cirbo.Model.Traverse Cirbo.Model.Eval
        Cirbo.Model.Connect.
Require Import Cirbo.Generated.CircuitCore Cirbo.Generated.CircuitAlgos.
Require Import Cirbo.Proofs.DictFacts Cirbo.Proofs.TopSort Cirbo.Proofs.CircuitCoreGen Cirbo.Proofs.CircuitCoreGen2
        Cirbo.Proofs.CircuitAlgosGen Cirbo.Proofs.CircuitAlgosGen3 Cirbo.Proofs.WFBase.

Lemma NoDup_app_intro {A} (a b : list A) :
  NoDup a -> NoDup b -> (forall x, In x a -> ~ In x b) -> NoDup (a ++ b).
Proof.
  induction a as [|x a IH]; simpl; intros Ha Hb Hd; [exact Hb|].
  inversion Ha as [|? ? Hx Ha']; subst. constructor.
  - intros Hin. apply in_app_or in Hin. destruct Hin as [Hin|Hin]; [contradiction|].
    exact (Hd x (or_introl eq_refl) Hin).
  - apply IH; [exact Ha'|exact Hb|]. intros y Hy. apply Hd. right. exact Hy.
Qed.

Section Slice.
Variables (c : circuit) (ins : list label).

Definition good_gate (op : label) : Prop :=
  exists og, get_gate c op = Ok og /\ gtype_beq (gtyp og) INPUT = false.

(* the body of the inner loop over the operands of the current gate *)
Definition slice_step (st : list label * list label) (op : label) : res (list label * list label) :=
  let '(gs, q) := st in
  if memb op ins then Ok st else
  do og <- get_gate c op;
  if gtype_beq (gtyp og) INPUT then Err CreateBlockError else
  if memb op gs then Ok st else Ok (gs ++ [op], q ++ [op]).

Lemma slice_loop_unfold fuel gs q :
  slice_loop (S fuel) c ins gs q
  = match rev q with
    | [] => Ok gs
    | cur :: rq => do g <- get_gate c cur;
                   do st <- foldM slice_step (gops g) (gs, rev rq);
                   slice_loop fuel c ins (fst st) (snd st)
    end.
Proof. reflexivity. Qed.

Lemma step_ok ops : forall gs q gs' q',
  foldM slice_step ops (gs, q) = Ok (gs', q') ->
  exists new, gs' = gs ++ new /\ q' = q ++ new /\ NoDup new /\
    (forall x, In x new -> In x ops /\ memb x ins = false /\ ~ In x gs /\ good_gate x) /\
    (forall op, In op ops -> memb op ins = true \/ (good_gate op /\ In op gs')).
Proof.
  induction ops as [|op ops IH]; intros gs q gs' q' H.
  - injection H as <- <-. exists []. rewrite !app_nil_r.
    split; [reflexivity|]. split; [reflexivity|]. split; [constructor|]. split; intros x Hx; contradiction.
  - cbn [foldM] in H. unfold slice_step at 1 in H.
    destruct (memb op ins) eqn:Ei.
    { cbn [bind] in H. destruct (IH _ _ _ _ H) as (new & -> & -> & Hnd & Ha & Hb).
      exists new. split; [reflexivity|]. split; [reflexivity|]. split; [exact Hnd|]. split.
      - intros x Hx. destruct (Ha x Hx) as (A & B & C & D). split; [right; exact A|]. split; [exact B|].
        split; [exact C|exact D].
      - intros o [<-|Ho]; [left; exact Ei|apply Hb; exact Ho]. }
    destruct (get_gate c op) as [og|e] eqn:Eo; cbn [bind] in H; [|discriminate].
    destruct (gtype_beq (gtyp og) INPUT) eqn:Et; [discriminate|].
    assert (Hgood : good_gate op) by (exists og; split; assumption).
    destruct (memb op gs) eqn:Em.
    { cbn [bind] in H. destruct (IH _ _ _ _ H) as (new & -> & -> & Hnd & Ha & Hb).
      exists new. split; [reflexivity|]. split; [reflexivity|]. split; [exact Hnd|]. split.
      - intros x Hx. destruct (Ha x Hx) as (A & B & C & D). split; [right; exact A|]. split; [exact B|].
        split; [exact C|exact D].
      - intros o [<-|Ho]; [|apply Hb; exact Ho]. right. split; [exact Hgood|].
        apply in_or_app. left. apply memb_In. exact Em. }
    cbn [bind] in H. destruct (IH _ _ _ _ H) as (new & -> & -> & Hnd & Ha & Hb).
    exists (op :: new). rewrite <- !app_assoc. simpl.
    split; [reflexivity|]. split; [reflexivity|]. split; [|split].
    + constructor; [|exact Hnd]. intros Hin. destruct (Ha op Hin) as (_ & _ & Hn & _).
      apply Hn. apply in_or_app. right. left. reflexivity.
    + intros x [<-|Hx].
      * split; [left; reflexivity|]. split; [exact Ei|]. split; [apply memb_nIn; exact Em|exact Hgood].
      * destruct (Ha x Hx) as (A & B & C & D). split; [right; exact A|]. split; [exact B|]. split; [|exact D].
        intros Hin. apply C. apply in_or_app. left. exact Hin.
    + intros o [<-|Ho].
      * right. split; [exact Hgood|]. apply in_or_app. right. left. reflexivity.
      * destruct (Hb o Ho) as [Hl|[Hg Hin]]; [left; exact Hl|right; split; [exact Hg|]].
        rewrite <- app_assoc in Hin. exact Hin.
Qed.

Lemma step_total ops :
  (forall op, In op ops -> memb op ins = true \/ good_gate op) ->
  forall st, exists st', foldM slice_step ops st = Ok st'.
Proof.
  induction ops as [|op ops IH]; intros Hall st; [exists st; reflexivity|].
  cbn [foldM]. assert (Hs : exists s1, slice_step st op = Ok s1).
  { destruct st as [gs q]. unfold slice_step.
    destruct (Hall op (or_introl eq_refl)) as [Hi|(og & Ho & Ht)].
    - rewrite Hi. eexists; reflexivity.
    - destruct (memb op ins); [eexists; reflexivity|]. rewrite Ho. cbn [bind]. rewrite Ht.
      destruct (memb op gs); eexists; reflexivity. }
  destruct Hs as [s1 ->]. cbn [bind]. apply IH. intros o Ho. apply Hall. right. exact Ho.
Qed.

(* R is closed: every member is a gate whose operands are block inputs or non-INPUT gates in R *)
Definition node_ok (R : list label) (x : label) : Prop :=
  exists g, get_gate c x = Ok g /\
    forall op, In op (gops g) -> memb op ins = true \/ (good_gate op /\ In op R).
Definition closed (R : list label) : Prop := forall x, In x R -> node_ok R x.

Lemma node_ok_mono R R' x : incl R R' -> node_ok R x -> node_ok R' x.
Proof.
  intros Hi (g & Hg & Hops). exists g. split; [exact Hg|]. intros op Hop.
  destruct (Hops op Hop) as [H|[H1 H2]]; [left; exact H|right; split; [exact H1|apply Hi; exact H2]].
Qed.

Lemma rev_cons_inv {A} (q : list A) cur rq : rev q = cur :: rq -> q = rev rq ++ [cur].
Proof. intros H. rewrite <- (rev_involutive q), H. reflexivity. Qed.

(* the result is closed and contains the start *)
Lemma slice_closed : forall fuel gs q r,
  slice_loop fuel c ins gs q = Ok r -> incl q gs ->
  (forall x, In x gs -> ~ In x q -> node_ok gs x) ->
  closed r /\ incl gs r.
Proof.
  induction fuel as [|fuel IH]; intros gs q r H Hq Hdone; [discriminate|].
  rewrite slice_loop_unfold in H. destruct (rev q) as [|cur rq] eqn:Er.
  - injection H as <-. assert (q = []) by (destruct q; [reflexivity|]; simpl in Er; destruct (rev q); discriminate).
    subst q. split; [|apply incl_refl]. intros x Hx. apply Hdone; [exact Hx|intros []].
  - apply rev_cons_inv in Er. subst q.
    destruct (get_gate c cur) as [g|e] eqn:Eg; cbn [bind] in H; [|discriminate].
    destruct (foldM slice_step (gops g) (gs, rev rq)) as [[gs1 q1]|e] eqn:Ef; cbn [bind fst snd] in H; [|discriminate].
    destruct (step_ok _ _ _ _ _ Ef) as (new & -> & -> & Hnd & Ha & Hb).
    destruct (IH _ _ _ H) as [Hc Hi].
    + intros x Hx. apply in_app_or in Hx. apply in_or_app.
      destruct Hx as [Hx|Hx]; [left; apply Hq; apply in_or_app; left; exact Hx|right; exact Hx].
    + intros x Hx Hnq. apply in_app_or in Hx. destruct Hx as [Hx|Hx].
      2:{ exfalso. apply Hnq. apply in_or_app. right. exact Hx. }
      destruct (leqb_spec x cur) as [->|Hne].
      * exists g. split; [exact Eg|exact Hb].
      * apply (node_ok_mono gs); [apply incl_appl, incl_refl|]. apply Hdone; [exact Hx|].
        intros Hin. apply in_app_or in Hin. destruct Hin as [Hin|[Hin|[]]]; [|congruence].
        apply Hnq. apply in_or_app. left. exact Hin.
    + split; [exact Hc|]. intros x Hx. apply Hi. apply in_or_app. left. exact Hx.
Qed.

(* ... and it is the least such set *)
Lemma slice_least : forall fuel gs q r,
  slice_loop fuel c ins gs q = Ok r -> incl q gs ->
  forall R, incl gs R -> closed R -> incl r R.
Proof.
  induction fuel as [|fuel IH]; intros gs q r H Hq R HR Hcl; [discriminate|].
  rewrite slice_loop_unfold in H. destruct (rev q) as [|cur rq] eqn:Er.
  - injection H as <-. exact HR.
  - apply rev_cons_inv in Er. subst q.
    destruct (get_gate c cur) as [g|e] eqn:Eg; cbn [bind] in H; [|discriminate].
    destruct (foldM slice_step (gops g) (gs, rev rq)) as [[gs1 q1]|e] eqn:Ef; cbn [bind fst snd] in H; [|discriminate].
    destruct (step_ok _ _ _ _ _ Ef) as (new & -> & -> & Hnd & Ha & Hb).
    apply (IH _ _ _ H).
    + intros x Hx. apply in_app_or in Hx. apply in_or_app.
      destruct Hx as [Hx|Hx]; [left; apply Hq; apply in_or_app; left; exact Hx|right; exact Hx].
    + intros x Hx. apply in_app_or in Hx. destruct Hx as [Hx|Hx]; [apply HR; exact Hx|].
      destruct (Ha x Hx) as (Hop & Hni & _ & _).
      assert (Hcur : In cur R) by (apply HR, Hq, in_or_app; right; left; reflexivity).
      destruct (Hcl cur Hcur) as (g' & Hg' & Hops). rewrite Eg in Hg'. injection Hg' as <-.
      destruct (Hops x Hop) as [Hl|[_ Hin]]; [congruence|exact Hin].
    + exact Hcl.
Qed.

(* with the fuel of the model the loop returns whenever a closed set contains the start *)
Lemma slice_total : NoDup (dkeys (gates c)) -> forall fuel gs q R,
  NoDup gs -> (forall x, In x gs -> has_gate c x = true) -> incl q gs ->
  size c + length q < fuel + length gs ->
  closed R -> incl gs R -> exists r, slice_loop fuel c ins gs q = Ok r.
Proof.
  intros Hkeys. induction fuel as [|fuel IH]; intros gs q R Hnd Hg Hq Hk Hcl HR.
  - exfalso. assert (length gs <= size c); [|lia]. unfold size.
    rewrite <- (map_length fst (gates c)). apply NoDup_incl_length; [exact Hnd|].
    intros x Hx. apply dmem_keys. apply Hg. exact Hx.
  - rewrite slice_loop_unfold. destruct (rev q) as [|cur rq] eqn:Er; [eexists; reflexivity|].
    pose proof Er as Er'. apply rev_cons_inv in Er. subst q.
    assert (Hcur : In cur R) by (apply HR, Hq, in_or_app; right; left; reflexivity).
    destruct (Hcl cur Hcur) as (g & Eg & Hops). rewrite Eg. cbn [bind].
    destruct (step_total (gops g)) with (st := (gs, rev rq)) as [[gs1 q1] Ef].
    { intros op Hop. destruct (Hops op Hop) as [H|[H _]]; [left; exact H|right; exact H]. }
    rewrite Ef. cbn [bind fst snd].
    destruct (step_ok _ _ _ _ _ Ef) as (new & -> & -> & Hndn & Ha & Hb).
    apply (IH _ _ R).
    + apply NoDup_app_intro; [exact Hnd|exact Hndn|]. intros x Hx Hxn. destruct (Ha x Hxn) as (_ & _ & Hn & _).
      contradiction.
    + intros x Hx. apply in_app_or in Hx. destruct Hx as [Hx|Hx]; [apply Hg; exact Hx|].
      destruct (Ha x Hx) as (_ & _ & _ & (og & Ho & _)). apply get_gate_ok in Ho. eapply get_has_gate; exact Ho.
    + intros x Hx. apply in_app_or in Hx. apply in_or_app.
      destruct Hx as [Hx|Hx]; [left; apply Hq; apply in_or_app; left; exact Hx|right; exact Hx].
    + rewrite !app_length in *. rewrite rev_length in *. simpl in Hk. lia.
    + exact Hcl.
    + intros x Hx. apply in_app_or in Hx. destruct Hx as [Hx|Hx]; [apply HR; exact Hx|].
      destruct (Ha x Hx) as (Hop & Hni & _ & _).
      destruct (Hops x Hop) as [Hl|[_ Hin]]; [congruence|exact Hin].
Qed.

(* error kinds (same argument as Proofs/SemReplaceSub3.v slice_loop_err, which sits behind heavier imports) *)
Lemma slice_err : NoDup (dkeys (gates c)) -> forall fuel gs q e,
  NoDup gs -> (forall x, In x gs -> has_gate c x = true) -> incl q gs ->
  size c + length q < fuel + length gs ->
  slice_loop fuel c ins gs q = Err e -> e = GateDoesntExistError \/ e = CreateBlockError.
Proof.
  intros Hkeys. induction fuel as [|fuel IH]; intros gs q e Hnd Hg Hq Hk H.
  - exfalso. assert (length gs <= size c); [|lia]. unfold size.
    rewrite <- (map_length fst (gates c)). apply NoDup_incl_length; [exact Hnd|].
    intros x Hx. apply dmem_keys. apply Hg. exact Hx.
  - rewrite slice_loop_unfold in H. destruct (rev q) as [|cur rq] eqn:Er; [discriminate|].
    apply rev_cons_inv in Er. subst q.
    destruct (get_gate c cur) as [g|e1] eqn:Eg; cbn [bind] in H.
    2:{ injection H as <-. left. unfold get_gate in Eg. destruct (dget (gates c) cur); congruence. }
    destruct (foldM slice_step (gops g) (gs, rev rq)) as [[gs1 q1]|e1] eqn:Ef; cbn [bind fst snd] in H.
    + destruct (step_ok _ _ _ _ _ Ef) as (new & -> & -> & Hndn & Ha & Hb).
      apply (IH _ _ _) in H; [exact H| | | |].
      * apply NoDup_app_intro; [exact Hnd|exact Hndn|]. intros x Hx Hxn. destruct (Ha x Hxn) as (_ & _ & Hn & _).
        contradiction.
      * intros x Hx. apply in_app_or in Hx. destruct Hx as [Hx|Hx]; [apply Hg; exact Hx|].
        destruct (Ha x Hx) as (_ & _ & _ & (og & Ho & _)). apply get_gate_ok in Ho. eapply get_has_gate; exact Ho.
      * intros x Hx. apply in_app_or in Hx. apply in_or_app.
        destruct Hx as [Hx|Hx]; [left; apply Hq; apply in_or_app; left; exact Hx|right; exact Hx].
      * rewrite !app_length in *. rewrite rev_length in *. simpl in Hk. lia.
    + injection H as <-. clear - Ef. revert Ef. generalize (gs, rev rq). induction (gops g) as [|op ops IHo]; intros st Ef;
        [discriminate|].
      cbn [foldM] in Ef. destruct (slice_step st op) as [s1|e2] eqn:Es; cbn [bind] in Ef; [apply (IHo s1 Ef)|].
      injection Ef as <-. destruct st as [gs0 q0]. unfold slice_step in Es.
      destruct (memb op ins); [discriminate|].
      destruct (get_gate c op) as [og|e3] eqn:Eo; cbn [bind] in Es.
      * destruct (gtype_beq (gtyp og) INPUT); [injection Es as <-; right; reflexivity|].
        destruct (memb op gs0); discriminate.
      * injection Es as <-. left. unfold get_gate in Eo. destruct (dget (gates c) op); congruence.
Qed.

(* the regenerated loop is the model's loop (it also returns the final, empty, work list) *)
Lemma gen_slice_loop_eq : forall fuel gs q,
  (do r <- gen_make_block_from_slice_loop1 fuel c ins gs q; Ok (fst r)) = slice_loop fuel c ins gs q.
Proof.
  induction fuel as [|fuel IH]; intros gs q; [reflexivity|].
  rewrite slice_loop_unfold. cbn [gen_make_block_from_slice_loop1].
  destruct (pop_last_cases q) as [[-> _]|(cur & rest & -> & Hp)]; [reflexivity|].
  rewrite match_snoc. unfold list_pop. rewrite Hp. cbn [bind].
  rewrite rev_app_distr. simpl. rewrite rev_involutive.
  rewrite gen_get_gate_eq. destruct (get_gate c cur) as [g|e]; cbn [bind]; [|reflexivity].
  match goal with |- bind (bind (foldM ?f _ _) _) _ = _ =>
    replace (foldM f (gops g) (gs, rest)) with (foldM slice_step (gops g) (gs, rest)) end.
  2:{ apply foldM_ext. intros [gs0 q0] op. unfold slice_step.
      destruct (memb op ins); cbn [negb]; [reflexivity|]. rewrite gen_get_gate_eq.
      destruct (get_gate c op) as [og|e]; cbn [bind]; [|reflexivity].
      destruct (gtype_beq (gtyp og) INPUT); [reflexivity|].
      destruct (memb op gs0) eqn:Em; cbn [negb]; [reflexivity|].
      unfold set_add. rewrite Em. reflexivity. }
  destruct (foldM slice_step (gops g) (gs, rest)) as [[gs1 q1]|e]; cbn [bind fst snd]; [|reflexivity].
  apply IH.
Qed.
End Slice.

(* ---------------------------------------------------------------- the start sets *)
Lemma In_fold_set_add l : forall acc x, In x (fold_left set_add l acc) <-> In x acc \/ In x l.
Proof.
  induction l as [|y l IH]; intros acc x; simpl; [tauto|].
  rewrite IH. unfold set_add. destruct (memb y acc) eqn:E.
  - apply memb_In in E. split; [tauto|]. intros [H|[<-|H]]; tauto.
  - rewrite in_app_iff. simpl. tauto.
Qed.

Lemma NoDup_fold_set_add l : forall acc, NoDup acc -> NoDup (fold_left set_add l acc).
Proof.
  induction l as [|y l IH]; intros acc H; simpl; [exact H|]. apply IH. unfold set_add.
  destruct (memb y acc) eqn:E; [exact H|]. apply NoDup_app_snoc; [exact H|apply memb_nIn; exact E].
Qed.

Lemma In_set_of_list l x : In x (set_of_list l) <-> In x l.
Proof. unfold set_of_list. rewrite In_fold_set_add. simpl. tauto. Qed.

Lemma NoDup_set_of_list l : NoDup (set_of_list l).
Proof. apply NoDup_fold_set_add. constructor. Qed.

Lemma In_dedup' x l : In x (dedup l) <-> In x l.
Proof.
  induction l as [|a l IH]; simpl; [tauto|]. destruct (memb a l) eqn:Em.
  - rewrite IH. apply memb_In in Em. split; [auto|]. intros [<-|H]; assumption.
  - simpl. rewrite IH. tauto.
Qed.

Lemma NoDup_dedup' l : NoDup (dedup l).
Proof.
  induction l as [|x l IH]; simpl; [constructor|]. destruct (memb x l) eqn:E; [exact IH|].
  constructor; [|exact IH]. rewrite In_dedup'. apply memb_nIn, E.
Qed.

Lemma In_canonical c s x : In x (canonical_block_gates c s) <-> In x (dkeys (gates c)) /\ In x s.
Proof. unfold canonical_block_gates. rewrite filter_In, memb_In. tauto. Qed.

Lemma NoDup_canonical c s : NoDup (dkeys (gates c)) -> NoDup (canonical_block_gates c s).
Proof. intros H. unfold canonical_block_gates. apply NoDup_filter. exact H. Qed.

Lemma memb_iff_In (a b : list label) : (forall x, In x a <-> In x b) -> forall x, memb x a = memb x b.
Proof.
  intros H x. destruct (memb x a) eqn:Ea, (memb x b) eqn:Eb; try reflexivity.
  - apply memb_In, H, memb_In in Ea. congruence.
  - apply memb_In, H, memb_In in Eb. congruence.
Qed.

(* ---------------------------------------------------------------- make_block_from_slice *)
(* equal, or both raise inside the loop (GateDoesntExistError / CreateBlockError, possibly a different one of
   the two: the order in which the gates are visited differs) *)
Definition slice_agree (g : res (circuit * block)) (h : res circuit) : Prop :=
  (do p <- g; Ok (fst p)) = h \/
  (exists e1 e2, g = Err e1 /\ h = Err e2 /\
     (e1 = GateDoesntExistError \/ e1 = CreateBlockError) /\ (e2 = GateDoesntExistError \/ e2 = CreateBlockError)).

Lemma gen_make_block_from_slice_agree c name ins outs :
  NoDup (dkeys (gates c)) ->
  slice_agree (gen_make_block_from_slice (S (size c)) c name ins outs) (make_block_from_slice c name ins outs).
Proof.
  intros Hkeys. unfold gen_make_block_from_slice, make_block_from_slice.
  destruct (gen_check_block_doesnt_exist name c) as [[]|e] eqn:E0.
  2:{ left. rewrite gen_check_block_doesnt_exist_eq in E0. rewrite E0. reflexivity. }
  rewrite gen_check_block_doesnt_exist_eq in E0. rewrite E0. cbn [bind].
  rewrite !gen_check_gates_exist_eq.
  destruct (check_gates_exist ins c) as [[]|e] eqn:E1; cbn [bind]; [|left; reflexivity].
  destruct (check_gates_exist outs c) as [[]|e] eqn:E2; cbn [bind]; [|left; reflexivity].
  set (F := filter (fun o => negb (memb o ins)) outs).
  set (gsg := set_of_list F). set (gsh := dedup F).
  assert (HF : forall x, In x F -> has_gate c x = true).
  { intros x Hx. apply filter_In in Hx. apply (proj1 (check_gates_exist_ok outs c) E2 x (proj1 Hx)). }
  assert (Hgg : forall x, In x gsg -> has_gate c x = true) by (intros x Hx; apply HF, In_set_of_list, Hx).
  assert (Hgh : forall x, In x gsh -> has_gate c x = true) by (intros x Hx; apply HF, In_dedup', Hx).
  assert (Hsame : forall x, In x gsg <-> In x gsh).
  { intros x. unfold gsg, gsh. rewrite In_set_of_list, In_dedup'. tauto. }
  assert (Hq : set_to_list c gsg = canonical_block_gates c gsg).
  { apply set_to_list_gates. intros x Hx. apply Hgg, memb_In, Hx. }
  rewrite Hq. set (qg := canonical_block_gates c gsg).
  assert (Hqg : incl qg gsg) by (intros x Hx; apply In_canonical in Hx; apply Hx).
  assert (Hlen : length qg <= length gsg).
  { apply NoDup_incl_length; [apply NoDup_canonical; exact Hkeys|exact Hqg]. }
  (* the regenerated loop is the model's loop *)
  match goal with |- slice_agree (bind ?X ?K) _ =>
    replace (bind X K) with
      (do gs <- (do r <- X; Ok (fst r));
       gen_make_block c name (set_to_list c gs) outs (Some ins)) end.
  2:{ rewrite bind_assoc. apply bind_ext. intros [gs q]. reflexivity. }
  rewrite gen_slice_loop_eq.
  destruct (slice_loop (S (size c)) c ins gsh gsh) as [rh|eh] eqn:Eh.
  - (* the model returns: so does the regenerated loop, with the same set *)
    destruct (slice_closed c ins _ _ _ _ Eh (incl_refl _)) as [Hch Hih].
    { intros x Hx Hn. contradiction. }
    destruct (slice_total c ins Hkeys (S (size c)) gsg qg rh) as [rg Eg].
    { apply NoDup_set_of_list. } { exact Hgg. } { exact Hqg. } { lia. } { exact Hch. }
    { intros x Hx. apply Hih, Hsame, Hx. }
    rewrite Eg. cbn [bind].
    destruct (slice_closed c ins _ _ _ _ Eg Hqg) as [Hcg Hig].
    { intros x Hx Hn. exfalso. apply Hn. apply In_canonical. split; [|exact Hx].
      apply dmem_keys. apply Hgg. exact Hx. }
    assert (Hgh' : incl rg rh).
    { apply (slice_least c ins _ _ _ _ Eg Hqg); [|exact Hch]. intros x Hx. apply Hih, Hsame, Hx. }
    assert (Hhg : incl rh rg).
    { apply (slice_least c ins _ _ _ _ Eh (incl_refl _)); [|exact Hcg]. intros x Hx. apply Hig, Hsame, Hx. }
    left. rewrite set_to_list_gates.
    2:{ intros x Hx. apply memb_In in Hx. destruct (Hcg x Hx) as (g & Hg & _).
        apply get_gate_ok in Hg. eapply get_has_gate; exact Hg. }
    rewrite (canonical_ext c rg rh).
    2:{ apply memb_iff_In. intros x. split; [apply Hgh'|apply Hhg]. }
    apply gen_make_block_eq.
  - (* the model raises: the regenerated loop cannot return *)
    destruct (slice_loop (S (size c)) c ins gsg qg) as [rg|eg] eqn:Eg.
    + exfalso.
      destruct (slice_closed c ins _ _ _ _ Eg Hqg) as [Hcg Hig].
      { intros x Hx Hn. exfalso. apply Hn. apply In_canonical. split; [|exact Hx].
        apply dmem_keys. apply Hgg. exact Hx. }
      destruct (slice_total c ins Hkeys (S (size c)) gsh gsh rg) as [rh Eh'].
      { apply NoDup_dedup'. } { exact Hgh. } { apply incl_refl. } { lia. } { exact Hcg. }
      { intros x Hx. apply Hig, Hsame, Hx. }
      congruence.
    + right. exists eg, eh. cbn [bind]. split; [reflexivity|]. split; [reflexivity|]. split.
      * apply (slice_err c ins Hkeys _ _ _ _ (NoDup_set_of_list F) Hgg Hqg) in Eg; [exact Eg|fold gsg; lia].
      * apply (slice_err c ins Hkeys _ _ _ _ (NoDup_dedup' F) Hgh (incl_refl _)) in Eh; [exact Eh|fold gsh; lia].
Qed.

(* consequences: same normal returns, same is_ok; the returned Block is the one stored under its name *)
Lemma slice_agree_ok g h c' : slice_agree g h -> ((exists b, g = Ok (c', b)) <-> h = Ok c').
Proof.
  intros [H|(e1 & e2 & -> & -> & _)].
  - subst h. destruct g as [[c1 b]|e]; simpl; split.
    + intros (b' & [= -> _]). reflexivity.
    + intros [= ->]. exists b. reflexivity.
    + intros (b' & Hb). discriminate.
    + discriminate.
  - split; [intros (b & Hb); discriminate|discriminate].
Qed.

Lemma slice_agree_is_ok g h : slice_agree g h -> is_ok g = is_ok h.
Proof.
  intros [H|(e1 & e2 & -> & -> & _)]; [|reflexivity]. subst h. destruct g as [[c1 b]|e]; reflexivity.
Qed.

Lemma gen_make_block_from_slice_block fuel c name ins outs c' b :
  gen_make_block_from_slice fuel c name ins outs = Ok (c', b) -> get_block c' name = Ok b.
Proof.
  unfold gen_make_block_from_slice.
  repeat match goal with |- bind ?X _ = _ -> _ => destruct X as [?|?]; cbn [bind]; [|discriminate] end.
  match goal with |- (let (_, _) := ?p in _) = _ -> _ => destruct p end.
  apply gen_make_block_block.
Qed.

(* the error kind can really differ *)
Definition slice_corner : circuit :=
  mkCircuit ["x"] ["a"; "b"]
            [("x", mkGate INPUT []); ("b", mkGate NOT ["zz"]); ("a", mkGate NOT ["x"])] [("x", ["a"])] [].
Lemma slice_error_kind_corner :
  gen_make_block_from_slice 4 slice_corner "B" [] ["a"; "b"] = Err CreateBlockError /\
  make_block_from_slice slice_corner "B" [] ["a"; "b"] = Err GateDoesntExistError.
Proof. split; vm_compute; reflexivity. Qed.
