(* Generic lemmas about the relational semantics used by the composition proofs (C10, C13):
   - Eval depends on the circuit through its gate map only;
   - the SIMULATION lemma: a circuit c1 is embedded in c2 by a label map f (non-INPUT gates
     are copied with renamed operands, INPUT gates of c1 are any label of c2 that has the
     value the assignment of c1 gives them): values are preserved in both directions;
   - extension (new gates with fresh labels do not change old values) as a corollary;
   - existence of values on well formed circuits with accepted arities, total assignments;
   - a foldM invariant that tracks the processed prefix of the list. *)
Require Import Cirbo.Model.Base Cirbo.Model.Gate Cirbo.Model.Den Cirbo.Model.Circuit Cirbo.Model.Eval
        Cirbo.Model.Sem Cirbo.Model.WF.
Require Import Cirbo.Generated.GateTypes.
Require Import Cirbo.Proofs.DictFacts Cirbo.Proofs.OpFacts Cirbo.Proofs.SemFacts Cirbo.Proofs.WFBase.

(* ------------------------------------------------------------------ *)
(* small list facts *)
Lemma Forall2_map_left {A B C} (P : B -> C -> Prop) (f : A -> B) l m :
  Forall2 P (map f l) m <-> Forall2 (fun x y => P (f x) y) l m.
Proof.
  split.
  - revert m; induction l as [|x l IH]; intros m H; inversion H; subst; constructor; auto.
  - induction 1; simpl; constructor; auto.
Qed.

Lemma Forall2_impl_In {A B} (P Q : A -> B -> Prop) l m :
  (forall x y, In x l -> P x y -> Q x y) -> Forall2 P l m -> Forall2 Q l m.
Proof.
  intros H F; induction F as [|x y l m Hxy _ IH]; constructor.
  - apply H; [left; reflexivity|exact Hxy].
  - apply IH. intros x' y' Hin; apply H; right; exact Hin.
Qed.

Lemma Forall2_eq_map {A B} (f : A -> B) l m :
  Forall2 (fun x y => y = f x) l m -> m = map f l.
Proof. induction 1 as [|x y l m Hxy _ IH]; simpl; [reflexivity|]. rewrite Hxy, IH; reflexivity. Qed.

Lemma Forall2_length_eq {A B} (P : A -> B -> Prop) l m : Forall2 P l m -> length l = length m.
Proof. induction 1; simpl; auto. Qed.

(* ------------------------------------------------------------------ *)
(* foldM with the processed prefix *)
Lemma foldM_prefix_inv {A S} (f : S -> A -> res S) (P : list A -> S -> Prop) (l : list A) :
  (forall done x rest s s', l = done ++ x :: rest -> P done s -> f s x = Ok s' -> P (done ++ [x]) s') ->
  forall s s', P [] s -> foldM f l s = Ok s' -> P l s'.
Proof.
  intros Hstep.
  assert (G : forall rest done s s', l = done ++ rest -> P done s -> foldM f rest s = Ok s' -> P l s').
  { induction rest as [|x rest IH]; intros done s s' E Hs H; simpl in H.
    - injection H as <-. rewrite app_nil_r in E; subst; exact Hs.
    - destruct (f s x) as [s1|e] eqn:Ef; simpl in H; [|discriminate].
      apply (IH (done ++ [x]) s1 s'); [rewrite <- app_assoc; exact E| |exact H].
      eapply Hstep; eassumption. }
  intros s s' Hs H. exact (G l [] s s' eq_refl Hs H).
Qed.

(* ------------------------------------------------------------------ *)
(* Eval reads the gate map only *)
Lemma Eval_same_gates c c' a l v : gates c' = gates c -> Eval c a l v -> Eval c' a l v.
Proof.
  intros G H; induction H as [l g Hg Ht|l g vs v Hg Ht Hops IH Hop] using Eval_ind2.
  - eapply EvalInput; [rewrite G; eassumption|assumption].
  - eapply EvalGate; [rewrite G; eassumption|assumption| |eassumption].
    clear -IH. induction IH; constructor; assumption.
Qed.

Lemma Eval_same_gates_iff c c' a l v : gates c' = gates c -> Eval c' a l v <-> Eval c a l v.
Proof. intros G; split; apply Eval_same_gates; congruence. Qed.

(* the value of an INPUT gate *)
Lemma Eval_input_inv c a l g v :
  dget (gates c) l = Some g -> gtyp g = INPUT -> Eval c a l v -> v = aval a l.
Proof.
  intros Hg Ht H. eapply Eval_functional; [exact H|]. eapply EvalInput; eassumption.
Qed.

(* Eval speaks about existing gates only *)
Lemma Eval_has_gate c a l v : Eval c a l v -> has_gate c l = true.
Proof. intros H; inversion H; subst; unfold has_gate, dmem; rewrite H0; reflexivity. Qed.

(* ------------------------------------------------------------------ *)
(* the simulation lemma *)
Section Sim.
  Variables (c1 c2 : circuit) (a1 a2 : assignment) (f : label -> label).
  Hypothesis Hin : forall l g, dget (gates c1) l = Some g -> gtyp g = INPUT ->
                               Eval c2 a2 (f l) (aval a1 l).
  Hypothesis Hgate : forall l g, dget (gates c1) l = Some g -> gtyp g <> INPUT ->
                                 dget (gates c2) (f l) = Some (mkGate (gtyp g) (map f (gops g))).

  Lemma Eval_sim_fwd l v : Eval c1 a1 l v -> Eval c2 a2 (f l) v.
  Proof.
    intros H; induction H as [l g Hg Ht|l g vs v Hg Ht Hops IH Hop] using Eval_ind2.
    - eapply Hin; eassumption.
    - eapply EvalGate; [apply (Hgate l g Hg Ht)|exact Ht| |exact Hop].
      simpl. apply Forall2_map_left. exact IH.
  Qed.

  (* operands of (non-INPUT) gates of c1 exist in c1 *)
  Hypothesis Hclosed : forall l g o, dget (gates c1) l = Some g -> gtyp g <> INPUT ->
                                     In o (gops g) -> has_gate c1 o = true.

  Lemma Eval_sim_bwd l' v :
    Eval c2 a2 l' v -> forall l, has_gate c1 l = true -> f l = l' -> Eval c1 a1 l v.
  Proof.
    intros H; induction H as [l' g' Hg' Ht'|l' g' vs v Hg' Ht' Hops' IH Hop'] using Eval_ind2;
      intros l Hl Hf; destruct (has_gate_get _ _ Hl) as [g Hg];
      destruct (gtype_eq_dec (gtyp g) INPUT) as [Ht|Ht].
    - pose proof (Hin l g Hg Ht) as H1. rewrite Hf in H1.
      rewrite <- (Eval_input_inv _ _ _ _ _ Hg' Ht' H1). eapply EvalInput; eassumption.
    - pose proof (Hgate l g Hg Ht) as H1. rewrite Hf, Hg' in H1. injection H1 as ->. simpl in Ht'.
      contradiction.
    - pose proof (Hin l g Hg Ht) as H1. rewrite Hf in H1.
      assert (H2 : Eval c2 a2 l' v) by (eapply EvalGate; eassumption).
      rewrite (Eval_functional _ _ _ _ _ H2 H1). eapply EvalInput; eassumption.
    - pose proof (Hgate l g Hg Ht) as H1. rewrite Hf, Hg' in H1. injection H1 as ->. simpl in *.
      eapply EvalGate; [exact Hg|exact Ht| |exact Hop'].
      apply Forall2_map_left in IH.
      eapply Forall2_impl_In; [|exact IH]. intros o w Ho Hw. simpl in Hw.
      apply Hw; [eapply Hclosed; eassumption|reflexivity].
  Qed.

  Theorem Eval_sim l v : has_gate c1 l = true -> (Eval c1 a1 l v <-> Eval c2 a2 (f l) v).
  Proof.
    intros Hl; split; [apply Eval_sim_fwd|]. intros H; eapply Eval_sim_bwd; [exact H|exact Hl|reflexivity].
  Qed.
End Sim.

(* extension: c' contains every gate of c unchanged (and whatever else) *)
Theorem Eval_ext c c' a l v :
  (forall x g, dget (gates c) x = Some g -> dget (gates c') x = Some g) ->
  (forall x g o, dget (gates c) x = Some g -> In o (gops g) -> has_gate c o = true) ->
  has_gate c l = true -> (Eval c a l v <-> Eval c' a l v).
Proof.
  intros Hsub Hcl Hl.
  apply (Eval_sim c c' a a (fun x => x)).
  - intros x g Hg Ht. eapply EvalInput; [apply Hsub; exact Hg|exact Ht].
  - intros x g Hg Ht. rewrite map_id. rewrite (Hsub x g Hg). destruct g; reflexivity.
  - intros x g o Hg _ Ho. eapply Hcl; eassumption.
  - exact Hl.
Qed.

(* ------------------------------------------------------------------ *)
(* existence of values: well formed, accepted arities, total assignment *)
Lemma Forall2_exists {A B} (P : A -> B -> Prop) l :
  (forall x, In x l -> exists y, P x y) -> exists m, Forall2 P l m.
Proof.
  induction l as [|x l IH]; intros H; [exists []; constructor|].
  destruct (H x (or_introl eq_refl)) as [y Hy].
  destruct IH as [m Hm]; [intros x' Hx'; apply H; right; exact Hx'|].
  exists (y :: m); constructor; assumption.
Qed.

Theorem Eval_exists c a :
  WF c -> arity_ok c -> total_on c a ->
  forall l, has_gate c l = true -> exists b, Eval c a l (inj b).
Proof.
  intros W A Tot. destruct (wf_acyclic c W) as [rank Hr].
  assert (G : forall n l, rank l < n -> has_gate c l = true -> exists b, Eval c a l (inj b)).
  { induction n as [|n IH]; intros l Hn Hl; [lia|].
    destruct (has_gate_get _ _ Hl) as [g Hg].
    destruct (gtype_eq_dec (gtyp g) INPUT) as [Ht|Ht].
    - pose proof (Tot l g Hg Ht) as Hu.
      assert (E : Eval c a l (aval a l)) by (eapply EvalInput; eassumption).
      destruct (aval a l); [exists false|exists true|contradiction]; exact E.
    - assert (Hops : exists bs, Forall2 (fun o b => Eval c a o (inj b)) (gops g) bs).
      { apply Forall2_exists. intros o Ho. apply IH.
        - specialize (Hr l g o Hg Ho). lia.
        - eapply (wf_ops c W); eassumption. }
      destruct Hops as [bs Hbs].
      pose proof (A l g Hg Ht) as Hacc.
      rewrite (Forall2_length_eq _ _ _ Hbs) in Hacc. apply den_accepts_spec in Hacc.
      destruct (den (gtyp g) bs) as [b|] eqn:Ed; [|contradiction].
      exists b. eapply EvalGate; [exact Hg|exact Ht| |].
      + instantiate (1 := map inj bs). clear -Hbs. induction Hbs; simpl; constructor; assumption.
      + rewrite operator_of_den, Ed. reflexivity. }
  intros l Hl. apply (G (S (rank l)) l); [lia|exact Hl].
Qed.

(* the Boolean value of a gate under a total assignment is unique *)
Lemma inj_injective b b' : inj b = inj b' -> b = b'.
Proof. destruct b, b'; simpl; congruence. Qed.
