(* Concrete objects for the non-vacuity examples of Properties/C04.v. *)
Require Import Cirbo.Model.Base Cirbo.Model.Gate Cirbo.Model.Den Cirbo.Model.Circuit
        Cirbo.Model.Eval Cirbo.Model.ConeSem Cirbo.Model.PatternSim Cirbo.Model.SubcircuitValidator.
Require Import Cirbo.Generated.GateTypes Cirbo.Generated.PatternOps.

(* x = (a AND b), y = NOT x, z = y OR c, w = a XOR b; outputs z and w.
   The cone of y over the cut {a, b} is {x, y}. *)
Definition c04_old : circuit :=
  mkCircuit ["a"; "b"; "c"] ["z"; "w"]
    [("a", mkGate INPUT []); ("b", mkGate INPUT []); ("c", mkGate INPUT []);
     ("x", mkGate AND ["a"; "b"]); ("y", mkGate NOT ["x"]); ("z", mkGate OR ["y"; "c"]);
     ("w", mkGate XOR ["a"; "b"])]
    [("a", ["x"; "w"]); ("b", ["x"; "w"]); ("x", ["y"]); ("y", ["z"]); ("c", ["z"])] [].

(* the cone {x, y} replaced by the single gate y = a NAND b *)
Definition c04_new : circuit :=
  mkCircuit ["a"; "b"; "c"] ["z"; "w"]
    [("a", mkGate INPUT []); ("b", mkGate INPUT []); ("c", mkGate INPUT []);
     ("z", mkGate OR ["y"; "c"]); ("w", mkGate XOR ["a"; "b"]); ("y", mkGate NAND ["a"; "b"])]
    [("a", ["w"; "y"]); ("b", ["w"; "y"]); ("c", ["z"]); ("y", ["z"])] [].

(* a wrong replacement: y = a AND b *)
Definition c04_bad : circuit :=
  mkCircuit ["a"; "b"; "c"] ["z"; "w"]
    [("a", mkGate INPUT []); ("b", mkGate INPUT []); ("c", mkGate INPUT []);
     ("z", mkGate OR ["y"; "c"]); ("w", mkGate XOR ["a"; "b"]); ("y", mkGate AND ["a"; "b"])]
    [("a", ["w"; "y"]); ("b", ["w"; "y"]); ("c", ["z"]); ("y", ["z"])] [].

(* the leaves u = a AND b, v = a OR b of the cone {t = (u LEQ v)} never carry the vector
   (u, v) = (true, false), so t is constantly true on the care set and may be replaced by
   t = (u GEQ u): accepted on the care set, rejected on all four leaf vectors *)
Definition c04_dc_old : circuit :=
  mkCircuit ["a"; "b"] ["t"]
    [("a", mkGate INPUT []); ("b", mkGate INPUT []); ("u", mkGate AND ["a"; "b"]);
     ("v", mkGate OR ["a"; "b"]); ("t", mkGate LEQ ["u"; "v"])]
    [("a", ["u"; "v"]); ("b", ["u"; "v"]); ("u", ["t"]); ("v", ["t"])] [].
Definition c04_dc_new : circuit :=
  mkCircuit ["a"; "b"] ["t"]
    [("a", mkGate INPUT []); ("b", mkGate INPUT []); ("u", mkGate AND ["a"; "b"]);
     ("v", mkGate OR ["a"; "b"]); ("t", mkGate GEQ ["u"; "u"])]
    [("a", ["u"; "v"]); ("b", ["u"; "v"]); ("u", ["t"; "t"])] [].
Definition c04_dc_care : list (list bool) := [[false; false]; [false; true]; [true; true]].

Lemma c04_old_cone_ok : NoDup ["a"; "b"] /\ cone_okb c04_old ["a"; "b"] [] ["a"; "b"; "x"; "y"] = true.
Proof. split; [apply nodupb_NoDup; reflexivity|reflexivity]. Qed.

Lemma c04_old_simulation :
  simulate_cone c04_old ["a"; "b"] ["a"; "b"; "x"; "y"] =
  Ok [("a", 10%N); ("b", 12%N); ("x", 8%N); ("y", 7%N)].
Proof. vm_compute. reflexivity. Qed.

Lemma c04_step_accepted : check_subst c04_old c04_new ["a"; "b"] ["y"] None = true.
Proof. vm_compute. reflexivity. Qed.

Lemma c04_step_rejected : check_step c04_old c04_bad ["a"; "b"] ["y"] None = false.
Proof. vm_compute. reflexivity. Qed.

Lemma c04_dc_step :
  check_subst c04_dc_old c04_dc_new ["u"; "v"] ["t"] None = false /\
  check_subst c04_dc_old c04_dc_new ["u"; "v"] ["t"] (Some c04_dc_care) = true /\
  care_covers c04_dc_old ["u"; "v"] c04_dc_care = true.
Proof. vm_compute. repeat split. Qed.

(* ---- the added hypotheses are necessary ---- *)
Require Import Cirbo.Proofs.ConeFacts.

(* arity: eval_pattern ignores a surplus operand of a comparison gate; such a gate is
   ill-formed in cirbo (its operator raises TypeError), the denotation is undefined *)
Lemma c04_cex_surplus_operand :
  eval_pattern (max_pattern 0) GEQ [1; 1; 0]%N = Ok 1%N /\
  den GEQ (map (fun p => N.testbit p 0) [1; 1; 0]%N) = None.
Proof. split; reflexivity. Qed.

(* the n-ary types are folded over all operands (repair D25: the unrepaired code read only
   the first two operands and answered 1 here) *)
Lemma c04_ternary_and :
  eval_pattern (max_pattern 0) AND [1; 1; 0]%N = Ok 0%N /\
  den AND (map (fun p => N.testbit p 0) [1; 1; 0]%N) = Some false.
Proof. split; reflexivity. Qed.

(* closedness: if the node x of the cone is not listed (a cut family that is not closed under
   sub-cuts), y = NOT x is simulated from the default pattern 0 and gets 15, although its
   value in row 3 (a = b = true) is false *)
Lemma c04_cex_missing_node :
  cone_okb c04_old ["a"; "b"] [] ["a"; "b"; "y"] = false /\
  simulate_cone c04_old ["a"; "b"] ["a"; "b"; "y"] = Ok [("a", 10%N); ("b", 12%N); ("y", 15%N)] /\
  N.testbit 15 3 = true /\
  ConeEval c04_old (row_assign ["a"; "b"] 3) "y" false.
Proof.
  split; [reflexivity|]. split; [vm_compute; reflexivity|]. split; [reflexivity|].
  apply (cone_eval_sound _ _ 5). vm_compute. reflexivity.
Qed.

(* the all-outputs-trivial branch: o = a OR (a AND b) has the pattern of the leaf a and is
   merged into it *)
Definition c04_merge_old : circuit :=
  mkCircuit ["a"; "b"] ["z"; "o"]
    [("a", mkGate INPUT []); ("b", mkGate INPUT []); ("x", mkGate AND ["a"; "b"]);
     ("o", mkGate OR ["a"; "x"]); ("z", mkGate NOT ["o"])]
    [("a", ["x"; "o"]); ("b", ["x"]); ("x", ["o"]); ("o", ["z"])] [].
Definition c04_merge_new : circuit :=
  mkCircuit ["a"; "b"] ["z"; "a"]
    [("a", mkGate INPUT []); ("b", mkGate INPUT []); ("x", mkGate AND ["a"; "b"]);
     ("z", mkGate NOT ["a"])]
    [("a", ["x"; "z"]); ("b", ["x"])] [].

Lemma c04_merge_accepted :
  check_merge c04_merge_old c04_merge_new ["a"; "b"] "o" "a" None = true /\
  check_merge c04_merge_old c04_merge_new ["a"; "b"] "o" "b" None = false.
Proof. vm_compute. split; reflexivity. Qed.
