(* C07, part 6: the generate_* wrappers (fresh circuit on the given inputs, one add_* call, outputs
   set to the returned bits). *)
Require Import Cirbo.Model.Base Cirbo.Model.Gate Cirbo.Model.Den Cirbo.Model.Circuit
  Cirbo.Model.Eval Cirbo.Model.Sem Cirbo.Model.Builder.
Require Import Cirbo.Model.ArithSub Cirbo.Model.ArithSum2 Cirbo.Model.ArithSumN Cirbo.Model.ArithSumW
  Cirbo.Model.ArithGen.
Require Import Cirbo.Proofs.DictFacts Cirbo.Proofs.BuilderFacts Cirbo.Proofs.ArithFacts
  Cirbo.Proofs.ArithGenFacts Cirbo.Proofs.ArithSumCells Cirbo.Proofs.ArithSumNFacts
  Cirbo.Proofs.ArithSumTopFacts Cirbo.Proofs.ArithSumWFacts Cirbo.Proofs.ArithSumWCount.
Open Scope Z_scope.

Lemma add_inputs_gates ls : forall c c',
  add_inputs c ls = Ok c' -> gates c' = gates c ++ map (fun l => (l, mkGate INPUT [])) ls.
Proof.
  induction ls as [|l ls IH]; intros c c' H; cbn [add_inputs] in H.
  - injection H as <-. rewrite app_nil_r. reflexivity.
  - destruct (check_label_doesnt_exist l c); [|discriminate]. cbn [bind] in H.
    destruct (emplace_gate c l INPUT []) as [c1|] eqn:E; [|discriminate]. cbn [bind] in H.
    apply emplace_input_inv in E as (_ & G & _). apply IH in H. rewrite H, G, <- app_assoc. reflexivity.
Qed.

(* every gate of the generated circuit is an input or of a type of the basis *)
Definition only_basis (T : gtype -> bool) (c : circuit) : Prop :=
  Forall (fun kg => gtyp (snd kg) = INPUT \/ T (gtyp (snd kg)) = true) (gates c).

Lemma only_basis_intro T ins c0 c1 c g :
  circuit_with_inputs ins = Ok c0 -> adds T c0 c1 g -> gates c = gates c1 ->
  only_basis T c /\ length (gates c) = (length ins + g)%nat.
Proof.
  intros H0 (ng & E & F & L) G. apply add_inputs_gates in H0. simpl in H0.
  unfold only_basis. rewrite G, E, H0. split.
  - apply Forall_app; split.
    + apply Forall_forall. intros kg Hin. apply in_map_iff in Hin as (l & <- & _). left; reflexivity.
    + eapply Forall_impl; [|exact F]. intros kg Hk; right; exact Hk.
  - rewrite app_length, map_length, L. reflexivity.
Qed.

Theorem generate_sum_n_bits_correct fresh k0 ins basis be c :
  generate_sum_n_bits fresh k0 ins basis be = Ok c ->
  exists b, resolve_basis basis = Ok b /\
    inputs c = ins /\ only_basis (t_of b) c /\
    (exists g, length (gates c) = (length ins + g)%nat /\ nbits_bound b g (length (outputs c)) (length ins)) /\
    forall asg bs, assigns asg ins bs ->
      exists rv, bvals c asg (outputs c) rv /\ decode be rv = ones bs.
Proof.
  intros H. apply gen_set_outputs_inv in H as (c0 & r & s' & H0 & Hr & G & I & O).
  pose proof H0 as H0'. apply circuit_with_inputs_spec in H0 as (I0 & _ & V0).
  apply add_sum_n_bits_correct in Hr as (b & Hb & Hx & I1 & _ & (g & A & Bd) & V). cbn [bc] in *.
  destruct (only_basis_intro _ _ _ _ _ _ H0' A G) as (OB & Lg).
  exists b. split; [exact Hb|]. split; [congruence|]. split; [exact OB|]. split.
  - exists g. split; [exact Lg|]. rewrite O. exact Bd.
  - intros asg bs Ha. destruct (V _ (ext_refl _) asg bs) as (rv & Vr & E).
    { eapply bvals_ext; [exact Hx|apply V0, Ha]. }
    exists rv. rewrite O. split; [eapply bvals_gates_eq; [symmetry; exact G|exact Vr]|exact E].
Qed.

Lemma map_fst_combine {A B} (l : list A) (m : list B) : length l = length m -> map fst (combine l m) = l.
Proof. revert m; induction l as [|a l IH]; intros [|b m]; simpl; intros E; try discriminate; [reflexivity|]. f_equal. apply IH. lia. Qed.
Lemma map_snd_combine {A B} (l : list A) (m : list B) : length l = length m -> map snd (combine l m) = m.
Proof. revert m; induction l as [|a l IH]; intros [|b m]; simpl; intros E; try discriminate; [reflexivity|]. f_equal. apply IH. lia. Qed.

(* the wrappers return the output gates only; their levels exist, are strictly increasing
   (pairwise distinct), and make the weighted sums equal *)
Theorem generate_sum_weighted_bits_efficient_correct fresh k0 ins weights basis c :
  generate_sum_weighted_bits_efficient fresh k0 ins weights basis = Ok c -> length weights = length ins ->
  exists b, resolve_basis basis = Ok b /\
    inputs c = ins /\ only_basis (t_of b) c /\
    (exists g, length (gates c) = (length ins + g)%nat /\
               match b with
               | AIG => (g + 3 * length (outputs c) <= 7 * length ins)%nat
               | XAIG => (g + 2 * length (outputs c) <= 5 * length ins)%nat
               end) /\
    exists res, outputs c = map snd res /\ incr res /\
      forall asg bs, assigns asg ins bs ->
        exists rv, bvals c asg (outputs c) rv /\ wvalue (map fst res) rv = wvalue weights bs.
Proof.
  intros H Lw. apply gen_set_outputs_inv in H as (c0 & r & s' & H0 & Hr & G & I & O).
  pose proof H0 as H0'. apply circuit_with_inputs_spec in H0 as (I0 & _ & V0).
  apply run_bind_inv in Hr as (res & s1 & Hr & Hret). apply run_ret_inv in Hret as (-> & ->).
  pose proof Hr as Hr0.
  apply add_sum_n_weighted_bits_correct in Hr as (b & Hb & Hx & I1 & _ & (g & A & Bd) & Inc & V). cbn [bc] in *.
  destruct (only_basis_intro _ _ _ _ _ _ H0' A G) as (OB & Lg).
  exists b. split; [exact Hb|]. split; [congruence|]. split; [exact OB|]. split.
  - exists g. split; [exact Lg|]. rewrite O, map_length. destruct b.
    + destruct (add_sum_n_weighted_bits_xaig_count _ _ _ _ _ _ Hr0 Hb) as (g' & A' & B'). cbn [bc] in *.
      assert (g = g') as -> by (apply adds_size in A; apply adds_size in A'; lia).
      unfold witem in *. rewrite combine_length in B'. lia.
    + specialize (Bd eq_refl). unfold witem in *. rewrite combine_length in Bd. lia.
  - exists res. split; [exact O|]. split; [exact Inc|].
    intros asg bs Ha. destruct (V _ (ext_refl _) asg bs) as (rv & Vr & E).
    { rewrite map_snd_combine by exact Lw. eapply bvals_ext; [exact Hx|apply V0, Ha]. }
    exists rv. rewrite O. split; [eapply bvals_gates_eq; [symmetry; exact G|exact Vr]|].
    rewrite E, map_fst_combine by exact Lw. reflexivity.
Qed.

Theorem generate_sum_weighted_bits_naive_correct fresh k0 ins weights basis c :
  generate_sum_weighted_bits_naive fresh k0 ins weights basis = Ok c -> length weights = length ins ->
  exists b, resolve_basis basis = Ok b /\
    inputs c = ins /\ only_basis (t_of b) c /\
    (length (gates c) + 3 * length (outputs c) <= (match b with AIG => 8 | XAIG => 6 end) * length ins)%nat /\
    exists res, outputs c = map snd res /\ incr res /\
      forall asg bs, assigns asg ins bs ->
        exists rv, bvals c asg (outputs c) rv /\ wvalue (map fst res) rv = wvalue weights bs.
Proof.
  intros H Lw. apply gen_set_outputs_inv in H as (c0 & r & s' & H0 & Hr & G & I & O).
  pose proof H0 as H0'. apply circuit_with_inputs_spec in H0 as (I0 & _ & V0).
  apply run_bind_inv in Hr as (res & s1 & Hr & Hret). apply run_ret_inv in Hret as (-> & ->).
  apply add_sum_n_weighted_bits_naive_correct in Hr as (b & Hb & Hx & I1 & _ & (g & A & Bd) & Inc & V). cbn [bc] in *.
  destruct (only_basis_intro _ _ _ _ _ _ H0' A G) as (OB & Lg).
  exists b. split; [exact Hb|]. split; [congruence|]. split; [exact OB|]. split.
  - unfold witem in *. rewrite Lg, O, map_length. rewrite combine_length in Bd. destruct b; lia.
  - exists res. split; [exact O|]. split; [exact Inc|].
    intros asg bs Ha. destruct (V _ (ext_refl _) asg bs) as (rv & Vr & E).
    { rewrite map_snd_combine by exact Lw. eapply bvals_ext; [exact Hx|apply V0, Ha]. }
    exists rv. rewrite O. split; [eapply bvals_gates_eq; [symmetry; exact G|exact Vr]|].
    rewrite E, map_fst_combine by exact Lw. reflexivity.
Qed.
