(* T6: the rewrite rules regenerated from converters.py (Generated/Converters.v, one Gallina function
   per `_convert_*` function, same statement order) against the hand-written model
   Model/Connect.v convert_gate / convert_cmp / convert_proj / convert_const / needs_fresh that the
   C14 and C02 theorems are about.

   Evaluation order.  The hand model reads both operands first (op_at g 0, op_at g 1) and only
   then calls emplace_gate.  Python evaluates `_gate.operands[i]` where it is written:
     _convert_lt / _convert_leq :  operands[0] ; emplace_gate ; ... ; operands[1]
     _convert_gt / _convert_geq :  operands[1] ; emplace_gate ; ... ; operands[0]
   For GT / GEQ (and the four projections, whose only other step remove_user never fails) the
   first lookup fails exactly when one of the two lookups of the hand model fails, with the same
   kind (PyIndexError).  For LT / LEQ on a gate with exactly ONE operand whose helper cannot be
   emplaced (label taken, or the operand is not a gate) Python raises CircuitValidationError
   before it reaches operands[1]; the hand model answers PyIndexError.  Both are errors, so nothing
   about normal returns changes; the kinds differ (witness: err_kind_differs below).  The strongest
   true statement is therefore generated_convert_gate_rel; equality holds outside that corner
   (generated_convert_gate_eq) and normal returns always agree (generated_convert_gate_ok). *)
Require Import Cirbo.Model.Base Cirbo.Model.Gate Cirbo.Model.Circuit Cirbo.Model.Connect.
Require Import Cirbo.Generated.Converters.

Lemma string_app_assoc (a b d : string) : ((a ++ b) ++ d)%string = (a ++ (b ++ d))%string.
Proof.
  induction a as [|ch a IH]; simpl; [reflexivity|]. rewrite IH. reflexivity.
Qed.

Lemma generated_add_new_gate_to_blocks_eq c old new :
  generated_add_new_gate_to_blocks c old new = add_new_gate_to_blocks c old new.
Proof. reflexivity. Qed.

Lemma generated_needs_fresh_eq t : generated_needs_fresh t = needs_fresh t.
Proof. destruct t; reflexivity. Qed.

(* the dispatch dict has exactly the keys the model rewrites *)
Lemma convertors_keys_spec t :
  In t convertors_keys <->
  In t [LT; LEQ; GT; GEQ; LIFF; RIFF; LNOT; RNOT; ALWAYS_TRUE; ALWAYS_FALSE].
Proof. reflexivity. Qed.

(* ---- the individual rules ---- *)
(* the corner in which the error kinds differ *)
Definition cmp_rel (gen hand : res circuit) (g : gate) : Prop :=
  gen = hand \/
  (length (gops g) = 1%nat /\ gen = Err CircuitValidationError /\ hand = Err PyIndexError).

Lemma check_gates_exist_err_kind c ops e :
  check_gates_exist ops c = Err e -> e = CircuitValidationError.
Proof.
  induction ops as [|o ops IH]; simpl; [discriminate|].
  destruct (has_gate c o); [exact IH|congruence].
Qed.

Lemma emplace_gate_err_kind c l t ops e :
  emplace_gate c l t ops = Err e -> e = CircuitValidationError.
Proof.
  unfold emplace_gate, check_label_doesnt_exist. destruct (has_gate c l); simpl; [congruence|].
  destruct (check_gates_exist ops c) as [u|e'] eqn:Hc; simpl; [discriminate|].
  intros H. injection H as <-. exact (check_gates_exist_err_kind _ _ _ Hc).
Qed.

Lemma gen_convert_lt_rel c l g fresh :
  cmp_rel (gen_convert_lt c l g fresh) (convert_cmp c l g "new_gate_LT_for_" fresh 0 AND) g.
Proof.
  unfold cmp_rel, gen_convert_lt, convert_cmp, op_at. rewrite string_app_assoc.
  destruct (gops g) as [|a [|b r]]; simpl; [left; reflexivity| |].
  - destruct (emplace_gate c _ NOT [a]) as [c1|e] eqn:He; simpl; [left; reflexivity|].
    apply emplace_gate_err_kind in He. subst e. right. auto.
  - left. destruct (emplace_gate c _ NOT [a]); reflexivity.
Qed.

Lemma gen_convert_leq_rel c l g fresh :
  cmp_rel (gen_convert_leq c l g fresh) (convert_cmp c l g "new_gate_LEQ_for_" fresh 0 OR) g.
Proof.
  unfold cmp_rel, gen_convert_leq, convert_cmp, op_at. rewrite string_app_assoc.
  destruct (gops g) as [|a [|b r]]; simpl; [left; reflexivity| |].
  - destruct (emplace_gate c _ NOT [a]) as [c1|e] eqn:He; simpl; [left; reflexivity|].
    apply emplace_gate_err_kind in He. subst e. right. auto.
  - left. destruct (emplace_gate c _ NOT [a]); reflexivity.
Qed.

Lemma gen_convert_gt_eq c l g fresh :
  gen_convert_gt c l g fresh = convert_cmp c l g "new_gate_GT_for_" fresh 1 AND.
Proof.
  unfold gen_convert_gt, convert_cmp, op_at. rewrite string_app_assoc.
  destruct (gops g) as [|a [|b r]]; simpl; [reflexivity|reflexivity|].
  destruct (emplace_gate c _ NOT [b]); reflexivity.
Qed.

Lemma gen_convert_geq_eq c l g fresh :
  gen_convert_geq c l g fresh = convert_cmp c l g "new_gate_GEQ_for_" fresh 1 OR.
Proof.
  unfold gen_convert_geq, convert_cmp, op_at. rewrite string_app_assoc.
  destruct (gops g) as [|a [|b r]]; simpl; [reflexivity|reflexivity|].
  destruct (emplace_gate c _ NOT [b]); reflexivity.
Qed.

Lemma gen_convert_liff_eq c l g fresh : gen_convert_liff c l g fresh = convert_proj c l g 0 IFF.
Proof.
  unfold gen_convert_liff, convert_proj, op_at. destruct (gops g) as [|a [|b r]]; reflexivity.
Qed.
Lemma gen_convert_riff_eq c l g fresh : gen_convert_riff c l g fresh = convert_proj c l g 1 IFF.
Proof.
  unfold gen_convert_riff, convert_proj, op_at. destruct (gops g) as [|a [|b r]]; reflexivity.
Qed.
Lemma gen_convert_lnot_eq c l g fresh : gen_convert_lnot c l g fresh = convert_proj c l g 0 NOT.
Proof.
  unfold gen_convert_lnot, convert_proj, op_at. destruct (gops g) as [|a [|b r]]; reflexivity.
Qed.
Lemma gen_convert_rnot_eq c l g fresh : gen_convert_rnot c l g fresh = convert_proj c l g 1 NOT.
Proof.
  unfold gen_convert_rnot, convert_proj, op_at. destruct (gops g) as [|a [|b r]]; reflexivity.
Qed.

Lemma gen_convert_always_true_eq c l g fresh :
  gen_convert_always_true c l g fresh = convert_const c l g "new_gate_ALWAYS_TRUE_for_" fresh OR.
Proof.
  unfold gen_convert_always_true, convert_const, input_at_index. rewrite string_app_assoc.
  destruct (inputs c) as [|i r]; simpl; [reflexivity|].
  destruct (emplace_gate c _ NOT [i]); reflexivity.
Qed.

Lemma gen_convert_always_false_eq c l g fresh :
  gen_convert_always_false c l g fresh = convert_const c l g "new_gate_ALWAYS_FALSE_for_" fresh AND.
Proof.
  unfold gen_convert_always_false, convert_const, input_at_index. rewrite string_app_assoc.
  destruct (inputs c) as [|i r]; simpl; [reflexivity|].
  destruct (emplace_gate c _ NOT [i]); reflexivity.
Qed.

(* ---- the dispatch ---- *)
(* strongest statement: equal, or the one-operand LT / LEQ corner with two different error kinds *)
Lemma generated_convert_gate_rel c l g fresh :
  generated_convert_gate c l g fresh = convert_gate c l g fresh \/
  ((gtyp g = LT \/ gtyp g = LEQ) /\ length (gops g) = 1%nat /\
   generated_convert_gate c l g fresh = Err CircuitValidationError /\
   convert_gate c l g fresh = Err PyIndexError).
Proof.
  unfold generated_convert_gate, convert_gate.
  destruct (gtyp g) eqn:Ht; try (left; reflexivity);
    try (left;
         first [ apply gen_convert_always_true_eq | apply gen_convert_always_false_eq
               | apply gen_convert_geq_eq | apply gen_convert_gt_eq
               | apply gen_convert_liff_eq | apply gen_convert_riff_eq
               | apply gen_convert_lnot_eq | apply gen_convert_rnot_eq ]; fail).
  - destruct (gen_convert_leq_rel c l g fresh) as [H|[H1 [H2 H3]]]; [left; exact H|right; auto].
  - destruct (gen_convert_lt_rel c l g fresh) as [H|[H1 [H2 H3]]]; [left; exact H|right; auto].
Qed.

Lemma generated_convert_gate_eq c l g fresh :
  (gtyp g = LT \/ gtyp g = LEQ -> length (gops g) <> 1%nat) ->
  generated_convert_gate c l g fresh = convert_gate c l g fresh.
Proof.
  intros Hn. destruct (generated_convert_gate_rel c l g fresh) as [H|[Ht [Hl _]]]; [exact H|].
  exfalso. exact (Hn Ht Hl).
Qed.

Lemma generated_convert_gate_ok c l g fresh c' :
  generated_convert_gate c l g fresh = Ok c' <-> convert_gate c l g fresh = Ok c'.
Proof.
  destruct (generated_convert_gate_rel c l g fresh) as [H|[_ [_ [H1 H2]]]].
  - rewrite H. tauto.
  - rewrite H1, H2. split; discriminate.
Qed.

Lemma generated_convert_gate_is_ok c l g fresh :
  is_ok (generated_convert_gate c l g fresh) = is_ok (convert_gate c l g fresh).
Proof.
  destruct (generated_convert_gate_rel c l g fresh) as [H|[_ [_ [H1 H2]]]].
  - rewrite H. reflexivity.
  - rewrite H1, H2. reflexivity.
Qed.

(* the corner is real: LT with one operand whose helper label is taken *)
Definition cex_kind : circuit :=
  mkCircuit ["a"] [] [("a", mkGate INPUT []); ("new_gate_LT_for_lX", mkGate NOT ["a"])]
            [("a", ["new_gate_LT_for_lX"])] [].
Lemma err_kind_differs :
  generated_convert_gate cex_kind "l" (mkGate LT ["a"]) "X" = Err CircuitValidationError /\
  convert_gate cex_kind "l" (mkGate LT ["a"]) "X" = Err PyIndexError.
Proof. split; vm_compute; reflexivity. Qed.

(* ---- the driver over the regenerated rules ---- *)
(* into_bench of Model/Connect.v with the rule set as a parameter *)
Definition into_bench_with (cg : circuit -> label -> gate -> string -> res circuit) (nf : gtype -> bool)
           (c : circuit) (fresh : list string) : res circuit :=
  do r <- foldM (fun (st : circuit * list string) (kg : label * gate) =>
            let '(c, fr) := st in
            if nf (gtyp (snd kg)) then
              match fr with
              | f :: fr' => do c' <- cg c (fst kg) (snd kg) f; Ok (c', fr')
              | [] => Err OutOfFuel
              end
            else do c' <- cg c (fst kg) (snd kg) ""; Ok (c', fr)) (gates c) (c, fresh);
  Ok (fst r).

Lemma into_bench_with_model c fresh : into_bench_with convert_gate needs_fresh c fresh = into_bench c fresh.
Proof. reflexivity. Qed.

Definition generated_into_bench := into_bench_with generated_convert_gate generated_needs_fresh.

Definition ok_agree {A} (x y : res A) : Prop :=
  match x, y with Ok a, Ok b => a = b | Err _, Err _ => True | _, _ => False end.

Lemma ok_agree_bind {A B} (x y : res A) (f : A -> res B) :
  ok_agree x y -> ok_agree (bind x f) (bind y f).
Proof.
  destruct x as [a|e], y as [b|e']; simpl; intros H; try contradiction; [subst b|exact I].
  destruct (f a); simpl; auto.
Qed.

Lemma generated_convert_gate_agree c l g fresh :
  ok_agree (generated_convert_gate c l g fresh) (convert_gate c l g fresh).
Proof.
  destruct (generated_convert_gate_rel c l g fresh) as [H|[_ [_ [H1 H2]]]].
  - rewrite H. destruct (convert_gate c l g fresh); simpl; auto.
  - rewrite H1, H2. exact I.
Qed.

Lemma generated_loop_agree gs : forall st,
  ok_agree
    (foldM (fun (st : circuit * list string) (kg : label * gate) =>
            let '(c, fr) := st in
            if generated_needs_fresh (gtyp (snd kg)) then
              match fr with
              | f :: fr' => do c' <- generated_convert_gate c (fst kg) (snd kg) f; Ok (c', fr')
              | [] => Err OutOfFuel
              end
            else do c' <- generated_convert_gate c (fst kg) (snd kg) ""; Ok (c', fr)) gs st)
    (foldM (fun (st : circuit * list string) (kg : label * gate) =>
            let '(c, fr) := st in
            if needs_fresh (gtyp (snd kg)) then
              match fr with
              | f :: fr' => do c' <- convert_gate c (fst kg) (snd kg) f; Ok (c', fr')
              | [] => Err OutOfFuel
              end
            else do c' <- convert_gate c (fst kg) (snd kg) ""; Ok (c', fr)) gs st).
Proof.
  induction gs as [|kg gs IH]; intros [c fr]; simpl; [reflexivity|].
  rewrite generated_needs_fresh_eq.
  assert (Hstep : forall f (k : circuit -> circuit * list string),
            ok_agree (do c' <- generated_convert_gate c (fst kg) (snd kg) f; Ok (k c'))
                     (do c' <- convert_gate c (fst kg) (snd kg) f; Ok (k c'))).
  { intros f k. apply ok_agree_bind. apply generated_convert_gate_agree. }
  destruct (needs_fresh (gtyp (snd kg))).
  - destruct fr as [|f fr']; simpl; [exact I|].
    specialize (Hstep f (fun c' => (c', fr'))).
    destruct (do c' <- generated_convert_gate c (fst kg) (snd kg) f; Ok (c', fr')) as [s1|e1],
             (do c' <- convert_gate c (fst kg) (snd kg) f; Ok (c', fr')) as [s2|e2];
      simpl in *; try contradiction; [subst s2; apply IH|exact I].
  - specialize (Hstep "" (fun c' => (c', fr))).
    destruct (do c' <- generated_convert_gate c (fst kg) (snd kg) ""; Ok (c', fr)) as [s1|e1],
             (do c' <- convert_gate c (fst kg) (snd kg) ""; Ok (c', fr)) as [s2|e2];
      simpl in *; try contradiction; [subst s2; apply IH|exact I].
Qed.

(* every statement of the form `into_bench c fresh = Ok c' -> ...` (all of C14, the into_bench case of
   C02) transfers to the driver over the regenerated rules *)
Lemma generated_into_bench_ok c fresh c' :
  generated_into_bench c fresh = Ok c' <-> into_bench c fresh = Ok c'.
Proof.
  unfold generated_into_bench, into_bench_with, into_bench.
  pose proof (generated_loop_agree (gates c) (c, fresh)) as H.
  match type of H with ok_agree ?x ?y => destruct x as [s1|e1], y as [s2|e2] end;
    simpl in *; try contradiction.
  - subst s2. tauto.
  - split; discriminate.
Qed.

(* and the results are equal as `res` values when no LT / LEQ gate of c has exactly one operand
   (in particular under arity_ok) *)
Lemma generated_loop_eq gs : forall st,
  (forall kg, In kg gs -> gtyp (snd kg) = LT \/ gtyp (snd kg) = LEQ -> length (gops (snd kg)) <> 1%nat) ->
  foldM (fun (st : circuit * list string) (kg : label * gate) =>
            let '(c, fr) := st in
            if generated_needs_fresh (gtyp (snd kg)) then
              match fr with
              | f :: fr' => do c' <- generated_convert_gate c (fst kg) (snd kg) f; Ok (c', fr')
              | [] => Err OutOfFuel
              end
            else do c' <- generated_convert_gate c (fst kg) (snd kg) ""; Ok (c', fr)) gs st =
  foldM (fun (st : circuit * list string) (kg : label * gate) =>
            let '(c, fr) := st in
            if needs_fresh (gtyp (snd kg)) then
              match fr with
              | f :: fr' => do c' <- convert_gate c (fst kg) (snd kg) f; Ok (c', fr')
              | [] => Err OutOfFuel
              end
            else do c' <- convert_gate c (fst kg) (snd kg) ""; Ok (c', fr)) gs st.
Proof.
  induction gs as [|kg gs IH]; intros [c fr] Hall; simpl; [reflexivity|].
  rewrite generated_needs_fresh_eq.
  assert (Hk : forall f, generated_convert_gate c (fst kg) (snd kg) f = convert_gate c (fst kg) (snd kg) f).
  { intros f. apply generated_convert_gate_eq. apply Hall. left. reflexivity. }
  assert (IH' := fun st => IH st (fun kg' Hin => Hall kg' (or_intror Hin))).
  destruct (needs_fresh (gtyp (snd kg))).
  - destruct fr as [|f fr']; [reflexivity|]. rewrite Hk.
    destruct (convert_gate c (fst kg) (snd kg) f); simpl; [apply IH'|reflexivity].
  - rewrite Hk. destruct (convert_gate c (fst kg) (snd kg) ""); simpl; [apply IH'|reflexivity].
Qed.

Lemma generated_into_bench_eq c fresh :
  (forall x g, In (x, g) (gates c) -> gtyp g = LT \/ gtyp g = LEQ -> length (gops g) <> 1%nat) ->
  generated_into_bench c fresh = into_bench c fresh.
Proof.
  intros Hall. unfold generated_into_bench, into_bench_with, into_bench.
  rewrite generated_loop_eq; [reflexivity|].
  intros [x g] Hin. apply (Hall x g Hin).
Qed.

(* the statement exported as C14_rules_regenerated *)
Lemma rules_regenerated :
  (forall t, generated_needs_fresh t = needs_fresh t) /\
  (forall c l g fresh,
     generated_convert_gate c l g fresh = convert_gate c l g fresh \/
     ((gtyp g = LT \/ gtyp g = LEQ) /\ length (gops g) = 1%nat /\
      generated_convert_gate c l g fresh = Err CircuitValidationError /\
      convert_gate c l g fresh = Err PyIndexError)) /\
  (forall c l g fresh c',
     generated_convert_gate c l g fresh = Ok c' <-> convert_gate c l g fresh = Ok c') /\
  (forall c fresh c', generated_into_bench c fresh = Ok c' <-> into_bench c fresh = Ok c').
Proof.
  split; [exact generated_needs_fresh_eq|].
  split; [exact generated_convert_gate_rel|].
  split; [exact generated_convert_gate_ok|exact generated_into_bench_ok].
Qed.
