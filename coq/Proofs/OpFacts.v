(* Facts about the GENERATED operator tables (Generated/Operators.v, GateTypes.v):
   - agreement with the hand-written denotation on Booleans (C01 a)
   - monotonicity in the information order (C15)
   - permutation invariance of symmetric types (used by C03/C18)
   Everything here is re-proved against the tables the source contains now. *)
Require Import Cirbo.Model.Base Cirbo.Model.Gate Cirbo.Model.Den.
Require Import Cirbo.Generated.Operators Cirbo.Generated.GateTypes.
From Coq Require Import Permutation.

(* ---------- binary step functions extracted from the generated folds ---- *)
Definition and3 (p1 p2 : st) : st := tbl_get tbl_and_truth_table (index_from_state p1 * 3 + index_from_state p2).
Definition or3 (p1 p2 : st) : st := tbl_get tbl_or_truth_table (index_from_state p1 * 3 + index_from_state p2).
Definition xor3 (p1 p2 : st) : st := tbl_get tbl_xor_truth_table (index_from_state p1 * 3 + index_from_state p2).

Lemma opand_fold a1 a2 r : opand_ a1 a2 r = fold_left and3 (a2 :: r) a1. Proof. reflexivity. Qed.
Lemma opor_fold a1 a2 r : opor_ a1 a2 r = fold_left or3 (a2 :: r) a1. Proof. reflexivity. Qed.
Lemma opxor_fold a1 a2 r : opxor_ a1 a2 r = fold_left xor3 (a2 :: r) a1. Proof. reflexivity. Qed.

Lemma and3_inj a b : and3 (inj a) (inj b) = inj (andb a b). Proof. destruct a, b; reflexivity. Qed.
Lemma or3_inj a b : or3 (inj a) (inj b) = inj (orb a b). Proof. destruct a, b; reflexivity. Qed.
Lemma xor3_inj a b : xor3 (inj a) (inj b) = inj (xorb a b). Proof. destruct a, b; reflexivity. Qed.
Lemma not_inj a : opnot_ (inj a) = inj (negb a). Proof. destruct a; reflexivity. Qed.

Lemma fold_inj (f3 : st -> st -> st) (f : bool -> bool -> bool) :
  (forall a b, f3 (inj a) (inj b) = inj (f a b)) ->
  forall l a, fold_left f3 (map inj l) (inj a) = inj (fold_left f l a).
Proof.
  intros H l; induction l as [|x xs IH]; intros a; simpl; [reflexivity|].
  rewrite H. apply IH.
Qed.

Definition arity_err (g : gtype) : err :=
  match g with INPUT => GateTypeNoOperatorError | _ => PyTypeError end.

(* C01 (a): on Boolean arguments every generated operator is the denotation, and it
   raises exactly where the denotation is undefined. *)
Lemma opand_den a b r : opand_ (inj a) (inj b) (map inj r) = inj (fold_left andb (b :: r) a).
Proof. rewrite opand_fold. change (inj b :: map inj r) with (map inj (b :: r)). apply fold_inj, and3_inj. Qed.
Lemma opor_den a b r : opor_ (inj a) (inj b) (map inj r) = inj (fold_left orb (b :: r) a).
Proof. rewrite opor_fold. change (inj b :: map inj r) with (map inj (b :: r)). apply fold_inj, or3_inj. Qed.
Lemma opxor_den a b r : opxor_ (inj a) (inj b) (map inj r) = inj (fold_left xorb (b :: r) a).
Proof. rewrite opxor_fold. change (inj b :: map inj r) with (map inj (b :: r)). apply fold_inj, xor3_inj. Qed.

Theorem operator_of_den g bs :
  operator_of g (map inj bs) =
  match den g bs with Some b => Ok (inj b) | None => Err (arity_err g) end.
Proof.
  destruct g; try reflexivity;
    destruct bs as [|a [|b r]]; try reflexivity;
    cbn [operator_of den map fold_bool bin un option_map arity_err];
    unfold opnand_, opnor_, opnxor_, oprnot_, oplnot_, opriff_, opliff_, opiff_;
    rewrite ?opand_den, ?opor_den, ?opxor_den, ?not_inj; try reflexivity;
    try (destruct r; try reflexivity; cbn [map]; rewrite ?not_inj; try reflexivity; destruct a, b; reflexivity).
Qed.

(* ---------- monotonicity in the information order (C15) ------------------ *)
Lemma st_le_refl a : st_le a a. Proof. right; reflexivity. Qed.
Lemma st_le_U a : st_le U a. Proof. left; reflexivity. Qed.

Ltac st_cases := unfold st_le; intros;
  repeat match goal with
         | H : _ \/ _ |- _ => destruct H
         | H : ?x = _ |- _ => subst x
         | H : _ = ?x |- _ => subst x
         end.

Lemma and3_mono a a' b b' : st_le a a' -> st_le b b' -> st_le (and3 a b) (and3 a' b').
Proof. unfold st_le; destruct a, a', b, b'; intros [H1|H1] [H2|H2]; try discriminate; cbv; auto. Qed.
Lemma or3_mono a a' b b' : st_le a a' -> st_le b b' -> st_le (or3 a b) (or3 a' b').
Proof. unfold st_le; destruct a, a', b, b'; intros [H1|H1] [H2|H2]; try discriminate; cbv; auto. Qed.
Lemma xor3_mono a a' b b' : st_le a a' -> st_le b b' -> st_le (xor3 a b) (xor3 a' b').
Proof. unfold st_le; destruct a, a', b, b'; intros [H1|H1] [H2|H2]; try discriminate; cbv; auto. Qed.
Lemma not_mono a a' : st_le a a' -> st_le (opnot_ a) (opnot_ a').
Proof. unfold st_le; destruct a, a'; intros [H1|H1]; try discriminate; cbv; auto. Qed.

Lemma fold_mono (f : st -> st -> st) :
  (forall a a' b b', st_le a a' -> st_le b b' -> st_le (f a b) (f a' b')) ->
  forall l l', Forall2 st_le l l' -> forall a a', st_le a a' ->
  st_le (fold_left f l a) (fold_left f l' a').
Proof.
  intros Hf l l' H; induction H as [|x y l l' Hxy _ IH]; intros a a' Ha; simpl; [exact Ha|].
  apply IH, Hf; assumption.
Qed.

Lemma bin_mono (t : list st) :
  (forall a a' b b', st_le a a' -> st_le b b' ->
     st_le (tbl_get t (index_from_state a * 3 + index_from_state b))
           (tbl_get t (index_from_state a' * 3 + index_from_state b'))) ->
  True.
Proof. trivial. Qed.

Theorem operator_of_mono g vs vs' v :
  Forall2 st_le vs vs' -> operator_of g vs = Ok v ->
  exists v', operator_of g vs' = Ok v' /\ st_le v v'.
Proof.
  intros H.
  destruct g; simpl; try discriminate;
    try (intros E; injection E as <-; eexists; split; [reflexivity|apply st_le_refl]);
    (* n-ary *)
    try (inversion H as [|x y l l' Hxy H' E1 E2]; subst; try discriminate;
         inversion H' as [|x2 y2 l2 l2' Hxy2 H'' E3 E4]; subst; try discriminate;
         intros E; injection E as <-; eexists; split; [reflexivity|];
         unfold opnand_, opnor_, opnxor_; try apply not_mono;
         rewrite ?opand_fold, ?opor_fold, ?opxor_fold;
         first [apply (fold_mono and3 and3_mono)|apply (fold_mono or3 or3_mono)|apply (fold_mono xor3 xor3_mono)];
         [constructor; assumption|assumption]);
    (* unary / binary *)
    inversion H as [|x y l l' Hxy H' E1 E2]; subst; try discriminate;
    try (inversion H' as [|x2 y2 l2 l2' Hxy2 H'' E3 E4]; subst; try discriminate;
         inversion H''; subst; try discriminate);
    try (inversion H'; subst; try discriminate);
    intros E; injection E as <-; eexists; (split; [reflexivity|]);
    unfold oprnot_, oplnot_, opriff_, opliff_, opiff_; try (apply not_mono; assumption); try assumption;
    revert Hxy Hxy2; unfold st_le; destruct x, y, x2, y2; intros [H1|H1] [H2|H2]; try discriminate; cbv; auto.
Qed.

(* a total (Boolean) argument vector never yields Undefined *)
Theorem operator_of_total g bs v :
  operator_of g (map inj bs) = Ok v -> exists b, v = inj b /\ den g bs = Some b.
Proof.
  rewrite operator_of_den. destruct (den g bs); [|discriminate].
  intros E; injection E as <-. eauto.
Qed.

(* ---------- symmetric types are permutation invariant -------------------- *)
Lemma fold_left_perm (f : st -> st -> st) :
  (forall a b c, f (f a b) c = f (f a c) b) ->
  forall l l', Permutation l l' -> forall a, fold_left f l a = fold_left f l' a.
Proof.
  intros Hf l l' H; induction H; intros a; simpl; auto.
  - rewrite Hf; reflexivity.
  - rewrite IHPermutation1; apply IHPermutation2.
Qed.

Lemma and3_rc a b c : and3 (and3 a b) c = and3 (and3 a c) b. Proof. destruct a, b, c; reflexivity. Qed.
Lemma or3_rc a b c : or3 (or3 a b) c = or3 (or3 a c) b. Proof. destruct a, b, c; reflexivity. Qed.
Lemma xor3_rc a b c : xor3 (xor3 a b) c = xor3 (xor3 a c) b. Proof. destruct a, b, c; reflexivity. Qed.
Lemma and3_unit a : and3 T a = a. Proof. destruct a; reflexivity. Qed.
Lemma or3_unit a : or3 F a = a. Proof. destruct a; reflexivity. Qed.
Lemma xor3_unit a : xor3 F a = a. Proof. destruct a; reflexivity. Qed.

Lemma nary_perm (f : st -> st -> st) (e : st) :
  (forall a b c, f (f a b) c = f (f a c) b) -> (forall a, f e a = a) ->
  forall l l', Permutation l l' ->
  match l with a1 :: a2 :: r => Some (fold_left f (a2 :: r) a1) | _ => None end =
  match l' with a1 :: a2 :: r => Some (fold_left f (a2 :: r) a1) | _ => None end.
Proof.
  intros Hf He l l' HP.
  assert (Hlen := Permutation_length HP).
  assert (Hfold := fold_left_perm f Hf _ _ HP e).
  destruct l as [|a1 [|a2 r]], l' as [|b1 [|b2 r']]; simpl in *; try discriminate; try reflexivity.
  rewrite !He in Hfold. rewrite Hfold; reflexivity.
Qed.

Theorem operator_of_symmetric g vs vs' :
  is_symmetric g = true -> Permutation vs vs' -> operator_of g vs = operator_of g vs'.
Proof.
  intros Hs HP; destruct g; simpl in *; try discriminate; try reflexivity.
  - pose proof (nary_perm and3 T and3_rc and3_unit _ _ HP) as H.
    destruct vs as [|a1 [|a2 r]], vs' as [|b1 [|b2 r']]; try discriminate; try reflexivity.
    rewrite !opand_fold; cbn [fold_left]; injection H as H; rewrite H; reflexivity.
  - (* IFF *) assert (Hlen := Permutation_length HP).
    destruct vs as [|a [|? ?]], vs' as [|b [|? ?]]; simpl in *; try discriminate; try reflexivity.
    apply Permutation_length_1 in HP; subst; reflexivity.
  - pose proof (nary_perm and3 T and3_rc and3_unit _ _ HP) as H.
    destruct vs as [|a1 [|a2 r]], vs' as [|b1 [|b2 r']]; try discriminate; try reflexivity.
    unfold opnand_; rewrite !opand_fold; cbn [fold_left]; injection H as H; rewrite H; reflexivity.
  - pose proof (nary_perm or3 F or3_rc or3_unit _ _ HP) as H.
    destruct vs as [|a1 [|a2 r]], vs' as [|b1 [|b2 r']]; try discriminate; try reflexivity.
    unfold opnor_; rewrite !opor_fold; cbn [fold_left]; injection H as H; rewrite H; reflexivity.
  - (* NOT *) assert (Hlen := Permutation_length HP).
    destruct vs as [|a [|? ?]], vs' as [|b [|? ?]]; simpl in *; try discriminate; try reflexivity.
    apply Permutation_length_1 in HP; subst; reflexivity.
  - pose proof (nary_perm xor3 F xor3_rc xor3_unit _ _ HP) as H.
    destruct vs as [|a1 [|a2 r]], vs' as [|b1 [|b2 r']]; try discriminate; try reflexivity.
    unfold opnxor_; rewrite !opxor_fold; cbn [fold_left]; injection H as H; rewrite H; reflexivity.
  - pose proof (nary_perm or3 F or3_rc or3_unit _ _ HP) as H.
    destruct vs as [|a1 [|a2 r]], vs' as [|b1 [|b2 r']]; try discriminate; try reflexivity.
    rewrite !opor_fold; cbn [fold_left]; injection H as H; rewrite H; reflexivity.
  - pose proof (nary_perm xor3 F xor3_rc xor3_unit _ _ HP) as H.
    destruct vs as [|a1 [|a2 r]], vs' as [|b1 [|b2 r']]; try discriminate; try reflexivity.
    rewrite !opxor_fold; cbn [fold_left]; injection H as H; rewrite H; reflexivity.
Qed.
