(* C07, normal termination, part 2: the weighted sums add_sum_n_weighted_bits_naive and
   add_sum_n_weighted_bits (both bases), for ALL weight vectors.

   Measure of the work lists: M = |single| + 2 |pairs| (a pair stands for two bits).  One
   iteration of the level loop pops the lowest level lev (at least one item, because lev is the
   level of a list head), emits one bit and pushes strictly fewer bits to level lev + 1 than it
   popped, so M decreases: the fuel S n is never exhausted.  SortedList insertion keeps M
   (sl_add_length).  Sentinel: with  bnd  a strict upper bound of all pending levels, the quantity
   bnd + M never grows (a level visit raises bnd by at most one and lowers M by at least one);
   it starts at  max level + 1 + n = inf, hence lev < bnd <= inf - M < inf: the branch where
   Python would `break` with a truncated result (Err PyAssertionError in the model) is
   unreachable.  No sortedness is needed for termination. *)
Require Import Cirbo.Model.Base Cirbo.Model.Gate Cirbo.Model.Circuit Cirbo.Model.Builder.
Require Import Cirbo.Generated.ArithTables Cirbo.Generated.ArithCells.
Require Import Cirbo.Model.ArithSub Cirbo.Model.ArithSum2 Cirbo.Model.ArithSumN Cirbo.Model.ArithSumW.
Require Import Cirbo.Proofs.DictFacts Cirbo.Proofs.BuilderFacts Cirbo.Proofs.ArithFacts
  Cirbo.Proofs.TotalFacts Cirbo.Proofs.ArithTotalFacts Cirbo.Proofs.ArithSumTotalN.

(* ---- sorted-list insertion is a permutation as far as Forall and length are concerned ---------- *)
Lemma sl_add_Forall {A} (ltb : A -> A -> bool) (P : A -> Prop) x l :
  P x -> Forall P l -> Forall P (sl_add ltb x l).
Proof.
  intros Hx. induction 1 as [|y l Hy Hl IH]; simpl; [constructor; [exact Hx|constructor]|].
  destruct (ltb x y); constructor; auto.
Qed.

Lemma sl_add_len {A} (ltb : A -> A -> bool) x l : length (sl_add ltb x l) = S (length l).
Proof. induction l as [|y l IH]; simpl; [reflexivity|]. destruct (ltb x y); simpl; congruence. Qed.

Lemma sl_fold_Forall {A B} (ltb : A -> A -> bool) (f : B -> A) (P : A -> Prop) l : forall acc,
  Forall (fun x => P (f x)) l -> Forall P acc -> Forall P (fold_left (fun acc x => sl_add ltb (f x) acc) l acc).
Proof.
  induction l as [|x l IH]; simpl; intros acc Hl Ha; [exact Ha|]. inversion Hl; subst.
  apply IH; [assumption|]. apply sl_add_Forall; assumption.
Qed.

Lemma sl_fold_len {A B} (ltb : A -> A -> bool) (f : B -> A) l : forall acc,
  length (fold_left (fun acc x => sl_add ltb (f x) acc) l acc) = (length l + length acc)%nat.
Proof. induction l as [|x l IH]; simpl; intros acc; [reflexivity|]. rewrite IH, sl_add_len. lia. Qed.

Lemma sl_of_list_Forall {A} (ltb : A -> A -> bool) (P : A -> Prop) l : Forall P l -> Forall P (sl_of_list ltb l).
Proof.
  intros H. unfold sl_of_list. apply (sl_fold_Forall ltb (fun x => x) P); [exact H|constructor].
Qed.

Lemma sl_of_list_len {A} (ltb : A -> A -> bool) l : length (sl_of_list ltb l) = length l.
Proof. unfold sl_of_list. rewrite (sl_fold_len ltb (fun x => x)). simpl. lia. Qed.

Lemma add_singles_Forall (P : witem -> Prop) lev next single :
  Forall (fun x => P (lev, x)) next -> Forall P single -> Forall P (add_singles lev next single).
Proof. apply (sl_fold_Forall witem_ltb (fun x => (lev, x)) P). Qed.

Lemma add_singles_len lev next single : length (add_singles lev next single) = (length next + length single)%nat.
Proof. apply (sl_fold_len witem_ltb (fun x => (lev, x))). Qed.

Lemma add_pairs_Forall (P : wpair -> Prop) lev next pairs :
  Forall (fun p => P (lev, fst p, snd p)) next -> Forall P pairs -> Forall P (add_pairs lev next pairs).
Proof. apply (sl_fold_Forall wpair_ltb (fun p : label * label => (lev, fst p, snd p)) P). Qed.

Lemma add_pairs_len lev next pairs : length (add_pairs lev next pairs) = (length next + length pairs)%nat.
Proof. apply (sl_fold_len wpair_ltb (fun p : label * label => (lev, fst p, snd p))). Qed.

(* ---- popping one level: a prefix of items of that level ----------------------------------------- *)
Lemma take_level_eq lev l : forall now rest,
  take_level lev l = (now, rest) -> l = map (fun x => (lev, x)) now ++ rest.
Proof.
  induction l as [|[lv x] l IH]; simpl; intros now rest E; [injection E as <- <-; reflexivity|].
  destruct (N.eqb_spec lv lev) as [->|Hne]; [|injection E as <- <-; reflexivity].
  destruct (take_level lev l) as [a b]. injection E as <- <-. simpl. f_equal. apply IH. reflexivity.
Qed.

Lemma take_level_pairs_eq lev l : forall now rest,
  take_level_pairs lev l = (now, rest) -> l = map (fun p => (lev, fst p, snd p)) now ++ rest.
Proof.
  induction l as [|[[lv x] y] l IH]; simpl; intros now rest E; [injection E as <- <-; reflexivity|].
  destruct (N.eqb_spec lv lev) as [->|Hne]; [|injection E as <- <-; reflexivity].
  destruct (take_level_pairs lev l) as [a b]. injection E as <- <-. simpl. f_equal. apply IH. reflexivity.
Qed.

Lemma take_level_head lev x l : (1 <= length (fst (take_level lev ((lev, x) :: l))))%nat.
Proof. simpl. rewrite N.eqb_refl. destruct (take_level lev l). simpl. lia. Qed.

Lemma take_level_pairs_head lev x y l : (1 <= length (fst (take_level_pairs lev ((lev, x, y) :: l))))%nat.
Proof. simpl. rewrite N.eqb_refl. destruct (take_level_pairs lev l). simpl. lia. Qed.

(* ---- invariants of the work lists ------------------------------------------------------------------ *)
Definition pklev (p : wpair) : N := fst (fst p).
Definition sbelow (b : N) (l : list witem) : Prop := Forall (fun it => (fst it < b)%N) l.
Definition pbelow (b : N) (l : list wpair) : Prop := Forall (fun p => (pklev p < b)%N) l.
Definition wex (c : circuit) (l : list witem) : Prop := Forall (fun it => has_gate c (snd it) = true) l.
Definition pex (c : circuit) (l : list wpair) : Prop :=
  Forall (fun p => has_gate c (snd (fst p)) = true /\ has_gate c (snd p) = true) l.

Lemma wex_ext c c' l : ext c c' -> wex c l -> wex c' l.
Proof. intros Hx H. eapply Forall_impl; [|exact H]. intros it; apply ext_has_gate, Hx. Qed.

Lemma pex_ext c c' l : ext c c' -> pex c l -> pex c' l.
Proof.
  intros Hx H. eapply Forall_impl; [|exact H]. intros p (H1 & H2). split; eapply ext_has_gate; eassumption.
Qed.

Lemma wex_all_exist c l : wex c l <-> all_exist c (map snd l).
Proof. unfold wex, all_exist. rewrite Forall_map. reflexivity. Qed.

Lemma sbelow_weaken b b' l : (b <= b')%N -> sbelow b l -> sbelow b' l.
Proof. intros H. apply Forall_impl. intros it; lia. Qed.

Lemma pbelow_weaken b b' l : (b <= b')%N -> pbelow b l -> pbelow b' l.
Proof. intros H. apply Forall_impl. intros it; lia. Qed.

Lemma sbelow_max inp : sbelow (fold_right N.max 0%N (map fst inp) + 1) inp.
Proof.
  induction inp as [|[l x] inp IH]; [constructor|]. cbn [map fold_right fst].
  constructor; [cbn [fst]; lia|]. eapply sbelow_weaken; [|exact IH]. lia.
Qed.

Section TotalW.
  Variable fresh : N -> label.
  Hypothesis Hf : fresh_total fresh.

  Ltac finish := cbn [run]; eexists _, _; split; [reflexivity|].

  (* one level of the naive generator / of the AIG mode: the carries go to level lev + 1 *)
  Lemma solo_level_ok cell3 cell2 : cell3_ok fresh cell3 -> cell2_ok fresh cell2 ->
    forall lev now rest s, now <> [] -> all_exist (bc s) now ->
      exists r s', run fresh (solo_level cell3 cell2 lev now rest) s = Ok (r, s') /\
        has_gate (bc s') (fst r) = true /\
        exists cs, snd r = add_singles (lev + 1) cs rest /\ all_exist (bc s') cs /\
                   (length cs + 1 <= length now)%nat.
  Proof.
    intros C3 C2 lev now rest s Hne Hn. unfold solo_level.
    destruct (rev now) as [|top others] eqn:E.
    { exfalso. apply Hne. apply (f_equal (@length label)) in E. rewrite rev_length in E.
      destruct now; [reflexivity|discriminate]. }
    assert (all_exist (bc s) (top :: others)) as Hr by (rewrite <- E; apply all_exist_rev, Hn).
    inversion Hr as [|? ? Ht Ho]; subst.
    destruct (solo_loop_ok fresh _ _ C3 C2 (length others) others top [] s) as (r & s1 & E1 & H1 & H2 & L1);
      [lia|exact Ht|exact Ho|constructor|].
    rewrite (bind_ok _ _ _ _ _ _ E1). finish. cbn [fst snd]. split; [exact H1|].
    exists (rev (snd r)). split; [reflexivity|]. split; [apply all_exist_rev, H2|].
    rewrite rev_length. apply (f_equal (@length label)) in E. rewrite rev_length in E. simpl in E, L1. lia.
  Qed.

  (* ---- add_sum_n_weighted_bits_naive ---- *)
  Lemma naive_loop_ok inf cell3 cell2 : cell3_ok fresh cell3 -> cell2_ok fresh cell2 ->
    forall fuel single s bnd, (length single <= fuel)%nat ->
      (bnd + N.of_nat (length single) <= inf)%N -> sbelow bnd single -> wex (bc s) single ->
      exists r s', run fresh (naive_loop fuel inf cell3 cell2 single) s = Ok (r, s') /\ wex (bc s') r.
  Proof.
    intros C3 C2. induction fuel as [|f IH]; intros single s bnd Lf Li Sb Sx.
    - destruct single; [|simpl in Lf; lia]. cbn [naive_loop]. finish. constructor.
    - destruct single as [|[lev x] single']; [cbn [naive_loop]; finish; constructor|].
      cbn [naive_loop].
      assert (lev < bnd)%N as Hlt by (inversion Sb; subst; assumption).
      destruct (inf <=? lev)%N eqn:Ei; [apply N.leb_le in Ei; simpl length in Li; lia|].
      pose proof (take_level_head lev x single') as Hne. unfold witem in *.
      destruct (take_level lev ((lev, x) :: single')) as [now rest] eqn:Et. cbn [fst] in Hne.
      apply take_level_eq in Et. rewrite Et in Lf, Li, Sb, Sx.
      rewrite app_length, map_length in Lf, Li.
      apply Forall_app in Sb as (_ & Sb1). apply Forall_app in Sx as (Sx0 & Sx1).
      rewrite Forall_map in Sx0.
      destruct (solo_level_ok _ _ C3 C2 lev now rest s) as (st & s1 & E1 & H1 & cs & Ecs & Hcs & Lcs);
        [destruct now; [simpl in Hne; lia|discriminate]|exact Sx0|].
      rewrite (bind_ok _ _ _ _ _ _ E1). pose proof (run_ext _ _ _ _ _ E1) as X1. unfold witem in *.
      destruct (IH (snd st) s1 (bnd + 1)%N) as (rs & s2 & E2 & H2).
      { rewrite Ecs, add_singles_len. unfold witem, wpair in *. lia. }
      { rewrite Ecs, add_singles_len. unfold witem, wpair in *. lia. }
      { rewrite Ecs. apply add_singles_Forall; [apply Forall_forall; intros y _; cbn [fst]; lia|].
        eapply sbelow_weaken; [|exact Sb1]. lia. }
      { rewrite Ecs. apply add_singles_Forall; [exact Hcs|eapply wex_ext; eassumption]. }
      rewrite (bind_ok _ _ _ _ _ _ E2). finish.
      constructor; [|exact H2]. cbn [snd]. eapply ext_has_gate; [eapply run_ext; exact E2|exact H1].
  Qed.

  Lemma w_inf_ok inp : inp <> [] ->
    w_inf inp = Ok (fold_right N.max 0%N (map fst inp) + N.of_nat (length inp) + 1)%N.
  Proof. destruct inp; [contradiction|reflexivity]. Qed.

  Theorem add_sum_n_weighted_bits_naive_ok basis b inp s :
    resolve_basis basis = Ok b -> inp <> [] -> all_exist (bc s) (map snd inp) ->
    exists r s', run fresh (add_sum_n_weighted_bits_naive basis inp) s = Ok (r, s') /\
                 all_exist (bc s') (map snd r).
  Proof.
    intros Hb Hne Hx. unfold add_sum_n_weighted_bits_naive. rewrite Hb, (w_inf_ok inp Hne). cbn [ret_res].
    rewrite (bind_ok fresh (Ret b) _ s b s eq_refl).
    match goal with |- context [Bind (Ret ?i) ?k] => rewrite (bind_ok fresh (Ret i) k s i s eq_refl) end.
    set (mx := fold_right N.max 0%N (map fst inp)).
    assert (forall cell3 cell2, cell3_ok fresh cell3 -> cell2_ok fresh cell2 ->
      exists r s', run fresh (naive_loop (S (length inp)) (mx + N.of_nat (length inp) + 1) cell3 cell2
                                         (sl_of_list witem_ltb inp)) s = Ok (r, s') /\
                   all_exist (bc s') (map snd r)) as Hgen.
    { intros cell3 cell2 C3 C2.
      destruct (naive_loop_ok (mx + N.of_nat (length inp) + 1) _ _ C3 C2 (S (length inp))
                              (sl_of_list witem_ltb inp) s (mx + 1)%N) as (r & s1 & E1 & H1).
      - rewrite sl_of_list_len. unfold witem in *. lia.
      - rewrite sl_of_list_len. unfold witem in *. lia.
      - apply sl_of_list_Forall, sbelow_max.
      - apply sl_of_list_Forall, wex_all_exist, Hx.
      - exists r, s1. split; [exact E1|apply wex_all_exist, H1]. }
    destruct b; apply Hgen.
    - apply add_sum3_ok, Hf. - apply add_sum2_ok, Hf.
    - apply add_sum3_aig_ok, Hf. - apply add_sum2_aig_ok, Hf.
  Qed.

  (* ---- add_sum_n_weighted_bits ---- *)
  Lemma eff_loop_ok inf b : forall fuel single pairs s bnd,
    (length single + 2 * length pairs <= fuel)%nat ->
    (bnd + N.of_nat (length single + 2 * length pairs) <= inf)%N ->
    sbelow bnd single -> pbelow bnd pairs -> wex (bc s) single -> pex (bc s) pairs ->
    (b = AIG -> pairs = []) ->
    exists r s', run fresh (eff_loop fuel inf b single pairs) s = Ok (r, s') /\ wex (bc s') r.
  Proof.
    induction fuel as [|f IH]; intros single pairs s bnd Lf Li Sb Pb Sx Px Haig.
    { destruct single; [|simpl in Lf; lia]. destruct pairs; [|simpl in Lf; lia].
      cbn [eff_loop]. finish. constructor. }
    set (lev := N.min (head_level inf fst single) (head_level inf (fun p : wpair => fst (fst p)) pairs)).
    assert (Hstep : (1 <= length single + 2 * length pairs)%nat ->
      exists r s', run fresh
        (if (inf <=? lev)%N then Fail PyAssertionError
         else let '(now_singles, single1) := take_level lev single in
              let '(now_pairs, pairs1) := take_level_pairs lev pairs in
              match b with
              | AIG =>
                bdo st <- solo_level add_sum3_aig add_sum2_aig lev now_singles single1;
                bdo rs <- eff_loop f inf b (snd st) pairs1;
                Ret ((lev, fst st) :: rs)
              | XAIG =>
                bdo st <- pair_up (rev now_singles) (rev now_pairs);
                bdo lv <- xaig_level (fst st) (snd st);
                let '(r, next_solo, next_xxy) := lv in
                bdo rs <- eff_loop f inf b (add_singles (lev + 1) (rev next_solo) single1)
                                           (add_pairs (lev + 1) (rev next_xxy) pairs1);
                Ret ((lev, r) :: rs)
              end) s = Ok (r, s') /\ wex (bc s') r).
    { intros L1.
      assert ((lev < bnd)%N /\
              (1 <= length (fst (take_level lev single)) + 2 * length (fst (take_level_pairs lev pairs)))%nat)
        as (Hlt & Hne).
      { unfold lev. destruct single as [|[l0 x] single']; destruct pairs as [|[[l1 px] py] pairs'];
          cbn [head_level fst].
        - simpl in L1. lia.
        - inversion Pb as [|? ? Hp _]; subst. unfold pklev in Hp. cbn [fst] in Hp.
          rewrite N.min_r by lia. split; [exact Hp|]. pose proof (take_level_pairs_head l1 px py pairs'). unfold witem, wpair in *. lia.
        - inversion Sb as [|? ? Hs _]; subst. cbn [fst] in Hs.
          rewrite N.min_l by lia. split; [exact Hs|]. pose proof (take_level_head l0 x single'). unfold witem, wpair in *. lia.
        - inversion Pb as [|? ? Hp _]; subst. unfold pklev in Hp. cbn [fst] in Hp.
          inversion Sb as [|? ? Hs _]; subst. cbn [fst] in Hs.
          destruct (N.min_spec l0 l1) as [(Hc & ->)|(Hc & ->)].
          + split; [exact Hs|]. pose proof (take_level_head l0 x single'). unfold witem, wpair in *. lia.
          + split; [exact Hp|]. pose proof (take_level_pairs_head l1 px py pairs'). unfold witem, wpair in *. lia. }
      clearbody lev.
      destruct (inf <=? lev)%N eqn:Ei; [apply N.leb_le in Ei; lia|].
      destruct (take_level lev single) as [now single1] eqn:Et.
      destruct (take_level_pairs lev pairs) as [nowp pairs1] eqn:Etp. cbn [fst] in Hne. cbv beta iota.
      apply take_level_eq in Et. apply take_level_pairs_eq in Etp.
      rewrite Et in Lf, Li, Sb, Sx. rewrite Etp in Lf, Li, Pb, Px.
      rewrite !app_length, !map_length in Lf, Li.
      apply Forall_app in Sb as (_ & Sb1). apply Forall_app in Sx as (Sx0 & Sx1).
      apply Forall_app in Pb as (_ & Pb1). apply Forall_app in Px as (Px0 & Px1).
      rewrite Forall_map in Sx0, Px0.
      destruct b.
      - (* XAIG *)
        destruct (pair_up_ok fresh Hf (length (rev now)) (rev now) (rev nowp) s)
          as ([solo xxy] & s1 & E1 & H1 & H2 & L2); [lia|apply all_exist_rev, Sx0|apply all_exist2_rev, Px0|].
        rewrite (bind_ok _ _ _ _ _ _ E1). cbn [fst snd] in *. rewrite !rev_length in L2.
        pose proof (run_ext _ _ _ _ _ E1) as X1.
        destruct (xaig_level_ok fresh Hf solo xxy s1) as ([[r ns] nx] & s2 & E2 & H3 & H4 & H5 & L3);
          [lia|exact H1|exact H2|].
        rewrite (bind_ok _ _ _ _ _ _ E2). cbn [fst snd] in *. cbv beta iota.
        pose proof (run_ext _ _ _ _ _ E2) as X2. unfold witem, wpair in *.
        destruct (IH (add_singles (lev + 1) (rev ns) single1) (add_pairs (lev + 1) (rev nx) pairs1) s2 (bnd + 1)%N)
          as (rs & s3 & E3 & H6).
        { rewrite add_singles_len, add_pairs_len, !rev_length. unfold witem, wpair in *. lia. }
        { rewrite add_singles_len, add_pairs_len, !rev_length. unfold witem, wpair in *. lia. }
        { apply add_singles_Forall; [apply Forall_forall; intros y _; cbn [fst]; lia|].
          eapply sbelow_weaken; [|exact Sb1]. lia. }
        { apply add_pairs_Forall; [apply Forall_forall; intros y _; unfold pklev; cbn [fst]; lia|].
          eapply pbelow_weaken; [|exact Pb1]. lia. }
        { apply add_singles_Forall; [apply all_exist_rev, H4|].
          eapply wex_ext; [exact (ext_trans _ _ _ X1 X2)|exact Sx1]. }
        { apply add_pairs_Forall; [apply all_exist2_rev, H5|].
          eapply pex_ext; [exact (ext_trans _ _ _ X1 X2)|exact Px1]. }
        { discriminate. }
        rewrite (bind_ok _ _ _ _ _ _ E3). finish.
        constructor; [|exact H6]. cbn [snd]. eapply ext_has_gate; [eapply run_ext; exact E3|exact H3].
      - (* AIG: there are no pairs *)
        specialize (Haig eq_refl). subst pairs. symmetry in Etp. apply app_eq_nil in Etp as (En & ->).
        apply map_eq_nil in En as ->. cbn [length] in *.
        destruct (solo_level_ok _ _ (add_sum3_aig_ok fresh Hf) (add_sum2_aig_ok fresh Hf) lev now single1 s)
          as (st & s1 & E1 & H1 & cs & Ecs & Hcs & Lcs);
          [destruct now; [simpl in Hne; lia|discriminate]|exact Sx0|].
        rewrite (bind_ok _ _ _ _ _ _ E1). pose proof (run_ext _ _ _ _ _ E1) as X1. unfold witem, wpair in *.
        destruct (IH (snd st) [] s1 (bnd + 1)%N) as (rs & s2 & E2 & H2).
        { rewrite Ecs, add_singles_len. cbn [length]. unfold witem, wpair in *. lia. }
        { rewrite Ecs, add_singles_len. cbn [length]. unfold witem, wpair in *. lia. }
        { rewrite Ecs. apply add_singles_Forall; [apply Forall_forall; intros y _; cbn [fst]; lia|].
          eapply sbelow_weaken; [|exact Sb1]. lia. }
        { constructor. }
        { rewrite Ecs. apply add_singles_Forall; [exact Hcs|eapply wex_ext; eassumption]. }
        { constructor. } { reflexivity. }
        rewrite (bind_ok _ _ _ _ _ _ E2). finish.
        constructor; [|exact H2]. cbn [snd]. eapply ext_has_gate; [eapply run_ext; exact E2|exact H1]. }
    destruct single as [|w single']; destruct pairs as [|p pairs'].
    - cbn [eff_loop]. finish. constructor.
    - apply Hstep. simpl. lia.
    - apply Hstep. simpl. lia.
    - apply Hstep. simpl. lia.
  Qed.

  Theorem add_sum_n_weighted_bits_ok basis b inp s :
    resolve_basis basis = Ok b -> inp <> [] -> all_exist (bc s) (map snd inp) ->
    exists r s', run fresh (add_sum_n_weighted_bits basis inp) s = Ok (r, s') /\
                 all_exist (bc s') (map snd r).
  Proof.
    intros Hb Hne Hx. unfold add_sum_n_weighted_bits. rewrite Hb, (w_inf_ok inp Hne). cbn [ret_res].
    rewrite (bind_ok fresh (Ret b) _ s b s eq_refl).
    match goal with |- context [Bind (Ret ?i) ?k] => rewrite (bind_ok fresh (Ret i) k s i s eq_refl) end.
    set (mx := fold_right N.max 0%N (map fst inp)).
    destruct (eff_loop_ok (mx + N.of_nat (length inp) + 1) b (S (length inp))
                          (sl_of_list witem_ltb inp) [] s (mx + 1)%N) as (r & s1 & E1 & H1).
    - rewrite sl_of_list_len. unfold witem in *. simpl. lia.
    - rewrite sl_of_list_len. unfold witem in *. simpl. lia.
    - apply sl_of_list_Forall, sbelow_max.
    - constructor.
    - apply sl_of_list_Forall, wex_all_exist, Hx.
    - constructor.
    - reflexivity.
    - exists r, s1. split; [exact E1|apply wex_all_exist, H1].
  Qed.
End TotalW.
