(* The definitions that translator T9 regenerates from cirbo/core/circuit/{validation,utils,circuit}.py
   (Generated/CircuitCore.v) are equal, for all arguments, to the hand-written model Model/Circuit.v.
   An edit of a covered method changes a generated definition and breaks one of these lemmas. *)
Require Import Cirbo.Model.Base Cirbo.Model.Gate Cirbo.Model.Circuit Cirbo.Generated.CircuitCore.
Require Import Cirbo.Proofs.DictFacts.

(* ---------------------------------------------------------------- generic facts *)
Lemma bind_ret {A} (r : res A) : bind r (fun x => Ok x) = r.
Proof. destruct r; reflexivity. Qed.

Lemma bind_unit (r : res unit) : bind r (fun _ => Ok tt) = r.
Proof. destruct r as [[]|]; reflexivity. Qed.

Lemma bind_assoc {A B C} (r : res A) (f : A -> res B) (g : B -> res C) :
  bind (bind r f) g = bind r (fun x => bind (f x) g).
Proof. destruct r; reflexivity. Qed.

Lemma foldM_ext {A S} (f g : S -> A -> res S) l :
  (forall s x, f s x = g s x) -> forall s, foldM f l s = foldM g l s.
Proof.
  intros H; induction l as [|x xs IH]; intros s; simpl; [reflexivity|].
  rewrite H. destruct (g s x); simpl; [apply IH|reflexivity].
Qed.

(* a loop whose body cannot raise is a fold_left *)
Lemma foldM_total {A S} (f : S -> A -> res S) (g : S -> A -> S) l :
  (forall s x, f s x = Ok (g s x)) -> forall s, foldM f l s = Ok (fold_left g l s).
Proof.
  intros H; induction l as [|x xs IH]; intros s; simpl; [reflexivity|].
  rewrite H; simpl. apply IH.
Qed.

(* a loop over unit that only checks = a forallb *)
Lemma foldM_check {A} (p : A -> bool) (e : err) l :
  foldM (fun (_ : unit) x => if p x then Err e else Ok tt) l tt
  = if forallb (fun x => negb (p x)) l then Ok tt else Err e.
Proof.
  induction l as [|x xs IH]; simpl; [reflexivity|].
  destruct (p x); simpl; [reflexivity|exact IH].
Qed.

Lemma dmem_dget {V} (d : dict V) k : dmem d k = match dget d k with Some _ => true | None => false end.
Proof. reflexivity. Qed.

(* ---------------------------------------------------------------- accessors *)
Lemma gen_has_gate_eq c l : gen_has_gate c l = has_gate c l.
Proof. reflexivity. Qed.

Lemma gen_get_gate_eq c l : gen_get_gate c l = get_gate c l.
Proof.
  unfold gen_get_gate, get_gate, dget_res, dmem.
  destruct (dget (gates c) l); reflexivity.
Qed.

Lemma gen_get_gate_users_eq c l : gen_get_gate_users c l = get_gate_users c l.
Proof.
  unfold gen_get_gate_users, get_gate_users, has_gate, dget_res, dmem.
  destruct (dget (gates c) l); simpl; [|reflexivity].
  destruct (dget (users c) l); reflexivity.
Qed.

Lemma gen_get_block_eq c b : gen_get_block c b = get_block c b.
Proof. reflexivity. Qed.

(* ---------------------------------------------------------------- validation.py *)
Lemma gen_check_gates_exist_eq ls c : gen_check_gates_exist ls c = check_gates_exist ls c.
Proof.
  unfold gen_check_gates_exist. rewrite bind_unit.
  induction ls as [|l ls IH]; simpl; [reflexivity|].
  unfold gen_has_gate at 1. unfold has_gate.
  destruct (dmem (gates c) l); simpl; [exact IH|reflexivity].
Qed.

Lemma gen_check_label_doesnt_exist_eq l c : gen_check_label_doesnt_exist l c = check_label_doesnt_exist l c.
Proof. reflexivity. Qed.

Lemma gen_check_gate_has_not_users_eq l c : gen_check_gate_has_not_users l c = check_gate_has_not_users l c.
Proof.
  unfold gen_check_gate_has_not_users, check_gate_has_not_users.
  rewrite gen_get_gate_users_eq.
  destruct (get_gate_users c l) as [[|u us]|e]; reflexivity.
Qed.

Lemma gen_check_block_doesnt_exist_eq b c : gen_check_block_doesnt_exist b c = check_block_doesnt_exist b c.
Proof. reflexivity. Qed.

Lemma check_block_loop_eq c all excl bg :
  foldM (fun (_ : unit) g =>
           if negb (memb g excl) then
             do us <- gen_get_gate_users c g;
             do _ <- foldM (fun (_ : unit) u => if negb (memb u all) then Err DeleteBlockError else Ok tt) us tt;
             Ok tt
           else Ok tt) bg tt
  = check_block_has_no_users_loop bg all excl c.
Proof.
  induction bg as [|g rest IH]; simpl; [reflexivity|].
  destruct (memb g excl); simpl; [exact IH|].
  rewrite gen_get_gate_users_eq.
  destruct (get_gate_users c g) as [us|e]; simpl; [|reflexivity].
  rewrite foldM_check.
  replace (forallb (fun x => negb (negb (memb x all))) us) with (forallb (fun u => memb u all) us).
  - destruct (forallb (fun u => memb u all) us); simpl; [exact IH|reflexivity].
  - clear. induction us as [|a us IH]; simpl; [reflexivity|].
    rewrite negb_involutive, IH. reflexivity.
Qed.

(* exclusion_gates=None means the empty set *)
Lemma gen_check_block_has_no_users_eq b c excl :
  gen_check_block_has_no_users b c excl
  = check_block_has_no_users b c (match excl with Some e => e | None => [] end).
Proof.
  unfold gen_check_block_has_no_users, check_block_has_no_users.
  destruct excl as [e|]; cbn [bind]; rewrite bind_unit; apply check_block_loop_eq.
Qed.

(* ---------------------------------------------------------------- utils.order_list *)
Lemma order_list_loop_eq ordered : forall old_copy acc,
  foldM (fun '(new, oc) e =>
           if negb (memb e oc) then Err CircuitGateIsAbsentError
           else do oc' <- list_remove e oc; Ok (new ++ [e], oc')) ordered (acc, old_copy)
  = order_list_loop ordered old_copy acc.
Proof.
  induction ordered as [|e rest IH]; intros oc acc; simpl; [reflexivity|].
  unfold list_remove. destruct (memb e oc); simpl; [apply IH|reflexivity].
Qed.

Lemma foldM_append (l : list label) : forall acc,
  foldM (fun acc e => Ok (acc ++ [e])) l acc = Ok (acc ++ l).
Proof.
  induction l as [|x xs IH]; intros acc; simpl; [rewrite app_nil_r; reflexivity|].
  rewrite IH, <- app_assoc. reflexivity.
Qed.

Lemma gen_order_list_eq ordered old : gen_order_list ordered old = order_list ordered old.
Proof.
  unfold gen_order_list, order_list.
  rewrite <- order_list_loop_eq.
  match goal with |- bind ?a _ = bind ?b _ => replace a with b end.
  2:{ apply foldM_ext. intros [n o] x. destruct (memb x o) eqn:E; simpl; [|reflexivity].
      unfold list_remove. rewrite E. reflexivity. }
  destruct (foldM _ ordered ([], old)) as [[new oc]|e]; simpl; [|reflexivity].
  destruct (Nat.eqb (length new) (length old)); [reflexivity|].
  rewrite bind_ret. apply foldM_append.
Qed.

(* ---------------------------------------------------------------- users index *)
Lemma gen__add_user_eq c g u : gen__add_user c g u = Ok (add_user c g u).
Proof.
  unfold gen__add_user, add_user, dget_res, dmem.
  destruct (dget (users c) g); reflexivity.
Qed.

Lemma gen__remove_user_eq c g u : gen__remove_user c g u = Ok (remove_user c g u).
Proof.
  unfold gen__remove_user, remove_user, dget_res, list_remove, dmem.
  destruct (dget (users c) g) as [us|]; simpl; [|reflexivity].
  destruct (memb u us); reflexivity.
Qed.

Lemma add_users_loop u ops : forall c,
  foldM (fun c op => do c' <- gen__add_user c op u; Ok c') ops c = Ok (add_users c ops u).
Proof.
  intros c. unfold add_users. apply foldM_total.
  intros s x. rewrite gen__add_user_eq. reflexivity.
Qed.

Lemma remove_users_loop u ops : forall c,
  foldM (fun c op => do c' <- gen__remove_user c op u; Ok c') ops c = Ok (remove_users c ops u).
Proof.
  intros c. unfold remove_users. apply foldM_total.
  intros s x. rewrite gen__remove_user_eq. reflexivity.
Qed.

(* ---------------------------------------------------------------- adding gates *)
Lemma gen__emplace_gate_eq c l t ops : gen__emplace_gate c l t ops = Ok (emplace_gate_raw c l t ops).
Proof.
  unfold gen__emplace_gate, emplace_gate_raw.
  rewrite add_users_loop. cbn [bind].
  destruct (gtype_beq t INPUT); reflexivity.
Qed.

(* add_gate(Gate(l, t, ops)): the model passes the three components *)
Lemma gen__add_gate_eq c l g : gen__add_gate c l g = Ok (emplace_gate_raw c l (gtyp g) (gops g)).
Proof.
  unfold gen__add_gate, emplace_gate_raw.
  rewrite add_users_loop. cbn [bind]. destruct g as [t ops]; cbn [gtyp gops].
  destruct (gtype_beq t INPUT); reflexivity.
Qed.

Lemma gen_emplace_gate_eq c l t ops : gen_emplace_gate c l t ops = emplace_gate c l t ops.
Proof.
  unfold gen_emplace_gate, emplace_gate.
  rewrite gen_check_gates_exist_eq, gen__emplace_gate_eq. reflexivity.
Qed.

Lemma gen_add_gate_eq c l g : gen_add_gate c l g = add_gate c l (gtyp g) (gops g).
Proof.
  unfold gen_add_gate, add_gate, emplace_gate.
  rewrite gen_check_gates_exist_eq, gen__add_gate_eq. reflexivity.
Qed.

Lemma gen_add_inputs_eq ls : forall c, gen_add_inputs c ls = add_inputs c ls.
Proof.
  intros c. unfold gen_add_inputs. rewrite bind_ret. revert c.
  induction ls as [|l ls IH]; intros c; [reflexivity|].
  cbn [foldM add_inputs].
  rewrite gen_emplace_gate_eq.
  change (gen_check_label_doesnt_exist l c) with (check_label_doesnt_exist l c).
  destruct (check_label_doesnt_exist l c); cbn [bind]; [|reflexivity].
  rewrite bind_ret. destruct (emplace_gate c l INPUT []); cbn [bind]; [apply IH|reflexivity].
Qed.

(* ---------------------------------------------------------------- outputs / inputs *)
Lemma gen_mark_as_output_eq c l : gen_mark_as_output c l = mark_as_output c l.
Proof. unfold gen_mark_as_output, mark_as_output. rewrite gen_check_gates_exist_eq. reflexivity. Qed.

Lemma gen_set_outputs_eq c outs : gen_set_outputs c outs = set_outputs c outs.
Proof. unfold gen_set_outputs, set_outputs. rewrite gen_check_gates_exist_eq. reflexivity. Qed.

Lemma forallb_pointwise {A} (p q : A -> bool) l : (forall x, p x = q x) -> forallb p l = forallb q l.
Proof. intros H; induction l as [|x xs IH]; simpl; [reflexivity|]. rewrite H, IH. reflexivity. Qed.

Lemma set_inputs_loop_eq c ins : forall acc,
  foldM (fun acc i => do g <- gen_get_gate c i;
                      if negb (gtype_beq (gtyp g) INPUT) || memb i acc then Err CircuitValidationError
                      else Ok (acc ++ [i])) ins acc
  = set_inputs_loop c ins acc.
Proof.
  induction ins as [|i rest IH]; intros acc; simpl; [reflexivity|].
  rewrite gen_get_gate_eq. destruct (get_gate c i) as [g|e]; simpl; [|reflexivity].
  destruct (negb (gtype_beq (gtyp g) INPUT) || memb i acc); simpl; [reflexivity|apply IH].
Qed.

Lemma gen_set_inputs_eq c ins : gen_set_inputs c ins = set_inputs c ins.
Proof.
  unfold gen_set_inputs, set_inputs. rewrite gen_check_gates_exist_eq.
  destruct (check_gates_exist ins c); cbn [bind]; [|reflexivity].
  rewrite (foldM_check (fun kv : label * gate => gtype_beq (gtyp (snd kv)) INPUT && negb (memb (fst kv) ins))).
  rewrite (forallb_pointwise _ (fun kg : label * gate => negb (gtype_beq (gtyp (snd kg)) INPUT) || memb (fst kg) ins)).
  2:{ intros x. rewrite negb_andb, negb_involutive. reflexivity. }
  destruct (forallb _ (gates c)); cbn [bind]; [|reflexivity].
  rewrite set_inputs_loop_eq. reflexivity.
Qed.

Lemma gen_order_inputs_eq c ins : gen_order_inputs c ins = order_inputs c ins.
Proof. unfold gen_order_inputs, order_inputs. rewrite gen_order_list_eq. reflexivity. Qed.

Lemma gen_order_outputs_eq c outs : gen_order_outputs c outs = order_outputs c outs.
Proof. unfold gen_order_outputs, order_outputs. rewrite gen_order_list_eq. reflexivity. Qed.

(* the local closure _replace_inputs of replace_inputs *)
Lemma gen_replace_inputs_closure_eq c ls t :
  gen_replace_inputs_replace_inputs c ls t = replace_inputs_with c ls t.
Proof.
  unfold gen_replace_inputs_replace_inputs, replace_inputs_with. rewrite bind_ret.
  apply foldM_ext. intros s x. rewrite gen_get_gate_eq.
  destruct (get_gate s x) as [g|e]; cbn [bind]; [|reflexivity].
  destruct (negb (gtype_beq (gtyp g) INPUT)); [reflexivity|].
  unfold list_remove. cbn [inputs set_gates].
  destruct (memb x (inputs s)); reflexivity.
Qed.

Lemma gen_replace_inputs_eq c tt ff : gen_replace_inputs c tt ff = replace_inputs c tt ff.
Proof.
  unfold gen_replace_inputs, replace_inputs. rewrite !gen_replace_inputs_closure_eq.
  destruct (replace_inputs_with c tt ALWAYS_TRUE) as [c1|e]; cbn [bind]; [|reflexivity].
  rewrite gen_replace_inputs_closure_eq. apply bind_ret.
Qed.

(* ---------------------------------------------------------------- blocks *)
Lemma gen_delete_block_eq c b : gen_delete_block c b = delete_block c b.
Proof.
  unfold gen_delete_block, delete_block, ddel_res.
  destruct (dmem (blocks c) b); reflexivity.
Qed.

Lemma foldM_filter_append (p : label -> bool) l : forall acc : list label,
  foldM (fun acc x => if p x then Ok (acc ++ [x]) else Ok acc) l acc = Ok (acc ++ filter p l).
Proof.
  induction l as [|x xs IH]; intros acc; simpl; [rewrite app_nil_r; reflexivity|].
  destruct (p x); simpl; rewrite IH; [rewrite <- app_assoc|]; reflexivity.
Qed.

Lemma collect_block_inputs_eq c gs :
  foldM (fun acc g => do gt <- gen_get_gate c g;
                      do acc' <- foldM (fun acc op => if negb (memb op gs) then Ok (acc ++ [op]) else Ok acc)
                                       (gops gt) acc;
                      Ok acc') gs []
  = collect_block_inputs c gs.
Proof.
  unfold collect_block_inputs. apply foldM_ext. intros acc g.
  rewrite gen_get_gate_eq. destruct (get_gate c g) as [gt|e]; cbn [bind]; [|reflexivity].
  rewrite foldM_filter_append. reflexivity.
Qed.

(* make_block returns the new Block; the model keeps the circuit only *)
Lemma gen_make_block_eq c n gs outs ins :
  (do r <- gen_make_block c n gs outs ins; Ok (fst r)) = make_block c n gs outs ins.
Proof.
  unfold gen_make_block, make_block.
  rewrite !gen_check_gates_exist_eq.
  change (gen_check_block_doesnt_exist n c) with (check_block_doesnt_exist n c).
  destruct (check_block_doesnt_exist n c); cbn [bind]; [|reflexivity].
  destruct (check_gates_exist gs c); cbn [bind]; [|reflexivity].
  destruct (check_gates_exist outs c); cbn [bind]; [|reflexivity].
  destruct ins as [i|].
  - rewrite gen_check_gates_exist_eq. destruct (check_gates_exist i c); reflexivity.
  - rewrite bind_ret, collect_block_inputs_eq.
    destruct (collect_block_inputs c gs); reflexivity.
Qed.

(* ... and the returned Block is the one stored under its name *)
Lemma gen_make_block_block c n gs outs ins c' b :
  gen_make_block c n gs outs ins = Ok (c', b) -> get_block c' n = Ok b.
Proof.
  unfold gen_make_block. intros H.
  repeat match type of H with
         | bind ?r _ = Ok _ => destruct r; cbn [bind] in H; [|discriminate]
         end.
  injection H as <- <-. unfold get_block. cbn [blocks set_blocks].
  rewrite dget_dset_same. reflexivity.
Qed.

(* ---------------------------------------------------------------- removal *)
Lemma ddel_absent {V} (d : dict V) k : dmem d k = false -> ddel d k = d.
Proof.
  unfold dmem. induction d as [|[k' v] d IH]; simpl; [reflexivity|].
  destruct (leqb k k'); [discriminate|]. intros H. rewrite IH; [reflexivity|exact H].
Qed.

Lemma ddel_app_notin {V} (d1 d2 : dict V) k : ~ In k (dkeys d1) -> ddel (d1 ++ d2) k = d1 ++ ddel d2 k.
Proof.
  induction d1 as [|[k' v] d1 IH]; simpl; intros H; [reflexivity|].
  destruct (leqb_spec k k') as [->|Hne]; [exfalso; apply H; left; reflexivity|].
  rewrite IH; [reflexivity|]. intros Hin; apply H; right; exact Hin.
Qed.

Lemma remove_user_fields c g u :
  gates (remove_user c g u) = gates c /\ inputs (remove_user c g u) = inputs c /\
  outputs (remove_user c g u) = outputs c /\ blocks (remove_user c g u) = blocks c.
Proof.
  unfold remove_user. destruct (dget (users c) g) as [us|]; [|tauto].
  destruct (memb u us); simpl; tauto.
Qed.

Lemma remove_users_fields ops u : forall c,
  gates (remove_users c ops u) = gates c /\ inputs (remove_users c ops u) = inputs c /\
  outputs (remove_users c ops u) = outputs c /\ blocks (remove_users c ops u) = blocks c.
Proof.
  unfold remove_users. induction ops as [|o ops IH]; intros c; simpl; [tauto|].
  destruct (IH (remove_user c o u)) as (H1 & H2 & H3 & H4).
  destruct (remove_user_fields c o u) as (G1 & G2 & G3 & G4).
  rewrite H1, H2, H3, H4. tauto.
Qed.

Definition mentions (l : label) (kb : label * block) : bool :=
  memb l (bgates (snd kb)) || memb l (binputs (snd kb)) || memb l (boutputs (snd kb)).

Lemma filter_app_one {A} (f : A -> bool) l x :
  filter f (l ++ [x]) = if f x then filter f l ++ [x] else filter f l.
Proof.
  induction l as [|y ys IH]; simpl; [destruct (f x); reflexivity|].
  rewrite IH. destruct (f y), (f x); reflexivity.
Qed.

Lemma In_keys_filter {V} (f : label * V -> bool) (d : dict V) k :
  In k (dkeys (filter f d)) -> In k (dkeys d).
Proof.
  unfold dkeys. rewrite !in_map_iff. intros [x [Hx Hin]]. apply filter_In in Hin.
  exists x; tauto.
Qed.

(* the loop `for block in list(self.blocks.values()): if <mentions>: self.delete_block(block.name)`
   is the filter of the model -- provided the keys of the block dict are unique (they always are in a
   Python dict; in the association-list representation this is the invariant wf_bkeys) *)
Lemma drop_blocks_loop c l : forall rest pre,
  NoDup (dkeys (pre ++ rest)) ->
  foldM (fun self kb => if mentions l kb then do s <- gen_delete_block self (fst kb); Ok s else Ok self)
        rest (set_blocks c (filter (fun kb => negb (mentions l kb)) pre ++ rest))
  = Ok (set_blocks c (filter (fun kb => negb (mentions l kb)) (pre ++ rest))).
Proof.
  induction rest as [|[k b] rest IH]; intros pre Hnd.
  - simpl. rewrite !app_nil_r. reflexivity.
  - cbn [foldM]. specialize (IH (pre ++ [(k, b)])).
    rewrite <- app_assoc in IH. cbn [app] in IH. specialize (IH Hnd).
    rewrite filter_app_one in IH.
    assert (Hk : ~ In k (dkeys (filter (fun kb => negb (mentions l kb)) pre))).
    { intros Hin. apply In_keys_filter in Hin. unfold dkeys in Hnd. rewrite map_app in Hnd.
      apply NoDup_remove_2 in Hnd. apply Hnd. apply in_or_app. left. exact Hin. }
    destruct (mentions l (k, b)) eqn:Em; cbn [negb] in IH.
    + rewrite gen_delete_block_eq. unfold delete_block. cbn [blocks set_blocks fst].
      assert (Hm : dmem (filter (fun kb => negb (mentions l kb)) pre ++ (k, b) :: rest) k = true).
      { unfold dmem. rewrite dget_app.
        destruct (dget (filter (fun kb => negb (mentions l kb)) pre) k); [reflexivity|].
        simpl. rewrite leqb_refl. reflexivity. }
      rewrite Hm. cbn [bind]. rewrite ddel_app_notin by exact Hk.
      simpl ddel. rewrite leqb_refl. exact IH.
    + cbn [bind]. rewrite <- app_assoc in IH. exact IH.
Qed.

Lemma set_blocks_eta c : set_blocks c (blocks c) = c.
Proof. destruct c; reflexivity. Qed.
Lemma set_users_eta c : set_users c (users c) = c.
Proof. destruct c; reflexivity. Qed.

Lemma gen__remove_gate_eq c l :
  NoDup (dkeys (blocks c)) -> gen__remove_gate c l = remove_gate_raw c l.
Proof.
  intros Hnd. unfold gen__remove_gate, remove_gate_raw.
  rewrite gen_get_gate_eq. destruct (get_gate c l) as [g|e] eqn:Eg; cbn [bind]; [|reflexivity].
  rewrite remove_users_loop. cbn [bind].
  destruct (remove_users_fields (gops g) l c) as (Hg & Hi & Ho & Hb).
  set (c1 := remove_users c (gops g) l) in *.
  (* del self._gate_to_users[l] under the membership test = ddel *)
  assert (E2 : (if dmem (users c1) l
                then do t2 <- ddel_res (users c1) l; Ok (set_users c1 t2) else Ok c1)
               = Ok (set_users c1 (ddel (users c1) l))).
  { unfold ddel_res. destruct (dmem (users c1) l) eqn:Em; [reflexivity|].
    rewrite ddel_absent by exact Em. rewrite set_users_eta. reflexivity. }
  rewrite E2. cbn [bind]. clear E2.
  set (c2 := set_users c1 (ddel (users c1) l)).
  (* del self._gates[l] cannot fail: get_gate succeeded *)
  assert (Em : dmem (gates c2) l = true).
  { cbn [c2 gates set_users]. rewrite Hg. unfold get_gate in Eg. unfold dmem.
    destruct (dget (gates c) l); [reflexivity|discriminate]. }
  unfold ddel_res at 1. rewrite Em. cbn [bind].
  set (c3 := set_gates c2 (ddel (gates c2) l)).
  unfold list_remove.
  assert (Hb5 : forall c4, blocks c4 = blocks c ->
     (do self <- (if memb l (outputs c4)
                  then Ok (set_outputs_raw c4 (filter (fun o => negb (leqb o l)) (outputs c4))) else Ok c4);
      do self0 <- foldM (fun self0 kb =>
           if memb l (bgates (snd kb)) || memb l (binputs (snd kb)) || memb l (boutputs (snd kb))
           then do s <- gen_delete_block self0 (fst kb); Ok s else Ok self0) (blocks self) self;
      Ok self0)
     = Ok (drop_blocks_mentioning (if memb l (outputs c4) then set_outputs_raw c4 (remove_all l (outputs c4)) else c4) l)).
  { intros c4 Hc4. unfold remove_all.
    set (c5 := if memb l (outputs c4) then set_outputs_raw c4 (filter (fun y => negb (leqb y l)) (outputs c4)) else c4).
    assert (Hc5 : blocks c5 = blocks c) by (unfold c5; destruct (memb l (outputs c4)); [exact Hc4|exact Hc4]).
    replace (if memb l (outputs c4) then Ok (set_outputs_raw c4 (filter (fun o => negb (leqb o l)) (outputs c4))) else Ok c4)
      with (Ok c5) by (unfold c5; destruct (memb l (outputs c4)); reflexivity).
    cbn [bind]. rewrite bind_ret.
    pose proof (drop_blocks_loop c5 l (blocks c5) []) as H. cbn [app filter] in H.
    rewrite set_blocks_eta in H. rewrite Hc5 in H at 1. specialize (H Hnd).
    unfold mentions in H. rewrite H. unfold drop_blocks_mentioning. reflexivity. }
  destruct (gtype_beq (gtyp g) INPUT).
  - destruct (memb l (inputs c3)); cbn [bind]; [|reflexivity].
    apply Hb5. cbn [blocks set_inputs_raw c3 set_gates c2 set_users]. exact Hb.
  - cbn [bind]. apply Hb5. cbn [blocks c3 set_gates c2 set_users]. exact Hb.
Qed.

Lemma gen_remove_gate_eq c l :
  NoDup (dkeys (blocks c)) -> gen_remove_gate c l = remove_gate c l.
Proof.
  intros Hnd. unfold gen_remove_gate, remove_gate.
  rewrite gen_check_gates_exist_eq, gen_check_gate_has_not_users_eq, gen__remove_gate_eq by exact Hnd.
  reflexivity.
Qed.

Lemma NoDup_keys_filter {V} (f : label * V -> bool) (d : dict V) :
  NoDup (dkeys d) -> NoDup (dkeys (filter f d)).
Proof.
  induction d as [|[k v] d IH]; simpl; intros H; [constructor|].
  inversion H as [|x xs Hx Hxs]; subst.
  destruct (f (k, v)); [|apply IH; exact Hxs].
  simpl. constructor; [|apply IH; exact Hxs].
  intros Hin. apply Hx. eapply In_keys_filter. exact Hin.
Qed.

(* _remove_gate keeps the keys of the block dict unique *)
Lemma remove_gate_raw_bkeys c l c' :
  NoDup (dkeys (blocks c)) -> remove_gate_raw c l = Ok c' -> NoDup (dkeys (blocks c')).
Proof.
  intros Hnd. unfold remove_gate_raw.
  destruct (get_gate c l) as [g|e]; cbn [bind]; [|discriminate].
  destruct (remove_users_fields (gops g) l c) as (_ & _ & _ & Hb).
  set (c1 := remove_users c (gops g) l) in *.
  set (c3 := set_gates (set_users c1 (ddel (users c1) l)) (ddel (gates (set_users c1 (ddel (users c1) l))) l)).
  assert (H3 : blocks c3 = blocks c) by exact Hb.
  intros H.
  assert (exists c5, blocks c5 = blocks c /\ c' = drop_blocks_mentioning c5 l) as (c5 & H5 & ->).
  { destruct (gtype_beq (gtyp g) INPUT).
    - destruct (memb l (inputs c3)); cbn [bind] in H; [|discriminate].
      injection H as <-. eexists; split; [|reflexivity].
      destruct (memb l (outputs _)); exact H3.
    - cbn [bind] in H. injection H as <-. eexists; split; [|reflexivity].
      destruct (memb l (outputs _)); exact H3. }
  unfold drop_blocks_mentioning. cbn [blocks set_blocks]. rewrite H5.
  apply NoDup_keys_filter. exact Hnd.
Qed.

Lemma foldM_ext_inv {A S} (P : S -> Prop) (f g : S -> A -> res S) l :
  (forall s x, P s -> f s x = g s x) -> (forall s x s', P s -> g s x = Ok s' -> P s') ->
  forall s, P s -> foldM f l s = foldM g l s.
Proof.
  intros Hfg Hp; induction l as [|x xs IH]; intros s Hs; simpl; [reflexivity|].
  rewrite Hfg by exact Hs. destruct (g s x) as [s'|e] eqn:E; simpl; [|reflexivity].
  apply IH. eapply Hp; eassumption.
Qed.

Lemma gen__remove_block_eq c b :
  NoDup (dkeys (blocks c)) -> gen__remove_block c b = remove_block_raw c b.
Proof.
  intros Hnd. unfold gen__remove_block, remove_block_raw.
  change (gen_get_block c b) with (get_block c b).
  destruct (get_block c b) as [blk|e]; cbn [bind]; [|reflexivity].
  rewrite bind_ret.
  apply (foldM_ext_inv (fun s => NoDup (dkeys (blocks s)))); [| |exact Hnd].
  - intros s x Hs. rewrite gen_get_gate_eq. destruct (get_gate s x); cbn [bind]; [|reflexivity].
    rewrite bind_ret. apply gen__remove_gate_eq. exact Hs.
  - intros s x s' Hs. destruct (get_gate s x); cbn [bind]; [|discriminate].
    apply remove_gate_raw_bkeys. exact Hs.
Qed.

Lemma gen_remove_block_eq c b :
  NoDup (dkeys (blocks c)) -> gen_remove_block c b = remove_block c b.
Proof.
  intros Hnd. unfold gen_remove_block, remove_block.
  change (gen_get_block c b) with (get_block c b).
  destruct (get_block c b) as [blk|e]; cbn [bind]; [|reflexivity].
  rewrite gen_check_block_has_no_users_eq, gen__remove_block_eq by exact Hnd. reflexivity.
Qed.

(* the uniqueness hypothesis is necessary: on an association list with a duplicated key the loop with
   deletions (del removes the FIRST entry of the key) and the filter of the model differ.  Such a
   state is not a Python dict; WF (wf_bkeys) excludes it. *)
Definition dup_blocks_circuit : circuit :=
  mkCircuit [] [] [("g", mkGate ALWAYS_TRUE [])] []
            [("B", mkBlock [] [] []); ("B", mkBlock [] ["g"] [])].

Lemma remove_gate_dup_keys_differs :
  gen__remove_gate dup_blocks_circuit "g" <> remove_gate_raw dup_blocks_circuit "g".
Proof. vm_compute. discriminate. Qed.

(* ---------------------------------------------------------------- summary *)
Theorem core_methods_regenerated :
  (* accessors *)
  (forall c l, gen_has_gate c l = has_gate c l) /\
  (forall c l, gen_get_gate c l = get_gate c l) /\
  (forall c l, gen_get_gate_users c l = get_gate_users c l) /\
  (forall c b, gen_get_block c b = get_block c b) /\
  (* validation.py *)
  (forall ls c, gen_check_gates_exist ls c = check_gates_exist ls c) /\
  (forall l c, gen_check_label_doesnt_exist l c = check_label_doesnt_exist l c) /\
  (forall l c, gen_check_gate_has_not_users l c = check_gate_has_not_users l c) /\
  (forall b c, gen_check_block_doesnt_exist b c = check_block_doesnt_exist b c) /\
  (forall b c excl, gen_check_block_has_no_users b c excl
                    = check_block_has_no_users b c (match excl with Some e => e | None => [] end)) /\
  (* utils.py *)
  (forall ordered old, gen_order_list ordered old = order_list ordered old) /\
  (* private mutators (they cannot raise) *)
  (forall c g u, gen__add_user c g u = Ok (add_user c g u)) /\
  (forall c g u, gen__remove_user c g u = Ok (remove_user c g u)) /\
  (forall c l t ops, gen__emplace_gate c l t ops = Ok (emplace_gate_raw c l t ops)) /\
  (forall c l g, gen__add_gate c l g = Ok (emplace_gate_raw c l (gtyp g) (gops g))) /\
  (* public mutators *)
  (forall c l t ops, gen_emplace_gate c l t ops = emplace_gate c l t ops) /\
  (forall c l g, gen_add_gate c l g = add_gate c l (gtyp g) (gops g)) /\
  (forall c ls, gen_add_inputs c ls = add_inputs c ls) /\
  (forall c l, gen_mark_as_output c l = mark_as_output c l) /\
  (forall c outs, gen_set_outputs c outs = set_outputs c outs) /\
  (forall c ins, gen_set_inputs c ins = set_inputs c ins) /\
  (forall c ins, gen_order_inputs c ins = order_inputs c ins) /\
  (forall c outs, gen_order_outputs c outs = order_outputs c outs) /\
  (forall c ls t, gen_replace_inputs_replace_inputs c ls t = replace_inputs_with c ls t) /\
  (forall c tt ff, gen_replace_inputs c tt ff = replace_inputs c tt ff) /\
  (forall c b, gen_delete_block c b = delete_block c b) /\
  (forall c n gs outs ins, (do r <- gen_make_block c n gs outs ins; Ok (fst r)) = make_block c n gs outs ins) /\
  (forall c n gs outs ins c' b, gen_make_block c n gs outs ins = Ok (c', b) -> get_block c' n = Ok b) /\
  (* removal: equal on every state whose block dict has unique keys *)
  (forall c l, NoDup (dkeys (blocks c)) -> gen__remove_gate c l = remove_gate_raw c l) /\
  (forall c l, NoDup (dkeys (blocks c)) -> gen_remove_gate c l = remove_gate c l) /\
  (forall c b, NoDup (dkeys (blocks c)) -> gen__remove_block c b = remove_block_raw c b) /\
  (forall c b, NoDup (dkeys (blocks c)) -> gen_remove_block c b = remove_block c b).
Proof.
  repeat match goal with |- _ /\ _ => split end.
  - exact gen_has_gate_eq.
  - exact gen_get_gate_eq.
  - exact gen_get_gate_users_eq.
  - exact gen_get_block_eq.
  - exact gen_check_gates_exist_eq.
  - exact gen_check_label_doesnt_exist_eq.
  - exact gen_check_gate_has_not_users_eq.
  - exact gen_check_block_doesnt_exist_eq.
  - exact gen_check_block_has_no_users_eq.
  - exact gen_order_list_eq.
  - exact gen__add_user_eq.
  - exact gen__remove_user_eq.
  - exact gen__emplace_gate_eq.
  - exact gen__add_gate_eq.
  - exact gen_emplace_gate_eq.
  - exact gen_add_gate_eq.
  - intros c ls; apply gen_add_inputs_eq.
  - exact gen_mark_as_output_eq.
  - exact gen_set_outputs_eq.
  - exact gen_set_inputs_eq.
  - exact gen_order_inputs_eq.
  - exact gen_order_outputs_eq.
  - exact gen_replace_inputs_closure_eq.
  - exact gen_replace_inputs_eq.
  - exact gen_delete_block_eq.
  - exact gen_make_block_eq.
  - exact gen_make_block_block.
  - exact gen__remove_gate_eq.
  - exact gen_remove_gate_eq.
  - exact gen__remove_block_eq.
  - exact gen_remove_block_eq.
Qed.

Require Import Cirbo.Model.WF.

Lemma core_removal_regenerated_wf : forall c,
  WF c ->
  (forall l, gen_remove_gate c l = remove_gate c l) /\ (forall b, gen_remove_block c b = remove_block c b).
Proof.
  intros c Hwf. split; intros x; [apply gen_remove_gate_eq|apply gen_remove_block_eq]; apply (wf_bkeys c Hwf).
Qed.
