(* Soundness of the checker that is run over every entry of the shipped databases (C17). *)
Require Import Cirbo.Model.Base Cirbo.Model.Gate Cirbo.Model.Circuit Cirbo.Model.Eval.
Require Import Cirbo.Model.BitIO Cirbo.Model.DictIO Cirbo.Model.Codec Cirbo.Model.CodecCheck Cirbo.Model.Db Cirbo.Model.DbCheck.
Require Import Cirbo.Generated.CodecTables.
Require Import Cirbo.Proofs.DictFacts Cirbo.Proofs.DictIOFacts Cirbo.Proofs.IsoFacts Cirbo.Proofs.CodecFacts Cirbo.Proofs.CodecCheckFacts.

(* well formed: distinct labels, the input list is exactly the INPUT gates, operands and outputs
   exist, operands are stored before their users (hence acyclic), the users index is the inverse
   operand relation, no blocks *)
Record well_formed (c : circuit) : Prop := {
  wfc_codec : codec_wf c;
  wfc_ops : ops_exist c;
  wfc_outs : outputs_exist c;
  wfc_acyclic : acyclic c;
  wfc_users : users_exact c;
  wfc_blocks : blocks c = [] }.

Lemma wf_checks_sound c : wf_checks c = true -> well_formed c.
Proof.
  unfold wf_checks. rewrite !andb_true_iff. intros [[[[[H1 H2] H3] H4] H5] H6]. split.
  - apply codec_wfb_sound; exact H1.
  - apply ops_existb_sound; exact H2.
  - apply outputs_existb_sound; exact H3.
  - eapply acyclicb_sound; exact H4.
  - apply users_exactb_sound; exact H5.
  - destruct (blocks c); [reflexivity|discriminate].
Qed.

(* what an accepted entry is *)
Definition entry_ok (basis : list gtype) (key : label) (bs : bytes) : Prop :=
  exists c rows t,
    decode_circuit bs = Ok c /\ well_formed c /\ in_basis basis c /\
    get_truth_table c = Ok rows /\ table_of_states rows = Some t /\ truth_table_to_label t = key.

Theorem check_entry_sound basis key bs : check_entry basis key bs = true -> entry_ok basis key bs.
Proof.
  unfold check_entry. destruct (decode_circuit bs) as [c|] eqn:Ed; [|discriminate].
  rewrite !andb_true_iff. intros [[H1 H2] H3].
  destruct (get_truth_table c) as [rows|] eqn:Et; [|discriminate].
  destruct (table_of_states rows) as [t|] eqn:Es; [|discriminate].
  apply String.eqb_eq in H3. exists c, rows, t.
  split; [exact Ed|]. split; [apply wf_checks_sound; exact H1|]. split; [apply in_basisb_sound; exact H2|]. auto.
Qed.

(* a slice without rejected index consists of accepted records *)
Lemma failing_from_nil chk : forall l i acc,
  failing_from chk l i acc = [] -> acc = [] /\ Forall (fun kv : label * bytes => chk (fst kv) (snd kv) = true) l.
Proof.
  induction l as [|[k v] l IH]; intros i acc H; simpl in H.
  - rewrite rev_append_rev, app_nil_r in H. split; [|constructor].
    destruct acc; [reflexivity|]. apply (f_equal (@length nat)) in H. rewrite rev_length in H. discriminate.
  - destruct (chk k v) eqn:E.
    + destruct (IH _ _ H) as (-> & Hall). split; [reflexivity|]. constructor; [exact E|exact Hall].
    + destruct (IH _ _ H) as (Hacc & _). discriminate.
Qed.

Theorem sweep_slice_sound basis recs lo len :
  check_slice basis (slice_records recs lo len) lo = [] ->
  Forall (fun kv : label * bytes => entry_ok basis (fst kv) (snd kv)) (slice_records recs lo len).
Proof.
  intros H. apply failing_from_nil in H as (_ & H). eapply Forall_impl; [|exact H].
  intros kv Hk. apply check_entry_sound; exact Hk.
Qed.

(* ranges that tile the record list cover it *)
Lemma slices_cover {A} (P : A -> Prop) (l : list A) n :
  Forall P (firstn n l) -> Forall P (skipn n l) -> Forall P l.
Proof. intros H1 H2. rewrite <- (firstn_skipn n l). apply Forall_app; auto. Qed.

(* every entry of the dictionary the implementation builds from the file is one of the records *)
Theorem records_cover_dictionary s recs d :
  db_records s = Ok recs -> read_binary_dict s = Ok d ->
  forall k v, dget d k = Some v -> In (k, v) recs.
Proof.
  unfold db_records, read_binary_dict.
  destruct (read_unsigned DICT_SIZE_BYTE_SIZE s) as [sz|]; simpl; [|discriminate].
  destruct (read_records (N.to_nat (fst sz)) (snd sz) []) as [[r rest]|] eqn:Er; simpl; [|discriminate].
  destruct (read_entries (N.to_nat (fst sz)) (snd sz) []) as [[dd rest']|] eqn:Ee; simpl; [|discriminate].
  destruct (expect_eof rest); simpl; [|discriminate]. intros [= <-].
  destruct (expect_eof rest'); simpl; [|discriminate]. intros [= <-] k v Hk.
  destruct (read_records_entries _ _ _ _ _ _ _ _ Er Ee) as (_ & H).
  destruct (H k v Hk) as [H'|H']; [discriminate|exact H'].
Qed.
