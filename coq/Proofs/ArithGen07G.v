(* Generated/ArithGen07.v (translator T18) equals the hand model, part G: add_sum_two_numbers_with_shift
   (Model/ArithSumN.v), for every shift >= 0 (a negative shift makes the Python slices count from the end). *)
Require Import Cirbo.Model.Base Cirbo.Model.Gate Cirbo.Model.Circuit Cirbo.Model.Builder Cirbo.Model.PyPrims.
Require Import Cirbo.Generated.ArithTables Cirbo.Generated.ArithCells Cirbo.Generated.ArithGen09 Cirbo.Generated.ArithGen07.
Require Import Cirbo.Model.ArithSub Cirbo.Model.ArithSum2 Cirbo.Model.ArithSumN Cirbo.Model.ArithSumW Cirbo.Model.PyPrimsSum.
Require Import Cirbo.Proofs.ArithGen09Lib Cirbo.Proofs.ArithGen09A Cirbo.Proofs.ArithGen09B.
Require Import Cirbo.Proofs.ArithGen07Lib Cirbo.Proofs.ArithGen07A Cirbo.Proofs.ArithGen07B Cirbo.Proofs.ArithGen07F.
From Coq Require Import ZArith Lia Ascii.
Open Scope Z_scope.

Definition single (x : label) : list label := [x].

Lemma upd_app_mid {A} (P1 : list A) x Y v : upd (P1 ++ x :: Y) (length P1) v = (P1 ++ [v]) ++ Y.
Proof. induction P1 as [|p P1 IH]; [reflexivity|]. cbn [app length upd]. rewrite IH. reflexivity. Qed.

(* for i in range(lo, hi): d[i + off] = [val(i)]   -- for any loop body f that does this at position i *)
Lemma store_seg (f : list (list label) -> Z -> prog (list (list label))) (val : nat -> label) L off lo hi :
  (forall d i, (lo <= i < hi)%nat -> length d = L ->
     peq (f d (Z.of_nat i)) (Ret (upd d (i + off) [val i]))) ->
  forall k i P1 X P2, (i + k = hi)%nat -> (lo <= i)%nat -> length P1 = (i + off)%nat -> length X = k ->
    length (P1 ++ X ++ P2) = L ->
    peq (foldP f (map Z.of_nat (seq i k)) (P1 ++ X ++ P2))
        (Ret (P1 ++ map (fun j => [val j]) (seq i k) ++ P2)).
Proof.
  intros Hf. induction k as [|k IH]; intros i P1 X P2 Hi Hlo HP HX HL fr s.
  - destruct X; [|discriminate]. reflexivity.
  - destruct X as [|x X]; [discriminate|]. cbn [seq map foldP].
    rewrite (run_peq fr _ _ _ _ (Hf _ i ltac:(lia) HL)). norm.
    assert (E : upd (P1 ++ (x :: X) ++ P2) (i + off) [val i] = (P1 ++ [[val i]]) ++ X ++ P2).
    { rewrite <- HP. apply (upd_app_mid P1 x (X ++ P2)). }
    rewrite E. rewrite (IH (S i) (P1 ++ [[val i]]) X P2); [|lia|lia|rewrite app_length; cbn [length]; lia
      |cbn [length] in HX; lia|rewrite <- E, upd_length; exact HL].
    rewrite <- app_assoc. reflexivity.
Qed.

Lemma store_seg_end (f : list (list label) -> Z -> prog (list (list label))) (val : nat -> label) L off lo hi :
  (forall d i, (lo <= i < hi)%nat -> length d = L ->
     peq (f d (Z.of_nat i)) (Ret (upd d (i + off) [val i]))) ->
  forall k i P1 X, (i + k = hi)%nat -> (lo <= i)%nat -> length P1 = (i + off)%nat -> length X = k ->
    length (P1 ++ X) = L ->
    peq (foldP f (map Z.of_nat (seq i k)) (P1 ++ X))
        (Ret (P1 ++ map (fun j => [val j]) (seq i k))).
Proof.
  intros Hf k i P1 X Hi Hlo HP HX HL.
  pose proof (store_seg f val L off lo hi Hf k i P1 X [] Hi Hlo HP HX) as H.
  rewrite !app_nil_r in H. apply H. exact HL.
Qed.

Lemma map_nth_seq (a : list label) : map (fun j => [nth j a ""%string]) (seq 0 (length a)) = map single a.
Proof.
  induction a as [|x a IH]; [reflexivity|]. cbn [length seq map]. f_equal.
  rewrite <- seq_shift, map_map. exact IH.
Qed.

Lemma map_nth_seq_off (a : list label) off k : (off + k <= length a)%nat ->
  map (fun j => [nth (j - off) (skipn off a) ""%string]) (seq off k) = map single (firstn k (skipn off a)).
Proof.
  revert off; induction k as [|k IH]; intros off H; [reflexivity|].
  cbn [seq map]. rewrite Nat.sub_diag. rewrite (skipn_nth a off ""%string) by lia. cbn [nth firstn map]. f_equal.
  rewrite <- (IH (S off)) by lia. apply map_ext_in. intros j Hj. apply in_seq in Hj.
  replace (j - off)%nat with (S (j - S off)) by lia. reflexivity.
Qed.

(* [i[0] for i in d] on a list of singletons *)
Lemma mapP_singles (F : list label -> prog label) (l : list label) :
  (forall x, peq (F [x]) (Ret x)) -> peq (mapP F (map single l)) (Ret l).
Proof.
  intros HF. induction l as [|x l IH]; intros fr s; [reflexivity|].
  cbn [map mapP]. unfold single at 1. rewrite (run_peq fr _ _ _ _ (HF x)). norm.
  rewrite (run_peq fr _ _ _ _ IH). norm. reflexivity.
Qed.

Lemma sum_loop_length a : forall b cy, returns (sum_loop a b cy) (fun rs => length rs = S (length a)).
Proof.
  induction a as [|ai a IH]; intros b cy fr s res s'; cbn [sum_loop]; rs.
  - intros H; inversion H; reflexivity.
  - match goal with |- context [run fr ?p s] => destruct (run fr p s) as [[sc s1]|e]; rs; [|discriminate] end.
    destruct (run fr (sum_loop a (tl b) (snd sc)) s1) as [[r s2]|e] eqn:E; rs; [|discriminate].
    intros H; inversion H; subst. cbn [length]. f_equal. eapply IH; eauto.
Qed.

Lemma add_sum_two_numbers_length a b :
  returns (add_sum_two_numbers a b false) (fun rs => length rs = S (Nat.max (length a) (length b))).
Proof.
  intros fr s res s'. unfold add_sum_two_numbers. cbn [rev_if].
  assert (G : forall a b : list label, (length b <= length a)%nat ->
    run fr (bdo a1 <- nthP a 0; bdo b1 <- nthP b 0; bdo sc <- sum_bits2 a1 b1;
            bdo r <- sum_loop (tl a) (tl b) (snd sc); Ret (fst sc :: r)) s = Ok (res, s') ->
    length res = S (length a)).
  { intros a' b' Hl. destruct a' as [|x a']; [discriminate|]. destruct b' as [|y b']; [discriminate|].
    cbn [nthP nth_res nth_error ret_res tl]. rs.
    destruct (run fr (sum_bits2 x y) s) as [[sc s1]|e]; rs; [|discriminate].
    destruct (run fr (sum_loop a' b' (snd sc)) s1) as [[r s2]|e] eqn:E; rs; [|discriminate].
    intros H; inversion H; subst. apply sum_loop_length in E. cbn [length]. lia. }
  destruct (Nat.ltb_spec (length a) (length b)) as [H|H]; intros R; apply G in R; lia.
Qed.

Lemma map_nth_seq_shift (r : list label) : forall off,
  map (fun j => [nth (j - off) r ""%string]) (seq off (length r)) = map single r.
Proof.
  induction r as [|x r IH]; intros off; [reflexivity|]. cbn [length seq map]. rewrite Nat.sub_diag. cbn [nth].
  unfold single at 1. f_equal. rewrite <- (IH (S off)). apply map_ext_in. intros j Hj. apply in_seq in Hj.
  replace (j - off)%nat with (S (j - S off)) by lia. reflexivity.
Qed.

Lemma map_nth_seq_firstn (a : list label) k : (k <= length a)%nat ->
  map (fun j => [nth j a ""%string]) (seq 0 k) = map single (firstn k a).
Proof.
  intros H. rewrite <- (map_nth_seq (firstn k a)). rewrite firstn_length_le by exact H.
  apply map_ext_in. intros j Hj. apply in_seq in Hj. f_equal.
  rewrite <- (firstn_skipn k a) at 1. rewrite app_nth1 by (rewrite firstn_length_le; lia). reflexivity.
Qed.

Lemma py_slice_to_end {A} (l : list A) i :
  py_slice l (Some (Z.of_nat i)) (Some (Z.of_nat (length l))) = skipn i l.
Proof.
  unfold py_slice. rewrite !py_clamp_nat. rewrite Nat.min_id.
  destruct (Nat.le_gt_cases i (length l)) as [H|H].
  - rewrite Nat.min_r by lia. apply firstn_all2. rewrite skipn_length. lia.
  - rewrite Nat.min_l by lia. rewrite Nat.sub_diag. cbn [firstn]. symmetry. apply skipn_all2. lia.
Qed.

Lemma map_col0_single l : map col0 (map single l) = l.
Proof. induction l as [|x l IH]; [reflexivity|]. cbn [map]. rewrite IH. reflexivity. Qed.

Lemma map_const_repeat {A B} (c : B) (l : list A) : map (fun _ => c) l = repeat c (length l).
Proof. induction l as [|x l IH]; [reflexivity|]. cbn [map length repeat]. rewrite IH. reflexivity. Qed.

Lemma placeholders n : map (fun _ : Z => [PLACEHOLDER_STR]) (py_range 0 (Z.of_nat n)) = repeat [PLACEHOLDER_STR] n.
Proof. rewrite map_const_repeat. unfold py_range. rewrite map_length, seq_length. f_equal. lia. Qed.

Lemma Z_geb_nat a b : (Z.of_nat a >=? Z.of_nat b) = (b <=? a)%nat.
Proof. rewrite Z.geb_leb. destruct (Nat.leb_spec b a); [apply Z.leb_le|apply Z.leb_gt]; lia. Qed.

Theorem gen_add_sum_two_numbers_with_shift_eq sh a0 b0 be :
  peq (gen_add_sum_two_numbers_with_shift (Z.of_nat sh) a0 b0 be) (add_sum_two_numbers_with_shift sh a0 b0 be).
Proof.
  intros fr s. unfold gen_add_sum_two_numbers_with_shift, add_sum_two_numbers_with_shift. cbv zeta.
  rewrite run_bind, run_if_rev2. cbv beta iota.
  replace (py_len a0) with (py_len (rev_if be a0)) by (unfold py_len; rewrite rev_if_length; reflexivity).
  replace (py_len b0) with (py_len (rev_if be b0)) by (unfold py_len; rewrite rev_if_length; reflexivity).
  generalize (rev_if be a0) (rev_if be b0). clear a0 b0. intros a b.
  set (n := length a). set (m := length b).
  change (py_len a) with (Z.of_nat n). change (py_len b) with (Z.of_nat m).
  rewrite Z_geb_nat.
  destruct (Nat.leb_spec n sh) as [Hle|Hgt].
  - (* shift >= n *)
    replace (Z.of_nat m + Z.of_nat sh) with (Z.of_nat (n + ((sh - n) + m))) by lia.
    rewrite placeholders, !repeat_app.
    set (PH := [PLACEHOLDER_STR]).
    set (L := (n + ((sh - n) + m))%nat).
    (* d[i] = [a[i]] for i < n *)
    rewrite py_range_0_nat.
    match goal with |- run _ (Bind (foldP ?f _ _) _) _ = _ =>
      assert (H1 : forall (d : list (list label)) i, (0 <= i < n)%nat -> length d = L ->
                peq (f d (Z.of_nat i)) (Ret (upd d (i + 0) [nth i a ""%string]))) end.
    { intros d i Hi Hd fr' s0. cbv beta. rewrite (py_nth_ok_label a i) by (fold n; lia). norm.
      rewrite py_set_nat by lia. norm. rewrite Nat.add_0_r. reflexivity. }
    rewrite (run_peq fr _ _ _ _ (store_seg _ _ L 0 0 n H1 n 0 [] (repeat PH n) (repeat PH (sh - n) ++ repeat PH m)
               ltac:(lia) ltac:(lia) eq_refl ltac:(apply repeat_length)
               ltac:(cbn [app]; rewrite !app_length, !repeat_length; reflexivity))).
    clear H1. norm. cbn [app]. unfold n at 1. rewrite map_nth_seq. fold n.
    (* the tail, for any filling zs of the gap *)
    assert (Tail : forall (zs : list label) s1 B (K : list label -> prog B), length zs = (sh - n)%nat ->
      forall F3 FM,
      (forall (d : list (list label)) i, (0 <= i < m)%nat -> length d = L ->
         peq (F3 d (Z.of_nat i)) (Ret (upd d (i + sh) [nth i b ""%string]))) ->
      (forall x, peq (FM [x]) (Ret x)) ->
      run fr (bdo d <- foldP F3 (py_range 0 (Z.of_nat m)) (map single a ++ map single zs ++ repeat PH m);
              bdo t <- mapP FM d; K t) s1
      = run fr (K (a ++ zs ++ b)) s1).
    { intros zs s1 B K Hz F3 FM H3 HM. rewrite py_range_0_nat.
      rewrite (app_assoc (map single a)).
      rewrite (run_peq fr _ _ _ _ (store_seg_end _ _ L sh 0 m H3 m 0 (map single a ++ map single zs) (repeat PH m)
                 ltac:(lia) ltac:(lia) ltac:(rewrite app_length, !map_length; fold n; lia) ltac:(apply repeat_length)
                 ltac:(rewrite !app_length, !map_length, repeat_length; fold n; unfold L; lia))).
      norm. unfold m at 1. rewrite map_nth_seq, <- !map_app, <- app_assoc.
      rewrite (run_peq fr _ _ _ _ (mapP_singles _ _ HM)). norm. reflexivity. }
    match goal with |- run _ (Bind _ (fun d => Bind (foldP ?F3 _ _) (fun d0 => Bind (mapP ?FM _) _))) _ = _ =>
      assert (H3 : forall (d : list (list label)) i, (0 <= i < m)%nat -> length d = L ->
                peq (F3 d (Z.of_nat i)) (Ret (upd d (i + sh) [nth i b ""%string])));
      [|assert (HM : forall x : label, peq (FM [x]) (Ret x))] end.
    { intros d i Hi Hd fr' s0. cbv beta. rewrite (py_nth_ok_label b i) by (fold m; lia). norm.
      rewrite <- Nat2Z.inj_add. rewrite py_set_nat by (rewrite Hd; unfold L; lia). norm. reflexivity. }
    { intros x fr' s0. cbv beta. change (py_nth [x] 0) with (@Ret label x). norm. reflexivity. }
    replace (Z.of_nat sh =? Z.of_nat n) with (sh =? n)%nat
      by (destruct (Nat.eqb_spec sh n); symmetry; [apply Z.eqb_eq|apply Z.eqb_neq]; lia).
    destruct (Nat.eqb_spec sh n) as [Heq|Hne]; cbn [negb]; norm.
    + replace (sh - n)%nat with 0%nat by lia. change (repeat PH 0) with (map single []).
      rewrite (Tail [] s _ _ ltac:(cbn [length]; lia) _ _ H3 HM). norm.
      rewrite run_bind, gen_reverse_if_big_endian_run. reflexivity.
    + rewrite !py_nth_0. destruct a as [|x a']; [reflexivity|].
      cbn [nthP nth_res nth_error ret_res]. norm. unfold tt_false. apply run_bind_cong. intros zero s1.
      rewrite py_range_nat. norm.
      match goal with |- run _ (Bind (foldP ?F2 _ _) _) _ = _ =>
        assert (H2 : forall (d : list (list label)) i, (n <= i < sh)%nat -> length d = L ->
                  peq (F2 d (Z.of_nat i)) (Ret (upd d (i + 0) [(fun _ : nat => zero) i]))) end.
      { intros d i Hi Hd fr' s0. cbv beta. rewrite py_set_nat by (unfold L in Hd; lia). norm.
        rewrite Nat.add_0_r. reflexivity. }
      rewrite (run_peq fr _ _ _ _ (store_seg _ _ L 0 n sh H2 (sh - n) n (map single (x :: a')) (repeat PH (sh - n)) (repeat PH m)
                 ltac:(lia) ltac:(lia) ltac:(rewrite map_length; fold n; lia) ltac:(apply repeat_length)
                 ltac:(rewrite !app_length, !map_length, !repeat_length; fold n; unfold L; lia))).
      clear H2. norm. rewrite map_const_repeat, seq_length.
      replace (repeat [zero] (sh - n)) with (map single (repeat zero (sh - n)))
        by (clear; induction (sh - n)%nat as [|k IH]; [reflexivity|]; cbn [repeat map]; rewrite IH; reflexivity).
      rewrite (Tail (repeat zero (sh - n)) _ _ _ ltac:(apply repeat_length) _ _ H3 HM). norm.
      rewrite run_bind, gen_reverse_if_big_endian_run. reflexivity.
  - (* shift < n *)
    set (T := Nat.max n (m + sh)).
    replace (Z.max (Z.of_nat n) (Z.of_nat m + Z.of_nat sh) + 1) with (Z.of_nat (S T)) by (unfold T; lia).
    rewrite placeholders. set (PH := [PLACEHOLDER_STR]).
    replace (S T) with (sh + (S T - sh))%nat at 1 by (unfold T; lia). rewrite repeat_app.
    rewrite py_range_0_nat.
    match goal with |- run _ (Bind (foldP ?f _ _) _) _ = _ =>
      assert (H1 : forall (d : list (list label)) i, (0 <= i < sh)%nat -> length d = S T ->
                peq (f d (Z.of_nat i)) (Ret (upd d (i + 0) [nth i a ""%string]))) end.
    { intros d i Hi Hd fr' s0. cbv beta. rewrite (py_nth_ok_label a i) by (fold n; lia). norm.
      rewrite py_set_nat by (rewrite Hd; unfold T; lia). norm. rewrite Nat.add_0_r. reflexivity. }
    rewrite (run_peq fr _ _ _ _ (store_seg _ _ (S T) 0 0 sh H1 sh 0 [] (repeat PH sh) (repeat PH (S T - sh))
               ltac:(lia) ltac:(lia) eq_refl ltac:(apply repeat_length)
               ltac:(cbn [app]; rewrite !app_length, !repeat_length; unfold T; lia))).
    clear H1. norm. cbn [app]. rewrite map_nth_seq_firstn by (fold n; lia).
    unfold n at 1. rewrite py_slice_to_end.
    rewrite (run_peq fr _ _ _ _ (gen_add_sum_two_numbers_eq _ _ _)).
    match goal with |- run _ (Bind ?p _) _ = _ =>
      destruct (run fr p s) as [[res s2]|e] eqn:E; [|rewrite !run_bind, E; reflexivity] end.
    rewrite !run_bind, E. cbv beta iota.
    apply add_sum_two_numbers_length in E. rewrite skipn_length in E. fold n m in E.
    assert (Lr : length res = (S T - sh)%nat) by (unfold T; lia).
    rewrite py_range_nat.
    match goal with |- run _ (Bind (foldP ?f _ _) _) _ = _ =>
      assert (H2 : forall (d : list (list label)) i, (sh <= i < S T)%nat -> length d = S T ->
                peq (f d (Z.of_nat i)) (Ret (upd d (i + 0) [(fun j => nth (j - sh) res ""%string) i]))) end.
    { intros d i Hi Hd fr' s0. cbv beta. rewrite <- Nat2Z.inj_sub by lia.
      rewrite (py_nth_ok_label res (i - sh)) by lia. norm.
      rewrite py_set_nat by lia. norm. rewrite Nat.add_0_r. reflexivity. }
    rewrite (run_peq fr _ _ _ _ (store_seg_end _ _ (S T) 0 sh (S T) H2 (S T - sh) sh (map single (firstn sh a)) (repeat PH (S T - sh))
               ltac:(lia) ltac:(lia) ltac:(rewrite map_length, firstn_length_le by (fold n; lia); lia)
               ltac:(apply repeat_length)
               ltac:(rewrite app_length, map_length, repeat_length, firstn_length_le by (fold n; lia); lia))).
    clear H2. norm. rewrite <- Lr, map_nth_seq_shift, <- map_app.
    set (D := map single (firstn sh a ++ res)).
    assert (LD : length D = S T).
    { unfold D. rewrite map_length, app_length, firstn_length_le by (fold n; lia). lia. }
    rewrite py_range_0_nat.
    match goal with |- run _ (Bind (mapP ?F _) _) _ = _ =>
      assert (HF : forall i, (i < length D)%nat ->
                peq (F (Z.of_nat i)) (bdo t <- py_nth (nth i D []) 0; Ret t)) end.
    { intros i Hi fr' s0. cbv beta. rewrite py_nth_nat, (nthP_ok _ i []) by exact Hi. norm. reflexivity. }
    assert (Hne : Forall (fun c : list label => c <> []) D).
    { unfold D. apply Forall_forall. intros c Hc. apply in_map_iff in Hc. destruct Hc as (x & <- & _). discriminate. }
    rewrite (run_peq fr _ _ _ _ (mapP_col0 _ D HF Hne (S T) 0 ltac:(lia))).
    norm. rewrite run_bind, gen_reverse_if_big_endian_run. cbn [skipn]. unfold D. rewrite map_col0_single.
    reflexivity.
Qed.
