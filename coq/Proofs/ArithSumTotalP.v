(* C07, normal termination, part 3: add_sum_pow2_m1 and the three generate_* wrappers.

   add_sum_pow2_m1.  A block of size i >= 3 replaces i labels by one, so the list gets shorter
   with every iteration of a block loop (fuel S |labels| suffices); after the block loop of size 3
   fewer than three labels are left, so the outer `while len(input_labels) > 2` runs its body at
   most once.  Every block is non-empty (out[it][0] exists).  The final
   `out[0][len(out[0]) - 1]` needs a non-empty first column: the first bits of the blocks survive
   `filter(None, .)` because they are gates of the final circuit, in which "" is not a gate when
   it is none of the host and the naming function never yields "" (ArithSumMinted). *)
Require Import Cirbo.Model.Base Cirbo.Model.Gate Cirbo.Model.Circuit Cirbo.Model.Builder.
Require Import Cirbo.Generated.ArithTables Cirbo.Generated.ArithCells.
Require Import Cirbo.Model.ArithSub Cirbo.Model.ArithSum2 Cirbo.Model.ArithSumN Cirbo.Model.ArithSumW
  Cirbo.Model.ArithGen.
Require Import Cirbo.Proofs.DictFacts Cirbo.Proofs.BuilderFacts Cirbo.Proofs.ArithFacts
  Cirbo.Proofs.TotalFacts Cirbo.Proofs.ArithTotalFacts Cirbo.Proofs.ArithSumTotalN
  Cirbo.Proofs.ArithSumTotalW Cirbo.Proofs.ArithSumMinted.

Definition goodblk (c : circuit) (blk : list label) : Prop := blk <> [] /\ all_exist c blk.
Definition goodblks (c : circuit) (out : list (list label)) : Prop := Forall (goodblk c) out.

Lemma goodblks_ext c c' out : ext c c' -> goodblks c out -> goodblks c' out.
Proof.
  intros Hx H. eapply Forall_impl; [|exact H]. intros blk (H1 & H2). split; [exact H1|eapply all_exist_ext; eassumption].
Qed.

(* the first column of zip_longest( *out) after filter(None, .) *)
Lemma columns_good c out :
  out <> [] -> goodblks c out -> has_gate c "" = false ->
  exists c0 rest, columns out = c0 :: rest /\ c0 <> [].
Proof.
  intros Hne Hg H0. destruct out as [|blk out']; [contradiction|]. inversion Hg as [|? ? (Hb & Hex) _]; subst.
  destruct blk as [|h t]; [contradiction|]. inversion Hex as [|? ? Hh _]; subst.
  unfold columns. cbn [map fold_right length].
  destruct (Nat.max (S (length t)) (fold_right Nat.max 0%nat (map (@length label) out'))) as [|m] eqn:Em; [lia|].
  cbn [seq map]. eexists _, _. split; [reflexivity|].
  unfold column. cbn [flat_map nth_error].
  destruct (String.eqb_spec h "") as [->|_]; [congruence|]. discriminate.
Qed.

Section TotalP.
  Variable fresh : N -> label.
  Hypothesis Hf : fresh_total fresh.

  Ltac finish := cbn [run]; eexists _, _; split; [reflexivity|].

  Lemma block_loop_ok basis b i : resolve_basis basis = Ok b -> (2 <= i)%nat ->
    forall fuel labels out s, (length labels <= fuel)%nat -> all_exist (bc s) labels -> goodblks (bc s) out ->
    exists r s', run fresh (block_loop fuel basis i labels out) s = Ok (r, s') /\
      all_exist (bc s') (fst r) /\ goodblks (bc s') (snd r) /\
      (length (fst r) < i)%nat /\ (length (fst r) <= length labels)%nat /\
      (out <> [] -> snd r <> []) /\ (snd r <> [] \/ fst r = labels).
  Proof.
    intros Hb Hi. induction fuel as [|f IH]; intros labels out s L Hl Ho; cbn [block_loop];
      destruct (length labels <? i)%nat eqn:E.
    - apply Nat.ltb_lt in E. finish. cbn [fst snd]. auto 8.
    - apply Nat.ltb_ge in E. lia.
    - apply Nat.ltb_lt in E. finish. cbn [fst snd]. auto 8.
    - apply Nat.ltb_ge in E.
      destruct (add_sum_n_bits_ok fresh Hf basis b false (firstn i labels) s Hb) as (blk & s1 & E1 & H1 & Hne);
        [apply all_exist_firstn, Hl|].
      rewrite (bind_ok _ _ _ _ _ _ E1). pose proof (run_ext _ _ _ _ _ E1) as X1.
      destruct blk as [|b0 blk'].
      { exfalso. apply Hne; [|reflexivity]. intros E0. apply (f_equal (@length label)) in E0.
        rewrite firstn_length in E0. simpl in E0. lia. }
      unfold nthP, nth_res. cbn [nth_error ret_res].
      rewrite (bind_ok fresh (Ret b0) _ s1 b0 s1 eq_refl).
      inversion H1 as [|? ? Hb0 _]; subst.
      destruct (IH (skipn i labels ++ [b0]) (out ++ [b0 :: blk']) s1) as (r & s2 & E2 & H2 & H3 & L1 & L2 & Hn1 & _).
      { rewrite app_length, skipn_length. simpl. lia. }
      { apply all_exist_app; [apply all_exist_skipn; eapply all_exist_ext; eassumption|].
        constructor; [exact Hb0|constructor]. }
      { apply Forall_app. split; [eapply goodblks_ext; eassumption|].
        constructor; [split; [discriminate|exact H1]|constructor]. }
      exists r, s2. split; [exact E2|]. split; [exact H2|]. split; [exact H3|]. split; [exact L1|].
      assert (snd r <> []) as Hsn by (apply Hn1; destruct out; discriminate).
      rewrite app_length, skipn_length in L2. simpl in L2. split; [lia|]. split; [intros _; exact Hsn|left; exact Hsn].
  Qed.

  Lemma sizes_ok basis b : resolve_basis basis = Ok b ->
    forall sizes, Forall (fun i => 2 <= i)%nat sizes ->
    forall labels out s, all_exist (bc s) labels -> goodblks (bc s) out ->
    exists r s', run fresh (foldP (fun st i => block_loop (S (length (fst st))) basis i (fst st) (snd st))
                                  sizes (labels, out)) s = Ok (r, s') /\
      all_exist (bc s') (fst r) /\ goodblks (bc s') (snd r) /\
      Forall (fun i => length (fst r) < i)%nat sizes /\ (length (fst r) <= length labels)%nat /\
      (out <> [] -> snd r <> []) /\ (snd r <> [] \/ fst r = labels).
  Proof.
    intros Hb. induction sizes as [|i sizes IH]; intros Hs labels out s Hl Ho; cbn [foldP].
    - finish. cbn [fst snd]. auto 8.
    - inversion Hs as [|? ? Hi Hs']; subst. cbn [fst snd].
      destruct (block_loop_ok basis b i Hb Hi (S (length labels)) labels out s)
        as ([l1 o1] & s1 & E1 & H1 & H2 & L1 & L2 & Hn1 & Hd1); [lia|exact Hl|exact Ho|].
      rewrite (bind_ok _ _ _ _ _ _ E1). cbn [fst snd] in *.
      destruct (IH Hs' l1 o1 s1 H1 H2) as (r & s2 & E2 & H3 & H4 & L3 & L4 & Hn2 & Hd2).
      exists r, s2. split; [exact E2|]. split; [exact H3|]. split; [exact H4|].
      split; [constructor; [lia|exact L3]|]. split; [lia|]. split; [intros Hne; apply Hn2, Hn1, Hne|].
      destruct Hd2 as [Hd2|Hd2]; [left; exact Hd2|]. destruct Hd1 as [Hd1|Hd1].
      + left. apply Hn2, Hd1.
      + right. congruence.
  Qed.

  Lemma blocks_outer_small basis f labels out s :
    (length labels <= 2)%nat -> run fresh (blocks_outer f basis labels out) s = Ok ((labels, out), s).
  Proof. intros L. apply Nat.leb_le in L. destruct f; cbn [blocks_outer]; rewrite L; reflexivity. Qed.

  Lemma blocks_outer_ok basis b fuel labels s :
    resolve_basis basis = Ok b -> (1 <= fuel)%nat -> all_exist (bc s) labels ->
    exists r s', run fresh (blocks_outer fuel basis labels []) s = Ok (r, s') /\
      all_exist (bc s') (fst r) /\ goodblks (bc s') (snd r) /\
      ((3 <= length labels)%nat -> snd r <> []) /\ ((length labels <= 2)%nat -> r = (labels, [])).
  Proof.
    intros Hb Lf Hl. destruct fuel as [|f]; [lia|]. cbn [blocks_outer].
    destruct (length labels <=? 2)%nat eqn:E.
    - apply Nat.leb_le in E. finish. cbn [fst snd]. split; [exact Hl|]. split; [constructor|].
      split; [lia|reflexivity].
    - apply Nat.leb_gt in E.
      destruct (sizes_ok basis b Hb pow2_m1_sizes) with (labels := labels) (out := @nil (list label)) (s := s)
        as ([l1 o1] & s1 & E1 & H1 & H2 & L1 & _ & _ & Hd); [repeat constructor; lia|exact Hl|constructor|].
      rewrite (bind_ok _ _ _ _ _ _ E1). cbn [fst snd] in *.
      assert (length l1 < 3)%nat as L3.
      { unfold pow2_m1_sizes in L1. rewrite Forall_forall in L1. apply L1. simpl. tauto. }
      rewrite blocks_outer_small by lia. eexists _, _. split; [reflexivity|]. cbn [fst snd].
      split; [exact H1|]. split; [exact H2|]. split; [|lia].
      intros _. destruct Hd as [Hd|Hd]; [exact Hd|]. subst l1. lia.
  Qed.

  (* Python: `assert n > 0`; for n = 1 the basis is not even looked at *)
  Theorem add_sum_pow2_m1_ok basis be xs s :
    xs <> [] -> all_exist (bc s) xs -> ((2 <= length xs)%nat -> exists b, resolve_basis basis = Ok b) ->
    has_gate (bc s) "" = false -> (forall k, fresh k <> "") ->
    exists r s', run fresh (add_sum_pow2_m1 basis be xs) s = Ok (r, s').
  Proof.
    intros Hne Hx Hb H0 Hfr. unfold add_sum_pow2_m1.
    destruct xs as [|x [|y rest]]; [contradiction|cbn [run]; eauto|].
    destruct Hb as (b & Hb); [simpl; lia|]. rewrite Hb. cbn [ret_res].
    rewrite (bind_ok fresh (Ret b) _ s b s eq_refl).
    set (xs := x :: y :: rest) in *.
    destruct (blocks_outer_ok basis b (S (length xs)) xs s Hb) as ([labels out] & s1 & E1 & H1 & H2 & Hbig & Hsmall);
      [lia|exact Hx|].
    rewrite (bind_ok _ _ _ _ _ _ E1). cbn [fst snd] in *. cbv beta iota.
    pose proof (gen_only_no_empty fresh _ _ _ _ (go_blocks_outer basis _ _ _) E1 H0 Hfr) as H01.
    assert (exists out' s2, run fresh
              (match labels with
               | [x0; y0] =>
                 bdo blk <- (match b with AIG => add_sum2_aig [x0; y0] | XAIG => add_sum2 [x0; y0] end);
                 bdo _ <- nthP blk 0; Ret (out ++ [blk])
               | _ => Ret out
               end) s1 = Ok (out', s2) /\ out' <> [] /\ goodblks (bc s2) out' /\ has_gate (bc s2) "" = false)
      as (out' & s2 & E2 & Hne2 & Hg2 & H02).
    { assert (forall l, (match l with [x0; y0] => False | _ => True end : Prop) -> labels = l ->
                exists out' s2, run fresh (Ret out) s1 = Ok (out', s2) /\ out' <> [] /\ goodblks (bc s2) out' /\
                                has_gate (bc s2) "" = false) as Hother.
      { intros l Hshape El. exists out, s1. split; [reflexivity|]. split; [|split; [exact H2|exact H01]].
        destruct (Nat.le_gt_cases (length xs) 2) as [Hle|Hgt]; [|apply Hbig; lia].
        specialize (Hsmall Hle). injection Hsmall as Hl _. subst labels. unfold xs in *.
        destruct rest; [subst l; contradiction|simpl in Hle; lia]. }
      destruct labels as [|x0 [|y0 [|z0 more]]];
        [eapply Hother; [|reflexivity]; exact I|eapply Hother; [|reflexivity]; exact I| |eapply Hother; [|reflexivity]; exact I].
      inversion H1 as [|? ? Hx0 H1']; subst. inversion H1' as [|? ? Hy0 _]; subst.
      assert (exists blk s2, run fresh (match b with AIG => add_sum2_aig [x0; y0] | XAIG => add_sum2 [x0; y0] end) s1
                             = Ok (blk, s2) /\ (exists a c, blk = [a; c] /\ has_gate (bc s2) a = true /\
                                                           has_gate (bc s2) c = true) /\
                             has_gate (bc s2) "" = false) as (blk & s2 & E2 & (a & c & -> & Ha & Hc) & H02).
      { destruct b.
        - destruct (add_sum2_ok fresh Hf x0 y0 s1 Hx0 Hy0) as (blk & s2 & E2 & Hblk).
          exists blk, s2. split; [exact E2|]. split; [exact Hblk|].
          exact (gen_only_no_empty fresh _ _ _ _ (go_add_sum2 _) E2 H01 Hfr).
        - destruct (add_sum2_aig_ok fresh Hf x0 y0 s1 Hx0 Hy0) as (blk & s2 & E2 & Hblk).
          exists blk, s2. split; [exact E2|]. split; [exact Hblk|].
          exact (gen_only_no_empty fresh _ _ _ _ (go_add_sum2_aig _) E2 H01 Hfr). }
      rewrite (bind_ok _ _ _ _ _ _ E2). unfold nthP, nth_res. cbn [nth_error ret_res]. cbn [run].
      eexists _, _. split; [reflexivity|]. split; [destruct out; discriminate|]. split; [|exact H02].
      apply Forall_app. split; [eapply goodblks_ext; [eapply run_ext; exact E2|exact H2]|].
      constructor; [|constructor]. split; [discriminate|]. constructor; [exact Ha|constructor; [exact Hc|constructor]]. }
    rewrite (bind_ok _ _ _ _ _ _ E2).
    destruct (columns_good (bc s2) out' Hne2 Hg2 H02) as (c0 & rest' & -> & Hc0).
    destruct (lastP_ok fresh c0 s2 Hc0) as (l & El & _).
    rewrite (bind_ok _ _ _ _ _ _ El). cbn [run]. eauto.
  Qed.

  (* ---- the generate_* wrappers ---- *)
  Lemma emplace_input_has c l k : has_gate (emplace_gate_raw c l INPUT []) k = leqb k l || has_gate c k.
  Proof. unfold emplace_gate_raw, has_gate. simpl. apply dmem_dset. Qed.

  Lemma add_inputs_ok ls : forall c, NoDup ls -> (forall l, In l ls -> has_gate c l = false) ->
    exists c', add_inputs c ls = Ok c' /\ (forall l, has_gate c l = true -> has_gate c' l = true) /\
               all_exist c' ls.
  Proof.
    induction ls as [|l ls IH]; intros c Nd Hnew; cbn [add_inputs].
    - exists c. split; [reflexivity|]. split; [auto|constructor].
    - inversion Nd as [|? ? Hnin Nd']; subst.
      unfold emplace_gate, check_label_doesnt_exist. rewrite (Hnew l (or_introl eq_refl)). cbn [bind check_gates_exist].
      destruct (IH (emplace_gate_raw c l INPUT []) Nd') as (c' & E & Hold & Hall).
      { intros k Hk. rewrite emplace_input_has. rewrite (Hnew k (or_intror Hk)).
        destruct (leqb_spec k l) as [->|_]; [contradiction|reflexivity]. }
      exists c'. split; [exact E|]. split.
      + intros k Hk. apply Hold. rewrite emplace_input_has, Hk. apply orb_true_r.
      + constructor; [|exact Hall]. apply Hold. rewrite emplace_input_has, leqb_refl. reflexivity.
  Qed.

  Lemma circuit_with_inputs_ok ins : NoDup ins ->
    exists c0, circuit_with_inputs ins = Ok c0 /\ all_exist c0 ins.
  Proof.
    intros Nd. destruct (add_inputs_ok ins empty_circuit Nd) as (c0 & E & _ & Hall); [reflexivity|].
    exists c0. split; [exact E|exact Hall].
  Qed.

  Lemma gen_set_outputs_ok k0 ins (p : prog (list label)) :
    NoDup ins ->
    (forall s, all_exist (bc s) ins -> exists r s', run fresh p s = Ok (r, s') /\ all_exist (bc s') r) ->
    exists c, gen_set_outputs fresh k0 ins p = Ok c.
  Proof.
    intros Nd Hp. unfold gen_set_outputs.
    destruct (circuit_with_inputs_ok ins Nd) as (c0 & -> & Hall). cbn [bind].
    destruct (Hp (mkB c0 k0) Hall) as (r & s' & -> & Hr). cbn [bind fst snd].
    unfold set_outputs. rewrite (check_gates_exist_ok' _ _ Hr). cbn [bind]. eauto.
  Qed.

  Theorem generate_sum_n_bits_ok k0 ins basis b be :
    NoDup ins -> resolve_basis basis = Ok b -> exists c, generate_sum_n_bits fresh k0 ins basis be = Ok c.
  Proof.
    intros Nd Hb. apply gen_set_outputs_ok; [exact Nd|]. intros s Hall.
    destruct (add_sum_n_bits_ok fresh Hf basis b be ins s Hb Hall) as (r & s' & E & Hr & _). eauto.
  Qed.

  Lemma all_exist_combine c (ws : list N) : forall ins, all_exist c ins -> all_exist c (map snd (combine ws ins)).
  Proof.
    induction ws as [|w ws IH]; intros [|i ins] H; simpl; try constructor; inversion H; subst; auto.
    apply IH. assumption.
  Qed.

  Lemma combine_nonempty (ws : list N) (ins : list label) :
    ins <> [] -> length ws = length ins -> combine ws ins <> [].
  Proof. destruct ws, ins; simpl; intros; try discriminate; contradiction. Qed.

  (* Python: max([]) raises ValueError for an empty weight vector *)
  Theorem generate_sum_weighted_bits_efficient_ok k0 ins weights basis b :
    NoDup ins -> ins <> [] -> length weights = length ins -> resolve_basis basis = Ok b ->
    exists c, generate_sum_weighted_bits_efficient fresh k0 ins weights basis = Ok c.
  Proof.
    intros Nd Hne L Hb. apply gen_set_outputs_ok; [exact Nd|]. intros s Hall.
    destruct (add_sum_n_weighted_bits_ok fresh Hf basis b (combine weights ins) s Hb) as (r & s' & E & Hr);
      [apply combine_nonempty; assumption|apply all_exist_combine, Hall|].
    rewrite (bind_ok _ _ _ _ _ _ E). cbn [run]. eauto.
  Qed.

  Theorem generate_sum_weighted_bits_naive_ok k0 ins weights basis b :
    NoDup ins -> ins <> [] -> length weights = length ins -> resolve_basis basis = Ok b ->
    exists c, generate_sum_weighted_bits_naive fresh k0 ins weights basis = Ok c.
  Proof.
    intros Nd Hne L Hb. apply gen_set_outputs_ok; [exact Nd|]. intros s Hall.
    destruct (add_sum_n_weighted_bits_naive_ok fresh Hf basis b (combine weights ins) s Hb) as (r & s' & E & Hr);
      [apply combine_nonempty; assumption|apply all_exist_combine, Hall|].
    rewrite (bind_ok _ _ _ _ _ _ E). cbn [run]. eauto.
  Qed.
End TotalP.
