(* The regenerated MergeDuplicateGates._transform (Generated/PassesGen.v, translator T15) equals the hand model
   Passes.merge_duplicate_gates, for every circuit.  The source keeps a dict keyed by the tuple
   (type, *sorted(operands)) (operands unsorted for a type that is not symmetric); the hand model keeps the list of
   (type, operands, label) and compares with sig_eqb (permutation test): the two are related by `gtbl`. *)
Require Import Cirbo.Model.Base Cirbo.Model.Gate Cirbo.Model.Circuit Cirbo.Model.Traverse Cirbo.Model.Eval
               Cirbo.Model.Passes.
Require Import Cirbo.Generated.GateTypes Cirbo.Generated.PassesGen.
Require Import Cirbo.Proofs.PassesGenBase Cirbo.Proofs.EffectMD.
From Coq Require Import Permutation.

Definition canon (t : gtype) (ops : list label) : list label := if is_symmetric t then py_sorted ops else ops.
Definition gkey (x : gtype * list label * label) : (gtype * list label) * label :=
  ((fst (fst x), canon (fst (fst x)) (snd (fst x))), snd x).
Definition gtbl (tbl : sig_table) : list ((gtype * list label) * label) := map gkey tbl.

Lemma gen_md_build_signature_eq t ops :
  gen_MergeDuplicateGates_transform_build_signature t ops = Ok (t, canon t ops).
Proof. unfold gen_MergeDuplicateGates_transform_build_signature, canon. destruct (is_symmetric t); reflexivity. Qed.

Lemma sorted_eqb_perm a b : labels_eqb (py_sorted a) (py_sorted b) = perm_eqb a b.
Proof.
  destruct (labels_eqb (py_sorted a) (py_sorted b)) eqn:E1, (perm_eqb a b) eqn:E2; try reflexivity; exfalso.
  - apply labels_eqb_eq, py_sorted_eq_iff, perm_eqb_perm in E1. congruence.
  - apply perm_eqb_perm, py_sorted_eq_iff, labels_eqb_eq in E2. congruence.
Qed.

Lemma key_eqb_eq t' ops' t ops : py_sig_eqb (t', canon t' ops') (t, canon t ops) = sig_eqb t' ops' t ops.
Proof.
  unfold py_sig_eqb, sig_eqb, canon. cbn [fst snd].
  destruct (gtype_beq t' t) eqn:E; [|reflexivity]. apply gtype_beq_eq in E. subst t'. cbn [andb].
  destruct (is_symmetric t); [apply sorted_eqb_perm|reflexivity].
Qed.

Lemma find_eq tbl t ops : py_adict_find py_sig_eqb (gtbl tbl) (t, canon t ops) = sig_lookup tbl t ops.
Proof.
  induction tbl as [|[[t' ops'] l'] tbl IH]; [reflexivity|].
  cbn [gtbl map gkey fst snd py_adict_find sig_lookup]. rewrite key_eqb_eq.
  destruct (sig_eqb t' ops' t ops); [reflexivity|exact IH].
Qed.

Lemma gen_md_new_name_eq n tbl l :
  gen_MergeDuplicateGates_transform_get_gate_new_name n (gtbl tbl) l = md_new_name n tbl l.
Proof.
  unfold gen_MergeDuplicateGates_transform_get_gate_new_name, gen_MergeDuplicateGates_transform_label_to_signature,
    md_new_name.
  rewrite pg_bind_assoc. destruct (get_gate n l) as [g|e]; cbn [bind]; [|reflexivity].
  rewrite gen_md_build_signature_eq. cbn [bind]. unfold py_adict_get. rewrite find_eq. reflexivity.
Qed.

Definition md_to (s : circuit * sig_table) : circuit * list ((gtype * list label) * label) := (fst s, gtbl (snd s)).

Theorem gen_md_eq c : gen_MergeDuplicateGates_transform c = merge_duplicate_gates c.
Proof.
  unfold gen_MergeDuplicateGates_transform, merge_duplicate_gates, dfs_emission.
  rewrite pg_bind_assoc.
  destruct (traverse DFS false c (Some (outputs c)) true no_abort) as [log|e] eqn:Ht; cbn [bind]; [|reflexivity].
  match goal with |- context [foldM ?f log (empty_circuit, [])] => set (h := f) end.
  rewrite (hook_fold_same h (fun (s : circuit * list ((gtype * list label) * label)) l =>
               do g <- get_gate c l;
               gen_MergeDuplicateGates_transform_process_gate (fst s) (snd s) l g)
             (fun s l => match s with (_, _) => eq_refl end) (fun s l => match s with (_, _) => eq_refl end)
             (fun s l => match s with (_, _) => eq_refl end) (fun s l t => match s with (_, _) => eq_refl end)
             (fun s l => match s with (_, _) => eq_refl end) (fun s => match s with (_, _) => eq_refl end)
             _ _ _ _ _ _ _ _ Ht).
  clear h.
  match goal with |- context [foldM ?f _ (empty_circuit, [])] => set (gs := f) end.
  match goal with |- context [bind (foldM ?f _ (empty_circuit, [])) ?k] =>
    match f with gs => fail 1 | _ => set (hs := f); set (hk := k) end end.
  assert (Hstep : forall s l, gs (md_to s) l = bind (hs s l) (fun s' => Ok (md_to s'))).
  { intros [n tbl] l. subst gs hs. unfold md_to. cbn [fst snd]. cbv beta iota.
    destruct (get_gate c l) as [g|e]; cbn [bind]; [|reflexivity].
    unfold gen_MergeDuplicateGates_transform_process_gate.
    destruct (gtype_beq (gtyp g) INPUT).
    - destruct (add_inputs n [l]); reflexivity.
    - rewrite (pg_mapM_ext _ (md_new_name n tbl)) by (intros; apply gen_md_new_name_eq).
      destruct (mapM (md_new_name n tbl) (gops g)) as [ops|e]; cbn [bind]; [|reflexivity].
      rewrite gen_md_build_signature_eq. cbn [bind].
      unfold py_adict_setdefault. rewrite find_eq.
      destruct (emplace_gate n l (gtyp g) ops) as [n'|e]; cbn [bind]; [|reflexivity].
      destruct (sig_lookup tbl (gtyp g) ops); [reflexivity|].
      cbn [fst snd]. unfold gtbl. rewrite map_app. reflexivity. }
  change (foldM gs (exits log ++ unvisiteds log) (empty_circuit, []))
    with (foldM gs (exits log ++ unvisiteds log) (md_to (empty_circuit, []))).
  rewrite (fold_iso md_to gs hs Hstep), pg_bind_assoc.
  apply pg_bind_ext. intros [n1 tbl]. subst hk. cbn [bind md_to fst snd].
  apply pg_bind_ext. intros n2.
  rewrite (pg_mapM_ext _ (md_new_name n2 tbl)) by (intros; apply gen_md_new_name_eq).
  apply pg_bind_ext. intros outs. apply pg_bind_ok_r.
Qed.
