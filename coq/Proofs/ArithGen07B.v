(* Generated/ArithGen07.v (translator T18) equals the hand model, part B: the XAIG scheduler _add_sum_n_bits
   (pairing, the MDFA loop, the last pair, the sum3 / sum2 loop) and the dispatcher add_sum_n_bits. *)
Require Import Cirbo.Model.Base Cirbo.Model.Gate Cirbo.Model.Circuit Cirbo.Model.Builder Cirbo.Model.PyPrims.
Require Import Cirbo.Generated.ArithTables Cirbo.Generated.ArithCells Cirbo.Generated.ArithGen09 Cirbo.Generated.ArithGen07.
Require Import Cirbo.Model.ArithSub Cirbo.Model.ArithSum2 Cirbo.Model.ArithSumN Cirbo.Model.ArithSumW Cirbo.Model.PyPrimsSum.
Require Import Cirbo.Proofs.ArithGen09Lib Cirbo.Proofs.ArithGen09A Cirbo.Proofs.ArithGen07Lib Cirbo.Proofs.ArithGen07A.
From Coq Require Import ZArith Lia Ascii.
Open Scope Z_scope.

Section Schemas.
  Variable fresh : N -> label.
  Notation pairs := (list (label * label)).

  (* while len(now_solo) > 1: xy = XOR(now_solo[-1], now_solo[-2]); now_x_xy.append((now_solo[-1], xy)); pop 2 *)
  Lemma while_pair_up (cond : pairs * list label -> bool) body :
    (forall lx ls, cond (lx, ls) = (py_len ls >? 1)) ->
    (forall a b rest lx B (K : pairs * list label -> prog B) s,
        run fresh (Bind (body (lx, rev (a :: b :: rest))) K) s
      = run fresh (bdo xy <- gate_tt (TT false true true false) a b; K (lx ++ [(a, xy)], rev rest)) s) ->
    forall f solo lx B (K : pairs * list label -> prog B) s, (length solo <= S f)%nat ->
        run fresh (Bind (py_while f cond body (lx, rev solo)) K) s
      = run fresh (Bind (pair_up solo (rev lx)) (fun st => K (rev (snd st), rev (fst st)))) s.
  Proof.
    intros Hc Hb. induction f as [|f IH]; intros solo lx B K s Hf.
    - destruct solo as [|a [|b rest]]; [| |cbn in Hf; lia];
        (rewrite py_while_false by (rewrite Hc; reflexivity)); cbn [pair_up]; rs; fin.
    - destruct solo as [|a [|b rest]].
      + rewrite py_while_false by (rewrite Hc; reflexivity). cbn [pair_up]. rs. fin.
      + rewrite py_while_false by (rewrite Hc; reflexivity). cbn [pair_up]. rs. fin.
      + rewrite py_while_true by (rewrite Hc, py_len_gtb1, rev_length; reflexivity).
        rewrite bind_assoc, Hb. cbn [pair_up]. unfold tt_xor. peel.
        rewrite IH by (cbn [length] in Hf; lia). rewrite rev_app_distr. reflexivity.
  Qed.

  (* while len(now_x_xy) > 1: add_mdfa with now_solo[-1] when there is one, else add_simplified_mdfa *)
  Lemma while_mdfa (cond : pairs * list label * pairs -> bool) body :
    (forall lx ls nx, cond (lx, ls, nx) = (py_len lx >? 1)) ->
    (forall p1 p2 rest z solo nx B (K : pairs * list label * pairs -> prog B) s,
        run fresh (Bind (body (rev (p1 :: p2 :: rest), rev (z :: solo), nx)) K) s
      = run fresh (bdo r <- add_mdfa [z; fst p1; snd p1; fst p2; snd p2]; bdo t <- unpack3 r;
                   K (rev rest, rev (fst (fst t) :: solo), nx ++ [(snd (fst t), snd t)])) s) ->
    (forall p1 p2 rest nx B (K : pairs * list label * pairs -> prog B) s,
        run fresh (Bind (body (rev (p1 :: p2 :: rest), [], nx)) K) s
      = run fresh (bdo r <- add_simplified_mdfa [fst p1; snd p1; fst p2; snd p2]; bdo t <- unpack3 r;
                   K (rev rest, [fst (fst t)], nx ++ [(snd (fst t), snd t)])) s) ->
    forall f xxy solo nx B (K : pairs * list label * pairs -> prog B) s, (length xxy <= S f)%nat ->
        run fresh (Bind (py_while f cond body (rev xxy, rev solo, nx)) K) s
      = run fresh (Bind (mdfa_loop xxy solo (rev nx))
                        (fun st => K (rev (fst (fst st)), rev (snd (fst st)), rev (snd st)))) s.
  Proof.
    intros Hc Hb1 Hb2. induction f as [|f IH]; intros xxy solo nx B K s Hf.
    - destruct xxy as [|[x1 xy1] [|[x2 xy2] rest]]; [| |cbn in Hf; lia];
        (rewrite py_while_false by (rewrite Hc; reflexivity)); cbn [mdfa_loop]; rs; fin.
    - destruct xxy as [|[x1 xy1] [|[x2 xy2] rest]].
      + rewrite py_while_false by (rewrite Hc; reflexivity). cbn [mdfa_loop]. rs. fin.
      + rewrite py_while_false by (rewrite Hc; reflexivity). cbn [mdfa_loop]. rs. fin.
      + rewrite py_while_true by (rewrite Hc, py_len_gtb1, rev_length; reflexivity).
        rewrite bind_assoc.
        destruct solo as [|z solo].
        * cbn [rev]. change (((rev rest ++ [(x2, xy2)]) ++ [(x1, xy1)])) with (rev ((x1, xy1) :: (x2, xy2) :: rest)).
          rewrite Hb2. cbn [mdfa_loop fst snd]. peel. peel.
          destruct a0 as [[z' a'] b']. cbn [fst snd].
          change [z'] with (rev [z']).
          rewrite IH by (cbn [length] in Hf; lia). rewrite rev_app_distr. reflexivity.
        * rewrite Hb1. cbn [mdfa_loop fst snd]. peel. peel.
          destruct a0 as [[z' a'] b']. cbn [fst snd].
          rewrite IH by (cbn [length] in Hf; lia). rewrite rev_app_distr. reflexivity.
  Qed.

  (* while len(now_solo) > 0 or len(now_x_xy) > 0: <one level>; res.append(now_solo[0]); now_* = next_* *)
  Lemma while_xaig (cond : pairs * list label * list label -> bool) body :
    (forall lx ls res, cond (lx, ls, res) = ((py_len ls >? 0) || (py_len lx >? 0))) ->
    (forall solo xxy res B (K : pairs * list label * list label -> prog B) s, (solo, xxy) <> ([], []) ->
        run fresh (Bind (body (rev xxy, rev solo, res)) K) s
      = run fresh (Bind (xaig_level solo xxy)
                        (fun st => K (rev (snd st), rev (snd (fst st)), res ++ [fst (fst st)]))) s) ->
    forall f solo xxy res B (K : pairs * list label * list label -> prog B) s,
        run fresh (Bind (py_while f cond body (rev xxy, rev solo, res)) K) s
      = run fresh (Bind (xaig_loop f solo xxy) (fun rs => K ([], [], res ++ rs))) s.
  Proof.
    intros Hc Hb.
    assert (Hne : forall (solo : list label) (xxy : pairs), (solo, xxy) <> ([], []) ->
              ((py_len (rev solo) >? 0) || (py_len (rev xxy) >? 0)) = true).
    { intros solo xxy H. rewrite !py_len_gtb0, !rev_length.
      destruct solo; [destruct xxy; [congruence|reflexivity]|reflexivity]. }
    induction f as [|f IH]; intros solo xxy res B K s.
    - destruct solo as [|z solo]; [destruct xxy as [|p xxy]|].
      + rewrite py_while_false by (rewrite Hc; reflexivity). cbn [xaig_loop rev]. rs. rewrite app_nil_r. reflexivity.
      + rewrite py_while_true0 by (rewrite Hc; apply Hne; congruence). reflexivity.
      + rewrite py_while_true0 by (rewrite Hc; apply Hne; congruence). reflexivity.
    - assert (Hstep : (solo, xxy) <> ([], []) ->
          run fresh (Bind (py_while (S f) cond body (rev xxy, rev solo, res)) K) s
        = run fresh (Bind (Bind (xaig_level solo xxy)
                                (fun st => let '(r, next_solo, next_xxy) := st in
                                           bdo rs <- xaig_loop f next_solo next_xxy; Ret (r :: rs)))
                          (fun rs => K ([], [], res ++ rs))) s).
      { intros H. rewrite py_while_true by (rewrite Hc; apply Hne; exact H).
        rewrite !bind_assoc, Hb by exact H. peel. destruct a as [[r ns] nx]. cbn [fst snd].
        rewrite IH. peel. rs. rewrite <- app_assoc. reflexivity. }
      destruct solo as [|z solo]; [destruct xxy as [|p xxy]|].
      + rewrite py_while_false by (rewrite Hc; reflexivity). cbn [xaig_loop rev]. rs. rewrite app_nil_r. reflexivity.
      + apply Hstep. congruence.
      + apply Hstep. congruence.
  Qed.
End Schemas.

(* the sum3 / sum2 loop at the end of a level, on now_solo = rev (top :: rest) *)
Ltac solo_tail fr c3 c2 :=
  rewrite ?rev_push; cbn [fst snd];
  rewrite (while_solo3 fr c3);
  [ apply (solo3_then fr c3 c2); [ intros; sx; fin | intros; sx; fin ]
  | intros; reflexivity
  | intros; cbv beta iota; sx
  | rewrite rev_length; cbn [length]; lia ].

Theorem gen__add_sum_n_bits_eq xs : peq (gen__add_sum_n_bits xs) (add_sum_n_bits_xaig xs).
Proof.
  intros fr s. unfold gen__add_sum_n_bits, add_sum_n_bits_xaig. cbv zeta.
  rewrite <- (rev_involutive xs) at 2.
  rewrite (while_pair_up fr).
  - change (rev []) with (@nil (label * label)). peel. destruct a as [solo xxy]. cbn [fst snd].
    rewrite (while_xaig fr).
    + step.
    + intros lx ls res. reflexivity.
    + intros solo0 xxy0 res B K s0 Hne. cbv beta iota zeta.
      rewrite bind_assoc. rewrite (while_mdfa fr).
      * unfold xaig_level. peel. destruct a as [[xxy1 solo1] nxx]. cbn [fst snd].
        destruct xxy1 as [|[x xy] [|p2 xxy']], solo1 as [|z solo']; cbn [last_pair]; sx.
        all: solo_tail fr add_sum3 add_sum2.
      * intros lx ls nx. reflexivity.
      * intros p1 p2 rest z solo1 nx B0 K0 s1. cbv beta iota. sx.
      * intros p1 p2 rest nx B0 K0 s1. cbv beta iota. sx.
      * rewrite rev_length. lia.
  - intros lx ls. reflexivity.
  - intros a b rest lx B K s0. cbv beta iota. sx.
  - rewrite rev_length. lia.
Qed.

(* GenerationBasis(basis.upper()) if isinstance(basis, str) else basis *)
Lemma run_resolve_basis fr basis {B} (K : gen_basis -> prog B) s :
  run fr (Bind (match basis with
                | BStr str => bdo t <- gen_GenerationBasis (upper str); Ret t
                | BEnum g => Ret g
                end) K) s
  = run fr (Bind (ret_res (resolve_basis basis)) K) s.
Proof.
  destruct basis as [g|str]; [reflexivity|]. unfold gen_GenerationBasis, resolve_basis.
  destruct (String.eqb (upper str) "XAIG"); [reflexivity|].
  destruct (String.eqb (upper str) "AIG"); reflexivity.
Qed.

Theorem gen_add_sum_n_bits_eq xs basis be : peq (gen_add_sum_n_bits xs basis be) (add_sum_n_bits basis be xs).
Proof.
  intros fr s. unfold gen_add_sum_n_bits, add_sum_n_bits. cbv zeta.
  rewrite run_bind, run_if_rev1. cbv beta iota.
  rewrite (run_resolve_basis fr basis). apply run_bind_cong. intros b s1.
  destruct b; cbn [gen_basis_eqb add_sum_n_bits_resolved]; cbv iota.
  - norm. rewrite (run_peq fr _ _ _ _ (gen__add_sum_n_bits_eq _)). apply run_bind_cong. intros r s2.
    norm. rewrite run_bind, gen_reverse_if_big_endian_run. reflexivity.
  - norm. rewrite (run_peq fr _ _ _ _ (gen__add_sum_n_bits_aig_eq _)). apply run_bind_cong. intros r s2.
    norm. rewrite run_bind, gen_reverse_if_big_endian_run. reflexivity.
Qed.
