(* C07, part 4: add_sum_pow2_m1.  Invariant of the block loops: the bits still in
   `input_labels` plus twice the value of the blocks WITHOUT their bit 0 equal the target; the
   last element of `input_labels` is bit 0 of the most recent block.  The result lists, level
   by level, the bits of all blocks, level 0 holding bit 0 of the last block only. *)
Require Import Cirbo.Model.Base Cirbo.Model.Gate Cirbo.Model.Den Cirbo.Model.Circuit
  Cirbo.Model.Eval Cirbo.Model.Sem Cirbo.Model.Builder.
Require Import Cirbo.Generated.ArithTables Cirbo.Generated.ArithCells.
Require Import Cirbo.Model.ArithSub Cirbo.Model.ArithSum2 Cirbo.Model.ArithSumN.
Require Import Cirbo.Proofs.DictFacts Cirbo.Proofs.BuilderFacts Cirbo.Proofs.ArithFacts
  Cirbo.Proofs.ArithSumCells Cirbo.Proofs.ArithSumNFacts Cirbo.Proofs.ArithSumTopFacts.
Open Scope Z_scope.

(* value of a list of levels, level k holding any number of bits of weight 2^k *)
Fixpoint cols_val (vs : list (list bool)) : Z :=
  match vs with [] => 0 | v :: r => ones v + 2 * cols_val r end.

Fixpoint blocks_val (ovs : list (list bool)) : Z :=
  match ovs with [] => 0 | v :: r => bits_val v + blocks_val r end.

Definition tails_val (ovs : list (list bool)) : Z := blocks_val (map (@tl bool) ovs).

Lemma blocks_val_app a b : blocks_val (a ++ b) = blocks_val a + blocks_val b.
Proof. induction a as [|x a IH]; simpl; [lia|]. rewrite IH. lia. Qed.

Lemma tails_val_app a b : tails_val (a ++ b) = tails_val a + tails_val b.
Proof. unfold tails_val. rewrite map_app. apply blocks_val_app. Qed.

(* ---- transposition ------------------------------------------------------------------------------ *)
Definition maxlen {A} (out : list (list A)) : nat := fold_right Nat.max 0%nat (map (@length A) out).

Definition heads {A} (out : list (list A)) : list A :=
  flat_map (fun l => match l with x :: _ => [x] | [] => [] end) out.

Lemma nth_error_tl {A} (l : list A) k : nth_error (tl l) k = nth_error l (S k).
Proof. destruct l; simpl; [destruct k; reflexivity|reflexivity]. Qed.

Lemma column_S' k out : column (S k) out = column k (map (@tl label) out).
Proof.
  unfold column. induction out as [|blk out IH]; cbn [flat_map map]; [reflexivity|].
  rewrite IH, nth_error_tl. reflexivity.
Qed.

Lemma maxlen_tl {A} (out : list (list A)) : maxlen (map (@tl A) out) = pred (maxlen out).
Proof.
  unfold maxlen. induction out as [|blk out IH]; cbn [map fold_right]; [reflexivity|].
  rewrite IH. destruct blk; cbn [tl length]; lia.
Qed.

Lemma columns_unfold out :
  columns out = match maxlen out with
                | O => []
                | S _ => column 0 out :: columns (map (@tl label) out)
                end.
Proof.
  unfold columns. fold (maxlen out). fold (maxlen (map (@tl label) out)). rewrite maxlen_tl.
  destruct (maxlen out) as [|m]; [reflexivity|].
  cbn [seq map pred]. f_equal. rewrite <- seq_shift, map_map.
  apply map_ext. intros k. apply column_S'.
Qed.

Lemma column0_heads out : Forall (Forall (fun l : label => l <> ""%string)) out -> column 0 out = heads out.
Proof.
  unfold column, heads. induction 1 as [|blk out Hb _ IH]; cbn [flat_map]; [reflexivity|].
  rewrite IH. destruct blk as [|x blk]; cbn [nth_error]; [reflexivity|].
  inversion Hb; subst. destruct (String.eqb_spec x ""); [contradiction|reflexivity].
Qed.

Section Transpose.
  Variable c : circuit.
  Variable asg : assignment.

  Lemma heads_bvals out ovs :
    Forall2 (bvals c asg) out ovs -> bvals c asg (heads out) (heads ovs).
  Proof.
    unfold heads. induction 1 as [|blk bv out ovs Hb _ IH]; simpl; [constructor|].
    destruct Hb; simpl; [exact IH|constructor; assumption].
  Qed.

  Lemma tails_bvals out ovs :
    Forall2 (bvals c asg) out ovs -> Forall2 (bvals c asg) (map (@tl label) out) (map (@tl bool) ovs).
  Proof.
    induction 1 as [|blk bv out ovs Hb _ IH]; simpl; constructor; [|exact IH].
    destruct Hb; simpl; [constructor|assumption].
  Qed.

  Lemma blocks_val_heads ovs : blocks_val ovs = ones (heads ovs) + 2 * tails_val ovs.
  Proof.
    unfold tails_val, heads. induction ovs as [|bv ovs IH]; simpl; [reflexivity|].
    rewrite IH, ones_app. destruct bv; simpl; lia.
  Qed.

  Lemma maxlen0_blocks out ovs :
    maxlen out = 0%nat -> Forall2 (bvals c asg) out ovs -> blocks_val ovs = 0.
  Proof.
    unfold maxlen. intros M H; induction H as [|blk bv out ovs Hb _ IH]; [reflexivity|].
    cbn [map fold_right] in M. cbn [blocks_val].
    destruct Hb; cbn [length] in M; [rewrite IH; [reflexivity|lia]|lia].
  Qed.

  Lemma tl_nonempty (out : list (list label)) :
    Forall (Forall (fun l : label => l <> ""%string)) out ->
    Forall (Forall (fun l : label => l <> ""%string)) (map (@tl label) out).
  Proof.
    induction 1 as [|blk out Hb _ IH]; simpl; constructor; [|exact IH].
    destruct Hb; simpl; [constructor|assumption].
  Qed.

  Lemma columns_vals m : forall out ovs,
    maxlen out = m -> Forall2 (bvals c asg) out ovs ->
    Forall (Forall (fun l : label => l <> ""%string)) out ->
    exists cvs, Forall2 (bvals c asg) (columns out) cvs /\ cols_val cvs = blocks_val ovs.
  Proof.
    induction m as [|m IH]; intros out ovs M H NE; rewrite columns_unfold, M.
    - exists []. split; [constructor|]. simpl. symmetry. eapply maxlen0_blocks; eassumption.
    - destruct (IH (map (@tl label) out) (map (@tl bool) ovs)) as (cvs & Hc & Ec).
      { rewrite maxlen_tl, M. reflexivity. } { apply tails_bvals, H. } { apply tl_nonempty, NE. }
      exists (heads ovs :: cvs). split.
      + constructor; [rewrite column0_heads by exact NE; apply heads_bvals, H|exact Hc].
      + cbn [cols_val]. rewrite Ec, (blocks_val_heads ovs). reflexivity.
  Qed.

  (* every label that has a value is a gate, hence not the empty string when "" is not a gate *)
  Lemma bvals_nonempty out ovs :
    has_gate c "" = false -> Forall2 (bvals c asg) out ovs ->
    Forall (Forall (fun l : label => l <> ""%string)) out.
  Proof.
    intros E H; induction H as [|blk bv out ovs Hb _ IH]; constructor; [|exact IH].
    induction Hb as [|l b blk bv Hl _ IHb]; constructor; [|exact IHb].
    intros ->. apply bval_has_gate in Hl. congruence.
  Qed.
End Transpose.

(* ---- the two-state relation carried through the block loops ----------------------------------- *)
Definition link (labels : list label) (out : list (list label)) : Prop :=
  out = [] \/ exists rest blk b0 pre, out = rest ++ [blk] /\ hd_error blk = Some b0 /\ labels = pre ++ [b0].

Definition pstate : Type := (bstate * (list label * list (list label)))%type.

Definition BR (b : gen_basis) (x y : pstate) : Prop :=
  let '(s, (labels, out)) := x in
  let '(s', (labels', out')) := y in
  outputs (bc s') = outputs (bc s) /\ ext (bc s) (bc s') /\ (exists g, adds (t_of b) (bc s) (bc s') g) /\
  (link labels out -> link labels' out') /\ (labels <> [] -> labels' <> []) /\
  forall c, ext (bc s') c -> forall asg S0 ovs,
    gsum (vsolo c asg) labels S0 -> Forall2 (bvals c asg) out ovs ->
    exists S1 ovs', gsum (vsolo c asg) labels' S1 /\ Forall2 (bvals c asg) out' ovs' /\
                    S0 + 2 * tails_val ovs = S1 + 2 * tails_val ovs'.

Lemma BR_refl b x : BR b x x.
Proof.
  destruct x as (s & labels & out). unfold BR. split; [reflexivity|]. split; [apply ext_refl|].
  split; [exists 0%nat; apply adds_refl|]. split; [auto|]. split; [auto|].
  intros c _ asg S0 ovs HS HO. exists S0, ovs. auto.
Qed.

Lemma BR_trans b x y z : BR b x y -> BR b y z -> BR b x z.
Proof.
  destruct x as (s1 & l1 & o1), y as (s2 & l2 & o2), z as (s3 & l3 & o3). unfold BR.
  intros (O1 & X1 & (g1 & A1) & K1 & N1 & V1) (O2 & X2 & (g2 & A2) & K2 & N2 & V2).
  split; [congruence|]. split; [eapply ext_trans; eassumption|].
  split; [eexists; eapply adds_trans; eassumption|]. split; [auto|]. split; [auto|].
  intros c Hc asg S0 ovs HS HO.
  assert (ext (bc s2) c) as Hc2 by (eapply ext_trans; eassumption).
  destruct (V1 c Hc2 asg S0 ovs HS HO) as (S1 & ovs1 & HS1 & HO1 & E1).
  destruct (V2 c Hc asg S1 ovs1 HS1 HO1) as (S2 & ovs2 & HS2 & HO2 & E2).
  exists S2, ovs2. repeat split; auto. lia.
Qed.

Lemma Forall2_app_single {A B} (P : A -> B -> Prop) l m x y :
  Forall2 P l m -> P x y -> Forall2 P (l ++ [x]) (m ++ [y]).
Proof. intros H Hxy. apply Forall2_app; [exact H|constructor; [exact Hxy|constructor]]. Qed.

(* one block *)
Lemma block_step fresh basis b i labels out s blk b0 s1 s2 :
  resolve_basis basis = Ok b ->
  run fresh (add_sum_n_bits basis false (firstn i labels)) s = Ok (blk, s1) ->
  run fresh (nthP blk 0) s1 = Ok (b0, s2) ->
  BR b (s, (labels, out)) (s2, (skipn i labels ++ [b0], out ++ [blk])).
Proof.
  intros Hb Hblk Hn. apply nthP_inv in Hn as (Hn & ->).
  apply add_sum_n_bits_correct in Hblk as (b' & Hb' & X & _ & O & (g & A & _) & V).
  assert (b' = b) as -> by congruence.
  destruct blk as [|x blk']; [discriminate|]. injection Hn as ->.
  unfold BR. split; [exact O|]. split; [exact X|]. split; [exists g; exact A|].
  split; [intros _; right; exists out, (b0 :: blk'), b0, (skipn i labels); auto|].
  split; [intros _ E; apply app_eq_nil in E as (_ & E); discriminate|].
  intros c Hc asg S0 ovs HS HO.
  rewrite <- (firstn_skipn i labels) in HS. apply gsum_app_inv in HS as (S1 & S2 & H1 & H2 & ->).
  apply gsum_bvals in H1 as (xv & Hxv & ->).
  destruct (V c Hc asg xv Hxv) as (rv & Vrv & Erv). unfold decode in Erv. simpl rev_if in Erv.
  inversion Vrv as [|? v0 ? rv' V0 Vr']; subst.
  exists (S2 + Z.b2z v0), (ovs ++ [v0 :: rv']). split; [|split].
  - apply gsum_app; [exact H2|apply gsum_single, vsolo_intro, V0].
  - apply Forall2_app_single; assumption.
  - rewrite tails_val_app. unfold tails_val at 3. simpl. rewrite bits_val_cons in Erv. lia.
Qed.

Lemma block_loop_BR fresh basis b i : resolve_basis basis = Ok b ->
  forall fuel labels out s r s',
    run fresh (block_loop fuel basis i labels out) s = Ok (r, s') -> BR b (s, (labels, out)) (s', r).
Proof.
  intros Hb fuel. induction fuel as [|f IH]; intros labels out s r s' H; cbn [block_loop] in H;
    destruct (length labels <? i)%nat.
  - apply run_ret_inv in H as (-> & ->). apply BR_refl.
  - discriminate.
  - apply run_ret_inv in H as (-> & ->). apply BR_refl.
  - apply run_bind_inv in H as (blk & s1 & Hblk & H). apply run_bind_inv in H as (b0 & s2 & Hn & H).
    eapply BR_trans; [eapply block_step; eassumption|]. apply IH in H. destruct r. exact H.
Qed.

Lemma foldP_BR fresh b {A} (f : list label * list (list label) -> A -> prog (list label * list (list label))) :
  (forall st a s st' s', run fresh (f st a) s = Ok (st', s') -> BR b (s, st) (s', st')) ->
  forall l st s st' s', run fresh (foldP f l st) s = Ok (st', s') -> BR b (s, st) (s', st').
Proof.
  intros Hf l. induction l as [|a l IH]; intros st s st' s' H; cbn [foldP] in H.
  - apply run_ret_inv in H as (-> & ->). apply BR_refl.
  - apply run_bind_inv in H as (st1 & s1 & H1 & H). eapply BR_trans; [eapply Hf, H1|eapply IH, H].
Qed.

Lemma blocks_outer_BR fresh basis b : resolve_basis basis = Ok b ->
  forall fuel labels out s r s',
    run fresh (blocks_outer fuel basis labels out) s = Ok (r, s') ->
    BR b (s, (labels, out)) (s', r) /\ (length (fst r) <= 2)%nat.
Proof.
  intros Hb fuel. induction fuel as [|f IH]; intros labels out s r s' H; cbn [blocks_outer] in H;
    destruct (length labels <=? 2)%nat eqn:E.
  - apply run_ret_inv in H as (-> & ->). split; [apply BR_refl|apply Nat.leb_le, E].
  - discriminate.
  - apply run_ret_inv in H as (-> & ->). split; [apply BR_refl|apply Nat.leb_le, E].
  - apply run_bind_inv in H as (st & s1 & Hf & H). apply IH in H as (H & L). split; [|exact L].
    eapply BR_trans; [|destruct st; exact H].
    eapply (foldP_BR fresh b) in Hf; [destruct st; exact Hf|].
    intros [l0 o0] a s0 st' s0' Hstep. cbn [fst snd] in Hstep. destruct st'.
    eapply block_loop_BR; eassumption.
Qed.

(* ---- the result --------------------------------------------------------------------------------- *)
Lemma lastP_inv fresh {A} (l : list A) s r s' :
  run fresh (lastP l) s = Ok (r, s') -> (exists pre, l = pre ++ [r]) /\ s' = s.
Proof.
  unfold lastP. destruct (rev l) as [|x rl] eqn:E; [discriminate|]. intros H.
  apply run_ret_inv in H as (-> & ->). split; [|reflexivity].
  exists (rev rl). rewrite <- (rev_involutive l), E. reflexivity.
Qed.

Lemma app_single_inj {A} (a b : list A) x y : a ++ [x] = b ++ [y] -> a = b /\ x = y.
Proof. apply app_inj_tail. Qed.

(* from the final blocks to the returned levels *)
Lemma pow2_finish fresh be out rest blk b0 s cols s' :
  out = rest ++ [blk] -> hd_error blk = Some b0 ->
  run fresh (match columns out with
             | [] => Fail PyIndexError
             | c0 :: rest0 => bdo l <- lastP c0; Ret (map (rev_if be) ([l] :: rest0))
             end) s = Ok (cols, s') ->
  s' = s /\ (exists l0, hd_error cols = Some [l0]) /\
  forall c asg ovs, has_gate c "" = false -> Forall2 (bvals c asg) out ovs ->
    exists v0 cvs, bval c asg b0 v0 /\ hd_error cols = Some [b0] /\
      Forall2 (bvals c asg) cols cvs /\ cols_val cvs = Z.b2z v0 + 2 * tails_val ovs.
Proof.
  intros Eo Hb0 H. rewrite columns_unfold in H.
  destruct (maxlen out) as [|m] eqn:M.
  { discriminate. }
  apply run_bind_inv in H as (l & s1 & Hl & H). apply run_ret_inv in H as (-> & ->).
  apply lastP_inv in Hl as ((pre & Ecol) & ->). split; [reflexivity|].
  split; [exists l; destruct be; reflexivity|].
  intros c asg ovs E0 HO.
  pose proof (bvals_nonempty c asg _ _ E0 HO) as NE.
  rewrite column0_heads in Ecol by exact NE.
  destruct blk as [|x blk']; [discriminate|]. injection Hb0 as ->.
  assert (heads out = heads rest ++ [b0]) as Eh.
  { rewrite Eo. unfold heads. rewrite flat_map_app. simpl. reflexivity. }
  rewrite Eh in Ecol. apply app_inj_tail in Ecol as (_ & <-).
  (* values *)
  rewrite Eo in HO. apply Forall2_app_inv_l in HO as (ovr & ovb & HOr & HOb & ->).
  inversion HOb as [|? bvb ? ? Hblk Hnil]; subst. inversion Hnil; subst.
  inversion Hblk as [|? v0 ? bv' V0 Vb']; subst.
  destruct (columns_vals c asg m (map (@tl label) (rest ++ [b0 :: blk'])) (map (@tl bool) (ovr ++ [v0 :: bv'])))
    as (cvs & Hc & Ec).
  { rewrite maxlen_tl, M. reflexivity. }
  { apply tails_bvals. apply Forall2_app; [exact HOr|constructor; [exact Hblk|constructor]]. }
  { apply tl_nonempty, NE. }
  exists v0, (rev_if be [v0] :: map (rev_if be) cvs). split; [exact V0|]. split; [destruct be; reflexivity|].
  split.
  - cbn [map]. constructor; [apply bvals_rev_if; constructor; [exact V0|constructor]|].
    clear -Hc. induction Hc; simpl; constructor; [apply bvals_rev_if; assumption|assumption].
  - cbn [cols_val]. rewrite ones_rev_if. simpl ones.
    assert (cols_val (map (rev_if be) cvs) = cols_val cvs) as ->.
    { clear. induction cvs as [|v r IH]; simpl; [reflexivity|]. rewrite IH, ones_rev_if. reflexivity. }
    rewrite Ec. unfold tails_val. lia.
Qed.

Theorem add_sum_pow2_m1_correct fresh basis be xs s cols s' :
  run fresh (add_sum_pow2_m1 basis be xs) s = Ok (cols, s') ->
  ext (bc s) (bc s') /\ inputs (bc s') = inputs (bc s) /\ outputs (bc s') = outputs (bc s) /\
  ((2 <= length xs)%nat -> exists b, resolve_basis basis = Ok b) /\
  (forall b, resolve_basis basis = Ok b -> exists g, adds (t_of b) (bc s) (bc s') g) /\
  (exists l0, hd_error cols = Some [l0]) /\
  forall c, ext (bc s') c -> has_gate c "" = false -> forall asg xv, bvals c asg xs xv ->
    exists cvs, Forall2 (bvals c asg) cols cvs /\ cols_val cvs = ones xv.
Proof.
  intros H. pose proof (run_ext _ _ _ _ _ H) as Hx.
  split; [exact Hx|]. split; [apply ext_inputs, Hx|].
  unfold add_sum_pow2_m1 in H. destruct xs as [|x0 [|x1 xs']].
  - discriminate.
  - apply run_ret_inv in H as (-> & ->). split; [reflexivity|]. split; [simpl; lia|].
    split; [intros b _; exists 0%nat; apply adds_refl|]. split; [exists x0; destruct be; reflexivity|].
    intros c _ _ asg xv Hxv. inversion Hxv as [|? v0 ? ? V0 Hn]; subst. inversion Hn; subst.
    exists [rev_if be [v0]]. split; [constructor; [apply bvals_rev_if; constructor; [exact V0|constructor]|constructor]|].
    simpl. rewrite ones_rev_if. simpl. lia.
  - set (xs := x0 :: x1 :: xs') in *.
    apply run_bind_inv in H as (b & s0 & Hb & H). apply run_resolve in Hb as (Hb & ->).
    apply run_bind_inv in H as ([labels out] & s1 & Hblocks & H).
    apply (blocks_outer_BR fresh basis b Hb) in Hblocks as (HBR & Len). cbn [fst] in Len.
    apply run_bind_inv in H as (out2 & s2 & Hlast & H).
    (* the state after the optional final cell, as one more BR step to a one-element list *)
    assert (exists rest blk b0, out2 = rest ++ [blk] /\ hd_error blk = Some b0 /\
              BR b (s, (xs, [])) (s2, ([b0], out2))) as (rest & blk & b0 & Eo & Hb0 & HBR2).
    { destruct labels as [|x [|y [|z labels']]].
      - exfalso. destruct HBR as (_ & _ & _ & _ & NE & _). apply NE; [discriminate|reflexivity].
      - apply run_ret_inv in Hlast as (-> & ->).
        destruct HBR as (O1 & X1 & A1 & K1 & N1 & V1).
        destruct (K1 (or_introl eq_refl)) as [->|(rest & blk & b0 & pre & Eo & Hb0 & El)].
        + rewrite columns_unfold in H. simpl in H. discriminate.
        + destruct pre as [|p pre]; [|destruct pre; discriminate]. injection El as ->.
          exists rest, blk, b0. split; [exact Eo|]. split; [exact Hb0|].
          unfold BR. repeat split; auto.
      - assert (cell2_spec (t_of b) (match b with AIG => 3 | XAIG => 2 end)%nat
                           (match b with AIG => add_sum2_aig | XAIG => add_sum2 end)) as C2.
        { destruct b; [apply add_sum2_cell|apply add_sum2_aig_cell]. }
        apply run_bind_inv in Hlast as (blk & s3 & Hcell & Hlast).
        apply run_bind_inv in Hlast as (b0 & s4 & Hn & Hlast). apply run_ret_inv in Hlast as (-> & ->).
        apply nthP_inv in Hn as (Hn & ->).
        assert (run fresh ((match b with AIG => add_sum2_aig | XAIG => add_sum2 end) [x; y]) s1 = Ok (blk, s3)) as Hcell'
          by (destruct b; exact Hcell).
        pose proof (run_ext _ _ _ _ _ Hcell') as X3.
        apply C2 in Hcell' as (sx & cy & -> & O3 & A3 & V3). injection Hn as <-.
        exists out, [sx; cy], sx. split; [reflexivity|]. split; [reflexivity|].
        eapply BR_trans; [exact HBR|].
        unfold BR. split; [exact O3|]. split; [exact X3|]. split; [eexists; exact A3|].
        split; [intros _; right; exists out, [sx; cy], sx, []; auto|]. split; [discriminate|].
        intros c Hc asg S0 ovs HS HO.
        apply gsum_inv_cons in HS as (vx & t0 & (bx & Vx & ->) & HS & ->).
        apply gsum_inv_cons in HS as (vy & t1 & (by_ & Vy & ->) & HS & ->). apply gsum_inv_nil in HS as ->.
        destruct (V3 c Hc asg _ _ Vx Vy) as (vs & vc & Vs & Vc & E).
        exists (Z.b2z vs), (ovs ++ [[vs; vc]]). split; [apply gsum_single, vsolo_intro, Vs|]. split.
        + apply Forall2_app_single; [exact HO|]. constructor; [exact Vs|constructor; [exact Vc|constructor]].
        + rewrite tails_val_app. unfold tails_val at 3. simpl. lia.
      - simpl in Len. lia. }
    apply (pow2_finish fresh be out2 rest blk b0 s2 cols s' Eo Hb0) in H as (-> & Hshape & Vfin).
    destruct HBR2 as (O & _ & A & _ & _ & V).
    split; [exact O|]. split; [intros _; exists b; exact Hb|].
    split; [intros b' Hb'; assert (b' = b) as -> by congruence; exact A|].
    split; [exact Hshape|].
    intros c Hc E0 asg xv Hxv.
      destruct (V c Hc asg (ones xv) []) as (S1 & ovs & HS1 & HO & E); [apply bvals_gsum, Hxv|constructor|].
      destruct (Vfin c asg ovs E0 HO) as (v0 & cvs & V0 & Hhd & Hcv & Ecv).
      apply gsum_inv_cons in HS1 as (vb & t0 & (bb & Vb & ->) & HS1 & ->). apply gsum_inv_nil in HS1 as ->.
      assert (bb = v0) as -> by (eapply bval_fun; eassumption).
      exists cvs. split; [exact Hcv|]. unfold tails_val at 1 in E. simpl in E. lia.
Qed.
