(* T16 tie for C17, second half: NormalizationInfo.denormalize and its helpers (Generated/NormAlgGen.v) against
   Model/Db.v.  See Proofs/NormAlgGen.v for gen_of_norm and to_db. *)
Require Import Cirbo.Model.Base Cirbo.Model.Gate Cirbo.Model.Circuit Cirbo.Model.BitIO Cirbo.Model.Db.
Require Import Cirbo.Generated.CircuitCore Cirbo.Generated.CodecAlgGen Cirbo.Generated.NormAlgGen.
Require Import Cirbo.Proofs.CircuitCoreGen Cirbo.Proofs.NormAlgGen.

(* ---- the Python built-ins of the prelude on natural indices ---- *)
Lemma den_py_index_nat {A} (l : list A) i : py_index l (Z.of_nat i) = nth_res l i.
Proof.
  unfold py_index, py_len.
  destruct (Z.ltb_spec (Z.of_nat i) (- Z.of_nat (length l))) as [H|H]; [lia|].
  destruct (Z.leb_spec (Z.of_nat (length l)) (Z.of_nat i)) as [H1|H1]; simpl.
  - unfold nth_res. assert (E : nth_error l i = None) by (apply nth_error_None; lia).
    rewrite E. reflexivity.
  - destruct (Z.ltb_spec (Z.of_nat i) 0) as [H2|H2]; [lia|]. rewrite Nat2Z.id. reflexivity.
Qed.

Lemma den_list_set_nat_eq {A} (l : list A) i v : list_set_nat l i v = Db.list_set l i v.
Proof.
  revert i; induction l as [|y ys IH]; intros [|i]; simpl; try reflexivity; rewrite IH; reflexivity.
Qed.

Lemma den_list_set_oob {A} (l : list A) i v : (length l <= i)%nat -> Db.list_set l i v = Err PyIndexError.
Proof.
  revert i; induction l as [|y ys IH]; intros [|i] H; simpl in *; try reflexivity; [lia|].
  rewrite IH by lia. reflexivity.
Qed.

Lemma den_py_list_set_nat {A} (l : list A) i v : py_list_set l (Z.of_nat i) v = Db.list_set l i v.
Proof.
  unfold py_list_set, py_len.
  destruct (Z.ltb_spec (Z.of_nat i) (- Z.of_nat (length l))) as [H|H]; [lia|].
  destruct (Z.leb_spec (Z.of_nat (length l)) (Z.of_nat i)) as [H1|H1]; simpl.
  - rewrite den_list_set_oob by lia. reflexivity.
  - destruct (Z.ltb_spec (Z.of_nat i) 0) as [H2|H2]; [lia|]. rewrite Nat2Z.id.
    apply den_list_set_nat_eq.
Qed.

Lemma den_combine_seq {A B} (f : A -> B) (l : list A) k :
  combine (map (fun i => (0 + Z.of_nat i)%Z) (seq k (length l))) (map f l)
  = map (fun p => (Z.of_nat (fst p), f (snd p))) (enumerate_from k l).
Proof.
  revert k; induction l as [|x r IH]; intros k; simpl; [reflexivity|].
  rewrite IH. reflexivity.
Qed.

Lemma den_py_enumerate_map {A B} (f : A -> B) (l : list A) :
  py_enumerate (map f l) = map (fun p => (Z.of_nat (fst p), f (snd p))) (enumerate_from 0 l).
Proof.
  unfold py_enumerate, py_range, py_len.
  rewrite Z.sub_0_r, Nat2Z.id, map_length. apply den_combine_seq.
Qed.

Lemma den_py_len_eqb {A B} (l1 : list A) (l2 : list B) :
  Z.eqb (py_len l1) (py_len l2) = (length l1 =? length l2)%nat.
Proof.
  unfold py_len.
  destruct (Z.eqb_spec (Z.of_nat (length l1)) (Z.of_nat (length l2))) as [H|H];
    destruct (Nat.eqb_spec (length l1) (length l2)) as [H1|H1]; try reflexivity; lia.
Qed.

Lemma den_list_set_app {A} (done : list A) x r v :
  Db.list_set (done ++ x :: r) (length done) v = Ok (done ++ v :: r).
Proof.
  induction done as [|y ys IH]; simpl; [reflexivity|]. rewrite IH. reflexivity.
Qed.

(* ---- res / dbres plumbing ---- *)
Lemma den_bind_ret {A} (r : res A) : (do x <- r; Ok x) = r.
Proof. destruct r; reflexivity. Qed.

Lemma den_to_db_lift {A} (r : res A) :
  (forall e, r = Err e -> e <> TruthTableBadShapeError) -> to_db r = lift r.
Proof.
  destruct r as [a|e]; intros H; [reflexivity|].
  specialize (H e eq_refl). destruct e; try reflexivity. congruence.
Qed.

Lemma den_to_db_bind {A B} (r : res A) (f : A -> res B) :
  to_db (do x <- r; f x) = dbdo x <- to_db r; to_db (f x).
Proof. destruct r as [a|e]; simpl; [reflexivity|]. destruct e; reflexivity. Qed.

Lemma den_foldM_ext {A S} (f g : S -> A -> res S) l s :
  (forall s x, f s x = g s x) -> foldM f l s = foldM g l s.
Proof.
  intros H; revert s; induction l as [|x xs IH]; intros s; simpl; [reflexivity|].
  rewrite H. destruct (g s x); simpl; [apply IH|reflexivity].
Qed.

Lemma den_foldM_err {A S} (P : err -> Prop) (f : S -> A -> res S) l s e :
  (forall s x e, f s x = Err e -> P e) -> foldM f l s = Err e -> P e.
Proof.
  intros H; revert s; induction l as [|x xs IH]; intros s; simpl; [discriminate|].
  destruct (f s x) as [s'|e'] eqn:E; simpl.
  - apply IH.
  - intros E'; inversion E'; subst. eapply H; eassumption.
Qed.

Lemma den_mapM_err {A B} (P : err -> Prop) (f : A -> res B) l e :
  (forall x e, f x = Err e -> P e) -> mapM f l = Err e -> P e.
Proof.
  intros H; induction l as [|x xs IH]; simpl; [discriminate|].
  destruct (f x) as [y|e'] eqn:E; simpl.
  - destruct (mapM f xs) as [ys|e'']; simpl; [discriminate|].
    intros E'; inversion E'; subst. apply IH. reflexivity.
  - intros E'; inversion E'; subst. eapply H; eassumption.
Qed.

(* ---- which errors the hand model's pieces raise ---- *)
Lemma den_nth_res_err {A} (l : list A) i e : nth_res l i = Err e -> e = PyIndexError.
Proof. unfold nth_res. destruct (nth_error l i); [discriminate|]. congruence. Qed.

Lemma den_list_set_err {A} (l : list A) i v e : Db.list_set l i v = Err e -> e = PyIndexError.
Proof.
  revert i; induction l as [|y ys IH]; intros [|i]; simpl; try congruence.
  destruct (Db.list_set ys i v) eqn:E; simpl; [discriminate|].
  intros E'; inversion E'; subst. eapply IH; eassumption.
Qed.

Lemma den_order_list_loop_err ordered old acc e :
  order_list_loop ordered old acc = Err e -> e = CircuitGateIsAbsentError.
Proof.
  revert old acc; induction ordered as [|x xs IH]; intros old acc; simpl; [discriminate|].
  destruct (memb x old); [apply IH|congruence].
Qed.

Lemma den_order_outputs_err c outs e : order_outputs c outs = Err e -> e = CircuitGateIsAbsentError.
Proof.
  unfold order_outputs, order_list.
  destruct (order_list_loop outs (outputs c) []) as [[new old]|e'] eqn:E; simpl.
  - destruct (length new =? length (outputs c))%nat; simpl; discriminate.
  - intros E'; inversion E'; subst. eapply den_order_list_loop_err; eassumption.
Qed.

Lemma den_check_gates_exist_err ls c e : check_gates_exist ls c = Err e -> e = CircuitValidationError.
Proof.
  induction ls as [|l ls IH]; simpl; [discriminate|].
  destruct (has_gate c l); [exact IH|congruence].
Qed.

Lemma den_emplace_gate_err c l t ops e : emplace_gate c l t ops = Err e -> e = CircuitValidationError.
Proof.
  unfold emplace_gate, check_label_doesnt_exist.
  destruct (has_gate c l); simpl; [congruence|].
  destruct (check_gates_exist ops c) eqn:E; simpl; [discriminate|].
  intros E'; inversion E'; subst. eapply den_check_gates_exist_err; eassumption.
Qed.

Lemma den_negate_gate_err c g e : negate_gate c g = Err e -> e = CircuitValidationError.
Proof.
  unfold negate_gate. destruct (has_gate c _); [discriminate|].
  destruct (emplace_gate c _ NOT [g]) eqn:E; simpl; [discriminate|].
  intros E'; inversion E'; subst. eapply den_emplace_gate_err; eassumption.
Qed.

(* ---- _negate_gate ---- *)
Lemma den_memb_keys {V} (d : dict V) l : memb l (map fst d) = dmem d l.
Proof.
  unfold dmem. induction d as [|[k v] d IH]; simpl; [reflexivity|].
  destruct (leqb l k); [reflexivity|exact IH].
Qed.

Lemma gen__negate_gate_eq c g :
  gen__negate_gate c g = do r <- negate_gate c g; Ok (snd r, fst r).
Proof.
  unfold gen__negate_gate, negate_gate, has_gate.
  rewrite den_memb_keys, gen_emplace_gate_eq.
  destruct (dmem (gates c) _); simpl; [reflexivity|].
  destruct (emplace_gate c _ NOT [g]); reflexivity.
Qed.

(* ---- _undo_outputs_deletion ---- *)
Lemma den_undo_loop c todo : forall done : list label,
  foldM (fun (v_original_outputs : list label) '((v_i, v_mapped_index) : Z * Z) =>
          do t1 <- py_index (outputs c) v_mapped_index;
          do v_original_outputs <- py_list_set v_original_outputs v_i t1;
          Ok v_original_outputs)
        (map (fun p => (Z.of_nat (fst p), Z.of_nat (snd p))) (enumerate_from (length done) todo))
        (done ++ map (fun _ => EmptyString) todo)
  = do outs <- mapM (fun m => nth_res (outputs c) m) todo; Ok (done ++ outs).
Proof.
  induction todo as [|m todo IH]; intros done; simpl.
  - rewrite !app_nil_r. reflexivity.
  - rewrite den_py_index_nat.
    destruct (nth_res (outputs c) m) as [o|e]; simpl; [|reflexivity].
    rewrite den_py_list_set_nat, den_list_set_app. simpl.
    replace (S (length done)) with (length (done ++ [o])) by (rewrite app_length; simpl; lia).
    replace (done ++ o :: map (fun _ => EmptyString) todo)
      with ((done ++ [o]) ++ map (fun _ => EmptyString) todo) by (rewrite <- app_assoc; reflexivity).
    rewrite IH.
    destruct (mapM (fun m0 => nth_res (outputs c) m0) todo); simpl; [|reflexivity].
    rewrite <- app_assoc. reflexivity.
Qed.

Lemma gen_undo_outputs_deletion_eq ni c :
  gen_NormalizationInfo__undo_outputs_deletion (gen_of_norm ni) c = undo_outputs_deletion ni c.
Proof.
  unfold gen_NormalizationInfo__undo_outputs_deletion, undo_outputs_deletion, gen_of_norm.
  cbn [NormalizationInfo_mapping].
  rewrite den_py_enumerate_map, map_map.
  pose proof (den_undo_loop c (mapping ni) []) as H. cbn [length app] in H.
  rewrite H.
  destruct (mapM (fun m => nth_res (outputs c) m) (mapping ni)); reflexivity.
Qed.

(* ---- _unsort_outputs ---- *)
Lemma den_unsort_loop c (l : list (nat * nat)) : forall acc : list label,
  foldM (fun (v_unsorted_outputs : list label) '((v_original_index, v_sorted_index) : Z * Z) =>
          do t1 <- py_index (outputs c) v_original_index;
          do v_unsorted_outputs <- py_list_set v_unsorted_outputs v_sorted_index t1;
          Ok v_unsorted_outputs)
        (map (fun p => (Z.of_nat (fst p), Z.of_nat (snd p))) l) acc
  = foldM (fun (acc : list label) (ks : nat * nat) =>
             do o <- nth_res (outputs c) (fst ks); Db.list_set acc (snd ks) o) l acc.
Proof.
  induction l as [|[a b] l IH]; intros acc; simpl; [reflexivity|].
  rewrite den_py_index_nat.
  destruct (nth_res (outputs c) a) as [o|e]; simpl; [|reflexivity].
  rewrite den_py_list_set_nat, den_bind_ret.
  destruct (Db.list_set acc b o); simpl; [apply IH|reflexivity].
Qed.

Lemma gen_unsort_outputs_eq ni c :
  to_db (gen_NormalizationInfo__unsort_outputs (gen_of_norm ni) c) = unsort_outputs ni c.
Proof.
  unfold gen_NormalizationInfo__unsort_outputs, unsort_outputs, gen_of_norm.
  cbn [NormalizationInfo_permutation].
  rewrite den_py_len_eqb, map_length.
  destruct (length (permutation ni) =? length (outputs c))%nat; simpl; [|reflexivity].
  rewrite den_py_enumerate_map, den_unsort_loop, den_to_db_bind.
  rewrite den_to_db_lift.
  2:{ intros e He. pattern e. eapply den_foldM_err; [|exact He].
      intros s x e0. simpl.
      destruct (nth_res (outputs c) (fst x)) eqn:E; simpl; intros E'.
      - apply den_list_set_err in E'. subst; discriminate.
      - inversion E'; subst. apply den_nth_res_err in E. subst; discriminate. }
  destruct (foldM _ _ _) as [un|e]; simpl; [|reflexivity].
  rewrite gen_order_outputs_eq, den_bind_ret.
  apply den_to_db_lift. intros e He. apply den_order_outputs_err in He. subst; discriminate.
Qed.

(* ---- _denormalize_outputs ---- *)
Lemma gen_denormalize_outputs_eq ni c :
  to_db (gen_NormalizationInfo__denormalize_outputs (gen_of_norm ni) c) = denormalize_outputs ni c.
Proof.
  unfold gen_NormalizationInfo__denormalize_outputs, denormalize_outputs, gen_of_norm.
  cbn [NormalizationInfo_negations].
  rewrite den_py_len_eqb.
  destruct (length (outputs c) =? length (negations ni))%nat; simpl; [|reflexivity].
  rewrite den_to_db_bind.
  erewrite den_foldM_ext.
  2:{ intros [c1 acc] [o n]. cbn [fst snd]. destruct n.
      - rewrite gen__negate_gate_eq.
        instantiate (1 := fun (st : circuit * list label) (on : label * bool) =>
                    let '(c1, acc) := st in
                    if snd on then do r <- negate_gate c1 (fst on); Ok (fst r, acc ++ [snd r])
                    else Ok (c1, acc ++ [fst on])).
        cbn [fst snd]. destruct (negate_gate c1 o) as [[c' l]|e]; reflexivity.
      - reflexivity. }
  rewrite den_to_db_lift.
  2:{ intros e He. pattern e. eapply den_foldM_err; [|exact He].
      intros [c1 acc] [o n] e0. cbn [fst snd]. destruct n; [|discriminate].
      destruct (negate_gate c1 o) eqn:E; simpl; [discriminate|].
      intros E'; inversion E'; subst. apply den_negate_gate_err in E. subst; discriminate. }
  destruct (foldM _ _ _) as [[c' outs]|e]; reflexivity.
Qed.

(* denormalize: for every object built by the constructor and every circuit *)
Theorem gen_denormalize_eq ni c :
  to_db (gen_NormalizationInfo_denormalize (gen_of_norm ni) c) = denormalize ni c.
Proof.
  unfold gen_NormalizationInfo_denormalize, denormalize.
  change (NormalizationInfo_negations (gen_of_norm ni)) with (Some (negations ni)).
  change (NormalizationInfo_permutation (gen_of_norm ni)) with (Some (map Z.of_nat (permutation ni))).
  change (NormalizationInfo_mapping (gen_of_norm ni)) with (Some (map Z.of_nat (mapping ni))).
  cbv iota beta.
  rewrite gen_undo_outputs_deletion_eq, den_to_db_bind.
  rewrite den_to_db_lift.
  2:{ intros e He. unfold undo_outputs_deletion in He.
      destruct (mapM (fun m => nth_res (outputs c) m) (mapping ni)) eqn:E; simpl in He; [discriminate|].
      inversion He; subst. pattern e. eapply den_mapM_err; [|exact E].
      intros x e0 H0. apply den_nth_res_err in H0. subst; discriminate. }
  destruct (undo_outputs_deletion ni c) as [c1|e]; simpl; [|reflexivity].
  rewrite den_to_db_bind, gen_unsort_outputs_eq.
  destruct (unsort_outputs ni c1) as [c2|e]; simpl; [|reflexivity].
  rewrite den_bind_ret. apply gen_denormalize_outputs_eq.
Qed.
