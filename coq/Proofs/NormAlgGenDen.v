(* T16 tie for C17, second half: NormalizationInfo.denormalize and its helpers (Generated/NormAlgGen.v) against
   Model/Db.v.  See Proofs/NormAlgGen.v for gen_of_norm and to_db. *)
Require Import Cirbo.Model.Base Cirbo.Model.Gate Cirbo.Model.Circuit Cirbo.Model.BitIO Cirbo.Model.Db.
Require Import Cirbo.Generated.CircuitCore Cirbo.Generated.CodecAlgGen Cirbo.Generated.NormAlgGen.
Require Import Cirbo.Proofs.CircuitCoreGen Cirbo.Proofs.NormAlgGen.

Lemma gen__negate_gate_eq c g :
  gen__negate_gate c g = do r <- negate_gate c g; Ok (snd r, fst r).
Admitted.

Lemma gen_undo_outputs_deletion_eq ni c :
  gen_NormalizationInfo__undo_outputs_deletion (gen_of_norm ni) c = undo_outputs_deletion ni c.
Admitted.

Lemma gen_unsort_outputs_eq ni c :
  to_db (gen_NormalizationInfo__unsort_outputs (gen_of_norm ni) c) = unsort_outputs ni c.
Admitted.

Lemma gen_denormalize_outputs_eq ni c :
  to_db (gen_NormalizationInfo__denormalize_outputs (gen_of_norm ni) c) = denormalize_outputs ni c.
Admitted.

(* denormalize: for every object built by the constructor and every circuit *)
Theorem gen_denormalize_eq ni c :
  to_db (gen_NormalizationInfo_denormalize (gen_of_norm ni) c) = denormalize ni c.
Admitted.
