(* C07, part 7 (definitions; the computations are in ArithSumStructA/B/C.v): structural facts by kernel computation (vm_compute) on the model's netlist for
   every size up to a stated bound: the generator returns Ok (the fuel suffices, the sentinel
   branch is not taken), the documented gate-count bound of the XAIG scheduler
   (4.5 * n - 2 * m; the AIG / naive bounds are proved for all sizes in ArithSumNFacts /
   ArithSumWFacts), the number of result bits, the basis set of the added gates.
   The runs are on the bare circuit with inputs i0000, i0001, ... and uuid labels new_0001, ... *)
Require Import Cirbo.Model.Base Cirbo.Model.Gate Cirbo.Model.Den Cirbo.Model.Circuit
  Cirbo.Model.Eval Cirbo.Model.Sem Cirbo.Model.Builder.
Require Import Cirbo.Model.ArithSub Cirbo.Model.ArithSum2 Cirbo.Model.ArithSumN Cirbo.Model.ArithSumW
  Cirbo.Model.ArithGen Cirbo.Model.SumCases.
Require Import Cirbo.Proofs.ArithSumCells.

Definition in_label (k : N) : label := ("i" ++ hex4 k)%string.
Fixpoint in_labels (n : nat) (k : N) : list label :=
  match n with O => [] | S m => in_label k :: in_labels m (N.succ k) end.
Definition bare (n : nat) : res circuit := circuit_with_inputs (in_labels n 0).

Definition added (c c' : circuit) : list (label * gate) := skipn (size c) (gates c').

(* g <= 4.5 * n - 2 * m   /   g <= 7 * n - 3 * m   /   g <= 5 * n - 3 * m *)
Definition bound_of (b : gen_basis) (naive : bool) (g m n : nat) : bool :=
  match b, naive with
  | XAIG, false => (2 * N.of_nat g + 4 * N.of_nat m <=? 9 * N.of_nat n)%N
  | XAIG, true => (N.of_nat g + 3 * N.of_nat m <=? 5 * N.of_nat n)%N
  | AIG, _ => (N.of_nat g + 3 * N.of_nat m <=? 7 * N.of_nat n)%N
  end.

(* number of binary digits of n *)
Definition bitlen (n : nat) : nat := N.to_nat (N.size (N.of_nat n)).

Definition nbits_struct_ok (b : gen_basis) (n : nat) : bool :=
  match bare n with
  | Ok c =>
    match run hex_label (add_sum_n_bits (BEnum b) false (in_labels n 0)) (mkB c 1) with
    | Ok (rs, s') =>
      let ng := added c (bc s') in
      bound_of b false (length ng) (length rs) n
      && forallb (fun kg => t_of b (gtyp (snd kg))) ng
      && Nat.eqb (length rs) (bitlen n) && nodupb rs
    | Err _ => false
    end
  | Err _ => false
  end.

Definition easy_struct_ok (n : nat) : bool :=
  match bare n with
  | Ok c =>
    match run hex_label (add_sum_n_bits_easy false (in_labels n 0)) (mkB c 1) with
    | Ok (rs, s') => Nat.eqb (length rs) (bitlen n) && nodupb rs
    | Err _ => false
    end
  | Err _ => false
  end.

Definition pow2_struct_ok (b : gen_basis) (n : nat) : bool :=
  match bare n with
  | Ok c =>
    match run hex_label (add_sum_pow2_m1 (BEnum b) false (in_labels n 0)) (mkB c 1) with
    | Ok (cols, s') =>
      forallb (fun kg => t_of b (gtyp (snd kg))) (added c (bc s'))
      && match cols with [_] :: _ => true | _ => false end
    | Err _ => false
    end
  | Err _ => false
  end.

(* ---- weighted sums: an enumerated family of weight vectors ------------------------------------- *)
Fixpoint vectors (len : nat) (ws : list N) : list (list N) :=
  match len with
  | O => [[]]
  | S k => flat_map (fun v => map (fun w => w :: v) ws) (vectors k ws)
  end.

(* all weight vectors of length 1..6 over the weights 0..3 *)
Definition small_vectors : list (list N) :=
  flat_map (fun k => vectors k [0; 1; 2; 3]%N) (seq 1 6).

(* the weights of the partial products of an n x m multiplication *)
Definition pp_shape (n m : nat) : list N :=
  flat_map (fun i => map (fun j => N.of_nat (i + j)) (seq 0 m)) (seq 0 n).
Definition pp_shapes (k : nat) : list (list N) :=
  flat_map (fun n => map (fun m => pp_shape n m) (seq 1 k)) (seq 1 k).

Fixpoint strictly_increasing (l : list N) : bool :=
  match l with
  | a :: ((b :: _) as r) => (a <? b)%N && strictly_increasing r
  | _ => true
  end.

Definition weighted_struct_ok (naive : bool) (b : gen_basis) (ws : list N) : bool :=
  let n := length ws in
  match bare n with
  | Ok c =>
    let p := if naive then add_sum_n_weighted_bits_naive (BEnum b) (combine ws (in_labels n 0))
             else add_sum_n_weighted_bits (BEnum b) (combine ws (in_labels n 0)) in
    match run hex_label p (mkB c 1) with
    | Ok (res, s') =>
      let ng := added c (bc s') in
      bound_of b naive (length ng) (length res) n
      && forallb (fun kg => t_of b (gtyp (snd kg))) ng
      && strictly_increasing (map fst res)
    | Err _ => false
    end
  | Err _ => false
  end.

Definition weighted_all_ok (ws : list N) : bool :=
  weighted_struct_ok false XAIG ws && weighted_struct_ok false AIG ws
  && weighted_struct_ok true XAIG ws && weighted_struct_ok true AIG ws.

