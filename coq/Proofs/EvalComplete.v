(* C01 (b), completeness half:
   - the relational semantics Eval assigns a value to every gate of a well-formed circuit
     whose arities are accepted by the operators (existence; uniqueness is
     SemFacts.Eval_functional);
   - evaluate_full_circuit is total on such circuits and reports a value, the Eval value,
     for EVERY gate. *)
Require Import Cirbo.Model.Base Cirbo.Model.Gate Cirbo.Model.Den Cirbo.Model.Circuit
        Cirbo.Model.Traverse Cirbo.Model.Eval Cirbo.Model.Sem Cirbo.Model.WF.
Require Import Cirbo.Generated.Operators Cirbo.Generated.GateTypes.
Require Import Cirbo.Proofs.DictFacts Cirbo.Proofs.OpFacts Cirbo.Proofs.SemFacts
        Cirbo.Proofs.EvalFacts Cirbo.Proofs.TopSortWF.
Require Import Coq.Sorting.Permutation.

(* ---- the generated operators accept exactly the arities of the denotation, for
   three-valued arguments as well ---- *)
Lemma operator_of_accepts g vs :
  den_accepts g (length vs) = true -> exists v, operator_of g vs = Ok v.
Proof.
  destruct g; simpl; try discriminate; eauto;
    destruct vs as [|a [|b [|x r]]]; simpl; try discriminate; eauto.
Qed.

Lemma operator_of_rejects g vs :
  den_accepts g (length vs) = false -> operator_of g vs = Err (arity_err g).
Proof.
  destruct g; simpl; try discriminate; try reflexivity;
    destruct vs as [|a [|b [|x r]]]; simpl; try discriminate; reflexivity.
Qed.

Lemma operator_of_ok_accepts g vs v :
  operator_of g vs = Ok v -> den_accepts g (length vs) = true.
Proof.
  intros H. destruct (den_accepts g (length vs)) eqn:E; [reflexivity|].
  rewrite (operator_of_rejects _ _ E) in H. discriminate.
Qed.

Lemma Forall2_length_eq {A B} (P : A -> B -> Prop) l m : Forall2 P l m -> length l = length m.
Proof. induction 1; simpl; congruence. Qed.

Lemma Forall_exists_Forall2 {A B} (P : A -> B -> Prop) l :
  Forall (fun x => exists y, P x y) l -> exists m, Forall2 P l m.
Proof.
  induction 1 as [|x l (y & Hy) _ (m & Hm)]; [exists []; constructor|].
  exists (y :: m); constructor; assumption.
Qed.

Lemma WF_inputs_are_input_gates c : WF c -> inputs_are_input_gates c.
Proof. intros H l Hl. apply (wf_inputs c H); exact Hl. Qed.

Lemma has_gate_dget c l : has_gate c l = true <-> exists g, dget (gates c) l = Some g.
Proof. rewrite has_gate_key. apply key_has_gate. Qed.

Lemma Eval_has_gate c a l v : Eval c a l v -> has_gate c l = true.
Proof. intros H; apply has_gate_dget. inversion H; subst; eauto. Qed.

(* ---- Goal 1: the semantics exists at every gate ---- *)
Theorem Eval_exists c a : WF c -> arity_ok c ->
  forall l, has_gate c l = true -> exists v, Eval c a l v.
Proof.
  intros Hwf Har. destruct (wf_acyclic c Hwf) as [rank Hrank].
  intros l. remember (rank l) as n eqn:En. revert l En.
  induction n as [n IH] using lt_wf_ind. intros l En Hl.
  apply has_gate_dget in Hl. destruct Hl as [g Hg].
  destruct (gtype_eq_dec (gtyp g) INPUT) as [Ht|Ht].
  - exists (aval a l). econstructor; eassumption.
  - assert (Hall : Forall (fun o => exists v, Eval c a o v) (gops g)).
    { apply Forall_forall. intros o Ho.
      apply (IH (rank o)) ; [subst n; eapply Hrank; eauto|reflexivity|].
      eapply (wf_ops c Hwf); eauto. }
    apply Forall_exists_Forall2 in Hall. destruct Hall as [vs Hvs].
    destruct (operator_of_accepts (gtyp g) vs) as [v Hv].
    { rewrite <- (Forall2_length_eq _ _ _ Hvs). apply (Har l g Hg Ht). }
    exists v. eapply EvalGate; eassumption.
Qed.

(* the semantics is a total function on the gates of the circuit *)
Corollary Eval_exists_unique c a : WF c -> arity_ok c ->
  forall l, has_gate c l = true -> exists v, Eval c a l v /\ forall v', Eval c a l v' -> v' = v.
Proof.
  intros Hwf Har l Hl. destruct (Eval_exists c a Hwf Har l Hl) as [v Hv].
  exists v; split; [exact Hv|]. intros v' Hv'. eapply Eval_functional; eassumption.
Qed.

(* arity_ok is necessary: a gate with a rejected arity has no value at all *)
Lemma Eval_needs_arity c a l g v :
  dget (gates c) l = Some g -> gtyp g <> INPUT -> Eval c a l v ->
  den_accepts (gtyp g) (length (gops g)) = true.
Proof.
  intros Hg Ht H. inversion H as [l' g' Hg' Ht'|l' g' vs v' Hg' Ht' Hops Hop]; subst;
    rewrite Hg in Hg'; injection Hg' as <-; [contradiction|].
  rewrite (Forall2_length_eq _ _ _ Hops). eapply operator_of_ok_accepts; eassumption.
Qed.

(* ---- Goal 2: evaluate_full_circuit is total and complete ---- *)
Lemma lookup_vals_ok (d : assignment) ops :
  (forall o, In o ops -> dmem d o = true) -> exists vs, lookup_vals d ops = Ok vs.
Proof.
  unfold lookup_vals. induction ops as [|o ops IH]; intros H; simpl; [eauto|].
  assert (Ho := H o (or_introl eq_refl)). unfold dmem in Ho.
  destruct (dget d o) as [v|]; [|discriminate]. simpl.
  destruct IH as [vs Hvs]; [intros; apply H; right; assumption|].
  unfold assignment in *. rewrite Hvs. simpl. eauto.
Qed.

Lemma eval_gate_ok c a d l g :
  arity_ok c -> sound c a d -> dget (gates c) l = Some g -> gtyp g <> INPUT ->
  (forall o, In o (gops g) -> dmem d o = true) ->
  exists v, eval_gate d g = Ok v /\ Eval c a l v.
Proof.
  intros Har Hs Hg Ht Hops. unfold eval_gate.
  destruct (gtype_beq (gtyp g) INPUT) eqn:Eb; [apply gtype_beq_eq in Eb; contradiction|].
  destruct (lookup_vals_ok d (gops g) Hops) as [vs Hvs]. rewrite Hvs. simpl.
  pose proof (lookup_vals_sound c a d _ _ Hs Hvs) as Hf.
  destruct (operator_of_accepts (gtyp g) vs) as [v Hv].
  { rewrite <- (Forall2_length_eq _ _ _ Hf). apply (Har l g Hg Ht). }
  exists v. split; [exact Hv|]. eapply EvalGate; eassumption.
Qed.

Lemma init_assignment_mem c a l :
  dmem (init_assignment c a) l = dmem a l || memb l (inputs c).
Proof.
  unfold dmem, init_assignment. rewrite setdefaults_get.
  destruct (dget a l); [reflexivity|]. destruct (memb l (inputs c)); reflexivity.
Qed.

Definition full_step (c : circuit) (d : assignment) (l : label) : res assignment :=
  do g <- get_gate c l;
  if gtype_beq (gtyp g) INPUT then Ok d else
  do v <- eval_gate d g; Ok (dset d l v).

Lemma full_loop_complete c a : WF c -> arity_ok c ->
  forall order, (forall l1 x l2, order = l1 ++ x :: l2 -> forall b, In b (ops_of c x) -> In b l1) ->
  (forall x, In x order -> In x (dkeys (gates c))) ->
  forall l2 l1 d, order = l1 ++ l2 -> sound c a d ->
    (forall x, In x (inputs c) -> dmem d x = true) ->
    (forall x, In x l1 -> dmem d x = true) ->
    exists d', foldM (full_step c) l2 d = Ok d' /\ sound c a d' /\
               (forall x, dmem d x = true -> dmem d' x = true) /\
               (forall x, In x order -> dmem d' x = true).
Proof.
  intros Hwf Har order Hpre Hkeys. induction l2 as [|x l2 IH]; intros l1 d E Hs Hin Hl1.
  - exists d. simpl. split; [reflexivity|]. split; [exact Hs|]. split; [auto|].
    intros y Hy. apply Hl1. rewrite E, app_nil_r in Hy. exact Hy.
  - simpl. assert (Hx : In x (dkeys (gates c))) by (apply Hkeys; rewrite E; apply in_or_app; right; left; reflexivity).
    destruct (get_gate_key c x Hx) as (g & Hgg & Hg). unfold full_step at 1. rewrite Hgg. simpl.
    destruct (gtype_beq (gtyp g) INPUT) eqn:Eb.
    + apply gtype_beq_eq in Eb.
      assert (Hxi : In x (inputs c)) by (apply (wf_inputs c Hwf); eauto).
      destruct (IH (l1 ++ [x]) d) as (d' & H1 & H2 & H3 & H4); try assumption.
      * rewrite <- app_assoc. exact E.
      * intros y Hy. apply in_app_or in Hy. destruct Hy as [Hy|[<-|[]]]; [apply Hl1; exact Hy|apply Hin; exact Hxi].
      * exists d'. auto.
    + assert (Ht : gtyp g <> INPUT) by (intros Ht; rewrite Ht in Eb; discriminate).
      destruct (eval_gate_ok c a d x g Har Hs Hg Ht) as (v & Hv & Hev).
      { intros o Ho. apply Hl1. eapply Hpre; [exact E|]. unfold ops_of. rewrite Hg. exact Ho. }
      rewrite Hv. simpl.
      destruct (IH (l1 ++ [x]) (dset d x v)) as (d' & H1 & H2 & H3 & H4).
      * rewrite <- app_assoc. exact E.
      * apply sound_dset; assumption.
      * intros y Hy. rewrite dmem_dset, (Hin y Hy). apply orb_true_r.
      * intros y Hy. rewrite dmem_dset. apply in_app_or in Hy.
        destruct Hy as [Hy|[<-|[]]]; [rewrite (Hl1 y Hy); apply orb_true_r|rewrite leqb_refl; reflexivity].
      * exists d'. split; [exact H1|]. split; [exact H2|]. split; [|exact H4].
        intros y Hy. apply H3. rewrite dmem_dset, Hy. apply orb_true_r.
Qed.

Theorem evaluate_full_circuit_complete c a : WF c -> arity_ok c -> assigns_inputs_only c a ->
  exists d, evaluate_full_circuit c a = Ok d /\
            forall l, has_gate c l = true -> exists v, dget d l = Some v /\ Eval c a l v.
Proof.
  intros Hwf Har Ha. destruct (top_sort_complete c Hwf) as (order & Ho & Hperm & _).
  pose proof (WF_inputs_are_input_gates c Hwf) as Hin.
  destruct (full_loop_complete c a Hwf Har order) with (l2 := order) (l1 := @nil label)
    (d := init_assignment c a) as (d' & H1 & H2 & _ & H4).
  - intros l1 x l2 E. eapply top_sort_true_prefix; eassumption.
  - intros x Hx. eapply Permutation_in; eassumption.
  - reflexivity.
  - apply init_assignment_sound; assumption.
  - intros x Hx. rewrite init_assignment_mem. apply memb_In in Hx. rewrite Hx. apply orb_true_r.
  - intros x [].
  - exists d'. split.
    + unfold evaluate_full_circuit. rewrite Ho. simpl. exact H1.
    + intros l Hl. apply has_gate_key in Hl.
      assert (Hm : dmem d' l = true) by (apply H4; eapply Permutation_in; [apply Permutation_sym; exact Hperm|exact Hl]).
      unfold dmem in Hm. destruct (dget d' l) as [v|] eqn:E; [|discriminate].
      exists v. split; [reflexivity|]. apply H2; exact E.
Qed.

(* the keys of the result are exactly the gates *)
Theorem evaluate_full_circuit_keys c a d : WF c -> assigns_inputs_only c a ->
  evaluate_full_circuit c a = Ok d -> forall l, dmem d l = true -> has_gate c l = true.
Proof.
  intros Hwf Ha Hd l Hl. unfold dmem in Hl. destruct (dget d l) as [v|] eqn:E; [|discriminate].
  eapply Eval_has_gate. eapply evaluate_full_circuit_sound; eauto using WF_inputs_are_input_gates.
Qed.

(* packaged: totality + exactness in one statement *)
Corollary evaluate_full_circuit_exact c a : WF c -> arity_ok c -> assigns_inputs_only c a ->
  exists d, evaluate_full_circuit c a = Ok d /\
            forall l v, dget d l = Some v <-> (has_gate c l = true /\ Eval c a l v).
Proof.
  intros Hwf Har Ha. destruct (evaluate_full_circuit_complete c a Hwf Har Ha) as (d & Hd & Hall).
  exists d. split; [exact Hd|]. intros l v. split.
  - intros H. assert (Eval c a l v) as He
      by (eapply evaluate_full_circuit_sound; eauto using WF_inputs_are_input_gates).
    split; [eapply Eval_has_gate; exact He|exact He].
  - intros [Hl He]. destruct (Hall l Hl) as (v' & Hv' & He').
    rewrite (Eval_functional _ _ _ _ _ He He'). exact Hv'.
Qed.

(* executable reflection of arity_ok (for concrete circuits / non-vacuity examples) *)
Definition arity_okb (c : circuit) : bool :=
  forallb (fun kg : label * gate =>
             gtype_beq (gtyp (snd kg)) INPUT || den_accepts (gtyp (snd kg)) (length (gops (snd kg))))
          (gates c).

Lemma arity_okb_sound c : arity_okb c = true -> arity_ok c.
Proof.
  intros H l g Hg Ht. unfold arity_okb in H. rewrite forallb_forall in H.
  specialize (H (l, g) (dget_In _ _ _ Hg)). simpl in H. apply orb_true_iff in H.
  destruct H as [H|H]; [apply gtype_beq_eq in H; contradiction|exact H].
Qed.
