(* C06 completeness: every circuit of the class `Valid` is the decoding of an assignment
   that satisfies the CNF.  The assignment is read off the circuit. *)
Require Import Cirbo.Model.Base Cirbo.Model.Gate Cirbo.Model.Den Cirbo.Model.Search.
Require Import Cirbo.Proofs.SearchFacts.
From Coq Require Import FinFun.
Local Open Scope nat_scope.

Definition asg_of_ckt (n : nat) (c : sckt) : asg := fun v =>
  match v with
  | VS g a b => (n <=? g) && match nth_error (ck_gates c) (g - n) with
                             | Some x => (ga x =? a) && (gb x =? b) | None => false end
  | VG h g => match nth_error (ck_outs c) h with Some o => o =? g | None => false end
  | VX g t => value n (ck_gates c) t g
  | VF g p q => (n <=? g) && match nth_error (ck_gates c) (g - n) with
                             | Some x => tt_get (gtt x) p q | None => false end
  end.

Lemma tt4_neq_witness (s t : tt4) : s <> t -> exists p q, tt_get s p q <> tt_get t p q.
Proof.
  intros H. destruct (Bool.bool_dec (tt_get s false false) (tt_get t false false)) as [E1|N]; [|eauto].
  destruct (Bool.bool_dec (tt_get s false true) (tt_get t false true)) as [E2|N]; [|eauto].
  destruct (Bool.bool_dec (tt_get s true false) (tt_get t true false)) as [E3|N]; [|eauto].
  destruct (Bool.bool_dec (tt_get s true true) (tt_get t true true)) as [E4|N]; [|eauto].
  exfalso. apply H. apply tt4_ext. intros [] []; assumption.
Qed.

Lemma list_eq_map_seq {A} (d : A) (l : list A) : forall n, l = map (fun g => nth (g - n) l d) (seq n (length l)).
Proof.
  induction l as [|x l IH]; intros n; simpl; [reflexivity|].
  rewrite Nat.sub_diag. f_equal. rewrite (IH (S n)) at 1.
  apply map_ext_in. intros g Hg. apply in_seq in Hg.
  replace (g - n) with (S (g - S n)) by lia. reflexivity.
Qed.

Lemma sckt_eta (x : sckt) : mkCkt (ck_gates x) (ck_outs x) = x.
Proof. destruct x; reflexivity. Qed.

Section Complete.
  Variable sp : spec.
  Variable c : sckt.
  Hypothesis Hwf : spec_wf sp.
  Hypothesis Hv : Valid sp c.

  Let n := sp_n sp.
  Let r := sp_r sp.
  Let s := asg_of_ckt n c.

  Lemma gate_at g : In g (internal sp) ->
    exists x, nth_error (ck_gates c) (g - n) = Some x /\ ga x < gb x /\ gb x < g /\
              In (gtt x) (sp_basis sp) /\ (sp_norm sp = true -> tt_get (gtt x) false false = false).
  Proof.
    intros Hg. apply in_internal in Hg. fold n r in Hg.
    destruct (nth_error (ck_gates c) (g - n)) as [x|] eqn:E.
    - exists x. split; [reflexivity|]. destruct (v_gates sp c Hv _ _ E) as [H1 [H2 [H3 H4]]]. fold n in H2.
      repeat split; try assumption; lia.
    - apply nth_error_None in E. rewrite (v_len sp c Hv) in E. fold r in E. lia.
  Qed.

  Lemma s_VS g x a b : In g (internal sp) -> nth_error (ck_gates c) (g - n) = Some x ->
    s (VS g a b) = true <-> (a = ga x /\ b = gb x).
  Proof.
    intros Hg E. apply in_internal in Hg. fold n r in Hg. unfold s, asg_of_ckt. rewrite E.
    rewrite !andb_true_iff, Nat.leb_le, !Nat.eqb_eq. intuition lia.
  Qed.

  Lemma s_VF g x p q : In g (internal sp) -> nth_error (ck_gates c) (g - n) = Some x ->
    s (VF g p q) = tt_get (gtt x) p q.
  Proof.
    intros Hg E. apply in_internal in Hg. fold n r in Hg. unfold s, asg_of_ckt. rewrite E.
    replace (n <=? g) with true by (symmetry; apply Nat.leb_le; lia). reflexivity.
  Qed.

  Lemma out_at_h h : h < sp_m sp -> exists o, nth_error (ck_outs c) h = Some o /\ In o (internal sp).
  Proof.
    intros Hh. destruct (nth_error (ck_outs c) h) as [o|] eqn:E.
    - exists o. split; [reflexivity|]. apply in_internal. apply (v_outs sp c Hv). eapply nth_error_In, E.
    - apply nth_error_None in E. rewrite (v_outs_len sp c Hv) in E. lia.
  Qed.

  Lemma sat_fam_preds : Sat s (fam_preds sp).
  Proof.
    unfold fam_preds. apply Sat_flat_map. intros g Hg.
    destruct (gate_at g Hg) as [x [E [H1 [H2 _]]]].
    rewrite <- (map_map (fun ab => VS g (fst ab) (snd ab)) pos).
    apply exactly_one_complete with (v := VS g (ga x) (gb x)).
    - apply Injective_map_NoDup; [|apply NoDup_pairs].
      intros [a b] [a' b'] Eq. simpl in Eq. inversion Eq. reflexivity.
    - apply in_map_iff. exists (ga x, gb x). split; [reflexivity|apply in_pairs; lia].
    - apply (s_VS g x); auto.
    - intros w Hw Hs. apply in_map_iff in Hw. destruct Hw as [[a b] [<- _]]. simpl in *.
      apply (s_VS g x) in Hs; auto. destruct Hs as [-> ->]. reflexivity.
  Qed.

  Lemma sat_fam_outs : Sat s (fam_outs sp).
  Proof.
    unfold fam_outs. apply Sat_flat_map. intros h Hh. apply in_seq in Hh.
    destruct (out_at_h h) as [o [E Ho]]; [lia|].
    rewrite <- (map_map (fun g => VG h g) pos).
    apply exactly_one_complete with (v := VG h o).
    - apply Injective_map_NoDup; [|apply seq_NoDup]. intros a b Eq. inversion Eq. reflexivity.
    - apply in_map, Ho.
    - unfold s, asg_of_ckt. rewrite E. apply Nat.eqb_refl.
    - intros w Hw Hs. apply in_map_iff in Hw. destruct Hw as [g [<- _]].
      unfold s, asg_of_ckt in Hs. rewrite E in Hs. apply Nat.eqb_eq in Hs. subst. reflexivity.
  Qed.

  Lemma sat_fam_inputs : Sat s (fam_inputs sp).
  Proof.
    unfold fam_inputs. apply Sat_flat_map. intros i Hi. apply in_seq in Hi. apply Sat_map. intros t _.
    apply unit_holds. unfold s, asg_of_ckt. fold n. apply value_input. lia.
  Qed.

  Lemma sat_fam_gates : Sat s (fam_gates sp).
  Proof.
    unfold fam_gates. apply Sat_flat_map. intros g Hg. apply Sat_flat_map. intros [fp sd] Hab.
    apply Sat_flat_map. intros A _. apply Sat_flat_map. intros B _. apply Sat_flat_map. intros C _.
    apply Sat_map. intros t _. simpl. unfold gate_clause.
    destruct (gate_at g Hg) as [x [E [H1 [H2 _]]]].
    destruct (s (VS g fp sd)) eqn:ES.
    2:{ exists (neg (VS g fp sd)). split; [simpl; auto|exact ES]. }
    apply (s_VS g x) in ES; auto. destruct ES as [-> ->].
    destruct (Bool.bool_dec (s (VX g t)) A) as [EA|NA].
    2:{ exists (negb A, VX g t). split; [simpl; auto|]. unfold lit_holds; cbn [fst snd].
        destruct (s (VX g t)), A; try reflexivity; exfalso; apply NA; reflexivity. }
    destruct (Bool.bool_dec (s (VX (ga x) t)) B) as [EB|NB].
    2:{ exists (negb B, VX (ga x) t). split; [simpl; auto|]. unfold lit_holds; cbn [fst snd].
        destruct (s (VX (ga x) t)), B; try reflexivity; exfalso; apply NB; reflexivity. }
    destruct (Bool.bool_dec (s (VX (gb x) t)) C) as [EC|NC].
    2:{ exists (negb C, VX (gb x) t). split; [simpl; auto 6|]. unfold lit_holds; cbn [fst snd].
        destruct (s (VX (gb x) t)), C; try reflexivity; exfalso; apply NC; reflexivity. }
    exists (A, VF g B C). split; [simpl; auto 6|]. unfold lit_holds; cbn [fst snd].
    rewrite (s_VF g x) by auto. rewrite <- EA, <- EB, <- EC. unfold s, asg_of_ckt.
    apply in_internal in Hg. fold n r in Hg.
    pose proof (value_gate n (ck_gates c) t (g - n) x E) as Hvg.
    replace (n + (g - n)) with g in Hvg by lia. symmetry. apply Hvg; lia.
  Qed.

  Lemma sat_fam_outvals : Sat s (fam_outvals sp).
  Proof.
    unfold fam_outvals. apply Sat_flat_map. intros h Hh. apply Sat_flat_map. intros t Ht.
    apply in_seq in Ht. destruct (out_at sp h t) as [v|] eqn:Eo; [|apply Sat_nil].
    apply Sat_map. intros g Hg.
    destruct (s (VG h g)) eqn:EG.
    2:{ exists (neg (VG h g)). split; [simpl; auto|exact EG]. }
    exists (v, VX g t). split; [simpl; auto|]. unfold lit_holds; cbn [fst snd].
    unfold s, asg_of_ckt in EG. destruct (nth_error (ck_outs c) h) as [o|] eqn:En; [|discriminate].
    apply Nat.eqb_eq in EG. subst o. unfold s, asg_of_ckt.
    apply (v_agree sp c Hv h t v g); [lia|exact Eo|exact En].
  Qed.

  Lemma sat_fam_basis : Sat s (fam_basis sp).
  Proof.
    unfold fam_basis. apply Sat_flat_map. intros g Hg. apply Sat_map. intros op Hop.
    destruct (gate_at g Hg) as [x [E [_ [_ [Hb _]]]]].
    apply (wf_forb sp Hwf) in Hop.
    assert (Hne : gtt x <> op) by (intros Eq; rewrite Eq in Hb; contradiction).
    destruct (tt4_neq_witness _ _ Hne) as [p [q Hpq]].
    exists (negb (tt_get op p q), VF g p q). split.
    - unfold forb_clause. apply in_map_iff. exists (p, q). split; [reflexivity|apply in_pq4].
    - unfold lit_holds; cbn [fst snd]. rewrite (s_VF g x) by auto.
      destruct (tt_get (gtt x) p q), (tt_get op p q); try reflexivity; exfalso; apply Hpq; reflexivity.
  Qed.

  Lemma sat_fam_norm : Sat s (fam_norm sp).
  Proof.
    unfold fam_norm. destruct (sp_norm sp) eqn:En; [|apply Sat_nil].
    apply Sat_map. intros g Hg. apply unit_holds.
    destruct (gate_at g Hg) as [x [E [_ [_ [_ Hn]]]]]. rewrite (s_VF g x) by auto. auto.
  Qed.

  Lemma sat_cons k : In k (sp_pre sp ++ sp_post sp) -> Sat s (cons_clauses k).
  Proof.
    intros Hk. pose proof (v_cons sp c Hv k Hk) as Hh. pose proof (wf_cons sp Hwf k Hk) as Hok.
    unfold constraint_ok in Hok. apply andb_true_iff in Hok. destruct Hok as [Hc Ht].
    destruct k as [g fp sd gt|from to]; cbn [cons_clauses cons_holds] in *.
    - unfold check_constraint in Hc. fold n r in Hc.
      destruct ((n <=? g) && (g <? n + r)) eqn:Eg; simpl in Hc; [|discriminate].
      apply andb_true_iff in Eg. destruct Eg as [Eg1 Eg2]. apply Nat.leb_le in Eg1. apply Nat.ltb_lt in Eg2.
      assert (Hg : In g (internal sp)) by (apply in_internal; fold n r; lia).
      destruct Hh as [x [E [Hp Hty]]]. fold n in E.
      apply Sat_app. split.
      + destruct fp as [f|], sd as [d|]; simpl in Hp.
        * destruct Hp as [<- <-]. apply Sat_cons. split; [|apply Sat_nil].
          apply unit_holds. apply (s_VS g x); auto.
        * apply Sat_map. intros [a b] Hin. apply filter_In in Hin. destruct Hin as [_ Hr].
          apply unit_holds. cbn [fst snd]. destruct (s (VS g a b)) eqn:ES; [|reflexivity]. exfalso.
          apply (s_VS g x) in ES; auto. destruct ES as [-> ->].
          unfold reads_neither in Hr; simpl in Hr. apply andb_true_iff in Hr.
          rewrite !negb_true_iff, !Nat.eqb_neq in Hr. destruct Hp; tauto.
        * apply Sat_map. intros [a b] Hin. apply filter_In in Hin. destruct Hin as [_ Hr].
          apply unit_holds. cbn [fst snd]. destruct (s (VS g a b)) eqn:ES; [|reflexivity]. exfalso.
          apply (s_VS g x) in ES; auto. destruct ES as [-> ->].
          unfold reads_neither in Hr; simpl in Hr. apply andb_true_iff in Hr.
          rewrite !negb_true_iff, !Nat.eqb_neq in Hr. destruct Hp; tauto.
        * apply Sat_nil.
      + destruct gt as [t|]; [|apply Sat_nil]. rewrite Hty.
        apply Sat_map. intros [p q] _. apply unit_holds. cbn [fst snd]. apply (s_VF g x); auto.
    - unfold check_constraint in Hc. fold n r in Hc.
      destruct (negb (from <? n + r)); [discriminate|].
      destruct ((n <=? to) && (to <? n + r)) eqn:Eg; simpl in Hc; [|discriminate].
      destruct (to <=? from) eqn:Eo; [discriminate|]. apply Nat.leb_gt in Eo.
      apply andb_true_iff in Eg. destruct Eg as [Eg1 Eg2]. apply Nat.leb_le in Eg1. apply Nat.ltb_lt in Eg2.
      assert (Hg : In to (internal sp)) by (apply in_internal; fold n r; lia).
      destruct Hh as [x [E [Ha Hb]]]. fold n in E.
      apply Sat_map. intros o Ho. apply filter_In in Ho. destruct Ho as [_ Hne].
      apply negb_true_iff, Nat.eqb_neq in Hne.
      apply unit_holds. cbn [fst snd]. destruct (s (VS to (Nat.min o from) (Nat.max o from))) eqn:ES; [|reflexivity].
      exfalso. apply (s_VS to x) in ES; auto. destruct ES as [E1 E2]. lia.
  Qed.

  Lemma sat_encode : Sat s (encode sp).
  Proof.
    unfold encode, default_cnf. rewrite !Sat_app, !Sat_flat_map.
    split; [intros k Hk; apply sat_cons, in_app_iff; auto|].
    split; [|intros k Hk; apply sat_cons, in_app_iff; auto].
    repeat split.
    - apply sat_fam_preds.
    - apply sat_fam_outs.
    - apply sat_fam_inputs.
    - apply sat_fam_gates.
    - apply sat_fam_outvals.
    - apply sat_fam_basis.
    - apply sat_fam_norm.
  Qed.

  Lemma decode_gate_at g : In g (internal sp) ->
    decode_gate s g = Ok (nth (g - n) (ck_gates c) (mkSG 0 0 (false, false, false, false))).
  Proof.
    intros Hg. destruct (gate_at g Hg) as [x [E [H1 [H2 _]]]].
    rewrite (nth_error_nth _ _ _ E). unfold decode_gate.
    rewrite (find_pair_unique s g (ga x) (gb x)).
    - cbn [fst snd]. rewrite !(s_VF g x) by auto. rewrite tt4_eta. destruct x; reflexivity.
    - lia.
    - apply (s_VS g x); auto.
    - intros a' b' _ Hs. apply (s_VS g x) in Hs; auto.
  Qed.

  Lemma decode_ckt : decode sp s = Ok c.
  Proof.
    unfold decode.
    rewrite (mapM_total _ (fun g => nth (g - n) (ck_gates c) (mkSG 0 0 (false, false, false, false))))
      by (intros g Hg; apply decode_gate_at, Hg).
    simpl. transitivity (Ok (mkCkt (ck_gates c) (ck_outs c))); [|rewrite sckt_eta; reflexivity].
    f_equal. f_equal.
    - unfold internal. fold n. rewrite <- (v_len sp _ Hv). symmetry. apply list_eq_map_seq.
    - rewrite (flat_map_single _ (fun h => nth (h - 0) (ck_outs c) 0)).
      + rewrite <- (v_outs_len sp _ Hv). symmetry. apply list_eq_map_seq.
      + intros h Hh. apply in_seq in Hh. destruct (out_at_h h) as [o [E Ho]]; [lia|].
        rewrite Nat.sub_0_r. rewrite (nth_error_nth _ _ _ E).
        apply filter_unique; [apply seq_NoDup|exact Ho| |].
        * unfold s, asg_of_ckt. rewrite E. apply Nat.eqb_refl.
        * intros g _ Hs. unfold s, asg_of_ckt in Hs. rewrite E in Hs.
          apply Nat.eqb_eq in Hs. auto.
  Qed.
End Complete.

Theorem encode_complete sp c : spec_wf sp -> Valid sp c ->
  exists s, Sat s (encode sp) /\ decode sp s = Ok c.
Proof.
  intros Hwf Hv. exists (asg_of_ckt (sp_n sp) c). split; [apply sat_encode|apply decode_ckt]; assumption.
Qed.
