(* C08, part 4: the level-by-level summation through add_sum_pow2_m1 that add_mul_pow2_m1 and
   add_square_pow2_m1 share.  At level i the new bits of that level (`feed`) and the pending
   columns out[j][i - j] of the earlier levels are summed; the result is a list of columns whose
   first holds the single result bit of level i.  Invariant:
       target = (result bits so far) + 2^i * (value of the remaining feeds + pending columns). *)
Require Import Cirbo.Model.Base Cirbo.Model.Gate Cirbo.Model.Den Cirbo.Model.Circuit
  Cirbo.Model.Eval Cirbo.Model.Sem Cirbo.Model.Builder.
Require Import Cirbo.Generated.ArithTables Cirbo.Generated.ArithCells.
Require Import Cirbo.Model.ArithSub Cirbo.Model.ArithSum2 Cirbo.Model.ArithSumN Cirbo.Model.ArithSumW
  Cirbo.Model.ArithMul.
Require Import Cirbo.Proofs.DictFacts Cirbo.Proofs.BuilderFacts Cirbo.Proofs.ArithFacts
  Cirbo.Proofs.ArithSumCells Cirbo.Proofs.ArithSumPow2Facts Cirbo.Proofs.ArithMulFacts
  Cirbo.Proofs.ArithMulDiag Cirbo.Proofs.ArithMulDadda.
Open Scope Z_scope.

Notation ovals c asg := (Forall2 (Forall2 (bvals c asg))).

(* the loop with the bits of each level given explicitly *)
Fixpoint gen_levels (feeds : list (list label)) (out : list (list (list label)))
  : prog (list (list (list label))) :=
  match feeds with
  | [] => Ret out
  | f :: rest => bdo o <- pow2_level (f ++ gather (length out) out); gen_levels rest (out ++ [o])
  end.

Lemma run_bind_ext fresh {A B} (p : prog A) (k k' : A -> prog B) s :
  (forall a s1, run fresh (k a) s1 = run fresh (k' a) s1) -> run fresh (Bind p k) s = run fresh (Bind p k') s.
Proof. intros H. cbn [run]. destruct (run fresh p s) as [[a s1]|e]; [apply H|reflexivity]. Qed.

Lemma pow2_levels_gen fresh : forall k act pend out s,
  run fresh (pow2_levels k act pend out) s = run fresh (gen_levels (diagonals k act pend) out) s.
Proof.
  induction k as [|k IH]; intros act pend out s; cbn [pow2_levels diagonals gen_levels]; [reflexivity|].
  apply run_bind_ext. intros o s1. apply IH.
Qed.

(* ---- pending columns ------------------------------------------------------------------------------------------ *)
(* sum over the earlier levels j of the columns d, d + 1, ... of out[j], d = i - j *)
Fixpoint pv (d : nat) (ovs : list (list (list bool))) : Z :=
  match ovs with
  | [] => 0
  | ov :: rest => cols_val (skipn d ov) + pv (pred d) rest
  end.

Fixpoint gatherv (d : nat) (ovs : list (list (list bool))) : list bool :=
  match ovs with
  | [] => []
  | ov :: rest => nth d ov [] ++ gatherv (pred d) rest
  end.

Lemma pv_nonneg ovs : forall d, 0 <= pv d ovs.
Proof. induction ovs as [|ov ovs IH]; intros d; simpl; [lia|]. pose proof (cols_val_nonneg (skipn d ov)). pose proof (IH (pred d)). lia. Qed.

Lemma cols_val_skipn d : forall ov, cols_val (skipn d ov) = ones (nth d ov []) + 2 * cols_val (skipn (S d) ov).
Proof.
  induction d as [|d IH]; intros ov.
  - destruct ov as [|v ov]; simpl; lia.
  - destruct ov as [|v ov]; [simpl; lia|]. change (skipn (S d) (v :: ov)) with (skipn d ov).
    change (skipn (S (S d)) (v :: ov)) with (skipn (S d) ov). change (nth (S d) (v :: ov) []) with (nth d ov []).
    apply IH.
Qed.

Lemma pv_step ovs : forall d, (length ovs <= d)%nat -> pv d ovs = ones (gatherv d ovs) + 2 * pv (S d) ovs.
Proof.
  induction ovs as [|ov ovs IH]; intros d Hd; [simpl; lia|].
  cbn [pv gatherv pred]. rewrite ones_app, cols_val_skipn. simpl length in Hd.
  destruct d as [|d]; [lia|]. cbn [pred]. rewrite (IH d) by lia. lia.
Qed.

Lemma pv_app ovs : forall d ov, pv d (ovs ++ [ov]) = pv d ovs + cols_val (skipn (d - length ovs) ov).
Proof.
  induction ovs as [|o ovs IH]; intros d ov; cbn [app pv length].
  - rewrite Nat.sub_0_r. lia.
  - rewrite IH. replace (pred d - length ovs)%nat with (d - S (length ovs))%nat by lia. lia.
Qed.

Lemma gather_vals c asg out : forall ovs d, ovals c asg out ovs -> bvals c asg (gather d out) (gatherv d ovs).
Proof.
  induction out as [|o out IH]; intros ovs d H; inversion H as [|? ov ? ovs' Ho Hout]; subst; simpl; [constructor|].
  apply bvals_app; [|apply IH, Hout].
  clear -Ho. revert d. induction Ho as [|col cv o' ov' Hc _ IHo]; intros [|d]; simpl; try constructor; auto.
Qed.

(* the result bit of a level *)
Definition rbit (ov : list (list bool)) : bool := match ov with (b :: _) :: _ => b | _ => false end.
Definition resval (ovs : list (list (list bool))) : Z := bits_val (map rbit ovs).
Definition single_head (o : list (list label)) : Prop := exists l, hd_error o = Some [l].

Lemma resval_app ovs ov : resval (ovs ++ [ov]) = resval ovs + 2 ^ Z.of_nat (length ovs) * Z.b2z (rbit ov).
Proof. unfold resval. rewrite map_app, bits_val_app, map_length. simpl. lia. Qed.

Lemma single_head_val c asg o ov : single_head o -> mvals c asg o ov ->
  cols_val ov = Z.b2z (rbit ov) + 2 * cols_val (skipn 1 ov).
Proof.
  intros (l & Hl) H. destruct H as [|col cv o' ov' Hc Ho]; [discriminate|]. simpl in Hl. injection Hl as ->.
  inversion Hc as [|? b ? cv' Hb Hc']; subst. inversion Hc'; subst. simpl. lia.
Qed.

(* ---- one level ---------------------------------------------------------------------------------------------------- *)
Lemma pow2_level_spec fresh inp s o s' :
  run fresh (pow2_level inp) s = Ok (o, s') ->
  ext (bc s) (bc s') /\ outputs (bc s') = outputs (bc s) /\ single_head o /\
  forall c, ext (bc s') c -> has_gate c "" = false -> forall asg inpv, bvals c asg inp inpv ->
    exists ov, mvals c asg o ov /\ cols_val ov = ones inpv.
Proof.
  intros H. unfold pow2_level in H.
  assert (Hgen : run fresh (add_sum_pow2_m1 (BEnum XAIG) false inp) s = Ok (o, s') ->
    ext (bc s) (bc s') /\ outputs (bc s') = outputs (bc s) /\ single_head o /\
    forall c, ext (bc s') c -> has_gate c "" = false -> forall asg inpv, bvals c asg inp inpv ->
      exists ov, mvals c asg o ov /\ cols_val ov = ones inpv).
  { intros H0. apply add_sum_pow2_m1_correct in H0 as (Hx & _ & O & _ & _ & Hh & V).
    split; [exact Hx|]. split; [exact O|]. split; [exact Hh|]. exact V. }
  destruct inp as [|x [|y inp']]; [apply Hgen, H| |apply Hgen, H].
  apply run_ret_inv in H as (-> & ->). split; [apply ext_refl|]. split; [reflexivity|].
  split; [exists x; reflexivity|].
  intros c _ _ asg inpv Hv. inversion Hv as [|? b ? r Hb Hr]; subst. inversion Hr; subst.
  exists [[b]]. split; [constructor; [constructor; [exact Hb|constructor]|constructor]|]. simpl. lia.
Qed.

(* ---- all levels ---------------------------------------------------------------------------------------------------- *)
Lemma gen_levels_spec fresh : forall feeds out s out' s',
  run fresh (gen_levels feeds out) s = Ok (out', s') ->
  ext (bc s) (bc s') /\ outputs (bc s') = outputs (bc s) /\
  length out' = (length out + length feeds)%nat /\
  (Forall single_head out -> Forall single_head out') /\
  forall c, ext (bc s') c -> has_gate c "" = false -> forall asg fvs ovs,
    Forall single_head out -> mvals c asg feeds fvs -> ovals c asg out ovs ->
    exists ovs' Rem, ovals c asg out' ovs' /\ 0 <= Rem /\
      resval ovs + 2 ^ Z.of_nat (length out) * (cols_val fvs + pv (length out) ovs)
      = resval ovs' + 2 ^ Z.of_nat (length out + length feeds) * Rem.
Proof.
  induction feeds as [|f feeds IH]; intros out s out' s' H; cbn [gen_levels] in H.
  - apply run_ret_inv in H as (-> & ->). split; [apply ext_refl|]. split; [reflexivity|].
    split; [simpl; lia|]. split; [auto|].
    intros c _ _ asg fvs ovs _ Hf Ho. inversion Hf; subst.
    exists ovs, (pv (length out) ovs). split; [exact Ho|]. split; [apply pv_nonneg|].
    simpl. rewrite Nat.add_0_r. lia.
  - apply run_bind_inv in H as (o & s1 & Ho & H).
    apply pow2_level_spec in Ho as (Hx1 & O1 & Hh1 & V1).
    apply IH in H as (Hx2 & O2 & L2 & F2 & V2).
    split; [eapply ext_trans; eassumption|]. split; [congruence|].
    split; [rewrite L2, app_length; simpl; lia|].
    split; [intros Hs; apply F2, Forall_app; split; [exact Hs|constructor; [exact Hh1|constructor]]|].
    intros c Hc He asg fvs ovs Hs Hf Hout. inversion Hf as [|? fv ? fvs' Hfv Hfeeds]; subst.
    assert (ext (bc s1) c) as Hc1 by (eapply ext_trans; eassumption).
    destruct (V1 c Hc1 He asg (fv ++ gatherv (length out) ovs)) as (ov & Hov & Eov).
    { apply bvals_app; [exact Hfv|apply gather_vals, Hout]. }
    destruct (V2 c Hc He asg fvs' (ovs ++ [ov])) as (ovs' & Rem & Hovs' & HRem & E).
    { apply Forall_app; split; [exact Hs|constructor; [exact Hh1|constructor]]. }
    { exact Hfeeds. }
    { apply Forall2_app; [exact Hout|constructor; [exact Hov|constructor]]. }
    exists ovs', Rem. split; [exact Hovs'|]. split; [exact HRem|].
    pose proof (Forall2_length _ _ _ Hout) as Lo.
    assert (length (out ++ [o]) = S (length out)) as La by (rewrite app_length; simpl; lia).
    rewrite La in E. cbn [length].
    replace (length out + S (length feeds))%nat with (S (length out) + length feeds)%nat by lia.
    rewrite <- E. rewrite resval_app, pv_app, <- Lo, Nat.sub_succ_l, Nat.sub_diag by lia.
    rewrite (pv_step ovs (length out)) by lia.
    rewrite (single_head_val _ _ _ _ Hh1 Hov) in Eov. rewrite ones_app in Eov.
    cbn [cols_val]. rewrite (pow2_succ (length out)). lia.
Qed.

(* reading the result bits *)
Lemma first_first_all fresh c asg : forall out s res s' ovs,
  run fresh (mapP first_first out) s = Ok (res, s') -> Forall single_head out -> ovals c asg out ovs ->
  s' = s /\ length res = length out /\ bvals c asg res (map rbit ovs).
Proof.
  induction out as [|o out IH]; intros s res s' ovs H Hs Ho; cbn [mapP] in H.
  - apply run_ret_inv in H as (-> & ->). inversion Ho; subst. repeat split. constructor.
  - apply run_bind_inv in H as (x & s1 & Hx & H). apply run_bind_inv in H as (r & s2 & Hr & H).
    apply run_ret_inv in H as (-> & ->). inversion Hs as [|? ? (l & Hl) Hs']; subst.
    inversion Ho as [|? ov ? ovs' Hov Hout]; subst.
    unfold first_first in Hx. apply run_bind_inv in Hx as (c0 & s3 & Hc0 & Hx).
    apply nthP_inv in Hc0 as (Ec0 & ->). apply nthP_inv in Hx as (Ex & ->).
    destruct o as [|col o']; [discriminate|]. simpl in Hl, Ec0. injection Hl as ->. injection Ec0 as <-.
    simpl in Ex. injection Ex as <-.
    destruct (IH _ _ _ _ Hr Hs' Hout) as (-> & L & V). split; [reflexivity|]. split; [simpl; congruence|].
    inversion Hov as [|? cv ? ov' Hcv Hov']; subst. inversion Hcv as [|? b ? cv' Hb Hcv']; subst.
    simpl. constructor; [exact Hb|exact V].
Qed.

Lemma first_first_len fresh : forall out s res s',
  run fresh (mapP first_first out) s = Ok (res, s') -> s' = s /\ length res = length out.
Proof.
  induction out as [|o out IH]; intros s res s' H; cbn [mapP] in H.
  - apply run_ret_inv in H as (-> & ->). split; reflexivity.
  - apply run_bind_inv in H as (x & s4 & Hx & H). apply run_bind_inv in H as (r & s5 & Hr & H).
    apply run_ret_inv in H as (-> & ->). unfold first_first in Hx.
    apply run_bind_inv in Hx as (c0 & s6 & Hc0 & Hx). apply nthP_inv in Hc0 as (_ & ->).
    apply nthP_inv in Hx as (_ & ->). apply IH in Hr as (-> & L). split; [reflexivity|simpl; congruence].
Qed.

(* ---- add_mul_pow2_m1 ------------------------------------------------------------------------------------------------ *)
Lemma nth0_all fresh : forall rows s out s',
  run fresh (mapP (fun row : list label => nthP row 0) rows) s = Ok (out, s') ->
  s' = s /\ Forall2 (fun row x => hd_error row = Some x) rows out.
Proof.
  induction rows as [|row rows IH]; intros s out s' H; cbn [mapP] in H.
  - apply run_ret_inv in H as (-> & ->). split; [reflexivity|constructor].
  - apply run_bind_inv in H as (x & s1 & Hx & H). apply run_bind_inv in H as (r & s2 & Hr & H).
    apply run_ret_inv in H as (-> & ->). apply nthP_inv in Hx as (Ex & ->).
    apply IH in Hr as (-> & F). split; [reflexivity|]. constructor; [|exact F].
    destruct row; [discriminate|exact Ex].
Qed.

Lemma heads_vals c asg : forall rows out rowsv,
  Forall2 (fun row x => hd_error row = Some x) rows out -> mvals c asg rows rowsv ->
  bvals c asg out (map (fun rv => hd false rv) rowsv).
Proof.
  induction rows as [|row rows IH]; intros out rowsv Hh Hv; inversion Hh; subst; inversion Hv; subst; [constructor|].
  simpl. constructor; [|apply IH; assumption].
  destruct row as [|x0 row']; [discriminate|].
  match goal with H : hd_error (x0 :: row') = Some _ |- _ => injection H as <- end.
  match goal with H : bvals c asg (x0 :: row') _ |- _ => inversion H; subst end. assumption.
Qed.

Definition mul_len (n m : nat) : nat := if ((n =? 1) || (m =? 1))%nat then (n + m - 1)%nat else (n + m)%nat.

Lemma bits_val_single_col a0 bv : bits_val (map (fun rv => hd false rv) (pp_vals [a0] bv)) = Z.b2z a0 * bits_val bv.
Proof.
  induction bv as [|vb bv IH]; [simpl; lia|].
  change (pp_vals [a0] (vb :: bv)) with ([(a0 && vb)%bool] :: pp_vals [a0] bv). cbn [map hd].
  rewrite !bits_val_cons, IH. destruct a0, vb; simpl; lia.
Qed.

Theorem add_mul_pow2_m1_correct fresh xs ys be s rs s' :
  run fresh (add_mul_pow2_m1 xs ys be) s = Ok (rs, s') ->
  ext (bc s) (bc s') /\ inputs (bc s') = inputs (bc s) /\ outputs (bc s') = outputs (bc s) /\
  length rs = mul_len (length xs) (length ys) /\
  forall c, ext (bc s') c -> has_gate c "" = false -> forall asg xv yv, bvals c asg xs xv -> bvals c asg ys yv ->
    exists rv, bvals c asg rs rv /\ decode be rv = decode be xv * decode be yv.
Proof.
  intros H. pose proof (run_ext _ _ _ _ _ H) as Hx. unfold add_mul_pow2_m1 in H. rewrite !rev_if_length in H.
  apply run_bind_inv in H as (cm & s1 & Hpp & H).
  apply pp_matrix_spec in Hpp as (Hx1 & O1 & L1 & F1 & V1). rewrite rev_if_length in L1, F1.
  split; [exact Hx|]. split; [apply ext_inputs, Hx|]. unfold mul_len.
  set (n := length xs) in *. set (m := length ys) in *.
  destruct (n =? 1)%nat eqn:En.
  { (* one bit in a: the column of products *)
    apply Nat.eqb_eq in En. cbn [orb].
    apply run_bind_inv in H as (out & s2 & Ho & H). apply run_ret_inv in H as (-> & ->).
    apply nth0_all in Ho as (-> & Fh).
    split; [exact O1|]. split; [rewrite rev_if_length, <- (Forall2_length _ _ _ Fh); lia|].
    intros c Hc _ asg xv yv Hxv Hyv.
    specialize (V1 c Hc asg _ _ (bvals_rev_if _ _ be _ _ Hxv) (bvals_rev_if _ _ be _ _ Hyv)).
    pose proof (heads_vals c asg _ _ _ Fh V1) as Vo.
    eexists. split; [apply bvals_rev_if, Vo|]. rewrite decode_rev_if.
    pose proof (bvals_length _ _ _ _ Hxv) as Lx. fold n in Lx. rewrite En in Lx.
    unfold decode. destruct (rev_if be xv) as [|a0 [|? ?]] eqn:Exv;
      try (apply (f_equal (@length bool)) in Exv; rewrite rev_if_length in Exv; simpl in Exv; lia).
    rewrite bits_val_single_col. simpl. lia. }
  destruct (m =? 1)%nat eqn:Em.
  { apply Nat.eqb_eq in Em. cbn [orb].
    apply run_bind_inv in H as (c0 & s2 & Hc0 & H). apply nthP_inv in Hc0 as (Ec0 & ->).
    apply run_ret_inv in H as (-> & ->).
    destruct cm as [|r0 [|r1 cm']]; simpl in L1; try lia. injection Ec0 as ->.
    inversion F1 as [|? ? Lr _]; subst.
    split; [exact O1|]. split; [rewrite rev_if_length; lia|].
    intros c Hc _ asg xv yv Hxv Hyv.
    specialize (V1 c Hc asg _ _ (bvals_rev_if _ _ be _ _ Hxv) (bvals_rev_if _ _ be _ _ Hyv)).
    pose proof (bvals_length _ _ _ _ Hyv) as Ly. fold m in Ly. rewrite Em in Ly.
    unfold decode. destruct (rev_if be yv) as [|b0 [|? ?]] eqn:Eyv;
      try (apply (f_equal (@length bool)) in Eyv; rewrite rev_if_length in Eyv; simpl in Eyv; lia).
    simpl in V1. inversion V1 as [|? ? ? ? Hr0 _]; subst.
    eexists. split; [apply bvals_rev_if, Hr0|]. rewrite rev_if_involutive, bits_val_and_row. simpl. lia. }
  cbn [orb].
  apply run_bind_inv in H as (c0 & s2 & Hc0 & H). apply nthP_inv in Hc0 as (_ & ->).
  apply run_bind_inv in H as (c00 & s2 & Hc00 & H). apply nthP_inv in Hc00 as (_ & ->).
  apply run_bind_inv in H as (out & s2 & Hl & H). apply run_bind_inv in H as (res & s3 & Hr & H).
  apply run_ret_inv in H as (-> & ->).
  rewrite pow2_levels_gen in Hl. apply gen_levels_spec in Hl as (Hx2 & O2 & L2 & F2 & V2).
  specialize (F2 (Forall_nil _)). rewrite diagonals_length in L2. simpl in L2.
  apply first_first_len in Hr as Hr'. destruct Hr' as (-> & Lres). rewrite L2 in Lres.
  split; [congruence|]. split; [rewrite rev_if_length; exact Lres|].
  intros c Hc He asg xv yv Hxv Hyv.
  assert (ext (bc s1) c) as Hc1 by (eapply ext_trans; eassumption).
  specialize (V1 c Hc1 asg _ _ (bvals_rev_if _ _ be _ _ Hxv) (bvals_rev_if _ _ be _ _ Hyv)).
  set (ppv := pp_vals (rev_if be xv) (rev_if be yv)) in *.
  destruct (V2 c Hc He asg (diagonals (n + m) [] ppv) []) as (ovs' & Rem & Hovs' & HRem & E).
  { constructor. } { apply diagonals_vals; [constructor|exact V1]. } { constructor. }
  destruct (first_first_all fresh c asg _ _ _ _ _ Hr F2 Hovs') as (_ & _ & Vres).
  exists (rev_if be (map rbit ovs')). split; [apply bvals_rev_if, Vres|]. rewrite decode_rev_if.
  destruct (diagonals_value (n + m) [] ppv) as (R & HR & Ed).
  unfold peel_val, rows_sum in Ed. simpl fold_right in Ed. unfold ppv in Ed. rewrite mval_pp in Ed.
  fold (resval ovs'). unfold resval at 1 in E. simpl in E. rewrite diagonals_length in E.
  change (Z.of_nat 0) with 0 in E. rewrite Z.pow_0_r in E.
  pose proof (bvals_length _ _ _ _ Hxv) as Lxv. pose proof (bvals_length _ _ _ _ Hyv) as Lyv.
  pose proof (product_bound (rev_if be xv) (rev_if be yv)) as Hb. rewrite !rev_if_length, <- Lxv, <- Lyv in Hb.
  fold n m in Hb.
  assert (length (map rbit ovs') = (n + m)%nat) as Lrb.
  { rewrite map_length, <- (Forall2_length _ _ _ Hovs'). exact L2. }
  pose proof (bits_val_range (map rbit ovs')) as Hrange. rewrite Lrb in Hrange.
  unfold decode. eapply (congruent_small (n + m) _ _ (Rem + R)); [exact Hrange|exact Hb|].
  unfold resval in E. fold ppv in Ed. unfold resval. lia.
Qed.
