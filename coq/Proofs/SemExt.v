(* Generic tools for semantic preservation proofs over the relational semantics Sem.Eval:
   - Eval_sim       : simulation along a renaming r, restricted to an operand-closed set P
   - Eval_agree     : Eval depends on the gate map only through dget, on the labels of an
                      operand-closed set; users / inputs list / outputs / blocks are ignored
   - Eval_extend    : adding gates under fresh labels keeps Eval of the existing gates
   - Eval_restrict  : conversely, removing gates nobody in P reads
   - Eval_redefine  : congruence, one gate is given another definition that computes the same
                      value from the values of the OLD operands (no acyclicity needed: the
                      induction is on the derivation)
   - Eval_exists    : on a well formed circuit whose arities are accepted every gate has a value
   - operator_of_accepts : den_accepts is exactly definedness of the generated operator *)
Require Import Cirbo.Model.Base Cirbo.Model.Gate Cirbo.Model.Den Cirbo.Model.Circuit Cirbo.Model.Eval
        Cirbo.Model.Sem Cirbo.Model.WF.
Require Import Cirbo.Generated.Operators Cirbo.Generated.GateTypes.
Require Import Cirbo.Proofs.DictFacts Cirbo.Proofs.WFBase Cirbo.Proofs.OpFacts Cirbo.Proofs.SemFacts.

(* ------------------------------------------------------------------ *)
(* Forall2 helpers *)
Lemma Forall2_map_l {A B C} (f : A -> B) (R : B -> C -> Prop) l m :
  Forall2 (fun x y => R (f x) y) l m <-> Forall2 R (map f l) m.
Proof.
  split.
  - induction 1; simpl; constructor; assumption.
  - revert m; induction l as [|x l IH]; simpl; intros m H; inversion H; subst; constructor; auto.
Qed.

Lemma Forall2_impl_In {A B} (R R' : A -> B -> Prop) l m :
  Forall2 R l m -> (forall x y, In x l -> R x y -> R' x y) -> Forall2 R' l m.
Proof.
  induction 1 as [|x y l m Hxy _ IH]; intros Himp; constructor.
  - apply Himp; [left; reflexivity|assumption].
  - apply IH; intros x' y' Hin; apply Himp; right; assumption.
Qed.

Lemma Forall2_exists {A B} (R : A -> B -> Prop) l :
  (forall x, In x l -> exists y, R x y) -> exists m, Forall2 R l m.
Proof.
  induction l as [|x l IH]; intros H; [exists []; constructor|].
  destruct (H x (or_introl eq_refl)) as [y Hy].
  destruct IH as [m Hm]; [intros x' Hx'; apply H; right; assumption|].
  exists (y :: m); constructor; assumption.
Qed.

Lemma Forall2_length' {A B} (R : A -> B -> Prop) l m : Forall2 R l m -> length l = length m.
Proof. induction 1; simpl; congruence. Qed.

(* ------------------------------------------------------------------ *)
(* simulation along a renaming *)
Section Sim.
  Variables (c c' : circuit) (a a' : assignment) (r : label -> label) (P : label -> Prop).
  Hypothesis Hclosed : forall l g o,
      P l -> dget (gates c) l = Some g -> gtyp g <> INPUT -> In o (gops g) -> P o.
  Hypothesis Hinput : forall l g,
      P l -> dget (gates c) l = Some g -> gtyp g = INPUT -> Eval c' a' (r l) (aval a l).
  Hypothesis Hgate : forall l g vs v,
      P l -> dget (gates c) l = Some g -> gtyp g <> INPUT ->
      Forall2 (Eval c a) (gops g) vs ->
      Forall2 (Eval c' a') (map r (gops g)) vs -> operator_of (gtyp g) vs = Ok v ->
      Eval c' a' (r l) v.

  Lemma Eval_sim l v : Eval c a l v -> P l -> Eval c' a' (r l) v.
  Proof.
    intros H; induction H as [l g Hg Ht|l g vs v Hg Ht Hops IH Hop] using Eval_ind2; intros HP.
    - eapply Hinput; eassumption.
    - eapply Hgate; try eassumption.
      apply (proj1 (Forall2_map_l r (Eval c' a') (gops g) vs)).
      eapply Forall2_impl_In; [exact IH|]. intros o w Hin Hw. apply Hw. eapply Hclosed; eassumption.
  Qed.
End Sim.

(* the structural instance: every gate of P is mapped to a gate of the same type whose
   operands are the images of its operands; INPUT gates keep their assigned value *)
Lemma Eval_sim_struct c c' a a' (r : label -> label) (P : label -> Prop) :
  (forall l g o, P l -> dget (gates c) l = Some g -> gtyp g <> INPUT -> In o (gops g) -> P o) ->
  (forall l g, P l -> dget (gates c) l = Some g ->
     exists g', dget (gates c') (r l) = Some g' /\ gtyp g' = gtyp g /\
                (gtyp g <> INPUT -> gops g' = map r (gops g))) ->
  (forall l g, P l -> dget (gates c) l = Some g -> gtyp g = INPUT -> aval a' (r l) = aval a l) ->
  forall l v, Eval c a l v -> P l -> Eval c' a' (r l) v.
Proof.
  intros Hcl Hg Ha. apply Eval_sim; [exact Hcl| |].
  - intros l g HP Hl Ht. destruct (Hg l g HP Hl) as (g' & Hg' & Ht' & _).
    rewrite <- (Ha l g HP Hl Ht). eapply EvalInput; [eassumption|congruence].
  - intros l g vs v HP Hl Ht _ Hvs Hop. destruct (Hg l g HP Hl) as (g' & Hg' & Ht' & Hops').
    eapply EvalGate; [eassumption|congruence|rewrite (Hops' Ht); exact Hvs|rewrite Ht'; exact Hop].
Qed.

(* Eval reads the circuit only through dget (gates c) on an operand-closed set, and the
   assignment only at the INPUT gates of that set *)
Lemma Eval_agree c c' a a' (P : label -> Prop) :
  (forall l g o, P l -> dget (gates c) l = Some g -> gtyp g <> INPUT -> In o (gops g) -> P o) ->
  (forall l g, P l -> dget (gates c) l = Some g -> dget (gates c') l = Some g) ->
  (forall l g, P l -> dget (gates c) l = Some g -> gtyp g = INPUT -> aval a' l = aval a l) ->
  forall l v, Eval c a l v -> P l -> Eval c' a' l v.
Proof.
  intros Hcl Hg Ha l v H HP.
  apply (Eval_sim_struct c c' a a' (fun x => x) P); try assumption.
  intros x g HPx Hx. exists g; split; [apply Hg; assumption|]. split; [reflexivity|].
  intros _; symmetry; apply map_id.
Qed.

(* same gate map (pointwise), same values at the INPUT gates: same semantics.  In particular
   users, the inputs list, outputs and blocks are irrelevant *)
Lemma Eval_same_gates c c' a a' :
  (forall l, dget (gates c') l = dget (gates c) l) ->
  (forall l g, dget (gates c) l = Some g -> gtyp g = INPUT -> aval a' l = aval a l) ->
  forall l v, Eval c a l v <-> Eval c' a' l v.
Proof.
  intros Hg Ha l v; split; intros H.
  - apply (Eval_agree c c' a a' (fun _ => True)); [tauto| | |exact H|exact I].
    + intros x g _ Hx; rewrite Hg; exact Hx.
    + intros x g _ Hx Ht; eapply Ha; eassumption.
  - apply (Eval_agree c' c a' a (fun _ => True)); [tauto| | |exact H|exact I].
    + intros x g _ Hx; rewrite <- Hg; exact Hx.
    + intros x g _ Hx Ht. symmetry; eapply Ha; [rewrite <- Hg|]; eassumption.
Qed.

Lemma Eval_frame c c' a : gates c' = gates c -> forall l v, Eval c a l v <-> Eval c' a l v.
Proof. intros E; apply Eval_same_gates; [intros l; rewrite E; reflexivity|reflexivity]. Qed.

(* the assignment matters only at INPUT gates *)
Lemma Eval_same_assignment c a a' :
  (forall l g, dget (gates c) l = Some g -> gtyp g = INPUT -> aval a' l = aval a l) ->
  forall l v, Eval c a l v <-> Eval c a' l v.
Proof. intros Ha; apply Eval_same_gates; [reflexivity|exact Ha]. Qed.

(* adding gates (under labels that are not gates yet) keeps Eval of every existing gate *)
Lemma Eval_extend c c' a :
  (forall l g, dget (gates c) l = Some g -> dget (gates c') l = Some g) ->
  forall l v, Eval c a l v -> Eval c' a l v.
Proof.
  intros Hg l v H. apply (Eval_agree c c' a a (fun _ => True)); [tauto| |reflexivity|exact H|exact I].
  intros x g _ Hx; apply Hg, Hx.
Qed.

(* removing gates: if P is operand closed in the larger circuit and the smaller circuit still
   holds every gate of P, Eval of the gates of P is unchanged *)
Lemma Eval_restrict c c' a (P : label -> Prop) :
  (forall l g o, P l -> dget (gates c) l = Some g -> gtyp g <> INPUT -> In o (gops g) -> P o) ->
  (forall l g, P l -> dget (gates c) l = Some g -> dget (gates c') l = Some g) ->
  forall l v, Eval c a l v -> P l -> Eval c' a l v.
Proof. intros Hcl Hg; apply Eval_agree; auto. Qed.

(* the gates of a well formed circuit are operand closed *)
Lemma has_gate_closed c : WF c ->
  forall l g o, has_gate c l = true -> dget (gates c) l = Some g -> gtyp g <> INPUT -> In o (gops g) ->
                has_gate c o = true.
Proof. intros W l g o _ Hg _ Ho. eapply (wf_ops c W); eassumption. Qed.

Lemma Eval_has_gate c a l v : Eval c a l v -> has_gate c l = true.
Proof. intros H; inversion H; subst; eapply get_has_gate; eassumption. Qed.

(* extension and its converse packaged for "c' = c plus fresh gates" *)
Lemma Eval_fresh_iff c c' a : WF c ->
  (forall l g, dget (gates c) l = Some g -> dget (gates c') l = Some g) ->
  forall l v, has_gate c l = true -> (Eval c' a l v <-> Eval c a l v).
Proof.
  intros W Hg l v Hl; split; intros H.
  - apply (Eval_agree c' c a a (fun x => has_gate c x = true)); auto.
    + intros x g o Hx Hgx Ht Ho. destruct (has_gate_get _ _ Hx) as [g0 Hg0].
      rewrite (Hg _ _ Hg0) in Hgx; injection Hgx as <-. eapply (wf_ops c W); eassumption.
    + intros x g Hx Hgx. destruct (has_gate_get _ _ Hx) as [g0 Hg0].
      rewrite (Hg _ _ Hg0) in Hgx; injection Hgx as <-. exact Hg0.
  - eapply Eval_extend; eassumption.
Qed.

(* congruence: c' is c with the definition of the gates in D changed; if the new definition of
   each such gate yields, from the values of the OLD operands in c', the value of the old
   operator, every value of c is a value of c' *)
Lemma Eval_redefine c c' a :
  (forall l g, dget (gates c) l = Some g -> gtyp g = INPUT -> dget (gates c') l = Some g) ->
  (forall l g vs v, dget (gates c) l = Some g -> gtyp g <> INPUT ->
     Forall2 (Eval c a) (gops g) vs -> Forall2 (Eval c' a) (gops g) vs ->
     operator_of (gtyp g) vs = Ok v -> Eval c' a l v) ->
  forall l v, Eval c a l v -> Eval c' a l v.
Proof.
  intros Hin Hg l v H.
  apply (Eval_sim c c' a a (fun x => x) (fun _ => True)); auto.
  - intros x g _ Hx Ht. eapply EvalInput; [apply Hin; eassumption|assumption].
  - intros x g vs w _ Hx Ht Hvs0 Hvs Hop. rewrite map_id in Hvs. eapply Hg; eassumption.
Qed.

(* ------------------------------------------------------------------ *)
(* existence of values *)
Lemma operator_of_accepts t vs :
  t <> INPUT -> (den_accepts t (length vs) = true <-> exists v, operator_of t vs = Ok v).
Proof.
  intros Ht; destruct t; try contradiction; simpl;
    destruct vs as [|x [|y [|z rest]]]; simpl; split;
      try (intros _; eexists; reflexivity); try discriminate; try reflexivity;
        try (intros [v Hv]; discriminate).
Qed.

Theorem Eval_exists c a : WF c -> arity_ok c ->
  forall l, has_gate c l = true -> exists v, Eval c a l v.
Proof.
  intros W A. destruct (wf_acyclic c W) as [rank Hr].
  assert (forall n l, rank l < n -> has_gate c l = true -> exists v, Eval c a l v) as Hn.
  { induction n as [|n IH]; intros l Hlt Hl; [lia|].
    destruct (has_gate_get _ _ Hl) as [g Hg].
    destruct (gtype_eq_dec (gtyp g) INPUT) as [Ht|Ht].
    - exists (aval a l); eapply EvalInput; eassumption.
    - destruct (Forall2_exists (Eval c a) (gops g)) as [vs Hvs].
      { intros o Ho. apply IH; [specialize (Hr l g o Hg Ho); lia|eapply (wf_ops c W); eassumption]. }
      pose proof (A l g Hg Ht) as Hacc. rewrite (Forall2_length' _ _ _ Hvs) in Hacc.
      apply (operator_of_accepts _ _ Ht) in Hacc. destruct Hacc as [v Hv].
      exists v; eapply EvalGate; eassumption. }
  intros l; apply (Hn (S (rank l))); lia.
Qed.

(* Eval has a value only where the arity is accepted *)
Lemma Eval_arity c a l g v :
  Eval c a l v -> dget (gates c) l = Some g -> gtyp g <> INPUT ->
  den_accepts (gtyp g) (length (gops g)) = true.
Proof.
  intros H Hg Ht. inversion H as [l' g' Hg' Ht'|l' g' vs v' Hg' Ht' Hops Hop]; subst;
    rewrite Hg in Hg'; injection Hg' as <-; [contradiction|].
  rewrite (Forall2_length' _ _ _ Hops). apply (operator_of_accepts _ _ Ht). eauto.
Qed.

(* total assignments: transfer along circuits with the same INPUT gates *)
Lemma total_on_same_inputs c c' a :
  (forall l g, dget (gates c') l = Some g -> gtyp g = INPUT ->
               exists g0, dget (gates c) l = Some g0 /\ gtyp g0 = INPUT) ->
  total_on c a -> total_on c' a.
Proof. intros H Ht l g Hg Hi. destruct (H l g Hg Hi) as (g0 & Hg0 & Hi0). eapply Ht; eassumption. Qed.

(* executable arity check, for concrete examples *)
Definition arity_okb (c : circuit) : bool :=
  forallb (fun kg : label * gate =>
             gtype_beq (gtyp (snd kg)) INPUT || den_accepts (gtyp (snd kg)) (length (gops (snd kg))))
          (gates c).

Lemma arity_okb_sound c : arity_okb c = true -> arity_ok c.
Proof.
  unfold arity_okb; rewrite forallb_forall. intros H l g Hg Ht.
  specialize (H (l, g) (dget_In _ _ _ Hg)); simpl in H.
  apply orb_true_iff in H; destruct H as [H|H]; [apply gtype_beq_eq in H; contradiction|exact H].
Qed.

Lemma Eval_input_val c a l g v :
  dget (gates c) l = Some g -> gtyp g = INPUT -> aval a l = v -> Eval c a l v.
Proof. intros Hg Ht <-; eapply EvalInput; eassumption. Qed.

(* executable totality check, for concrete examples *)
Definition total_onb (c : circuit) (a : assignment) : bool :=
  forallb (fun kg : label * gate =>
             negb (gtype_beq (gtyp (snd kg)) INPUT) || negb (st_beq (aval a (fst kg)) U))
          (gates c).

Lemma total_onb_sound c a : total_onb c a = true -> total_on c a.
Proof.
  unfold total_onb; rewrite forallb_forall. intros H l g Hg Ht.
  specialize (H (l, g) (dget_In _ _ _ Hg)); simpl in H. rewrite Ht in H; simpl in H.
  intros E; rewrite E in H; discriminate.
Qed.
