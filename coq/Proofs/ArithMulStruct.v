(* C08, part 9 (definitions; the computations are in ArithMulStructA/B/C.v): structural facts by
   kernel computation (vm_compute) on the model's netlist for every width pair up to a stated
   bound: the generator returns Ok (the fuel of the modelled loops suffices, Wallace's final rows
   have the shape the model checks), the number of result bits is the one the property states,
   and neither the empty string nor the placeholder string is a gate of the result.
   The runs are on the bare circuit with inputs i0000, i0001, ... and uuid labels new_0001, ... *)
Require Import Cirbo.Model.Base Cirbo.Model.Gate Cirbo.Model.Den Cirbo.Model.Circuit
  Cirbo.Model.Eval Cirbo.Model.Sem Cirbo.Model.Builder.
Require Import Cirbo.Model.ArithSub Cirbo.Model.ArithSum2 Cirbo.Model.ArithSumN Cirbo.Model.ArithSumW
  Cirbo.Model.ArithGen Cirbo.Model.SumCases Cirbo.Model.ArithMul Cirbo.Model.ArithSquare Cirbo.Model.MulCases.
Require Import Cirbo.Proofs.ArithSumStruct Cirbo.Proofs.ArithMulPow2 Cirbo.Proofs.ArithSquareFacts.

Definition mul_struct_ok (f : mulfn) (nm : nat * nat) : bool :=
  let '(n, m) := nm in
  match bare (n + m) with
  | Ok c =>
    let ins := in_labels (n + m) 0 in
    match run hex_label (run_mulfn f (firstn n ins) (skipn n ins) false) (mkB c 1) with
    | Ok (rs, s') => (length rs =? mul_len n m)%nat && negb (has_gate (bc s') "")
                     && negb (has_gate (bc s') PLACEHOLDER_STR)
    | Err _ => false
    end
  | Err _ => false
  end.

Definition square_struct_ok (t : square_mode) (n : nat) : bool :=
  match bare n with
  | Ok c =>
    match run hex_label (process_square t (in_labels n 0) false) (mkB c 1) with
    | Ok (rs, s') => (length rs =? sq_len n)%nat && negb (has_gate (bc s') "")
    | Err _ => false
    end
  | Err _ => false
  end.

Definition pairs_upto (w : nat) : list (nat * nat) :=
  flat_map (fun n => map (fun m => (n, m)) (seq 1 w)) (seq 1 w).
