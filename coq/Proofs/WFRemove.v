(* C02: remove_gate, remove_block.  The loop of _remove_block goes through states that are
   not well formed (users of an already removed gate still name it), so the invariant is
   WFmod R D: well formed except that gates in R (still to be removed) may have dangling
   operands, and labels in D may dangle anywhere (used by replace_subcircuit). *)
Require Import Cirbo.Model.Base Cirbo.Model.Gate Cirbo.Model.Circuit Cirbo.Model.WF.
Require Import Cirbo.Proofs.DictFacts Cirbo.Proofs.WFBase Cirbo.Proofs.WFSimple Cirbo.Proofs.WFEmplace.

Record WFmod (R D : list label) (c : circuit) : Prop := mkWFmod {
  wm_gkeys : NoDup (dkeys (gates c));
  wm_ukeys : NoDup (dkeys (users c));
  wm_bkeys : NoDup (dkeys (blocks c));
  wm_ops : forall l g o, dget (gates c) l = Some g -> In o (gops g) ->
                         has_gate c o = true \/ In l R \/ In o D;
  wm_outs : forall o, In o (outputs c) -> has_gate c o = true;
  wm_users1 : forall l u, has_gate c l = true -> count u (users_of c l) = count l (ops_of c u);
  wm_users2 : forall l, has_gate c l = false -> users_of c l = [];
  wm_closed : forall l u, In l R -> In u (users_of c l) -> In u R \/ In l D;
  wm_inputs_nodup : NoDup (inputs c);
  wm_inputs : forall l, In l (inputs c) <-> exists g, dget (gates c) l = Some g /\ gtyp g = INPUT;
  wm_acyclic : exists rank : label -> nat,
      forall l g o, dget (gates c) l = Some g -> In o (gops g) -> rank o < rank l;
  wm_blocks : forall b blk l, dget (blocks c) b = Some blk ->
                              In l (bgates blk ++ binputs blk ++ boutputs blk) -> has_gate c l = true }.

Lemma WF_WFmod R c :
  WF c -> (forall l u, In l R -> In u (users_of c l) -> In u R) -> WFmod R [] c.
Proof.
  intros W HR; pose proof W as W'; destruct W; constructor; auto.
  - intros l g o Hg Ho; left; eauto.
  - intros l H; apply users_of_nongate; assumption.
  - intros l u Hl Hu; left; eauto.
Qed.

Lemma WFmod_WF c : WFmod [] [] c -> WF c.
Proof.
  intros M; constructor; try (destruct M; assumption).
  - intros l g o Hg Ho; destruct (wm_ops _ _ _ M l g o Hg Ho) as [H|[[]|[]]]; assumption.
  - intros l u. destruct (has_gate c l) eqn:E; [apply (wm_users1 _ _ _ M); assumption|].
    rewrite (wm_users2 _ _ _ M) by assumption; simpl.
    symmetry; apply count_zero_nIn; intros Hin. unfold ops_of in Hin.
    destruct (dget (gates c) u) as [g|] eqn:Eg; [|destruct Hin].
    destruct (wm_ops _ _ _ M u g l Eg Hin) as [H|[[]|[]]]; congruence.
Qed.

(* ---------------- what _remove_gate does to the fields ---------------- *)
Lemma remove_gate_raw_inv c l c' :
  remove_gate_raw c l = Ok c' ->
  exists g, dget (gates c) l = Some g /\
    gates c' = ddel (gates c) l /\
    users c' = ddel (users (remove_users c (gops g) l)) l /\
    ((gtyp g = INPUT /\ inputs c' = remove1 l (inputs c)) \/ (gtyp g <> INPUT /\ inputs c' = inputs c)) /\
    (forall o, In o (outputs c') <-> In o (outputs c) /\ o <> l) /\
    blocks c' = filter (fun kb => negb (memb l (bgates (snd kb)) || memb l (binputs (snd kb))
                                        || memb l (boutputs (snd kb)))) (blocks c).
Proof.
  unfold remove_gate_raw; intros H. binv H g Hg. apply get_gate_ok in Hg. exists g; split; [assumption|].
  destruct (remove_users_frame c (gops g) l) as (Fg & Fi & Fo & Fb).
  binv H c4 H4.
  assert (gates c4 = ddel (gates c) l /\ users c4 = ddel (users (remove_users c (gops g) l)) l /\
          outputs c4 = outputs c /\ blocks c4 = blocks c /\
          ((gtyp g = INPUT /\ inputs c4 = remove1 l (inputs c)) \/ (gtyp g <> INPUT /\ inputs c4 = inputs c)))
    as (A1 & A2 & A3 & A4 & A5).
  { destruct (gtype_beq (gtyp g) INPUT) eqn:Et.
    - simpl in H4. rewrite Fi in H4. destruct (memb l (inputs c)); [|discriminate].
      injection H4 as <-; simpl. rewrite Fg, Fo, Fb. repeat split; try reflexivity.
      left; split; [apply gtype_beq_eq, Et|reflexivity].
    - injection H4 as <-; simpl. rewrite Fg, Fo, Fb, Fi. repeat split; try reflexivity.
      right; split; [|reflexivity]. intros E; apply gtype_beq_eq in E; congruence. }
  injection H as <-. unfold drop_blocks_mentioning.
  set (c5 := if memb l (outputs c4) then set_outputs_raw c4 (remove_all l (outputs c4)) else c4).
  assert (gates c5 = gates c4 /\ users c5 = users c4 /\ inputs c5 = inputs c4 /\ blocks c5 = blocks c4)
    as (B1 & B2 & B3 & B4) by (unfold c5; destruct (memb l (outputs c4)); simpl; auto).
  assert (Ho : forall o, In o (outputs c5) <-> In o (outputs c) /\ o <> l).
  { intros o; unfold c5; destruct (memb l (outputs c4)) eqn:Em; simpl; rewrite A3 in *.
    - rewrite In_remove_all; tauto.
    - apply memb_nIn in Em. split; [intros Hin; split; [assumption|intros ->; contradiction]|tauto]. }
  simpl. rewrite B1, B2, B3, B4, A1, A2, A4.
  split; [reflexivity|]. split; [reflexivity|]. split; [exact A5|]. split; [exact Ho|reflexivity].
Qed.

Lemma remove_gate_raw_WFmod R D c l c' :
  WFmod (l :: R) D c -> remove_gate_raw c l = Ok c' -> WFmod R D c'.
Proof.
  intros M H. apply remove_gate_raw_inv in H. destruct H as (g & Hg & Eg & Eu & Ei & Eo & Eb).
  pose proof (wm_gkeys _ _ _ M) as Ngk.
  assert (Hget : forall x, dget (gates c') x = if leqb x l then None else dget (gates c) x).
  { intros x; rewrite Eg; apply dget_ddel, Ngk. }
  assert (Hhas : forall x, has_gate c' x = negb (leqb x l) && has_gate c x).
  { intros x; unfold has_gate; rewrite Eg; apply dmem_ddel, Ngk. }
  assert (Hops : forall x, ops_of c' x = if leqb x l then [] else ops_of c x).
  { intros x; unfold ops_of; rewrite Hget; destruct (leqb x l); reflexivity. }
  assert (Huo : forall x, users_of c' x =
                          if leqb x l then [] else users_of (remove_users c (gops g) l) x).
  { intros x; unfold users_of; rewrite Eu, dget_ddel by (apply remove_users_ukeys, (wm_ukeys _ _ _ M)).
    destruct (leqb x l); reflexivity. }
  assert (Hcnt : forall x u, count u (users_of c' x) =
             if leqb x l then 0 else count u (users_of c x) - (if leqb u l then count x (gops g) else 0)).
  { intros x u; rewrite Huo; destruct (leqb x l); [reflexivity|apply count_users_remove_users]. }
  assert (Hlg : has_gate c l = true) by (eapply get_has_gate; eassumption).
  constructor.
  - rewrite Eg; apply NoDup_dkeys_ddel, Ngk.
  - rewrite Eu; apply NoDup_dkeys_ddel, remove_users_ukeys, (wm_ukeys _ _ _ M).
  - rewrite Eb; apply dkeys_filter_NoDup, (wm_bkeys _ _ _ M).
  - intros x gx o Hx Ho. rewrite Hget in Hx. destruct (leqb_spec x l) as [->|Hxl]; [discriminate|].
    rewrite Hhas. destruct (wm_ops _ _ _ M x gx o Hx Ho) as [Hh|[[E|Hin]|Hd]];
      [|congruence|right; left; exact Hin|right; right; exact Hd].
    destruct (leqb_spec o l) as [->|Hol]; [|left; rewrite Hh; reflexivity].
    assert (In x (users_of c l)) as Hu.
    { apply count_pos_In. rewrite (wm_users1 _ _ _ M l x Hlg), (ops_of_get _ _ _ Hx).
      apply count_pos_In, Ho. }
    destruct (wm_closed _ _ _ M l x (or_introl eq_refl) Hu) as [[E|Hin]|Hd]; auto; congruence.
  - intros o Ho; apply Eo in Ho; destruct Ho as [Ho Hne]. rewrite Hhas, (wm_outs _ _ _ M o Ho).
    apply leqb_neq in Hne; rewrite Hne; reflexivity.
  - intros x u Hx. rewrite Hhas in Hx; apply andb_true_iff in Hx; destruct Hx as [Hxl Hx].
    apply negb_true_iff in Hxl. rewrite Hcnt, Hxl, Hops.
    destruct (leqb_spec u l) as [->|Hul].
    + rewrite (wm_users1 _ _ _ M x l Hx), (ops_of_get _ _ _ Hg). simpl; lia.
    + rewrite (wm_users1 _ _ _ M x u Hx); lia.
  - intros x Hx. apply count_all_zero_nil; intros u. rewrite Hcnt.
    destruct (leqb_spec x l) as [->|Hxl]; [reflexivity|].
    rewrite Hhas in Hx. apply leqb_neq in Hxl; rewrite Hxl in Hx; simpl in Hx.
    rewrite (wm_users2 _ _ _ M x Hx); reflexivity.
  - intros x u Hx Hu. apply count_pos_In in Hu. rewrite Hcnt in Hu.
    destruct (leqb_spec x l) as [->|Hxl]; [lia|].
    assert (In u (users_of c x)) as Hu' by (apply count_pos_In; lia).
    destruct (wm_closed _ _ _ M x u (or_intror Hx) Hu') as [[E|Hin]|Hd]; auto.
    subst u. rewrite leqb_refl in Hu.
    destruct (has_gate c x) eqn:Ex.
    + rewrite (wm_users1 _ _ _ M x l Ex), (ops_of_get _ _ _ Hg) in Hu; lia.
    + rewrite (wm_users2 _ _ _ M x Ex) in Hu'; destruct Hu'.
  - destruct Ei as [[_ ->]|[_ ->]]; [apply NoDup_remove1|]; apply (wm_inputs_nodup _ _ _ M).
  - intros x. rewrite Hget. destruct Ei as [[Ht ->]|[Ht ->]].
    + rewrite (NoDup_remove1_In _ _ _ (wm_inputs_nodup _ _ _ M)), (wm_inputs _ _ _ M).
      destruct (leqb_spec x l) as [->|Hxl]; [|tauto].
      split; [tauto|]. intros [g0 [H0 _]]; discriminate.
    + rewrite (wm_inputs _ _ _ M). destruct (leqb_spec x l) as [->|Hxl]; [|tauto].
      split; [|intros [g0 [H0 _]]; discriminate]. intros [g0 [H0 H1]]; congruence.
  - destruct (wm_acyclic _ _ _ M) as [rank Hr]; exists rank. intros x gx o Hx Ho. rewrite Hget in Hx.
    destruct (leqb x l); [discriminate|]. eapply Hr; eassumption.
  - intros b blk x Hb Hx. rewrite Eb in Hb. apply dget_filter in Hb; [|apply (wm_bkeys _ _ _ M)].
    destruct Hb as [Hb Hf]; simpl in Hf. rewrite Hhas, (wm_blocks _ _ _ M b blk x Hb Hx).
    destruct (leqb_spec x l) as [->|]; [|reflexivity]. exfalso.
    apply negb_true_iff, orb_false_iff in Hf; destruct Hf as [Hf H3].
    apply orb_false_iff in Hf; destruct Hf as [H1 H2].
    apply memb_nIn in H1, H2, H3. apply in_app_or in Hx; destruct Hx as [Hx|Hx]; [auto|].
    apply in_app_or in Hx; destruct Hx; auto.
Qed.

Lemma remove_gate_raw_nullary c l c' :
  NoDup (dkeys (gates c)) -> inputs_nullary c -> remove_gate_raw c l = Ok c' -> inputs_nullary c'.
Proof.
  intros Nd N H. apply remove_gate_raw_inv in H. destruct H as (g & Hg & Eg & _).
  intros x gx Hx Ht. rewrite Eg, dget_ddel in Hx by assumption. destruct (leqb x l); [discriminate|].
  eapply N; eassumption.
Qed.

(* ---------------- remove_gate ---------------- *)
Lemma get_gate_users_ok c l us :
  get_gate_users c l = Ok us -> has_gate c l = true /\ us = users_of c l.
Proof.
  unfold get_gate_users, users_of. destruct (has_gate c l); [|discriminate].
  destruct (dget (users c) l); intros [= <-]; auto.
Qed.

Lemma remove_gate_wf c l c' : WF c -> remove_gate c l = Ok c' -> WF c'.
Proof.
  unfold remove_gate; intros W H. binv H u0 H0. binv H u1 H1.
  unfold check_gate_has_not_users in H1. binv H1 us Hus. apply get_gate_users_ok in Hus.
  destruct Hus as [Hl ->]. destruct (users_of c l) eqn:Eu; [|discriminate].
  apply WFmod_WF. eapply remove_gate_raw_WFmod; [|eassumption].
  apply WF_WFmod; [assumption|]. intros x u [<-|[]] Hu. rewrite Eu in Hu; destruct Hu.
Qed.

Lemma remove_gate_nullary c l c' : WF c -> inputs_nullary c -> remove_gate c l = Ok c' -> inputs_nullary c'.
Proof.
  unfold remove_gate; intros W N H. binv H u0 H0. binv H u1 H1.
  eapply remove_gate_raw_nullary; [apply (wf_gkeys c W)|eassumption|eassumption].
Qed.

(* ---------------- _remove_block / remove_block ---------------- *)
Lemma remove_loop_WFmod D R : forall c c',
  WFmod R D c ->
  foldM (fun c g => do _ <- get_gate c g; remove_gate_raw c g) R c = Ok c' -> WFmod [] D c'.
Proof.
  induction R as [|g R IH]; simpl; intros c c' M H; [injection H as <-; assumption|].
  binv H c1 H1. binv H1 g0 Hg0. eapply IH; [|eassumption]. eapply remove_gate_raw_WFmod; eassumption.
Qed.

Lemma remove_loop_nullary R : forall c c',
  NoDup (dkeys (gates c)) -> inputs_nullary c ->
  foldM (fun c g => do _ <- get_gate c g; remove_gate_raw c g) R c = Ok c' ->
  inputs_nullary c' /\ NoDup (dkeys (gates c')).
Proof.
  induction R as [|g R IH]; simpl; intros c c' Nd N H; [injection H as <-; auto|].
  binv H c1 H1. binv H1 g0 Hg0. eapply IH; [| |eassumption].
  - apply remove_gate_raw_inv in H1. destruct H1 as (gg & _ & -> & _). apply NoDup_dkeys_ddel, Nd.
  - eapply remove_gate_raw_nullary; eassumption.
Qed.

Lemma check_block_loop_spec c all excl : forall bg u,
  check_block_has_no_users_loop bg all excl c = Ok u ->
  forall g, In g bg -> In g excl \/ forall x, In x (users_of c g) -> In x all.
Proof.
  induction bg as [|g bg IH]; simpl; intros u H x Hx; [destruct Hx|].
  binv H u1 H1. destruct Hx as [<-|Hx]; [|eapply IH; eassumption].
  destruct (memb g excl) eqn:Em; [left; apply memb_In, Em|right].
  binv H1 us Hus. apply get_gate_users_ok in Hus; destruct Hus as [_ ->].
  destruct (forallb _ (users_of c g)) eqn:Ef; [|discriminate].
  rewrite forallb_forall in Ef. intros y Hy; apply memb_In, Ef, Hy.
Qed.

Lemma remove_block_wf c b c' : WF c -> remove_block c b = Ok c' -> WF c'.
Proof.
  unfold remove_block, remove_block_raw; intros W H. binv H blk Hb. binv H u0 H0. binv H blk' Hb'.
  assert (blk' = blk) as -> by congruence.
  apply WFmod_WF. eapply remove_loop_WFmod; [|eassumption].
  apply WF_WFmod; [assumption|]. intros l u Hl Hu.
  destruct (check_block_loop_spec _ _ _ _ _ H0 l Hl) as [[]|Hall]; auto.
Qed.

Lemma remove_block_nullary c b c' :
  WF c -> inputs_nullary c -> remove_block c b = Ok c' -> inputs_nullary c'.
Proof.
  unfold remove_block, remove_block_raw; intros W N H. binv H blk Hb. binv H u0 H0. binv H blk' Hb'.
  eapply remove_loop_nullary; [apply (wf_gkeys c W)|eassumption|eassumption].
Qed.
