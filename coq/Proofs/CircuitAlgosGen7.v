(* T10, seventh part: replace_subcircuit.  It calls make_block_from_slice, whose regenerated version may see the
   other one of GateDoesntExistError / CreateBlockError first (Proofs/CircuitAlgosGen4.v): `rs_agree`. *)
Require Import Cirbo.Model.Base Cirbo.Model.Gate Cirbo.Model.Circuit Cirbo.Model.Traverse Cirbo.Model.Connect
        Cirbo.Model.WF.
Require Import Cirbo.Generated.CircuitCore Cirbo.Generated.CircuitAlgos.
Require Import Cirbo.Proofs.DictFacts Cirbo.Proofs.TopSort Cirbo.Proofs.CircuitCoreGen Cirbo.Proofs.CircuitCoreGen2
        Cirbo.Proofs.CircuitAlgosGen Cirbo.Proofs.CircuitAlgosGen3 Cirbo.Proofs.CircuitAlgosGen4
        Cirbo.Proofs.CircuitAlgosGen6 Cirbo.Proofs.WFBase Cirbo.Proofs.WFSimple Cirbo.Proofs.WFRename2.

(* ---------------------------------------------------------------- len(a) + len(b) != len(a | b) *)
Lemma length_dset {V} (d : dict V) k v : length (dset d k v) = length d + (if dmem d k then 0 else 1).
Proof.
  unfold dmem. induction d as [|[k' v'] d IH]; simpl; [reflexivity|].
  destruct (leqb k k'); simpl; [lia|]. rewrite IH. destruct (dget d k); lia.
Qed.

Lemma dict_union_le {V} (b : dict V) : forall a, length (dict_union a b) <= length a + length b.
Proof.
  unfold dict_union. induction b as [|[k v] b IH]; intros a; simpl; [lia|].
  specialize (IH (dset a k v)). rewrite length_dset in IH. destruct (dmem a k); lia.
Qed.

Lemma forallb_dmem_snoc {V} (a : dict V) k v ks :
  ~ In k ks ->
  forallb (fun k' => negb (dmem (a ++ [(k, v)]) k')) ks = forallb (fun k' => negb (dmem a k')) ks.
Proof.
  induction ks as [|k' ks IH]; intros Hk; [reflexivity|]. simpl.
  rewrite dmem_app_one. destruct (leqb_spec k' k) as [->|Hne].
  - exfalso. apply Hk. left. reflexivity.
  - rewrite orb_false_r. rewrite IH; [reflexivity|]. intros Hin. apply Hk. right. exact Hin.
Qed.

Lemma dict_union_len {V} (b : dict V) : forall a,
  NoDup (dkeys b) ->
  Nat.eqb (length a + length b) (length (dict_union a b)) = forallb (fun k => negb (dmem a k)) (dkeys b).
Proof.
  induction b as [|[k v] b IH]; intros a Hnd; simpl.
  - rewrite Nat.add_0_r. apply Nat.eqb_refl.
  - inversion Hnd as [|? ? Hk Hnd']; subst.
    change (dict_union a ((k, v) :: b)) with (dict_union (dset a k v) b).
    destruct (dmem a k) eqn:Ek; simpl.
    + apply Nat.eqb_neq. pose proof (dict_union_le b (dset a k v)) as H. rewrite length_dset, Ek in H. lia.
    + rewrite (dset_new a k v Ek).
      replace (length a + S (length b)) with (length (a ++ [(k, v)]) + length b)
        by (rewrite app_length; simpl; lia).
      rewrite (IH _ Hnd'). apply forallb_dmem_snoc. exact Hk.
Qed.

Lemma NoDup_app_disjoint {A} (a b : list A) : NoDup (a ++ b) -> forall x, In x a -> ~ In x b.
Proof.
  induction a as [|y a IH]; simpl; intros H x Hx; [contradiction|].
  inversion H as [|? ? Hy H']; subst. destruct Hx as [<-|Hx].
  - intros Hb. apply Hy. apply in_or_app. right. exact Hb.
  - apply IH; assumption.
Qed.

Lemma NoDup_app_r {A} (a b : list A) : NoDup (a ++ b) -> NoDup b.
Proof. induction a as [|y a IH]; simpl; intros H; [exact H|]. inversion H; subst. apply IH. assumption. Qed.

Lemma union_check (imap omap : dict label) :
  NoDup (dkeys imap) -> NoDup (dkeys omap) ->
  Nat.eqb (length imap + length omap) (length (dict_union imap omap)) = nodupb (dkeys imap ++ dkeys omap).
Proof.
  intros Hi Ho. rewrite (dict_union_len omap imap Ho).
  destruct (nodupb (dkeys imap ++ dkeys omap)) eqn:E.
  - apply nodupb_NoDup in E. apply forallb_forall. intros k Hk.
    destruct (dmem imap k) eqn:Em; [|reflexivity]. apply dmem_keys in Em.
    exfalso. exact (NoDup_app_disjoint _ _ E k Em Hk).
  - destruct (forallb (fun k => negb (dmem imap k)) (dkeys omap)) eqn:F; [|reflexivity].
    exfalso. assert (NoDup (dkeys imap ++ dkeys omap)) as H.
    { apply NoDup_app_intro; [exact Hi|exact Ho|]. intros x Hx Hx'.
      rewrite forallb_forall in F. specialize (F x Hx'). apply dmem_keys in Hx. rewrite Hx in F. discriminate. }
    apply nodupb_NoDup in H. congruence.
Qed.

(* ---------------------------------------------------------------- small loops *)
Lemma foldM_collect_check (p : label -> bool) (e : err) l : forall acc : list label,
  foldM (fun acc o => if p o then Err e else Ok (acc ++ [o])) l acc
  = if forallb (fun o => negb (p o)) l then Ok (acc ++ l) else Err e.
Proof.
  induction l as [|o l IH]; intros acc; simpl; [rewrite app_nil_r; reflexivity|].
  destruct (p o); simpl; [reflexivity|]. rewrite IH, <- app_assoc. reflexivity.
Qed.

Lemma foldM_pairs_lazy {St} (c : circuit) (p : label -> bool) (F : St -> label -> gate -> res St) ps :
  Forall (valid_pair c) ps -> forall s,
  foldM (fun s (kv : label * gate) => if p (fst kv) then F s (fst kv) (snd kv) else Ok s) ps s
  = foldM (fun s l => if p l then do g <- get_gate c l; F s l g else Ok s) (map fst ps) s.
Proof.
  induction 1 as [|[l g] ps Hp _ IH]; intros s; simpl; [reflexivity|].
  unfold valid_pair in Hp. simpl in Hp. destruct (p l); [rewrite Hp|]; simpl.
  - destruct (F s l g); simpl; [apply IH|reflexivity].
  - apply IH.
Qed.

(* the traversal fuel of the final cycle check: all gates are start gates *)
Definition all_gates_fuel (c : circuit) : nat := traverse_fuel c (dkeys (gates c)).

Lemma gen_check_cycles_all_gates c :
  gen_check_circuit_has_no_cycles all_gates_fuel size_fuel c (Some (dkeys (gates c)))
  = check_circuit_has_no_cycles_from c (Some (dkeys (gates c))).
Proof. exact (gen_check_circuit_has_no_cycles_eq c (Some (dkeys (gates c)))). Qed.

(* ---------------------------------------------------------------- replace_subcircuit *)
Definition rs_agree (g h : res circuit) : Prop :=
  g = h \/
  (exists e1 e2, g = Err e1 /\ h = Err e2 /\
     (e1 = GateDoesntExistError \/ e1 = CreateBlockError) /\ (e2 = GateDoesntExistError \/ e2 = CreateBlockError)).

Lemma rename_fold_wf m : forall c c',
  WF c ->
  foldM (fun c (kv : label * label) => if leqb (fst kv) (snd kv) then Ok c else rename_gate c (fst kv) (snd kv)) m c
  = Ok c' -> WF c'.
Proof.
  intros c c' W. apply (foldM_ok_inv _ WF); [|exact W].
  intros s [a b] s' _ Ws. simpl. destruct (leqb a b); [intros [= <-]; exact Ws|].
  intros H. exact (rename_gate_wf _ _ _ _ Ws H).
Qed.

Lemma gen_replace_subcircuit_agree c sub imap omap f rest :
  WF c -> NoDup (dkeys (gates sub)) -> NoDup (dkeys imap) -> NoDup (dkeys omap) ->
  rs_agree (gen_replace_subcircuit size_fuel size_fuel all_gates_fuel size_fuel c sub imap omap (f :: rest))
           (replace_subcircuit c sub imap omap f).
Proof.
  intros W Hsub Hi Ho. unfold gen_replace_subcircuit, replace_subcircuit.
  rewrite (union_check imap omap Hi Ho).
  destruct (nodupb (dkeys imap ++ dkeys omap)); cbn [negb bind]; [|left; reflexivity].
  rewrite !gen_check_gates_exist_eq.
  destruct (check_gates_exist (dkeys imap) c) as [[]|e]; cbn [bind]; [|left; reflexivity].
  destruct (check_gates_exist (dkeys omap) c) as [[]|e]; cbn [bind]; [|left; reflexivity].
  destruct (check_gates_exist (dvals omap) sub) as [[]|e]; cbn [bind]; [|left; reflexivity].
  (* the values of inputs_mapping are inputs of the subcircuit *)
  match goal with |- rs_agree (bind ?X _) (bind ?Y _) => replace X with Y end.
  2:{ apply foldM_ext. intros [] i. rewrite gen_get_gate_eq. destruct (get_gate sub i) as [g|e]; cbn [bind]; [|reflexivity].
      destruct (gtype_beq (gtyp g) INPUT); reflexivity. }
  match goal with |- rs_agree (bind ?Y _) _ => destruct Y as [[]|e] end; cbn [bind]; [|left; reflexivity].
  rewrite (foldM_check (fun i => negb (memb i (dvals imap))) ReplaceSubcircuitError (inputs sub)).
  replace (forallb (fun x => negb (negb (memb x (dvals imap)))) (inputs sub))
    with (forallb (fun i => memb i (dvals imap)) (inputs sub))
    by (apply forallb_pointwise; intros x; rewrite negb_involutive; reflexivity).
  destruct (forallb (fun i => memb i (dvals imap)) (inputs sub)); cbn [bind]; [|left; reflexivity].
  (* the two renaming loops *)
  match goal with |- rs_agree (bind ?X _) (bind ?Y _) => replace X with Y end.
  2:{ apply foldM_ext. intros s [a b]. cbn [fst snd]. destruct (leqb a b); cbn [negb]; [reflexivity|].
      rewrite bind_ret. symmetry. apply gen_rename_gate_eq. }
  match goal with |- rs_agree (bind ?Y _) _ => destruct Y as [c1|e] eqn:E1 end; cbn [bind]; [|left; reflexivity].
  pose proof (rename_fold_wf imap c c1 W E1) as W1.
  match goal with |- rs_agree (bind ?X _) (bind ?Y _) => replace X with Y end.
  2:{ apply foldM_ext. intros s [a b]. cbn [fst snd]. destruct (leqb a b); cbn [negb]; [reflexivity|].
      rewrite bind_ret. symmetry. apply gen_rename_gate_eq. }
  match goal with |- rs_agree (bind ?Y _) _ => destruct Y as [c2|e] eqn:E2 end; cbn [bind]; [|left; reflexivity].
  pose proof (rename_fold_wf omap c1 c2 W1 E2) as W2.
  (* the slice *)
  unfold next_uuid. cbn [bind]. unfold size_fuel at 1.
  set (bname := ("block_for_deleting" ++ f)%string).
  pose proof (gen_make_block_from_slice_agree c2 bname (dvals imap) (dvals omap) (wf_gkeys c2 W2)) as Hs.
  destruct (gen_make_block_from_slice (S (size c2)) c2 bname (dvals imap) (dvals omap)) as [[c3 blk]|e1] eqn:Eg.
  2:{ destruct Hs as [Hs|(e1' & e2 & He1 & He2 & K1 & K2)].
      - simpl in Hs. rewrite <- Hs. cbn [bind]. left. reflexivity.
      - injection He1 as <-. rewrite He2. cbn [bind]. right. exists e1, e2. repeat split; assumption. }
  destruct Hs as [Hs|(e1' & e2 & He1 & _)]; [|discriminate].
  simpl in Hs. rewrite <- Hs. cbn [bind].
  rewrite (gen_make_block_from_slice_block _ _ _ _ _ _ _ Eg). cbn [bind].
  assert (W3 : WF c3) by (apply (make_block_from_slice_wf c2 bname (dvals imap) (dvals omap)); [exact W2|symmetry; exact Hs]).
  left.
  (* the outputs that must survive *)
  rewrite (foldM_collect_check (fun o => memb o (bgates blk) && negb (memb o (dvals omap))) ReplaceSubcircuitError).
  replace (forallb (fun o => negb (memb o (bgates blk) && negb (memb o (dvals omap)))) (outputs c3))
    with (forallb (fun o => negb (memb o (bgates blk)) || memb o (dvals omap)) (outputs c3))
    by (apply forallb_pointwise; intros x; destruct (memb x (bgates blk)), (memb x (dvals omap)); reflexivity).
  destruct (forallb (fun o => negb (memb o (bgates blk)) || memb o (dvals omap)) (outputs c3)); cbn [bind app];
    [|reflexivity].
  (* the users to restore *)
  apply bind_congr.
  { apply foldM_ext. intros acc o. rewrite gen_get_gate_users_eq. apply bind_ext. intros us. rewrite bind_ret.
    apply (foldM_total _ (fun acc u => if memb u (bgates blk) then acc else
                                       match dget acc o with Some l => dset acc o (l ++ [u]) | None => dset acc o [u] end)).
    intros s u. destruct (memb u (bgates blk)); reflexivity. }
  intros saved _.
  rewrite gen_check_block_has_no_users_eq. apply bind_ext. intros [].
  rewrite (gen__remove_block_eq c3 bname (wf_bkeys c3 W3)). apply bind_ext. intros c4.
  (* the gates of the new subcircuit *)
  unfold size_fuel at 1.
  rewrite <- (gen_top_sort_labels sub true Hsub).
  destruct (gen_top_sort (S (size sub)) sub true) as [r|e] eqn:Er; cbn [bind]; [|reflexivity].
  apply bind_congr.
  { rewrite (foldM_pairs_lazy sub (fun l => negb (memb l (dvals imap)))
               (fun s l g => do s' <- gen_add_gate s l g; Ok s') r (gen_top_sort_valid _ _ _ _ Er)).
    apply foldM_ext. intros s l. destruct (memb l (dvals imap)); cbn [negb]; [reflexivity|].
    apply bind_ext. intros g. rewrite bind_ret. apply gen_add_gate_eq. }
  intros c5 _.
  (* the saved users *)
  rewrite (foldM_total _ (fun c (kv : label * list label) =>
             match dget (users c) (fst kv) with
             | None => set_users c (dset (users c) (fst kv) (snd kv))
             | Some l => set_users c (dset (users c) (fst kv) (l ++ snd kv))
             end)).
  2:{ intros s kv. unfold dmem, dget_res. destruct (dget (users s) (fst kv)); reflexivity. }
  cbn [bind]. rewrite gen_check_cycles_all_gates. reflexivity.
Qed.

Lemma rs_agree_ok g h c' : rs_agree g h -> (g = Ok c' <-> h = Ok c').
Proof. intros [->|(e1 & e2 & -> & -> & _)]; [tauto|split; discriminate]. Qed.

Lemma rs_agree_is_ok g h : rs_agree g h -> is_ok g = is_ok h.
Proof. intros [->|(e1 & e2 & -> & -> & _)]; reflexivity. Qed.
