(* Generated/ArithGen08.v (translator T19) equals the hand model, part B: the level-by-level summation shared by
   add_mul_pow2_m1 and add_square_pow2_m1 (index form of [pow2_levels] / [gather]), add_mul_pow2_m1 and
   last_step_sum_with_new_powers_sum of multiplication.py. *)
Require Import Cirbo.Model.Base Cirbo.Model.Gate Cirbo.Model.Circuit Cirbo.Model.Builder Cirbo.Model.PyPrims.
Require Import Cirbo.Model.ArithSub Cirbo.Model.ArithSum2 Cirbo.Model.ArithSumN Cirbo.Model.ArithSumW.
Require Import Cirbo.Model.PyPrims08 Cirbo.Model.ArithMul.
Require Import Cirbo.Generated.ArithTables Cirbo.Generated.ArithCells Cirbo.Generated.ArithGen08.
Require Import Cirbo.Proofs.ArithGen09Lib Cirbo.Proofs.ArithGen08Lib Cirbo.Proofs.ArithGen08A.
From Coq Require Import ZArith Lia Ascii.
Open Scope Z_scope.

Lemma tl_skipn {A} (l : list A) i : tl (skipn i l) = skipn (S i) l.
Proof. revert i; induction l as [|x l IH]; intros [|i]; cbn [skipn tl]; try reflexivity. apply IH. Qed.

Lemma skipn_1_skipn {A} (l : list A) i : skipn 1 (skipn i l) = skipn (S i) l.
Proof. rewrite <- (tl_skipn l i). destruct (skipn i l); reflexivity. Qed.

Lemma flat_map_ext_in {A B} (f g : A -> list B) : forall l, (forall x, In x l -> f x = g x) -> flat_map f l = flat_map g l.
Proof.
  induction l as [|x l IH]; intros H; cbn [flat_map]; [reflexivity|].
  rewrite (H x (or_introl eq_refl)), IH; [reflexivity|]. intros y Hy. apply H. right; exact Hy.
Qed.

Lemma flat_map_nil_in {A B} (f : A -> list B) : forall l, (forall x, In x l -> f x = []) -> flat_map f l = [].
Proof.
  induction l as [|x l IH]; intros H; cbn [flat_map]; [reflexivity|].
  rewrite (H x (or_introl eq_refl)), IH; [reflexivity|]. intros y Hy. apply H. right; exact Hy.
Qed.

Lemma flat_map_map {A B C} (g : A -> B) (f : B -> list C) : forall l, flat_map f (map g l) = flat_map (fun x => f (g x)) l.
Proof. induction l as [|x l IH]; cbn [map flat_map]; [reflexivity|]. rewrite IH. reflexivity. Qed.

(* ---- [f(l[i]) for i in range(len(l))] ------------------------------------------------------------------------- *)
Lemma mapP_index_gen {A B} (l : list A) (G : Z -> prog B) (f : A -> prog B) (d : A) :
  (forall i, (i < length l)%nat -> peq (G (Z.of_nat i)) (f (nth i l d))) ->
  forall k i, (i + k = length l)%nat -> peq (mapP G (map Z.of_nat (seq i k))) (mapP f (skipn i l)).
Proof.
  intros HG. induction k as [|k IH]; intros i Hi fresh s.
  - rewrite skipn_all2 by lia. reflexivity.
  - rewrite (skipn_nth l i d) by lia. cbn [seq map mapP]. rs. rewrite HG by lia.
    destruct (run fresh (f (nth i l d)) s) as [[y s1]|e]; rs; [|reflexivity].
    rewrite IH by lia. reflexivity.
Qed.

Lemma mapP_index {A B} (l : list A) (G : Z -> prog B) (f : A -> prog B) (d : A) :
  (forall i, (i < length l)%nat -> peq (G (Z.of_nat i)) (f (nth i l d))) ->
  peq (mapP G (py_range 0 (Z.of_nat (length l)))) (mapP f l).
Proof. intros HG. rewrite py_range_0_nat. apply (mapP_index_gen l G f d HG (length l) 0). lia. Qed.

(* ---- for j in range(lo, hi): if <cond>: inp.append(..) / inp += .. ------------------------------------------- *)
Lemma collect_fold_gen (G : list label -> Z -> prog (list label)) (h : nat -> list label) (hi : nat) :
  (forall inp j, (j < hi)%nat -> peq (G inp (Z.of_nat j)) (Ret (inp ++ h j))) ->
  forall k j inp, (j + k = hi)%nat ->
  peq (foldP G (map Z.of_nat (seq j k)) inp) (Ret (inp ++ flat_map h (seq j k))).
Proof.
  intros HG. induction k as [|k IH]; intros j inp Hj fresh s; cbn [seq map foldP flat_map]; rs.
  - rewrite app_nil_r. reflexivity.
  - rewrite HG by lia. rs. rewrite IH by lia. rs. rewrite <- app_assoc. reflexivity.
Qed.

(* ---- gather, by index ---------------------------------------------------------------------------------------- *)
Lemma gather_idx : forall (out : list (list (list label))) d, (length out <= d)%nat ->
  gather d out = flat_map (fun j => nth (d - j) (nth j out []) []) (seq 0 (length out)).
Proof.
  induction out as [|oj out IH]; intros d Hd; cbn [gather length seq flat_map nth]; [reflexivity|].
  cbn [length] in Hd. rewrite Nat.sub_0_r. f_equal.
  rewrite IH by lia. rewrite <- seq_shift, flat_map_map.
  apply flat_map_ext. intros j. cbn [nth]. replace (Nat.pred d - j)%nat with (d - S j)%nat by lia. reflexivity.
Qed.

(* ---- the level loop in index form ----------------------------------------------------------------------------- *)
Notation levels := (list (list (list label))) (only parsing).

Fixpoint lev_idx (inpf : nat -> levels -> list label) (k i : nat) (out : levels) : prog levels :=
  match k with
  | O => Ret out
  | S k' => bdo o <- pow2_level (inpf i out); lev_idx inpf k' (S i) (out ++ [o])
  end.

Lemma lev_idx_length inpf : forall k i out, returns (lev_idx inpf k i out) (fun r => length r = (length out + k)%nat).
Proof.
  induction k as [|k IH]; intros i out fresh s r s'; cbn [lev_idx]; rs.
  - intros H; inversion H; lia.
  - destruct (run fresh (pow2_level (inpf i out)) s) as [[o s1]|e]; rs; [|discriminate].
    intros H. apply IH in H. rewrite app_length in H. cbn [length] in H. lia.
Qed.

Lemma upd_app_mid {A} (l1 : list A) x y l2 : upd (l1 ++ x :: l2) (length l1) y = (l1 ++ [y]) ++ l2.
Proof. induction l1 as [|z l1 IH]; cbn [app upd length]; [reflexivity|]. rewrite IH. reflexivity. Qed.

Lemma levels_fold_gen (L : levels -> Z -> prog levels) (inpf : nat -> levels -> list label) (total : nat) :
  (forall i mo ph pad, length mo = i -> (i + S (length pad) = total)%nat ->
     peq (L (mo ++ ph :: pad) (Z.of_nat i)) (bdo o <- pow2_level (inpf i mo); Ret ((mo ++ [o]) ++ pad))) ->
  forall k i mo pad, length mo = i -> length pad = k -> (i + k = total)%nat ->
  peq (foldP L (map Z.of_nat (seq i k)) (mo ++ pad)) (bdo mo' <- lev_idx inpf k i mo; Ret mo').
Proof.
  intros HL. induction k as [|k IH]; intros i mo pad Hm Hp Hi fresh s.
  - destruct pad; [|discriminate]. cbn [seq map foldP lev_idx]. rs. rewrite app_nil_r. reflexivity.
  - destruct pad as [|ph pad]; [discriminate|]. cbn [length] in Hp.
    cbn [seq map foldP lev_idx]. rs. rewrite HL by (try exact Hm; lia). rs.
    destruct (run fresh (pow2_level (inpf i mo)) s) as [[o s1]|e]; rs; [|reflexivity].
    rewrite IH by (rewrite ?app_length; cbn [length]; lia). rs. reflexivity.
Qed.

(* out[i][0][0] *)
Lemma first_first_index (out : levels) :
  peq (mapP (fun i => bdo t1 <- py_nth out i; bdo t2 <- py_nth t1 0; bdo t3 <- py_nth t2 0; Ret t3)
            (py_range 0 (Z.of_nat (length out))))
      (mapP first_first out).
Proof.
  apply (mapP_index out _ first_first []). intros i Hi fresh s. rs.
  rewrite (py_nth_ok out i []) by exact Hi. rs. unfold first_first. rs. rewrite !py_nth_0.
  destruct (run fresh (nthP (nth i out []) 0) s) as [[c0 s1]|e]; rs; [|reflexivity].
  rewrite py_nth_0.
  destruct (run fresh (nthP c0 0) s1) as [[x s2]|e]; rs; reflexivity.
Qed.

(* the two branches that end a level *)
Lemma level_store_eq fresh (inp : list label) (K : levels -> prog levels) (out : levels) (i : nat) s :
  (i < length out)%nat ->
  run fresh (if Z.of_nat (length inp) =? 1
             then (bdo x <- py_nth inp 0; bdo out <- py_set out (Z.of_nat i) [[x]]; K out)
             else (bdo t <- py_add_sum_pow2_m1 inp false (BEnum XAIG); bdo out <- py_set out (Z.of_nat i) t; K out)) s
  = run fresh (bdo o <- pow2_level inp; K (upd out i o)) s.
Proof.
  intros Hi. unfold pow2_level, py_add_sum_pow2_m1.
  destruct inp as [|x [|y inp]]; cbn [length].
  - cbn [Z.of_nat Z.eqb]. rs. destruct (run fresh (add_sum_pow2_m1 (BEnum XAIG) false []) s) as [[o s1]|e]; rs; [|reflexivity].
    rewrite py_set_nat by exact Hi. rs. reflexivity.
  - cbn [Z.of_nat Pos.of_succ_nat Z.eqb Pos.eqb]. rs. rewrite py_nth_0. cbn [nthP nth_res nth_error ret_res]. rs.
    rewrite py_set_nat by exact Hi. rs. reflexivity.
  - destruct (Z.eqb_spec (Z.of_nat (S (S (length inp)))) 1); [lia|]. rs.
    destruct (run fresh (add_sum_pow2_m1 (BEnum XAIG) false (x :: y :: inp)) s) as [[o s1]|e]; rs; [|reflexivity].
    rewrite py_set_nat by exact Hi. rs. reflexivity.
Qed.

(* for j in range(i): if j + len(out[j]) > i: inp += out[j][i - j]     (only out[:i] is read) *)
Lemma gather_fold_eq (G : list label -> Z -> prog (list label)) (mo pad : levels) (i : nat) (inp : list label) :
  length mo = i ->
  (forall inp j, (j < i)%nat ->
     peq (G inp (Z.of_nat j))
         (bdo oj <- py_nth (mo ++ pad) (Z.of_nat j);
          if (Z.of_nat j + py_len oj >? Z.of_nat i)
          then (bdo oj' <- py_nth (mo ++ pad) (Z.of_nat j); bdo col <- py_nth oj' (Z.of_nat i - Z.of_nat j);
                Ret (inp ++ col))
          else Ret inp)) ->
  peq (foldP G (py_range 0 (Z.of_nat i)) inp) (Ret (inp ++ gather i mo)).
Proof.
  intros Hm HG. rewrite py_range_0_nat.
  eapply peq_trans.
  { apply (collect_fold_gen G (fun j => nth (i - j) (nth j mo []) []) i); [|lia].
    intros inp' j Hj fresh s. rewrite HG by exact Hj. rs.
    rewrite (py_nth_ok _ j []) by (rewrite app_length; lia). rs.
    rewrite app_nth1 by lia. unfold py_len.
    destruct (Z.gtb_spec (Z.of_nat j + Z.of_nat (length (nth j mo []))) (Z.of_nat i)) as [H|H]; rs.
    - replace (Z.of_nat i - Z.of_nat j) with (Z.of_nat (i - j)) by lia.
      rewrite (py_nth_ok _ (i - j) []) by lia. rs. reflexivity.
    - rewrite (nth_overflow (nth j mo []) (n:=(i - j)%nat)) by lia. rewrite app_nil_r. reflexivity. }
  rewrite gather_idx by lia. rewrite Hm. apply peq_refl.
Qed.

(* ---- the anti-diagonals of an m x n matrix, by index ------------------------------------------------------------ *)
Section Diag.
  Variable c : list (list label).
  Variables m n : nat.
  Hypothesis Hc : is_matrix m n c.

  (* the rows that have entered before level i, each without the elements already consumed *)
  Definition acts (i : nat) : list (list label) :=
    map (fun r => skipn (i - r) (nth r c [])) (seq 0 (Nat.min i m)).
  Definition acts1 (i : nat) : list (list label) :=
    map (fun r => skipn (i - r) (nth r c [])) (seq 0 (Nat.min (S i) m)).
  (* [c[j][i - j] for j in range(i + 1) if j < m and i - j < n] *)
  Definition diag (i : nat) : list label :=
    flat_map (fun j => if ((j <? m) && (i - j <? n))%nat then [nth (i - j) (nth j c []) ""%string] else [])
             (seq 0 (S i)).

  Lemma acts1_step i : acts i ++ firstn 1 (skipn i c) = acts1 i.
  Proof.
    unfold acts, acts1. destruct Hc as [Hl _].
    destruct (Nat.lt_ge_cases i m) as [H|H].
    - rewrite (skipn_nth c i []) by lia. cbn [firstn].
      replace (Nat.min (S i) m) with (S (Nat.min i m)) by lia.
      rewrite seq_S, map_app. cbn [map Nat.add]. rewrite Nat.min_l by lia. rewrite Nat.sub_diag. reflexivity.
    - rewrite skipn_all2 by lia. cbn [firstn]. rewrite app_nil_r.
      rewrite !Nat.min_r by lia. reflexivity.
  Qed.

  Lemma acts_tl i : map (@tl label) (acts1 i) = acts (S i).
  Proof.
    unfold acts, acts1. rewrite map_map. apply map_ext_in. intros r Hr. apply in_seq in Hr.
    rewrite tl_skipn. f_equal. lia.
  Qed.

  Lemma heads1_acts1 i : heads1 (acts1 i) = diag i.
  Proof.
    unfold acts1, diag, heads1. rewrite flat_map_map.
    destruct Hc as [Hl Hf].
    assert (Hrow : forall r, (r < m)%nat -> length (nth r c []) = n).
    { intros r Hr. apply (is_matrix_row m n); [split; assumption|exact Hr]. }
    destruct (Nat.le_gt_cases (S i) m) as [H|H].
    - rewrite Nat.min_l by lia. apply flat_map_ext_in. intros r Hr. apply in_seq in Hr.
      destruct (Nat.ltb_spec r m); [|lia]. cbn [andb].
      destruct (Nat.ltb_spec (i - r) n) as [H2|H2].
      + rewrite (skipn_nth _ (i - r) ""%string) by (rewrite Hrow; lia). reflexivity.
      + rewrite skipn_all2 by (rewrite Hrow; lia). reflexivity.
    - rewrite Nat.min_r by lia.
      replace (seq 0 (S i)) with (seq 0 m ++ seq (0 + m) (S i - m)) by (rewrite <- seq_app; f_equal; lia).
      rewrite flat_map_app.
      rewrite (flat_map_nil_in _ (seq (0 + m) (S i - m))).
      + rewrite app_nil_r. apply flat_map_ext_in. intros r Hr. apply in_seq in Hr.
        destruct (Nat.ltb_spec r m); [|lia]. cbn [andb].
        destruct (Nat.ltb_spec (i - r) n) as [H2|H2].
        * rewrite (skipn_nth _ (i - r) ""%string) by (rewrite Hrow; lia). reflexivity.
        * rewrite skipn_all2 by (rewrite Hrow; lia). reflexivity.
      + intros r Hr. apply in_seq in Hr. destruct (Nat.ltb_spec r m); [lia|]. reflexivity.
  Qed.

  Lemma pow2_levels_idx : forall k i out,
    peq (pow2_levels k (acts i) (skipn i c) out)
        (lev_idx (fun i out => diag i ++ gather (length out) out) k i out).
  Proof.
    induction k as [|k IH]; intros i out fresh s; cbn [pow2_levels lev_idx]; [reflexivity|].
    rewrite acts1_step, heads1_acts1, acts_tl, skipn_1_skipn. rs.
    destruct (run fresh (pow2_level (diag i ++ gather (length out) out)) s) as [[o s1]|e]; [|reflexivity].
    apply IH.
  Qed.
End Diag.

(* ---- small facts ------------------------------------------------------------------------------------------------ *)
Lemma Z_of_nat_eqb_1 x : (Z.of_nat x =? 1) = (x =? 1)%nat.
Proof. destruct (Nat.eqb_spec x 1) as [->|H]; [reflexivity|]. apply Z.eqb_neq. lia. Qed.

Lemma map_const_range {A} (x : A) k : map (fun _ : Z => x) (py_range 0 (Z.of_nat k)) = repeat x k.
Proof.
  rewrite py_range_0_nat, map_map. induction k as [|k IH]; [reflexivity|].
  rewrite seq_S, map_app, IH. cbn [map]. clear IH. induction k as [|k IH]; [reflexivity|].
  cbn [repeat app]. f_equal. exact IH.
Qed.

Lemma acts_one (c : list (list label)) m c0 crest : c = c0 :: crest -> (1 <= m)%nat -> acts c m 1 = [tl c0].
Proof.
  intros -> Hm. unfold acts. replace (Nat.min 1 m) with 1%nat by lia. cbn [seq map nth Nat.sub].
  destruct c0; reflexivity.
Qed.

(* ---- add_mul_pow2_m1 ---------------------------------------------------------------------------------------------- *)
Theorem gen_add_mul_pow2_m1_eq a0 b0 be : peq (gen_add_mul_pow2_m1 a0 b0 be) (add_mul_pow2_m1 a0 b0 be).
Proof.
  unfold gen_add_mul_pow2_m1, add_mul_pow2_m1. intros fresh s. cbv zeta.
  rewrite run_bind, run_if_rev2. cbv beta iota.
  set (a := rev_if be a0). set (b := rev_if be b0).
  unfold py_len.
  replace (length a0) with (length a) by apply rev_if_length.
  replace (length b0) with (length b) by apply rev_if_length.
  clearbody a b.
  rewrite run_bind.
  rewrite pp_nest_eq by (pp_body; reflexivity).
  rs. destruct (run fresh (pp_matrix a b) s) as [[c s1]|e] eqn:E; rs; [|reflexivity].
  apply pp_matrix_returns in E. set (n := length a) in *. set (m := length b) in *.
  assert (Hcm : length c = m) by apply E.
  rewrite !Z_of_nat_eqb_1.
  destruct (Nat.eqb_spec n 1) as [Hn1|Hn1].
  { (* n == 1 *)
    rs. rewrite <- Hcm.
    rewrite (mapP_index c _ (fun row => nthP row 0) []).
    - destruct (run fresh (mapP (fun row => nthP row 0) c) s1) as [[r s2]|e]; rs; [|reflexivity].
      rewrite gen_reverse_if_big_endian_run. reflexivity.
    - intros i Hi fr st. rs. rewrite (py_nth_ok c i []) by exact Hi. rs. rewrite py_nth_0.
      destruct (run fr (nthP (nth i c []) 0) st) as [[x s2]|e]; reflexivity. }
  destruct (Nat.eqb_spec m 1) as [Hm1|Hm1].
  { rs. rewrite py_nth_0. destruct (run fresh (nthP c 0) s1) as [[c0 s2]|e]; rs; [|reflexivity].
    rewrite gen_reverse_if_big_endian_run. reflexivity. }
  rs. rewrite py_nth_0.
  destruct c as [|c0 crest]; [reflexivity|]. cbn [nthP nth_res nth_error ret_res]. rs.
  rewrite py_nth_0. destruct c0 as [|x c0']; [reflexivity|]. cbn [nthP nth_res nth_error ret_res]. rs.
  assert (Hn : n = S (length c0')).
  { symmetry. apply (is_matrix_row m n (( x :: c0') :: crest) 0 E). cbn [length] in Hcm. lia. }
  cbn [length] in Hcm.
  rewrite <- Nat2Z.inj_add. rewrite map_const_range.
  replace (n + m)%nat with (S (n + m - 1)) at 1 2 by lia. cbn [repeat].
  rewrite py_set_0_ok by (cbn [length]; lia). rs. cbn [upd].
  (* the model's level 0 *)
  replace (n + m)%nat with (S (n + m - 1)) at 4 by lia.
  cbn [pow2_levels app firstn heads1 flat_map gather length pow2_level skipn map tl]. rs.
  set (cc := (x :: c0') :: crest) in *.
  assert (EA : pow2_levels (n + m - 1) [c0'] crest [[[x]]]
               = pow2_levels (n + m - 1) (acts cc m 1) (skipn 1 cc) [[[x]]]).
  { rewrite (acts_one cc m (x :: c0') crest eq_refl) by lia. reflexivity. }
  rewrite EA, (pow2_levels_idx _ m n E).
  assert (Hcc : length cc = m) by apply E.
  clear EA. clearbody cc.
  (* the generated levels 1 .. n + m - 1 *)
  rewrite (py_range_nat 1).
  match goal with |- context [?h :: repeat ?p (n + m - 1)] =>
    change (h :: repeat p (n + m - 1)) with ([h] ++ repeat p (n + m - 1)) end.
  rewrite (levels_fold_gen _ (fun i out => diag cc m n i ++ gather (length out) out) (n + m));
    [ | | reflexivity | apply repeat_length | lia ].
  2:{ intros i mo ph pad Hmo Hpad fr st. cbv beta. rs.
      (* the products of level i *)
      replace (Z.of_nat i + 1) with (Z.of_nat (S i)) by lia. rewrite py_range_0_nat.
      rewrite (collect_fold_gen _ (fun j => if ((j <? m) && (i - j <? n))%nat
                                           then [nth (i - j) (nth j cc []) ""%string] else []) (S i));
        [ | | lia ].
      2:{ intros inp j Hj fr' st'. cbv beta. rs.
          replace (Z.of_nat i - Z.of_nat j) with (Z.of_nat (i - j)) by lia. rewrite !Z_ltb_nat.
          destruct (Nat.ltb_spec j m) as [Hjm|Hjm]; cbn [andb]; rs; [|rewrite app_nil_r; reflexivity].
          destruct (Nat.ltb_spec (i - j) n) as [Hjn|Hjn]; rs; [|rewrite app_nil_r; reflexivity].
          rewrite (py_nth_ok _ j []) by lia. rs.
          rewrite (py_nth_ok_label _ (i - j)) by (rewrite (is_matrix_row m n _ j E) by lia; lia). rs. reflexivity. }
      rs. cbn [app]. fold (diag cc m n i).
      (* the pending columns of the earlier levels *)
      rewrite (gather_fold_eq _ mo (ph :: pad) i) by (try exact Hmo; intros inp j Hj fr' st'; cbv beta; unfold py_len; crunch).
      rs.
      rewrite (level_store_eq fr _ (fun out => Ret out) (mo ++ ph :: pad) i)
        by (rewrite app_length; cbn [length]; lia).
      rs. rewrite Hmo.
      destruct (run fr (pow2_level (diag cc m n i ++ gather i mo)) st) as [[o s2]|e]; rs; [|reflexivity].
      rewrite <- Hmo. rewrite upd_app_mid. reflexivity. }
  rs. cbn [length].
  match goal with |- context [run fresh (lev_idx ?f ?k 1 [[[x]]]) s1] =>
    destruct (run fresh (lev_idx f k 1 [[[x]]]) s1) as [[mo s2]|e] eqn:E2 end; rs; [|reflexivity].
  apply lev_idx_length in E2. cbn [length] in E2.
  replace (n + m)%nat with (length mo) by lia.
  rewrite first_first_index.
  destruct (run fresh (mapP first_first mo) s2) as [[r s3]|e]; rs; [|reflexivity].
  rewrite gen_reverse_if_big_endian_run. reflexivity.
Qed.
