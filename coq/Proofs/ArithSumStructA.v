(* C07 structural facts by kernel computation, A: the XAIG bit counter for every n <= 64:
   returns Ok, gates <= 4.5 n - 2 m, only XAIG gate types, m = number of binary digits of n,
   result labels pairwise distinct. *)
Require Import Cirbo.Model.Base Cirbo.Model.Gate Cirbo.Model.Circuit Cirbo.Model.Builder.
Require Import Cirbo.Model.ArithSumN Cirbo.Model.ArithSumW Cirbo.Model.SumCases.
Require Import Cirbo.Proofs.ArithSumCells Cirbo.Proofs.ArithSumStruct.

Theorem nbits_xaig_struct_upto64 : forallb (nbits_struct_ok XAIG) (seq 1 64) = true.
Proof. vm_cast_no_check (@eq_refl bool true). Qed.
