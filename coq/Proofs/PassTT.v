(* C03 (for MergeEquivalentGates): soundness of get_gates_truth_table and of the grouping.
   Two gates that land in the same truth-table group have the same value under every TOTAL
   assignment of the inputs. *)
Require Import Cirbo.Model.Base Cirbo.Model.Gate Cirbo.Model.Den Cirbo.Model.Circuit Cirbo.Model.Traverse
        Cirbo.Model.Eval Cirbo.Model.Sem Cirbo.Model.WF Cirbo.Model.Passes.
Require Import Cirbo.Generated.Operators Cirbo.Generated.GateTypes.
Require Import Cirbo.Proofs.DictFacts Cirbo.Proofs.SemFacts Cirbo.Proofs.EvalFacts Cirbo.Proofs.WFBase
        Cirbo.Proofs.WFSimple Cirbo.Proofs.TopSortWF Cirbo.Proofs.PassRebuild.
Require Import Coq.Sorting.Permutation.

(* ---------------- zip_inputs ---------------- *)
Lemma zip_inputs_spec ins : forall vals acc r, zip_inputs ins vals acc = Ok r ->
  (NoDup (dkeys acc) -> NoDup (dkeys r)) /\
  (forall l, dmem r l = true <-> dmem acc l = true \/ In l ins) /\
  (forall l, ~ In l ins -> dget r l = dget acc l).
Proof.
  induction ins as [|i ins IH]; intros vals acc r H; simpl in H.
  - injection H as <-. split; [auto|]. split; [intros l; simpl; tauto|auto].
  - destruct vals as [|v vals]; [discriminate|].
    destruct (IH _ _ _ H) as (H1 & H2 & H3). split; [|split].
    + intros Hnd. apply H1, NoDup_dkeys_dset, Hnd.
    + intros l. rewrite H2, dmem_dset. simpl. destruct (leqb_spec l i) as [->|Hne]; simpl; [tauto|].
      split; [tauto|]. intros [Hl|[Hl|Hl]]; auto; congruence.
    + intros l Hl. rewrite H3 by (intros Hi; apply Hl; right; exact Hi).
      apply dget_dset_other. intros ->. apply Hl; left; reflexivity.
Qed.

Lemma zip_inputs_map (f : label -> bool) ins : forall acc,
  exists r, zip_inputs ins (map (fun i => inj (f i)) ins) acc = Ok r /\
            forall i, In i ins -> dget r i = Some (inj (f i)).
Proof.
  induction ins as [|i ins IH]; intros acc; simpl; [exists acc; split; [reflexivity|intros ? []]|].
  destruct (IH (dset acc i (inj (f i)))) as (r & Hr & Hall). exists r. split; [exact Hr|].
  intros j [<-|Hj]; [|apply Hall, Hj].
  destruct (in_dec string_dec i ins) as [Hi|Hi]; [apply Hall, Hi|].
  destruct (zip_inputs_spec _ _ _ _ Hr) as (_ & _ & H3). rewrite (H3 i Hi). apply dget_dset_same.
Qed.

Lemma all_bool_vectors_complete : forall x, In x (all_bool_vectors (length x)).
Proof.
  induction x as [|b x IH]; simpl; [left; reflexivity|].
  apply in_or_app. destruct b; [right|left]; apply in_map; exact IH.
Qed.

(* ---------------- evaluate_full_circuit: key set ---------------- *)
Lemma wf_inputs_are_input_gates c : WF c -> inputs_are_input_gates c.
Proof. intros W l Hl. apply (wf_inputs c W), Hl. Qed.

Lemma init_assignment_keys c a : NoDup (dkeys a) -> NoDup (dkeys (init_assignment c a)).
Proof.
  unfold init_assignment. generalize (inputs c). intros ins; revert a.
  induction ins as [|i ins IH]; intros a Hnd; simpl; [exact Hnd|]. apply IH.
  unfold dsetdefault. destruct (dmem a i) eqn:E; [exact Hnd|].
  unfold dkeys. rewrite map_app. simpl. apply NoDup_count. intros x. rewrite count_app. simpl.
  apply NoDup_count with (x := x) in Hnd. unfold dkeys in Hnd.
  destruct (leqb_spec x i) as [->|]; [|lia].
  assert (~ In i (dkeys a)) as Hn by (intros Hin; apply dmem_keys in Hin; congruence).
  apply count_zero_nIn in Hn. unfold dkeys in Hn. lia.
Qed.

Lemma evaluate_full_circuit_keys c a full :
  WF c -> assigns_inputs_only c a -> NoDup (dkeys a) -> evaluate_full_circuit c a = Ok full ->
  NoDup (dkeys full) /\ forall l, dmem full l = true <-> In l (dkeys (gates c)).
Proof.
  intros W Ha Hnd H. unfold evaluate_full_circuit in H. binv H order Hord.
  pose proof (top_sort_perm c true order W Hord) as Hperm.
  set (P := fun (pre : list label) (d : assignment) =>
              NoDup (dkeys d) /\
              forall l, dmem d l = true <->
                        In l (inputs c) \/ (In l pre /\ exists g, dget (gates c) l = Some g /\ gtyp g <> INPUT)).
  assert (HP : P order full).
  { eapply (foldM_prefix _ P order) with (l := order) (pre := []); [|reflexivity| |exact H].
    - intros pre x post s s' _ [Hn Hk] Hstep. binv Hstep g Hg. apply get_gate_ok in Hg.
      destruct (gtype_beq (gtyp g) INPUT) eqn:Et.
      + injection Hstep as <-. split; [exact Hn|]. intros l. rewrite Hk, in_app_iff. simpl. split.
        * intros [H1|[H1 H2]]; [left; exact H1|right; tauto].
        * intros [H1|[[H1|[<-|[]]] (g0 & Hg0 & Ht0)]]; [left; exact H1|right; eauto|].
          rewrite Hg in Hg0. injection Hg0 as <-. apply gtype_beq_eq in Et. contradiction.
      + binv Hstep v Hv. injection Hstep as <-. split; [apply NoDup_dkeys_dset, Hn|].
        intros l. rewrite dmem_dset, orb_true_iff, Hk, in_app_iff. simpl.
        destruct (leqb_spec l x) as [->|Hne].
        * split; [|auto]. intros _. right. split; [auto|]. exists g. split; [exact Hg|].
          intros E; rewrite E in Et; discriminate.
        * split; [intros [H1|[H1|[H1 H2]]]; [discriminate|auto|right; tauto]|].
          intros [H1|[[H1|[H1|[]]] H2]]; [auto|right; right; auto|congruence].
    - split; [apply init_assignment_keys, Hnd|]. intros l. unfold dmem, init_assignment.
      rewrite setdefaults_get. split.
      + destruct (dget a l) eqn:E.
        * intros _. left. apply Ha. unfold dmem. rewrite E. reflexivity.
        * destruct (memb l (inputs c)) eqn:Em; [intros _; left; apply memb_In, Em|discriminate].
      + intros [H1|[[] _]]. apply memb_In in H1. rewrite H1. destruct (dget a l); reflexivity. }
  destruct HP as [Hn Hk]. split; [exact Hn|]. intros l. rewrite Hk. split.
  - intros [H1|[_ (g & Hg & _)]].
    + apply (wf_inputs c W) in H1. destruct H1 as (g & Hg & _). eapply dget_In_keys; eassumption.
    + eapply dget_In_keys; eassumption.
  - intros Hl. apply key_has_gate in Hl. destruct Hl as [g Hg].
    destruct (gtype_eq_dec (gtyp g) INPUT) as [Ht|Ht].
    + left. apply (wf_inputs c W). eauto.
    + right. split; [|eauto]. apply (Permutation_in _ (Permutation_sym Hperm)). eapply dget_In_keys; eassumption.
Qed.

(* ---------------- one column of the truth tables ---------------- *)
Definition tt_add (acc : dict (list st)) (kv : label * st) : dict (list st) :=
  match dget acc (fst kv) with
  | Some l => dset acc (fst kv) (l ++ [snd kv])
  | None => dset acc (fst kv) [snd kv]
  end.

Definition old_of (acc : dict (list st)) (k : label) : list st :=
  match dget acc k with Some l => l | None => [] end.

Lemma tt_add_dset acc kv : tt_add acc kv = dset acc (fst kv) (old_of acc (fst kv) ++ [snd kv]).
Proof. unfold tt_add, old_of. destruct (dget acc (fst kv)); reflexivity. Qed.

Lemma tt_column (full : dict st) : forall acc, NoDup (dkeys full) ->
  (NoDup (dkeys acc) -> NoDup (dkeys (fold_left tt_add full acc))) /\
  forall k, dget (fold_left tt_add full acc) k =
            match dget full k with
            | Some v => Some (old_of acc k ++ [v])
            | None => dget acc k
            end.
Proof.
  induction full as [|[k0 v0] full IH]; intros acc Hnd; simpl; [auto|].
  inversion Hnd as [|? ? Hk0 Hnd']; subst. destruct (IH (tt_add acc (k0, v0)) Hnd') as [I1 I2].
  split; [intros Ha; apply I1; rewrite tt_add_dset; apply NoDup_dkeys_dset, Ha|].
  intros k. rewrite I2, tt_add_dset. simpl. destruct (leqb_spec k k0) as [->|Hne].
  - apply dget_None_keys in Hk0. rewrite Hk0. apply dget_dset_same.
  - unfold old_of. rewrite dget_dset_other by exact Hne. reflexivity.
Qed.

(* ---------------- get_gates_truth_table ---------------- *)
Section TT.
  Variable c : circuit.
  Hypothesis W : WF c.

  (* the value of l under the Boolean input vector x *)
  Definition eval_at (l : label) (x : list bool) (v : st) : Prop :=
    exists ax, zip_inputs (inputs c) (map inj x) [] = Ok ax /\ Eval c ax l v.

  Record TTInv (pre : list (list bool)) (acc : dict (list st)) : Prop := mkTTInv {
    tt_nodup : NoDup (dkeys acc);
    tt_sound : forall l vs, dget acc l = Some vs -> Forall2 (eval_at l) pre vs;
    tt_full : pre <> [] -> forall l, In l (dkeys (gates c)) -> dmem acc l = true;
    tt_keys : forall l, dmem acc l = true -> In l (dkeys (gates c)) }.

  Theorem gates_truth_table_sound gtt :
    get_gates_truth_table c = Ok gtt ->
    NoDup (dkeys gtt) /\
    forall l vs, dget gtt l = Some vs ->
                 Forall2 (eval_at l) (all_bool_vectors (length (inputs c))) vs.
  Proof.
    intros H. unfold get_gates_truth_table in H.
    assert (I : TTInv (all_bool_vectors (length (inputs c))) gtt).
    { eapply (foldM_prefix _ TTInv) with (pre := []); [|reflexivity| |exact H].
      - intros pre x post acc acc' _ [Hn Hs Hf Hk] Hstep. binv Hstep ax Hax. binv Hstep full Hfull.
        injection Hstep as <-. fold tt_add.
        destruct (zip_inputs_spec _ _ _ _ Hax) as (Z1 & Z2 & _).
        assert (Hao : assigns_inputs_only c ax).
        { intros l Hl. apply Z2 in Hl. destruct Hl as [Hl|Hl]; [discriminate|exact Hl]. }
        assert (Hnd : NoDup (dkeys ax)) by (apply Z1; constructor).
        destruct (evaluate_full_circuit_keys c ax full W Hao Hnd Hfull) as [F1 F2].
        pose proof (evaluate_full_circuit_sound c ax full (wf_inputs_are_input_gates c W) Hao Hfull) as Fs.
        destruct (tt_column full acc F1) as [C1 C2]. constructor.
        + apply C1, Hn.
        + intros l vs. rewrite C2. destruct (dget full l) as [v|] eqn:Ef.
          * intros [= <-]. assert (Hv : eval_at l x v) by (exists ax; split; [exact Hax|apply Fs, Ef]).
            unfold old_of. destruct (dget acc l) as [vs0|] eqn:Ea.
            -- apply Forall2_app; [apply Hs, Ea|repeat constructor; exact Hv].
            -- destruct pre as [|p pre]; [simpl; repeat constructor; exact Hv|exfalso].
               assert (dmem acc l = true) as Hm.
               { apply Hf; [discriminate|]. apply F2. unfold dmem. rewrite Ef. reflexivity. }
               unfold dmem in Hm. rewrite Ea in Hm. discriminate.
          * intros Ha. exfalso. assert (dmem full l = true) as Hm.
            { apply F2, Hk. unfold dmem. rewrite Ha. reflexivity. }
            unfold dmem in Hm. rewrite Ef in Hm. discriminate.
        + intros _ l Hl. apply F2 in Hl. unfold dmem in *. rewrite C2.
          destruct (dget full l); [reflexivity|discriminate].
        + intros l. unfold dmem. rewrite C2. destruct (dget full l) eqn:Ef.
          * intros _. apply F2. unfold dmem. rewrite Ef. reflexivity.
          * apply Hk.
      - constructor; simpl; [constructor|intros; discriminate|congruence|intros; discriminate]. }
    destruct I as [I1 I2 _ _]. auto.
  Qed.

  (* every total assignment agrees on the inputs with one of the enumerated vectors *)
  Lemma total_vector a : total_on c a ->
    exists x ax, In x (all_bool_vectors (length (inputs c))) /\
                 zip_inputs (inputs c) (map inj x) [] = Ok ax /\
                 forall i, In i (inputs c) -> aval ax i = aval a i.
  Proof.
    intros Ht. set (f := fun i => match aval a i with T => true | _ => false end).
    destruct (zip_inputs_map f (inputs c) []) as (ax & Hax & Hall).
    exists (map f (inputs c)), ax. split; [|split].
    - rewrite <- (map_length f (inputs c)). apply all_bool_vectors_complete.
    - rewrite map_map. exact Hax.
    - intros i Hi. unfold aval at 1. rewrite (Hall i Hi).
      apply (wf_inputs c W) in Hi. destruct Hi as (g & Hg & Hty). pose proof (Ht i g Hg Hty) as Hu.
      unfold f. destruct (aval a i); [reflexivity|reflexivity|contradiction].
  Qed.

  Lemma Forall2_both {A B} (P Q : A -> B -> Prop) xs vs x :
    Forall2 P xs vs -> Forall2 Q xs vs -> In x xs -> exists v, P x v /\ Q x v.
  Proof.
    intros HP; revert x. induction HP as [|y v xs vs Hy _ IH]; intros x HQ Hx; [destruct Hx|].
    inversion HQ; subst. destruct Hx as [<-|Hx]; [eauto|apply IH; assumption].
  Qed.

  (* equal truth tables: equal values under every total assignment *)
  Theorem same_tt_eqv gtt l1 l2 tt a :
    get_gates_truth_table c = Ok gtt -> dget gtt l1 = Some tt -> dget gtt l2 = Some tt ->
    total_on c a -> eqv c a l1 l2.
  Proof.
    intros Hg H1 H2 Ht. destruct (gates_truth_table_sound gtt Hg) as [_ Hs].
    destruct (total_vector a Ht) as (x & ax & Hx & Hax & Hag).
    destruct (Forall2_both _ _ _ _ x (Hs _ _ H1) (Hs _ _ H2) Hx) as (w & (ax1 & E1 & V1) & (ax2 & E2 & V2)).
    assert (ax1 = ax) by congruence. assert (ax2 = ax) by congruence. subst ax1 ax2.
    assert (Hext : forall l v, Eval c a l v <-> Eval c ax l v).
    { intros l v. split; apply Eval_ext; intros i g Hgi Hty; [symmetry|]; apply Hag, (wf_inputs c W); eauto. }
    intros v. rewrite !Hext. split; intros He.
    - rewrite (Eval_functional _ _ _ _ _ He V1). exact V2.
    - rewrite (Eval_functional _ _ _ _ _ He V2). exact V1.
  Qed.

  (* ---------------- grouping ---------------- *)
  Lemma stl_eqb_eq t1 t2 : stl_eqb t1 t2 = true -> t1 = t2.
  Proof. apply all_eqb_eq. apply st_beq_eq. Qed.

  Lemma group_insert_inv (gtt : dict (list st)) gs tt l :
    (forall tt' ls, In (tt', ls) gs -> forall x, In x ls -> In (x, tt') gtt) ->
    In (l, tt) gtt ->
    forall tt' ls, In (tt', ls) (group_insert gs tt l) -> forall x, In x ls -> In (x, tt') gtt.
  Proof.
    intros Hgs Hl. induction gs as [|[t0 ls0] gs IH]; simpl.
    - intros tt' ls [[= <- <-]|[]] x [<-|[]]. exact Hl.
    - destruct (stl_eqb t0 tt) eqn:E.
      + apply stl_eqb_eq in E. subst t0. intros tt' ls [[= <- <-]|Hin] x Hx.
        * apply in_app_or in Hx. destruct Hx as [Hx|[<-|[]]]; [|exact Hl].
          eapply Hgs; [left; reflexivity|exact Hx].
        * eapply Hgs; [right; exact Hin|exact Hx].
      + intros tt' ls [[= <- <-]|Hin] x Hx.
        * eapply Hgs; [left; reflexivity|exact Hx].
        * eapply IH; [|exact Hin|exact Hx]. intros; eapply Hgs; [right; eassumption|assumption].
  Qed.

  Theorem groups_sem groups g x y a :
    find_equivalent_groups c = Ok groups -> In g groups -> In x g -> In y g ->
    total_on c a -> eqv c a x y.
  Proof.
    intros H Hg Hx Hy Ht. unfold find_equivalent_groups in H. binv H gtt Hgtt. injection H as <-.
    apply filter_In in Hg. destruct Hg as [Hg _]. apply in_map_iff in Hg. destruct Hg as ([tt ls] & E & Hin).
    simpl in E. subst ls.
    assert (Hinv : forall tt' ls, In (tt', ls)
                     (fold_left (fun gs (kv : label * list st) => group_insert gs (snd kv) (fst kv)) gtt []) ->
                   forall z, In z ls -> In (z, tt') gtt).
    { apply (fold_left_inv _ (fun gs => forall tt' ls, In (tt', ls) gs -> forall z, In z ls -> In (z, tt') gtt)).
      - intros gs [l t] Hl Hgs. simpl. apply group_insert_inv; assumption.
      - intros ? ? []. }
    destruct (gates_truth_table_sound gtt Hgtt) as [Hnd _].
    pose proof (Hinv _ _ Hin x Hx) as Hx'. pose proof (Hinv _ _ Hin y Hy) as Hy'.
    apply (In_dget _ _ _ Hnd) in Hx'. apply (In_dget _ _ _ Hnd) in Hy'.
    eapply same_tt_eqv; eassumption.
  Qed.
End TT.
