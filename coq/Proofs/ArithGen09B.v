(* Generated/ArithGen09.v (translator T14) equals the hand model, part B: subtraction.py
   (add_sub_two_numbers, add_subtract_with_compare). *)
Require Import Cirbo.Model.Base Cirbo.Model.Gate Cirbo.Model.Circuit Cirbo.Model.Builder Cirbo.Model.PyPrims.
Require Import Cirbo.Generated.ArithTables Cirbo.Generated.ArithCells Cirbo.Generated.ArithGen09.
Require Import Cirbo.Model.ArithSub.
Require Import Cirbo.Proofs.ArithGen09Lib Cirbo.Proofs.ArithGen09A.
From Coq Require Import ZArith Lia Ascii.
Open Scope Z_scope.

(* one position of the ripple: the cell and the unpacking of its two results *)
Definition sub_cell (x : label) (oy : option label) (z : label) : prog (label * label) :=
  bdo r <- (match oy with Some y => add_sub3 [x; y; z] false | None => add_sub2 [x; z] false end);
  unpack2 r.

(* sub_loop with the whole list of borrows *)
Fixpoint sub_loop_full (a b : list label) (bal : label) : prog (list label * list label) :=
  match a with
  | [] => Ret ([], [])
  | ai :: a' =>
    bdo rb <- sub_cell ai (hd_error b) bal;
    bdo rs <- sub_loop_full a' (tl b) (snd rb);
    Ret (fst rb :: fst rs, snd rb :: snd rs)
  end.

Lemma last_cons_default {A} (l : list A) : forall x d, last (x :: l) d = last l x.
Proof.
  induction l as [|y l IH]; intros x d; [reflexivity|].
  change (last (x :: y :: l) d) with (last (y :: l) d). rewrite !IH. reflexivity.
Qed.

Lemma sub_loop_full_spec a : forall b bal,
  peq (sub_loop a b bal) (bdo r <- sub_loop_full a b bal; Ret (fst r, last (snd r) bal)).
Proof.
  induction a as [|ai a IH]; intros b bal fresh s; cbn [sub_loop sub_loop_full]; rs; [reflexivity|].
  unfold sub_cell. rs.
  destruct b as [|bi b]; cbn [hd_error tl]; step; step; rewrite IH; rs; step;
    destruct p0 as [r1 r2]; cbn [fst snd]; rewrite last_cons_default; reflexivity.
Qed.

Lemma hd_error_skipn {A} (l : list A) i : hd_error (skipn i l) = nth_error l i.
Proof. revert i; induction l as [|x l IH]; intros [|i]; cbn; auto. Qed.

Lemma tl_skipn {A} (l : list A) i : tl (skipn i l) = skipn (S i) l.
Proof.
  revert i; induction l as [|x l IH]; intros i.
  - destruct i; reflexivity.
  - destruct i; cbn [skipn tl]; [reflexivity|apply IH].
Qed.

Lemma firstn_S_upd {A} (l : list A) i x : (i < length l)%nat -> firstn (S i) (upd l i x) = firstn i l ++ [x].
Proof.
  revert i; induction l as [|y l IH]; intros [|i] H; cbn in *; try lia; [reflexivity|].
  f_equal. apply IH. lia.
Qed.

(* for i in range(1, n): res[i], bal[i] = <cell>(a[i], b[i] if any, bal[i - 1]) -- for any loop body f that
   does this at position i *)
Lemma sub_fold_gen (f : list label * list label -> Z -> prog (list label * list label)) (a b : list label) n :
  length a = n ->
  (forall res bal i, (1 <= i < n)%nat -> length res = n -> length bal = n ->
     peq (f (res, bal) (Z.of_nat i))
         (bdo r <- sub_cell (nth i a ""%string) (nth_error b i) (nth (i - 1) bal ""%string);
          Ret (upd res i (fst r), upd bal i (snd r)))) ->
  forall k i res bal, (i + k = n)%nat -> (1 <= i)%nat -> length res = n -> length bal = n ->
  peq (foldP f (map Z.of_nat (seq i k)) (res, bal))
      (bdo r <- sub_loop_full (skipn i a) (skipn i b) (nth (i - 1) bal ""%string);
       Ret (firstn i res ++ fst r, firstn i bal ++ snd r)).
Proof.
  intros Ha Hf. induction k as [|k IH]; intros i res bal Hi H1 Hr Hb fresh s.
  - rewrite (skipn_all2 (n:=i) a) by lia. cbn [seq map foldP sub_loop_full]. rs.
    rewrite !firstn_all2, !app_nil_r by lia. reflexivity.
  - rewrite (skipn_nth a i ""%string) by lia.
    cbn [seq map foldP sub_loop_full]. rs. rewrite Hf by lia. rs.
    rewrite hd_error_skipn, tl_skipn. step. destruct p as [u v]. cbn [fst snd].
    rewrite IH by (rewrite ?upd_length; lia). rs.
    replace (S i - 1)%nat with i by lia. rewrite nth_upd_same by lia.
    step. destruct p as [r1 r2]. cbn [fst snd].
    rewrite !firstn_S_upd by lia. rewrite <- !app_assoc. reflexivity.
Qed.

Lemma py_unpack2_unpack2 {A} (l : list A) : py_unpack2 l = unpack2 l.
Proof. reflexivity. Qed.

Lemma Z_of_nat_ltb_len {A} i (l : list A) : (Z.of_nat i <? py_len l) = (i <? length l)%nat.
Proof. apply Z_ltb_nat. Qed.

Lemma nth_error_nth_lt (l : list label) i : (i < length l)%nat -> nth_error l i = Some (nth i l ""%string).
Proof. intros H. apply nth_error_nth'. exact H. Qed.

Theorem gen_add_sub_two_numbers_eq a0 b0 be :
  peq (gen_add_sub_two_numbers a0 b0 be) (add_sub_two_numbers a0 b0 be).
Proof.
  unfold gen_add_sub_two_numbers, add_sub_two_numbers, sub_ripple.
  set (a := rev_if be a0). set (b := rev_if be b0).
  assert (La : length a = length a0) by apply rev_if_length.
  assert (Lb : length b = length b0) by apply rev_if_length.
  intros fresh s. cbv zeta.
  rewrite run_bind, run_if_rev2. fold a b.
  cbv beta iota. rewrite !py_nth_0.
  destruct a as [|x0 a']; [reflexivity|]. destruct b as [|y0 b']; [reflexivity|].
  rs. cbn [nthP nth_res nth_error ret_res]. rs. step.
  rewrite py_unpack2_unpack2. step. destruct p as [u v].
  unfold py_len. rewrite <- La. cbn [length]. rewrite py_mul_single.
  change 0 with (Z.of_nat 0). rewrite !py_set_nat by (cbn [repeat length]; lia). rs.
  rewrite Nat2Z.inj_succ. change (Z.succ (Z.of_nat (length a'))) with (Z.of_nat (S (length a'))) || rewrite <- Nat2Z.inj_succ.
  rewrite py_range_1_nat.
  erewrite (sub_fold_gen _ (x0 :: a') (y0 :: b') (S (length a')) eq_refl);
    [ | | | | cbn [repeat upd length]; rewrite repeat_length; reflexivity
          | cbn [repeat upd length]; rewrite repeat_length; reflexivity ]; cycle 1.
  - (* the loop body *)
    intros res bal i Hi Hr Hb fresh' s'. cbv beta iota.
    rewrite <- Lb. change (Z.of_nat (length (y0 :: b'))) with (py_len (y0 :: b')).
    rewrite Z_of_nat_ltb_len. unfold sub_cell.
    destruct (Nat.ltb_spec i (length (y0 :: b'))) as [Hlt|Hge].
    + rewrite (nth_error_nth_lt _ _ Hlt). rs. do 3 step. step.
      rewrite py_unpack2_unpack2. step. destruct p as [u' v']. cbn [fst snd].
      do 2 step.
    + assert (E : nth_error (y0 :: b') i = None) by (apply nth_error_None; lia). rewrite E.
      rs. do 2 step. step. rewrite py_unpack2_unpack2. step. destruct p as [u' v']. cbn [fst snd].
      do 2 step.
  - lia.
  - lia.
  - rs. cbn [skipn tl]. rewrite sub_loop_full_spec. rs.
    cbn [repeat upd nth Nat.sub fst snd]. step. destruct p as [r1 r2]. cbn [fst snd firstn app].
    rewrite gen_reverse_if_big_endian_run. reflexivity.
Qed.

(* ---- add_subtract_with_compare ------------------------------------------------------------------------- *)
(* while len(a) < len(b): a.append(x) *)
Lemma run_pad_while_lt fresh (x : label) (b : list label) s : forall k a, k = (length b - length a)%nat ->
  run fresh (py_while k (fun a => py_len a <? py_len b) (fun a => let a := a ++ [x] in Ret a) a) s
  = Ok (a ++ repeat x (length b - length a), s).
Proof.
  induction k as [|k IH]; intros a Hk; cbn [py_while]; unfold py_len at 1 2; rewrite Z_ltb_nat.
  - destruct (Nat.ltb_spec (length a) (length b)); [lia|]. rewrite <- Hk. cbn [repeat]. rewrite app_nil_r. reflexivity.
  - destruct (Nat.ltb_spec (length a) (length b)); [|lia]. rs. rewrite IH by (rewrite app_length; cbn [length]; lia).
    rewrite app_length. cbn [length]. rewrite <- app_assoc.
    replace (length b - length a)%nat with (S (length b - (length a + 1)))%nat by lia. reflexivity.
Qed.

(* while len(a) > len(b): b.append(x) *)
Lemma run_pad_while_gt fresh (x : label) (a : list label) s : forall k b, k = (length a - length b)%nat ->
  run fresh (py_while k (fun b => py_len a >? py_len b) (fun b => let b := b ++ [x] in Ret b) b) s
  = Ok (b ++ repeat x (length a - length b), s).
Proof.
  induction k as [|k IH]; intros b Hk; cbn [py_while]; unfold py_len at 1 2; rewrite Z.gtb_ltb, Z_ltb_nat.
  - destruct (Nat.ltb_spec (length b) (length a)); [lia|]. rewrite <- Hk. cbn [repeat]. rewrite app_nil_r. reflexivity.
  - destruct (Nat.ltb_spec (length b) (length a)); [|lia]. rs. rewrite IH by (rewrite app_length; cbn [length]; lia).
    rewrite app_length. cbn [length]. rewrite <- app_assoc.
    replace (length a - length b)%nat with (S (length a - (length b + 1)))%nat by lia. reflexivity.
Qed.

Lemma sub_loop_full_lengths a : forall b z,
  returns (sub_loop_full a b z) (fun r => length (fst r) = length a /\ length (snd r) = length a).
Proof.
  induction a as [|ai a IH]; intros b z fresh s r s'; cbn [sub_loop_full]; rs.
  - intros H; inversion H; split; reflexivity.
  - destruct (run fresh (sub_cell ai (hd_error b) z) s) as [[rb s1]|e]; rs; [|discriminate].
    destruct (run fresh (sub_loop_full a (tl b) (snd rb)) s1) as [[rs_ s2]|e] eqn:E; rs; [|discriminate].
    intros H; inversion H; subst. cbn [fst snd length]. apply IH in E. lia.
Qed.

Lemma nth_length_cons {A} (l : list A) : forall x d, nth (length l) (x :: l) d = last l x.
Proof.
  induction l as [|y l IH]; intros x d; [reflexivity|].
  cbn [length]. change (nth (S (length l)) (x :: y :: l) d) with (nth (length l) (y :: l) d).
  rewrite IH. symmetry. apply last_cons_default.
Qed.

Theorem gen_add_subtract_with_compare_eq a0 b0 be :
  peq (gen_add_subtract_with_compare a0 b0 be) (add_subtract_with_compare a0 b0 be).
Proof.
  unfold gen_add_subtract_with_compare, add_subtract_with_compare, sub_ripple, pad_to.
  intros fresh s. cbv zeta. rewrite !py_nth_0.
  destruct a0 as [|xa a0']; [reflexivity|]. destruct b0 as [|xb b0']; [reflexivity|].
  cbn [nthP nth_res nth_error ret_res]. rs. change (TT false false false false) with tt_false.
  destruct (run fresh (gate_tt tt_false xa xb) s) as [[af s1]|e]; rs; [|reflexivity].
  rewrite run_if_rev2. cbv beta iota.
  set (a := rev_if be (xa :: a0')). set (b := rev_if be (xb :: b0')).
  assert (La : (1 <= length a)%nat).
  { subst a. rewrite rev_if_length. cbn; lia. }
  rewrite run_bind.
  replace (Z.to_nat (py_len b - py_len a)) with (length b - length a)%nat by (unfold py_len; lia).
  rewrite run_pad_while_lt by reflexivity. cbv beta iota.
  set (a' := a ++ repeat af (length b - length a)).
  rewrite run_bind.
  replace (Z.to_nat (py_len a' - py_len b)) with (length a' - length b)%nat by (unfold py_len; lia).
  rewrite run_pad_while_gt by reflexivity. cbv beta iota.
  assert (Ea : a ++ repeat af (Nat.max (length a) (length b) - length a) = a').
  { subst a'. f_equal. f_equal. lia. }
  assert (La' : length a' = Nat.max (length a) (length b)).
  { subst a'. rewrite app_length, repeat_length. lia. }
  rewrite Ea. replace (Nat.max (length a) (length b) - length b)%nat with (length a' - length b)%nat by lia.
  set (b' := b ++ repeat af (length a' - length b)).
  assert (Lb' : length b' = length a').
  { subst b'. rewrite app_length, repeat_length. lia. }
  rewrite gen_validate_equal_sizes_eq, <- Lb', Nat.eqb_refl. rs.
  rewrite !py_nth_0.
  destruct a' as [|x0 a'']; [cbn [length] in La'; lia|].
  destruct b' as [|y0 b'']; [discriminate|].
  cbn [nthP nth_res nth_error ret_res]. rs. step.
  rewrite py_unpack2_unpack2. step. destruct p as [u v].
  unfold py_len. cbn [length]. rewrite py_mul_single.
  change 0 with (Z.of_nat 0). rewrite !py_set_nat by (cbn [repeat length]; lia). rs.
  rewrite py_range_1_nat.
  erewrite (sub_fold_gen _ (x0 :: a'') (y0 :: b'') (S (length a'')) eq_refl);
    [ | | | | cbn [repeat upd length]; rewrite repeat_length; reflexivity
          | cbn [repeat upd length]; rewrite repeat_length; reflexivity ]; cycle 1.
  - intros res bal i Hi Hr Hb fresh' s'. cbv beta iota. unfold sub_cell.
    assert (Hlt : (i < length (y0 :: b''))%nat) by (rewrite Lb'; cbn [length]; lia).
    rewrite (nth_error_nth_lt _ _ Hlt). do 3 step. step.
    rewrite py_unpack2_unpack2. step. destruct p as [u' v']. cbn [fst snd].
    do 2 step.
  - lia.
  - lia.
  - rs. cbn [skipn tl]. rewrite sub_loop_full_spec. rs.
    cbn [repeat upd nth Nat.sub fst snd].
    match goal with |- context [run fresh (sub_loop_full a'' b'' v) ?st] =>
      destruct (run fresh (sub_loop_full a'' b'' v) st) as [[[r1 r2] s3]|e] eqn:E end; rs; [|reflexivity].
    apply sub_loop_full_lengths in E. cbn [fst snd] in E. destruct E as [E1 E2].
    cbn [fst snd firstn app].
    rewrite gen_reverse_if_big_endian_run. rs.
    replace (Z.of_nat (S (length a'')) - 1) with (Z.of_nat (length r2)) by lia.
    rewrite py_nth_ok_label by (cbn [length]; lia). rs.
    rewrite nth_length_cons. reflexivity.
Qed.
