(* The statements of C16 assembled from the lemma files (Properties/C16.v only restates them). *)
Require Import Cirbo.Model.Base Cirbo.Model.Gate Cirbo.Model.Den Cirbo.Model.Circuit Cirbo.Model.Eval Cirbo.Model.Sem.
Require Import Cirbo.Model.BitIO Cirbo.Model.DictIO Cirbo.Model.Codec Cirbo.Generated.CodecTables.
Require Import Cirbo.Proofs.BitIOFacts Cirbo.Proofs.DictIOFacts Cirbo.Proofs.CodecTableFacts.
Require Import Cirbo.Proofs.CodecIds Cirbo.Proofs.IsoFacts Cirbo.Proofs.CodecFacts.

Lemma number_roundtrip_full x k rest :
  (x < 2 ^ N.of_nat k)%N ->
  exists b, write_number x k = Ok b /\ length b = k /\ read_number k (b ++ rest) = Ok (x, rest).
Proof.
  intros H. exists (number_bits x k). split; [apply write_number_ok; exact H|].
  split; [apply length_number_bits|apply read_number_app; exact H].
Qed.

Lemma reader_exhausted k r : (length r < k)%nat -> read_number k r = Err BitIOError /\ read_bits k r = Err BitIOError.
Proof. intros H; split; [apply read_number_short|apply read_bits_short]; exact H. Qed.

Lemma dict_roundtrip_full d :
  dict_ok d -> within_limits d -> exists img, write_binary_dict d = Ok img /\ read_binary_dict img = Ok d.
Proof.
  intros Hok Hl. destruct (write_within_limits _ Hl) as (img & Hw). exists img. split; [exact Hw|].
  apply dict_roundtrip; assumption.
Qed.

Lemma encode_then_decode c bs :
  codec_wf c -> encode_circuit c = Ok bs ->
  exists c' f, decode_circuit bs = Ok c' /\ iso f c c' /\ ops_exist c /\ outputs_exist c.
Proof.
  intros Hwf He. destruct (encode_decode_iso _ _ Hwf He) as (c' & d & H1 & H2 & H3 & H4).
  exists c', (relabel d). auto.
Qed.

Lemma format_circuits_roundtrip c :
  codec_wf c -> ops_exist c -> outputs_exist c -> acyclic c -> format_ok c -> (word_size c < 256)%nat ->
  exists bs c' f, encode_circuit c = Ok bs /\ decode_circuit bs = Ok c' /\ iso f c c'.
Proof.
  intros Hwf Hex Hout Hac Hfmt Hws.
  destruct (format_circuits_encode _ Hwf Hex Hout Hac Hfmt Hws) as (bs & He).
  destruct (encode_then_decode _ _ Hwf He) as (c' & f & Hd & Hi & _). exists bs, c', f. auto.
Qed.
