(* Facts about the relational semantics that need no well-formedness:
   functionality, monotonicity in the information order (C15), totality of values
   under total assignments. *)
Require Import Cirbo.Model.Base Cirbo.Model.Gate Cirbo.Model.Den Cirbo.Model.Circuit Cirbo.Model.Eval Cirbo.Model.Sem.
Require Import Cirbo.Generated.GateTypes Cirbo.Proofs.OpFacts.

Lemma Forall2_eq_l {A B} (P : A -> B -> Prop) (l : list A) (m m' : list B) :
  Forall2 (fun x y => forall y', P x y' -> y = y') l m -> Forall2 P l m' -> m = m'.
Proof.
  intros H; revert m'; induction H as [|x y l m Hxy _ IH]; intros m' H'; inversion H'; subst; [reflexivity|].
  f_equal; auto.
Qed.

Theorem Eval_functional c a l v v' : Eval c a l v -> Eval c a l v' -> v = v'.
Proof.
  intros H; revert v'; induction H as [l g Hg Ht|l g vs v Hg Ht Hops IH Hop] using Eval_ind2; intros v' H'.
  - inversion H' as [l' g' Hg' Ht'|l' g' vs' v'' Hg' Ht' Hops' Hop']; subst; [reflexivity|].
    rewrite Hg in Hg'; injection Hg' as <-; contradiction.
  - inversion H' as [l' g' Hg' Ht'|l' g' vs' v'' Hg' Ht' Hops' Hop']; subst;
      rewrite Hg in Hg'; injection Hg' as <-; [contradiction|].
    assert (vs = vs') as <- by (eapply Forall2_eq_l; eassumption).
    congruence.
Qed.

(* C15: defining more inputs can only refine results *)
Theorem Eval_mono c a a' l v :
  assign_le a a' -> Eval c a l v -> exists v', Eval c a' l v' /\ st_le v v'.
Proof.
  intros Hle H; induction H as [l g Hg Ht|l g vs v Hg Ht Hops IH Hop] using Eval_ind2.
  - exists (aval a' l); split; [econstructor; eassumption|apply Hle].
  - assert (exists vs', Forall2 (Eval c a') (gops g) vs' /\ Forall2 st_le vs vs') as (vs' & He & Hl).
    { clear Hop Hops. induction IH as [|x y ls ys (y' & Hy1 & Hy2) _ (r & Hr1 & Hr2)].
      - exists []; split; constructor.
      - exists (y' :: r); split; constructor; assumption. }
    destruct (operator_of_mono _ _ _ _ Hl Hop) as (v' & Hop' & Hv).
    exists v'; split; [eapply EvalGate; eassumption|exact Hv].
Qed.

Corollary Eval_mono2 c a a' l v v' :
  assign_le a a' -> Eval c a l v -> Eval c a' l v' -> st_le v v'.
Proof.
  intros Hle H H'. destruct (Eval_mono _ _ _ _ _ Hle H) as (w & Hw & Hvw).
  rewrite (Eval_functional _ _ _ _ _ H' Hw); exact Hvw.
Qed.

(* a value that is already defined is the value under every extension of the assignment *)
Corollary Eval_defined_stable c a a' l v :
  assign_le a a' -> Eval c a l v -> v <> U -> Eval c a' l v.
Proof.
  intros Hle H Hv. destruct (Eval_mono _ _ _ _ _ Hle H) as (w & Hw & [Hu|<-]); [contradiction|exact Hw].
Qed.

Lemma all_defined_inj vs : Forall (fun v => v <> U) vs -> exists bs, vs = map inj bs.
Proof.
  induction 1 as [|v vs Hv _ (bs & ->)]; [exists []; reflexivity|].
  destruct v; [exists (false :: bs)|exists (true :: bs)|contradiction]; reflexivity.
Qed.

(* a total assignment never produces Undefined *)
Theorem Eval_total c a l v : total_on c a -> Eval c a l v -> v <> U.
Proof.
  intros Ht H; induction H as [l g Hg Hty|l g vs v Hg Hty Hops IH Hop] using Eval_ind2.
  - eapply Ht; eassumption.
  - assert (Forall (fun v => v <> U) vs) as Hall.
    { clear Hop Hops. induction IH; constructor; assumption. }
    destruct (all_defined_inj _ Hall) as (bs & ->).
    destruct (operator_of_total _ _ _ Hop) as (b & -> & _). destruct b; discriminate.
Qed.

(* Boolean reading: under a total assignment every gate value is inj of the denotation
   applied to the Boolean values of its operands *)
Theorem Eval_den c a l g vs v :
  dget (gates c) l = Some g -> gtyp g <> INPUT ->
  Forall2 (Eval c a) (gops g) vs -> total_on c a -> Eval c a l v ->
  exists bs b, vs = map inj bs /\ den (gtyp g) bs = Some b /\ v = inj b.
Proof.
  intros Hg Hty Hops Ht H.
  assert (Forall (fun v => v <> U) vs) as Hall.
  { clear H. induction Hops as [|x y ls ys Hxy _ IH]; constructor; [eapply Eval_total; eassumption|exact IH]. }
  destruct (all_defined_inj _ Hall) as (bs & ->).
  inversion H as [l' g' Hg' Ht'|l' g' vs' v'' Hg' Ht' Hops' Hop']; subst;
    rewrite Hg in Hg'; injection Hg' as <-; [contradiction|].
  assert (vs' = map inj bs) as -> by (eapply Forall2_eq_l; [|eassumption];
    clear -Hops'; induction Hops'; constructor; [intros; eapply Eval_functional; eassumption|assumption]).
  destruct (operator_of_total _ _ _ Hop') as (b & -> & Hd). eauto.
Qed.
