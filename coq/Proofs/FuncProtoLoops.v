(* Loop lemmas for C12: the monadic loops of Model/FuncProto.v over a total evaluator are
   their pure counterparts; the three monotonicity loops decide sortedness. *)
From Coq Require Import Permutation Sorted.
Require Import Cirbo.Model.Base Cirbo.Model.Gate Cirbo.Model.Circuit Cirbo.Model.Eval
        Cirbo.Model.FuncProto Cirbo.Proofs.FuncProtoEnum.

(* ------------------------------------------------------------------ *)
(* monadic loops over a total evaluator *)

Lemma forallM_pure {X} (p : X -> res bool) (q : X -> bool) xs :
  (forall x, In x xs -> p x = Ok (q x)) -> forallM p xs = Ok (forallb q xs).
Proof.
  induction xs as [|x xs IH]; intros H; simpl; [reflexivity|].
  rewrite (H x) by (left; reflexivity). simpl. destruct (q x); [|reflexivity].
  apply IH. intros y Hy; apply H; right; exact Hy.
Qed.

Lemma existsM_pure {X} (p : X -> res bool) (q : X -> bool) xs :
  (forall x, In x xs -> p x = Ok (q x)) -> existsM p xs = Ok (existsb q xs).
Proof.
  induction xs as [|x xs IH]; intros H; simpl; [reflexivity|].
  rewrite (H x) by (left; reflexivity). simpl. destruct (q x); [reflexivity|].
  apply IH. intros y Hy; apply H; right; exact Hy.
Qed.

Lemma filterM_pure {X} (p : X -> res bool) (q : X -> bool) xs :
  (forall x, In x xs -> p x = Ok (q x)) -> filterM p xs = Ok (filter q xs).
Proof.
  induction xs as [|x xs IH]; intros H; simpl; [reflexivity|].
  rewrite (H x) by (left; reflexivity). simpl.
  rewrite IH by (intros y Hy; apply H; right; exact Hy). simpl. destruct (q x); reflexivity.
Qed.

Lemma findM_pure {X} (p : X -> res bool) (q : X -> bool) xs :
  (forall x, In x xs -> p x = Ok (q x)) -> findM p xs = Ok (find q xs).
Proof.
  induction xs as [|x xs IH]; intros H; simpl; [reflexivity|].
  rewrite (H x) by (left; reflexivity). simpl. destruct (q x); [reflexivity|].
  apply IH. intros y Hy; apply H; right; exact Hy.
Qed.

Lemma mapM_pure {X Y} (p : X -> res Y) (q : X -> Y) xs :
  (forall x, In x xs -> p x = Ok (q x)) -> mapM p xs = Ok (map q xs).
Proof.
  induction xs as [|x xs IH]; intros H; simpl; [reflexivity|].
  rewrite (H x) by (left; reflexivity). simpl.
  rewrite IH by (intros y Hy; apply H; right; exact Hy). reflexivity.
Qed.

Lemma nth_res_ok {A} (l : list A) i d : i < length l -> nth_res l i = Ok (nth i l d).
Proof.
  intros H. unfold nth_res. rewrite (nth_error_nth' l d H). reflexivity.
Qed.

Lemma nth_res_err {A} (l : list A) i : length l <= i -> nth_res l i = Err PyIndexError.
Proof. intros H. unfold nth_res. apply nth_error_None in H. rewrite H. reflexivity. Qed.

(* ------------------------------------------------------------------ *)
(* sequences of Booleans: non-decreasing (inverse: non-increasing) *)

Lemma ble_refl inv a : ble inv a a.
Proof. destruct inv; simpl; auto. Qed.

Lemma ble_trans inv a b c : ble inv a b -> ble inv b c -> ble inv a c.
Proof. destruct inv; simpl; auto. Qed.

(* a = inverse is the bottom element *)
Lemma ble_bottom inv b : ble inv inv b.
Proof. destruct inv; simpl; intros; congruence. Qed.

Lemma ble_top inv a b : a <> inv -> (ble inv a b <-> b <> inv).
Proof. destruct inv, a, b; simpl; intuition congruence. Qed.

Fixpoint mono_b (inv : bool) (l : list bool) : bool :=
  match l with
  | [] => true
  | v :: r => if Bool.eqb v inv then mono_b inv r else forallb (fun w => negb (Bool.eqb w inv)) r
  end.

Lemma all_top_sorted inv l :
  forallb (fun w => negb (Bool.eqb w inv)) l = true -> StronglySorted (ble inv) l.
Proof.
  induction l as [|a l IH]; simpl; intros H; [constructor|].
  apply andb_true_iff in H. destruct H as [Ha Hl]. constructor; [apply IH; exact Hl|].
  apply Forall_forall. intros b Hb. rewrite forallb_forall in Hl. specialize (Hl b Hb).
  apply negb_true_iff, Bool.eqb_false_iff in Hl. apply negb_true_iff, Bool.eqb_false_iff in Ha.
  apply ble_top; assumption.
Qed.

Lemma mono_b_sorted inv l : mono_b inv l = true <-> StronglySorted (ble inv) l.
Proof.
  induction l as [|v r IH]; simpl; [split; [constructor|reflexivity]|].
  destruct (Bool.eqb v inv) eqn:E.
  - apply Bool.eqb_prop in E. subst v. rewrite IH. split.
    + intros H; constructor; [exact H|]. apply Forall_forall. intros b _. apply ble_bottom.
    + intros H; inversion H; assumption.
  - apply Bool.eqb_false_iff in E. split.
    + intros H. constructor; [apply all_top_sorted; exact H|].
      apply Forall_forall. intros b Hb. rewrite forallb_forall in H. specialize (H b Hb).
      apply negb_true_iff, Bool.eqb_false_iff in H. apply ble_top; assumption.
    + intros H. inversion H as [|? ? Hs Hf]; subst. apply forallb_forall. intros b Hb.
      rewrite Forall_forall in Hf. specialize (Hf b Hb). apply ble_top in Hf; [|exact E].
      apply negb_true_iff, Bool.eqb_false_iff. exact Hf.
Qed.

(* StronglySorted in terms of positions *)
Lemma sorted_nth {A} (R : A -> A -> Prop) (d : A) (l : list A) :
  StronglySorted R l <-> forall a b, a < b -> b < length l -> R (nth a l d) (nth b l d).
Proof.
  induction l as [|x l IH]; simpl.
  - split; [intros _ a b _ H; lia|constructor].
  - split.
    + intros H. inversion H as [|? ? Hs Hf]; subst. intros a b Hab Hb.
      destruct b as [|b]; [lia|]. destruct a as [|a].
      * rewrite Forall_forall in Hf. apply Hf. apply nth_In. lia.
      * apply IH; [exact Hs|lia|lia].
    + intros H. constructor.
      * apply IH. intros a b Hab Hb. apply (H (S a) (S b)); lia.
      * apply Forall_forall. intros y Hy. destruct (In_nth _ _ d Hy) as (i & Hi & <-).
        apply (H 0 (S i)); lia.
Qed.

(* TruthTable / PyFunction per output *)
Lemma ones_started_pure {X} (ev : X -> res bool) (g : X -> bool) inv xs :
  (forall x, In x xs -> ev x = Ok (g x)) ->
  ones_started_loop ev inv true xs = Ok (forallb (fun w => negb (Bool.eqb w inv)) (map g xs))
  /\ ones_started_loop ev inv false xs = Ok (mono_b inv (map g xs)).
Proof.
  induction xs as [|x xs IH]; intros H; simpl; [split; reflexivity|].
  rewrite (H x) by (left; reflexivity). simpl.
  destruct IH as [IH1 IH2]; [intros y Hy; apply H; right; exact Hy|].
  destruct (Bool.eqb (g x) inv); simpl; split; auto.
Qed.

(* Circuit per output *)
Fixpoint mono1 (ch cur : bool) (l : list bool) : bool :=
  match l with
  | [] => true
  | v :: r => if Bool.eqb v cur then mono1 ch cur r else if ch then false else mono1 true v r
  end.

Lemma mono1_true c l : mono1 true c l = forallb (fun v => Bool.eqb v c) l.
Proof. induction l as [|v r IH]; simpl; [reflexivity|]. destruct (Bool.eqb v c); simpl; auto. Qed.

Lemma forallb_ext_in {A} (p q : A -> bool) l : (forall a, In a l -> p a = q a) -> forallb p l = forallb q l.
Proof.
  induction l as [|a l IH]; simpl; intros H; [reflexivity|].
  rewrite (H a) by (left; reflexivity). f_equal. apply IH. intros b Hb; apply H; right; exact Hb.
Qed.

Lemma mono1_false inv l : mono1 false inv l = mono_b inv l.
Proof.
  induction l as [|v r IH]; simpl; [reflexivity|]. destruct (Bool.eqb v inv) eqn:E; [exact IH|].
  rewrite mono1_true. apply forallb_ext_in. intros w _. destruct v, inv, w; simpl in *; congruence.
Qed.

Lemma circ_mono_at_pure {X} (ev : X -> res bool) (g : X -> bool) xs :
  (forall x, In x xs -> ev x = Ok (g x)) ->
  forall ch cur, circ_mono_at_loop ev ch cur xs = Ok (mono1 ch cur (map g xs)).
Proof.
  induction xs as [|x xs IH]; intros H ch cur; simpl; [reflexivity|].
  rewrite (H x) by (left; reflexivity). simpl.
  assert (H' : forall y, In y xs -> ev y = Ok (g y)) by (intros y Hy; apply H; right; exact Hy).
  destruct (Bool.eqb (g x) cur) eqn:E; [apply IH; exact H'|].
  destruct ch; [reflexivity|]. rewrite (IH H'). f_equal. f_equal.
  destruct (g x), cur; simpl in *; congruence.
Qed.

(* Circuit, all outputs at once *)
Definition mono_fails (p : bool * (bool * bool)) : bool :=
  let '(v, (ch, cur)) := p in negb (Bool.eqb v cur) && ch.
Definition mono_step (p : bool * (bool * bool)) : bool * bool :=
  let '(v, (ch, cur)) := p in if Bool.eqb v cur then (ch, cur) else (true, v).

Lemma circ_mono_row_spec : forall vs s, length vs = length s ->
  circ_mono_row vs s = Ok (if existsb mono_fails (combine vs s) then None
                           else Some (map mono_step (combine vs s))).
Proof.
  induction vs as [|v vs IH]; intros [|[ch cur] s] Hl; simpl in Hl; try discriminate; [reflexivity|].
  simpl. destruct (Bool.eqb v cur) eqn:E; simpl.
  - rewrite IH by lia. simpl. destruct (existsb mono_fails (combine vs s)); reflexivity.
  - destruct ch; simpl; [reflexivity|]. rewrite IH by lia. simpl.
    destruct (existsb mono_fails (combine vs s)); reflexivity.
Qed.

Definition st_at (s : list (bool * bool)) (j : nat) : bool * bool := nth j s (false, false).

Lemma circ_mono_loop_spec (ev : bvec -> res bvec) (f : bvec -> bvec) (m : nat) xs :
  (forall x, In x xs -> ev x = Ok (f x) /\ length (f x) = m) ->
  forall s, length s = m ->
  exists b, circ_mono_loop ev s xs = Ok b /\
            (b = true <-> forall j, j < m ->
                mono1 (fst (st_at s j)) (snd (st_at s j)) (map (fun x => nth j (f x) false) xs) = true).
Proof.
  induction xs as [|x xs IH]; intros H s Hs.
  - exists true. split; [reflexivity|]. split; [intros _ j _; reflexivity|reflexivity].
  - simpl. destruct (H x (or_introl eq_refl)) as [Hx Hlx]. rewrite Hx. simpl.
    rewrite circ_mono_row_spec by lia. simpl.
    assert (Hnth : forall j, j < m ->
              nth j (combine (f x) s) (false, (false, false)) = (nth j (f x) false, st_at s j)).
    { intros j Hj. unfold st_at. apply combine_nth. lia. }
    destruct (existsb mono_fails (combine (f x) s)) eqn:Ef.
    + exists false. split; [reflexivity|]. split; [discriminate|]. intros Hall. exfalso.
      apply existsb_exists in Ef. destruct Ef as (p & Hp & Hfail).
      destruct (In_nth _ _ (false, (false, false)) Hp) as (j & Hj & Hpj).
      rewrite combine_length in Hj. assert (Hjm : j < m) by lia.
      specialize (Hall j Hjm). rewrite Hnth in Hpj by exact Hjm. subst p.
      simpl in Hfail. destruct (st_at s j) as [ch cur]. simpl in *.
      apply andb_true_iff in Hfail. destruct Hfail as [Hne Hch]. apply negb_true_iff in Hne.
      rewrite Hne, Hch in Hall. discriminate.
    + destruct (IH (fun y Hy => H y (or_intror Hy)) (map mono_step (combine (f x) s))) as (b & Hb & Hiff).
      { rewrite map_length, combine_length. lia. }
      exists b. split; [exact Hb|]. rewrite Hiff. clear Hiff Hb IH.
      assert (Hstep : forall j, j < m ->
                st_at (map mono_step (combine (f x) s)) j = mono_step (nth j (f x) false, st_at s j)).
      { intros j Hj. unfold st_at at 1.
        rewrite (nth_indep _ (false, false) (mono_step (false, (false, false))))
          by (rewrite map_length, combine_length; lia).
        rewrite map_nth, Hnth by exact Hj. reflexivity. }
      assert (Hok : forall j, j < m -> mono_fails (nth j (f x) false, st_at s j) = false).
      { intros j Hj. rewrite <- Hnth by exact Hj.
        destruct (mono_fails (nth j (combine (f x) s) (false, (false, false)))) eqn:E; [|reflexivity].
        rewrite <- Ef. symmetry. apply existsb_exists. eexists; split; [|exact E].
        apply nth_In. rewrite combine_length. lia. }
      split; intros Hall j Hj; specialize (Hall j Hj); specialize (Hstep j Hj); specialize (Hok j Hj);
        rewrite Hstep in *; destruct (st_at s j) as [ch cur]; simpl in *;
        destruct (Bool.eqb (nth j (f x) false) cur) eqn:E; simpl in *; try exact Hall;
        destruct ch; simpl in *; try discriminate; exact Hall.
Qed.

(* PyFunction, all outputs at once: consecutive rows *)
Fixpoint chain {A} (R : A -> A -> bool) (prev : A) (l : list A) : bool :=
  match l with [] => true | a :: r => R prev a && chain R a r end.

Definition row_le (inv : bool) (old v : bvec) : bool :=
  negb (if inv then any_lt old v else any_lt v old).

Lemma py_mono_pure (ev : bvec -> res bvec) (f : bvec -> bvec) inv xs :
  (forall x, In x xs -> ev x = Ok (f x)) ->
  forall old, py_mono_loop ev inv old xs = Ok (chain (row_le inv) old (map f xs)).
Proof.
  induction xs as [|x xs IH]; intros H old; simpl; [reflexivity|].
  rewrite (H x) by (left; reflexivity). simpl. unfold row_le at 1.
  destruct (if inv then any_lt old (f x) else any_lt (f x) old); simpl; [reflexivity|].
  apply IH. intros y Hy; apply H; right; exact Hy.
Qed.

Lemma any_lt_spec : forall v w,
  any_lt v w = true <-> exists j, j < length v /\ j < length w /\ nth j v false = false /\ nth j w false = true.
Proof.
  unfold any_lt. induction v as [|a v IH]; intros [|b w]; simpl.
  - split; [discriminate|intros (j & H & _); lia].
  - split; [discriminate|intros (j & H & _); lia].
  - split; [discriminate|intros (j & _ & H & _); lia].
  - rewrite orb_true_iff, IH. split.
    + intros [H|(j & H1 & H2 & H3 & H4)].
      * exists 0. apply andb_true_iff in H. destruct H as [Ha Hb]. apply negb_true_iff in Ha.
        repeat split; try lia; assumption.
      * exists (S j). repeat split; try lia; assumption.
    + intros (j & H1 & H2 & H3 & H4). destruct j as [|j].
      * left. rewrite H3, H4. reflexivity.
      * right. exists j. repeat split; try lia; assumption.
Qed.

Lemma row_le_spec inv m old v : length old = m -> length v = m ->
  (row_le inv old v = true <-> forall j, j < m -> ble inv (nth j old false) (nth j v false)).
Proof.
  intros Ho Hv. unfold row_le. rewrite negb_true_iff. destruct inv; simpl.
  - split.
    + intros H j Hj Hf. destruct (nth j v false) eqn:E; [|reflexivity].
      assert (any_lt old v = true) by (apply any_lt_spec; exists j; repeat split; try lia; assumption).
      congruence.
    + intros H. destruct (any_lt old v) eqn:E; [|reflexivity]. apply any_lt_spec in E.
      destruct E as (j & H1 & H2 & H3 & H4). specialize (H j ltac:(lia) H3). congruence.
  - split.
    + intros H j Hj Ht. destruct (nth j v false) eqn:E; [reflexivity|].
      assert (any_lt v old = true) by (apply any_lt_spec; exists j; repeat split; try lia; assumption).
      congruence.
    + intros H. destruct (any_lt v old) eqn:E; [|reflexivity]. apply any_lt_spec in E.
      destruct E as (j & H1 & H2 & H3 & H4). specialize (H j ltac:(lia) H4). congruence.
Qed.

Fixpoint chainP {A} (R : A -> A -> Prop) (prev : A) (l : list A) : Prop :=
  match l with [] => True | a :: r => R prev a /\ chainP R a r end.

Lemma chain_rows inv m : forall rows prev,
  length prev = m -> (forall r, In r rows -> length r = m) ->
  (chain (row_le inv) prev rows = true <->
   forall j, j < m -> chainP (ble inv) (nth j prev false) (map (fun r => nth j r false) rows)).
Proof.
  induction rows as [|a rows IH]; intros prev Hp Hr; simpl.
  - split; [intros _ j _; exact I|reflexivity].
  - rewrite andb_true_iff, (row_le_spec inv m prev a Hp) by (apply Hr; left; reflexivity).
    rewrite (IH a) by (try (apply Hr; left; reflexivity); intros r Hin; apply Hr; right; exact Hin).
    split.
    + intros [H1 H2] j Hj. split; [apply H1|apply H2]; exact Hj.
    + intros H. split; intros j Hj; apply (H j Hj).
Qed.

Lemma chainP_sorted {A} (R : A -> A -> Prop) :
  (forall a b c, R a b -> R b c -> R a c) ->
  forall l a, chainP R a l <-> StronglySorted R (a :: l).
Proof.
  intros Htr. induction l as [|b l IH]; intros a; simpl.
  - split; [intros _; constructor; constructor|intros _; exact I].
  - rewrite IH. split.
    + intros [Hab Hs]. constructor; [exact Hs|]. constructor; [exact Hab|].
      inversion Hs as [|? ? _ Hf]; subst. apply Forall_forall. intros c Hc.
      rewrite Forall_forall in Hf. eapply Htr; [exact Hab|apply Hf; exact Hc].
    + intros H. inversion H as [|? ? Hs Hf]; subst. split; [|exact Hs].
      inversion Hf; assumption.
Qed.
