(* C03: "an identical truth table", literally: when get_truth_table succeeds on the argument and
   on the result of a pass / pipeline that keeps the inputs, the two tables are equal. *)
Require Import Cirbo.Model.Base Cirbo.Model.Gate Cirbo.Model.Den Cirbo.Model.Circuit Cirbo.Model.Traverse
        Cirbo.Model.Eval Cirbo.Model.Sem Cirbo.Model.WF Cirbo.Model.Passes.
Require Import Cirbo.Proofs.DictFacts Cirbo.Proofs.SemFacts Cirbo.Proofs.EvalFacts Cirbo.Proofs.WFBase
        Cirbo.Proofs.WFSimple Cirbo.Proofs.PassRebuild Cirbo.Proofs.PassTT.

(* evaluate reports the semantics at the outputs *)
Lemma evaluate_sound c vals a outs :
  WF c -> zip_inputs (inputs c) vals [] = Ok a -> evaluate c vals = Ok outs ->
  Forall2 (Eval c a) (outputs c) outs.
Proof.
  intros W Ha H. unfold evaluate in H. rewrite Ha in H. simpl in H. binv H ans Hans.
  unfold evaluate_circuit_outputs in Hans. binv Hans d Hd.
  destruct (zip_inputs_spec _ _ _ _ Ha) as (_ & Z2 & _).
  assert (Hao : assigns_inputs_only c a).
  { intros l Hl. apply Z2 in Hl. destruct Hl as [Hl|Hl]; [discriminate|exact Hl]. }
  destruct (evaluate_circuit_sound _ c a None d (wf_inputs_are_input_gates c W) Hao Hd) as [_ Hs].
  assert (Hsub : forall o v, dget ans o = Some v -> dget d o = Some v).
  { revert Hans. apply (foldM_ok_inv _ (fun acc => forall o v, dget acc o = Some v -> dget d o = Some v)).
    - intros acc x acc' _ Hacc Hstep. destruct (dget d x) as [vx|] eqn:Ex; [|discriminate].
      injection Hstep as <-. intros o v. rewrite dget_dset. destruct (leqb_spec o x) as [->|_]; [|apply Hacc].
      intros [= <-]. exact Ex.
    - intros o v Hov. discriminate. }
  apply mapM_ok_Forall2 in H. eapply Forall2_impl_in; [exact H|].
  intros o v Ho _ Hov. simpl in Hov. destruct (dget ans o) as [w|] eqn:Ew; [|discriminate]. injection Hov as <-.
  destruct (Hs o Ho) as (v' & Hv' & He). rewrite (Hsub o w Ew) in Hv'. injection Hv' as <-. exact He.
Qed.

Lemma zip_inputs_defined ins : forall vals acc r, zip_inputs ins vals acc = Ok r ->
  Forall (fun v => v <> U) vals -> (forall l v, dget acc l = Some v -> v <> U) ->
  forall l v, dget r l = Some v -> v <> U.
Proof.
  induction ins as [|i ins IH]; intros vals acc r H Hv Hacc; simpl in H; [injection H as <-; exact Hacc|].
  destruct vals as [|v0 vals]; [discriminate|]. inversion Hv; subst.
  eapply IH; [exact H|assumption|]. intros l v. rewrite dget_dset.
  destruct (leqb l i); [intros [= <-]; assumption|apply Hacc].
Qed.

Lemma zip_bool_total c x a : WF c -> zip_inputs (inputs c) (map inj x) [] = Ok a -> total_on c a.
Proof.
  intros W Ha l g Hg Ht. destruct (zip_inputs_spec _ _ _ _ Ha) as (_ & Z2 & _).
  assert (Hm : dmem a l = true) by (apply Z2; right; apply (wf_inputs c W); eauto).
  unfold dmem in Hm. unfold aval. destruct (dget a l) as [v|] eqn:E; [|discriminate].
  eapply (zip_inputs_defined _ _ _ _ Ha); [|intros ? ? H; discriminate|exact E].
  clear. induction x as [|b x IH]; constructor; [destruct b; discriminate|exact IH].
Qed.

Lemma rows_equal c c' a r r' :
  out_equiv c c' a -> Forall2 (Eval c a) (outputs c) r -> Forall2 (Eval c' a) (outputs c') r' -> r = r'.
Proof.
  unfold out_equiv. generalize (outputs c) (outputs c'). intros os os' H. revert r r'.
  induction H as [|o' o os' os Ho _ IH]; intros r r' H1 H2; inversion H1; subst; inversion H2; subst; [reflexivity|].
  f_equal; [|apply IH; assumption].
  eapply Eval_functional; [eassumption|]. apply Ho. assumption.
Qed.

Theorem truth_table_equal tv c c' t t' :
  WF c -> Pres tv true c c' ->
  get_truth_table c = Ok t -> get_truth_table c' = Ok t' -> t = t'.
Proof.
  intros W P H H'. unfold get_truth_table in *.
  rewrite (pr_keep _ _ _ _ P eq_refl), (pr_outs _ _ _ _ P) in H'.
  binv H rows Hr. binv H' rows' Hr'. injection H as <-. injection H' as <-.
  assert (rows = rows') as <-; [|reflexivity].
  apply mapM_ok_Forall2 in Hr. apply mapM_ok_Forall2 in Hr'. revert rows' Hr'.
  induction Hr as [|x r xs rows Hx _ IH]; intros rows' Hr'; inversion Hr' as [|? r' ? rows0 Hx' Hr0]; subst; [reflexivity|].
  f_equal; [|apply IH; exact Hr0].
  assert (exists a, zip_inputs (inputs c) (map inj x) [] = Ok a) as [a Ha].
  { unfold evaluate in Hx. destruct (zip_inputs (inputs c) (map inj x) []); [eauto|discriminate]. }
  pose proof (evaluate_sound c _ a r W Ha Hx) as E1.
  assert (Ha' : zip_inputs (inputs c') (map inj x) [] = Ok a) by (rewrite (pr_keep _ _ _ _ P eq_refl); exact Ha).
  pose proof (evaluate_sound c' _ a r' (pr_wf _ _ _ _ P) Ha' Hx') as E2.
  eapply rows_equal; [|exact E1|exact E2].
  apply (pr_fun _ _ _ _ P). right. eapply zip_bool_total; eassumption.
Qed.
