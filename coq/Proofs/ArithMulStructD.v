Require Import Cirbo.Model.Base Cirbo.Model.MulCases Cirbo.Proofs.ArithMulStruct.
Lemma mul_struct_karatsuba_upto8 :
  forallb (mul_struct_ok FKaratsuba) (pairs_upto 8) && forallb (mul_struct_ok FKaratsubaEff) (pairs_upto 8) = true.
Proof. vm_compute. reflexivity. Qed.
