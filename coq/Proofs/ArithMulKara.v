(* C08, part 5: last_step_sum_with_new_powers_sum and the two Karatsuba multipliers.
   Karatsuba: with a = a0 + 2^mid a1, b = b0 + 2^mid b1,
       a b = a0 b0 + 2^mid ((a1 + a0)(b1 + b0) - (a1 b1 + a0 b0)) + 2^(2 mid) a1 b1;
   the subtractor returns the difference modulo 2^(width of the minuend), which is the difference
   itself because it lies between 0 and the minuend; the result is cut to out_size bits, which
   loses nothing because a b < 2^out_size.  Strong induction on the width through the fuel. *)
Require Import Cirbo.Model.Base Cirbo.Model.Gate Cirbo.Model.Den Cirbo.Model.Circuit
  Cirbo.Model.Eval Cirbo.Model.Sem Cirbo.Model.Builder.
Require Import Cirbo.Generated.ArithTables Cirbo.Generated.ArithCells.
Require Import Cirbo.Model.ArithSub Cirbo.Model.ArithSum2 Cirbo.Model.ArithSumN Cirbo.Model.ArithSumW
  Cirbo.Model.ArithMul.
Require Import Cirbo.Proofs.DictFacts Cirbo.Proofs.BuilderFacts Cirbo.Proofs.ArithFacts
  Cirbo.Proofs.ArithSubFacts Cirbo.Proofs.ArithSum2Facts
  Cirbo.Proofs.ArithSumCells Cirbo.Proofs.ArithSumNFacts Cirbo.Proofs.ArithSumTopFacts
  Cirbo.Proofs.ArithSumWFacts Cirbo.Proofs.ArithSumPow2Facts Cirbo.Proofs.ArithMulFacts
  Cirbo.Proofs.ArithMulDiag Cirbo.Proofs.ArithMulDadda Cirbo.Proofs.ArithMulPow2.
Open Scope Z_scope.

(* ---- cutting a number that fits ------------------------------------------------------------------------------- *)
Lemma firstn_small k v : bits_val v < 2 ^ Z.of_nat k -> bits_val (firstn k v) = bits_val v.
Proof.
  intros Hv. destruct (bits_val_firstn k v) as (K & HK & E).
  pose proof (bits_val_nonneg (firstn k v)). pose proof (pow2_pos k). assert (K = 0) by nia. subst K. lia.
Qed.

Lemma bits_val_pad v k : bits_val (v ++ repeat false k) = bits_val v.
Proof. rewrite bits_val_app, bits_val_repeat_false. lia. Qed.

Lemma mul_len_bound xv yv :
  0 <= bits_val xv * bits_val yv < 2 ^ Z.of_nat (mul_len (length xv) (length yv)).
Proof.
  pose proof (bits_val_range xv) as Hx. pose proof (bits_val_range yv) as Hy. unfold mul_len.
  destruct (length xv =? 1)%nat eqn:E1; [|destruct (length yv =? 1)%nat eqn:E2]; cbn [orb].
  - apply Nat.eqb_eq in E1. rewrite E1 in *. change (2 ^ Z.of_nat 1) with 2 in Hx.
    replace (1 + length yv - 1)%nat with (length yv) by lia. nia.
  - apply Nat.eqb_eq in E2. rewrite E2 in *. change (2 ^ Z.of_nat 1) with 2 in Hy.
    replace (length xv + 1 - 1)%nat with (length xv) by lia. nia.
  - rewrite pow2_add. nia.
Qed.

(* ---- the specification every multiplier in this file meets ------------------------------------------------------ *)
Definition mul_spec (Q : circuit -> Prop) (p : list label -> list label -> prog (list label)) : Prop :=
  forall fresh xs ys s rs s', run fresh (p xs ys) s = Ok (rs, s') ->
    ext (bc s) (bc s') /\ outputs (bc s') = outputs (bc s) /\
    ((1 <= length xs)%nat -> (1 <= length ys)%nat -> length rs = mul_len (length xs) (length ys)) /\
    forall c, ext (bc s') c -> Q c -> forall asg xv yv, bvals c asg xs xv -> bvals c asg ys yv ->
      exists rv, bvals c asg rs rv /\ bits_val rv = bits_val xv * bits_val yv.

Lemma pow2_m1_mul_spec : mul_spec (fun c => has_gate c "" = false) (fun x y => add_mul_pow2_m1 x y false).
Proof.
  intros fresh xs ys s rs s' H. apply add_mul_pow2_m1_correct in H as (Hx & _ & O & L & V).
  split; [exact Hx|]. split; [exact O|]. split; [intros _ _; exact L|]. exact V.
Qed.

(* ---- last_step_sum_with_new_powers_sum ---------------------------------------------------------------------------- *)
Lemma seq_nth_all fresh (res : list witem) : forall k a s out s',
  run fresh (mapP (fun i => bdo it <- nthP res i; Ret (snd it)) (seq a k)) s = Ok (out, s') ->
  s' = s /\ out = map snd (firstn k (skipn a res)) /\ (a + k <= length res \/ k = 0)%nat.
Proof.
  induction k as [|k IH]; intros a s out s' H; cbn [seq mapP] in H.
  - apply run_ret_inv in H as (-> & ->). repeat split. right; reflexivity.
  - apply run_bind_inv in H as (x & s1 & Hx & H). apply run_bind_inv in H as (r & s2 & Hr & H).
    apply run_ret_inv in H as (-> & ->).
    apply run_bind_inv in Hx as (it & s3 & Hit & Hx). apply nthP_inv in Hit as (Eit & ->).
    apply run_ret_inv in Hx as (-> & ->). apply IH in Hr as (-> & -> & Hl).
    split; [reflexivity|].
    assert (a < length res)%nat as Ha by (apply nth_error_Some; congruence).
    split; [|left; destruct Hl; lia].
    clear -Eit. revert a Eit. induction res as [|y res IHr]; intros [|a] E; simpl in *; try discriminate.
    + injection E as ->. reflexivity.
    + apply IHr, E.
Qed.

Theorem last_step_correct fresh xs ys be s rs s' :
  run fresh (last_step_sum_with_new_powers_sum xs ys be) s = Ok (rs, s') ->
  ext (bc s) (bc s') /\ inputs (bc s') = inputs (bc s) /\ outputs (bc s') = outputs (bc s) /\
  length rs = mul_len (length xs) (length ys) /\
  (length xs = length ys \/ length xs = 1%nat \/ length ys = 1%nat) /\
  forall c, ext (bc s') c -> forall asg xv yv, bvals c asg xs xv -> bvals c asg ys yv ->
    exists rv, bvals c asg rs rv /\ decode be rv = decode be xv * decode be yv.
Proof.
  intros H. pose proof (run_ext _ _ _ _ _ H) as Hx. unfold last_step_sum_with_new_powers_sum in H.
  rewrite !rev_if_length in H.
  apply run_bind_inv in H as (cm & s1 & Hpp & H).
  apply pp_matrix_spec in Hpp as (Hx1 & O1 & L1 & F1 & V1). rewrite rev_if_length in L1, F1.
  split; [exact Hx|]. split; [apply ext_inputs, Hx|]. unfold mul_len.
  set (n := length xs) in *. set (m := length ys) in *.
  destruct (n =? 1)%nat eqn:En.
  { apply Nat.eqb_eq in En. cbn [orb].
    apply run_bind_inv in H as (out & s2 & Ho & H). apply run_ret_inv in H as (-> & ->).
    apply nth0_all in Ho as (-> & Fh).
    split; [exact O1|]. split; [rewrite rev_if_length, <- (Forall2_length _ _ _ Fh); lia|]. split; [auto|].
    intros c Hc asg xv yv Hxv Hyv.
    specialize (V1 c Hc asg _ _ (bvals_rev_if _ _ be _ _ Hxv) (bvals_rev_if _ _ be _ _ Hyv)).
    pose proof (heads_vals c asg _ _ _ Fh V1) as Vo.
    eexists. split; [apply bvals_rev_if, Vo|]. rewrite decode_rev_if.
    pose proof (bvals_length _ _ _ _ Hxv) as Lx. fold n in Lx. rewrite En in Lx.
    unfold decode. destruct (rev_if be xv) as [|a0 [|? ?]] eqn:Exv;
      try (apply (f_equal (@length bool)) in Exv; rewrite rev_if_length in Exv; simpl in Exv; lia).
    rewrite bits_val_single_col. simpl. lia. }
  destruct (m =? 1)%nat eqn:Em.
  { apply Nat.eqb_eq in Em. cbn [orb].
    apply run_bind_inv in H as (c0 & s2 & Hc0 & H). apply nthP_inv in Hc0 as (Ec0 & ->).
    apply run_ret_inv in H as (-> & ->).
    destruct cm as [|r0 [|r1 cm']]; simpl in L1; try lia. injection Ec0 as ->.
    inversion F1 as [|? ? Lr _]; subst.
    split; [exact O1|]. split; [rewrite rev_if_length; lia|]. split; [auto|].
    intros c Hc asg xv yv Hxv Hyv.
    specialize (V1 c Hc asg _ _ (bvals_rev_if _ _ be _ _ Hxv) (bvals_rev_if _ _ be _ _ Hyv)).
    pose proof (bvals_length _ _ _ _ Hyv) as Ly. fold m in Ly. rewrite Em in Ly.
    unfold decode. destruct (rev_if be yv) as [|b0 [|? ?]] eqn:Eyv;
      try (apply (f_equal (@length bool)) in Eyv; rewrite rev_if_length in Eyv; simpl in Eyv; lia).
    simpl in V1. inversion V1 as [|? ? ? ? Hr0 _]; subst.
    eexists. split; [apply bvals_rev_if, Hr0|]. rewrite rev_if_involutive, bits_val_and_row. simpl. lia. }
  cbn [orb]. destruct (n =? m)%nat eqn:Enm; cbn [negb] in H; [|discriminate]. apply Nat.eqb_eq in Enm.
  apply run_bind_inv in H as (res & s2 & Hw & H). apply run_bind_inv in H as (out & s3 & Ho & H).
  apply run_ret_inv in H as (-> & ->).
  apply seq_nth_all in Ho as (-> & -> & Hl). rewrite skipn_O in *.
  pose proof Hw as Hw'.
  apply add_sum_n_weighted_bits_correct in Hw as (b & _ & Hx2 & _ & O2 & _ & _ & V2).
  assert (n + m <= length res)%nat as Hlen by (destruct Hl as [Hl|Hl]; [exact Hl|apply Nat.eqb_neq in En; lia]).
  split; [congruence|]. split; [rewrite rev_if_length, map_length, firstn_length; lia|]. split; [auto|].
  intros c Hc asg xv yv Hxv Hyv.
  assert (ext (bc s1) c) as Hc1 by (eapply ext_trans; eassumption).
  specialize (V1 c Hc1 asg _ _ (bvals_rev_if _ _ be _ _ Hxv) (bvals_rev_if _ _ be _ _ Hyv)).
  destruct (V2 c Hc asg (concat (pp_vals (rev_if be xv) (rev_if be yv)))) as (rv & Vrv & Erv).
  { rewrite matrix_weights_snd. apply mvals_concat, V1. }
  rewrite (matrix_weights_value _ _ _ _ _ V1), mval_pp in Erv.
  change (Z.of_N 0) with 0 in Erv. rewrite Z.pow_0_r, Z.mul_1_l in Erv.
  assert (map fst res = nseq 0 (length res)) as Elev.
  { destruct cm as [|row0 cm'] eqn:Ecm.
    { unfold add_sum_n_weighted_bits in Hw'. simpl in Hw'. discriminate. }
    rewrite <- Ecm in *. assert (1 <= n)%nat as Hn1 by (rewrite Enm, <- L1, Ecm; simpl; lia).
    eapply weighted_levels_dense with (hi := N.of_nat (length cm + n - 1)); [exact Hw'| |].
    - intros x Hxin. apply (matrix_weights_bound _ _ _ _ F1) in Hxin. lia.
    - intros l Hl'. apply (matrix_weights_cover n); [rewrite Ecm; discriminate|exact F1|exact Hn1|lia]. }
  rewrite Elev in Erv. replace (length res) with (length rv) in Erv
    by (rewrite <- (bvals_length _ _ _ _ Vrv); apply map_length).
  rewrite wvalue_nseq in Erv. change (Z.of_N 0) with 0 in Erv. rewrite Z.pow_0_r, Z.mul_1_l in Erv.
  exists (rev_if be (firstn (n + m) rv)). split.
  - apply bvals_rev_if. rewrite <- firstn_map. apply bvals_firstn, Vrv.
  - rewrite decode_rev_if. unfold decode. rewrite <- Erv. apply firstn_small. rewrite Erv.
    pose proof (product_bound (rev_if be xv) (rev_if be yv)) as Hb.
    rewrite !rev_if_length, <- (bvals_length _ _ _ _ Hxv), <- (bvals_length _ _ _ _ Hyv) in Hb. apply Hb.
Qed.

Lemma last_step_mul_spec : mul_spec (fun _ => True) (fun x y => last_step_sum_with_new_powers_sum x y false).
Proof.
  intros fresh xs ys s rs s' H. apply last_step_correct in H as (Hx & _ & O & L & _ & V).
  split; [exact Hx|]. split; [exact O|]. split; [intros _ _; exact L|].
  intros c Hc _ asg xv yv Hxv Hyv. destruct (V c Hc asg xv yv Hxv Hyv) as (rv & Vr & E). exists rv. split; [exact Vr|exact E].
Qed.

(* ---- Karatsuba ------------------------------------------------------------------------------------------------------- *)
Lemma kara_pad_spec fresh a : forall k s zs s',
  run fresh (kara_pad k a) s = Ok (zs, s') ->
  ext (bc s) (bc s') /\ outputs (bc s') = outputs (bc s) /\ length zs = k /\
  forall c, ext (bc s') c -> forall asg av, bvals c asg a av -> bvals c asg zs (repeat false k).
Proof.
  induction k as [|k IH]; intros s zs s' H; cbn [kara_pad] in H.
  - apply run_ret_inv in H as (-> & ->). split; [apply ext_refl|]. repeat split. intros; constructor.
  - apply run_bind_inv in H as (a0 & s0 & Ha0 & H). apply nthP_inv in Ha0 as (Ea0 & ->).
    apply gate_tt_bind in H as (z & s1 & H & Hx1 & Ht & O1).
    apply run_bind_inv in H as (r & s2 & Hr & H). apply run_ret_inv in H as (-> & ->).
    apply IH in Hr as (Hx2 & O2 & L & V).
    split; [eapply ext_trans; eassumption|]. split; [congruence|]. split; [simpl; congruence|].
    intros c Hc asg av Hav. simpl. constructor; [|eapply V; eassumption].
    assert (ext (bc s1) c) as Hc1 by (eapply ext_trans; eassumption).
    apply (has_tt_ext _ _ _ _ _ _ Hc1) in Ht.
    destruct (Forall2_nth_error _ _ _ _ _ Hav Ea0) as (v0 & _ & V0).
    pose proof (has_tt_val _ _ _ _ _ asg _ _ Ht V0 V0) as Vz.
    replace (tt_fun tt_xor v0 v0) with false in Vz by (destruct v0; reflexivity). exact Vz.
Qed.

Lemma kara_small_false n : kara_small n = false -> (18 <= n)%nat.
Proof.
  unfold kara_small. intros H. apply andb_false_iff in H as [H|H].
  - apply Nat.ltb_ge in H. lia.
  - apply negb_false_iff, Nat.eqb_eq in H. lia.
Qed.

Lemma mul_len_eq k : (2 <= k)%nat -> mul_len k k = (2 * k)%nat.
Proof. intros H. unfold mul_len. destruct (k =? 1)%nat eqn:E; [apply Nat.eqb_eq in E; lia|]. simpl. lia. Qed.

Lemma mul_len_le n m : (mul_len n m <= n + m)%nat.
Proof. unfold mul_len. destruct ((n =? 1) || (m =? 1))%nat; lia. Qed.

(* the subtractor's theorem (Proofs/ArithSubFacts.v) with the values read in any later circuit *)
Lemma add_sub_two_numbers_later fresh xs ys be s rs s' :
  run fresh (add_sub_two_numbers xs ys be) s = Ok (rs, s') ->
  ext (bc s) (bc s') /\ outputs (bc s') = outputs (bc s) /\ length rs = length xs /\
  forall c, ext (bc s') c -> forall asg xv yv, bvals c asg xs xv -> bvals c asg ys yv ->
    exists rv, bvals c asg rs rv /\
      decode be rv = (decode be xv - decode be yv) mod 2 ^ Z.of_nat (length xs).
Proof.
  intros H. pose proof (run_ext _ _ _ _ _ H) as Hx. unfold add_sub_two_numbers in H.
  apply run_bind_inv in H as ([rs1 bal] & s1 & Hr & H). apply run_ret_inv in H as (-> & ->).
  apply sub_ripple_spec in Hr as (_ & _ & O & Len & V). cbn [fst].
  rewrite rev_if_length in Len.
  split; [exact Hx|]. split; [exact O|]. split; [rewrite rev_if_length; exact Len|].
  intros c Hc asg xv yv Hxv Hyv.
  destruct (V c Hc asg (rev_if be xv) (firstn (length (rev_if be xs)) (rev_if be yv)))
    as (rv & balv & Vr & Vb & E).
  { apply bvals_rev_if, Hxv. } { apply bvals_firstn, bvals_rev_if, Hyv. }
  exists (rev_if be rv). split; [apply bvals_rev_if, Vr|].
  rewrite decode_rev_if. unfold decode.
  rewrite rev_if_length in E.
  destruct (bits_val_firstn (length xs) (rev_if be yv)) as (K & _ & EK).
  symmetry. apply mod_unique_range with (q := - (Z.b2z balv + K)).
  - rewrite <- Len, (bvals_length _ _ _ _ Vr). apply bits_val_range.
  - lia.
Qed.

Section KaraProof.
  Variable Q : circuit -> Prop.
  Variable base : list label -> list label -> prog (list label).
  Hypothesis Hbase : mul_spec Q base.

  (* the text of [kara] after the operands have been ordered *)
  Definition kara_body (rec : list label -> list label -> bool -> prog (list label)) (out_size : nat)
             (big_endian : bool) (p : list label * list label) : prog (list label) :=
    let '(a, b) := p in
    let n := length a in
    bdo zs <- kara_pad (n - length b) a;
    let b := b ++ zs in
    if kara_small n then
      bdo r <- base a b;
      Ret (rev_if big_endian (firstn out_size r))
    else
      let mid := (n / 2)%nat in
      let a1 := skipn mid a in
      let a0 := firstn mid a in
      let b1 := skipn mid b in
      let b0 := firstn mid b in
      let mul x y := if kara_small (length x) then base x y else rec x y false in
      bdo ac <- (if kara_small (n - mid) then base a1 b1 else rec a1 b1 false);
      bdo bd <- (if kara_small mid then base a0 b0 else rec a0 b0 false);
      bdo a_sum_b <- add_sum_two_numbers a1 a0 false;
      bdo c_sum_d <- add_sum_two_numbers b1 b0 false;
      bdo big_mul <- mul a_sum_b c_sum_d;
      bdo ac_sum_bd <- add_sum_two_numbers ac bd false;
      bdo res_mid <- add_sub_two_numbers big_mul ac_sum_bd false;
      bdo res <- add_sum_two_numbers_with_shift mid bd res_mid false;
      bdo final_res <- add_sum_two_numbers_with_shift (2 * mid) res ac false;
      Ret (rev_if big_endian (firstn out_size final_res)).

  Lemma kara_unfold f xs ys be :
    kara base (S f) xs ys be =
    kara_body (kara base f)
      (length (rev_if be xs) + length (rev_if be ys)
       - (if ((length (rev_if be xs) =? 1) || (length (rev_if be ys) =? 1))%nat then 1 else 0))%nat be
      (if (length (rev_if be xs) <? length (rev_if be ys))%nat then (rev_if be ys, rev_if be xs)
       else (rev_if be xs, rev_if be ys)).
  Proof. reflexivity. Qed.

  Section Body.
    Variable rec : list label -> list label -> bool -> prog (list label).
    Hypothesis Hrec : mul_spec Q (fun x y => rec x y false).

    Lemma msel_spec k : mul_spec Q (fun x y => if kara_small k then base x y else rec x y false).
    Proof. destruct (kara_small k); [exact Hbase|exact Hrec]. Qed.

    Lemma kara_body_spec fresh out_size be a b s rs s' :
      (length b <= length a)%nat ->
      run fresh (kara_body rec out_size be (a, b)) s = Ok (rs, s') ->
      ext (bc s) (bc s') /\ outputs (bc s') = outputs (bc s) /\
      ((1 <= length b)%nat -> (out_size <= mul_len (length a) (length a))%nat -> length rs = out_size) /\
      forall c, ext (bc s') c -> Q c -> forall asg av bv, bvals c asg a av -> bvals c asg b bv ->
        bits_val av * bits_val bv < 2 ^ Z.of_nat out_size ->
        exists rv, bvals c asg rs rv /\ decode be rv = bits_val av * bits_val bv.
    Proof.
      intros Hlen H. pose proof (run_ext _ _ _ _ _ H) as Hx. unfold kara_body in H.
      set (n := length a) in *.
      apply run_bind_inv in H as (zs & s0 & Hz & H).
      apply kara_pad_spec in Hz as (Hx0 & O0 & Lz & Vz).
      set (b' := b ++ zs) in *.
      assert (length b' = n) as Lb' by (unfold b'; rewrite app_length, Lz; lia).
      assert (Vb' : forall c, ext (bc s0) c -> forall asg av bv, bvals c asg a av -> bvals c asg b bv ->
                exists bv', bvals c asg b' bv' /\ bits_val bv' = bits_val bv).
      { intros c Hc asg av bv Hav Hbv. exists (bv ++ repeat false (n - length b)).
        split; [apply bvals_app; [exact Hbv|eapply Vz; eassumption]|apply bits_val_pad]. }
      split; [exact Hx|].
      destruct (kara_small n) eqn:Esmall.
      - (* the base multiplier *)
        apply run_bind_inv in H as (r & s1 & Hr & H). apply run_ret_inv in H as (-> & ->).
        apply Hbase in Hr as (Hx1 & O1 & L1 & V1).
        split; [congruence|]. split.
        + intros Hb1 Hos. rewrite rev_if_length, firstn_length, L1, Lb'; fold n; lia.
        + intros c Hc He asg av bv Hav Hbv Hsmall.
          assert (ext (bc s0) c) as Hc0 by (eapply ext_trans; eassumption).
          destruct (Vb' c Hc0 asg av bv Hav Hbv) as (bv' & Hbv' & Ebv').
          destruct (V1 c Hc He asg av bv' Hav Hbv') as (rv & Hrv & Erv).
          exists (rev_if be (firstn out_size rv)). split; [apply bvals_rev_if, bvals_firstn, Hrv|].
          rewrite decode_rev_if, firstn_small; rewrite Erv, Ebv'; [reflexivity|exact Hsmall].
      - (* the Karatsuba step *)
        apply kara_small_false in Esmall.
        set (mid := (n / 2)%nat) in *.
        assert (2 * mid <= n < 2 * mid + 2)%nat as Hmid.
        { unfold mid. pose proof (Nat.div_mod n 2). pose proof (Nat.mod_upper_bound n 2). lia. }
        set (a1 := skipn mid a) in *. set (a0 := firstn mid a) in *.
        set (b1 := skipn mid b') in *. set (b0 := firstn mid b') in *.
        assert (length a1 = (n - mid)%nat) as La1 by (unfold a1; rewrite skipn_length; reflexivity).
        assert (length a0 = mid) as La0 by (unfold a0; rewrite firstn_length; fold n; lia).
        assert (length b1 = (n - mid)%nat) as Lb1 by (unfold b1; rewrite skipn_length, Lb'; reflexivity).
        assert (length b0 = mid) as Lb0 by (unfold b0; rewrite firstn_length, Lb'; lia).
        apply run_bind_inv in H as (ac & s1 & Hac & H). apply run_bind_inv in H as (bd & s2 & Hbd & H).
        apply run_bind_inv in H as (asb & s3 & Hasb & H). apply run_bind_inv in H as (csd & s4 & Hcsd & H).
        apply run_bind_inv in H as (big & s5 & Hbig & H). apply run_bind_inv in H as (acbd & s6 & Hacbd & H).
        apply run_bind_inv in H as (rmid & s7 & Hrmid & H). apply run_bind_inv in H as (res & s8 & Hres & H).
        apply run_bind_inv in H as (fin & s9 & Hfin & H). apply run_ret_inv in H as (-> & ->).
        pose proof (with_shift_length _ _ _ _ _ _ _ _ Hres) as Lres.
        pose proof (with_shift_length _ _ _ _ _ _ _ _ Hfin) as Lfin.
        apply (msel_spec (n - mid)) in Hac as (X1 & O1 & L1 & V1).
        apply (msel_spec mid) in Hbd as (X2 & O2 & L2 & V2).
        apply add_sum_two_numbers_correct in Hasb as (X3 & _ & O3 & L3 & V3).
        apply add_sum_two_numbers_correct in Hcsd as (X4 & _ & O4 & L4 & V4).
        apply (msel_spec (length asb)) in Hbig as (X5 & O5 & L5 & V5).
        apply add_sum_two_numbers_correct in Hacbd as (X6 & _ & O6 & L6 & V6).
        apply add_sub_two_numbers_later in Hrmid as (X7 & O7 & Lrmid & V7).
        apply add_sum_two_numbers_with_shift_correct in Hres as (X8 & _ & O8 & V8).
        apply add_sum_two_numbers_with_shift_correct in Hfin as (X9 & _ & O9 & V9).
        rewrite La1, Lb1 in L1. rewrite La0, Lb0 in L2. rewrite L3, L4 in L5. rewrite La1, La0 in L3, L5.
        rewrite Lb1, Lb0 in L4, L5.
        rewrite (mul_len_eq (n - mid)) in L1 by lia. rewrite (mul_len_eq mid) in L2 by lia.
        replace (Nat.max (n - mid) mid) with (n - mid)%nat in * by lia.
        rewrite (mul_len_eq (S (n - mid))) in L5 by lia.
        specialize (L1 ltac:(lia) ltac:(lia)). specialize (L2 ltac:(lia) ltac:(lia)). specialize (L5 ltac:(lia) ltac:(lia)).
        split; [congruence|]. split.
        + intros _ Hos. rewrite (mul_len_eq n) in Hos by lia.
          rewrite rev_if_length, firstn_length. rewrite Lrmid, L5, L2 in Lres.
          destruct (2 * mid <=? mid)%nat eqn:E1; [apply Nat.leb_le in E1; lia|].
          rewrite Lres, L1 in Lfin.
          destruct (mid + S (Nat.max (2 * mid - mid) (2 * S (n - mid))) <=? 2 * mid)%nat eqn:E2;
            [apply Nat.leb_le in E2; lia|]. lia.
        + intros c Hc He asg av bv Hav Hbv Hsmall.
          assert (ext (bc s8) c) as C8 by (eapply ext_trans; eassumption).
          assert (ext (bc s7) c) as C7 by (eapply ext_trans; eassumption).
          assert (ext (bc s6) c) as C6 by (eapply ext_trans; eassumption).
          assert (ext (bc s5) c) as C5 by (eapply ext_trans; eassumption).
          assert (ext (bc s4) c) as C4 by (eapply ext_trans; eassumption).
          assert (ext (bc s3) c) as C3 by (eapply ext_trans; eassumption).
          assert (ext (bc s2) c) as C2 by (eapply ext_trans; eassumption).
          assert (ext (bc s1) c) as C1 by (eapply ext_trans; eassumption).
          assert (ext (bc s0) c) as C0 by (eapply ext_trans; eassumption).
          destruct (Vb' c C0 asg av bv Hav Hbv) as (bv' & Hbv' & Ebv').
          pose proof (bvals_skipn _ _ mid _ _ Hav) as Ha1. pose proof (bvals_firstn _ _ mid _ _ Hav) as Ha0.
          pose proof (bvals_skipn _ _ mid _ _ Hbv') as Hb1. pose proof (bvals_firstn _ _ mid _ _ Hbv') as Hb0.
          fold a1 in Ha1. fold a0 in Ha0. fold b1 in Hb1. fold b0 in Hb0.
          destruct (V1 c C1 He asg _ _ Ha1 Hb1) as (acv & Hacv & Eac).
          destruct (V2 c C2 He asg _ _ Ha0 Hb0) as (bdv & Hbdv & Ebd).
          destruct (V3 c C3 asg _ _ Ha1 Ha0) as (asbv & Hasbv & Easb).
          destruct (V4 c C4 asg _ _ Hb1 Hb0) as (csdv & Hcsdv & Ecsd).
          destruct (V5 c C5 He asg _ _ Hasbv Hcsdv) as (bigv & Hbigv & Ebig).
          destruct (V6 c C6 asg _ _ Hacv Hbdv) as (acbdv & Hacbdv & Eacbd).
          destruct (V7 c C7 asg _ _ Hbigv Hacbdv) as (rmidv & Hrmidv & Ermid).
          destruct (V8 c C8 asg _ _ Hbdv Hrmidv) as (resv & Hresv & Eres).
          destruct (V9 c Hc asg _ _ Hresv Hacv) as (finv & Hfinv & Efin).
          exists (rev_if be (firstn out_size finv)). split; [apply bvals_rev_if, bvals_firstn, Hfinv|].
          rewrite decode_rev_if. unfold decode, rev_if in Easb, Ecsd, Eacbd, Ermid, Eres, Efin.
          (* the algebra *)
          pose proof (bits_val_firstn_skipn mid av) as EA. pose proof (bits_val_firstn_skipn mid bv') as EB.
          assert (length (firstn mid av) = mid) as Lfa.
          { rewrite firstn_length, <- (bvals_length _ _ _ _ Hav). fold n. lia. }
          assert (length (firstn mid bv') = mid) as Lfb.
          { rewrite firstn_length, <- (bvals_length _ _ _ _ Hbv'), Lb'. lia. }
          rewrite Lfa in EA. rewrite Lfb in EB.
          set (A0 := bits_val (firstn mid av)) in *. set (A1 := bits_val (skipn mid av)) in *.
          set (B0 := bits_val (firstn mid bv')) in *. set (B1 := bits_val (skipn mid bv')) in *.
          assert (0 <= A0 /\ 0 <= A1 /\ 0 <= B0 /\ 0 <= B1) as (HA0 & HA1 & HB0 & HB1)
            by (unfold A0, A1, B0, B1; repeat split; apply bits_val_nonneg).
          pose proof (bits_val_range bigv) as Rbig.
          rewrite <- (bvals_length _ _ _ _ Hbigv) in Rbig.
          assert (bits_val rmidv = A0 * B1 + A1 * B0) as Ermid'.
          { rewrite Ermid, Ebig, Eacbd, Eac, Ebd, Easb, Ecsd.
            rewrite Ebig, Easb, Ecsd in Rbig.
            replace (A0 * B1 + A1 * B0) with ((A1 + A0) * (B1 + B0) - (A1 * B1 + A0 * B0)) by ring.
            apply Z.mod_small. nia. }
          set (P := 2 ^ Z.of_nat mid) in *.
          assert (bits_val finv = bits_val av * bits_val bv) as Efin'.
          { rewrite Efin, Eres, Ermid', Eac, Ebd, <- Ebv', EA, EB.
            replace (Z.of_nat (2 * mid)) with (Z.of_nat mid + Z.of_nat mid) by lia.
            rewrite Z.pow_add_r by lia. fold P. ring. }
          rewrite firstn_small; rewrite Efin'; [reflexivity|exact Hsmall].
    Qed.
  End Body.
End KaraProof.

Lemma out_size_mul_len la lb :
  (la + lb - (if ((la =? 1) || (lb =? 1))%nat then 1 else 0))%nat = mul_len la lb.
Proof. unfold mul_len. destruct ((la =? 1) || (lb =? 1))%nat; lia. Qed.

Lemma mul_len_comm la lb : mul_len la lb = mul_len lb la.
Proof. unfold mul_len. rewrite orb_comm, (Nat.add_comm la lb). reflexivity. Qed.

Lemma mul_len_max la lb : (1 <= la)%nat -> (1 <= lb)%nat -> (lb <= la)%nat -> (mul_len la lb <= mul_len la la)%nat.
Proof.
  intros Ha Hb Hl. unfold mul_len.
  destruct (la =? 1)%nat eqn:E1; [apply Nat.eqb_eq in E1; assert (lb = 1%nat) by lia; subst; simpl; lia|].
  cbn [orb]. destruct (lb =? 1)%nat; lia.
Qed.

Section KaraMain.
  Variable Q : circuit -> Prop.
  Variable base : list label -> list label -> prog (list label).
  Hypothesis Hbase : mul_spec Q base.

  Theorem kara_correct : forall fuel fresh xs ys be s rs s',
    run fresh (kara base fuel xs ys be) s = Ok (rs, s') ->
    ext (bc s) (bc s') /\ outputs (bc s') = outputs (bc s) /\
    ((1 <= length xs)%nat -> (1 <= length ys)%nat -> length rs = mul_len (length xs) (length ys)) /\
    forall c, ext (bc s') c -> Q c -> forall asg xv yv, bvals c asg xs xv -> bvals c asg ys yv ->
      exists rv, bvals c asg rs rv /\ decode be rv = decode be xv * decode be yv.
  Proof.
    induction fuel as [|f IH]; intros fresh xs ys be s rs s' H; [discriminate|].
    assert (Hrec : mul_spec Q (fun x y => kara base f x y false)).
    { intros fr x y s0 r s0' H0. apply IH in H0 as (X & O & L & V). repeat split; auto. }
    rewrite kara_unfold in H. rewrite !rev_if_length, out_size_mul_len in H.
    destruct (length xs <? length ys)%nat eqn:E.
    - apply Nat.ltb_lt in E.
      apply (kara_body_spec Q base Hbase _ Hrec) in H as (X & O & L & V); [|rewrite !rev_if_length; lia].
      rewrite !rev_if_length in L.
      split; [exact X|]. split; [exact O|]. split.
      + intros Hx1 Hy1. apply L; [lia|]. rewrite (mul_len_comm (length xs)). apply mul_len_max; lia.
      + intros c Hc He asg xv yv Hxv Hyv.
        destruct (V c Hc He asg _ _ (bvals_rev_if _ _ be _ _ Hyv) (bvals_rev_if _ _ be _ _ Hxv)) as (rv & Vr & Er).
        * pose proof (mul_len_bound (rev_if be xv) (rev_if be yv)) as Hb.
          rewrite !rev_if_length, <- (bvals_length _ _ _ _ Hxv), <- (bvals_length _ _ _ _ Hyv) in Hb. lia.
        * exists rv. split; [exact Vr|]. rewrite Er. unfold decode. lia.
    - apply Nat.ltb_ge in E.
      apply (kara_body_spec Q base Hbase _ Hrec) in H as (X & O & L & V); [|rewrite !rev_if_length; lia].
      rewrite !rev_if_length in L.
      split; [exact X|]. split; [exact O|]. split.
      + intros Hx1 Hy1. apply L; [lia|]. apply mul_len_max; lia.
      + intros c Hc He asg xv yv Hxv Hyv.
        destruct (V c Hc He asg _ _ (bvals_rev_if _ _ be _ _ Hxv) (bvals_rev_if _ _ be _ _ Hyv)) as (rv & Vr & Er).
        * pose proof (mul_len_bound (rev_if be xv) (rev_if be yv)) as Hb.
          rewrite !rev_if_length, <- (bvals_length _ _ _ _ Hxv), <- (bvals_length _ _ _ _ Hyv) in Hb. lia.
        * exists rv. split; [exact Vr|]. rewrite Er. reflexivity.
  Qed.
End KaraMain.

Theorem add_mul_karatsuba_correct fresh xs ys be s rs s' :
  run fresh (add_mul_karatsuba xs ys be) s = Ok (rs, s') ->
  ext (bc s) (bc s') /\ inputs (bc s') = inputs (bc s) /\ outputs (bc s') = outputs (bc s) /\
  ((1 <= length xs)%nat -> (1 <= length ys)%nat -> length rs = mul_len (length xs) (length ys)) /\
  forall c, ext (bc s') c -> has_gate c "" = false -> forall asg xv yv, bvals c asg xs xv -> bvals c asg ys yv ->
    exists rv, bvals c asg rs rv /\ decode be rv = decode be xv * decode be yv.
Proof.
  intros H. apply (kara_correct _ _ pow2_m1_mul_spec) in H as (X & O & L & V).
  split; [exact X|]. split; [apply ext_inputs, X|]. split; [exact O|]. split; [exact L|exact V].
Qed.

Theorem add_mul_karatsuba_with_efficient_sum_correct fresh xs ys be s rs s' :
  run fresh (add_mul_karatsuba_with_efficient_sum xs ys be) s = Ok (rs, s') ->
  ext (bc s) (bc s') /\ inputs (bc s') = inputs (bc s) /\ outputs (bc s') = outputs (bc s) /\
  ((1 <= length xs)%nat -> (1 <= length ys)%nat -> length rs = mul_len (length xs) (length ys)) /\
  forall c, ext (bc s') c -> forall asg xv yv, bvals c asg xs xv -> bvals c asg ys yv ->
    exists rv, bvals c asg rs rv /\ decode be rv = decode be xv * decode be yv.
Proof.
  intros H. apply (kara_correct _ _ last_step_mul_spec) in H as (X & O & L & V).
  split; [exact X|]. split; [apply ext_inputs, X|]. split; [exact O|]. split; [exact L|].
  intros c Hc. apply V; [exact Hc|exact I].
Qed.
