Require Import Cirbo.Model.Base Cirbo.Model.MulCases Cirbo.Model.ArithSquare Cirbo.Proofs.ArithMulStruct.
Lemma mul_struct_pow2_m1_upto8 : forallb (mul_struct_ok FPow2m1) (pairs_upto 8) = true.
Proof. vm_compute. reflexivity. Qed.
Lemma square_struct_upto12 :
  forallb (square_struct_ok SDefault) (seq 1 12) && forallb (square_struct_ok SPow2m1) (seq 1 12) = true.
Proof. vm_compute. reflexivity. Qed.
