Require Import Cirbo.Model.Base Cirbo.Model.MulCases Cirbo.Model.ArithSquare Cirbo.Proofs.ArithMulStruct.
Lemma mul_struct_karatsuba_upto6 :
  forallb (mul_struct_ok FKaratsuba) (pairs_upto 6) && forallb (mul_struct_ok FKaratsubaEff) (pairs_upto 6) = true.
Proof. vm_compute. reflexivity. Qed.
Lemma square_struct_upto8 :
  forallb (square_struct_ok SDefault) (seq 1 8) && forallb (square_struct_ok SPow2m1) (seq 1 8) = true.
Proof. vm_compute. reflexivity. Qed.
