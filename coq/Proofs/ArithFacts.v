(* Shared lemmas for the value-level proofs about generators: little-endian decoding, the
   "gate present in the final circuit" form of the step lemma, inversion helpers. *)
Require Import Cirbo.Model.Base Cirbo.Model.Gate Cirbo.Model.Den Cirbo.Model.Circuit
  Cirbo.Model.Eval Cirbo.Model.Sem Cirbo.Model.Builder.
Require Import Cirbo.Generated.ArithTables.
Require Import Cirbo.Proofs.DictFacts Cirbo.Proofs.BuilderFacts.

Arguments Z.mul : simpl never.
Arguments Z.add : simpl never.
Arguments Z.sub : simpl never.
Arguments Z.pow : simpl never.
Arguments Z.of_nat : simpl never.
Arguments Z.div : simpl never.
Arguments Z.modulo : simpl never.
Arguments N.succ : simpl never.

Open Scope Z_scope.

(* ---- little-endian decoding ------------------------------------------------------------ *)
Lemma bits_val_nonneg bs : 0 <= bits_val bs.
Proof. induction bs as [|b r IH]; simpl; [lia|]. destruct b; simpl; lia. Qed.

Lemma bits_val_bound bs : bits_val bs < 2 ^ Z.of_nat (length bs).
Proof.
  induction bs as [|b r IH]; [simpl; lia|].
  cbn [bits_val length]. rewrite Nat2Z.inj_succ, Z.pow_succ_r by lia. destruct b; simpl; lia.
Qed.

Lemma bits_val_range bs : 0 <= bits_val bs < 2 ^ Z.of_nat (length bs).
Proof. split; [apply bits_val_nonneg|apply bits_val_bound]. Qed.

Lemma bits_val_app a b : bits_val (a ++ b) = bits_val a + 2 ^ Z.of_nat (length a) * bits_val b.
Proof.
  induction a as [|x a IH]; [simpl; lia|].
  cbn [app bits_val length]. rewrite IH, Nat2Z.inj_succ, Z.pow_succ_r by lia. lia.
Qed.

Lemma bits_val_repeat_false n : bits_val (repeat false n) = 0.
Proof. induction n as [|n IH]; simpl; [reflexivity|]. rewrite IH. reflexivity. Qed.

Lemma bits_val_cons b r : bits_val (b :: r) = Z.b2z b + 2 * bits_val r.
Proof. reflexivity. Qed.

Lemma b2z_range b : 0 <= Z.b2z b <= 1.
Proof. destruct b; simpl; lia. Qed.

Lemma pow2_pos n : 0 < 2 ^ Z.of_nat n.
Proof. apply Z.pow_pos_nonneg; lia. Qed.

Lemma pow2_succ n : 2 ^ Z.of_nat (S n) = 2 * 2 ^ Z.of_nat n.
Proof. rewrite Nat2Z.inj_succ, Z.pow_succ_r by lia. reflexivity. Qed.

Lemma pow2_add n m : 2 ^ Z.of_nat (n + m) = 2 ^ Z.of_nat n * 2 ^ Z.of_nat m.
Proof. rewrite Nat2Z.inj_add, Z.pow_add_r by lia. reflexivity. Qed.

(* ---- a truth-table gate sitting in a circuit --------------------------------------------- *)
Definition has_tt (c : circuit) (l : label) (t : tt4) (x y : label) : Prop :=
  dget (gates c) l = Some (mkGate (binary_tt_to_type t) [x; y]).

Lemma has_tt_ext c c' l t x y : ext c c' -> has_tt c l t x y -> has_tt c' l t x y.
Proof. intros H; apply ext_dget, H. Qed.

Lemma has_tt_val c l t x y a bx by_ :
  has_tt c l t x y -> bval c a x bx -> bval c a y by_ -> bval c a l (tt_fun t bx by_).
Proof.
  intros H Hx Hy. eapply bval_gate; [exact H|apply binary_tt_to_type_not_input| |apply binary_tt_to_type_den].
  constructor; [exact Hx|constructor; [exact Hy|constructor]].
Qed.

Definition has_g (c : circuit) (l : label) (t : gtype) (ops : list label) : Prop :=
  dget (gates c) l = Some (mkGate t ops).

Lemma has_g_ext c c' l t ops : ext c c' -> has_g c l t ops -> has_g c' l t ops.
Proof. intros H; apply ext_dget, H. Qed.

Lemma has_g_has_gate c l t ops : has_g c l t ops -> has_gate c l = true.
Proof. unfold has_g, has_gate, dmem. intros ->. reflexivity. Qed.

(* ---- inversion helpers --------------------------------------------------------------------- *)
Lemma gate_tt_bind fresh t x y {B} (k : label -> prog B) s r s' :
  run fresh (Bind (gate_tt t x y) k) s = Ok (r, s') ->
  exists l s1, run fresh (k l) s1 = Ok (r, s') /\ ext (bc s) (bc s1) /\ has_tt (bc s1) l t x y /\
               outputs (bc s1) = outputs (bc s).
Proof.
  intros H. apply run_bind_inv in H as (l & s1 & H1 & H). exists l, s1.
  apply gate_tt_spec in H1 as (Hx & Hl & _ & _ & G & O & _).
  repeat split; auto. unfold has_tt. rewrite G, dget_app.
  unfold has_gate, dmem in Hl. destruct (dget (gates (bc s)) l); [discriminate|].
  simpl. rewrite leqb_refl. reflexivity.
Qed.

Lemma gate_new_bind fresh t ops {B} (k : label -> prog B) s r s' :
  run fresh (Bind (gate_new t ops) k) s = Ok (r, s') ->
  exists l s1, run fresh (k l) s1 = Ok (r, s') /\ ext (bc s) (bc s1) /\ has_g (bc s1) l t ops /\
               t <> INPUT /\ outputs (bc s1) = outputs (bc s).
Proof.
  intros H. apply run_bind_inv in H as (l & s1 & H1 & H). exists l, s1.
  apply gate_new_spec in H1 as (Hx & Ht & Hl & _ & G & O & _).
  repeat split; auto. unfold has_g. rewrite G, dget_app.
  unfold has_gate, dmem in Hl. destruct (dget (gates (bc s)) l); [discriminate|].
  simpl. rewrite leqb_refl. reflexivity.
Qed.

Lemma addgate_bind fresh l t ops {B} (k : unit -> prog B) s r s' :
  run fresh (Bind (AddGate l t ops) k) s = Ok (r, s') ->
  exists s1, run fresh (k tt) s1 = Ok (r, s') /\ ext (bc s) (bc s1) /\ has_g (bc s1) l t ops /\
             t <> INPUT /\ has_gate (bc s) l = false /\ outputs (bc s1) = outputs (bc s).
Proof.
  intros H. apply run_bind_inv in H as ([] & s1 & H1 & H). exists s1.
  pose proof (run_ext _ _ _ _ _ H1) as Hx.
  apply run_addgate_inv in H1 as (Ht & He & _).
  destruct (emplace_gate_inv _ _ _ _ _ He Ht) as (Hl & _ & G & _ & O & _).
  repeat split; auto. unfold has_g. rewrite G, dget_app.
  unfold has_gate, dmem in Hl. destruct (dget (gates (bc s)) l); [discriminate|].
  simpl. rewrite leqb_refl. reflexivity.
Qed.

Lemma ret_res_inv fresh {A} (x : res A) s r s' :
  run fresh (ret_res x) s = Ok (r, s') -> x = Ok r /\ s' = s.
Proof. destruct x; simpl; [intros [= <- <-]; tauto|discriminate]. Qed.

Lemma nthP_inv fresh {A} (l : list A) i s r s' :
  run fresh (nthP l i) s = Ok (r, s') -> nth_error l i = Some r /\ s' = s.
Proof.
  unfold nthP, nth_res. intros H. apply ret_res_inv in H as (H & ->).
  destruct (nth_error l i); [injection H as ->; tauto|discriminate].
Qed.

(* close a chain of extensions towards a final circuit c *)
Ltac ext_close c :=
  repeat match goal with
         | H1 : ext ?x ?y, H2 : ext ?y c |- _ =>
           lazymatch goal with
           | _ : ext x c |- _ => fail
           | _ => pose proof (ext_trans _ _ _ H1 H2)
           end
         end.

(* turn every has_tt / has_g fact into one about the final circuit c *)
Ltac to_final c :=
  ext_close c;
  repeat match goal with
         | Hx : ext ?x c, H : has_tt ?x _ _ _ _ |- _ => apply (has_tt_ext _ _ _ _ _ _ Hx) in H
         | Hx : ext ?x c, H : has_g ?x _ _ _ |- _ => apply (has_g_ext _ _ _ _ _ Hx) in H
         end.

Lemma Forall2_nth_error {A B} (P : A -> B -> Prop) l m i x :
  Forall2 P l m -> nth_error l i = Some x -> exists y, nth_error m i = Some y /\ P x y.
Proof.
  intros H; revert i; induction H; intros [|i]; simpl; try discriminate.
  - intros [= <-]; eauto.
  - apply IHForall2.
Qed.

(* ---- decoding with endianness ---------------------------------------------------------- *)
Definition decode (big_endian : bool) (v : list bool) : Z := bits_val (rev_if big_endian v).

Lemma rev_if_involutive {A} be (l : list A) : rev_if be (rev_if be l) = l.
Proof. destruct be; simpl; [apply rev_involutive|reflexivity]. Qed.

Lemma rev_if_length {A} be (l : list A) : length (rev_if be l) = length l.
Proof. destruct be; simpl; [apply rev_length|reflexivity]. Qed.

Lemma decode_rev_if be v : decode be (rev_if be v) = bits_val v.
Proof. unfold decode. rewrite rev_if_involutive. reflexivity. Qed.

Lemma bvals_rev_if c a be ls bs : bvals c a ls bs -> bvals c a (rev_if be ls) (rev_if be bs).
Proof. destruct be; simpl; [apply bvals_rev|auto]. Qed.

Lemma bvals_firstn c a n ls bs : bvals c a ls bs -> bvals c a (firstn n ls) (firstn n bs).
Proof.
  intros H; revert n; induction H; intros [|n]; simpl; constructor; auto.
Qed.

Lemma bvals_skipn c a n ls bs : bvals c a ls bs -> bvals c a (skipn n ls) (skipn n bs).
Proof.
  intros H; revert n; induction H; intros [|n]; simpl; try constructor; auto.
Qed.

Lemma bvals_repeat c a l b n : bval c a l b -> bvals c a (repeat l n) (repeat b n).
Proof. intros H; induction n; simpl; constructor; auto. Qed.

Lemma bits_val_firstn n v : exists K, 0 <= K /\ bits_val v = bits_val (firstn n v) + 2 ^ Z.of_nat n * K.
Proof.
  revert v; induction n as [|n IH]; intros v.
  - exists (bits_val v). split; [apply bits_val_nonneg|]. simpl firstn. simpl bits_val.
    change (Z.of_nat 0) with 0. rewrite Z.pow_0_r. lia.
  - destruct v as [|b r]; [exists 0; simpl; lia|].
    destruct (IH r) as (K & HK & E). exists K. split; [exact HK|].
    cbn [firstn bits_val]. rewrite pow2_succ. lia.
Qed.

Lemma mod_unique_range n q r x : 0 <= r < 2 ^ Z.of_nat n -> x = 2 ^ Z.of_nat n * q + r -> x mod 2 ^ Z.of_nat n = r.
Proof. intros Hr E. symmetry. eapply Z.mod_unique; [left; exact Hr|exact E]. Qed.
