(* Circuit isomorphism: a label bijection that preserves the input order, the output order,
   gate types and operand order; consequences: same counts, same value of every gate under
   every assignment (relational semantics Sem.Eval), hence the same truth table. *)
Require Import Cirbo.Model.Base Cirbo.Model.Gate Cirbo.Model.Circuit Cirbo.Model.Eval Cirbo.Model.Sem.
Require Import Cirbo.Generated.GateTypes Cirbo.Proofs.DictFacts Cirbo.Proofs.SemFacts.

(* operands of an INPUT gate are never read by the semantics and are not stored by the codec *)
Definition gate_image (f : label -> label) (g g' : gate) : Prop :=
  gtyp g' = gtyp g /\ (gtyp g = INPUT \/ gops g' = map f (gops g)).

Record iso (f : label -> label) (c c' : circuit) : Prop := {
  iso_inj : forall a b, dmem (gates c) a = true -> dmem (gates c) b = true -> f a = f b -> a = b;
  iso_inputs : inputs c' = map f (inputs c);
  iso_outputs : outputs c' = map f (outputs c);
  iso_gates : forall l g, dget (gates c) l = Some g ->
              exists g', dget (gates c') (f l) = Some g' /\ gate_image f g g';
  iso_onto : forall l', dmem (gates c') l' = true -> exists l, dmem (gates c) l = true /\ l' = f l;
  iso_size : length (gates c') = length (gates c) }.

Definition isomorphic (c c' : circuit) : Prop := exists f, iso f c c'.

Definition ops_exist (c : circuit) : Prop :=
  forall l g o, dget (gates c) l = Some g -> gtyp g <> INPUT -> In o (gops g) -> dmem (gates c) o = true.

Definition inputs_exist (c : circuit) : Prop := forall i, In i (inputs c) -> dmem (gates c) i = true.

Theorem iso_counts f c c' :
  iso f c c' ->
  length (inputs c') = length (inputs c) /\ length (outputs c') = length (outputs c)
  /\ size c' = size c.
Proof.
  intros H. rewrite (iso_inputs _ _ _ H), (iso_outputs _ _ _ H), !map_length. unfold size.
  rewrite (iso_size _ _ _ H). auto.
Qed.

(* gate for gate: the image of a gate has the value of the gate *)
Theorem iso_Eval f c c' a a' :
  iso f c c' -> (forall l, dmem (gates c) l = true -> aval a' (f l) = aval a l) ->
  forall l v, Eval c a l v -> Eval c' a' (f l) v.
Proof.
  intros Hiso Ha l v H.
  induction H as [l g Hg Ht|l g vs v Hg Ht Hops IH Hop] using Eval_ind2.
  - destruct (iso_gates _ _ _ Hiso _ _ Hg) as (g' & Hg' & Hty & _).
    rewrite <- (Ha l) by (unfold dmem; rewrite Hg; reflexivity).
    eapply EvalInput; [exact Hg'|congruence].
  - destruct (iso_gates _ _ _ Hiso _ _ Hg) as (g' & Hg' & Hty & [Hin|Hops']); [contradiction|].
    eapply EvalGate; [exact Hg'|congruence| |rewrite Hty; exact Hop].
    rewrite Hops'. clear -IH. induction IH; constructor; assumption.
Qed.

Theorem iso_Eval_inv f c c' a a' :
  iso f c c' -> ops_exist c -> (forall l, dmem (gates c) l = true -> aval a' (f l) = aval a l) ->
  forall l' v, Eval c' a' l' v -> forall l, dmem (gates c) l = true -> l' = f l -> Eval c a l v.
Proof.
  intros Hiso Hex Ha l' v H.
  induction H as [l' g' Hg' Ht'|l' g' vs v Hg' Ht' Hops IH Hop] using Eval_ind2; intros l Hl ->.
  - unfold dmem in Hl. destruct (dget (gates c) l) as [g|] eqn:Hg; [|discriminate].
    destruct (iso_gates _ _ _ Hiso _ _ Hg) as (g2 & Hg2 & Hty & _).
    rewrite Hg' in Hg2; injection Hg2 as <-.
    rewrite (Ha l) by (unfold dmem; rewrite Hg; reflexivity).
    eapply EvalInput; [exact Hg|congruence].
  - unfold dmem in Hl. destruct (dget (gates c) l) as [g|] eqn:Hg; [|discriminate].
    destruct (iso_gates _ _ _ Hiso _ _ Hg) as (g2 & Hg2 & Hty & Himg).
    rewrite Hg' in Hg2; injection Hg2 as <-.
    assert (gtyp g <> INPUT) as Hnt by congruence.
    destruct Himg as [Hin|Hops']; [contradiction|].
    eapply EvalGate; [exact Hg|exact Hnt| |rewrite <- Hty; exact Hop].
    rewrite Hops' in IH.
    assert (forall o, In o (gops g) -> dmem (gates c) o = true) as Hoe by (intros o Ho; eapply Hex; eassumption).
    clear -IH Hoe. revert vs IH. induction (gops g) as [|o ops IHo]; intros vs IH; inversion IH; subst; constructor.
    + apply H1; [apply Hoe; left; reflexivity|reflexivity].
    + apply IHo; [intros x Hx; apply Hoe; right; exact Hx|assumption].
Qed.

(* positional assignments: the i-th value goes to the i-th input *)
Lemma dget_combine_map (f : label -> label) (ins : list label) (vals : list st) l :
  (forall x, In x ins -> f x = f l -> x = l) ->
  dget (combine (map f ins) vals) (f l) = dget (combine ins vals) l.
Proof.
  revert vals; induction ins as [|i ins IH]; intros vals Hinj; simpl; [reflexivity|].
  destruct vals as [|v vals]; [reflexivity|]. simpl.
  destruct (leqb_spec l i) as [->|Hne].
  - rewrite leqb_refl; reflexivity.
  - destruct (leqb_spec (f l) (f i)) as [E|_].
    + symmetry in E. apply Hinj in E; [congruence|left; reflexivity].
    + apply IH. intros x Hx; apply Hinj; right; exact Hx.
Qed.

Lemma iso_positional f c c' vals :
  iso f c c' -> inputs_exist c ->
  forall l, dmem (gates c) l = true ->
  aval (combine (inputs c') vals) (f l) = aval (combine (inputs c) vals) l.
Proof.
  intros Hiso Hin l Hl. unfold aval. rewrite (iso_inputs _ _ _ Hiso), dget_combine_map; [reflexivity|].
  intros x Hx E. eapply (iso_inj _ _ _ Hiso); [apply Hin; exact Hx|exact Hl|exact E].
Qed.

(* same truth table: under the same vector of input values every output position of c'
   carries the image of the output of c and has its value; with all operands present the
   converse holds too, so that by functionality of Eval the two tables are equal entry by entry *)
Theorem iso_same_function f c c' vals :
  iso f c c' -> inputs_exist c ->
  (forall l v, Eval c (combine (inputs c) vals) l v -> Eval c' (combine (inputs c') vals) (f l) v) /\
  (forall j o, nth_error (outputs c) j = Some o -> nth_error (outputs c') j = Some (f o)) /\
  (ops_exist c -> forall l v, dmem (gates c) l = true ->
     Eval c' (combine (inputs c') vals) (f l) v -> Eval c (combine (inputs c) vals) l v).
Proof.
  intros Hiso Hin. split; [|split].
  - intros l v. apply (iso_Eval _ _ _ _ _ Hiso). apply iso_positional; assumption.
  - intros j o Ho. rewrite (iso_outputs _ _ _ Hiso). apply map_nth_error; exact Ho.
  - intros Hex l v Hl H. eapply (iso_Eval_inv _ _ _ _ _ Hiso Hex); [|exact H|exact Hl|reflexivity].
    apply iso_positional; assumption.
Qed.
