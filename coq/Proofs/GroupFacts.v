(* C18 (used by EffectME.v): the grouping of labels by truth table (_tt_to_gates), group indices,
   and the representative bookkeeping (_Keep) of MergeEquivalentGates.  Pure list reasoning. *)
Require Import Cirbo.Model.Base Cirbo.Model.Gate Cirbo.Model.Circuit Cirbo.Model.Passes.
Require Import Cirbo.Proofs.DictFacts Cirbo.Proofs.WFBase Cirbo.Proofs.TopSortWF.

Lemma stl_eqb_eq a b : stl_eqb a b = true <-> a = b.
Proof. apply all_eqb_eq, st_beq_eq. Qed.

(* ---------------- classes ---------------- *)
Definition class_list := list (list st * list label).

Lemma group_insert_spec (gs : class_list) tt l :
  (exists g1 ls g2, gs = g1 ++ (tt, ls) :: g2 /\ group_insert gs tt l = g1 ++ (tt, ls ++ [l]) :: g2) \/
  (~ In tt (map fst gs) /\ group_insert gs tt l = gs ++ [(tt, [l])]).
Proof.
  induction gs as [|[t' ls'] gs IH]; simpl.
  - right. split; [tauto|reflexivity].
  - destruct (stl_eqb t' tt) eqn:E.
    + apply stl_eqb_eq in E. subst t'. left. exists [], ls', gs. split; reflexivity.
    + assert (Hne : t' <> tt) by (intros ->; rewrite (proj2 (stl_eqb_eq tt tt) eq_refl) in E; discriminate).
      destruct IH as [(g1 & ls & g2 & -> & ->)|[Hn ->]].
      * left. exists ((t', ls') :: g1), ls, g2. split; reflexivity.
      * right. split; [intros [H|H]; [contradiction|contradiction]|reflexivity].
Qed.

Record CInv (gs : class_list) (E : list (label * list st)) : Prop := mkCInv {
  ci_mem : forall t ls l, In (t, ls) gs -> In l ls -> In (l, t) E;
  ci_nodup : NoDup (map fst gs);
  ci_all : forall l t, In (l, t) E -> exists ls, In (t, ls) gs /\ In l ls }.

Lemma CInv_step gs E l tt : CInv gs E -> CInv (group_insert gs tt l) (E ++ [(l, tt)]).
Proof.
  intros I. destruct (group_insert_spec gs tt l) as [(g1 & ls & g2 & Eg & ->)|[Hn ->]].
  - constructor.
    + intros t ls0 l0 Hin Hl0. apply in_or_app. apply in_app_or in Hin. destruct Hin as [Hin|[Hin|Hin]].
      * left. apply (ci_mem gs E I t ls0 l0); [rewrite Eg; apply in_or_app; left; exact Hin|exact Hl0].
      * injection Hin as <- <-. apply in_app_or in Hl0. destruct Hl0 as [Hl0|[<-|[]]]; [left|right; left; reflexivity].
        apply (ci_mem gs E I tt ls l0); [rewrite Eg; apply in_elt|exact Hl0].
      * left. apply (ci_mem gs E I t ls0 l0); [rewrite Eg; apply in_or_app; right; right; exact Hin|exact Hl0].
    + pose proof (ci_nodup gs E I) as Hnd. rewrite Eg in Hnd. rewrite map_app in *. exact Hnd.
    + intros l0 t0 Hin. apply in_app_or in Hin. destruct Hin as [Hin|[Hin|[]]].
      * destruct (ci_all gs E I l0 t0 Hin) as (ls0 & Hc & Hl0). rewrite Eg in Hc.
        apply in_app_or in Hc. destruct Hc as [Hc|[Hc|Hc]].
        -- exists ls0. split; [apply in_or_app; left; exact Hc|exact Hl0].
        -- injection Hc as <- <-. exists (ls ++ [l]). split; [apply in_elt|apply in_or_app; left; exact Hl0].
        -- exists ls0. split; [apply in_or_app; right; right; exact Hc|exact Hl0].
      * injection Hin as <- <-. exists (ls ++ [l]). split; [apply in_elt|apply in_or_app; right; left; reflexivity].
  - constructor.
    + intros t ls0 l0 Hin Hl0. apply in_or_app. apply in_app_or in Hin. destruct Hin as [Hin|[Hin|[]]].
      * left. eapply (ci_mem gs E I); eassumption.
      * injection Hin as <- <-. destruct Hl0 as [<-|[]]. right; left; reflexivity.
    + rewrite map_app. simpl. apply TopSort.NoDup_app_snoc; [apply (ci_nodup gs E I)|exact Hn].
    + intros l0 t0 Hin. apply in_app_or in Hin. destruct Hin as [Hin|[Hin|[]]].
      * destruct (ci_all gs E I l0 t0 Hin) as (ls0 & Hc & Hl0). exists ls0. split; [apply in_or_app; left; exact Hc|exact Hl0].
      * injection Hin as <- <-. exists [l]. split; [apply in_or_app; right; left; reflexivity|left; reflexivity].
Qed.

Definition classes_of (gtt : dict (list st)) : class_list :=
  fold_left (fun gs (kv : label * list st) => group_insert gs (snd kv) (fst kv)) gtt [].

Lemma classes_of_inv gtt : CInv (classes_of gtt) gtt.
Proof.
  unfold classes_of.
  assert (G : forall rest gs E, CInv gs E ->
            CInv (fold_left (fun gs (kv : label * list st) => group_insert gs (snd kv) (fst kv)) rest gs) (E ++ rest)).
  { induction rest as [|[l t] rest IH]; intros gs E I; simpl; [rewrite app_nil_r; exact I|].
    replace (E ++ (l, t) :: rest) with ((E ++ [(l, t)]) ++ rest) by (rewrite <- app_assoc; reflexivity).
    apply IH. apply CInv_step; exact I. }
  apply (G gtt [] []). constructor; simpl; [intros t ls l []|constructor|intros l t []].
Qed.

Definition groups_of (gtt : dict (list st)) : list (list label) :=
  filter (fun ls => Nat.ltb 1 (length ls)) (map snd (classes_of gtt)).

Lemma nodup_fst_functional {A B} (l : list (A * B)) a b b' :
  NoDup (map fst l) -> In (a, b) l -> In (a, b') l -> b = b'.
Proof.
  induction l as [|[a0 b0] l IH]; simpl; [tauto|]. intros Hnd H1 H2. inversion Hnd as [|? ? Hn Hnd']; subst.
  destruct H1 as [H1|H1], H2 as [H2|H2].
  - congruence.
  - injection H1 as -> ->. exfalso. apply Hn. apply (in_map fst) in H2. exact H2.
  - injection H2 as -> ->. exfalso. apply Hn. apply (in_map fst) in H1. exact H1.
  - apply IH; assumption.
Qed.

Section Groups.
  Variable gtt : dict (list st).
  Hypothesis Hnd : NoDup (dkeys gtt).
  Let gs := classes_of gtt.
  Let groups := groups_of gtt.

  Lemma group_class g : In g groups -> exists t, In (t, g) gs.
  Proof.
    unfold groups, groups_of. intros H. apply filter_In in H. destruct H as [H _].
    apply in_map_iff in H. destruct H as ([t ls] & <- & H). exists t. exact H.
  Qed.

  (* labels with equal tables belong to the same groups *)
  Lemma same_tt_same_groups l1 l2 t :
    dget gtt l1 = Some t -> dget gtt l2 = Some t ->
    forall g, In g groups -> In l1 g -> In l2 g.
  Proof.
    intros H1 H2 g Hg Hl1. destruct (group_class g Hg) as [t' Hc].
    pose proof (classes_of_inv gtt) as I. fold gs in I.
    pose proof (ci_mem gs gtt I t' g l1 Hc Hl1) as Hin.
    assert (t' = t) by (apply dget_of_In in Hin; [congruence|exact Hnd]). subst t'.
    destruct (ci_all gs gtt I l2 t (dget_In _ _ _ H2)) as (ls2 & Hc2 & Hl2).
    assert (ls2 = g) by (eapply nodup_fst_functional; [apply (ci_nodup gs gtt I)|exact Hc2|exact Hc]).
    subst. exact Hl2.
  Qed.

  Lemma same_tt_group_exists l1 l2 t :
    dget gtt l1 = Some t -> dget gtt l2 = Some t -> l1 <> l2 ->
    exists g, In g groups /\ In l1 g.
  Proof.
    intros H1 H2 Hne. pose proof (classes_of_inv gtt) as I. fold gs in I.
    destruct (ci_all gs gtt I l1 t (dget_In _ _ _ H1)) as (ls & Hc & Hl1).
    destruct (ci_all gs gtt I l2 t (dget_In _ _ _ H2)) as (ls2 & Hc2 & Hl2).
    assert (ls2 = ls) by (eapply nodup_fst_functional; [apply (ci_nodup gs gtt I)|exact Hc2|exact Hc]).
    subst ls2. exists ls. split; [|exact Hl1]. unfold groups, groups_of. apply filter_In. split.
    - apply in_map_iff. exists (t, ls). split; [reflexivity|exact Hc].
    - destruct ls as [|a [|b r]]; simpl; try reflexivity.
      + destruct Hl1.
      + destruct Hl1 as [<-|[]]. destruct Hl2 as [<-|[]]. contradiction.
  Qed.

  (* members of one group have equal tables *)
  Lemma group_same_tt g l1 l2 : In g groups -> In l1 g -> In l2 g ->
    exists t, dget gtt l1 = Some t /\ dget gtt l2 = Some t.
  Proof.
    intros Hg H1 H2. destruct (group_class g Hg) as [t Hc].
    pose proof (classes_of_inv gtt) as I. fold gs in I. exists t.
    split; apply dget_of_In; try exact Hnd; eapply (ci_mem gs gtt I); eassumption.
  Qed.
End Groups.

(* ---------------- group_index ---------------- *)
Lemma group_index_congr groups l1 l2 :
  (forall g, In g groups -> (In l1 g <-> In l2 g)) -> forall k, group_index groups l1 k = group_index groups l2 k.
Proof.
  induction groups as [|g groups IH]; intros H k; simpl; [reflexivity|].
  assert (E : memb l1 g = memb l2 g).
  { destruct (memb l1 g) eqn:E1; destruct (memb l2 g) eqn:E2; try reflexivity.
    - apply memb_In in E1. apply (H g (or_introl eq_refl)) in E1. apply memb_In in E1. congruence.
    - apply memb_In in E2. apply (H g (or_introl eq_refl)) in E2. apply memb_In in E2. congruence. }
  rewrite E. destruct (memb l2 g); [reflexivity|]. apply IH. intros g' Hg'. apply H. right; exact Hg'.
Qed.

Lemma group_index_some groups l g : In g groups -> In l g -> forall k, group_index groups l k <> None.
Proof.
  induction groups as [|g0 groups IH]; intros Hg Hl k; simpl; [destruct Hg|].
  destruct (memb l g0) eqn:E; [discriminate|]. destruct Hg as [->|Hg]; [|apply IH; assumption].
  apply memb_In in Hl. congruence.
Qed.

Lemma group_index_in groups l : forall k i, group_index groups l k = Some i ->
  k <= i /\ exists g, nth_error groups (i - k) = Some g /\ In l g.
Proof.
  induction groups as [|g0 groups IH]; intros k i H; simpl in H; [discriminate|].
  destruct (memb l g0) eqn:E.
  - injection H as <-. split; [lia|]. rewrite Nat.sub_diag. exists g0. split; [reflexivity|apply memb_In; exact E].
  - destruct (IH _ _ H) as (Hle & g & Hn & Hl). split; [lia|]. exists g. split; [|exact Hl].
    replace (i - k) with (S (i - S k)) by lia. exact Hn.
Qed.

Lemma same_index_same_group groups l1 l2 i :
  group_index groups l1 0 = Some i -> group_index groups l2 0 = Some i ->
  exists g, In g groups /\ In l1 g /\ In l2 g.
Proof.
  intros H1 H2. destruct (group_index_in _ _ _ _ H1) as (_ & g1 & Hn1 & Hl1).
  destruct (group_index_in _ _ _ _ H2) as (_ & g2 & Hn2 & Hl2).
  assert (g1 = g2) by congruence. subst. exists g2. split; [eapply nth_error_In; exact Hn1|auto].
Qed.

(* ---------------- representatives ---------------- *)
Section Keeps.
  Variable groups : list (list label).

  Definition kinv (k : keeps) : Prop := forall i v, keep_get k i = Some v -> group_index groups v 0 = Some i.
  Definition kle (k k' : keeps) : Prop := forall i v, keep_get k i = Some v -> keep_get k' i = Some v.
  (* l is the representative of its group, or belongs to no group *)
  Definition cank (k : keeps) (l : label) : Prop :=
    match group_index groups l 0 with None => True | Some i => keep_get k i = Some l end.
  (* r replaces l: same label, or members of the same group *)
  Definition same_class (l r : label) : Prop :=
    r = l \/ exists i, group_index groups l 0 = Some i /\ group_index groups r 0 = Some i.

  Lemma kle_refl k : kle k k.
  Proof. intros i v H; exact H. Qed.
  Lemma kle_trans k1 k2 k3 : kle k1 k2 -> kle k2 k3 -> kle k1 k3.
  Proof. intros H1 H2 i v H. apply H2, H1, H. Qed.

  Lemma cank_mono k k' l : cank k l -> kle k k' -> cank k' l.
  Proof. unfold cank. destruct (group_index groups l 0); [intros H Hle; apply Hle; exact H|auto]. Qed.

  Lemma cank_unique k l1 l2 i : cank k l1 -> cank k l2 ->
    group_index groups l1 0 = Some i -> group_index groups l2 0 = Some i -> l1 = l2.
  Proof. unfold cank. intros C1 C2 H1 H2. rewrite H1 in C1. rewrite H2 in C2. congruence. Qed.

  Lemma me_new_name_spec k l r k' : kinv k -> me_new_name groups k l = (r, k') ->
    kinv k' /\ kle k k' /\ cank k' r /\ same_class l r.
  Proof.
    intros Hk H. unfold me_new_name in H. destruct (group_index groups l 0) as [i|] eqn:Ei.
    - destruct (keep_get k i) as [v|] eqn:Ev; injection H as <- <-.
      + split; [exact Hk|]. split; [apply kle_refl|]. pose proof (Hk i v Ev) as Hv. split.
        * unfold cank. rewrite Hv. exact Ev.
        * right. exists i. auto.
      + split; [|split; [|split]].
        * intros j v H. simpl in H. destruct (Nat.eqb_spec j i) as [->|Hne]; [injection H as <-; exact Ei|apply Hk; exact H].
        * intros j v H. simpl. destruct (Nat.eqb_spec j i) as [->|Hne]; [congruence|exact H].
        * unfold cank. rewrite Ei. simpl. rewrite Nat.eqb_refl. reflexivity.
        * left; reflexivity.
    - injection H as <- <-. split; [exact Hk|]. split; [apply kle_refl|]. split; [|left; reflexivity].
      unfold cank. rewrite Ei. exact I.
  Qed.

  Lemma me_new_names_spec ls : forall k rs k', kinv k -> me_new_names groups k ls = (rs, k') ->
    kinv k' /\ kle k k' /\ Forall (cank k') rs /\ Forall2 same_class ls rs.
  Proof.
    induction ls as [|l ls IH]; intros k rs k' Hk H; simpl in H.
    - injection H as <- <-. split; [exact Hk|]. split; [apply kle_refl|]. split; constructor.
    - destruct (me_new_name groups k l) as [r k1] eqn:E1. destruct (me_new_names groups k1 ls) as [rs' k2] eqn:E2.
      injection H as <- <-. destruct (me_new_name_spec k l r k1 Hk E1) as (Hk1 & Hle1 & Hc1 & Hs1).
      destruct (IH k1 rs' k2 Hk1 E2) as (Hk2 & Hle2 & Hc2 & Hs2).
      split; [exact Hk2|]. split; [eapply kle_trans; eassumption|]. split.
      + constructor; [eapply cank_mono; eassumption|exact Hc2].
      + constructor; assumption.
  Qed.
End Keeps.
