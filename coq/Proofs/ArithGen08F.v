(* Generated/ArithGen08.v (translators T19, T22) equals the hand model, part F: the dispatch tables _process_mul /
   _process_square, the wrappers generate_mul / generate_square (on the input labels the source builds:
   str(0) .. str(n-1) for Circuit.bare_circuit(n)), and the conjunction that Properties/C08.v states. *)
Require Import Cirbo.Model.Base Cirbo.Model.Gate Cirbo.Model.Circuit Cirbo.Model.Builder Cirbo.Model.PyPrims.
Require Import Cirbo.Model.ArithSub Cirbo.Model.ArithSum2 Cirbo.Model.ArithSumN Cirbo.Model.ArithSumW Cirbo.Model.ArithGen.
Require Import Cirbo.Model.PyPrims08 Cirbo.Model.ArithMul Cirbo.Model.ArithSquare.
Require Import Cirbo.Generated.ArithTables Cirbo.Generated.ArithCells Cirbo.Generated.ArithGen08.
Require Import Cirbo.Proofs.ArithGenFacts.
Require Import Cirbo.Proofs.ArithGen09Lib Cirbo.Proofs.ArithGen08Lib Cirbo.Proofs.ArithGen08A Cirbo.Proofs.ArithGen08B
  Cirbo.Proofs.ArithGen08C Cirbo.Proofs.ArithGen08D Cirbo.Proofs.ArithGen08E Cirbo.Proofs.ArithGen08W.
From Coq Require Import ZArith Lia Ascii.
Open Scope Z_scope.

Theorem gen__process_mul_eq t a b be : peq (gen__process_mul t a b be) (process_mul t a b be).
Proof.
  destruct t; cbn [gen__process_mul process_mul].
  - apply gen_add_mul_eq.
  - apply gen_add_mul_karatsuba_with_efficient_sum_eq.
  - apply gen_add_mul_alter_eq.
  - apply gen_add_mul_dadda_eq.
  - apply gen_add_mul_wallace_eq.
  - apply gen_add_mul_pow2_m1_eq.
Qed.

Theorem gen__process_square_eq t x be : peq (gen__process_square t x be) (process_square t x be).
Proof.
  destruct t; cbn [gen__process_square process_square]; [apply gen_add_square_eq|apply gen_add_square_pow2_m1_eq].
Qed.

Lemma py_slice_to_Z {A} (l : list A) z : 0 <= z -> py_slice l None (Some z) = firstn (Z.to_nat z) l.
Proof. intros H. rewrite <- (Z2Nat.id z H) at 1. apply py_slice_to. Qed.

Lemma py_slice_from_Z {A} (l : list A) z : 0 <= z -> py_slice l (Some z) None = skipn (Z.to_nat z) l.
Proof. intros H. rewrite <- (Z2Nat.id z H) at 1. apply py_slice_from. Qed.

Theorem gen_generate_mul_eq fresh k0 sa sb t be : 0 <= sa ->
  gen_generate_mul fresh k0 sa sb t be
  = generate_mul fresh k0 (py_bare_labels (sa + sb)) (Z.to_nat sa) t be.
Proof.
  intros Ha. unfold gen_generate_mul, generate_mul, gen_set_outputs, py_bare_circuit.
  destruct (circuit_with_inputs (py_bare_labels (sa + sb))) as [c|e] eqn:Ec; cbn [bind]; [|reflexivity].
  apply circuit_with_inputs_spec in Ec. destruct Ec as [Ei _]. rewrite Ei.
  rewrite py_slice_to_Z, py_slice_from_Z by exact Ha.
  rewrite (gen__process_mul_eq t _ _ be fresh (mkB c k0)).
  destruct (run fresh _ _) as [[r st]|e]; rs; cbn [bind fst snd]; try reflexivity;
    destruct (set_outputs _ _); reflexivity.
Qed.

Theorem gen_generate_square_eq fresh k0 n t be :
  gen_generate_square fresh k0 n t be = generate_square fresh k0 (py_bare_labels n) t be.
Proof.
  unfold gen_generate_square, generate_square, gen_set_outputs, py_bare_circuit.
  destruct (circuit_with_inputs (py_bare_labels n)) as [c|e] eqn:Ec; cbn [bind]; [|reflexivity].
  apply circuit_with_inputs_spec in Ec. destruct Ec as [Ei _]. rewrite Ei.
  rewrite (gen__process_square_eq t _ be fresh (mkB c k0)).
  destruct (run fresh _ _) as [[r st]|e]; rs; cbn [bind fst snd]; try reflexivity;
    destruct (set_outputs _ _); reflexivity.
Qed.

(* a negative size_of_input_a is a Python slice from the end, which the nat parameter of the hand model cannot express *)
Example generate_mul_negative_size_differs :
  gen_generate_mul short_label 1 (-1) 3 MDefault false
  <> generate_mul short_label 1 (py_bare_labels ((-1) + 3)) (Z.to_nat (-1)) MDefault false.
Proof. vm_compute. discriminate. Qed.

(* last_step_sum_with_new_powers_sum outside its side condition: one empty operand, the other of two bits.  The
   comprehension of the source is empty there and add_sum_n_weighted_bits raises ValueError (max of an empty list);
   the hand model says IndexError for every pair of different widths. *)
Example last_step_empty_operand_differs :
  run short_label (gen_last_step_sum_with_new_powers_sum [] ["a"; "b"]%string false) (mkB empty_circuit 1) = Err PyValueError /\
  run short_label (last_step_sum_with_new_powers_sum [] ["a"; "b"]%string false) (mkB empty_circuit 1) = Err PyIndexError.
Proof. vm_compute. split; reflexivity. Qed.

Theorem generators_regenerated08 :
  (forall a b be fresh s, run fresh (gen_add_mul a b be) s = run fresh (add_mul a b be) s) /\
  (forall a b be fresh s, run fresh (gen_add_mul_alter a b be) s = run fresh (add_mul_alter a b be) s) /\
  (forall a b be fresh s, run fresh (gen_add_mul_pow2_m1 a b be) s = run fresh (add_mul_pow2_m1 a b be) s) /\
  (forall a b be fresh s, run fresh (gen_add_mul_dadda a b be) s = run fresh (add_mul_dadda a b be) s) /\
  (forall a b be fresh s, run fresh (gen_add_mul_wallace a b be) s = run fresh (add_mul_wallace a b be) s) /\
  (forall a b be fresh s,
     (length a = 0%nat -> (length b <= 1)%nat) -> (length b = 0%nat -> (length a <= 1)%nat) ->
     run fresh (gen_last_step_sum_with_new_powers_sum a b be) s
     = run fresh (last_step_sum_with_new_powers_sum a b be) s) /\
  (forall a b be fresh s, run fresh (gen_add_mul_karatsuba a b be) s = run fresh (add_mul_karatsuba a b be) s) /\
  (forall a b be fresh s,
     run fresh (gen_add_mul_karatsuba_with_efficient_sum a b be) s
     = run fresh (add_mul_karatsuba_with_efficient_sum a b be) s) /\
  (forall x be fresh s, run fresh (gen_add_square_pow2_m1 x be) s = run fresh (add_square_pow2_m1 x be) s) /\
  (forall x be fresh s, run fresh (gen_add_square x be) s = run fresh (add_square x be) s) /\
  (* the recursions, for every fuel *)
  (forall fuel a b be fresh s,
     run fresh (gen_add_mul_karatsuba_rec fuel a b be) s
     = run fresh (kara (fun x y => add_mul_pow2_m1 x y false) fuel a b be) s) /\
  (forall fuel a b be fresh s,
     run fresh (gen_add_mul_karatsuba_with_efficient_sum_rec fuel a b be) s
     = run fresh (kara (fun x y => last_step_sum_with_new_powers_sum x y false) fuel a b be) s) /\
  (forall fuel x be fresh s, run fresh (gen_add_square_rec fuel x be) s = run fresh (square_rec fuel x be) s) /\
  (* the dispatch tables and the wrappers *)
  (forall t a b be fresh s, run fresh (gen__process_mul t a b be) s = run fresh (process_mul t a b be) s) /\
  (forall t x be fresh s, run fresh (gen__process_square t x be) s = run fresh (process_square t x be) s) /\
  (forall fresh k0 sa sb t be, 0 <= sa ->
     gen_generate_mul fresh k0 sa sb t be = generate_mul fresh k0 (py_bare_labels (sa + sb)) (Z.to_nat sa) t be) /\
  (forall fresh k0 n t be,
     gen_generate_square fresh k0 n t be = generate_square fresh k0 (py_bare_labels n) t be).
Proof.
  repeat split.
  - intros; apply gen_add_mul_eq.
  - intros; apply gen_add_mul_alter_eq.
  - intros; apply gen_add_mul_pow2_m1_eq.
  - intros; apply gen_add_mul_dadda_eq.
  - intros; apply gen_add_mul_wallace_eq.
  - intros a b be fresh s H1 H2; apply gen_last_step_eq; assumption.
  - intros; apply gen_add_mul_karatsuba_eq.
  - intros; apply gen_add_mul_karatsuba_with_efficient_sum_eq.
  - intros; apply gen_add_square_pow2_m1_eq.
  - intros; apply gen_add_square_eq.
  - intros; apply gen_kara_pow2_eq.
  - intros; apply gen_kara_eff_eq.
  - intros; apply gen_add_square_rec_eq.
  - intros; apply gen__process_mul_eq.
  - intros; apply gen__process_square_eq.
  - intros; apply gen_generate_mul_eq; assumption.
  - intros; apply gen_generate_square_eq.
Qed.
