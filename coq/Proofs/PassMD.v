(* C03: MergeDuplicateGates.  rho = the first emitted gate with the same canonical signature
   (type, remapped operands up to permutation for symmetric types). *)
Require Import Cirbo.Model.Base Cirbo.Model.Gate Cirbo.Model.Den Cirbo.Model.Circuit Cirbo.Model.Traverse
        Cirbo.Model.Eval Cirbo.Model.Sem Cirbo.Model.WF Cirbo.Model.Passes.
Require Import Cirbo.Generated.Operators Cirbo.Generated.GateTypes.
Require Import Cirbo.Proofs.DictFacts Cirbo.Proofs.OpFacts Cirbo.Proofs.WFBase Cirbo.Proofs.WFSimple
        Cirbo.Proofs.WFEmplace Cirbo.Proofs.TopSortWF Cirbo.Proofs.PassRebuild Cirbo.Proofs.PassRR.
Require Import Coq.Sorting.Permutation.

(* ---------------- signatures ---------------- *)
Lemma perm_eqb_sound a : forall b, perm_eqb a b = true -> Permutation a b.
Proof.
  induction a as [|x a IH]; intros b H; simpl in H.
  - destruct b; [constructor|discriminate].
  - apply andb_true_iff in H. destruct H as [H1 H2]. apply memb_In in H1. apply IH in H2.
    eapply Permutation_trans; [apply perm_skip; exact H2|]. apply Permutation_sym, remove1_perm, H1.
Qed.

Lemma sig_eqb_sound t1 o1 t2 o2 : sig_eqb t1 o1 t2 o2 = true ->
  t1 = t2 /\ ((is_symmetric t1 = true /\ Permutation o1 o2) \/ o1 = o2).
Proof.
  unfold sig_eqb. intros H. apply andb_true_iff in H. destruct H as [H1 H2].
  apply gtype_beq_eq in H1. split; [exact H1|].
  destruct (is_symmetric t1); [left; split; [reflexivity|apply perm_eqb_sound, H2]|right; apply labels_eqb_eq, H2].
Qed.

Lemma sig_lookup_some tbl t ops d : sig_lookup tbl t ops = Some d ->
  exists t' ops', In (t', ops', d) tbl /\ sig_eqb t' ops' t ops = true.
Proof.
  induction tbl as [|[[t' ops'] l] tbl IH]; simpl; [discriminate|].
  destruct (sig_eqb t' ops' t ops) eqn:E.
  - intros [= ->]. exists t', ops'. auto.
  - intros H. destruct (IH H) as (t2 & o2 & Hin & He). exists t2, o2. auto.
Qed.

Lemma Forall2_perm {A B} (P : A -> B -> Prop) l l' : Permutation l l' -> forall vs,
  Forall2 P l vs -> exists vs', Permutation vs vs' /\ Forall2 P l' vs'.
Proof.
  induction 1 as [|x l l' _ IH|x y l|l l1 l2 _ IH1 _ IH2]; intros vs H.
  - inversion H; subst. exists []. split; constructor.
  - inversion H as [|? v ? vs0 Hv H0]; subst. destruct (IH _ H0) as (vs' & Hp & Hf).
    exists (v :: vs'). split; [apply perm_skip; exact Hp|constructor; assumption].
  - inversion H as [|? vy ? vs0 Hy H0]; subst. inversion H0 as [|? vx ? vs1 Hx H1]; subst.
    exists (vx :: vy :: vs1). split; [apply perm_swap|repeat constructor; assumption].
  - destruct (IH1 _ H) as (vs1 & Hp1 & Hf1). destruct (IH2 _ Hf1) as (vs2 & Hp2 & Hf2).
    exists vs2. split; [eapply Permutation_trans; eassumption|exact Hf2].
Qed.

(* ---------------- duplicates have the same value ---------------- *)
Lemma dup_eval c a n d x t od ox v :
  sim c (eqv_all c) n ->
  dget (gates n) d = Some (mkGate t od) -> dget (gates n) x = Some (mkGate t ox) -> t <> INPUT ->
  (is_symmetric t = true /\ Permutation od ox) \/ od = ox ->
  Eval c a d v -> Eval c a x v.
Proof.
  intros S Hd Hx Ht Hrel He.
  destruct (S d _ Hd) as (gd & Hgd & Etd & Hopsd). destruct (S x _ Hx) as (gx & Hgx & Etx & Hopsx).
  simpl in *. subst t.
  destruct (Eval_inv _ _ _ _ _ Hgd He) as [[Hi _]|[_ (vs & Hvs & Hop)]]; [contradiction|].
  assert (Hod : Forall2 (Eval c a) od vs).
  { eapply Forall2_remap_bwd; [apply Hopsd; exact Ht|exact Hvs|]. intros x' x0 w _ HR Hw. apply (HR a w), Hw. }
  assert (Htx : gtyp gx <> INPUT) by congruence.
  destruct Hrel as [[Hsym Hperm]| ->].
  - destruct (Forall2_perm _ _ _ Hperm _ Hod) as (vs' & Hpv & Hox).
    eapply EvalGate; [exact Hgx|exact Htx| |].
    + eapply Forall2_remap_fwd; [apply Hopsx; exact Htx|exact Hox|]. intros x' x0 w _ HR Hw. apply (HR a w), Hw.
    + rewrite <- Etx. rewrite <- (operator_of_symmetric _ _ _ Hsym Hpv). exact Hop.
  - eapply EvalGate; [exact Hgx|exact Htx| |rewrite <- Etx; exact Hop].
    eapply Forall2_remap_fwd; [apply Hopsx; exact Htx|exact Hod|]. intros x' x0 w _ HR Hw. apply (HR a w), Hw.
Qed.

Lemma dup_eqv c n d x t od ox :
  sim c (eqv_all c) n ->
  dget (gates n) d = Some (mkGate t od) -> dget (gates n) x = Some (mkGate t ox) -> t <> INPUT ->
  (is_symmetric t = true /\ Permutation od ox) \/ od = ox -> eqv_all c d x.
Proof.
  intros S Hd Hx Ht Hrel a v. split.
  - eapply dup_eval; eassumption.
  - eapply dup_eval; try eassumption.
    destruct Hrel as [[H1 H2]|H]; [left; split; [exact H1|apply Permutation_sym, H2]|right; symmetry; exact H].
Qed.

(* ---------------- the fold ---------------- *)
Definition md_step (c : circuit) (sq : circuit * sig_table) (l : label) : res (circuit * sig_table) :=
  let '(n, tbl) := sq in
  do g <- get_gate c l;
  if gtype_beq (gtyp g) INPUT then do n' <- add_inputs n [l]; Ok (n', tbl) else
  do ops <- mapM (md_new_name n tbl) (gops g);
  let tbl' := match sig_lookup tbl (gtyp g) ops with
              | Some _ => tbl | None => tbl ++ [(gtyp g, ops, l)] end in
  do n' <- emplace_gate n l (gtyp g) ops;
  Ok (n', tbl').

Record MDInv (c : circuit) (pre : list label) (sq : circuit * sig_table) : Prop := mkMDInv {
  mdi_wf : WF (fst sq);
  mdi_sim : sim c (eqv_all c) (fst sq);
  mdi_tbl : forall t ops d, In (t, ops, d) (snd sq) ->
              t <> INPUT /\ dget (gates (fst sq)) d = Some (mkGate t ops);
  mdi_keys : forall x, has_gate (fst sq) x = true <-> In x pre }.

Lemma md_new_name_R c n tbl x x' :
  sim c (eqv_all c) n ->
  (forall t ops d, In (t, ops, d) tbl -> t <> INPUT /\ dget (gates n) d = Some (mkGate t ops)) ->
  md_new_name n tbl x = Ok x' -> eqv_all c x' x /\ has_gate n x' = true.
Proof.
  intros S T H. unfold md_new_name in H. binv H g Hg. apply get_gate_ok in Hg. injection H as <-.
  destruct (sig_lookup tbl (gtyp g) (gops g)) as [d|] eqn:E.
  - destruct (sig_lookup_some _ _ _ _ E) as (t' & ops' & Hin & He).
    destruct (T _ _ _ Hin) as [Ht Hd]. destruct (sig_eqb_sound _ _ _ _ He) as [-> Hrel].
    split; [|eapply get_has_gate; eassumption].
    destruct g as [t ox]; simpl in *. eapply dup_eqv; eassumption.
  - split; [apply eqv_all_refl|eapply get_has_gate; eassumption].
Qed.

Lemma md_new_names_R c n tbl xs xs' :
  sim c (eqv_all c) n ->
  (forall t ops d, In (t, ops, d) tbl -> t <> INPUT /\ dget (gates n) d = Some (mkGate t ops)) ->
  mapM (md_new_name n tbl) xs = Ok xs' ->
  Forall2 (eqv_all c) xs' xs /\ forall o, In o xs' -> has_gate n o = true.
Proof.
  intros S T H. apply mapM_ok_Forall2 in H. induction H as [|x x' xs xs' Hx _ [IH1 IH2]].
  - split; [constructor|intros ? []].
  - destruct (md_new_name_R _ _ _ _ _ S T Hx) as [H1 H2]. split; [constructor; assumption|].
    intros o [<-|Ho]; auto.
Qed.

Lemma md_step_inv c pre sq l sq' : MDInv c pre sq -> md_step c sq l = Ok sq' -> MDInv c (pre ++ [l]) sq'.
Proof.
  destruct sq as [n tbl]. intros [W S T K] H. simpl in *. binv H g Hg. apply get_gate_ok in Hg.
  assert (Hkeys : forall n' t ops, emplace_gate n l t ops = Ok n' ->
                  forall x, has_gate n' x = true <-> In x (pre ++ [l])).
  { intros n' t ops He x. destruct (emplace_gate_frame _ _ _ _ _ He) as (_ & _ & Hh & _).
    rewrite Hh, in_app_iff, <- K. simpl.
    destruct (leqb_spec x l) as [->|Hne]; simpl; [tauto|]. split; [tauto|]. intros [Hx|[Hx|[]]]; congruence. }
  destruct (gtype_beq (gtyp g) INPUT) eqn:Et.
  - apply gtype_beq_eq in Et. binv H n' Hn'. injection H as <-. simpl in Hn'.
    binv Hn' u0 H0. binv Hn' n1 H1. injection Hn' as ->. constructor; simpl.
    + eapply emplace_gate_wf; eassumption.
    + eapply sim_emplace; [exact S|exact Hg|symmetry; exact Et| |exact H1]. intros; contradiction.
    + intros t ops d Hin. destruct (T _ _ _ Hin) as [H2 H3]. split; [exact H2|].
      eapply emplace_gate_old; eassumption.
    + eapply Hkeys; eassumption.
  - assert (Hty : gtyp g <> INPUT) by (intros E; rewrite E in Et; discriminate).
    binv H ops Hops. binv H n' Hn'. injection H as <-.
    destruct (md_new_names_R _ _ _ _ _ S T Hops) as [HR _]. constructor; simpl.
    + eapply emplace_gate_wf; eassumption.
    + eapply sim_emplace; [exact S|exact Hg|reflexivity|intros _; exact HR|exact Hn'].
    + intros t ops0 d Hin.
      assert (Hold : In (t, ops0, d) tbl -> t <> INPUT /\ dget (gates n') d = Some (mkGate t ops0)).
      { intros Hi. destruct (T _ _ _ Hi) as [H2 H3]. split; [exact H2|eapply emplace_gate_old; eassumption]. }
      destruct (sig_lookup tbl (gtyp g) ops); [auto|].
      apply in_app_or in Hin. destruct Hin as [Hin|[Hin|[]]]; [auto|].
      injection Hin as <- <- <-. split; [exact Hty|eapply emplace_gate_new; eassumption].
    + eapply Hkeys; eassumption.
Qed.

Lemma MDInv_init c : MDInv c [] (empty_circuit, []).
Proof.
  constructor; simpl; [apply WF_empty|apply sim_empty|intros ? ? ? []|].
  intros x; split; [discriminate|tauto].
Qed.

Theorem md_rebuilt c c' :
  WF c -> merge_duplicate_gates c = Ok c' ->
  Rebuilt c (eqv_all c) c' /\ inputs c' = inputs c /\ inputs c' = filter (has_gate c') (inputs c).
Proof.
  intros W H. unfold merge_duplicate_gates in H. binv H emit Hem. binv H sq H1.
  change (foldM (md_step c) emit (empty_circuit, []) = Ok sq) in H1.
  assert (I1 : MDInv c emit sq).
  { apply (foldM_prefix (md_step c) (MDInv c) emit) with (l := emit) (pre := []) (s := (empty_circuit, [])) (s' := sq).
    - intros pre x post s s' _. apply md_step_inv.
    - reflexivity.
    - apply MDInv_init.
    - exact H1. }
  destruct sq as [n1 tbl]. destruct I1 as [W1 S1 T1 K1]. simpl in *.
  binv H n2 H2. binv H outs Houts.
  assert (G2 : gates n2 = gates n1) by (apply set_inputs_spec in H2; subst n2; reflexivity).
  assert (S2 : sim c (eqv_all c) n2) by (eapply sim_gates; eassumption).
  assert (T2 : forall t ops d, In (t, ops, d) tbl -> t <> INPUT /\ dget (gates n2) d = Some (mkGate t ops)).
  { intros t ops d Hin. rewrite G2. apply T1, Hin. }
  destruct (md_new_names_R c n2 tbl _ _ S2 T2 Houts) as [HR _].
  destruct (finish_rebuilt c (eqv_all c) n1 n2 outs c' W1 S1 H2 HR H) as (Hr & Hi & Hf & _).
  auto.
Qed.

(* C03 for MergeDuplicateGates: three-valued assignments, inputs kept *)
Theorem md_pres c c' :
  WF c -> arity_ok c -> merge_duplicate_gates c = Ok c' -> Pres true true c c'.
Proof.
  intros W A H. destruct (md_rebuilt c c' W H) as (Hr & Hi & Hf).
  eapply Pres_of_rebuilt; [exact A|exact Hr|exact Hf|intros _; exact Hi|].
  intros a _ x' x HR. apply HR.
Qed.
