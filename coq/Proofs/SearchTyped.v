(* C06 over circuits with gate TYPES (what _get_circuit_by_model returns): the class ValidT is
   stated with the denotation `den` of the gate types; everything is transported from the
   table-level theorems through the two facts about _tt_to_gate_type that
   Proofs/SearchTablesFacts.v proves for the generated table (section hypotheses here). *)
Require Import Cirbo.Model.Base Cirbo.Model.Gate Cirbo.Model.Den Cirbo.Model.Circuit Cirbo.Model.Search Cirbo.Model.SearchCircuit.
Require Import Cirbo.Proofs.SearchFacts Cirbo.Proofs.SearchSound Cirbo.Proofs.SearchComplete Cirbo.Proofs.SearchSolve.
Local Open Scope nat_scope.

Definition table_of (g : gtype) : tt4 :=
  match fix_table g with Some t => t | None => (false, false, false, false) end.
Definition untype (g : tgate) : sgate := mkSG (ta g) (tb g) (table_of (tty g)).
Definition to_untyped (c : tckt) : sckt := mkCkt (map untype (tc_gates c)) (tc_outs c).

Lemma tckt_eta (x : tckt) : mkTCkt (tc_gates x) (tc_outs x) = x.
Proof. destruct x; reflexivity. Qed.

Section TypedFacts.
  Variable t2g : tt4 -> gtype.
  Hypothesis t2g_den : forall t p q, den (t2g t) [p; q] = Some (tt_get t p q).
  Hypothesis t2g_fix : forall g t, fix_table g = Some t -> t2g t = g.

  Lemma fix_table_t2g t : fix_table (t2g t) = Some t.
  Proof. unfold fix_table. rewrite !t2g_den, tt4_eta. reflexivity. Qed.

  Lemma table_of_t2g t : table_of (t2g t) = t.
  Proof. unfold table_of. rewrite fix_table_t2g. reflexivity. Qed.

  Lemma den2_t2g t a b : den2 (t2g t) a b = tt_get t a b.
  Proof. unfold den2. rewrite t2g_den. reflexivity. Qed.

  Lemma teval_from_typed gs : forall vals, teval_from vals (map (to_tgate t2g) gs) = eval_from vals gs.
  Proof.
    induction gs as [|g gs IH]; intros vals; simpl; [reflexivity|].
    rewrite IH. f_equal. unfold teval_step, eval_step, to_tgate; simpl. rewrite den2_t2g. reflexivity.
  Qed.

  Lemma tvalue_typed n gs t j : tvalue n (map (to_tgate t2g) gs) t j = value n gs t j.
  Proof. unfold tvalue, value. rewrite teval_from_typed. reflexivity. Qed.

  Lemma valid_to_typed sp c : Valid sp c -> ValidT t2g sp (to_typed t2g c).
  Proof.
    intros Hv. constructor; simpl.
    - rewrite map_length. apply (v_len sp c Hv).
    - intros i tg E. rewrite nth_error_map in E. destruct (nth_error (ck_gates c) i) as [g|] eqn:Eg; [|discriminate].
      simpl in E. inversion E; subst tg. destruct (v_gates sp c Hv i g Eg) as [H1 [H2 [H3 H4]]].
      unfold tgate_ok, to_tgate; simpl. repeat split; try assumption.
      + exists (gtt g). auto.
      + intros Hn. rewrite t2g_den. f_equal. auto.
    - apply (v_outs_len sp c Hv).
    - apply (v_outs sp c Hv).
    - intros h t v o Ht Eo En. rewrite tvalue_typed. apply (v_agree sp c Hv h t v o Ht Eo En).
    - intros k Hk. pose proof (v_cons sp c Hv k Hk) as H. destruct k as [g fp sd gt|from to]; simpl in *.
      + destruct H as [x [E [Hp Ht]]]. exists (to_tgate t2g x). split; [rewrite nth_error_map, E; reflexivity|].
        split.
        * destruct fp, sd; simpl in *; exact Hp.
        * destruct gt as [t|]; [|exact I]. simpl. apply t2g_fix, Ht.
      + destruct H as [x [E [Ha Hb]]]. exists (to_tgate t2g x). split; [rewrite nth_error_map, E; reflexivity|].
        simpl. auto.
  Qed.

  Lemma retype sp tc : ValidT t2g sp tc -> to_typed t2g (to_untyped tc) = tc.
  Proof.
    intros Hv. unfold to_typed, to_untyped; simpl. rewrite <- (tckt_eta tc) at 3. f_equal.
    rewrite map_map. rewrite <- (map_id (tc_gates tc)) at 2. apply map_ext_in. intros g Hg.
    apply In_nth_error in Hg. destruct Hg as [i Ei].
    destruct (vt_gates t2g sp tc Hv i g Ei) as [_ [_ [[op [_ Eop]] _]]].
    unfold to_tgate, untype; simpl. rewrite Eop, table_of_t2g. destruct g; simpl in *. congruence.
  Qed.

  Lemma valid_untyped sp tc : ValidT t2g sp tc -> Valid sp (to_untyped tc).
  Proof.
    intros Hv. pose proof (retype sp tc Hv) as Hre. constructor; simpl.
    - rewrite map_length. apply (vt_len t2g sp tc Hv).
    - intros i g E. rewrite nth_error_map in E. destruct (nth_error (tc_gates tc) i) as [tg|] eqn:Eg; [|discriminate].
      simpl in E. inversion E; subst g. destruct (vt_gates t2g sp tc Hv i tg Eg) as [H1 [H2 [[op [Hop Eop]] H4]]].
      unfold gate_ok, untype; simpl. rewrite Eop, table_of_t2g. repeat split; try assumption.
      intros Hn. specialize (H4 Hn). rewrite Eop, t2g_den in H4. congruence.
    - apply (vt_outs_len t2g sp tc Hv).
    - apply (vt_outs t2g sp tc Hv).
    - intros h t v o Ht Eo En. rewrite <- tvalue_typed.
      change (map (to_tgate t2g) (map untype (tc_gates tc))) with (tc_gates (to_typed t2g (to_untyped tc))).
      rewrite Hre. apply (vt_agree t2g sp tc Hv h t v o Ht Eo En).
    - intros k Hk. pose proof (vt_cons t2g sp tc Hv k Hk) as H. destruct k as [g fp sd gt|from to]; simpl in *.
      + destruct H as [x [E [Hp Ht]]]. exists (untype x). split; [rewrite nth_error_map, E; reflexivity|].
        split.
        * destruct fp, sd; simpl in *; exact Hp.
        * destruct gt as [t|]; [|exact I]. simpl.
          destruct (vt_gates t2g sp tc Hv _ x E) as [_ [_ [[op [_ Eop]] _]]].
          rewrite <- Ht, Eop, table_of_t2g. apply fix_table_t2g.
      + destruct H as [x [E [Ha Hb]]]. exists (untype x). split; [rewrite nth_error_map, E; reflexivity|].
        simpl. auto.
  Qed.

  Theorem typed_sound sp s : spec_wf sp -> Sat s (encode sp) ->
    exists c, decode_typed t2g sp s = Ok c /\ ValidT t2g sp c.
  Proof.
    intros Hwf Hs. destruct (encode_sound sp s Hwf Hs) as [c [Hd Hv]].
    exists (to_typed t2g c). split; [unfold decode_typed; rewrite Hd; reflexivity|apply valid_to_typed, Hv].
  Qed.

  Theorem typed_complete sp c : spec_wf sp -> ValidT t2g sp c ->
    exists s, Sat s (encode sp) /\ decode_typed t2g sp s = Ok c.
  Proof.
    intros Hwf Hv. destruct (encode_complete sp (to_untyped c) Hwf (valid_untyped sp c Hv)) as [s [Hs Hd]].
    exists s. split; [exact Hs|]. unfold decode_typed. rewrite Hd. simpl. f_equal. apply (retype sp c Hv).
  Qed.

  Section Solver.
    Variable solve : list clause -> option asg.
    Hypothesis solve_sound : forall f s, solve f = Some s -> Sat s f.
    Hypothesis solve_complete : forall f, solve f = None -> forall s, ~ Sat s f.

    Theorem find_circuit_typed_valid sp c : spec_wf sp ->
      find_circuit_typed t2g solve sp = Ok c -> ValidT t2g sp c.
    Proof.
      intros Hwf. unfold find_circuit_typed. destruct (find_circuit solve sp) as [c0|e] eqn:E; simpl; [|discriminate].
      intros H. inversion H; subst. apply valid_to_typed.
      exact (find_circuit_valid solve solve_sound sp c0 Hwf E).
    Qed.

    Theorem find_circuit_typed_no_solution sp : spec_wf sp ->
      (find_circuit_typed t2g solve sp = Err NoSolutionError <-> forall c, ~ ValidT t2g sp c).
    Proof.
      intros Hwf. pose proof (find_circuit_no_solution solve solve_sound solve_complete sp Hwf) as H.
      unfold find_circuit_typed. split.
      - intros E c Hv. destruct (find_circuit solve sp) as [c0|e] eqn:E0; simpl in E; [discriminate|].
        inversion E; subst e. apply (proj1 H eq_refl (to_untyped c)). apply valid_untyped, Hv.
      - intros Hn. assert (E : find_circuit solve sp = Err NoSolutionError).
        { apply H. intros c Hv. apply (Hn (to_typed t2g c)). apply valid_to_typed, Hv. }
        rewrite E. reflexivity.
    Qed.

    Theorem find_circuit_typed_total sp : spec_wf sp ->
      (exists c, find_circuit_typed t2g solve sp = Ok c) \/ find_circuit_typed t2g solve sp = Err NoSolutionError.
    Proof.
      intros Hwf. unfold find_circuit_typed.
      destruct (find_circuit_total solve solve_sound sp Hwf) as [[c E]|E]; rewrite E; simpl; eauto.
    Qed.
  End Solver.
End TypedFacts.
