(* Restoring division with zero-divisor masking (div_mod.py). *)
Require Import Cirbo.Model.Base Cirbo.Model.Gate Cirbo.Model.Den Cirbo.Model.Circuit
  Cirbo.Model.Eval Cirbo.Model.Sem Cirbo.Model.Builder.
Require Import Cirbo.Generated.ArithTables Cirbo.Model.ArithSub Cirbo.Model.ArithSum2 Cirbo.Model.ArithDiv.
Require Import Cirbo.Proofs.DictFacts Cirbo.Proofs.BuilderFacts Cirbo.Proofs.ArithFacts Cirbo.Proofs.ArithSubFacts.
Open Scope Z_scope.

(* ---- small loops ------------------------------------------------------------------------- *)
Fixpoint or_prefix (acc : bool) (l : list bool) : list bool :=
  match l with [] => [] | x :: r => (acc || x) :: or_prefix (acc || x) r end.

Lemma or_chain_spec fresh ls : forall acc s gs s',
  run fresh (or_chain acc ls) s = Ok (gs, s') ->
  outputs (bc s') = outputs (bc s) /\ length gs = length ls /\
  forall c, ext (bc s') c -> forall asg accv lv, bval c asg acc accv -> bvals c asg ls lv ->
    bvals c asg gs (or_prefix accv lv).
Proof.
  induction ls as [|x ls IH]; intros acc s gs s' H; cbn [or_chain] in H.
  - apply run_ret_inv in H as (-> & ->). repeat split; auto.
    intros c _ asg accv lv _ Hl. inversion Hl; subst. constructor.
  - apply gate_tt_bind in H as (g & s1 & H & Hx1 & Ht & O1).
    apply run_bind_inv in H as (rest & s2 & Hr & H). apply run_ret_inv in H as (-> & ->).
    pose proof (run_ext _ _ _ _ _ Hr) as Hx2.
    apply IH in Hr as (O2 & L2 & V). split; [congruence|]. split; [simpl; congruence|].
    intros c Hc asg accv lv Va Hl. inversion Hl as [|? xv ? lv' Vx Hl']; subst.
    to_final c. pose proof (has_tt_val _ _ _ _ _ _ _ _ Ht Va Vx) as Vg.
    replace (tt_fun tt_or accv xv) with (accv || xv)%bool in Vg by (destruct accv, xv; reflexivity).
    cbn [or_prefix]. constructor; [exact Vg|]. apply V; assumption.
Qed.

Lemma mux_loop_spec fresh q hi : forall sub s gs s',
  run fresh (mux_loop q sub hi) s = Ok (gs, s') ->
  outputs (bc s') = outputs (bc s) /\ length gs = length hi /\
  forall c, ext (bc s') c -> forall asg qv sv hv,
    bval c asg q qv -> bvals c asg (firstn (length hi) sub) sv -> bvals c asg hi hv ->
    bvals c asg gs (if qv then sv else hv).
Proof.
  induction hi as [|h hi IH]; intros sub s gs s' H; cbn [mux_loop] in H.
  - apply run_ret_inv in H as (-> & ->). repeat split; auto.
    intros c _ asg qv sv hv _ Hs Hh. cbn [length firstn] in Hs. inversion Hs; subst. inversion Hh; subst.
    destruct qv; constructor.
  - apply run_bind_inv in H as (s0 & s1 & Hs0 & H). apply nthP_inv in Hs0 as (Es & ->).
    destruct sub as [|s0' sub']; [discriminate|]. injection Es as ->. cbn [tl] in H.
    apply gate_tt_bind in H as (t1 & s2 & H & Hx1 & Ht1 & O1).
    apply gate_tt_bind in H as (t2 & s3 & H & Hx2 & Ht2 & O2).
    apply gate_tt_bind in H as (g & s4 & H & Hx3 & Ht3 & O3).
    apply run_bind_inv in H as (rest & s5 & Hr & H). apply run_ret_inv in H as (-> & ->).
    pose proof (run_ext _ _ _ _ _ Hr) as Hx4.
    apply IH in Hr as (O4 & L4 & V). split; [congruence|]. split; [simpl; congruence|].
    intros c Hc asg qv sv hv Vq Hs Hh. cbn [length firstn] in Hs.
    inversion Hs as [|? s0v ? sv' Vs Hs']; subst. inversion Hh as [|? hv0 ? hv' Vh Hh']; subst.
    to_final c.
    pose proof (has_tt_val _ _ _ _ _ _ _ _ Ht1 Vq Vs) as V1.
    pose proof (has_tt_val _ _ _ _ _ _ _ _ Ht2 Vh Vq) as V2.
    pose proof (has_tt_val _ _ _ _ _ _ _ _ Ht3 V1 V2) as V3.
    specialize (V c Hc asg qv sv' hv' Vq Hs' Hh').
    destruct qv; (constructor; [|exact V]); destruct s0v, hv0; exact V3.
Qed.

Lemma mask_spec fresh nz ls : forall s gs s',
  run fresh (mapP (fun r => gate_tt tt_and r nz) ls) s = Ok (gs, s') ->
  outputs (bc s') = outputs (bc s) /\ length gs = length ls /\
  forall c, ext (bc s') c -> forall asg nzv lv, bval c asg nz nzv -> bvals c asg ls lv ->
    bvals c asg gs (if nzv then lv else repeat false (length lv)).
Proof.
  induction ls as [|l ls IH]; intros s gs s' H; cbn [mapP] in H.
  - apply run_ret_inv in H as (-> & ->). repeat split; auto.
    intros c _ asg nzv lv _ Hl. inversion Hl; subst. destruct nzv; constructor.
  - apply gate_tt_bind in H as (g & s1 & H & Hx1 & Ht & O1).
    apply run_bind_inv in H as (rest & s2 & Hr & H). apply run_ret_inv in H as (-> & ->).
    pose proof (run_ext _ _ _ _ _ Hr) as Hx2.
    apply IH in Hr as (O2 & L2 & V). split; [congruence|]. split; [simpl; congruence|].
    intros c Hc asg nzv lv Vn Hl. inversion Hl as [|? lv0 ? lv' Vl Hl']; subst.
    to_final c. pose proof (has_tt_val _ _ _ _ _ _ _ _ Ht Vl Vn) as Vg.
    specialize (V c Hc asg nzv lv' Vn Hl').
    destruct nzv; cbn [length repeat]; (constructor; [|exact V]); destruct lv0; exact Vg.
Qed.

(* ---- one quotient digit --------------------------------------------------------------------- *)
Lemma stage_arith P M L H Bl Bh (pv : bool) :
  0 < P -> 0 < M -> 0 <= L < P -> 0 <= H < M -> 0 <= Bl < M -> 0 <= Bh ->
  let B := Bl + M * Bh in
  let A := L + P * H in
  (pv = true -> M <= B) -> (pv = false -> Bh = 0) ->
  let perv := (H <? Bl) in
  let subv := (H - Bl) mod M in
  let qv := negb (pv || perv) in
  qv = (B * P <=? A) /\ L + P * (if qv then subv else H) = A - (if qv then B * P else 0).
Proof.
  intros HP HM HL HH HBl HBh B A Hpt Hpf perv subv qv.
  destruct pv.
  - specialize (Hpt eq_refl). subst qv. cbn [orb negb]. split; [|lia].
    symmetry. apply Z.leb_gt. subst A.
    assert (P * (H + 1) <= P * M) by (apply Z.mul_le_mono_nonneg_l; lia).
    assert (P * M <= P * B) by (apply Z.mul_le_mono_nonneg_l; lia). lia.
  - specialize (Hpf eq_refl). subst Bh. assert (B = Bl) as EB by (subst B; lia). rewrite EB. clear EB B Hpt.
    subst qv perv. cbn [orb]. destruct (H <? Bl) eqn:E; cbn [negb].
    + apply Z.ltb_lt in E. split; [|lia]. symmetry. apply Z.leb_gt. subst A.
      assert (P * (H + 1) <= P * Bl) by (apply Z.mul_le_mono_nonneg_l; lia). lia.
    + apply Z.ltb_ge in E. subst subv. rewrite Z.mod_small by lia. split; [|subst A; lia].
      symmetry. apply Z.leb_le. subst A.
      assert (P * Bl <= P * H) by (apply Z.mul_le_mono_nonneg_l; lia). lia.
Qed.

Lemma bits_val_split i v : bits_val v = bits_val (firstn i v) + 2 ^ Z.of_nat (length (firstn i v)) * bits_val (skipn i v).
Proof. rewrite <- bits_val_app, firstn_skipn. reflexivity. Qed.

Lemma div_stage_spec fresh b n prov i now s q now' s' :
  run fresh (div_stage b n prov i now) s = Ok ((q, now'), s') ->
  length b = n -> length now = n -> (i < n)%nat ->
  outputs (bc s') = outputs (bc s) /\ length now' = n /\
  forall c, ext (bc s') c -> forall asg bv nowv, bvals c asg b bv -> bvals c asg now nowv ->
    match prov with
    | Some p => bval c asg p (2 ^ Z.of_nat (n - i) <=? bits_val bv)
    | None => i = 0%nat
    end ->
    exists qv now'v, bval c asg q qv /\ bvals c asg now' now'v /\
      qv = (bits_val bv * 2 ^ Z.of_nat i <=? bits_val nowv) /\
      bits_val now'v = bits_val nowv - (if qv then bits_val bv * 2 ^ Z.of_nat i else 0).
Proof.
  intros H Lb Ln Hi. unfold div_stage in H.
  apply run_bind_inv in H as ([sub per] & s1 & Hsub & H). cbn [fst snd] in H.
  apply gate_tt_bind in H as (qg & s2 & H & Hx2 & Htq & O2).
  apply run_bind_inv in H as (hi & s3 & Hmux & H). apply run_ret_inv in H as (E & ->).
  injection E as -> ->.
  pose proof (run_ext _ _ _ _ _ Hsub) as Hx1. pose proof (run_ext _ _ _ _ _ Hmux) as Hx3.
  apply add_subtract_with_compare_spec in Hsub as (O1 & Ls & Vs).
  apply mux_loop_spec in Hmux as (O3 & Lh & Vm).
  assert (length (skipn i now) = (n - i)%nat) as Lsk by (rewrite skipn_length; lia).
  assert (length (firstn (n - i) b) = (n - i)%nat) as Lfb by (rewrite firstn_length; lia).
  rewrite Lsk, Lfb, Nat.max_id in Ls, Vs.
  split; [congruence|]. split; [rewrite app_length, firstn_length, Lh, Lsk; lia|].
  intros c Hc asg bv nowv Hb Hnow Hprov.
  pose proof (bvals_length _ _ _ _ Hb) as Lbv. pose proof (bvals_length _ _ _ _ Hnow) as Lnv.
  assert (ext (bc s1) c) as Hc1 by (eapply ext_trans; [eapply ext_trans|]; eassumption).
  destruct (Vs c Hc1 asg (skipn i nowv) (firstn (n - i) bv)) as (subv & perv & Vsub & Vper & Esub & Eper).
  { apply bvals_skipn, Hnow. } { apply bvals_firstn, Hb. }
  unfold decode, rev_if in Esub, Eper.
  set (pv := match prov with Some _ => (2 ^ Z.of_nat (n - i) <=? bits_val bv) | None => false end).
  assert (ext (bc s2) c) as Hc2 by (eapply ext_trans; eassumption).
  apply (has_tt_ext _ _ _ _ _ _ Hc2) in Htq.
  assert (bval c asg qg (negb (pv || perv))) as Vq.
  { destruct prov as [p|].
    - pose proof (has_tt_val _ _ _ _ _ _ _ _ Htq Hprov Vper) as Vq. fold pv in Vq.
      destruct pv, perv; exact Vq.
    - pose proof (has_tt_val _ _ _ _ _ _ _ _ Htq Vper Vper) as Vq. subst pv.
      destruct perv; exact Vq. }
  specialize (Vm c Hc asg _ subv (skipn i nowv) Vq).
  rewrite Lsk in Vm. rewrite firstn_all2 in Vm by lia.
  specialize (Vm Vsub (bvals_skipn _ _ _ _ _ Hnow)).
  (* the numbers *)
  pose proof (bits_val_split i nowv) as EA. pose proof (bits_val_split (n - i) bv) as EB.
  rewrite firstn_length in EA, EB. rewrite Nat.min_l in EA by lia. rewrite Nat.min_l in EB by lia.
  pose proof (bits_val_range (firstn i nowv)) as RL. rewrite firstn_length, Nat.min_l in RL by lia.
  pose proof (bits_val_range (skipn i nowv)) as RH. rewrite skipn_length in RH.
  replace (length nowv - i)%nat with (n - i)%nat in RH by lia.
  pose proof (bits_val_range (firstn (n - i) bv)) as RBl. rewrite firstn_length, Nat.min_l in RBl by lia.
  pose proof (bits_val_nonneg (skipn (n - i) bv)) as RBh.
  destruct (stage_arith (2 ^ Z.of_nat i) (2 ^ Z.of_nat (n - i))
              (bits_val (firstn i nowv)) (bits_val (skipn i nowv))
              (bits_val (firstn (n - i) bv)) (bits_val (skipn (n - i) bv)) pv
              (pow2_pos _) (pow2_pos _) RL RH RBl RBh) as (Eq & Enow).
  { intros Ep. subst pv. destruct prov; [|discriminate]. apply Z.leb_le in Ep. lia. }
  { intros Ep. subst pv. destruct prov as [p|].
    - apply Z.leb_gt in Ep. pose proof (pow2_pos (n - i)).
      assert (bits_val (skipn (n - i) bv) < 1); [|lia].
      apply Z.nle_gt. intros F.
      assert (2 ^ Z.of_nat (n - i) * 1 <= 2 ^ Z.of_nat (n - i) * bits_val (skipn (n - i) bv))
        by (apply Z.mul_le_mono_nonneg_l; lia). lia.
    - subst i. rewrite Nat.sub_0_r, skipn_all2 by lia. reflexivity. }
  rewrite <- EB, <- EA in Eq. rewrite <- EB, <- EA in Enow. rewrite <- Eper, <- Esub in *.
  eexists _, _. split; [exact Vq|]. split.
  { apply Forall2_app; [apply bvals_firstn, Hnow|exact Vm]. }
  split; [exact Eq|].
  rewrite bits_val_app, firstn_length, Nat.min_l by lia.
  rewrite <- Enow. destruct (negb (pv || perv)); reflexivity.
Qed.

(* ---- the main loop ----------------------------------------------------------------------------- *)
Lemma div_loop_spec fresh b pref n : forall i now s qs now' s',
  run fresh (div_loop b pref n i now) s = Ok ((qs, now'), s') ->
  length b = n -> length now = n -> (i < n)%nat ->
  outputs (bc s') = outputs (bc s) /\ length qs = i /\ length now' = n /\
  forall c, ext (bc s') c -> forall asg bv nowv, bvals c asg b bv -> bvals c asg now nowv ->
    (forall k, (k < i)%nat -> exists p, nth_error pref k = Some p /\
                                     bval c asg p (2 ^ Z.of_nat (n - 1 - k) <=? bits_val bv)) ->
    exists qsv now'v, bvals c asg qs qsv /\ bvals c asg now' now'v /\
      bits_val nowv = 2 * bits_val qsv * bits_val bv + bits_val now'v /\
      (0 < bits_val bv -> bits_val nowv < bits_val bv * 2 ^ Z.of_nat (S i) -> bits_val now'v < bits_val bv * 2).
Proof.
  induction i as [|i IH]; intros now s qs now' s' H Lb Ln Hi; cbn [div_loop] in H.
  - apply run_ret_inv in H as (E & ->). injection E as -> ->.
    repeat split; auto. intros c _ asg bv nowv Hb Hnow _.
    exists [], nowv. split; [constructor|]. split; [exact Hnow|]. split; [simpl; lia|].
    intros _ Hlt. change (Z.of_nat 1) with 1 in Hlt. rewrite Z.pow_1_r in Hlt. exact Hlt.
  - apply run_bind_inv in H as (prov & s0 & Hp & H). apply nthP_inv in Hp as (Ep & ->).
    apply run_bind_inv in H as ([q now1] & s1 & Hst & H). cbn [fst snd] in H.
    apply run_bind_inv in H as ([qs1 now2] & s2 & Hrec & H). apply run_ret_inv in H as (E & ->).
    cbn [fst snd] in E. injection E as -> ->.
    pose proof (run_ext _ _ _ _ _ Hrec) as Hx2.
    apply div_stage_spec in Hst as (O1 & L1 & V1); [|assumption|assumption|assumption].
    apply IH in Hrec as (O2 & Lq & L2 & V2); [|assumption|assumption|lia].
    split; [congruence|]. split; [rewrite app_length; simpl; lia|]. split; [exact L2|].
    intros c Hc asg bv nowv Hb Hnow Hpref.
    assert (ext (bc s1) c) as Hc1 by (eapply ext_trans; eassumption).
    destruct (Hpref i) as (p & Epp & Vp); [lia|]. rewrite Ep in Epp. injection Epp as <-.
    replace (n - 1 - i)%nat with (n - S i)%nat in Vp by lia.
    destruct (V1 c Hc1 asg bv nowv Hb Hnow Vp) as (qv & now1v & Vq & Vn1 & Eq & En1).
    destruct (V2 c Hc asg bv now1v Hb Vn1) as (qs1v & now2v & Vqs & Vn2 & E2 & Bound).
    { intros k Hk. apply Hpref. lia. }
    exists (qs1v ++ [qv]), now2v. split; [apply Forall2_app; [exact Vqs|constructor; [exact Vq|constructor]]|].
    split; [exact Vn2|].
    pose proof (bvals_length _ _ _ _ Vqs) as Lqv. rewrite Lq in Lqv.
    rewrite bits_val_app, <- Lqv. cbn [bits_val]. rewrite pow2_succ in *.
    set (P := 2 ^ Z.of_nat i) in *. set (B := bits_val bv) in *.
    assert (0 < P) as HP by apply pow2_pos.
    split.
    + rewrite E2 in En1. destruct qv; simpl Z.b2z; lia.
    + intros HB Hlt. apply Bound; [exact HB|]. rewrite pow2_succ in Hlt. fold P in Hlt.
      rewrite En1. destruct qv.
      * lia.
      * symmetry in Eq. apply Z.leb_gt in Eq. lia.
Qed.

(* ---- the OR-prefix of the divisor's high bits ------------------------------------------------ *)
Definition idb (b : bool) : bool := b.

Lemma ge_pow_existsb : forall j v, (2 ^ Z.of_nat j <=? bits_val v) = existsb idb (skipn j v).
Proof.
  induction j as [|j IH]; intros v.
  - change (Z.of_nat 0) with 0. rewrite Z.pow_0_r. cbn [skipn].
    induction v as [|b r IHr]; [reflexivity|]. cbn [existsb bits_val]. rewrite <- IHr.
    pose proof (bits_val_nonneg r). unfold idb.
    destruct b; simpl Z.b2z; cbn [orb].
    + apply Z.leb_le. lia.
    + destruct (1 <=? bits_val r) eqn:E; [apply Z.leb_le in E; apply Z.leb_le; lia|
                                          apply Z.leb_gt in E; apply Z.leb_gt; lia].
  - destruct v as [|b r]; cbn [skipn].
    + simpl bits_val. apply Z.leb_gt. apply pow2_pos.
    + rewrite <- IH, pow2_succ, bits_val_cons.
      destruct (2 ^ Z.of_nat j <=? bits_val r) eqn:E;
        [apply Z.leb_le in E; apply Z.leb_le|apply Z.leb_gt in E; apply Z.leb_gt];
        destruct b; simpl Z.b2z; lia.
Qed.

Lemma or_prefix_length acc l : length (or_prefix acc l) = length l.
Proof. revert acc; induction l; intros; simpl; auto. Qed.

Lemma or_prefix_nth : forall l acc k, (k < length l)%nat ->
  nth_error (or_prefix acc l) k = Some (acc || existsb idb (firstn (S k) l)).
Proof.
  induction l as [|x l IH]; intros acc k Hk; [simpl in Hk; lia|].
  destruct k as [|k]; cbn [or_prefix nth_error firstn existsb].
  - unfold idb. rewrite orb_false_r. reflexivity.
  - rewrite IH by (simpl in Hk; lia). unfold idb at 2. rewrite orb_assoc. reflexivity.
Qed.

Lemma existsb_rev {A} (f : A -> bool) l : existsb f (rev l) = existsb f l.
Proof.
  induction l as [|x l IH]; [reflexivity|]. simpl. rewrite existsb_app, IH. simpl.
  rewrite orb_false_r, orb_comm. reflexivity.
Qed.

Lemma removelast_length' {A} (l : list A) : length (removelast l) = (length l - 1)%nat.
Proof.
  induction l as [|x l IH]; [reflexivity|]. destruct l as [|y l]; [reflexivity|].
  change (removelast (x :: y :: l)) with (x :: removelast (y :: l)). cbn [length] in *. lia.
Qed.

Lemma pref_values bv n :
  length bv = n -> (1 <= n)%nat ->
  let rb := rev bv in
  let prefv := hd false rb :: or_prefix (hd false rb) (removelast (tl rb)) in
  length prefv = Nat.max 1 (n - 1) /\
  forall k, (k < length prefv)%nat -> nth_error prefv k = Some (2 ^ Z.of_nat (n - 1 - k) <=? bits_val bv).
Proof.
  intros Ln Hn rb prefv.
  assert (length rb = n) as Lrb by (unfold rb; rewrite rev_length; exact Ln).
  destruct rb as [|top t] eqn:Erb; [simpl in Lrb; lia|].
  cbn [hd tl] in prefv.
  assert (length (removelast t) = (n - 2)%nat) as Lrl
    by (rewrite removelast_length'; simpl in Lrb; lia).
  split; [unfold prefv; cbn [length]; rewrite or_prefix_length, Lrl; lia|].
  intros k Hk. unfold prefv in Hk. cbn [length] in Hk. rewrite or_prefix_length, Lrl in Hk.
  assert (nth_error prefv k = Some (existsb idb (firstn (S k) (top :: t)))) as ->.
  { destruct k as [|k]; unfold prefv; cbn [nth_error firstn existsb].
    - unfold idb. rewrite orb_false_r. reflexivity.
    - rewrite or_prefix_nth by lia. unfold idb at 2.
      rewrite firstn_removelast; [reflexivity|]. simpl in Lrb. lia. }
  f_equal. rewrite <- Erb. unfold rb. rewrite firstn_rev, existsb_rev, ge_pow_existsb.
  do 2 f_equal. lia.
Qed.

Lemma Forall2_removelast {A B} (P : A -> B -> Prop) l m :
  Forall2 P l m -> Forall2 P (removelast l) (removelast m).
Proof.
  induction 1 as [|x y l m Hxy Hlm IH]; [constructor|].
  destruct Hlm as [|x' y' l' m' Hxy' Hlm']; [constructor|].
  change (removelast (x :: x' :: l')) with (x :: removelast (x' :: l')).
  change (removelast (y :: y' :: m')) with (y :: removelast (y' :: m')).
  constructor; assumption.
Qed.

Lemma lastP_inv fresh {A} (l : list A) s r s' :
  run fresh (lastP l) s = Ok (r, s') -> nth_error l (length l - 1) = Some r /\ l <> [] /\ s' = s.
Proof.
  unfold lastP. destruct (rev l) as [|x t] eqn:E; [discriminate|]. intros H.
  apply run_ret_inv in H as (-> & ->).
  assert (l = rev t ++ [x]) as -> by (rewrite <- (rev_involutive l), E; reflexivity).
  split; [|split; [destruct (rev t); discriminate|reflexivity]].
  rewrite app_length. simpl. rewrite Nat.add_sub, nth_error_app2, Nat.sub_diag by lia. reflexivity.
Qed.

Lemma bits_val_if_repeat (b : bool) v :
  bits_val (if b then v else repeat false (length v)) = if b then bits_val v else 0.
Proof. destruct b; [reflexivity|apply bits_val_repeat_false]. Qed.

Theorem add_div_mod_correct fresh xs ys be s qs rs s' :
  run fresh (add_div_mod xs ys be) s = Ok ((qs, rs), s') ->
  ext (bc s) (bc s') /\ inputs (bc s') = inputs (bc s) /\ outputs (bc s') = outputs (bc s) /\
  length ys = length xs /\ length qs = length xs /\ length rs = length xs /\
  forall asg xv yv, bvals (bc s) asg xs xv -> bvals (bc s) asg ys yv ->
    exists qv rv, bvals (bc s') asg qs qv /\ bvals (bc s') asg rs rv /\
      decode be qv = (if decode be yv =? 0 then 0 else decode be xv / decode be yv) /\
      decode be rv = (if decode be yv =? 0 then 0 else decode be xv mod decode be yv).
Proof.
  intros H. pose proof (run_ext _ _ _ _ _ H) as Hx. unfold add_div_mod in H.
  rewrite !rev_if_length in H.
  destruct (length xs =? length ys)%nat eqn:En; [|discriminate]. apply Nat.eqb_eq in En. cbn [negb] in H.
  set (n := length xs) in *. set (a := rev_if be xs) in *. set (b := rev_if be ys) in *.
  assert (length a = n) as La by (unfold a; apply rev_if_length).
  assert (length b = n) as Lb by (unfold b; rewrite rev_if_length; lia).
  apply run_bind_inv in H as (top & s0 & Htop & H). apply lastP_inv in Htop as (Etop & Hbne & ->).
  assert (1 <= n)%nat as Hn by (destruct b; [contradiction|simpl in Lb; lia]).
  apply run_bind_inv in H as (pr & s1 & Hpr & H).
  apply run_bind_inv in H as ([qs1 now1] & s2 & Hloop & H). cbn [fst snd] in H.
  apply run_bind_inv in H as ([q0 now2] & s3 & Hst & H). cbn [fst snd] in H.
  apply run_bind_inv in H as (plast & s3' & Hpl & H). apply lastP_inv in Hpl as (Epl & _ & ->).
  apply run_bind_inv in H as (b0 & s3' & Hb0 & H). apply nthP_inv in Hb0 as (Eb0 & ->).
  apply gate_tt_bind in H as (nz & s4 & H & Hx4 & Htnz & O4).
  apply run_bind_inv in H as (res' & s5 & Hm1 & H).
  apply run_bind_inv in H as (now' & s6 & Hm2 & H).
  apply run_ret_inv in H as (E & ->). injection E as -> ->.
  pose proof (run_ext _ _ _ _ _ Hpr) as Hx1. pose proof (run_ext _ _ _ _ _ Hloop) as Hx2.
  pose proof (run_ext _ _ _ _ _ Hst) as Hx3. pose proof (run_ext _ _ _ _ _ Hm1) as Hx5.
  pose proof (run_ext _ _ _ _ _ Hm2) as Hx6.
  apply or_chain_spec in Hpr as (O1 & Lpr & Vpr).
  apply div_loop_spec in Hloop as (O2 & Lq1 & Ln1 & Vloop); [|exact Lb|exact La|lia].
  apply div_stage_spec in Hst as (O3 & Ln2 & Vst); [|exact Lb|exact Ln1|lia].
  apply mask_spec in Hm1 as (O5 & Lr' & Vm1). apply mask_spec in Hm2 as (O6 & Ln' & Vm2).
  split; [exact Hx|]. split; [apply ext_inputs, Hx|]. split; [congruence|]. split; [lia|].
  split; [rewrite rev_if_length, Lr'; simpl; lia|]. split; [rewrite rev_if_length, Ln'; lia|].
  intros asg xv yv Hxv Hyv.
  apply (bvals_ext _ _ _ _ _ Hx) in Hxv. apply (bvals_ext _ _ _ _ _ Hx) in Hyv.
  set (c := bc s6) in *.
  apply (bvals_rev_if _ _ be) in Hxv. apply (bvals_rev_if _ _ be) in Hyv. fold a in Hxv. fold b in Hyv.
  set (av := rev_if be xv) in *. set (bv := rev_if be yv) in *.
  pose proof (bvals_length _ _ _ _ Hyv) as Lbv. rewrite Lb in Lbv. symmetry in Lbv.
  pose proof (bvals_length _ _ _ _ Hxv) as Lav. rewrite La in Lav. symmetry in Lav.
  assert (ext (bc s1) c) as Hc1 by (repeat (eapply ext_trans; [eassumption|]); apply ext_refl).
  assert (ext (bc s2) c) as Hc2 by (repeat (eapply ext_trans; [eassumption|]); apply ext_refl).
  assert (ext (bc s3) c) as Hc3 by (repeat (eapply ext_trans; [eassumption|]); apply ext_refl).
  assert (ext (bc s4) c) as Hc4 by (repeat (eapply ext_trans; [eassumption|]); apply ext_refl).
  assert (ext (bc s5) c) as Hc5 by (repeat (eapply ext_trans; [eassumption|]); apply ext_refl).
  (* values of the OR-prefix *)
  destruct (pref_values bv n Lbv Hn) as (Lprefv & Vprefv). cbn zeta in Lprefv, Vprefv.
  set (prefv := hd false (rev bv) :: or_prefix (hd false (rev bv)) (removelast (tl (rev bv)))) in *.
  assert (bvals c asg (top :: pr) prefv) as Hpref.
  { pose proof (bvals_rev _ _ _ _ Hyv) as Hrev.
    destruct (rev b) as [|t0 tb] eqn:Erb; [apply (f_equal (@length label)) in Erb; rewrite rev_length in Erb; simpl in Erb; lia|].
    assert (top = t0) as ->.
    { assert (b = rev tb ++ [t0]) as Eb by (rewrite <- (rev_involutive b), Erb; reflexivity).
      rewrite Eb in Etop. rewrite app_length in Etop. simpl in Etop.
      rewrite Nat.add_sub, nth_error_app2, Nat.sub_diag in Etop by lia. injection Etop as <-. reflexivity. }
    unfold prefv. inversion Hrev as [|? tv ? tbv Vt0 Htb Erv]; subst. cbn [hd tl].
    constructor; [exact Vt0|]. cbn [tl] in Vpr. apply Vpr; [exact Hc1|exact Vt0|].
    apply Forall2_removelast, Htb. }
  pose proof (bvals_length _ _ _ _ Hpref) as Lpref.
  set (A := bits_val av) in *. set (B := bits_val bv) in *.
  pose proof (bits_val_range av) as RA. rewrite Lav in RA. fold A in RA.
  pose proof (bits_val_nonneg bv) as RB. fold B in RB.
  (* the loop *)
  destruct (Vloop c Hc2 asg bv av Hyv Hxv) as (qs1v & now1v & Vqs1 & Vnow1 & Eloop & Bloop).
  { intros k Hk. assert (k < length prefv)%nat as Hk' by (rewrite Lprefv; lia).
    rewrite <- Lpref in Hk'. destruct (nth_error (top :: pr) k) as [p|] eqn:Ep;
      [|apply nth_error_None in Ep; lia].
    exists p. split; [reflexivity|].
    destruct (Forall2_nth_error _ _ _ _ _ Hpref Ep) as (pv & Epv & Vp).
    rewrite Vprefv in Epv by (rewrite Lprefv; lia). injection Epv as <-. exact Vp. }
  destruct (Vst c Hc3 asg bv now1v Hyv Vnow1 eq_refl) as (q0v & now2v & Vq0 & Vnow2 & Eq0 & Enow2).
  change (Z.of_nat 0) with 0 in Eq0, Enow2. rewrite Z.pow_0_r, Z.mul_1_r in Eq0, Enow2. fold B in Eq0, Enow2, Eloop, Bloop.
  (* the zero-divisor mask *)
  assert (bval c asg nz (1 <=? B)) as Vnz.
  { assert (exists e, (e = 0 \/ e = 1)%nat /\ bval c asg plast (2 ^ Z.of_nat e <=? B)) as (e & He & Vpl).
    { exists (n - 1 - (length (top :: pr) - 1))%nat. split; [rewrite Lpref, Lprefv; lia|].
      destruct (Forall2_nth_error _ _ _ _ _ Hpref Epl) as (plv & Eplv & Vpl).
      rewrite Vprefv in Eplv by (rewrite <- Lpref; cbn [length]; lia). injection Eplv as <-. exact Vpl. }
    destruct (Forall2_nth_error _ _ _ _ _ Hyv Eb0) as (b0v & Eb0v & Vb0).
    apply (has_tt_ext _ _ _ _ _ _ Hc4) in Htnz.
    pose proof (has_tt_val _ _ _ _ _ _ _ _ Htnz Vpl Vb0) as V.
    replace (tt_fun tt_or (2 ^ Z.of_nat e <=? B) b0v) with (1 <=? B) in V; [exact V|].
    clear V. unfold B in *. destruct bv as [|b0v' bv']; [discriminate|]. injection Eb0v as ->.
    rewrite bits_val_cons. pose proof (bits_val_nonneg bv') as Hnn.
    destruct He as [-> | ->].
    - change (Z.of_nat 0) with 0. rewrite Z.pow_0_r.
      destruct (1 <=? Z.b2z b0v + 2 * bits_val bv') eqn:E1; destruct b0v; simpl Z.b2z in *;
        try reflexivity; exfalso; apply Z.leb_gt in E1; lia.
    - change (Z.of_nat 1) with 1. rewrite Z.pow_1_r.
      destruct (1 <=? Z.b2z b0v + 2 * bits_val bv') eqn:E1;
        destruct (2 <=? Z.b2z b0v + 2 * bits_val bv') eqn:E2; destruct b0v; simpl Z.b2z in *;
          try reflexivity; exfalso;
          try apply Z.leb_le in E1; try apply Z.leb_gt in E1;
          try apply Z.leb_le in E2; try apply Z.leb_gt in E2; lia. }
  specialize (Vm1 c Hc5 asg (1 <=? B) (q0v :: qs1v) Vnz (Forall2_cons _ _ Vq0 Vqs1)).
  specialize (Vm2 c (ext_refl _) asg (1 <=? B) now2v Vnz Vnow2).
  eexists _, _. split; [apply bvals_rev_if, Vm1|]. split; [apply bvals_rev_if, Vm2|].
  rewrite !decode_rev_if, !bits_val_if_repeat. unfold decode. fold bv av B A.
  pose proof (bits_val_nonneg now2v) as RN2. pose proof (bits_val_nonneg now1v) as RN1.
  destruct (1 <=? B) eqn:EB.
  - apply Z.leb_le in EB. replace (B =? 0) with false by (symmetry; apply Z.eqb_neq; lia).
    assert (A < B * 2 ^ Z.of_nat (S (n - 1))) as HAlt.
    { replace (S (n - 1)) with n by lia. pose proof (pow2_pos n).
      assert (1 * 2 ^ Z.of_nat n <= B * 2 ^ Z.of_nat n) by (apply Z.mul_le_mono_nonneg_r; lia). lia. }
    specialize (Bloop ltac:(lia) HAlt).
    assert (0 <= bits_val now2v < B) as RR.
    { rewrite Enow2. destruct q0v; [symmetry in Eq0; apply Z.leb_le in Eq0|symmetry in Eq0; apply Z.leb_gt in Eq0]; lia. }
    rewrite bits_val_cons.
    assert (A = B * (Z.b2z q0v + 2 * bits_val qs1v) + bits_val now2v) as EA.
    { unfold A. rewrite Eloop, Enow2. destruct q0v; simpl Z.b2z; lia. }
    split; [apply (Z.div_unique_pos _ _ _ _ RR EA)|apply (Z.mod_unique_pos _ _ _ _ RR EA)].
  - apply Z.leb_gt in EB. replace (B =? 0) with true by (symmetry; apply Z.eqb_eq; lia). split; reflexivity.
Qed.
