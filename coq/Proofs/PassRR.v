(* C03: the emission order shared by the passes (dfs from the outputs, exit hook, optionally the
   unvisited hook in topological order) and RemoveRedundantGates (both flags). *)
Require Import Cirbo.Model.Base Cirbo.Model.Gate Cirbo.Model.Den Cirbo.Model.Circuit Cirbo.Model.Traverse
        Cirbo.Model.Eval Cirbo.Model.Sem Cirbo.Model.WF Cirbo.Model.Passes.
Require Import Cirbo.Generated.Operators Cirbo.Generated.GateTypes.
Require Import Cirbo.Proofs.DictFacts Cirbo.Proofs.WFBase Cirbo.Proofs.WFSimple Cirbo.Proofs.WFEmplace
        Cirbo.Proofs.TopSortWF Cirbo.Proofs.TraverseStep Cirbo.Proofs.TraverseInv
        Cirbo.Proofs.TraverseSpec Cirbo.Proofs.TraverseFinal Cirbo.Proofs.PassRebuild.

(* ---------------- list helpers ---------------- *)
Lemma exits_split log : forall pre x post, TraverseInv.exits log = pre ++ x :: post ->
  exists L1 L2, log = L1 ++ EvExit x :: L2 /\ TraverseInv.exits L1 = pre /\ TraverseInv.exits L2 = post.
Proof.
  induction log as [|e log IH]; intros pre x post E; simpl in E; [destruct pre; discriminate|].
  destruct e as [l|l s|l|l|l|];
    try (simpl in E; destruct (IH _ _ _ E) as (L1 & L2 & -> & H1 & H2);
         eexists (_ :: L1), L2; split; [reflexivity|split; [exact H1|exact H2]]).
  simpl in E. destruct pre as [|p pre]; simpl in E; injection E as -> E.
  - exists [], log. auto.
  - destruct (IH _ _ _ E) as (L1 & L2 & -> & H1 & H2).
    exists (EvExit p :: L1), L2. split; [reflexivity|]. split; [simpl; rewrite H1; reflexivity|exact H2].
Qed.

Lemma filter_split {A} (f : A -> bool) l : forall pre x post, filter f l = pre ++ x :: post ->
  exists l1 l2, l = l1 ++ x :: l2 /\ filter f l1 = pre /\ filter f l2 = post /\ f x = true.
Proof.
  induction l as [|y l IH]; intros pre x post E; simpl in E; [destruct pre; discriminate|].
  destruct (f y) eqn:Ef.
  - destruct pre as [|p pre]; simpl in E; injection E as -> E.
    + exists [], l. auto.
    + destruct (IH _ _ _ E) as (l1 & l2 & -> & H1 & H2 & H3).
      exists (p :: l1), l2. simpl. rewrite Ef, H1. auto.
  - destruct (IH _ _ _ E) as (l1 & l2 & -> & H1 & H2 & H3).
    exists (y :: l1), l2. simpl. rewrite Ef. auto.
Qed.

Lemma NoDup_app_disj {A} (l1 l2 : list A) :
  NoDup l1 -> NoDup l2 -> (forall x, In x l1 -> In x l2 -> False) -> NoDup (l1 ++ l2).
Proof.
  induction l1 as [|x l1 IH]; intros H1 H2 Hd; simpl; [exact H2|]. inversion H1; subst. constructor.
  - intros Hin. apply in_app_or in Hin. destruct Hin as [Hin|Hin]; [contradiction|].
    eapply Hd; [left; reflexivity|exact Hin].
  - apply IH; [assumption|assumption|]. intros y Hy; apply Hd; right; exact Hy.
Qed.

Lemma app_eq_mid {A} (l1 l2 pre post : list A) x : l1 ++ l2 = pre ++ x :: post ->
  (exists m, l1 = pre ++ x :: m /\ post = m ++ l2) \/ (exists m, pre = l1 ++ m /\ l2 = m ++ x :: post).
Proof.
  intros E. apply app_eq_app in E. destruct E as (m & [[E1 E2]|[E1 E2]]).
  - destruct m as [|y m]; simpl in E2.
    + right. exists []. rewrite app_nil_r in E1. subst. rewrite app_nil_r. auto.
    + injection E2 as -> ->. left. exists m. auto.
  - right. exists m. auto.
Qed.

(* ---------------- the emission order ---------------- *)
Record EmSpec (c : circuit) (wu : bool) (em : list label) : Prop := mkEmSpec {
  em_nodup : NoDup em;
  em_in : forall l, In l em <->
            reach (ops_of c) (outputs c) l \/ (wu = true /\ In l (dkeys (gates c)));
  (* operands are emitted before their users *)
  em_order : forall pre x post, em = pre ++ x :: post -> forall o, In o (ops_of c x) -> In o pre }.

Lemma outputs_start_exist c : WF c -> starts_exist false c (Some (outputs c)).
Proof. intros W s Hs. simpl in Hs. apply (wf_outs c W); exact Hs. Qed.

Lemma reach_key c l : WF c -> reach (ops_of c) (outputs c) l -> In l (dkeys (gates c)).
Proof.
  intros W. apply (reach_closed (ops_of c) (outputs c) (fun l => In l (dkeys (gates c)))).
  - intros s Hs. apply has_gate_key, (wf_outs c W), Hs.
  - intros x y _ Hy. eapply wf_ops_key; eassumption.
Qed.

Theorem dfs_emission_spec c wu em : WF c -> dfs_emission c wu = Ok em -> EmSpec c wu em.
Proof.
  intros W H. unfold dfs_emission in H. binv H log Hlog. injection H as <-.
  pose proof (outputs_start_exist c W) as Hs.
  destruct (traverse_yields_reachable DFS false c _ wu log W Hs Hlog) as [_ Hreach].
  destruct (traverse_hooks DFS false c _ wu log W Hs Hlog) as (_ & _ & Hxnd & _ & Hxy).
  specialize (Hxy eq_refl).
  destruct (traverse_unvisited DFS false c _ wu log W Hs Hlog) as ((order & Hord & Hunv) & Hund & Hunin & _).
  change (Passes.exits log) with (TraverseInv.exits log).
  change (unvisiteds log) with (unvisited_of log).
  simpl in Hreach, Hunin.
  assert (Hex : forall l, In l (TraverseInv.exits log) <-> reach (ops_of c) (outputs c) l).
  { intros l. rewrite Hxy. apply Hreach. }
  assert (Hpost : forall pre x post, TraverseInv.exits log = pre ++ x :: post ->
                  forall o, In o (ops_of c x) -> In o pre).
  { intros pre x post E o Ho.
    assert (Hx : In x (yielded log)) by (apply Hxy; rewrite E; apply in_elt).
    destruct (dfs_post_order false c _ wu log W Hs Hlog x o Hx) as (_ & _ & Hpr); [apply tc_one; exact Ho|].
    destruct (exits_split log pre x post E) as (L1 & L2 & EL & H1 & H2).
    rewrite <- H1. apply exits_In. apply (Hpr L1 L2 EL). }
  destruct wu.
  - constructor.
    + apply NoDup_app_disj; [exact Hxnd|exact Hund|].
      intros x H1 H2. apply Hunin in H2. apply Hex in H1. tauto.
    + intros l. rewrite in_app_iff, Hex, Hunin. split.
      * intros [H1|[H1 H2]]; [left; exact H1|right; auto].
      * intros [H1|[_ H1]]; [left; exact H1|].
        destruct (in_dec string_dec l (TraverseInv.exits log)) as [Hi|Hi]; [left; apply Hex; exact Hi|].
        right. split; [exact H1|]. intros Hr; apply Hi, Hex, Hr.
    + intros pre x post E o Ho. apply app_eq_mid in E.
      destruct E as [(m & E1 & _)|(m & -> & E2)]; [eapply Hpost; eassumption|].
      apply in_or_app.
      destruct (in_dec string_dec o (TraverseInv.exits log)) as [Hi|Hi]; [left; exact Hi|right].
      rewrite Hunv in E2. destruct (filter_split _ _ _ _ _ E2) as (l1 & l2 & Eo & F1 & _ & _).
      rewrite <- F1. apply filter_In. split.
      * eapply (top_sort_true_prefix c order W Hord); eassumption.
      * apply negb_true_iff, memb_nIn. intros Hy. apply Hi, Hxy, Hy.
  - rewrite app_nil_r. constructor.
    + exact Hxnd.
    + intros l. rewrite Hex. split; [auto|]. intros [H1|[H1 _]]; [exact H1|discriminate].
    + exact Hpost.
Qed.

Theorem dfs_emission_total c wu : WF c -> exists em, dfs_emission c wu = Ok em.
Proof.
  intros W. destruct (traverse_total DFS false c (Some (outputs c)) wu W (outputs_start_exist c W)) as [log Hlog].
  unfold dfs_emission. rewrite Hlog. simpl. eauto.
Qed.

Lemma em_key c wu em l : WF c -> EmSpec c wu em -> In l em -> In l (dkeys (gates c)).
Proof.
  intros W E Hl. apply (em_in c wu em E) in Hl. destruct Hl as [Hl|[_ Hl]]; [eapply reach_key; eassumption|exact Hl].
Qed.

(* with the unvisited hook every gate is emitted *)
Lemma em_all c em l : EmSpec c true em -> In l (dkeys (gates c)) -> In l em.
Proof. intros E Hl. apply (em_in c true em E). right; auto. Qed.

(* ---------------- RemoveRedundantGates ---------------- *)
Definition rr_step (c : circuit) (n : circuit) (l : label) : res circuit :=
  do g <- get_gate c l; emplace_gate n l (gtyp g) (gops g).

(* the state after the emitted prefix *)
Record RRInv (c : circuit) (pre : list label) (n : circuit) : Prop := mkRRInv {
  rri_wf : WF n;
  rri_sim : sim c eq n;
  rri_keys : forall x, has_gate n x = true <-> In x pre;
  rri_outs : outputs n = [] }.

Lemma rr_step_inv c pre n l n' : RRInv c pre n -> rr_step c n l = Ok n' -> RRInv c (pre ++ [l]) n'.
Proof.
  intros [W S K O] H. unfold rr_step in H. binv H g Hg. apply get_gate_ok in Hg.
  destruct (emplace_gate_frame _ _ _ _ _ H) as (Ho & _ & Hh & _). constructor.
  - eapply emplace_gate_wf; eassumption.
  - apply (sim_emplace c eq n l g (gtyp g) (gops g) n' S Hg eq_refl); [|exact H].
    intros _. apply Forall2_refl_on; reflexivity.
  - intros x. rewrite Hh, in_app_iff, <- K. simpl.
    destruct (leqb_spec x l) as [->|Hne]; simpl; [tauto|]. split; [tauto|]. intros [Hx|[Hx|[]]]; congruence.
  - congruence.
Qed.

Lemma rr_fold_inv c order n1 :
  foldM (rr_step c) order empty_circuit = Ok n1 -> RRInv c order n1.
Proof.
  intros H. apply (foldM_prefix (rr_step c) (RRInv c) order) with (l := order) (pre := []) (s := empty_circuit) (s' := n1).
  - intros pre x post s s' _. apply rr_step_inv.
  - reflexivity.
  - constructor; [apply WF_empty|apply sim_empty| |reflexivity]. intros x; simpl; split; [discriminate|tauto].
  - exact H.
Qed.

(* an input of c that is a gate of a circuit simulating c is an input of that circuit *)
Lemma sim_input_in c R n i :
  WF c -> WF n -> sim c R n -> In i (inputs c) -> (has_gate n i = true <-> In i (inputs n)).
Proof.
  intros W Wn S Hi. split.
  - intros H. apply has_gate_get in H. destruct H as [g' Hg'].
    destruct (S i g' Hg') as (g & Hg & Et & _).
    apply (wf_inputs c W) in Hi. destruct Hi as (g0 & Hg0 & Ht0).
    rewrite Hg in Hg0; injection Hg0 as <-.
    apply (wf_inputs n Wn). exists g'. split; [exact Hg'|congruence].
  - intros H. apply (wf_inputs n Wn) in H. destruct H as (g' & Hg' & _). eapply get_has_gate; eassumption.
Qed.

Lemma filter_ext_in' {A} (f g : A -> bool) l : (forall x, In x l -> f x = g x) -> filter f l = filter g l.
Proof.
  induction l as [|x l IH]; intros H; simpl; [reflexivity|].
  rewrite (H x (or_introl eq_refl)), IH; [reflexivity|]. intros; apply H; right; assumption.
Qed.

Lemma bool_iff_eq (b1 b2 : bool) : (b1 = true <-> b2 = true) -> b1 = b2.
Proof. destruct b1, b2; intros [H1 H2]; auto; symmetry; auto. Qed.

(* the structure of the result, both flags *)
Theorem rr_rebuilt air c c' :
  WF c -> remove_redundant_gates air c = Ok c' ->
  Rebuilt c eq c' /\
  inputs c' = filter (has_gate c') (inputs c) /\
  (air = false -> inputs c' = inputs c) /\
  outputs c' = outputs c /\
  exists order, dfs_emission c false = Ok order /\
    forall x, has_gate c' x = true <-> In x order \/ (air = false /\ In x (inputs c)).
Proof.
  intros W H. unfold remove_redundant_gates in H. binv H order Hord. binv H n1 H1.
  fold (rr_step c) in H1. apply rr_fold_inv in H1. destruct H1 as [W1 S1 K1 O1].
  binv H n2 H2. binv H n3 H3.
  assert (Hn2 : WF n2 /\ sim c eq n2 /\ outputs n2 = [] /\
                (forall x, has_gate n2 x = true <-> In x order \/ (air = false /\ In x (inputs c))) /\
                (air = false -> forall i, In i (inputs c) -> In i (inputs n2))).
  { destruct air.
    - injection H2 as <-. split; [exact W1|]. split; [exact S1|]. split; [exact O1|]. split.
      + intros x. rewrite K1. split; [auto|]. intros [Hx|[Hx _]]; [exact Hx|discriminate].
      + discriminate.
    - destruct (add_inputs_spec _ _ _ H2) as (Ho & Hi & Hh).
      split; [eapply add_inputs_wf; eassumption|]. split.
      { eapply sim_add_inputs; [exact S1| |exact H2]. intros l Hl. apply filter_In in Hl.
        apply (wf_inputs c W), Hl. }
      split; [congruence|]. split.
      + intros x. rewrite Hh, orb_true_iff, K1, memb_In, filter_In, negb_true_iff. split.
        * intros [Hx|[Hx _]]; [left; exact Hx|right; auto].
        * intros [Hx|[_ Hx]]; [left; exact Hx|].
          destruct (has_gate n1 x) eqn:E; [left; apply K1; exact E|right; auto].
      + intros _ i Hin. rewrite Hi. apply in_or_app.
        destruct (has_gate n1 i) eqn:E.
        * left. apply (sim_input_in c eq n1 i W W1 S1 Hin). exact E.
        * right. apply filter_In. rewrite E. auto. }
  destruct Hn2 as (W2 & S2 & O2 & K2 & I2).
  pose proof (set_inputs_wf _ _ _ W2 H3) as W3.
  apply set_inputs_spec in H3. subst n3.
  pose proof (set_outputs_wf _ _ _ W3 H) as W'.
  apply set_outputs_spec in H. subst c'.
  assert (Hin : filter (fun i => memb i (inputs n2)) (inputs c) = filter (has_gate n2) (inputs c)).
  { apply filter_ext_in'. intros i Hi. apply bool_iff_eq. rewrite memb_In.
    symmetry. apply (sim_input_in c eq n2 i W W2 S2 Hi). }
  split; [constructor|].
  - exact W'.
  - eapply sim_gates; [|exact S2]. reflexivity.
  - simpl. apply Forall2_refl_on; reflexivity.
  - simpl. split; [exact Hin|]. split.
    + intros ->. rewrite Hin. apply filter_true. intros i Hi.
      apply (sim_input_in c eq n2 i W W2 S2 Hi). apply (I2 eq_refl i Hi).
    + split; [reflexivity|]. exists order. split; [exact Hord|exact K2].
Qed.

(* C03 for RemoveRedundantGates: three-valued assignments *)
Theorem rr_pres air c c' :
  WF c -> arity_ok c -> remove_redundant_gates air c = Ok c' -> Pres true (negb air) c c'.
Proof.
  intros W A H. destruct (rr_rebuilt air c c' W H) as (Hr & Hi & Hk & _).
  eapply Pres_of_rebuilt; [exact A|exact Hr|exact Hi| |].
  - intros Hn. apply Hk. destruct air; [discriminate|reflexivity].
  - intros a _ x' x ->. apply eqv_refl.
Qed.

(* the gates of the result: exactly the gates reachable from the outputs (plus all inputs when
   inputs are kept) *)
Theorem rr_gates air c c' :
  WF c -> remove_redundant_gates air c = Ok c' ->
  forall x, has_gate c' x = true <->
            reach (ops_of c) (outputs c) x \/ (air = false /\ In x (inputs c)).
Proof.
  intros W H x. destruct (rr_rebuilt air c c' W H) as (_ & _ & _ & _ & order & Hord & K).
  rewrite K. pose proof (dfs_emission_spec c false order W Hord) as E.
  rewrite (em_in c false order E). split.
  - intros [[Hx|[Hx _]]|Hx]; [left; exact Hx|discriminate|right; exact Hx].
  - intros [Hx|Hx]; [left; left; exact Hx|right; exact Hx].
Qed.

(* with input removal: the remaining inputs are the reachable ones, original order *)
Corollary rr_true_inputs c c' :
  WF c -> remove_redundant_gates true c = Ok c' ->
  forall i, In i (inputs c') <-> In i (inputs c) /\ reach (ops_of c) (outputs c) i.
Proof.
  intros W H i. destruct (rr_rebuilt true c c' W H) as (_ & Hi & _).
  rewrite Hi, filter_In, (rr_gates true c c' W H i). split.
  - intros [H1 [H2|[H2 _]]]; [auto|discriminate].
  - intros [H1 H2]; auto.
Qed.

(* ---------------- totality ---------------- *)
Theorem rr_total air c : WF c -> exists c', remove_redundant_gates air c = Ok c'.
Proof.
  intros W. destruct (dfs_emission_total c false W) as [order Hord].
  pose proof (dfs_emission_spec c false order W Hord) as E.
  unfold remove_redundant_gates. rewrite Hord. simpl. fold (rr_step c).
  destruct (foldM_prefix_total (rr_step c) (RRInv c) order) with (l := order) (pre := @nil label) (s := empty_circuit)
    as (n1 & H1 & I1).
  - intros pre x post n Eo In0.
    assert (Hx : In x (dkeys (gates c))) by (eapply em_key; [exact W|exact E|rewrite Eo; apply in_elt]).
    destruct (get_gate_key c x Hx) as (g & Hg & Hd).
    assert (exists n', rr_step c n x = Ok n') as [n' Hn'].
    { unfold rr_step. rewrite Hg. simpl. unfold emplace_gate.
      assert (Hnew : has_gate n x = false).
      { destruct (has_gate n x) eqn:Eh; [|reflexivity]. apply (rri_keys c pre n In0) in Eh.
        pose proof (em_nodup c false order E) as Hnd. rewrite Eo in Hnd.
        apply NoDup_remove_2 in Hnd. exfalso; apply Hnd, in_or_app; left; exact Eh. }
      unfold check_label_doesnt_exist. rewrite Hnew. simpl.
      assert (Hops : check_gates_exist (gops g) n = Ok tt).
      { apply check_gates_exist_ok. intros o Ho. apply (rri_keys c pre n In0).
        eapply (em_order c false order E); [exact Eo|]. rewrite (ops_of_get c x g Hd). exact Ho. }
      rewrite Hops. simpl. eauto. }
    exists n'. split; [exact Hn'|eapply rr_step_inv; eassumption].
  - reflexivity.
  - constructor; [apply WF_empty|apply sim_empty| |reflexivity]. intros x; simpl; split; [discriminate|tauto].
  - rewrite H1. simpl. destruct I1 as [W1 S1 K1 O1].
    (* add_inputs of the inputs that are not yet gates *)
    assert (Hadd : forall ls n, WF n -> NoDup ls -> (forall l, In l ls -> has_gate n l = false) ->
                   exists n', add_inputs n ls = Ok n').
    { induction ls as [|l ls IH]; intros n Wn Hnd Hfree; simpl; [eauto|].
      inversion Hnd; subst. unfold check_label_doesnt_exist, emplace_gate, check_label_doesnt_exist.
      rewrite (Hfree l (or_introl eq_refl)). simpl.
      apply IH; [|assumption|].
      - apply emplace_gate_raw_wf; [exact Wn|apply Hfree; left; reflexivity|intros ? []].
      - intros x Hx. rewrite emplace_raw_has_gate. rewrite (Hfree x (or_intror Hx)).
        destruct (leqb_spec x l) as [->|]; [contradiction|reflexivity]. }
    assert (exists n2, (if air then Ok n1 else add_inputs n1 (filter (fun i => negb (has_gate n1 i)) (inputs c))) = Ok n2)
      as [n2 H2].
    { destruct air; [eauto|]. apply Hadd; [exact W1|apply NoDup_filter, (wf_inputs_nodup c W)|].
      intros l Hl. apply filter_In in Hl. apply negb_true_iff, Hl. }
    rewrite H2. simpl.
    assert (W2 : WF n2) by (destruct air; [injection H2 as <-; exact W1|eapply add_inputs_wf; eassumption]).
    assert (S2 : sim c eq n2).
    { destruct air; [injection H2 as <-; exact S1|].
      eapply sim_add_inputs; [exact S1| |exact H2]. intros l Hl. apply filter_In in Hl. apply (wf_inputs c W), Hl. }
    assert (K2 : forall x, has_gate n1 x = true -> has_gate n2 x = true).
    { destruct air; [injection H2 as <-; auto|]. destruct (add_inputs_spec _ _ _ H2) as (_ & _ & Hh).
      intros x Hx. rewrite Hh, Hx. reflexivity. }
    set (ins := filter (fun i => memb i (inputs n2)) (inputs c)).
    assert (exists n3, set_inputs n2 ins = Ok n3) as [n3 H3].
    { unfold set_inputs.
      assert (Hex : check_gates_exist ins n2 = Ok tt).
      { apply check_gates_exist_ok. intros l Hl. apply filter_In in Hl. destruct Hl as [_ Hl].
        apply memb_In, (wf_inputs n2 W2) in Hl. destruct Hl as (g & Hg & _). eapply get_has_gate; eassumption. }
      rewrite Hex. simpl.
      assert (Hall : forallb (fun kg => negb (gtype_beq (gtyp (snd kg)) INPUT) || memb (fst kg) ins) (gates n2) = true).
      { apply forallb_forall. intros [l g] Hlg. simpl.
        destruct (gtype_beq (gtyp g) INPUT) eqn:Et; [simpl|reflexivity]. apply gtype_beq_eq in Et.
        apply In_dget in Hlg; [|apply (wf_gkeys n2 W2)].
        apply memb_In, filter_In.
        assert (Hl2 : In l (inputs n2)) by (apply (wf_inputs n2 W2); eauto).
        split; [|apply memb_In; exact Hl2].
        destruct (S2 l g Hlg) as (g0 & Hg0 & Et0 & _). apply (wf_inputs c W). exists g0. split; [exact Hg0|congruence]. }
      rewrite Hall.
      assert (Hloop : forall rest acc, NoDup (acc ++ rest) -> (forall i, In i rest -> In i (inputs n2)) ->
                      exists r, set_inputs_loop n2 rest acc = Ok r).
      { induction rest as [|i rest IH]; intros acc Hnd Hin; simpl; [eauto|].
        assert (Hi : In i (inputs n2)) by (apply Hin; left; reflexivity).
        apply (wf_inputs n2 W2) in Hi. destruct Hi as (g & Hg & Ht).
        unfold get_gate. rewrite Hg. simpl. rewrite Ht. simpl.
        assert (Hm : memb i acc = false).
        { apply memb_nIn. intros Hi. apply NoDup_remove_2 in Hnd. apply Hnd, in_or_app; left; exact Hi. }
        rewrite Hm. apply IH; [rewrite <- app_assoc; exact Hnd|intros; apply Hin; right; assumption]. }
      destruct (Hloop ins []) as [r Hr].
      - apply NoDup_filter, (wf_inputs_nodup c W).
      - intros i Hi. apply filter_In in Hi. apply memb_In, Hi.
      - rewrite Hr. simpl. eauto. }
    rewrite H3. simpl. apply set_inputs_spec in H3. subst n3.
    unfold set_outputs.
    assert (Hex : check_gates_exist (outputs c) (set_inputs_raw n2 ins) = Ok tt).
    { apply check_gates_exist_ok. intros o Ho. change (has_gate n2 o = true). apply K2, K1.
      apply (em_in c false order E). left. apply reach_start. exact Ho. }
    rewrite Hex. simpl. eauto.
Qed.
