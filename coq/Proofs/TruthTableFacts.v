(* C18 (used by EffectME.v): what get_gates_truth_table computes on a well-formed circuit.
   For every gate l the table holds one value per Boolean input vector, in the order of
   all_bool_vectors, and that value is the semantic value (Sem.Eval) of l under the assignment
   binding the inputs to the vector. *)
Require Import Cirbo.Model.Base Cirbo.Model.Gate Cirbo.Model.Circuit Cirbo.Model.Traverse Cirbo.Model.WF.
Require Import Cirbo.Model.Eval Cirbo.Model.Sem.
Require Import Cirbo.Generated.GateTypes.
Require Import Cirbo.Proofs.DictFacts Cirbo.Proofs.WFBase Cirbo.Proofs.WFSimple Cirbo.Proofs.SemFacts
               Cirbo.Proofs.EvalFacts Cirbo.Proofs.TopSortWF Cirbo.Proofs.RebuildFacts.
Require Import Coq.Sorting.Permutation.

Definition assign_of (c : circuit) (x : list bool) : res assignment :=
  zip_inputs (inputs c) (map inj x) [].

(* ---------------- zip_inputs ---------------- *)
Lemma zip_inputs_keys ins : forall vals (acc a : assignment),
  zip_inputs ins vals acc = Ok a -> NoDup (dkeys acc) ->
  NoDup (dkeys a) /\ forall l, dmem a l = true -> dmem acc l = true \/ In l ins.
Proof.
  induction ins as [|i ins IH]; intros vals acc a H Hnd; simpl in H.
  - injection H as <-. auto.
  - destruct vals as [|v vals]; [discriminate|].
    destruct (IH _ _ _ H (NoDup_dkeys_dset acc i v Hnd)) as [H1 H2]. split; [exact H1|].
    intros l Hl. destruct (H2 l Hl) as [Hm|Hm]; [|right; right; exact Hm].
    rewrite dmem_dset in Hm. apply orb_true_iff in Hm. destruct Hm as [Hm|Hm]; [|left; exact Hm].
    apply leqb_eq in Hm. right; left; auto.
Qed.

Lemma assign_of_props c x a : assign_of c x = Ok a -> NoDup (dkeys a) /\ assigns_inputs_only c a.
Proof.
  intros H. destruct (zip_inputs_keys _ _ _ _ H (NoDup_nil _)) as [H1 H2]. split; [exact H1|].
  intros l Hl. destruct (H2 l Hl) as [Hm|Hm]; [discriminate|exact Hm].
Qed.

(* ---------------- evaluate_full_circuit: key set ---------------- *)
Lemma NoDup_dkeys_dsetdefault {V} (d : dict V) k v : NoDup (dkeys d) -> NoDup (dkeys (dsetdefault d k v)).
Proof.
  intros H. unfold dsetdefault. destruct (dmem d k) eqn:E; [exact H|].
  unfold dkeys. rewrite map_app. simpl. apply TopSort.NoDup_app_snoc; [exact H|].
  intros Hin. apply dmem_keys in Hin. congruence.
Qed.

Lemma init_assignment_nodup c a : NoDup (dkeys a) -> NoDup (dkeys (init_assignment c a)).
Proof.
  unfold init_assignment. revert a. induction (inputs c) as [|i ins IH]; intros a H; simpl; [exact H|].
  apply IH. apply NoDup_dkeys_dsetdefault; exact H.
Qed.

Definition efc_step (c : circuit) (d : assignment) (l : label) : res assignment :=
  do g <- get_gate c l;
  if gtype_beq (gtyp g) INPUT then Ok d else do v <- eval_gate d g; Ok (dset d l v).

Lemma efc_step_props c d l d' : efc_step c d l = Ok d' ->
  (NoDup (dkeys d) -> NoDup (dkeys d')) /\ (forall k, dmem d k = true -> dmem d' k = true) /\
  (forall g, dget (gates c) l = Some g -> gtyp g <> INPUT -> dmem d' l = true).
Proof.
  unfold efc_step. intros H. binv H g Hg. apply get_gate_ok in Hg.
  destruct (gtype_beq (gtyp g) INPUT) eqn:Et.
  - injection H as <-. split; [auto|]. split; [auto|]. intros g0 Hg0 Hne. exfalso. apply Hne.
    assert (g0 = g) by congruence. subst. apply gtype_beq_eq; exact Et.
  - binv H v Hv. injection H as <-. split; [apply NoDup_dkeys_dset|]. split.
    + intros k Hk. rewrite dmem_dset, Hk. apply orb_true_r.
    + intros _ _ _. rewrite dmem_dset, leqb_refl. reflexivity.
Qed.

Lemma efc_keys c a d : WF c -> NoDup (dkeys a) -> evaluate_full_circuit c a = Ok d ->
  NoDup (dkeys d) /\ forall l, has_gate c l = true -> dmem d l = true.
Proof.
  intros W Hnd H. unfold evaluate_full_circuit in H. binv H order Ho.
  change (foldM (efc_step c) order (init_assignment c a) = Ok d) in H.
  set (d0 := init_assignment c a) in *.
  assert (I : NoDup (dkeys d) /\ (forall k, dmem d0 k = true -> dmem d k = true) /\
              forall l g, In l order -> dget (gates c) l = Some g -> gtyp g <> INPUT -> dmem d l = true).
  { apply (foldM_prefix_inv (efc_step c)
             (fun P d => NoDup (dkeys d) /\ (forall k, dmem d0 k = true -> dmem d k = true) /\
                forall l g, In l P -> dget (gates c) l = Some g -> gtyp g <> INPUT -> dmem d l = true) order)
      with (rest := order) (P := []) (s := d0); [|reflexivity| |exact H].
    - intros P x rest s s' _ (I1 & I2 & I3) Hs. destruct (efc_step_props c s x s' Hs) as (S1 & S2 & S3).
      split; [auto|]. split; [auto|]. intros l g Hl Hg Hne. apply in_app_or in Hl.
      destruct Hl as [Hl|[<-|[]]]; [apply S2; eapply I3; eassumption|eapply S3; eassumption].
    - split; [apply init_assignment_nodup; exact Hnd|]. split; [auto|intros l g []]. }
  destruct I as (I1 & I2 & I3). split; [exact I1|].
  intros l Hl. apply has_gate_get in Hl. destruct Hl as [g Hg].
  destruct (gtype_beq (gtyp g) INPUT) eqn:Et.
  - apply I2. unfold d0, init_assignment, dmem. rewrite setdefaults_get.
    assert (Hin : In l (inputs c)) by (apply (wf_inputs c W); exists g; split; [exact Hg|apply gtype_beq_eq; exact Et]).
    apply memb_In in Hin. rewrite Hin. destruct (dget a l); reflexivity.
  - apply (I3 l g); [|exact Hg|intros E; apply gtype_beq_eq in E; congruence].
    apply (Permutation_in _ (Permutation_sym (top_sort_perm c true order W Ho))). eapply dget_In_keys; exact Hg.
Qed.

(* ---------------- the per-vector update of the table ---------------- *)
Definition tt_step (acc : dict (list st)) (kv : label * st) : dict (list st) :=
  match dget acc (fst kv) with
  | Some l => dset acc (fst kv) (l ++ [snd kv])
  | None => dset acc (fst kv) [snd kv]
  end.

Definition tt_of (acc : dict (list st)) (l : label) : list st :=
  match dget acc l with Some vs => vs | None => [] end.

Lemma tt_step_get acc k v k' :
  dget (tt_step acc (k, v)) k' = if leqb k' k then Some (tt_of acc k ++ [v]) else dget acc k'.
Proof.
  unfold tt_step, tt_of. simpl. destruct (dget acc k); rewrite dget_dset; reflexivity.
Qed.

Lemma tt_step_nodup acc kv : NoDup (dkeys acc) -> NoDup (dkeys (tt_step acc kv)).
Proof. intros H. unfold tt_step. destruct (dget acc (fst kv)); apply NoDup_dkeys_dset; exact H. Qed.

Lemma tt_fold_get (full : assignment) : NoDup (dkeys full) -> forall acc k,
  dget (fold_left tt_step full acc) k =
  match dget full k with Some v => Some (tt_of acc k ++ [v]) | None => dget acc k end.
Proof.
  induction full as [|[k0 v0] full IH]; intros Hnd acc k; simpl; [reflexivity|].
  inversion Hnd as [|? ? Hn0 Hnd']; subst. rewrite (IH Hnd').
  destruct (leqb_spec k k0) as [->|Hne].
  - assert (E : dget full k0 = None) by (apply dget_None_keys; exact Hn0). rewrite E.
    rewrite tt_step_get, leqb_refl. reflexivity.
  - unfold tt_of. rewrite tt_step_get. apply leqb_neq in Hne. rewrite Hne. reflexivity.
Qed.

Lemma tt_fold_nodup (full : assignment) : forall acc, NoDup (dkeys acc) -> NoDup (dkeys (fold_left tt_step full acc)).
Proof. induction full as [|kv full IH]; intros acc H; simpl; [exact H|]. apply IH, tt_step_nodup, H. Qed.

Definition gtt_step (c : circuit) (acc : dict (list st)) (x : list bool) : res (dict (list st)) :=
  do a <- zip_inputs (inputs c) (map inj x) [];
  do full <- evaluate_full_circuit c a;
  Ok (fold_left tt_step full acc).

Lemma gtt_unfold c : get_gates_truth_table c = foldM (gtt_step c) (all_bool_vectors (length (inputs c))) [].
Proof. reflexivity. Qed.

Lemma all_bool_vectors_nonempty n : all_bool_vectors n <> [].
Proof.
  induction n as [|n IH]; simpl; [discriminate|]. intros E. apply app_eq_nil in E. destruct E as [E _].
  apply map_eq_nil in E. contradiction.
Qed.

Lemma WF_inputs_are_input_gates c : WF c -> inputs_are_input_gates c.
Proof. intros W l Hl. apply (wf_inputs c W); exact Hl. Qed.

Definition val_rel (c : circuit) (l : label) (x : list bool) (v : st) : Prop :=
  exists a, assign_of c x = Ok a /\ Eval c a l v.

Theorem gtt_spec c gtt : WF c -> get_gates_truth_table c = Ok gtt ->
  NoDup (dkeys gtt) /\
  forall l, has_gate c l = true ->
    exists vs, dget gtt l = Some vs /\ Forall2 (val_rel c l) (all_bool_vectors (length (inputs c))) vs.
Proof.
  intros W H. rewrite gtt_unfold in H. set (X := all_bool_vectors (length (inputs c))) in *.
  assert (I : NoDup (dkeys gtt) /\
              forall l, has_gate c l = true -> (X <> [] -> dget gtt l <> None) /\ Forall2 (val_rel c l) X (tt_of gtt l)).
  { apply (foldM_prefix_inv (gtt_step c)
             (fun P acc => NoDup (dkeys acc) /\
                forall l, has_gate c l = true -> (P <> [] -> dget acc l <> None) /\ Forall2 (val_rel c l) P (tt_of acc l)) X)
      with (rest := X) (P := []) (s := []); [|reflexivity| |exact H].
    - intros P x rest acc acc' _ [I1 I2] Hs. unfold gtt_step in Hs. binv Hs a Ha. binv Hs full Hfull. injection Hs as <-.
      destruct (assign_of_props c x a Ha) as [Hnda Hao].
      destruct (efc_keys c a full W Hnda Hfull) as [Hndf Hall].
      pose proof (evaluate_full_circuit_sound c a full (WF_inputs_are_input_gates c W) Hao Hfull) as Hsound.
      split; [apply tt_fold_nodup; exact I1|].
      intros l Hl. destruct (I2 l Hl) as [_ HF]. pose proof (Hall l Hl) as Hm.
      apply dmem_true_get in Hm. destruct Hm as [v Hv].
      assert (E : dget (fold_left tt_step full acc) l = Some (tt_of acc l ++ [v])) by (rewrite tt_fold_get, Hv by exact Hndf; reflexivity).
      split; [intros _; rewrite E; discriminate|].
      unfold tt_of at 1. rewrite E. apply Forall2_app; [exact HF|]. constructor; [|constructor].
      exists a. split; [exact Ha|apply Hsound; exact Hv].
    - split; [constructor|]. intros l _. split; [intros E; contradiction|constructor]. }
  destruct I as [I1 I2]. split; [exact I1|]. intros l Hl. destruct (I2 l Hl) as [Hs HF].
  specialize (Hs (all_bool_vectors_nonempty _)). unfold tt_of in HF.
  destruct (dget gtt l) as [vs|]; [|contradiction]. exists vs. auto.
Qed.
