(* T12: sat/miter.py build_miter and generation.py generate_pairwise_xor / add_pairwise_xor / _generate_labels,
   regenerated from the source (Generated/MiterGen.v) = the hand model Model/Miter.v.

   The regenerated build_miter calls the regenerated Circuit methods (Generated/CircuitCore.v, CircuitAlgos.v); their
   equality with the model (Proofs/CircuitCoreGen.v, CircuitAlgosGen3.v) needs, for a connection, that the gate map of
   the attached circuit has no repeated key (part of WF): hence the side conditions on the two operands.  The third
   attached circuit, the pairwise xor, has the property by construction. *)
Require Import Cirbo.Model.Base Cirbo.Model.Gate Cirbo.Model.Circuit Cirbo.Model.Traverse Cirbo.Model.Connect
        Cirbo.Model.WF Cirbo.Model.Miter.
Require Import Cirbo.Generated.CircuitCore Cirbo.Generated.CircuitAlgos Cirbo.Generated.MiterGen.
Require Import Cirbo.Proofs.DictFacts Cirbo.Proofs.CircuitCoreGen Cirbo.Proofs.CircuitAlgosGen
        Cirbo.Proofs.CircuitAlgosGen3 Cirbo.Proofs.CircuitAlgosGen6 Cirbo.Proofs.SemMiterXor.
From Coq Require Import ZArith Lia.

(* ---------------------------------------------------------------- _generate_labels *)
Lemma py_str_nat_eq n : py_str_nat n = nat_str n.
Proof. reflexivity. Qed.

Lemma string_app_assoc (a b c : string) : ((a ++ b) ++ c)%string = (a ++ (b ++ c))%string.
Proof. induction a as [|ch a IH]; simpl; [reflexivity|]. rewrite IH. reflexivity. Qed.

Lemma gen__generate_labels_eq p z : gen__generate_labels p z = generate_labels p (Z.to_nat z).
Proof.
  unfold gen__generate_labels, generate_labels. apply map_ext. intros i.
  rewrite string_app_assoc. reflexivity.
Qed.

(* ---------------------------------------------------------------- add_pairwise_xor *)
Lemma nth_res_cons_S {A} (a : A) l i : nth_res (a :: l) (S i) = nth_res l i.
Proof. reflexivity. Qed.

(* `for i in range(n)` reading three lists of length n by index = one pass over the zipped lists *)
Lemma foldM_seq_zip3 {C} (F : C -> label -> label -> label -> res C) : forall xs ys rs c,
  length ys = length xs -> length rs = length xs ->
  foldM (fun c i => do r <- nth_res rs i; do x <- nth_res xs i; do y <- nth_res ys i; F c x y r)
        (seq 0 (length xs)) c
  = foldM (fun c (t : label * label * label) => let '(x, y, r) := t in F c x y r) (zip3 xs ys rs) c.
Proof.
  induction xs as [|x xs IH]; intros [|y ys] [|r rs] c Hy Hr; try discriminate; [reflexivity|].
  cbn [length seq foldM zip3]. cbn [nth_res nth_error bind].
  apply bind_ext. intros c'.
  rewrite <- seq_shift, <- foldM_map.
  rewrite <- (IH ys rs c'); [|simpl in Hy; lia|simpl in Hr; lia].
  apply foldM_ext. intros s i. rewrite !nth_res_cons_S. reflexivity.
Qed.

Lemma gen_add_pairwise_xor_eq c xs ys rs :
  length ys = length xs -> length rs = length xs ->
  gen_add_pairwise_xor c xs ys rs true
  = do c' <- foldM (fun c (t : label * label * label) =>
                      let '(x, y, r) := t in
                      do c' <- add_gate c r XOR [x; y];
                      mark_as_output c' r) (zip3 xs ys rs) c;
    Ok (c', rs).
Proof.
  intros Hy Hr. unfold gen_add_pairwise_xor.
  rewrite Hy, Hr, !Nat.eqb_refl. cbn [negb]. cbv zeta.
  apply bind_congr; [|reflexivity].
  rewrite <- (foldM_seq_zip3 (fun c x y r => do c' <- add_gate c r XOR [x; y]; mark_as_output c' r)
                             xs ys rs c Hy Hr).
  apply foldM_ext. intros s i.
  destruct (nth_res rs i) as [r|e] eqn:Er; cbn [bind]; [|reflexivity].
  destruct (nth_res xs i) as [x|e]; cbn [bind]; [|reflexivity].
  destruct (nth_res ys i) as [y|e]; cbn [bind]; [|reflexivity].
  rewrite gen_add_gate_eq. cbn [gtyp gops].
  destruct (add_gate s r XOR [x; y]) as [s'|e]; cbn [bind]; [|reflexivity].
  rewrite gen_mark_as_output_eq, bind_ret. reflexivity.
Qed.

(* ---------------------------------------------------------------- generate_pairwise_xor *)
Lemma gen_generate_pairwise_xor_eq z : gen_generate_pairwise_xor z = generate_pairwise_xor (Z.to_nat z).
Proof.
  unfold gen_generate_pairwise_xor, generate_pairwise_xor. cbv zeta.
  rewrite !gen__generate_labels_eq, gen_add_inputs_eq.
  apply bind_ext. intros c1. rewrite gen_add_inputs_eq. apply bind_ext. intros c2.
  rewrite gen_add_pairwise_xor_eq by (rewrite !generate_labels_length; reflexivity).
  rewrite bind_assoc. cbn [bind]. apply bind_ret.
Qed.

Lemma gen_generate_pairwise_xor_nat n : gen_generate_pairwise_xor (Z.of_nat n) = generate_pairwise_xor n.
Proof. rewrite gen_generate_pairwise_xor_eq, Nat2Z.id. reflexivity. Qed.

(* ---------------------------------------------------------------- build_miter *)
Lemma gen_output_size_eq c : gen_output_size c = length (outputs c).
Proof. reflexivity. Qed.

Theorem gen_build_miter_eq l r ln rn :
  NoDup (dkeys (gates l)) -> NoDup (dkeys (gates r)) ->
  gen_build_miter size_fuel size_fuel size_fuel l r ln rn = build_miter l r ln rn.
Proof.
  intros Hl Hr. unfold gen_build_miter, build_miter, gen_input_size, gen_output_size.
  destruct (negb (Nat.eqb (length (inputs l)) (length (inputs r)))
            || negb (Nat.eqb (length (outputs l)) (length (outputs r)))); [reflexivity|].
  cbv zeta. rewrite (gen_add_circuit_eq _ _ _ _ Hl).
  apply bind_ext. intros m1. rewrite gen_get_block_eq.
  apply bind_ext. intros bl. rewrite (gen_connect_circuit_eq _ _ _ _ _ _ _ Hr).
  apply bind_ext. intros m2. rewrite gen_generate_pairwise_xor_nat.
  apply bind_congr; [reflexivity|]. intros px Hpx.
  rewrite !gen_get_block_eq.
  apply bind_ext. intros bl2. apply bind_ext. intros br2.
  rewrite gen_connect_circuit_eq by (apply wf_gkeys, (px_wf _ _ _ _ _ (generate_pairwise_xor_spec_labels _ _ Hpx))).
  apply bind_ext. intros m3. rewrite gen_get_block_eq.
  apply bind_ext. intros bx.
  rewrite gen_emplace_gate_eq.
  apply bind_ext. intros m4. rewrite gen_set_outputs_eq. apply bind_ret.
Qed.

Corollary gen_build_miter_eq_wf l r ln rn :
  WF l -> WF r -> gen_build_miter size_fuel size_fuel size_fuel l r ln rn = build_miter l r ln rn.
Proof. intros Wl Wr. apply gen_build_miter_eq; apply wf_gkeys; assumption. Qed.

(* the call with every default: the block names of the source are the ones the totality theorem and the
   correspondence check use *)
Theorem gen_build_miter_defaults_eq l r :
  NoDup (dkeys (gates l)) -> NoDup (dkeys (gates r)) ->
  gen_build_miter_defaults size_fuel size_fuel size_fuel l r = build_miter l r "circuit1" "circuit2".
Proof. intros Hl Hr. unfold gen_build_miter_defaults. apply gen_build_miter_eq; assumption. Qed.

(* ---------------------------------------------------------------- summary (Properties/C13.v) *)
Theorem miter_regenerated :
  (forall l r ln rn, NoDup (dkeys (gates l)) -> NoDup (dkeys (gates r)) ->
     gen_build_miter size_fuel size_fuel size_fuel l r ln rn = build_miter l r ln rn) /\
  (forall l r ln rn, WF l -> WF r ->
     gen_build_miter size_fuel size_fuel size_fuel l r ln rn = build_miter l r ln rn) /\
  (forall l r, NoDup (dkeys (gates l)) -> NoDup (dkeys (gates r)) ->
     gen_build_miter_defaults size_fuel size_fuel size_fuel l r = build_miter l r "circuit1" "circuit2") /\
  (forall z, gen_generate_pairwise_xor z = generate_pairwise_xor (Z.to_nat z)) /\
  (forall n, gen_generate_pairwise_xor (Z.of_nat n) = generate_pairwise_xor n) /\
  (forall p z, gen__generate_labels p z = generate_labels p (Z.to_nat z)).
Proof.
  split; [exact gen_build_miter_eq|]. split; [exact gen_build_miter_eq_wf|].
  split; [exact gen_build_miter_defaults_eq|]. split; [exact gen_generate_pairwise_xor_eq|].
  split; [exact gen_generate_pairwise_xor_nat|exact gen__generate_labels_eq].
Qed.
