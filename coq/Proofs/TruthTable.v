(* C01 (b): all_bool_vectors enumerates the 2^n Boolean vectors in big-endian index order;
   get_truth_table and get_gates_truth_table tabulate the semantics Eval in that order. *)
Require Import Cirbo.Model.Base Cirbo.Model.Gate Cirbo.Model.Den Cirbo.Model.Circuit
        Cirbo.Model.Traverse Cirbo.Model.Eval Cirbo.Model.Sem Cirbo.Model.WF.
Require Import Cirbo.Generated.Operators Cirbo.Generated.GateTypes.
Require Import Cirbo.Proofs.DictFacts Cirbo.Proofs.OpFacts Cirbo.Proofs.SemFacts
        Cirbo.Proofs.EvalFacts Cirbo.Proofs.TopSortWF Cirbo.Proofs.WFBase
        Cirbo.Proofs.EvalComplete Cirbo.Proofs.EvalStack Cirbo.Proofs.EvalEntry.

(* ---------------- all_bool_vectors ---------------- *)
(* value of a bit vector read most significant bit first *)
Fixpoint val_be (bs : list bool) : nat :=
  match bs with [] => 0 | b :: r => Nat.b2n b * 2 ^ length r + val_be r end.

(* the same number by Horner's rule from the left *)
Lemma val_be_horner bs : val_be bs = fold_left (fun acc b => 2 * acc + Nat.b2n b) bs 0.
Proof.
  assert (H : forall bs acc, fold_left (fun acc b => 2 * acc + Nat.b2n b) bs acc
                             = acc * 2 ^ length bs + val_be bs).
  { induction bs0 as [|b r IH]; intros acc; simpl; [lia|]. rewrite IH. destruct b; simpl; lia. }
  rewrite H. lia.
Qed.

Lemma val_be_lt bs : val_be bs < 2 ^ length bs.
Proof. induction bs as [|b r IH]; simpl; [lia|]. destruct b; simpl; lia. Qed.

Lemma abv_length n : length (all_bool_vectors n) = 2 ^ n.
Proof. induction n as [|n IH]; simpl; [reflexivity|]. rewrite app_length, !map_length, IH. lia. Qed.

Lemma abv_In_length n bs : In bs (all_bool_vectors n) -> length bs = n.
Proof.
  revert bs; induction n as [|n IH]; intros bs; simpl.
  - intros [<-|[]]; reflexivity.
  - intros H. apply in_app_or in H. destruct H as [H|H]; apply in_map_iff in H;
      destruct H as (r & <- & Hr); simpl; rewrite (IH r Hr); reflexivity.
Qed.

(* the i-th vector is the n-bit binary expansion of i, most significant bit first *)
Theorem abv_nth n : forall i bs, nth_error (all_bool_vectors n) i = Some bs ->
  length bs = n /\ val_be bs = i.
Proof.
  induction n as [|n IH]; intros i bs H.
  - destruct i as [|[|i]]; simpl in H; try discriminate. injection H as <-. split; reflexivity.
  - simpl in H. destruct (Nat.lt_ge_cases i (2 ^ n)) as [Hlt|Hge].
    + rewrite nth_error_app1 in H by (rewrite map_length, abv_length; exact Hlt).
      rewrite nth_error_map in H. destruct (nth_error (all_bool_vectors n) i) as [r|] eqn:E; [|discriminate].
      injection H as <-. destruct (IH i r E) as [H1 H2]. simpl. split; [lia|lia].
    + rewrite nth_error_app2 in H by (rewrite map_length, abv_length; exact Hge).
      rewrite map_length, abv_length, nth_error_map in H.
      destruct (nth_error (all_bool_vectors n) (i - 2 ^ n)) as [r|] eqn:E; [|discriminate].
      injection H as <-. destruct (IH _ r E) as [H1 H2]. simpl. rewrite H1. split; lia.
Qed.

(* every n-bit vector is listed, at the index it denotes *)
Theorem abv_complete bs : nth_error (all_bool_vectors (length bs)) (val_be bs) = Some bs.
Proof.
  induction bs as [|b r IH]; [reflexivity|]. simpl. pose proof (val_be_lt r) as Hlt. destruct b; simpl.
  - rewrite nth_error_app2 by (rewrite map_length, abv_length; lia).
    rewrite map_length, abv_length.
    replace (2 ^ length r + 0 + val_be r - 2 ^ length r) with (val_be r) by lia.
    rewrite nth_error_map, IH. reflexivity.
  - rewrite nth_error_app1 by (rewrite map_length, abv_length; lia).
    rewrite nth_error_map, IH. reflexivity.
Qed.

(* bit j (from the left) of the i-th vector is binary digit n-1-j of i *)
Lemma val_be_testbit bs : forall j, j < length bs ->
  Nat.testbit (val_be bs) (length bs - 1 - j) = nth j bs false.
Proof.
  induction bs as [|b r IH]; intros j Hj; simpl in Hj; [lia|].
  pose proof (val_be_lt r) as Hlt. simpl val_be.
  assert (Hpow : 2 ^ length r <> 0) by (apply Nat.pow_nonzero; lia).
  destruct j as [|j]; simpl nth; simpl length.
  - replace (S (length r) - 1 - 0) with (0 + length r) by lia.
    rewrite <- Nat.div_pow2_bits.
    replace (Nat.b2n b * 2 ^ length r + val_be r) with (val_be r + Nat.b2n b * 2 ^ length r) by lia.
    rewrite Nat.div_add by exact Hpow. rewrite Nat.div_small by exact Hlt. simpl. apply Nat.b2n_bit0.
  - replace (S (length r) - 1 - S j) with (length r - 1 - j) by lia.
    rewrite <- (IH j) by lia.
    rewrite <- (Nat.mod_pow2_bits_low (Nat.b2n b * 2 ^ length r + val_be r) (length r)) by lia.
    replace (Nat.b2n b * 2 ^ length r + val_be r) with (val_be r + Nat.b2n b * 2 ^ length r) by lia.
    rewrite Nat.mod_add by exact Hpow. rewrite Nat.mod_small by exact Hlt. reflexivity.
Qed.

Corollary abv_nth_testbit n i bs j : nth_error (all_bool_vectors n) i = Some bs -> j < n ->
  nth j bs false = Nat.testbit i (n - 1 - j).
Proof.
  intros H Hj. destruct (abv_nth n i bs H) as [H1 H2]. subst n i. symmetry. apply val_be_testbit; exact Hj.
Qed.

(* ---------------- get_truth_table ---------------- *)
Lemma Forall2_nth_error_l {A B} (P : A -> B -> Prop) l m : Forall2 P l m ->
  forall i x, nth_error l i = Some x -> exists y, nth_error m i = Some y /\ P x y.
Proof.
  induction 1 as [|x y l m Hxy _ IH]; intros i z Hi; [destruct i; discriminate|].
  destruct i as [|i]; simpl in *; [injection Hi as <-; eauto|apply IH; exact Hi].
Qed.

(* the assignment under the i-th Boolean vector *)
Definition bool_assignment (c : circuit) (x : list bool) : assignment := vec_assignment c (map inj x).

Theorem get_truth_table_complete c : WF c -> arity_ok c ->
  exists tt, get_truth_table c = Ok tt /\ length tt = length (outputs c) /\
    forall j o i x, nth_error (outputs c) j = Some o ->
      nth_error (all_bool_vectors (length (inputs c))) i = Some x ->
      exists row v, nth_error tt j = Some row /\ length row = 2 ^ length (inputs c) /\
                    nth_error row i = Some v /\ Eval c (bool_assignment c x) o v.
Proof.
  intros Hwf Har. unfold get_truth_table.
  destruct (mapM_ok_ex (fun x => evaluate c (map inj x))
              (fun x r => Forall2 (Eval c (bool_assignment c x)) (outputs c) r)
              (all_bool_vectors (length (inputs c)))) as (rows & Hrows & HF).
  { intros x Hx. apply evaluate_complete; try assumption.
    rewrite map_length, (abv_In_length _ _ Hx). lia. }
  rewrite Hrows. simpl. eexists. split; [reflexivity|]. split; [rewrite map_length, seq_length; reflexivity|].
  intros j o i x Hj Hi.
  destruct (Forall2_nth_error_l _ _ _ HF i x Hi) as (r & Hr & Hfr).
  destruct (Forall2_nth_error_l _ _ _ Hfr j o Hj) as (v & Hv & He).
  exists (map (fun r => nth j r U) rows), v.
  assert (Hjl : j < length (outputs c)) by (apply nth_error_Some; congruence).
  split.
  - rewrite nth_error_map. rewrite nth_error_nth' with (d := 0) by (rewrite seq_length; exact Hjl).
    rewrite seq_nth by exact Hjl. reflexivity.
  - split; [rewrite map_length, <- (Forall2_length_eq _ _ _ HF), abv_length; reflexivity|].
    split; [|exact He]. rewrite nth_error_map, Hr. simpl. f_equal. apply nth_error_nth. exact Hv.
Qed.

(* ---------------- get_gates_truth_table ---------------- *)
Definition col_step (acc : dict (list st)) (kv : label * st) : dict (list st) :=
  match dget acc (fst kv) with
  | Some l => dset acc (fst kv) (l ++ [snd kv])
  | None => dset acc (fst kv) [snd kv]
  end.

Definition colof (acc : dict (list st)) (l : label) : list st :=
  match dget acc l with Some x => x | None => [] end.

Lemma col_fold (full : assignment) : forall acc, NoDup (dkeys full) ->
  forall l,
    colof (fold_left col_step full acc) l =
      colof acc l ++ (match dget full l with Some v => [v] | None => [] end)
    /\ dmem (fold_left col_step full acc) l = dmem acc l || dmem full l.
Proof.
  induction full as [|[k v] full IH]; intros acc Hnd l; simpl.
  - rewrite app_nil_r. unfold dmem. simpl. destruct (dget acc l); split; reflexivity.
  - inversion Hnd as [|? ? Hnk Hnd']; subst. destruct (IH (col_step acc (k, v)) Hnd' l) as [H1 H2].
    rewrite H1, H2. unfold col_step, colof, dmem. simpl.
    destruct (leqb_spec l k) as [->|Hne].
    + assert (dget full k = None) as -> by (apply dget_None_keys; exact Hnk).
      destruct (dget acc k) as [x|]; rewrite dget_dset_same; rewrite ?app_nil_r; split; reflexivity.
    + destruct (dget acc k) as [x|]; rewrite dget_dset_other by exact Hne; split; reflexivity.
Qed.

Lemma NoDup_dkeys_dsetdefault {V} (d : dict V) k v : NoDup (dkeys d) -> NoDup (dkeys (dsetdefault d k v)).
Proof.
  intros H. unfold dsetdefault. destruct (dmem d k) eqn:E; [exact H|].
  rewrite <- dset_new by exact E. apply NoDup_dkeys_dset; exact H.
Qed.

Lemma NoDup_dkeys_combine {V} ins (vals : list V) : NoDup ins -> NoDup (dkeys (combine ins vals)).
Proof.
  revert vals; induction ins as [|x ins IH]; intros vals H; [constructor|].
  destruct vals as [|v vals]; [constructor|]. inversion H; subst. simpl. constructor; [|apply IH; assumption].
  intros Hin. unfold dkeys in Hin. apply in_map_iff in Hin. destruct Hin as ([k w] & <- & Hkw).
  apply in_combine_l in Hkw. contradiction.
Qed.

Lemma evaluate_full_circuit_nodup c a d :
  NoDup (dkeys a) -> evaluate_full_circuit c a = Ok d -> NoDup (dkeys d).
Proof.
  intros Ha. unfold evaluate_full_circuit.
  destruct (top_sort true c) as [order|]; simpl; [|discriminate].
  apply (foldM_ok_inv _ (fun d => NoDup (dkeys d))).
  - intros d0 l d1 _ Hd. destruct (get_gate c l) as [g|]; simpl; [|discriminate].
    destruct (gtype_beq (gtyp g) INPUT); [intros [= <-]; exact Hd|].
    destruct (eval_gate d0 g) as [v|]; simpl; [|discriminate]. intros [= <-].
    apply NoDup_dkeys_dset; exact Hd.
  - unfold init_assignment. apply fold_left_inv; [|exact Ha].
    intros s x _ Hs. apply NoDup_dkeys_dsetdefault; exact Hs.
Qed.

Definition ggtt_step (c : circuit) (acc : dict (list st)) (x : list bool) : res (dict (list st)) :=
  do a <- zip_inputs (inputs c) (map inj x) [];
  do full <- evaluate_full_circuit c a;
  Ok (fold_left col_step full acc).

Lemma ggtt_loop c : WF c -> arity_ok c ->
  forall xs done acc,
    (forall x, In x xs -> length x = length (inputs c)) ->
    (forall l, has_gate c l = true ->
               Forall2 (fun x v => Eval c (bool_assignment c x) l v) done (colof acc l)) ->
    (forall l, dmem acc l = true -> has_gate c l = true) ->
    exists r, foldM (ggtt_step c) xs acc = Ok r /\
      (forall l, has_gate c l = true ->
                 Forall2 (fun x v => Eval c (bool_assignment c x) l v) (done ++ xs) (colof r l)) /\
      (forall l, dmem r l = true -> has_gate c l = true).
Proof.
  intros Hwf Har. induction xs as [|x xs IH]; intros done acc Hlen Hcols Hkeys; simpl.
  - exists acc. rewrite app_nil_r. auto.
  - assert (Hx : length (inputs c) <= length (map inj x))
      by (rewrite map_length, (Hlen x (or_introl eq_refl)); lia).
    unfold ggtt_step at 1. rewrite (zip_inputs_wf c _ Hwf Hx). simpl.
    fold (bool_assignment c x).
    pose proof (vec_assignment_inputs_only c (map inj x)) as Ha. fold (bool_assignment c x) in Ha.
    destruct (evaluate_full_circuit_exact c _ Hwf Har Ha) as (full & Hfull & Hex).
    rewrite Hfull. simpl.
    assert (Hnd : NoDup (dkeys full)).
    { eapply evaluate_full_circuit_nodup; [|exact Hfull]. apply NoDup_dkeys_combine, (wf_inputs_nodup c Hwf). }
    destruct (IH (done ++ [x]) (fold_left col_step full acc)) as (r & Hr & H1 & H2).
    + intros y Hy. apply Hlen. right. exact Hy.
    + intros l Hl. destruct (col_fold full acc Hnd l) as [-> _].
      apply Forall2_app; [apply Hcols; exact Hl|].
      destruct (evaluate_full_circuit_complete c _ Hwf Har Ha) as (full' & Hfull' & Hall).
      assert (full' = full) by congruence. subst full'.
      destruct (Hall l Hl) as (v & Hv & He). rewrite Hv. constructor; [exact He|constructor].
    + intros l. destruct (col_fold full acc Hnd l) as [_ ->]. intros H.
      apply orb_true_iff in H. destruct H as [H|H]; [apply Hkeys; exact H|].
      unfold dmem in H. destruct (dget full l) as [v|] eqn:E; [|discriminate]. apply (Hex l v). exact E.
    + exists r. split; [exact Hr|]. split; [|exact H2]. intros l Hl. rewrite <- app_assoc in H1. apply H1; exact Hl.
Qed.

(* column of gate l = its Eval values under all Boolean vectors in big-endian order; the keys
   are exactly the gates *)
Theorem get_gates_truth_table_complete c : WF c -> arity_ok c ->
  exists t, get_gates_truth_table c = Ok t /\
    (forall l, has_gate c l = true ->
       exists col, dget t l = Some col /\
         Forall2 (fun x v => Eval c (bool_assignment c x) l v)
                 (all_bool_vectors (length (inputs c))) col) /\
    (forall l, dmem t l = true -> has_gate c l = true).
Proof.
  intros Hwf Har.
  destruct (ggtt_loop c Hwf Har (all_bool_vectors (length (inputs c))) [] []) as (r & Hr & H1 & H2).
  - intros x Hx. apply abv_In_length; exact Hx.
  - intros l _. constructor.
  - intros l H; discriminate.
  - exists r. split; [exact Hr|]. split; [|exact H2]. intros l Hl. specialize (H1 l Hl). simpl in H1.
    unfold colof in H1. destruct (dget r l) as [col|]; [eauto|].
    exfalso. apply Forall2_length_eq in H1. rewrite abv_length in H1. simpl in H1.
    pose proof (Nat.pow_nonzero 2 (length (inputs c))). lia.
Qed.
