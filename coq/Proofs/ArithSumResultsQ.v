(* C07: where the RESULT labels of add_sum_n_bits come from.

   Let Q be any property of labels that every uuid label has (forall k, Q (fresh k)).  Every
   output of a cell is a freshly created gate, hence has Q; a bit counter on at least two
   operands returns cell outputs only, so all its result labels have Q -- whatever the operand
   labels are.  Used with Q l := (l <> "") for add_sum_pow2_m1, whose `filter(None, .)` drops the
   empty label: the first bits of the blocks survive the filter as soon as the naming function
   never yields "". *)
Require Import Cirbo.Model.Base Cirbo.Model.Gate Cirbo.Model.Circuit Cirbo.Model.Builder.
Require Import Cirbo.Generated.ArithTables Cirbo.Generated.ArithCells.
Require Import Cirbo.Model.ArithSub Cirbo.Model.ArithSum2 Cirbo.Model.ArithSumN.
Require Import Cirbo.Proofs.DictFacts Cirbo.Proofs.BuilderFacts Cirbo.Proofs.ArithFacts
  Cirbo.Proofs.ArithSumCells Cirbo.Proofs.ArithSumMinted.

Section ResultsQ.
  Variable fresh : N -> label.
  Variable Q : label -> Prop.
  Hypothesis HQ : forall k, Q (fresh k).

  Lemma gate_tt_Q t x y s l s' : run fresh (gate_tt t x y) s = Ok (l, s') -> Q l.
  Proof.
    unfold gate_tt, gate_new. intros H. apply run_bind_inv in H as (l0 & s1 & H1 & H).
    apply run_bind_inv in H as (u & s2 & _ & H). apply run_ret_inv in H as (<- & _).
    cbn [run] in H1.
    destruct (fresh_loop fresh (bc s) [] (fresh_fuel (bc s) []) (bk s)) as [[l1 k1]|] eqn:E; [|discriminate].
    cbn [bind fst snd] in H1. injection H1 as <- _.
    destruct (fresh_loop_range _ _ _ _ _ _ _ E) as (j & ->). apply HQ.
  Qed.

  Definition cellQ (cell : list label -> prog (list label)) : Prop :=
    forall l s r s', run fresh (cell l) s = Ok (r, s') -> Forall Q r.

  Ltac cell_steps H :=
    repeat (let g := fresh "g" in let s1 := fresh "s" in let Hg := fresh "Hg" in
            apply run_bind_inv in H as (g & s1 & Hg & H); apply gate_tt_Q in Hg);
    apply run_ret_inv in H as (-> & _); repeat constructor; assumption.

  Lemma add_sum2_Q : cellQ add_sum2.
  Proof. intros l s r s' H. unfold add_sum2 in H. destruct l as [|? [|? [|? ?]]]; try discriminate. cell_steps H. Qed.
  Lemma add_sum3_Q : cellQ add_sum3.
  Proof. intros l s r s' H. unfold add_sum3 in H. destruct l as [|? [|? [|? [|? ?]]]]; try discriminate. cell_steps H. Qed.
  Lemma add_sum2_aig_Q : cellQ add_sum2_aig.
  Proof. intros l s r s' H. unfold add_sum2_aig in H. destruct l as [|? [|? [|? ?]]]; try discriminate. cell_steps H. Qed.
  Lemma add_sum3_aig_Q : cellQ add_sum3_aig.
  Proof. intros l s r s' H. unfold add_sum3_aig in H. destruct l as [|? [|? [|? [|? ?]]]]; try discriminate. cell_steps H. Qed.
  Lemma add_stockmeyer_block_Q : cellQ add_stockmeyer_block.
  Proof.
    intros l s r s' H. unfold add_stockmeyer_block in H. destruct l as [|? [|? [|? [|? ?]]]]; try discriminate. cell_steps H.
  Qed.
  Lemma add_mdfa_Q : cellQ add_mdfa.
  Proof.
    intros l s r s' H. unfold add_mdfa in H. destruct l as [|? [|? [|? [|? [|? [|? ?]]]]]]; try discriminate. cell_steps H.
  Qed.
  Lemma add_simplified_mdfa_Q : cellQ add_simplified_mdfa.
  Proof.
    intros l s r s' H. unfold add_simplified_mdfa in H. destruct l as [|? [|? [|? [|? [|? ?]]]]]; try discriminate.
    cell_steps H.
  Qed.

  (* the head of a level stack is fine when it will go through a cell or already has Q *)
  Definition okhead (solo : list label) : Prop :=
    match solo with [] => True | top :: rest => rest <> [] \/ Q top end.

  Lemma Forall_okhead l : Forall Q l -> okhead l.
  Proof. destruct 1; simpl; auto. Qed.

  Lemma solo_loop_Q cell3 cell2 : cellQ cell3 -> cellQ cell2 ->
    forall rest top next s r s', run fresh (solo_loop cell3 cell2 top rest next) s = Ok (r, s') ->
      (okhead (top :: rest) -> Q (fst r)) /\ (Forall Q next -> Forall Q (snd r)).
  Proof.
    intros C3 C2. induction rest as [|b|b c rest IH] using list_ind2; intros top next s r s' H; cbn [solo_loop] in H.
    - apply run_ret_inv in H as (-> & _). cbn [fst snd okhead]. split; [intros [Hc|Hq]; [contradiction|exact Hq]|auto].
    - apply run_bind_inv in H as (r1 & s1 & H1 & H). apply run_bind_inv in H as (xy & s2 & H2 & H).
      apply run_ret_inv in H as (-> & _). apply unpack2_inv in H2 as (-> & _). apply C2 in H1.
      inversion H1 as [|? ? Hx H1']; subst. inversion H1' as [|? ? Hy _]; subst. cbn [fst snd].
      split; [intros _; exact Hx|intros Hn; constructor; assumption].
    - apply run_bind_inv in H as (r1 & s1 & H1 & H). apply run_bind_inv in H as (xy & s2 & H2 & H).
      apply unpack2_inv in H2 as (-> & _). apply C3 in H1.
      inversion H1 as [|? ? Hx H1']; subst. inversion H1' as [|? ? Hy _]; subst.
      apply IH in H as (Ha & Hb). split.
      + intros _. apply Ha. destruct rest; simpl; [right; exact Hx|left; discriminate].
      + intros Hn. apply Hb. constructor; assumption.
  Qed.

  Lemma level_loop_Q cell3 cell2 : cellQ cell3 -> cellQ cell2 ->
    forall fuel now s r s', run fresh (level_loop fuel cell3 cell2 now) s = Ok (r, s') ->
      okhead now -> Forall Q r.
  Proof.
    intros C3 C2. induction fuel as [|f IH]; intros [|top rest] s r s' H Hok; cbn [level_loop] in H;
      try (apply run_ret_inv in H as (-> & _); constructor); try discriminate.
    apply run_bind_inv in H as (r1 & s1 & H1 & H). apply run_bind_inv in H as (rs & s2 & H2 & H).
    apply run_ret_inv in H as (-> & _).
    apply (solo_loop_Q _ _ C3 C2) in H1 as (Ha & Hb).
    constructor; [apply Ha, Hok|]. eapply IH; [exact H2|]. apply Forall_okhead, Hb. constructor.
  Qed.

  Definition sndQ (p : label * label) : Prop := Q (snd p).
  Definition bothQ (p : label * label) : Prop := Q (fst p) /\ Q (snd p).

  Lemma bothQ_sndQ l : Forall bothQ l -> Forall sndQ l.
  Proof. apply Forall_impl. intros p (_ & H). exact H. Qed.

  Lemma pair_up_Q solo : forall xxy s r s', run fresh (pair_up solo xxy) s = Ok (r, s') ->
    (Forall sndQ xxy -> Forall sndQ (snd r)) /\ ((2 <= length solo)%nat \/ xxy <> [] -> snd r <> []).
  Proof.
    induction solo as [|a|a b rest IH] using list_ind2; intros xxy s r s' H; cbn [pair_up] in H.
    - apply run_ret_inv in H as (-> & _). cbn [snd length]. split; [auto|intros [Hc|Hc]; [lia|exact Hc]].
    - apply run_ret_inv in H as (-> & _). cbn [snd length]. split; [auto|intros [Hc|Hc]; [lia|exact Hc]].
    - apply run_bind_inv in H as (xy & s1 & H1 & H). apply gate_tt_Q in H1.
      apply IH in H as (Ha & Hb). split.
      + intros Hx. apply Ha. constructor; [exact H1|exact Hx].
      + intros _. apply Hb. right. discriminate.
  Qed.

  Lemma mdfa_loop_Q xxy : forall solo nx s r s', run fresh (mdfa_loop xxy solo nx) s = Ok (r, s') ->
    (length (fst (fst r)) <= 1)%nat /\
    (Forall sndQ xxy -> Forall sndQ (fst (fst r))) /\
    (Forall bothQ nx -> Forall bothQ (snd r)) /\
    (xxy <> [] \/ okhead solo -> fst (fst r) <> [] \/ okhead (snd (fst r))).
  Proof.
    induction xxy as [|[x xy]|[x1 xy1] [x2 xy2] rest IH] using list_ind2; intros solo nx s r s' H; cbn [mdfa_loop] in H.
    - apply run_ret_inv in H as (-> & _). cbn [fst snd length]. repeat split; auto.
    - apply run_ret_inv in H as (-> & _). cbn [fst snd length]. repeat split; auto.
    - assert (forall z' a b solo1 s1, Q z' -> Q a -> Q b ->
                run fresh (mdfa_loop rest (z' :: solo1) ((a, b) :: nx)) s1 = Ok (r, s') ->
                (length (fst (fst r)) <= 1)%nat /\
                (Forall sndQ ((x1, xy1) :: (x2, xy2) :: rest) -> Forall sndQ (fst (fst r))) /\
                (Forall bothQ nx -> Forall bothQ (snd r)) /\
                ((x1, xy1) :: (x2, xy2) :: rest <> [] \/ okhead solo -> fst (fst r) <> [] \/ okhead (snd (fst r))))
        as Hgen.
      { intros z' a b solo1 s1 Hz Ha Hb H1. apply IH in H1 as (L & P1 & P2 & P3).
        split; [exact L|]. split; [|split].
        - intros Hx. apply P1. inversion Hx as [|? ? _ Hx']; subst. inversion Hx'; subst. assumption.
        - intros Hn. apply P2. constructor; [split; assumption|exact Hn].
        - intros _. apply P3. right. simpl. right. exact Hz. }
      destruct solo as [|z solo'].
      + apply run_bind_inv in H as (r1 & s1 & H1 & H). apply run_bind_inv in H as ([[z' a] b] & s2 & H2 & H).
        apply unpack3_inv in H2 as (-> & ->). cbn [fst snd] in H1. apply add_simplified_mdfa_Q in H1.
        inversion H1 as [|? ? Hz H1']; subst. inversion H1' as [|? ? Ha H1'']; subst. inversion H1'' as [|? ? Hb _]; subst.
        cbv beta iota in H. cbn [fst snd] in H. eapply Hgen; [exact Hz|exact Ha|exact Hb|exact H].
      + apply run_bind_inv in H as (r1 & s1 & H1 & H). apply run_bind_inv in H as ([[z' a] b] & s2 & H2 & H).
        apply unpack3_inv in H2 as (-> & ->). cbn [fst snd] in H1. apply add_mdfa_Q in H1.
        inversion H1 as [|? ? Hz H1']; subst. inversion H1' as [|? ? Ha H1'']; subst. inversion H1'' as [|? ? Hb _]; subst.
        cbv beta iota in H. cbn [fst snd] in H. eapply Hgen; [exact Hz|exact Ha|exact Hb|exact H].
  Qed.

  Lemma last_pair_Q xxy solo s r s' : run fresh (last_pair xxy solo) s = Ok (r, s') ->
    (length xxy <= 1)%nat -> Forall sndQ xxy -> xxy <> [] \/ okhead solo ->
    okhead (fst r) /\ Forall Q (snd r).
  Proof.
    intros H L Hx Hok. unfold last_pair in H. destruct xxy as [|[x xy] [|? ?]]; [| |simpl in L; lia].
    - apply run_ret_inv in H as (-> & _). cbn [fst snd]. split; [|constructor].
      destruct Hok as [Hc|Hc]; [contradiction|exact Hc].
    - inversion Hx as [|? ? Hxy _]; subst. unfold sndQ in Hxy. cbn [snd] in Hxy.
      destruct solo as [|z solo'].
      + apply run_bind_inv in H as (g & s1 & H1 & H). apply run_ret_inv in H as (-> & _). apply gate_tt_Q in H1.
        cbn [fst snd okhead]. split; [right; exact Hxy|constructor; [exact H1|constructor]].
      + apply run_bind_inv in H as (r1 & s1 & H1 & H). apply run_bind_inv in H as (wy & s2 & H2 & H).
        apply run_ret_inv in H as (-> & _). apply unpack2_inv in H2 as (-> & _). apply add_stockmeyer_block_Q in H1.
        inversion H1 as [|? ? H0 H1']; subst. inversion H1' as [|? ? Hw1 _]; subst.
        cbn [fst snd okhead]. split; [right; exact H0|constructor; [exact Hw1|constructor]].
  Qed.

  Lemma xaig_level_Q solo xxy s r s' : run fresh (xaig_level solo xxy) s = Ok (r, s') ->
    Forall sndQ xxy ->
    (xxy <> [] \/ okhead solo -> Q (fst (fst r))) /\ Forall Q (snd (fst r)) /\ Forall bothQ (snd r).
  Proof.
    intros H Hx. unfold xaig_level in H.
    apply run_bind_inv in H as ([[xxy1 solo1] nx1] & s1 & H1 & H).
    apply mdfa_loop_Q in H1 as (L & P1 & P2 & P3). cbn [fst snd] in *.
    apply run_bind_inv in H as ([solo2 ns] & s2 & H2 & H).
    destruct solo2 as [|top rest]; [discriminate|].
    apply run_bind_inv in H as (r1 & s3 & H3 & H). apply run_ret_inv in H as (-> & _). cbn [fst snd].
    apply (solo_loop_Q _ _ add_sum3_Q add_sum2_Q) in H3 as (Ha & Hb).
    assert (xxy <> [] \/ okhead solo -> okhead (top :: rest) /\ Forall Q ns) as Hlp.
    { intros Hok. apply (last_pair_Q _ _ _ _ _ H2 L (P1 Hx) (P3 Hok)). }
    split; [intros Hok; apply Ha, Hlp, Hok|]. split; [|apply P2; constructor].
    apply Hb. clear - H2 Hx P1 L HQ. unfold last_pair in H2.
    destruct xxy1 as [|[x xy] [|? ?]]; [| |simpl in L; lia].
    - apply run_ret_inv in H2 as (Heq & _); apply (f_equal snd) in Heq; cbn [snd] in Heq; subst ns. constructor.
    - destruct solo1 as [|z solo'].
      + apply run_bind_inv in H2 as (g & s3 & H1 & H). apply run_ret_inv in H as (Heq & _); apply (f_equal snd) in Heq; cbn [snd] in Heq; subst ns.
        apply gate_tt_Q in H1. constructor; [exact H1|constructor].
      + apply run_bind_inv in H2 as (r1 & s3 & H1 & H). apply run_bind_inv in H as (wy & s4 & H3 & H).
        apply run_ret_inv in H as (Heq & _); apply (f_equal snd) in Heq; cbn [snd] in Heq; subst ns. apply unpack2_inv in H3 as (-> & _). apply add_stockmeyer_block_Q in H1.
        inversion H1 as [|? ? _ H1']; subst. inversion H1' as [|? ? Hw1 _]; subst. constructor; [exact Hw1|constructor].
  Qed.

  Lemma xaig_loop_Q : forall fuel solo xxy s r s', run fresh (xaig_loop fuel solo xxy) s = Ok (r, s') ->
    Forall sndQ xxy -> xxy <> [] \/ okhead solo -> Forall Q r.
  Proof.
    induction fuel as [|f IH]; intros solo xxy s r s' H Hx Hok.
    - destruct solo, xxy; try discriminate. apply run_ret_inv in H as (-> & _). constructor.
    - assert (Hstep : run fresh (bdo st <- xaig_level solo xxy;
                                 let '(r, next_solo, next_xxy) := st in
                                 bdo rs <- xaig_loop f next_solo next_xxy; Ret (r :: rs)) s = Ok (r, s') ->
                      Forall Q r).
      { clear H. intros H. apply run_bind_inv in H as ([[r0 ns] nx] & s1 & H1 & H).
        apply run_bind_inv in H as (rs & s2 & H2 & H). apply run_ret_inv in H as (-> & _).
        apply xaig_level_Q in H1 as (Ha & Hb & Hc); [|exact Hx]. cbn [fst snd] in *.
        constructor; [apply Ha, Hok|]. eapply IH; [exact H2|apply bothQ_sndQ, Hc|right; apply Forall_okhead, Hb]. }
      destruct solo, xxy; cbn [xaig_loop] in H;
        [apply run_ret_inv in H as (-> & _); constructor|apply Hstep, H..].
  Qed.

  (* a bit counter on at least two operands returns cell outputs only *)
  Theorem add_sum_n_bits_Q basis be xs s r s' :
    run fresh (add_sum_n_bits basis be xs) s = Ok (r, s') -> (2 <= length xs)%nat -> Forall Q r.
  Proof.
    intros H L. unfold add_sum_n_bits in H. apply run_bind_inv in H as (b & s0 & _ & H).
    apply run_bind_inv in H as (r0 & s1 & H1 & H). apply run_ret_inv in H as (-> & _).
    assert (Forall Q r0) as Hr0.
    { assert (2 <= length (rev (rev_if be xs)))%nat as L' by (rewrite rev_length, rev_if_length; exact L).
      destruct b; cbn [add_sum_n_bits_resolved] in H1.
      - unfold add_sum_n_bits_xaig in H1. apply run_bind_inv in H1 as (st & s2 & H2 & H1).
        apply pair_up_Q in H2 as (Ha & Hb).
        eapply xaig_loop_Q; [exact H1|apply Ha; constructor|left; apply Hb; left; exact L'].
      - unfold add_sum_n_bits_aig in H1.
        eapply (level_loop_Q _ _ add_sum3_aig_Q add_sum2_aig_Q); [exact H1|].
        destruct (rev (rev_if be xs)) as [|t [|u w]]; simpl in L'; try lia. simpl. left. discriminate. }
    destruct be; simpl; [apply Forall_rev, Hr0|exact Hr0].
  Qed.
End ResultsQ.
