(* Lookups of CircuitsDatabase (C17): for a database whose stored circuits compute their keys,
   get_by_raw_truth_table returns a circuit computing the requested table, output by output in
   the requested order, or nothing only if the normalised table is not stored. *)
Require Import Cirbo.Model.Base Cirbo.Model.Gate Cirbo.Model.Circuit Cirbo.Model.Eval Cirbo.Model.Sem.
Require Import Cirbo.Model.BitIO Cirbo.Model.DictIO Cirbo.Model.Codec Cirbo.Model.Db.
Require Import Cirbo.Generated.Operators Cirbo.Generated.GateTypes.
Require Import Cirbo.Proofs.DictFacts Cirbo.Proofs.DictIOFacts Cirbo.Proofs.SemFacts Cirbo.Proofs.EvalFacts.
Require Import Cirbo.Proofs.CodecIds Cirbo.Proofs.IsoFacts Cirbo.Proofs.CodecFacts.
Require Import Cirbo.Proofs.DbTruthTableFacts Cirbo.Proofs.NormFacts Cirbo.Proofs.LabelFacts.
From Coq Require Import Permutation.

(* ------------------------------------------------------------------ *)
(* the semantics only reads the gate map *)
Lemma Eval_extend c c' a extras :
  gates c' = gates c ++ extras -> forall l v, Eval c a l v -> Eval c' a l v.
Proof.
  intros Hg l v H. induction H as [l g Hl Ht|l g vs v Hl Ht Hops IH Hop] using Eval_ind2.
  - eapply EvalInput; [|exact Ht]. rewrite Hg, dget_app, Hl. reflexivity.
  - eapply EvalGate; [|exact Ht| |exact Hop]; [rewrite Hg, dget_app, Hl; reflexivity|].
    clear -IH. induction IH; constructor; assumption.
Qed.

Lemma Eval_gates_eq c c' a : gates c' = gates c -> forall l v, Eval c a l v -> Eval c' a l v.
Proof. intros Hg. apply (Eval_extend c c' a []). rewrite app_nil_r; exact Hg. Qed.

Lemma out_computes_extend c c' extras o row :
  gates c' = gates c ++ extras -> inputs c' = inputs c -> out_computes c o row -> out_computes c' o row.
Proof.
  intros Hg Hi. unfold out_computes, input_assignment. rewrite Hi.
  apply Forall2_impl'. intros vec b. apply Eval_extend with (extras := extras). exact Hg.
Qed.

Lemma Eval_not c a g ng b :
  dget (gates c) ng = Some (mkGate NOT [g]) -> Eval c a g (inj b) -> Eval c a ng (inj (negb b)).
Proof.
  intros Hng Hg. eapply EvalGate; [exact Hng|discriminate|simpl; constructor; [exact Hg|constructor]|].
  destruct b; reflexivity.
Qed.

(* ------------------------------------------------------------------ *)
(* list assignment and the loops of denormalize *)
Lemma list_set_spec {A} : forall (l : list A) i x l',
  list_set l i x = Ok l' ->
  length l' = length l /\ nth_error l' i = Some x /\ forall q, q <> i -> nth_error l' q = nth_error l q.
Proof.
  induction l as [|y l IH]; intros i x l'; simpl; [discriminate|].
  destruct i as [|i].
  - intros [= <-]. repeat split. intros [|q] Hq; [congruence|reflexivity].
  - destruct (list_set l i x) as [r|] eqn:E; simpl; [|discriminate]. intros [= <-].
    destruct (IH _ _ _ E) as (H1 & H2 & H3). simpl. repeat split; [lia|exact H2|].
    intros [|q] Hq; [reflexivity|]. simpl. apply H3. lia.
Qed.

Lemma nth_res_ok {A} (l : list A) i x : nth_res l i = Ok x <-> nth_error l i = Some x.
Proof. unfold nth_res. destruct (nth_error l i); split; intros H; try discriminate; congruence. Qed.

Lemma unsort_fold_spec (outs1 : list label) : forall ps k0 acc un,
  foldM (fun (acc : list label) (ks : nat * nat) =>
           do o <- nth_res outs1 (fst ks); list_set acc (snd ks) o) (enumerate_from k0 ps) acc = Ok un ->
  NoDup ps ->
  length un = length acc /\
  (forall i p, nth_error ps i = Some p ->
     nth_error un p = nth_error outs1 (k0 + i) /\ nth_error outs1 (k0 + i) <> None) /\
  (forall q, ~ In q ps -> nth_error un q = nth_error acc q).
Proof.
  induction ps as [|p ps IH]; intros k0 acc un H Hnd; simpl in H.
  - injection H as <-. split; [reflexivity|]. split; [intros [|j] p Hp; discriminate|auto].
  - destruct (nth_res outs1 k0) as [o|] eqn:Eo; simpl in H; [|discriminate].
    destruct (list_set acc p o) as [acc1|] eqn:Es; simpl in H; [|discriminate].
    inversion Hnd as [|? ? Hp Hn]; subst. destruct (IH _ _ _ H Hn) as (H1 & H2 & H3).
    destruct (list_set_spec _ _ _ _ Es) as (L1 & L2 & L3). apply nth_res_ok in Eo.
    split; [lia|]. split.
    + intros [|i] q Hq; simpl in Hq.
      * injection Hq as <-. rewrite Nat.add_0_r, (H3 p Hp), L2, Eo. split; [reflexivity|discriminate].
      * replace (k0 + S i)%nat with (S k0 + i)%nat by lia. apply H2; exact Hq.
    + intros q Hq. rewrite H3 by (intros Hi; apply Hq; right; exact Hi).
      apply L3. intros ->. apply Hq; left; reflexivity.
Qed.

Lemma order_list_loop_spec : forall ordered old acc new oc,
  order_list_loop ordered old acc = Ok (new, oc) -> new = acc ++ ordered.
Proof.
  induction ordered as [|e ordered IH]; intros old acc new oc; simpl.
  - intros [= <- _]. rewrite app_nil_r; reflexivity.
  - destruct (memb e old); [|discriminate]. intros H. apply IH in H. rewrite H, <- app_assoc. reflexivity.
Qed.

Lemma order_list_same_length ordered old l :
  order_list ordered old = Ok l -> length ordered = length old -> l = ordered.
Proof.
  unfold order_list. destruct (order_list_loop ordered old []) as [[new oc]|] eqn:E; simpl; [|discriminate].
  apply order_list_loop_spec in E. simpl in E. subst new. intros H Hlen.
  apply Nat.eqb_eq in Hlen. rewrite Hlen in H. injection H as <-. reflexivity.
Qed.

(* ------------------------------------------------------------------ *)
(* the three steps of denormalize *)
Lemma undo_outputs_deletion_spec ni c c1 :
  undo_outputs_deletion ni c = Ok c1 ->
  gates c1 = gates c /\ inputs c1 = inputs c /\
  Forall2 (fun j o => nth_error (outputs c) j = Some o) (mapping ni) (outputs c1).
Proof.
  unfold undo_outputs_deletion. destruct (mapM _ (mapping ni)) as [outs|] eqn:E; simpl; [|discriminate].
  intros [= <-]. simpl. repeat split. apply mapM_ok_Forall2 in E.
  eapply Forall2_impl'; [|exact E]. intros j o H. apply nth_res_ok; exact H.
Qed.

Lemma unsort_outputs_spec ni c1 c2 :
  unsort_outputs ni c1 = DbOk c2 -> NoDup (permutation ni) ->
  gates c2 = gates c1 /\ inputs c2 = inputs c1 /\ length (outputs c2) = length (outputs c1) /\
  forall k p, nth_error (permutation ni) k = Some p ->
    nth_error (outputs c2) p = nth_error (outputs c1) k /\ nth_error (outputs c1) k <> None.
Proof.
  unfold unsort_outputs. destruct (Nat.eqb_spec (length (permutation ni)) (length (outputs c1))) as [Hlen|]; simpl; [|discriminate].
  destruct (foldM _ (enumerate_from 0 (permutation ni)) _) as [un|] eqn:Ef; simpl; [|discriminate].
  unfold order_outputs. destruct (order_list un (outputs c1)) as [l|] eqn:Eo; simpl; [|discriminate].
  intros [= <-] Hnd. simpl.
  destruct (unsort_fold_spec _ _ _ _ _ Ef Hnd) as (H1 & H2 & _). rewrite map_length in H1.
  apply order_list_same_length in Eo; [|exact H1]. subst l.
  split; [reflexivity|]. split; [reflexivity|]. split; [exact H1|]. intros k p Hk. apply (H2 k p Hk).
Qed.

(* circuits as decode_circuit produces them: every label is gate_<i> *)
Definition generated (c : circuit) : Prop := forall l, dmem (gates c) l = true -> exists i, l = gen_label i.

Definition not_label (o : label) : label := ("not_" ++ o)%string.

Lemma not_label_inj a b : not_label a = not_label b -> a = b.
Proof. unfold not_label. simpl. intros H; injection H; auto. Qed.

Definition not_extras (c0 : circuit) (extras : list (label * gate)) : Prop :=
  Forall (fun lg : label * gate =>
            exists x, dmem (gates c0) x = true /\ fst lg = not_label x /\ snd lg = mkGate NOT [x]) extras.

Lemma not_lookup c0 c extras o :
  generated c0 -> gates c = gates c0 ++ extras -> not_extras c0 extras ->
  dmem (gates c) (not_label o) = true -> dget (gates c) (not_label o) = Some (mkGate NOT [o]).
Proof.
  intros Hgen Hg Hne Hm. unfold dmem in Hm. rewrite Hg, dget_app in *.
  destruct (dget (gates c0) (not_label o)) as [g|] eqn:E0.
  - exfalso. destruct (Hgen (not_label o)) as (i & Hi); [unfold dmem; rewrite E0; reflexivity|].
    symmetry in Hi. apply gen_label_not_not in Hi. exact Hi.
  - destruct (dget extras (not_label o)) as [g|] eqn:E1; [|discriminate]. apply dget_In in E1.
    unfold not_extras in Hne. rewrite Forall_forall in Hne. destruct (Hne _ E1) as (x & _ & Hx & Hs). simpl in Hx, Hs.
    apply not_label_inj in Hx. subst x g. reflexivity.
Qed.

Definition negate_step (st : circuit * list label) (on : label * bool) : res (circuit * list label) :=
  let '(c1, acc) := st in
  if snd on then do r <- negate_gate c1 (fst on); Ok (fst r, acc ++ [snd r])
  else Ok (c1, acc ++ [fst on]).

Lemma negate_fold_spec c0 : forall ons c acc c' acc' extras,
  foldM negate_step ons (c, acc) = Ok (c', acc') ->
  gates c = gates c0 ++ extras -> inputs c = inputs c0 -> not_extras c0 extras ->
  (forall on, In on ons -> dmem (gates c0) (fst on) = true) ->
  exists more outs',
    gates c' = gates c0 ++ extras ++ more /\ inputs c' = inputs c0 /\ not_extras c0 (extras ++ more) /\
    acc' = acc ++ outs' /\
    Forall2 (fun (on : label * bool) o' =>
               if snd on then o' = not_label (fst on) /\ dmem (gates c') o' = true else o' = fst on) ons outs'.
Proof.
  induction ons as [|[o neg] ons IH]; intros c acc c' acc' extras H Hg Hi Hne Hex; simpl in H.
  - injection H as <- <-. exists [], []. rewrite !app_nil_r. repeat split; auto.
  - assert (dmem (gates c0) o = true) as Ho by (apply (Hex (o, neg)); left; reflexivity).
    assert (forall on, In on ons -> dmem (gates c0) (fst on) = true) as Hex' by (intros; apply Hex; right; assumption).
    destruct neg; simpl in H.
    + unfold negate_gate in H. fold (not_label o) in H.
      destruct (has_gate c (not_label o)) eqn:Eh; simpl in H.
      * destruct (IH _ _ _ _ _ H Hg Hi Hne Hex') as (more & outs' & G1 & G2 & G3 & -> & G5).
        exists more, (not_label o :: outs'). rewrite <- app_assoc. repeat split; auto.
        constructor; [|exact G5]. simpl. split; [reflexivity|].
        unfold has_gate in Eh. apply dmem_keys in Eh. apply dmem_keys. rewrite G1. rewrite Hg in Eh.
        unfold dkeys in *. rewrite !map_app in *. apply in_app_or in Eh as [E|E]; apply in_or_app; [left; exact E|right].
        apply in_or_app; left; exact E.
      * destruct (emplace_gate_core c (not_label o) NOT [o] Eh) as (c1 & E1 & Hg1 & Hi1 & _).
        { intros x [<-|[]]. apply dmem_keys. rewrite Hg. unfold dkeys. rewrite map_app. apply in_or_app; left.
          apply dmem_keys in Ho. exact Ho. }
        rewrite E1 in H. simpl in H.
        assert (not_extras c0 (extras ++ [(not_label o, mkGate NOT [o])])) as Hne1.
        { apply Forall_app. split; [exact Hne|]. constructor; [|constructor]. exists o. auto. }
        destruct (IH _ _ _ _ (extras ++ [(not_label o, mkGate NOT [o])]) H) as (more & outs' & G1 & G2 & G3 & -> & G5);
          [rewrite Hg1, Hg, <- app_assoc; reflexivity|simpl in Hi1; congruence|exact Hne1|exact Hex'|].
        exists ((not_label o, mkGate NOT [o]) :: more), (not_label o :: outs').
        rewrite <- !app_assoc in *. simpl in *. repeat split; auto.
        constructor; [|exact G5]. simpl. split; [reflexivity|].
        apply dmem_keys. rewrite G1. unfold dkeys. rewrite !map_app. apply in_or_app; right. apply in_or_app; right.
        left; reflexivity.
    + destruct (IH _ _ _ _ _ H Hg Hi Hne Hex') as (more & outs' & G1 & G2 & G3 & -> & G5).
      exists more, (o :: outs'). rewrite <- app_assoc. repeat split; auto. constructor; [reflexivity|exact G5].
Qed.

(* ------------------------------------------------------------------ *)
(* small facts about Forall2 / combine *)
Lemma Forall2_join {A B C} (P : A -> B -> Prop) (Q : A -> C -> Prop) (R : B -> C -> Prop) l a b :
  Forall2 P l a -> Forall2 Q l b -> (forall x y z, P x y -> Q x z -> R y z) -> Forall2 R a b.
Proof.
  intros HP; revert b; induction HP as [|x y l a Hxy _ IH]; intros b HQ HR; inversion HQ; subst; constructor.
  - eapply HR; eassumption.
  - apply IH; assumption.
Qed.

Lemma Forall2_map_r {A B C} (R : A -> C -> Prop) (f : B -> C) l r :
  Forall2 R l (map f r) <-> Forall2 (fun a b => R a (f b)) l r.
Proof.
  revert l; induction r as [|b r IH]; intros l; simpl.
  - split; intros H; inversion H; constructor.
  - split; intros H; inversion H; subst; constructor; auto; apply IH; assumption.
Qed.

Lemma nth_error_combine {A B} (a : list A) (b : list B) i x y :
  nth_error (combine a b) i = Some (x, y) <-> nth_error a i = Some x /\ nth_error b i = Some y.
Proof.
  revert b i; induction a as [|a0 a IH]; intros [|b0 b] [|i]; simpl; try (split; [discriminate|intros [? ?]; discriminate]).
  - split; [intros [= <- <-]; auto|intros [[= <-] [= <-]]; reflexivity].
  - apply IH.
Qed.

Lemma out_computes_not c g ng row :
  dget (gates c) ng = Some (mkGate NOT [g]) -> out_computes c g (map negb row) -> out_computes c ng row.
Proof.
  intros Hng H. unfold out_computes in *. apply Forall2_map_r in H.
  eapply Forall2_impl'; [|exact H]. intros vec b He. simpl in He.
  rewrite <- (negb_involutive b). eapply Eval_not; eassumption.
Qed.

(* ------------------------------------------------------------------ *)
(* databases whose stored circuits compute their keys *)
Record stored_ok (c : circuit) (t : table) : Prop := {
  so_generated : generated c;
  so_outputs : outputs_exist c;
  so_computes : computes c t }.

Definition db_ok (d : db) : Prop :=
  forall t bs, rows_nonempty t -> dget d (truth_table_to_label t) = Some bs ->
    exists c, decode_circuit bs = Ok c /\ stored_ok c t.

Lemma negated_row_nonempty r : r <> [] -> negated_row r <> [].
Proof. unfold negated_row. destruct r; [congruence|]. destruct (hd false (b :: r)); simpl; discriminate. Qed.

Lemma normalize_rows_nonempty t ni : normalize t = Ok ni -> rows_nonempty (norm_table ni).
Proof.
  intros H. apply Forall_forall. intros row Hin.
  destruct (normalize_rows _ _ H row Hin) as (r & _ & Hr & ->). apply negated_row_nonempty; exact Hr.
Qed.

Theorem denormalize_correct t ni c c' :
  normalize t = Ok ni -> stored_ok c (norm_table ni) -> denormalize ni c = DbOk c' -> computes c' t.
Proof.
  intros Hn [Hgen Hout Hcomp] Hd.
  destruct (normalize_spec _ _ Hn) as (Hne & Hnegs & Hplen & Hperm & t2 & Ht2len & Hsort & Hdedup).
  unfold denormalize in Hd.
  destruct (undo_outputs_deletion ni c) as [c1|] eqn:E1; simpl in Hd; [|discriminate].
  destruct (unsort_outputs ni c1) as [c2|] eqn:E2; simpl in Hd; [|discriminate].
  destruct (undo_outputs_deletion_spec _ _ _ E1) as (G1 & I1 & O1).
  assert (NoDup (permutation ni)) as Hnd.
  { eapply Permutation_NoDup; [apply Permutation_sym; exact Hperm|apply seq_NoDup]. }
  destruct (unsort_outputs_spec _ _ _ E2 Hnd) as (G2 & I2 & L2 & O2).
  (* after undoing the deletion: output k computes the k-th sorted row *)
  assert (Forall2 (out_computes c) (outputs c1) t2) as D1.
  { eapply (Forall2_join _ _ _ _ _ _ O1 Hdedup). intros j o row Ho Hrow.
    eapply (Forall2_nth_elim _ _ _ Hcomp); eassumption. }
  pose proof (Forall2_length' _ _ _ D1) as L1.
  (* after unsorting: output i computes the i-th negation-normalised row *)
  assert (Forall2 (out_computes c) (outputs c2) (map negated_row t)) as D2.
  { apply Forall2_nth_intro; [rewrite map_length; lia|]. intros i o row Ho Hrow.
    assert (i < length t)%nat as Hi.
    { rewrite <- (map_length negated_row). apply nth_error_Some. congruence. }
    assert (In i (permutation ni)) as Hin.
    { eapply Permutation_in; [apply Permutation_sym; exact Hperm|]. apply in_seq. lia. }
    apply In_nth_error in Hin as (k & Hk). destruct (O2 _ _ Hk) as (Hko & Hk1). rewrite Ho in Hko.
    destruct (nth_error t2 k) as [row'|] eqn:Er.
    - rewrite (Hsort _ _ _ Hk Er) in Hrow. injection Hrow as ->.
      eapply (Forall2_nth_elim _ _ _ D1); [symmetry; exact Hko|exact Er].
    - exfalso. apply nth_error_None in Er. apply Hk1. apply nth_error_None. lia. }
  (* every output is a gate of the stored circuit *)
  assert (forall o, In o (outputs c2) -> dmem (gates c) o = true) as Hex2.
  { intros o Ho. apply In_nth_error in Ho as (p & Hp).
    assert (p < length (outputs c2))%nat as Hpl by (apply nth_error_Some; congruence).
    assert (In p (permutation ni)) as Hin.
    { eapply Permutation_in; [apply Permutation_sym; exact Hperm|]. apply in_seq. lia. }
    apply In_nth_error in Hin as (k & Hk). destruct (O2 _ _ Hk) as (Hko & _). rewrite Hp in Hko.
    symmetry in Hko. apply nth_error_In in Hko.
    clear -O1 Hko Hout. induction O1 as [|j o' ms os Hjo _ IH]; [contradiction|].
    destruct Hko as [<-|Hko]; [apply Hout; eapply nth_error_In; exact Hjo|apply IH; exact Hko]. }
  (* the negation step *)
  unfold denormalize_outputs in Hd.
  destruct (Nat.eqb_spec (length (outputs c2)) (length (negations ni))) as [Hlen|]; simpl in Hd; [|discriminate].
  change (fun (st : circuit * list label) (on : label * bool) =>
            let '(c1, acc) := st in
            if snd on then do r <- negate_gate c1 (fst on); Ok (fst r, acc ++ [snd r]) else Ok (c1, acc ++ [fst on]))
    with negate_step in Hd.
  destruct (foldM negate_step (combine (outputs c2) (negations ni)) (c2, [])) as [[cf outs]|] eqn:Ef; simpl in Hd; [|discriminate].
  injection Hd as <-.
  destruct (negate_fold_spec c _ _ _ _ _ [] Ef) as (more & outs' & Gf & If & Nf & Eo & Ff).
  { rewrite app_nil_r. congruence. }
  { congruence. }
  { constructor. }
  { intros [o n] Hon. simpl. apply Hex2. eapply in_combine_l; exact Hon. }
  simpl in Eo, Gf, Nf. subst outs.
  unfold computes. simpl outputs.
  pose proof (Forall2_length' _ _ _ Ff) as Lf. rewrite combine_length, <- Hlen, Nat.min_id in Lf.
  pose proof (Forall2_length' _ _ _ D2) as LD2. rewrite map_length in LD2.
  apply Forall2_nth_intro; [lia|]. intros i o' row Ho' Hrow.
  assert (exists o, nth_error (outputs c2) i = Some o) as (o & Ho).
  { destruct (nth_error (outputs c2) i) eqn:E; [eauto|]. apply nth_error_None in E.
    assert (i < length t)%nat by (apply nth_error_Some; congruence). lia. }
  assert (nth_error (combine (outputs c2) (negations ni)) i = Some (o, hd false row)) as Hc.
  { apply nth_error_combine. split; [exact Ho|]. rewrite Hnegs. apply map_nth_error; exact Hrow. }
  pose proof (Forall2_nth_elim _ _ _ Ff _ _ _ Hc Ho') as Hrel. simpl in Hrel.
  pose proof (Forall2_nth_elim _ _ _ D2 i o (negated_row row) Ho (map_nth_error _ _ _ Hrow)) as Hoc.
  assert (out_computes cf o (negated_row row)) as Hoc'.
  { eapply out_computes_extend; [exact Gf|exact If|exact Hoc]. }
  assert (forall x r, out_computes cf x r -> out_computes (set_outputs_raw cf outs') x r) as Hset.
  { intros x r. apply (out_computes_extend cf _ []); simpl; [rewrite app_nil_r; reflexivity|reflexivity]. }
  apply Hset. unfold negated_row in Hoc'. destruct (hd false row).
  - destruct Hrel as (-> & Hm). eapply out_computes_not; [|exact Hoc'].
    eapply not_lookup; [exact Hgen|exact Gf|exact Nf|exact Hm].
  - subst o'. exact Hoc'.
Qed.

(* looking up a fully defined table *)
Theorem lookup_returns_requested_function d t c' :
  db_ok d -> get_by_raw_truth_table d t = DbOk (Some c') -> computes c' t.
Proof.
  intros Hdb H. unfold get_by_raw_truth_table in H.
  destruct (normalize t) as [ni|] eqn:En; simpl in H; [|discriminate].
  unfold get_by_label in H. destruct (dget d (truth_table_to_label (norm_table ni))) as [bs|] eqn:Ed; simpl in H; [|discriminate].
  destruct (Hdb _ _ (normalize_rows_nonempty _ _ En) Ed) as (c & Hdec & Hso). rewrite Hdec in H. simpl in H.
  destruct (denormalize ni c) as [c2|] eqn:Eden; simpl in H; [|discriminate]. injection H as <-.
  eapply denormalize_correct; eassumption.
Qed.

(* nothing is returned only if the normalised table is not a key of the database *)
Theorem lookup_none_only_if_absent d t :
  get_by_raw_truth_table d t = DbOk None ->
  exists ni, normalize t = Ok ni /\ dget d (truth_table_to_label (norm_table ni)) = None.
Proof.
  unfold get_by_raw_truth_table. destruct (normalize t) as [ni|] eqn:En; simpl; [|discriminate].
  unfold get_by_label. destruct (dget d (truth_table_to_label (norm_table ni))) as [bs|] eqn:Ed; simpl; [|eauto].
  destruct (decode_circuit bs); simpl; [|discriminate]. destruct (denormalize ni c); simpl; discriminate.
Qed.
