(* Generated/ArithGen09.v (translator T14) equals the hand model, part A: the helpers of _utils.py,
   _get_new_labels, add_if_then_else, add_pairwise_xor, add_pairwise_if_then_else. *)
Require Import Cirbo.Model.Base Cirbo.Model.Gate Cirbo.Model.Circuit Cirbo.Model.Builder Cirbo.Model.PyPrims.
Require Import Cirbo.Generated.ArithTables Cirbo.Generated.ArithCells Cirbo.Generated.ArithGen09.
Require Import Cirbo.Model.ArithSub Cirbo.Model.ArithMisc.
Require Import Cirbo.Proofs.ArithGen09Lib.
From Coq Require Import ZArith Lia Ascii.
Open Scope Z_scope.

(* ---- _utils.py ---------------------------------------------------------------------------------- *)
Lemma gen_validate_equal_sizes_eq a b :
  gen_validate_equal_sizes a b = if (length a =? length b)%nat then Ret tt else Fail GenerationError.
Proof.
  unfold gen_validate_equal_sizes, py_len.
  destruct (Nat.eqb_spec (length a) (length b)) as [H|H].
  - rewrite H, Z.eqb_refl. reflexivity.
  - destruct (Z.eqb_spec (Z.of_nat (length a)) (Z.of_nat (length b))); [lia|reflexivity].
Qed.

Lemma gen_reverse_if_big_endian_run fresh l be s :
  run fresh (gen_reverse_if_big_endian l be) s = Ok (rev_if be l, s).
Proof. destruct be; reflexivity. Qed.

(* ---- _get_new_labels ------------------------------------------------------------------------------ *)
Lemma get_new_labels_loop restr (is_ : list Z) : forall ans,
  peq (foldP (fun ans (_ : Z) => bdo t <- Fresh (restr ++ ans); let ans := ans ++ [t] in Ret ans) is_ ans)
      (bdo ls <- fresh_list (length is_) (restr ++ ans); Ret (ans ++ ls)).
Proof.
  induction is_ as [|i is_ IH]; intros ans fresh s; cbn [foldP fresh_list length]; rs.
  - rewrite app_nil_r. reflexivity.
  - step. rewrite IH. rs. rewrite <- app_assoc. step.
    rewrite <- app_assoc. reflexivity.
Qed.

Lemma py_range_0_length n : length (py_range 0 n) = Z.to_nat n.
Proof. unfold py_range. rewrite map_length, seq_length. f_equal; lia. Qed.

Theorem gen__get_new_labels_eq n restr :
  peq (gen__get_new_labels n restr)
      (fresh_list (Z.to_nat n) (match restr with Some r => r | None => [] end)).
Proof.
  intros fresh s. unfold gen__get_new_labels.
  set (r := match restr with Some r => r | None => [] end).
  assert (E : forall B (k : list label -> prog B) s,
             run fresh (Bind (match restr with
                              | None => let other_restrictions := [] in Ret other_restrictions
                              | Some other_restrictions => Ret other_restrictions end) k) s
             = run fresh (k r) s) by (intros; destruct restr; reflexivity).
  rewrite E. rs. rewrite get_new_labels_loop. rewrite py_range_0_length, app_nil_r. rs.
  step.
Qed.

Lemma fresh_list_length n : forall restr, returns (fresh_list n restr) (fun l => length l = n).
Proof.
  induction n as [|n IH]; intros restr fresh s a s'; cbn [fresh_list]; rs.
  - intros H; inversion H; reflexivity.
  - destruct (run fresh (Fresh restr) s) as [[l s1]|e]; rs; [|discriminate].
    destruct (run fresh (fresh_list n (restr ++ [l])) s1) as [[ls s2]|e] eqn:E; rs; [|discriminate].
    intros H; inversion H; subst. cbn [length]. f_equal. eapply IH; eauto.
Qed.

(* ---- add_if_then_else ------------------------------------------------------------------------------- *)
Theorem gen_add_if_then_else_eq i t e res ao :
  peq (gen_add_if_then_else i t e res ao) (add_if_then_else i t e res ao).
Proof.
  unfold gen_add_if_then_else, add_if_then_else.
  apply peq_bind.
  - destruct res; intros fresh s; rs; [reflexivity|step].
  - intros r. eapply peq_trans.
    + apply peq_bind; [apply gen__get_new_labels_eq|intros a; apply peq_refl].
    + change (Z.to_nat 3) with 3%nat. eapply peq_bind_post; [apply fresh_list_length|].
      intros tmp Hlen. destruct tmp as [|t0 [|t1 [|t2 [|? ?]]]]; try discriminate Hlen.
      intros fresh s. unfold when. destruct ao; steps.
Qed.

(* ---- result_labels = []; for i in range(n): result_labels.append(_get_new_label(circuit)) ------------- *)
Lemma fresh_n_loop (is_ : list Z) : forall acc,
  peq (foldP (fun acc (_ : Z) => bdo t <- Fresh []; let acc := acc ++ [t] in Ret acc) is_ acc)
      (bdo ls <- fresh_n (length is_); Ret (acc ++ ls)).
Proof.
  induction is_ as [|i is_ IH]; intros acc fresh s; cbn [foldP fresh_n length]; rs.
  - rewrite app_nil_r. reflexivity.
  - step. rewrite IH. rs. step. rewrite <- app_assoc. reflexivity.
Qed.

Lemma fresh_n_length n : returns (fresh_n n) (fun l => length l = n).
Proof.
  induction n as [|n IH]; intros fresh s a s'; cbn [fresh_n]; rs.
  - intros H; inversion H; reflexivity.
  - destruct (run fresh (Fresh []) s) as [[l s1]|e]; rs; [|discriminate].
    destruct (run fresh (fresh_n n) s1) as [[ls s2]|e] eqn:E; rs; [|discriminate].
    intros H; inversion H; subst. cbn [length]. f_equal. eapply IH; eauto.
Qed.

(* the Optional result_labels of the pairwise gadgets *)
Lemma result_labels_default (res : option (list label)) n :
  peq (match res with
       | None => let result_labels := [] in
                 bdo result_labels <- foldP (fun result_labels (_ : Z) =>
                     bdo t <- Fresh []; let result_labels := result_labels ++ [t] in Ret result_labels)
                   (py_range 0 (Z.of_nat n)) result_labels;
                 Ret result_labels
       | Some result_labels => Ret result_labels
       end)
      (match res with Some r => Ret r | None => fresh_n n end).
Proof.
  destruct res as [r|]; [apply peq_refl|].
  intros fresh s. cbv zeta. rs. rewrite fresh_n_loop. rewrite py_range_0_length, Nat2Z.id. rs. step.
Qed.

(* ---- add_pairwise_xor --------------------------------------------------------------------------------- *)
Lemma xor_loop_eq (xs ys rl : list label) (ao : bool) : length ys = length xs -> length rl = length xs ->
  forall k i, (i + k = length xs)%nat ->
  peq (foldP (fun (_ : unit) i =>
         bdo r <- py_nth rl i; bdo x <- py_nth xs i; bdo y <- py_nth ys i;
         bdo _ <- AddGate r XOR [x; y];
         bdo _ <- (if ao then (bdo r' <- py_nth rl i; bdo _ <- MarkOutput r'; Ret tt) else Ret tt);
         Ret tt) (map Z.of_nat (seq i k)) tt)
      (xor_loop (skipn i xs) (skipn i ys) (skipn i rl) ao).
Proof.
  intros Hy Hr. induction k as [|k IH]; intros i Hi fresh s.
  - rewrite (skipn_all2 (n:=i) xs) by lia. reflexivity.
  - rewrite (skipn_nth xs i ""%string), (skipn_nth ys i ""%string), (skipn_nth rl i ""%string) by lia.
    cbn [seq map foldP xor_loop]. unfold when. rs. do 3 step. step.
    destruct ao; rs.
    + step. apply IH. lia.
    + apply IH. lia.
Qed.

Theorem gen_add_pairwise_xor_eq xs ys res ao :
  peq (gen_add_pairwise_xor xs ys res ao) (add_pairwise_xor xs ys res ao).
Proof.
  unfold gen_add_pairwise_xor, add_pairwise_xor. rewrite py_len_eqb.
  destruct (length xs =? length ys)%nat eqn:E1; cbn [negb]; [|apply peq_refl].
  apply Nat.eqb_eq in E1.
  apply peq_bind; [apply (result_labels_default res (length xs))|].
  intros rl. rewrite py_len_eqb.
  destruct (length rl =? length xs)%nat eqn:E2; cbn [negb]; [|apply peq_refl].
  apply Nat.eqb_eq in E2.
  apply peq_bind; [|intros; apply peq_refl].
  unfold py_len. rewrite py_range_0_nat.
  eapply peq_trans; [apply (xor_loop_eq xs ys rl ao); lia|]. apply peq_refl.
Qed.

(* ---- add_pairwise_if_then_else ------------------------------------------------------------------------- *)
Lemma ite_loop_eq (is_ ts es rl : list label) (ao : bool) : length ts = length is_ -> length es = length is_ -> length rl = length is_ ->
  forall k i, (i + k = length is_)%nat ->
  peq (foldP (fun (_ : unit) i =>
         bdo a <- py_nth is_ i; bdo b <- py_nth ts i; bdo c <- py_nth es i; bdo r <- py_nth rl i;
         bdo _ <- gen_add_if_then_else a b c (Some r) ao;
         Ret tt) (map Z.of_nat (seq i k)) tt)
      (ite_loop (skipn i is_) (skipn i ts) (skipn i es) (skipn i rl) ao).
Proof.
  intros Ht He Hr. induction k as [|k IH]; intros i Hi fresh s.
  - rewrite (skipn_all2 (n:=i) is_) by lia. reflexivity.
  - rewrite (skipn_nth is_ i ""%string), (skipn_nth ts i ""%string), (skipn_nth es i ""%string),
      (skipn_nth rl i ""%string) by lia.
    cbn [seq map foldP ite_loop]. rs. do 4 step. rewrite gen_add_if_then_else_eq. step.
    apply IH. lia.
Qed.

Theorem gen_add_pairwise_if_then_else_eq is_ ts es res ao :
  peq (gen_add_pairwise_if_then_else is_ ts es res ao) (add_pairwise_if_then_else is_ ts es res ao).
Proof.
  unfold gen_add_pairwise_if_then_else, add_pairwise_if_then_else. rewrite !py_len_eqb.
  rewrite <- negb_andb.
  destruct ((length is_ =? length ts)%nat && (length ts =? length es)%nat) eqn:E1; cbn [negb]; [|apply peq_refl].
  apply andb_prop in E1. destruct E1 as [E1 E1']. apply Nat.eqb_eq in E1, E1'.
  apply peq_bind; [apply (result_labels_default res (length is_))|].
  intros rl. rewrite py_len_eqb.
  destruct (length rl =? length is_)%nat eqn:E2; cbn [negb]; [|apply peq_refl].
  apply Nat.eqb_eq in E2.
  apply peq_bind; [|intros; apply peq_refl].
  unfold py_len. rewrite py_range_0_nat.
  eapply peq_trans; [apply (ite_loop_eq is_ ts es rl ao); lia|]. apply peq_refl.
Qed.
