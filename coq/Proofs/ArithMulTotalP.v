(* C08, termination, part 5: the level-by-level summation through add_sum_pow2_m1 ([gen_levels], the
   common core of add_mul_pow2_m1 and add_square_pow2_m1) and add_mul_pow2_m1 itself.

   add_sum_pow2_m1 asserts n > 0.  The LAST level (n + m - 1) receives no partial product, only carries:
   it is non-empty because a sum of k >= 2 bits always has a second column (add_sum_n_bits on k >= 2
   labels returns at least two labels, [sum_n_bits_two]; every block add_sum_pow2_m1 forms has >= 2 labels,
   [blocks_outer_two]), and every level from 1 on has k >= 2: a product (or two) plus the carry of the
   level before ([feeds_ok]). *)
Require Import Cirbo.Model.Base Cirbo.Model.Gate Cirbo.Model.Den Cirbo.Model.Circuit
  Cirbo.Model.Eval Cirbo.Model.Sem Cirbo.Model.Builder.
Require Import Cirbo.Generated.ArithTables Cirbo.Generated.ArithCells.
Require Import Cirbo.Model.ArithSub Cirbo.Model.ArithSum2 Cirbo.Model.ArithSumN Cirbo.Model.ArithSumW
  Cirbo.Model.ArithMul.
Require Import Cirbo.Proofs.DictFacts Cirbo.Proofs.BuilderFacts Cirbo.Proofs.ArithFacts
  Cirbo.Proofs.TotalFacts Cirbo.Proofs.ArithTotalFacts Cirbo.Proofs.FreshOnly
  Cirbo.Proofs.ArithSumPow2Facts Cirbo.Proofs.ArithSumTotalN Cirbo.Proofs.ArithSumTotalP
  Cirbo.Proofs.ArithMulFacts Cirbo.Proofs.ArithMulDiag Cirbo.Proofs.ArithMulPow2 Cirbo.Proofs.ArithMulCount
  Cirbo.Proofs.ArithMulTotal Cirbo.Proofs.ArithMulWallaceTotal Cirbo.Proofs.ArithMulTotalKara
  Cirbo.Proofs.ArithMulTotalW.

Definition noE (c : circuit) : Prop := has_gate c "" = false.

(* ---- add_sum_n_bits on two or more labels returns two or more ----------------------------------------- *)
Lemma xaig_loop_step f solo xxy : (solo <> [] \/ xxy <> []) ->
  xaig_loop (S f) solo xxy =
  bdo st <- xaig_level solo xxy; let '(r, next_solo, next_xxy) := st in
  bdo rs <- xaig_loop f next_solo next_xxy; Ret (r :: rs).
Proof. intros H. destruct solo, xxy; try reflexivity. destruct H; contradiction. Qed.

Lemma sum_n_bits_two fresh be inp s res s' :
  run fresh (add_sum_n_bits (BEnum XAIG) be inp) s = Ok (res, s') -> (2 <= length inp)%nat -> (2 <= length res)%nat.
Proof.
  intros H L. unfold add_sum_n_bits in H. cbn [resolve_basis ret_res] in H. rewrite run_ret_bind in H.
  apply run_bind_inv in H as (r & s1 & H & Hr). apply run_ret_inv in Hr as (-> & ->). rewrite rev_if_length.
  cbn [add_sum_n_bits_resolved] in H. unfold add_sum_n_bits_xaig in H.
  apply run_bind_inv in H as (st & s2 & Hp & H). rewrite rev_if_length in H.
  pose proof (pair_up_len _ _ _ _ _ _ Hp) as (_ & P2). rewrite rev_length, rev_if_length in P2. simpl in P2.
  rewrite xaig_loop_step in H by (destruct (fst st), (snd st); simpl in P2; [lia|right|left|left]; discriminate).
  apply run_bind_inv in H as ([[r0 ns] nx] & s3 & Hl & H).
  pose proof (level_carries _ _ _ _ _ _ _ _ _ _ Hp Hl) as (C1 & C2). rewrite rev_length, rev_if_length in C1, C2.
  simpl in C1, C2.
  apply run_bind_inv in H as (rs & s4 & Hrs & H). apply run_ret_inv in H as (-> & _).
  destruct (length inp) as [|[|k]] eqn:E; try lia.
  rewrite xaig_loop_step in Hrs by (destruct ns, nx; simpl in C2; [lia|right|left|left]; discriminate).
  apply run_bind_inv in Hrs as ([[r1 ns1] nx1] & s5 & _ & Hrs).
  apply run_bind_inv in Hrs as (rs1 & s6 & _ & Hrs). apply run_ret_inv in Hrs as (-> & _). simpl. lia.
Qed.

(* ---- every block of add_sum_pow2_m1 has two or more labels ------------------------------------------------- *)
Definition two_blks (out : list (list label)) : Prop := Forall (fun blk : list label => (2 <= length blk)%nat) out.

Lemma block_loop_two fresh i : (2 <= i)%nat -> forall fuel labels out s r s',
  run fresh (block_loop fuel (BEnum XAIG) i labels out) s = Ok (r, s') -> two_blks out -> two_blks (snd r).
Proof.
  intros Hi. induction fuel as [|f IH]; intros labels out s r s' H Ho; cbn [block_loop] in H;
    destruct (length labels <? i)%nat eqn:E.
  1,3: apply run_ret_inv in H as (-> & _); exact Ho.
  { discriminate. }
  apply Nat.ltb_ge in E.
  apply run_bind_inv in H as (blk & s1 & Hblk & H). apply run_bind_inv in H as (b0 & s2 & _ & H).
  apply IH in H; [exact H|]. apply Forall_app. split; [exact Ho|]. constructor; [|constructor].
  eapply sum_n_bits_two; [exact Hblk|]. rewrite firstn_length. lia.
Qed.

Lemma blocks_outer_two fresh : forall fuel labels out s r s',
  run fresh (blocks_outer fuel (BEnum XAIG) labels out) s = Ok (r, s') -> two_blks out -> two_blks (snd r).
Proof.
  induction fuel as [|f IH]; intros labels out s r s' H Ho; cbn [blocks_outer] in H;
    destruct (length labels <=? 2)%nat.
  1,3: apply run_ret_inv in H as (-> & _); exact Ho.
  { discriminate. }
  apply run_bind_inv in H as (st & s1 & Hst & H). apply IH in H; [exact H|].
  unfold pow2_m1_sizes in Hst. cbn [foldP] in Hst.
  apply run_bind_inv in Hst as (st1 & t1 & H1 & Hst). apply run_bind_inv in Hst as (st2 & t2 & H2 & Hst).
  apply run_bind_inv in Hst as (st3 & t3 & H3 & Hst). apply run_bind_inv in Hst as (st4 & t4 & H4 & Hst).
  apply run_ret_inv in Hst as (-> & _). cbn [fst snd] in *.
  apply (block_loop_two fresh 31 ltac:(lia)) in H1; [|exact Ho].
  apply (block_loop_two fresh 15 ltac:(lia)) in H2; [|exact H1].
  apply (block_loop_two fresh 7 ltac:(lia)) in H3; [|exact H2].
  apply (block_loop_two fresh 3 ltac:(lia)) in H4; [|exact H3]. exact H4.
Qed.

(* the columns of well-formed blocks *)
Lemma column_exist c k out : goodblks c out -> all_exist c (column k out).
Proof.
  unfold column. induction 1 as [|blk out (_ & Hb & _) _ IH]; cbn [flat_map]; [constructor|].
  apply all_exist_app; [|exact IH].
  match goal with |- context [match ?t with Some _ => _ | None => _ end] => destruct t as [x|] eqn:E end; [|constructor].
  destruct (String.eqb x ""); [constructor|]. constructor; [|constructor].
  eapply Forall_forall in Hb; [exact Hb|]. eapply nth_error_In; exact E.
Qed.

Lemma columns_exist c out : goodblks c out -> mat_exist c (columns out).
Proof.
  intros H. unfold columns. apply Forall_forall. intros col Hc. apply in_map_iff in Hc as (k & <- & _).
  apply column_exist, H.
Qed.

Lemma fold_max_ge (l : list nat) x : In x l -> (x <= fold_right Nat.max 0%nat l)%nat.
Proof. induction l as [|y l IH]; intros []; simpl; [subst; lia|specialize (IH H); lia]. Qed.

Lemma columns_second c out blk :
  goodblks c out -> noE c -> In blk out -> (2 <= length blk)%nat ->
  exists c0 c1 rest, columns out = c0 :: c1 :: rest /\ c1 <> [].
Proof.
  intros Hg H0 Hin L. unfold columns.
  assert (2 <= fold_right Nat.max 0%nat (map (@length label) out))%nat as HM.
  { pose proof (fold_max_ge (map (@length label) out) (length blk) (in_map _ _ _ Hin)). lia. }
  destruct (fold_right Nat.max 0%nat (map (@length label) out)) as [|[|M]]; try lia.
  cbn [seq map]. eexists _, _, _. split; [reflexivity|].
  destruct blk as [|b0 [|b1 blk']]; simpl in L; try lia.
  assert (In b1 (column 1 out)) as Hb1.
  { unfold column. apply in_flat_map. exists (b0 :: b1 :: blk'). split; [exact Hin|]. cbn [nth_error].
    destruct (String.eqb_spec b1 "") as [->|_]; [|left; reflexivity]. exfalso.
    eapply Forall_forall in Hg; [|exact Hin]. destruct Hg as (_ & Hex & _).
    inversion Hex as [|? ? _ Hex']; subst. inversion Hex' as [|? ? Hb _]; subst. unfold noE in H0. congruence. }
  intros E. rewrite E in Hb1. destruct Hb1.
Qed.

Section PowTotal.
  Variable fresh : N -> label.
  Hypothesis Hf : fresh_total fresh.
  Hypothesis Hfr : forall k, fresh k <> ""%string.

  Ltac finish := cbn [run]; eexists _, _; split; [reflexivity|].

  Lemma noE_run {A} (p : prog A) s r s' : fo p -> run fresh p s = Ok (r, s') -> noE (bc s) -> noE (bc s').
  Proof. intros Hp H H0. exact (fo_absent fresh p _ _ _ _ Hp H Hfr H0). Qed.

  (* add_sum_pow2_m1: the columns exist; two or more bits give a non-empty second column *)
  Theorem add_sum_pow2_m1_ok2 xs s :
    xs <> [] -> all_exist (bc s) xs -> noE (bc s) ->
    exists r s', run fresh (add_sum_pow2_m1 (BEnum XAIG) false xs) s = Ok (r, s') /\
      mat_exist (bc s') r /\ ((2 <= length xs)%nat -> nonempty (nth 1 r [])).
  Proof.
    intros Hne Hx H0. unfold add_sum_pow2_m1.
    destruct xs as [|x [|y rest]]; [contradiction| |].
    { finish. split; [constructor; [exact Hx|constructor]|]. simpl. lia. }
    cbn [resolve_basis ret_res]. rewrite run_ret_bind.
    set (xs := x :: y :: rest) in *.
    destruct (blocks_outer_ok fresh Hf Hfr (BEnum XAIG) XAIG (S (length xs)) xs s eq_refl)
      as ([labels out] & s1 & E1 & H1 & H2 & Hbig & Hsmall); [lia|exact Hx|].
    rewrite (bind_ok _ _ _ _ _ _ E1). cbn [fst snd] in *. cbv beta iota.
    pose proof (noE_run _ _ _ _ (fo_blocks_outer _ _ _ _) E1 H0) as H01.
    pose proof (blocks_outer_two _ _ _ _ _ _ _ E1 (Forall_nil _)) as T1. cbn [snd] in T1.
    assert (exists out' s2, run fresh
              (match labels with
               | [x0; y0] => bdo blk <- add_sum2 [x0; y0]; bdo _ <- nthP blk 0; Ret (out ++ [blk])
               | _ => Ret out
               end) s1 = Ok (out', s2) /\ out' <> [] /\ goodblks (bc s2) out' /\ noE (bc s2) /\ two_blks out')
      as (out' & s2 & E2 & Hne2 & Hg2 & H02 & T2).
    { assert (forall l, (match l with [x0; y0] => False | _ => True end : Prop) -> labels = l ->
                exists out' s2, run fresh (Ret out) s1 = Ok (out', s2) /\ out' <> [] /\ goodblks (bc s2) out' /\
                                noE (bc s2) /\ two_blks out') as Hother.
      { intros l Hshape El. exists out, s1. split; [reflexivity|]. split; [|auto].
        destruct (Nat.le_gt_cases (length xs) 2) as [Hle|Hgt]; [|apply Hbig; lia].
        specialize (Hsmall Hle). injection Hsmall as Hl _. subst labels. unfold xs in *.
        destruct rest; [subst l; contradiction|simpl in Hle; lia]. }
      destruct labels as [|x0 [|y0 [|z0 more]]];
        [eapply Hother; [|reflexivity]; exact I|eapply Hother; [|reflexivity]; exact I| |eapply Hother; [|reflexivity]; exact I].
      inversion H1 as [|? ? Hx0 H1']; subst. inversion H1' as [|? ? Hy0 _]; subst.
      destruct (ArithSumTotalN.add_sum2_ok fresh Hf x0 y0 s1 Hx0 Hy0) as (blk & s2 & E2 & a & c & -> & Ha & Hc).
      rewrite (bind_ok _ _ _ _ _ _ E2). unfold nthP, nth_res. cbn [nth_error ret_res]. cbn [run].
      eexists _, _. split; [reflexivity|]. split; [destruct out; discriminate|].
      split; [|split; [exact (noE_run _ _ _ _ (fo_add_sum2 _) E2 H01)|]].
      - apply Forall_app. split; [eapply goodblks_ext; [eapply run_ext; exact E2|exact H2]|].
        constructor; [|constructor]. split; [discriminate|].
        split; [constructor; [exact Ha|constructor; [exact Hc|constructor]]|].
        exact (ArithSumResultsQ.add_sum2_Q fresh nonempty_label Hfr _ _ _ _ E2).
      - apply Forall_app. split; [exact T1|]. constructor; [simpl; lia|constructor]. }
    rewrite (bind_ok _ _ _ _ _ _ E2).
    destruct out' as [|blk0 out'']; [contradiction|].
    destruct (columns_second (bc s2) (blk0 :: out'') blk0 Hg2 H02 (or_introl eq_refl) (Forall_inv T2))
      as (c0 & c1 & rest' & Ecol & Hc1).
    pose proof (columns_exist _ _ Hg2) as Acol. rewrite Ecol in *.
    destruct (columns_good (bc s2) (blk0 :: out'') ltac:(discriminate) Hg2) as (c0' & rest0 & Ecol' & Hc0).
    rewrite Ecol in Ecol'. injection Ecol' as <- _.
    destruct (lastP_ok fresh c0 s2 Hc0) as (l & El & Hl).
    rewrite (bind_ok _ _ _ _ _ _ El). finish. cbn [map rev_if]. split.
    - inversion Acol as [|? ? A0 Arest]; subst. constructor; [|rewrite map_id; exact Arest].
      constructor; [|constructor]. eapply Forall_forall in A0; [exact A0|exact Hl].
    - intros _. cbn [nth]. unfold nonempty. destruct c1; [contradiction|simpl; lia].
  Qed.

  Lemma pow2_level_ok inp s :
    inp <> [] -> all_exist (bc s) inp -> noE (bc s) ->
    exists o s', run fresh (pow2_level inp) s = Ok (o, s') /\ mat_exist (bc s') o /\ noE (bc s') /\
      ((2 <= length inp)%nat -> nonempty (nth 1 o [])).
  Proof.
    intros Hne A H0.
    assert (Hgen : exists o s', run fresh (add_sum_pow2_m1 (BEnum XAIG) false inp) s = Ok (o, s') /\
                     mat_exist (bc s') o /\ noE (bc s') /\ ((2 <= length inp)%nat -> nonempty (nth 1 o []))).
    { destruct (add_sum_pow2_m1_ok2 inp s Hne A H0) as (o & s' & E & Ao & Hn). exists o, s'.
      split; [exact E|]. split; [exact Ao|]. split; [|exact Hn]. eapply noE_run; [|exact E|exact H0]. auto with fo. }
    unfold pow2_level. destruct inp as [|x [|y inp']]; [contradiction| |exact Hgen].
    finish. split; [constructor; [exact A|constructor]|]. split; [exact H0|]. simpl. lia.
  Qed.

  (* ---- the levels ---- *)
  Definition oexist (c : circuit) (out : list (list (list label))) : Prop := Forall (mat_exist c) out.
  Definition ready (out : list (list (list label))) : Prop :=
    exists pre o, out = pre ++ [o] /\ nonempty (nth 1 o []).

  Fixpoint feeds_ok (rdy : bool) (feeds : list (list label)) : Prop :=
    match feeds with
    | [] => True
    | f :: rest =>
      let k := (length f + (if rdy then 1 else 0))%nat in (1 <= k)%nat /\ feeds_ok (2 <=? k)%nat rest
    end.

  Lemma oexist_ext c c' out : ext c c' -> oexist c out -> oexist c' out.
  Proof. intros X H. eapply Forall_impl; [|exact H]. intros o; apply mat_exist_ext, X. Qed.

  Lemma gather_exist c : forall out d, oexist c out -> all_exist c (gather d out).
  Proof.
    induction out as [|o out IH]; intros d H; cbn [gather]; [constructor|].
    inversion H as [|? ? Ho H']; subst. apply all_exist_app; [|apply IH, H'].
    clear -Ho. revert d. induction Ho as [|col o Hc _ IHo]; intros [|d]; simpl; try constructor; auto.
  Qed.

  Lemma gather_snoc o : forall pre d, gather d (pre ++ [o]) = gather d pre ++ nth (d - length pre) o [].
  Proof.
    induction pre as [|p pre IH]; intros d; cbn [app gather length].
    - rewrite app_nil_r, Nat.sub_0_r. reflexivity.
    - rewrite IH, app_assoc. f_equal. f_equal. lia.
  Qed.

  Lemma ready_gather out : ready out -> nonempty (gather (length out) out).
  Proof.
    intros (pre & o & -> & Hn). rewrite gather_snoc, app_length. cbn [length].
    replace (length pre + 1 - length pre)%nat with 1%nat by lia. unfold nonempty in *. rewrite app_length. lia.
  Qed.

  Lemma gen_levels_ok : forall feeds out s rdy,
    feeds_ok rdy feeds -> (rdy = true -> ready out) -> mat_exist (bc s) feeds -> oexist (bc s) out -> noE (bc s) ->
    exists out' s', run fresh (gen_levels feeds out) s = Ok (out', s') /\ oexist (bc s') out' /\ noE (bc s').
  Proof.
    induction feeds as [|f feeds IH]; intros out s rdy Hfe Hr Af Ao H0; cbn [gen_levels].
    - finish. split; assumption.
    - destruct Hfe as (Hk & Hrest). inversion Af as [|? ? Afh Aft]; subst.
      set (inp := f ++ gather (length out) out).
      assert (length f + (if rdy then 1 else 0) <= length inp)%nat as Linp.
      { unfold inp. rewrite app_length. destruct rdy; [|lia].
        pose proof (ready_gather out (Hr eq_refl)) as Hg. unfold nonempty in Hg. lia. }
      destruct (pow2_level_ok inp s) as (o & s1 & E1 & Ao1 & H01 & Hn1).
      { apply nonnil_length. lia. } { apply all_exist_app; [exact Afh|apply gather_exist, Ao]. } { exact H0. }
      rewrite (bind_ok _ _ _ _ _ _ E1). pose proof (run_ext _ _ _ _ _ E1) as X1.
      apply (IH (out ++ [o]) s1 (2 <=? length f + (if rdy then 1 else 0))%nat); try assumption.
      + intros Hrd. apply Nat.leb_le in Hrd. exists out, o. split; [reflexivity|]. apply Hn1. lia.
      + eapply mat_exist_ext; eassumption.
      + apply Forall_app. split; [eapply oexist_ext; eassumption|constructor; [exact Ao1|constructor]].
  Qed.

  Lemma feeds_ok_true : forall rest, Forall nonempty (removelast rest) -> feeds_ok true rest.
  Proof.
    induction rest as [|f [|g r] IH]; intros H; cbn [feeds_ok]; [exact I|split; [lia|exact I]|].
    rewrite removelast_cons2 in H. pose proof (Forall_inv H) as Hf0. unfold nonempty in Hf0.
    split; [lia|]. replace (2 <=? length f + 1)%nat with true by (symmetry; apply Nat.leb_le; lia).
    apply IH. exact (Forall_inv_tail H).
  Qed.

  Lemma first_first_ok : forall out, Forall single_head out ->
    exists res, (forall s, run fresh (mapP first_first out) s = Ok (res, s)) /\
                forall c, oexist c out -> all_exist c res.
  Proof.
    induction 1 as [|o out (l & Hl) _ (res & IH1 & IH2)]; cbn [mapP].
    - exists []. split; [reflexivity|constructor].
    - destruct o as [|col o']; [discriminate|]. simpl in Hl. injection Hl as ->.
      exists (l :: res). split.
      + intros s. assert (run fresh (first_first ([l] :: o')) s = Ok (l, s)) as E0 by reflexivity.
        rewrite (bind_ok _ _ _ _ _ _ E0), (bind_ok _ _ _ _ _ _ (IH1 s)). reflexivity.
      + intros c Ho. inversion Ho as [|? ? Hoh Hot]; subst. constructor; [|apply IH2, Hot].
        inversion Hoh as [|? ? Hcol _]; subst. inversion Hcol; assumption.
  Qed.

  (* the first two anti-diagonals of an m x n matrix, n, m >= 2 *)
  Lemma diagonals_shape n m cm :
    (2 <= n)%nat -> (2 <= m)%nat -> length cm = m -> Forall (fun row : list label => length row = n) cm ->
    exists x0 x1 y0 rest, diagonals (n + m) [] cm = [x0] :: [x1; y0] :: rest /\ Forall nonempty (removelast rest).
  Proof.
    intros Hn Hm L1 F1.
    pose proof (diagonals_nonempty n ltac:(lia) (n + m) [] cm F1) as Hne. unfold diag_cnt in Hne.
    pose proof (diagonals_length (n + m) [] cm) as Lc.
    destruct cm as [|p0 [|p1 cm']]; try (simpl in L1; lia). rewrite L1 in Hne.
    pose proof (Forall_inv F1) as Lp0. pose proof (Forall_inv (Forall_inv_tail F1)) as Lp1. cbv beta in Lp0, Lp1.
    destruct p0 as [|x0 [|x1 p0']]; try (simpl in Lp0; lia). destruct p1 as [|y0 p1']; try (simpl in Lp1; lia).
    destruct (n + m)%nat as [|[|[|k]]] eqn:Enm; try lia.
    cbn [diagonals firstn skipn app heads1 flat_map map tl] in *.
    eexists _, _, _, _. split; [reflexivity|].
    replace (m + n - 1)%nat with (S (S k)) in Hne by lia. cbn [firstn] in Hne.
    pose proof (Forall_inv_tail (Forall_inv_tail Hne)) as H2.
    match goal with |- Forall nonempty (removelast ?r) => set (rest := r) in * end.
    clearbody rest. assert (length rest = S k) as Lr by (simpl in Lc; lia).
    clear -H2 Lr. revert k Lr H2. induction rest as [|r [|r2 rest] IHr]; intros k Lr H2; [constructor|constructor|].
    rewrite removelast_cons2. destruct k as [|k]; [simpl in Lr; lia|]. cbn [firstn] in H2.
    constructor; [exact (Forall_inv H2)|]. apply (IHr k); [simpl in *; lia|exact (Forall_inv_tail H2)].
  Qed.

  Theorem add_mul_pow2_m1_ok xs ys be s :
    xs <> [] -> ys <> [] -> all_exist (bc s) xs -> all_exist (bc s) ys -> noE (bc s) ->
    exists rs s', run fresh (add_mul_pow2_m1 xs ys be) s = Ok (rs, s') /\ all_exist (bc s') rs.
  Proof.
    intros Hx Hy Ax Ay H0. unfold add_mul_pow2_m1. rewrite !rev_if_length.
    destruct (pp_matrix_ok fresh Hf (rev_if be xs) (rev_if be ys) s) as (cm & s1 & E1 & Hcm);
      [apply all_exist_rev_if, Ax|apply all_exist_rev_if, Ay|].
    rewrite (bind_ok _ _ _ _ _ _ E1).
    pose proof (noE_run _ _ _ _ (fo_pp_matrix _ _) E1 H0) as H01.
    apply pp_matrix_spec in E1 as (_ & _ & L1 & F1 & _). rewrite rev_if_length in L1, F1.
    pose proof (length_nonnil _ Hx) as Hn. pose proof (length_nonnil _ Hy) as Hm.
    set (n := length xs) in *. set (m := length ys) in *.
    destruct (n =? 1)%nat eqn:En.
    { destruct (heads_ok fresh cm) as (out & Ho).
      { eapply Forall_impl; [|exact F1]. intros row Lr ->. simpl in Lr. lia. }
      rewrite (bind_ok _ _ _ _ _ _ (Ho s1)). finish. apply all_exist_rev_if. pose proof (Ho s1) as Ho1.
      apply (mapP_pure_In fresh (fun row : list label => nthP row 0) (fun y => has_gate (bc s1) y = true)) in Ho1; [exact Ho1|].
      intros row s0 y s3 Hin Hy0. apply nthP_inv in Hy0 as (Hy0 & _).
      eapply Forall_forall in Hcm; [|exact Hin]. eapply Forall_forall in Hcm; [exact Hcm|].
      eapply nth_error_In; exact Hy0. }
    destruct cm as [|c0 cm']; [simpl in L1; lia|].
    destruct (m =? 1)%nat eqn:Em.
    { unfold nthP, nth_res. cbn [nth_error ret_res]. rewrite run_ret_bind. finish.
      apply all_exist_rev_if. exact (Forall_inv Hcm). }
    apply Nat.eqb_neq in En, Em.
    destruct c0 as [|c00 c0']; [pose proof (Forall_inv F1) as L0; simpl in L0; lia|].
    unfold nthP, nth_res. cbn [nth_error ret_res]. rewrite run_ret_bind. cbn [nth_error ret_res]. rewrite run_ret_bind.
    destruct (diagonals_shape n m ((c00 :: c0') :: cm') ltac:(lia) ltac:(lia) L1 F1) as (x0 & x1 & y0 & rest & Ed & Hrest).
    destruct (gen_levels_ok (diagonals (n + m) [] ((c00 :: c0') :: cm')) [] s1 false) as (out & s2 & E2 & Ao & H02).
    { rewrite Ed. cbn [feeds_ok length Nat.add Nat.leb]. split; [lia|]. split; [lia|]. apply feeds_ok_true, Hrest. }
    { discriminate. } { apply diagonals_exist; [constructor|exact Hcm]. } { constructor. } { exact H01. }
    rewrite <- pow2_levels_gen in E2. rewrite (bind_ok _ _ _ _ _ _ E2).
    rewrite pow2_levels_gen in E2. apply gen_levels_spec in E2 as (_ & _ & _ & Fs & _).
    destruct (first_first_ok out (Fs (Forall_nil _))) as (res & Er & Ares).
    rewrite (bind_ok _ _ _ _ _ _ (Er s2)). finish. apply all_exist_rev_if, Ares, Ao.
  Qed.
End PowTotal.
