(* Every completion of the don't-cares of a table is one of the substitutions that
   get_by_raw_truth_table_model enumerates (C17): a table that agrees with the model table is
   `substitute (defined_table tm) (undefined_positions tm) s` for an s of
   itertools.product((False, True), repeat=k). *)
Require Import Cirbo.Model.Base Cirbo.Model.Gate Cirbo.Model.Circuit Cirbo.Model.Eval Cirbo.Model.Db.
Require Import Cirbo.Proofs.DbTruthTableFacts Cirbo.Proofs.NormFacts Cirbo.Proofs.DbFacts Cirbo.Proofs.ModelLookupFacts.

(* ---- lists are determined by nth_error ---- *)
Lemma nth_error_ext' {A} : forall (a b : list A), (forall i, nth_error a i = nth_error b i) -> a = b.
Proof.
  induction a as [|x a IH]; intros [|y b] H.
  - reflexivity.
  - specialize (H O); discriminate.
  - specialize (H O); discriminate.
  - pose proof (H O) as H0. simpl in H0. injection H0 as <-. f_equal. apply IH. intros i. apply (H (S i)).
Qed.

(* ---- cells ---- *)
Definition cell {A} (t : list (list A)) (i j : nat) : option A :=
  match nth_error t i with Some row => nth_error row j | None => None end.

Lemma table_ext (t t' : table) :
  (forall i, nth_error t i = None <-> nth_error t' i = None) ->
  (forall i r r', nth_error t i = Some r -> nth_error t' i = Some r' -> length r = length r') ->
  (forall i j, cell t i j = cell t' i j) -> t = t'.
Proof.
  intros Hnone Hlen Hcell. apply nth_error_ext'. intros i.
  destruct (nth_error t i) as [r|] eqn:E; destruct (nth_error t' i) as [r'|] eqn:E'.
  - f_equal. apply nth_error_ext'. intros j. specialize (Hcell i j). unfold cell in Hcell. rewrite E, E' in Hcell. exact Hcell.
  - apply Hnone in E'. congruence.
  - apply Hnone in E. congruence.
  - reflexivity.
Qed.

Lemma nth_error_map_enumerate {A B} (F : nat * A -> B) (l : list A) k i :
  nth_error (map F (enumerate_from k l)) i = option_map (fun x => F ((k + i)%nat, x)) (nth_error l i).
Proof. rewrite nth_error_map, nth_error_enumerate. destruct (nth_error l i); reflexivity. Qed.

Lemma table_set_rows t i j v i' :
  nth_error (table_set t i j v) i' =
  option_map (fun row => if (i' =? i)%nat
                         then map (fun jb : nat * bool => if (fst jb =? j)%nat then v else snd jb) (enumerate_from 0 row)
                         else row) (nth_error t i').
Proof. unfold table_set. rewrite nth_error_map_enumerate. reflexivity. Qed.

Lemma table_set_cell t i j v i' j' :
  cell (table_set t i j v) i' j' =
  if ((i' =? i) && (j' =? j))%nat then option_map (fun _ => v) (cell t i j) else cell t i' j'.
Proof.
  unfold cell. rewrite table_set_rows. destruct (Nat.eqb_spec i' i) as [->|Hi]; simpl.
  - destruct (nth_error t i) as [row|]; simpl; [|destruct (j' =? j)%nat; reflexivity].
    rewrite nth_error_map_enumerate. simpl. destruct (Nat.eqb_spec j' j) as [->|Hj]; simpl; [reflexivity|].
    destruct (nth_error row j'); reflexivity.
  - destruct (nth_error t i'); reflexivity.
Qed.

Lemma table_set_row_length t i j v i' r r' :
  nth_error t i' = Some r -> nth_error (table_set t i j v) i' = Some r' -> length r' = length r.
Proof.
  intros Hr. rewrite table_set_rows, Hr. simpl. intros [= <-].
  destruct (i' =? i)%nat; [|reflexivity]. rewrite map_length, length_enumerate. reflexivity.
Qed.

(* ---- folding the substitutions ---- *)
Definition posb (p q : nat * nat) : bool := ((fst p =? fst q) && (snd p =? snd q))%nat.
Definition val_at (t : table) (p : nat * nat) : bool := nth (snd p) (nth (fst p) t []) false.

Definition sub_step (t : table) (pv : nat * nat * bool) : table := table_set t (fst (fst pv)) (snd (fst pv)) (snd pv).

Lemma fold_cells (t : table) : forall pos T,
  let T' := fold_left sub_step (combine pos (map (val_at t) pos)) T in
  (forall i, nth_error T' i = None <-> nth_error T i = None) /\
  (forall i r r', nth_error T i = Some r -> nth_error T' i = Some r' -> length r' = length r) /\
  forall i j, cell T' i j =
              if existsb (posb (i, j)) pos then option_map (fun _ => val_at t (i, j)) (cell T i j) else cell T i j.
Proof.
  induction pos as [|[pi pj] pos IH]; intros T; simpl.
  - repeat split; auto. intros i r r' H1 H2. congruence.
  - specialize (IH (sub_step T (pi, pj, val_at t (pi, pj)))). simpl in IH. destruct IH as (H1 & H2 & H3).
    unfold sub_step in *. simpl in *. split; [|split].
    + intros i. rewrite H1, table_set_rows. destruct (nth_error T i); simpl; split; congruence.
    + intros i r r' Hr Hr'. destruct (nth_error (table_set T pi pj (val_at t (pi, pj))) i) as [r1|] eqn:E1.
      * rewrite (H2 _ _ _ E1 Hr'). eapply table_set_row_length; eassumption.
      * apply H1 in E1. congruence.
    + intros i j. rewrite H3, table_set_cell. unfold posb at 2. simpl.
      destruct (Nat.eqb_spec i pi) as [->|Hi]; destruct (Nat.eqb_spec j pj) as [->|Hj]; simpl; try reflexivity.
      destruct (existsb (posb (pi, pj)) pos); destruct (cell T pi pj); reflexivity.
Qed.

(* ---- agreeing tables, cell by cell ---- *)
Lemma Forall2_nth_none {A B} (R : A -> B -> Prop) l l' :
  Forall2 R l l' -> forall i, nth_error l i = None <-> nth_error l' i = None.
Proof.
  intros H i. rewrite !nth_error_None, (Forall2_length' _ _ _ H). reflexivity.
Qed.

Lemma agrees_cells tm t : agrees tm t ->
  forall i j, match cell tm i j, cell t i j with
              | Some m, Some b => cell_agrees m b
              | None, None => True
              | _, _ => False
              end.
Proof.
  intros H i j. unfold cell.
  destruct (nth_error tm i) as [mrow|] eqn:Em; destruct (nth_error t i) as [row|] eqn:Er.
  - pose proof (Forall2_nth_elim _ _ _ H _ _ _ Em Er) as Hrow.
    destruct (nth_error mrow j) as [m|] eqn:Emj; destruct (nth_error row j) as [b|] eqn:Erj.
    + eapply (Forall2_nth_elim _ _ _ Hrow); eassumption.
    + apply (Forall2_nth_none _ _ _ Hrow) in Erj. congruence.
    + apply (Forall2_nth_none _ _ _ Hrow) in Emj. congruence.
    + exact I.
  - apply (Forall2_nth_none _ _ _ H) in Er. congruence.
  - apply (Forall2_nth_none _ _ _ H) in Em. congruence.
  - exact I.
Qed.

Lemma defined_table_cell tm i j :
  cell (defined_table tm) i j =
  option_map (fun v : option bool => match v with Some true => true | _ => false end) (cell tm i j).
Proof.
  unfold cell, defined_table. rewrite nth_error_map. destruct (nth_error tm i); simpl; [|reflexivity].
  apply nth_error_map.
Qed.

Lemma undefined_positions_complete tm i j :
  cell tm i j = Some None -> existsb (posb (i, j)) (undefined_positions tm) = true.
Proof.
  unfold cell. destruct (nth_error tm i) as [row|] eqn:Er; [|discriminate]. intros Hj.
  apply existsb_exists. exists (i, j). split; [|unfold posb; simpl; rewrite !Nat.eqb_refl; reflexivity].
  unfold undefined_positions. apply in_flat_map. exists (i, row). split.
  - apply enumerate_from_spec. rewrite Nat.sub_0_r. split; [lia|exact Er].
  - simpl. apply in_flat_map. exists (j, None). split; [|left; reflexivity].
    apply enumerate_from_spec. rewrite Nat.sub_0_r. split; [lia|exact Hj].
Qed.

Lemma undefined_positions_sound tm i j :
  existsb (posb (i, j)) (undefined_positions tm) = true -> cell tm i j = Some None.
Proof.
  intros H. apply existsb_exists in H as ([i' j'] & Hin & Hp). unfold posb in Hp. simpl in Hp.
  apply andb_true_iff in Hp as [Hi Hj]. apply Nat.eqb_eq in Hi, Hj. subst i' j'.
  destruct (undefined_positions_spec _ _ _ Hin) as (row & Hr & Hn). unfold cell. rewrite Hr. exact Hn.
Qed.

Lemma all_bool_vectors_complete : forall s, In s (all_bool_vectors (length s)).
Proof.
  induction s as [|b s IH]; simpl; [left; reflexivity|].
  apply in_or_app. destruct b; [right|left]; apply in_map; exact IH.
Qed.

(* every completion is an enumerated substitution *)
Theorem completion_is_enumerated tm t :
  agrees tm t ->
  exists s, In s (all_bool_vectors (length (undefined_positions tm))) /\
            substitute (defined_table tm) (undefined_positions tm) s = t.
Proof.
  intros Ha. set (pos := undefined_positions tm). exists (map (val_at t) pos). split.
  - rewrite <- (map_length (val_at t) pos). apply all_bool_vectors_complete.
  - unfold substitute. fold sub_step. change (fun (t0 : table) (pv : nat * nat * bool) => table_set t0 (fst (fst pv)) (snd (fst pv)) (snd pv)) with sub_step.
    destruct (fold_cells t pos (defined_table tm)) as (H1 & H2 & H3).
    set (T' := fold_left sub_step (combine pos (map (val_at t) pos)) (defined_table tm)) in *.
    pose proof (agrees_cells _ _ Ha) as Hc.
    assert (forall i, nth_error (defined_table tm) i = None <-> nth_error t i = None) as Hn0.
    { intros i. unfold defined_table. rewrite nth_error_map. rewrite <- (Forall2_nth_none _ _ _ Ha i).
      destruct (nth_error tm i); simpl; split; congruence. }
    apply table_ext.
    + intros i. rewrite H1. apply Hn0.
    + intros i r r' Hr Hr'.
      destruct (nth_error (defined_table tm) i) as [r0|] eqn:E0; [|apply H1 in E0; congruence].
      rewrite (H2 _ _ _ E0 Hr). unfold defined_table in E0. rewrite nth_error_map in E0.
      destruct (nth_error tm i) as [mrow|] eqn:Em; [|discriminate]. simpl in E0. injection E0 as <-.
      rewrite map_length. apply (Forall2_length' _ _ _ (Forall2_nth_elim _ _ _ Ha _ _ _ Em Hr')).
    + intros i j. rewrite H3, defined_table_cell. specialize (Hc i j).
      destruct (existsb (posb (i, j)) pos) eqn:Ep.
      * apply undefined_positions_sound in Ep. rewrite Ep in *. simpl.
        destruct (cell t i j) as [b|] eqn:Eb; [|contradiction]. f_equal.
        unfold val_at, cell in *. simpl. destruct (nth_error t i) as [row|] eqn:Er; [|discriminate].
        rewrite (nth_error_nth _ _ [] Er). apply nth_error_nth; exact Eb.
      * destruct (cell tm i j) as [[b|]|] eqn:Em; simpl.
        -- destruct (cell t i j) as [b'|]; [|contradiction]. simpl in Hc. subst b'. destruct b; reflexivity.
        -- apply undefined_positions_complete in Em. fold pos in Em. congruence.
        -- destruct (cell t i j); [contradiction|reflexivity].
Qed.

(* the statement of the property at full strength: no completion whatsoever has a smaller stored circuit *)
Theorem model_lookup_minimal_among_completions d tm excl c :
  get_by_raw_truth_table_model d tm excl = DbOk (Some c) ->
  forall t c2, agrees tm t -> get_by_raw_truth_table d t = DbOk (Some c2) ->
    (gates_number c excl <= gates_number c2 excl)%nat.
Proof.
  intros H t c2 Ha Hl. destruct (model_lookup_spec _ _ _ _ H) as (_ & Hmin).
  destruct (completion_is_enumerated _ _ Ha) as (s & Hs & Es).
  apply (Hmin s c2 Hs). unfold lookup_at. rewrite Es. exact Hl.
Qed.
