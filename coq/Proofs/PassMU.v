(* C03: MergeUnaryOperators.  rho = the even-NOT parent of a NOT-like gate / the IFF parent of an
   IFF-like gate.  Along top_sort the three dictionaries satisfy: the even parent has the same
   value as the gate, the odd parent the negated value, the IFF parent the same value.
   arity_ok is needed: LNOT/RNOT/LIFF/RIFF ignore one operand, and the gate has a value only if
   the ignored operand has one (in Python: evaluating a circuit with a wrong-arity gate raises). *)
Require Import Cirbo.Model.Base Cirbo.Model.Gate Cirbo.Model.Den Cirbo.Model.Circuit Cirbo.Model.Traverse
        Cirbo.Model.Eval Cirbo.Model.Sem Cirbo.Model.WF Cirbo.Model.Passes.
Require Import Cirbo.Generated.Operators Cirbo.Generated.GateTypes.
Require Import Cirbo.Proofs.DictFacts Cirbo.Proofs.OpFacts Cirbo.Proofs.WFBase Cirbo.Proofs.WFSimple
        Cirbo.Proofs.WFEmplace Cirbo.Proofs.TopSortWF Cirbo.Proofs.PassRebuild Cirbo.Proofs.PassRR.

(* ---------------- gates with one / two operands ---------------- *)
Lemma Eval_gate1 c a l t x w : dget (gates c) l = Some (mkGate t [x]) -> t <> INPUT ->
  (Eval c a l w <-> exists vx, Eval c a x vx /\ operator_of t [vx] = Ok w).
Proof.
  intros Hg Ht. split.
  - intros He. destruct (Eval_inv _ _ _ _ _ Hg He) as [[Hi _]|[_ (vs & Hvs & Hop)]]; [contradiction|].
    simpl in *. inversion Hvs as [|? vx ? vs0 Hx H0]; subst. inversion H0; subst. eauto.
  - intros (vx & Hx & Hop). eapply EvalGate; [exact Hg|exact Ht| |exact Hop]. simpl. repeat constructor. exact Hx.
Qed.

Lemma Eval_gate2 c a l t x y w : dget (gates c) l = Some (mkGate t [x; y]) -> t <> INPUT ->
  (Eval c a l w <-> exists vx vy, Eval c a x vx /\ Eval c a y vy /\ operator_of t [vx; vy] = Ok w).
Proof.
  intros Hg Ht. split.
  - intros He. destruct (Eval_inv _ _ _ _ _ Hg He) as [[Hi _]|[_ (vs & Hvs & Hop)]]; [contradiction|].
    simpl in *. inversion Hvs as [|? vx ? vs0 Hx H0]; subst. inversion H0 as [|? vy ? vs1 Hy H1]; subst.
    inversion H1; subst. eauto.
  - intros (vx & vy & Hx & Hy & Hop). eapply EvalGate; [exact Hg|exact Ht| |exact Hop].
    simpl. repeat constructor; assumption.
Qed.

Lemma opnot_invol v : opnot_ (opnot_ v) = v.
Proof. destruct v; reflexivity. Qed.
Lemma opnot_inj v w : opnot_ v = opnot_ w -> v = w.
Proof. destruct v, w; intros H; try reflexivity; vm_compute in H; discriminate. Qed.

(* p has the negated value of l, under every assignment *)
Definition neg_all (c : circuit) (p l : label) : Prop :=
  forall a v, Eval c a p v <-> Eval c a l (opnot_ v).

Lemma neg_neg_eqv c p o l : neg_all c p o -> neg_all c o l -> eqv_all c p l.
Proof. intros H1 H2 a v. rewrite (H1 a v), (H2 a (opnot_ v)), opnot_invol. tauto. Qed.
Lemma eqv_neg c q o l : eqv_all c q o -> neg_all c o l -> neg_all c q l.
Proof. intros H1 H2 a v. rewrite (H1 a v). apply H2. Qed.
Lemma eqv_all_trans c x y z : eqv_all c x y -> eqv_all c y z -> eqv_all c x z.
Proof. intros H1 H2 a. eapply eqv_trans; [apply H1|apply H2]. Qed.

Section Gates.
  Variable c : circuit.
  Hypothesis W : WF c.
  Hypothesis A : arity_ok c.

  Lemma not_like_neg l g oper :
    dget (gates c) l = Some g -> is_not_like (gtyp g) = true -> unary_operand g = Ok oper ->
    neg_all c oper l.
  Proof.
    intros Hg Hn Ho a v. pose proof (A l g Hg) as Har.
    assert (Hex : forall o, In o (gops g) -> exists vo, Eval c a o vo).
    { intros o Hin. apply Eval_exists; [exact W|exact A|eapply (wf_ops c W); eassumption]. }
    destruct g as [t ops]; simpl in *.
    destruct t; try discriminate; (specialize (Har ltac:(discriminate)));
      destruct ops as [|x [|y [|z r]]]; simpl in Har; try discriminate;
      unfold unary_operand, nth_res in Ho; simpl in Ho; injection Ho as <-.
    - (* LNOT *) rewrite (Eval_gate2 c a l LNOT x y _ Hg ltac:(discriminate)). split.
      + intros Hx. destruct (Hex y (or_intror (or_introl eq_refl))) as [vy Hy]. exists v, vy. auto.
      + intros (vx & vy & Hx & _ & Hop). simpl in Hop. injection Hop as Hop. unfold oplnot_ in Hop.
        apply opnot_inj in Hop. subst; exact Hx.
    - (* NOT *) rewrite (Eval_gate1 c a l NOT x _ Hg ltac:(discriminate)). split.
      + intros Hx. exists v. auto.
      + intros (vx & Hx & Hop). simpl in Hop. injection Hop as Hop. apply opnot_inj in Hop. subst; exact Hx.
    - (* RNOT *) rewrite (Eval_gate2 c a l RNOT x y _ Hg ltac:(discriminate)). split.
      + intros Hy. destruct (Hex x (or_introl eq_refl)) as [vx Hx]. exists vx, v. auto.
      + intros (vx & vy & _ & Hy & Hop). simpl in Hop. injection Hop as Hop. unfold oprnot_ in Hop.
        apply opnot_inj in Hop. subst; exact Hy.
  Qed.

  Lemma iff_like_eqv l g oper :
    dget (gates c) l = Some g -> is_iff_like (gtyp g) = true -> unary_operand g = Ok oper ->
    eqv_all c oper l.
  Proof.
    intros Hg Hn Ho a v. pose proof (A l g Hg) as Har.
    assert (Hex : forall o, In o (gops g) -> exists vo, Eval c a o vo).
    { intros o Hin. apply Eval_exists; [exact W|exact A|eapply (wf_ops c W); eassumption]. }
    destruct g as [t ops]; simpl in *.
    destruct t; try discriminate; (specialize (Har ltac:(discriminate)));
      destruct ops as [|x [|y [|z r]]]; simpl in Har; try discriminate;
      unfold unary_operand, nth_res in Ho; simpl in Ho; injection Ho as <-.
    - (* IFF *) rewrite (Eval_gate1 c a l IFF x _ Hg ltac:(discriminate)). split.
      + intros Hx. exists v. auto.
      + intros (vx & Hx & Hop). simpl in Hop. injection Hop as <-. exact Hx.
    - (* LIFF *) rewrite (Eval_gate2 c a l LIFF x y _ Hg ltac:(discriminate)). split.
      + intros Hx. destruct (Hex y (or_intror (or_introl eq_refl))) as [vy Hy]. exists v, vy. auto.
      + intros (vx & vy & Hx & _ & Hop). simpl in Hop. injection Hop as <-. exact Hx.
    - (* RIFF *) rewrite (Eval_gate2 c a l RIFF x y _ Hg ltac:(discriminate)). split.
      + intros Hy. destruct (Hex x (or_introl eq_refl)) as [vx Hx]. exists vx, v. auto.
      + intros (vx & vy & _ & Hy & Hop). simpl in Hop. injection Hop as <-. exact Hy.
  Qed.

  (* ---------------- the three dictionaries ---------------- *)
  Record MUInv (m : mu_maps) : Prop := mkMUInv {
    mu_even_ok : forall l p, dget (mu_even m) l = Some p -> eqv_all c p l;
    mu_odd_ok : forall l p, dget (mu_odd m) l = Some p -> neg_all c p l;
    mu_iff_ok : forall l p, dget (mu_iff m) l = Some p -> eqv_all c p l }.

  Lemma mget_eqv (d : dict label) x :
    (forall l p, dget d l = Some p -> eqv_all c p l) -> eqv_all c (mget d x) x.
  Proof. intros H. unfold mget. destruct (dget d x) as [p|] eqn:E; [apply H; exact E|apply eqv_all_refl]. Qed.

  Lemma mu_step_inv m l m' : MUInv m -> mu_step c m l = Ok m' -> MUInv m'.
  Proof.
    intros I H. unfold mu_step in H. binv H g Hg. apply get_gate_ok in Hg. binv H m1 H1.
    assert (I1 : MUInv m1).
    { destruct (is_not_like (gtyp g)) eqn:En; [|injection H1 as <-; exact I].
      binv H1 oper Ho. injection H1 as <-.
      pose proof (not_like_neg l g oper Hg En Ho) as Hneg.
      assert (He : forall l0 p, dget (match dget (mu_odd m) oper with
                                      | Some p => dset (mu_even m) l p | None => mu_even m end) l0 = Some p ->
                                eqv_all c p l0).
      { intros l0 p. destruct (dget (mu_odd m) oper) as [q|] eqn:Eq; [|apply (mu_even_ok m I)].
        rewrite dget_dset. destruct (leqb_spec l0 l) as [->|_]; [|apply (mu_even_ok m I)].
        intros [= <-]. eapply neg_neg_eqv; [apply (mu_odd_ok m I); exact Eq|exact Hneg]. }
      constructor; simpl.
      - exact He.
      - intros l0 p. rewrite dget_dset. destruct (leqb_spec l0 l) as [->|_]; [|apply (mu_odd_ok m I)].
        intros [= <-]. eapply eqv_neg; [apply mget_eqv; exact He|exact Hneg].
      - apply (mu_iff_ok m I). }
    destruct (is_iff_like (gtyp g)) eqn:Ei; [|injection H as <-; exact I1].
    binv H oper Ho. injection H as <-.
    pose proof (iff_like_eqv l g oper Hg Ei Ho) as Heq.
    constructor; simpl; [apply (mu_even_ok m1 I1)|apply (mu_odd_ok m1 I1)|].
    intros l0 p. rewrite dget_dset. destruct (leqb_spec l0 l) as [->|_]; [|apply (mu_iff_ok m1 I1)].
    intros [= <-]. eapply eqv_all_trans; [apply mget_eqv, (mu_iff_ok m1 I1)|exact Heq].
  Qed.

  Lemma mu_fold_inv order m : foldM (mu_step c) order (mkMu [] [] []) = Ok m -> MUInv m.
  Proof.
    apply (foldM_ok_inv _ MUInv).
    - intros s x s' _. apply mu_step_inv.
    - constructor; simpl; intros; discriminate.
  Qed.

  Lemma mu_remap_R m x x' : MUInv m -> mu_remap c m x = Ok x' -> eqv_all c x' x.
  Proof.
    intros I H. unfold mu_remap in H. binv H g Hg.
    destruct (is_not_like (gtyp g)); [injection H as <-; apply mget_eqv, (mu_even_ok m I)|].
    destruct (is_iff_like (gtyp g)); injection H as <-; [apply mget_eqv, (mu_iff_ok m I)|apply eqv_all_refl].
  Qed.

  Lemma mu_remaps_R m xs xs' : MUInv m -> mapM (mu_remap c m) xs = Ok xs' -> Forall2 (eqv_all c) xs' xs.
  Proof.
    intros I H. apply mapM_ok_Forall2 in H. induction H as [|x x' xs xs' Hx _ IH]; constructor; [|exact IH].
    eapply mu_remap_R; eassumption.
  Qed.

  (* ---------------- the rebuild ---------------- *)
  Definition mu_emit (m : mu_maps) (n : circuit) (l : label) : res circuit :=
    do g <- get_gate c l;
    do ops <- mapM (mu_remap c m) (gops g);
    emplace_gate n l (gtyp g) ops.

  Record MUBuild (pre : list label) (n : circuit) : Prop := mkMUBuild {
    mub_wf : WF n;
    mub_sim : sim c (eqv_all c) n;
    mub_keys : forall x, has_gate n x = true <-> In x pre }.

  Lemma mu_emit_inv m pre n l n' : MUInv m -> MUBuild pre n -> mu_emit m n l = Ok n' -> MUBuild (pre ++ [l]) n'.
  Proof.
    intros I [Wn S K] H. unfold mu_emit in H. binv H g Hg. apply get_gate_ok in Hg. binv H ops Hops.
    destruct (emplace_gate_frame _ _ _ _ _ H) as (_ & _ & Hh & _). constructor.
    - eapply emplace_gate_wf; eassumption.
    - eapply sim_emplace; [exact S|exact Hg|reflexivity| |exact H]. intros _. eapply mu_remaps_R; eassumption.
    - intros x. rewrite Hh, in_app_iff, <- K. simpl.
      destruct (leqb_spec x l) as [->|Hne]; simpl; [tauto|]. split; [tauto|]. intros [Hx|[Hx|[]]]; congruence.
  Qed.

  Theorem mu_rebuilt c' :
    merge_unary_operators c = Ok c' ->
    Rebuilt c (eqv_all c) c' /\ inputs c' = inputs c /\ inputs c' = filter (has_gate c') (inputs c).
  Proof.
    intros H. unfold merge_unary_operators in H. binv H order Hord. binv H m Hm. binv H emit Hem.
    binv H n1 H1. binv H n2 H2. binv H outs Houts.
    pose proof (mu_fold_inv order m Hm) as I.
    change (foldM (mu_emit m) emit empty_circuit = Ok n1) in H1.
    assert (B1 : MUBuild emit n1).
    { apply (foldM_prefix (mu_emit m) MUBuild emit) with (l := emit) (pre := []) (s := empty_circuit) (s' := n1).
      - intros pre x post s s' _. apply mu_emit_inv. exact I.
      - reflexivity.
      - constructor; [apply WF_empty|apply sim_empty|]. intros x; simpl; split; [discriminate|tauto].
      - exact H1. }
    destruct B1 as [W1 S1 K1].
    pose proof (mu_remaps_R m _ _ I Houts) as HR.
    destruct (finish_rebuilt c (eqv_all c) n1 n2 outs c' W1 S1 H2 HR H) as (Hr & Hi & Hf & _). auto.
  Qed.
End Gates.

(* C03 for MergeUnaryOperators: three-valued assignments, inputs kept *)
Theorem mu_pres c c' :
  WF c -> arity_ok c -> merge_unary_operators c = Ok c' -> Pres true true c c'.
Proof.
  intros W A H. destruct (mu_rebuilt c W A c' H) as (Hr & Hi & Hf).
  eapply Pres_of_rebuilt; [exact A|exact Hr|exact Hf|intros _; exact Hi|].
  intros a _ x' x HR. apply HR.
Qed.
