(* Normal termination of the generation.py gadgets.  New gates carry either caller-chosen labels
   or uuid labels, so the statements need what the implementation silently relies on:
   the naming function is injective, and caller-chosen labels are new, pairwise distinct and
   (for the pairwise if-then-else gadget, whose temporaries are generated between the uses of
   the result labels) not of the uuid shape. *)
Require Import Cirbo.Model.Base Cirbo.Model.Gate Cirbo.Model.Circuit Cirbo.Model.Builder.
Require Import Cirbo.Model.ArithMisc.
Require Import Cirbo.Proofs.DictFacts Cirbo.Proofs.BuilderFacts Cirbo.Proofs.ArithFacts
  Cirbo.Proofs.TotalFacts Cirbo.Proofs.ArithMiscFacts Cirbo.Proofs.ArithTotalFacts.
Require Import Coq.Logic.FinFun.

Section TotalMisc.
  Variable fresh : N -> label.
  Hypothesis Hinj : Injective fresh.
  Let Hf : fresh_total fresh := injective_fresh_total fresh Hinj.

  (* l was produced by the uuid counter at a position in [lo, hi) *)
  Definition minted (lo hi : N) (l : label) : Prop := exists k, (lo <= k < hi)%N /\ l = fresh k.

  Lemma minted_mono lo hi lo' hi' l : (lo' <= lo)%N -> (hi <= hi')%N -> minted lo hi l -> minted lo' hi' l.
  Proof. intros H1 H2 (k & Hk & ->). exists k. split; [lia|reflexivity]. Qed.

  Lemma minted_disjoint a b c d l : (b <= c)%N -> minted a b l -> minted c d l -> False.
  Proof. intros H (k & Hk & ->) (k' & Hk' & E). apply Hinj in E. lia. Qed.

  Lemma fresh_loop_minted c restr : forall fuel k l k',
    fresh_loop fresh c restr fuel k = Ok (l, k') -> minted k k' l.
  Proof.
    induction fuel as [|f IH]; intros k l k' H; [discriminate|]. cbn [fresh_loop] in H.
    destruct (has_gate c (fresh k) || memb (fresh k) restr).
    - apply IH in H. eapply minted_mono; [| |exact H]; lia.
    - injection H as <- <-. exists k. split; [lia|reflexivity].
  Qed.

  Lemma fresh_ok2 restr s :
    exists l s', run fresh (Fresh restr) s = Ok (l, s') /\ bc s' = bc s /\
                 has_gate (bc s) l = false /\ ~ In l restr /\ minted (bk s) (bk s') l /\ (bk s < bk s')%N.
  Proof.
    destruct (Hf (bc s) restr (bk s)) as (l & k' & E).
    exists l, (mkB (bc s) k'). cbn [run]. rewrite E. cbn [bind fst snd bc bk].
    pose proof (fresh_loop_minted _ _ _ _ _ _ E) as Hm.
    apply fresh_loop_inv in E as (H1 & H2 & H3). auto 7.
  Qed.

  Lemma fresh_n_ok n : forall s,
    exists ls s', run fresh (fresh_n n) s = Ok (ls, s') /\ bc s' = bc s /\ length ls = n /\
                  NoDup ls /\ (bk s <= bk s')%N /\
                  Forall (fun l => has_gate (bc s) l = false /\ minted (bk s) (bk s') l) ls.
  Proof.
    induction n as [|n IH]; intros s; cbn [fresh_n].
    - exists [], s. cbn [run]. split; [reflexivity|]. split; [reflexivity|]. split; [reflexivity|].
      split; [constructor|]. split; [lia|constructor].
    - destruct (fresh_ok2 [] s) as (l & s1 & E1 & Ec & Hl & _ & Hm & Hlt).
      rewrite (bind_ok _ _ _ _ _ _ E1).
      destruct (IH s1) as (ls & s2 & E2 & Ec2 & L & Nd & Hle & Hall).
      rewrite (bind_ok _ _ _ _ _ _ E2). cbn [run]. eexists _, _. split; [reflexivity|].
      split; [congruence|]. split; [simpl; congruence|]. split; [|split; [lia|]].
      + constructor; [|exact Nd]. intros Hin. eapply Forall_forall in Hall; [|exact Hin].
        destruct Hall as (_ & Hm2). eapply minted_disjoint; [|exact Hm|exact Hm2]. lia.
      + constructor; [split; [exact Hl|eapply minted_mono; [| |exact Hm]; lia]|].
        eapply Forall_impl; [|exact Hall]. intros x (Hx & Hmx). rewrite Ec in Hx.
        split; [exact Hx|eapply minted_mono; [| |exact Hmx]; lia].
  Qed.

  Lemma fresh_list_ok n : forall restr s,
    exists ls s', run fresh (fresh_list n restr) s = Ok (ls, s') /\ bc s' = bc s /\ length ls = n /\
                  NoDup ls /\ (bk s <= bk s')%N /\
                  Forall (fun l => has_gate (bc s) l = false /\ ~ In l restr /\ minted (bk s) (bk s') l) ls.
  Proof.
    induction n as [|n IH]; intros restr s; cbn [fresh_list].
    - exists [], s. cbn [run]. split; [reflexivity|]. split; [reflexivity|]. split; [reflexivity|].
      split; [constructor|]. split; [lia|constructor].
    - destruct (fresh_ok2 restr s) as (l & s1 & E1 & Ec & Hl & Hr & Hm & Hlt).
      rewrite (bind_ok _ _ _ _ _ _ E1).
      destruct (IH (restr ++ [l]) s1) as (ls & s2 & E2 & Ec2 & L & Nd & Hle & Hall).
      rewrite (bind_ok _ _ _ _ _ _ E2). cbn [run]. eexists _, _. split; [reflexivity|].
      split; [congruence|]. split; [simpl; congruence|]. split; [|split; [lia|]].
      + constructor; [|exact Nd]. intros Hin. eapply Forall_forall in Hall; [|exact Hin].
        destruct Hall as (_ & Hn & _). apply Hn. apply in_app_iff. right. left. reflexivity.
      + constructor; [split; [exact Hl|split; [exact Hr|eapply minted_mono; [| |exact Hm]; lia]]|].
        eapply Forall_impl; [|exact Hall]. intros x (Hx & Hnx & Hmx). rewrite Ec in Hx.
        split; [exact Hx|]. split; [intros Hi; apply Hnx; apply in_app_iff; left; exact Hi|].
        eapply minted_mono; [| |exact Hmx]; lia.
  Qed.

  (* what AddGate does to the set of labels *)
  Lemma addgate_ok2 l t ops s :
    t <> INPUT -> has_gate (bc s) l = false -> Forall (fun o => has_gate (bc s) o = true) ops ->
    exists s', run fresh (AddGate l t ops) s = Ok (tt, s') /\ bk s' = bk s /\
               forall k, has_gate (bc s') k = has_gate (bc s) k || leqb k l.
  Proof.
    intros Ht Hl Hops. destruct (addgate_ok fresh l t ops s Ht Hl Hops) as (s' & E & _ & Hk).
    exists s'. split; [exact E|]. split; [exact Hk|].
    apply run_addgate_inv in E as (_ & He & _).
    apply emplace_gate_inv in He as (_ & _ & G & _); [|exact Ht].
    intros k. unfold has_gate, dmem. rewrite G, dget_app.
    destruct (dget (gates (bc s)) k); [reflexivity|]. simpl. destruct (leqb k l); reflexivity.
  Qed.

  Lemma when_mark_ok b l s :
    has_gate (bc s) l = true ->
    exists s', run fresh (when b (MarkOutput l)) s = Ok (tt, s') /\ bk s' = bk s /\ gates (bc s') = gates (bc s).
  Proof.
    intros Hl. destruct b; simpl when.
    - destruct (markoutput_ok fresh l s Hl) as (s' & E). exists s'. split; [exact E|].
      apply run_markoutput_inv in E as (Ho & Hk). apply mark_as_output_inv in Ho as (_ & G & _). auto.
    - exists s. cbn [run]. auto.
  Qed.

  Lemma has_gate_gates_eq c c' l : gates c' = gates c -> has_gate c' l = has_gate c l.
  Proof. unfold has_gate. intros ->. reflexivity. Qed.

  (* ---- add_if_then_else ---- *)
  Lemma add_if_then_else_ok i t e res ao s :
    has_gate (bc s) i = true -> has_gate (bc s) t = true -> has_gate (bc s) e = true ->
    (forall r0, res = Some r0 -> has_gate (bc s) r0 = false) ->
    exists r s', run fresh (add_if_then_else i t e res ao) s = Ok (r, s') /\
      (forall r0, res = Some r0 -> r = r0) /\ (bk s <= bk s')%N /\
      forall l, has_gate (bc s') l = true -> has_gate (bc s) l = true \/ l = r \/ minted (bk s) (bk s') l.
  Proof.
    intros Hi Ht He Hres. unfold add_if_then_else.
    assert (exists r s0, run fresh (match res with Some r => Ret r | None => Fresh [] end) s = Ok (r, s0) /\
              bc s0 = bc s /\ has_gate (bc s) r = false /\ (forall r0, res = Some r0 -> r = r0) /\
              (bk s <= bk s0)%N) as (r & s0 & E0 & Ec0 & Hr & Hrr & Hk0).
    { destruct res as [r0|].
      - exists r0, s. cbn [run]. repeat split; auto; [|lia]. intros ? [= <-]. reflexivity.
      - destruct (fresh_ok2 [] s) as (l & s1 & E1 & Ec & Hl & _ & _ & Hlt).
        exists l, s1. repeat split; auto; [discriminate|lia]. }
    rewrite (bind_ok _ _ _ _ _ _ E0).
    destruct (fresh_list_ok 3 [r] s0) as (tmp & s1 & E1 & Ec1 & L & Nd & Hk1 & Hall).
    rewrite (bind_ok _ _ _ _ _ _ E1).
    destruct tmp as [|t0 [|t1 [|t2 [|]]]]; try discriminate.
    inversion Hall as [|? ? (F0 & R0 & M0) Hall1]; subst. inversion Hall1 as [|? ? (F1 & R1 & M1) Hall2]; subst.
    inversion Hall2 as [|? ? (F2 & R2 & M2) _]; subst.
    inversion Nd as [|? ? N0 Nd1]; subst. inversion Nd1 as [|? ? N1 _]; subst.
    rewrite Ec0 in F0, F1, F2.
    assert (t1 <> t0 /\ t2 <> t0 /\ t2 <> t1 /\ r <> t0 /\ r <> t1 /\ r <> t2) as (D10 & D20 & D21 & Dr0 & Dr1 & Dr2).
    { repeat split; intros ->; try (apply N0; simpl; tauto); try (apply N1; simpl; tauto);
        [apply R0|apply R1|apply R2]; left; reflexivity. }
    destruct (addgate_ok2 t0 AND [i; t] s1) as (s2 & E2 & K2 & G2);
      [discriminate|rewrite Ec1, Ec0; exact F0|rewrite Ec1, Ec0; constructor; [exact Hi|constructor; [exact Ht|constructor]]|].
    rewrite (bind_ok _ _ _ _ _ _ E2).
    assert (forall k, has_gate (bc s1) k = has_gate (bc s) k) as G1 by (intros; rewrite Ec1, Ec0; reflexivity).
    destruct (addgate_ok2 t1 NOT [i] s2) as (s3 & E3 & K3 & G3);
      [discriminate|rewrite G2, G1, F1; simpl; apply leqb_neq; exact D10
       |constructor; [rewrite G2, G1, Hi; reflexivity|constructor]|].
    rewrite (bind_ok _ _ _ _ _ _ E3).
    destruct (addgate_ok2 t2 AND [t1; e] s3) as (s4 & E4 & K4 & G4);
      [discriminate| |constructor; [rewrite G3, leqb_refl, orb_true_r; reflexivity
                                   |constructor; [rewrite G3, G2, G1, He; reflexivity|constructor]]|].
    { rewrite G3, G2, G1, F2. simpl. apply orb_false_iff. split; apply leqb_neq; assumption. }
    rewrite (bind_ok _ _ _ _ _ _ E4).
    destruct (addgate_ok2 r OR [t0; t2] s4) as (s5 & E5 & K5 & G5); [discriminate| | |].
    { rewrite G4, G3, G2, G1, Hr. simpl. repeat (apply orb_false_iff; split); apply leqb_neq; assumption. }
    { constructor; [rewrite G4, G3, G2, leqb_refl; rewrite !orb_true_r; reflexivity|].
      constructor; [rewrite G4, leqb_refl, orb_true_r; reflexivity|constructor]. }
    rewrite (bind_ok _ _ _ _ _ _ E5).
    destruct (when_mark_ok ao r s5) as (s6 & E6 & K6 & G6); [rewrite G5, leqb_refl, orb_true_r; reflexivity|].
    rewrite (bind_ok _ _ _ _ _ _ E6). cbn [run]. eexists _, _. split; [reflexivity|].
    split; [exact Hrr|]. split; [lia|].
    intros l Hl. rewrite (has_gate_gates_eq _ _ _ G6), G5, G4, G3, G2, G1 in Hl.
    rewrite K6, K5, K4, K3, K2.
    apply orb_true_iff in Hl as [Hl|Hl]; [|apply leqb_eq in Hl; auto].
    apply orb_true_iff in Hl as [Hl|Hl]; [|apply leqb_eq in Hl; subst; right; right; eapply minted_mono; [| |exact M2]; lia].
    apply orb_true_iff in Hl as [Hl|Hl]; [|apply leqb_eq in Hl; subst; right; right; eapply minted_mono; [| |exact M1]; lia].
    apply orb_true_iff in Hl as [Hl|Hl]; [auto|apply leqb_eq in Hl; subst; right; right; eapply minted_mono; [| |exact M0]; lia].
  Qed.

  Theorem add_if_then_else_total i t e res ao s :
    has_gate (bc s) i = true -> has_gate (bc s) t = true -> has_gate (bc s) e = true ->
    (forall r0, res = Some r0 -> has_gate (bc s) r0 = false) ->
    exists r s', run fresh (add_if_then_else i t e res ao) s = Ok (r, s').
  Proof. intros. destruct (add_if_then_else_ok i t e res ao s) as (r & s' & E & _); eauto. Qed.

  (* ---- label bookkeeping ---- *)
  Definition absent (c : circuit) (ls : list label) : Prop := Forall (fun l => has_gate c l = false) ls.

  Lemma absent_after_add c c' l ls :
    (forall k, has_gate c' k = has_gate c k || leqb k l) -> absent c ls -> ~ In l ls -> absent c' ls.
  Proof.
    intros G H Hn. unfold absent in *. apply Forall_forall. intros k Hk. rewrite G.
    eapply Forall_forall in H; [|exact Hk]. rewrite H. simpl. apply leqb_neq. intros ->. contradiction.
  Qed.

  Lemma all_exist_after_add c c' l ls :
    (forall k, has_gate c' k = has_gate c k || leqb k l) -> all_exist c ls -> all_exist c' ls.
  Proof. intros G H. eapply Forall_impl; [|exact H]. intros k Hk. rewrite G, Hk. reflexivity. Qed.

  (* ---- add_pairwise_xor ---- *)
  Lemma xor_loop_ok ao xs : forall ys rs s,
    all_exist (bc s) xs -> all_exist (bc s) ys -> length ys = length xs -> length rs = length xs ->
    NoDup rs -> absent (bc s) rs ->
    exists s', run fresh (xor_loop xs ys rs ao) s = Ok (tt, s').
  Proof.
    induction xs as [|x xs IH]; intros ys rs s Ax Ay Ly Lr Nd Ab;
      destruct ys as [|y ys]; try discriminate; destruct rs as [|r rs]; try discriminate; cbn [xor_loop].
    - exists s. reflexivity.
    - inversion Ax; subst. inversion Ay; subst. inversion Nd; subst. inversion Ab; subst.
      destruct (addgate_ok2 r XOR [x; y] s) as (s1 & E1 & K1 & G1);
        [discriminate|assumption|constructor; [assumption|constructor; [assumption|constructor]]|].
      rewrite (bind_ok _ _ _ _ _ _ E1).
      destruct (when_mark_ok ao r s1) as (s2 & E2 & K2 & G2); [rewrite G1, leqb_refl, orb_true_r; reflexivity|].
      rewrite (bind_ok _ _ _ _ _ _ E2).
      assert (forall k, has_gate (bc s2) k = has_gate (bc s) k || leqb k r) as G
        by (intros k; rewrite (has_gate_gates_eq _ _ _ G2); apply G1).
      apply IH; try (simpl in *; lia); try assumption.
      + eapply all_exist_after_add; eassumption.
      + eapply all_exist_after_add; eassumption.
      + eapply absent_after_add; eassumption.
  Qed.

  Theorem add_pairwise_xor_total xs ys res ao s :
    all_exist (bc s) xs -> all_exist (bc s) ys -> length ys = length xs ->
    (forall rl, res = Some rl -> length rl = length xs /\ NoDup rl /\ absent (bc s) rl) ->
    exists r s', run fresh (add_pairwise_xor xs ys res ao) s = Ok (r, s').
  Proof.
    intros Ax Ay Ly Hres. unfold add_pairwise_xor. rewrite Ly, Nat.eqb_refl. cbn [negb].
    assert (exists rl s0, run fresh (match res with Some r => Ret r | None => fresh_n (length xs) end) s = Ok (rl, s0) /\
              bc s0 = bc s /\ length rl = length xs /\ NoDup rl /\ absent (bc s) rl)
      as (rl & s0 & E0 & Ec & L & Nd & Ab).
    { destruct res as [rl|].
      - destruct (Hres rl eq_refl) as (L & Nd & Ab). exists rl, s. cbn [run]. auto.
      - destruct (fresh_n_ok (length xs) s) as (ls & s1 & E1 & Ec & L & Nd & _ & Hall).
        exists ls, s1. repeat split; auto. eapply Forall_impl; [|exact Hall]. intros l (Hl & _). exact Hl. }
    rewrite (bind_ok _ _ _ _ _ _ E0). rewrite L, Nat.eqb_refl. cbn [negb].
    destruct (xor_loop_ok ao xs ys rl s0) as (s1 & E1); try assumption; try (rewrite Ec; assumption).
    rewrite (bind_ok _ _ _ _ _ _ E1). cbn [run]. eauto.
  Qed.

  (* ---- add_pairwise_if_then_else ---- *)
  Lemma ite_loop_ok ao is_ : forall ts es rs s,
    all_exist (bc s) is_ -> all_exist (bc s) ts -> all_exist (bc s) es ->
    length ts = length is_ -> length es = length is_ -> length rs = length is_ ->
    NoDup rs -> absent (bc s) rs -> (forall r hi, In r rs -> ~ minted (bk s) hi r) ->
    exists s', run fresh (ite_loop is_ ts es rs ao) s = Ok (tt, s').
  Proof.
    induction is_ as [|i is_ IH]; intros ts es rs s Ai At Ae Lt Le Lr Nd Ab Hm;
      destruct ts as [|t ts]; try discriminate; destruct es as [|e es]; try discriminate;
      destruct rs as [|r rs]; try discriminate; cbn [ite_loop].
    - exists s. reflexivity.
    - inversion Ai; subst. inversion At; subst. inversion Ae; subst. inversion Nd; subst. inversion Ab; subst.
      destruct (add_if_then_else_ok i t e (Some r) ao s) as (r' & s1 & E1 & Hr & Hk & Hnew); try assumption.
      { intros ? [= <-]. assumption. }
      rewrite (Hr r eq_refl) in *. clear Hr.
      rewrite (bind_ok _ _ _ _ _ _ E1). pose proof (run_ext _ _ _ _ _ E1) as X1.
      apply IH; try (simpl in *; lia); try (eapply all_exist_ext; eassumption); try assumption.
      + apply Forall_forall. intros k Hk'. destruct (has_gate (bc s1) k) eqn:Ek; [|reflexivity]. exfalso.
        destruct (Hnew k Ek) as [Hold|[->|Hmint]].
        * match goal with Hab : Forall _ rs |- _ => eapply Forall_forall in Hab; [|exact Hk']; congruence end.
        * contradiction.
        * eapply Hm; [right; exact Hk'|exact Hmint].
      + intros k hi Hk' Hmint. eapply (Hm k hi); [right; exact Hk'|]. eapply minted_mono; [| |exact Hmint]; lia.
  Qed.

  Theorem add_pairwise_if_then_else_total is_ ts es res ao s :
    all_exist (bc s) is_ -> all_exist (bc s) ts -> all_exist (bc s) es ->
    length ts = length is_ -> length es = length is_ ->
    (forall rl, res = Some rl -> length rl = length is_ /\ NoDup rl /\ absent (bc s) rl /\
                                 forall r k, In r rl -> r <> fresh k) ->
    exists r s', run fresh (add_pairwise_if_then_else is_ ts es res ao) s = Ok (r, s').
  Proof.
    intros Ai At Ae Lt Le Hres. unfold add_pairwise_if_then_else.
    rewrite Lt, Le, !Nat.eqb_refl. cbn [andb negb].
    assert (exists rl s0, run fresh (match res with Some r => Ret r | None => fresh_n (length is_) end) s = Ok (rl, s0) /\
              bc s0 = bc s /\ length rl = length is_ /\ NoDup rl /\ absent (bc s) rl /\
              forall r hi, In r rl -> ~ minted (bk s0) hi r)
      as (rl & s0 & E0 & Ec & L & Nd & Ab & Hm).
    { destruct res as [rl|].
      - destruct (Hres rl eq_refl) as (L & Nd & Ab & Hne). exists rl, s. cbn [run]. repeat split; auto.
        intros r hi Hr (k & _ & E). exact (Hne r k Hr E).
      - destruct (fresh_n_ok (length is_) s) as (ls & s1 & E1 & Ec & L & Nd & _ & Hall).
        exists ls, s1. repeat split; auto.
        + eapply Forall_impl; [|exact Hall]. intros l (Hl & _). exact Hl.
        + intros r hi Hr Hmint. eapply Forall_forall in Hall; [|exact Hr]. destruct Hall as (_ & Hm0).
          eapply minted_disjoint; [|exact Hm0|exact Hmint]. lia. }
    rewrite (bind_ok _ _ _ _ _ _ E0). rewrite L, Nat.eqb_refl. cbn [negb].
    destruct (ite_loop_ok ao is_ ts es rl s0) as (s1 & E1); try assumption; try (rewrite Ec; assumption).
    rewrite (bind_ok _ _ _ _ _ _ E1). cbn [run]. eauto.
  Qed.

  (* ---- add_plus_one ---- *)
  Lemma NoDup_app_l {A} (l1 l2 : list A) : NoDup (l1 ++ l2) -> NoDup l1.
  Proof. induction l1; simpl; intros H; [constructor|]. inversion H; subst. constructor; [intros Hi; apply H2, in_app_iff; auto|auto]. Qed.

  Lemma NoDup_app_intro {A} (l1 l2 : list A) :
    NoDup l1 -> NoDup l2 -> (forall k, In k l1 -> In k l2 -> False) -> NoDup (l1 ++ l2).
  Proof.
    induction l1 as [|x l1 IH]; simpl; intros H1 H2 Hd; [exact H2|]. inversion H1; subst.
    constructor; [rewrite in_app_iff; intros [Hi|Hi]; [contradiction|eapply Hd; [left; reflexivity|exact Hi]]|].
    apply IH; [assumption|assumption|]. intros k Hk1 Hk2. eapply Hd; [right; exact Hk1|exact Hk2].
  Qed.

  Lemma plus_loop_ok res : forall inp car pc at_len s,
    all_exist (bc s) inp -> (res = [] \/ has_gate (bc s) pc = true) ->
    (length res <= length car)%nat -> NoDup (res ++ car) -> absent (bc s) (res ++ car) ->
    exists s', run fresh (plus_loop inp res car pc at_len) s = Ok (tt, s') /\ all_exist (bc s') res.
  Proof.
    induction res as [|r res' IH]; intros inp car pc at_len s Ai Hpc Lc Nd Ab.
    - destruct inp; cbn [plus_loop]; exists s; (split; [reflexivity|constructor]).
    - destruct Hpc as [Hpc|Hpc]; [discriminate|].
      destruct car as [|ci car']; [simpl in Lc; lia|].
      assert (~ In r (res' ++ ci :: car') /\ NoDup (res' ++ ci :: car')) as (Nr & Nd') by (inversion Nd; auto).
      assert (has_gate (bc s) r = false /\ absent (bc s) (res' ++ ci :: car')) as (Fr & Ab') by (inversion Ab; auto).
      assert (has_gate (bc s) ci = false) as Fci.
      { eapply Forall_forall in Ab'; [exact Ab'|]. apply in_app_iff. right. left. reflexivity. }
      assert (r <> ci) as Drc by (intros ->; apply Nr, in_app_iff; right; left; reflexivity).
      assert (NoDup (res' ++ car') /\ ~ In ci (res' ++ car')) as (Nd'' & Nci).
      { split; [eapply NoDup_remove_1; exact Nd'|eapply NoDup_remove_2; exact Nd']. }
      assert (~ In r (res' ++ car')) as Nr'.
      { intros Hi. apply Nr. apply in_app_iff in Hi as [Hi|Hi]; apply in_app_iff; [left|right; right]; exact Hi. }
      assert (absent (bc s) (res' ++ car')) as Ab''.
      { unfold absent in *. apply Forall_forall. intros k Hk. eapply Forall_forall in Ab'; [exact Ab'|].
        apply in_app_iff in Hk as [Hk|Hk]; apply in_app_iff; [left|right; right]; exact Hk. }
      destruct inp as [|x inp']; cbn [plus_loop].
      + assert (exists s1, run fresh (if at_len then AddGate r IFF [pc] else AddGate r ALWAYS_FALSE []) s = Ok (tt, s1) /\
                           forall k, has_gate (bc s1) k = has_gate (bc s) k || leqb k r) as (s1 & E1 & G1).
        { destruct at_len.
          - destruct (addgate_ok2 r IFF [pc] s) as (s1 & E1 & _ & G1);
              [discriminate|exact Fr|constructor; [exact Hpc|constructor]|]. eauto.
          - destruct (addgate_ok2 r ALWAYS_FALSE [] s) as (s1 & E1 & _ & G1); [discriminate|exact Fr|constructor|]. eauto. }
        rewrite (bind_ok _ _ _ _ _ _ E1). cbn [tl].
        destruct (IH [] car' pc false s1) as (s' & E' & A');
          [constructor|right; rewrite G1, Hpc; reflexivity|simpl in Lc; lia|exact Nd''| |].
        { eapply absent_after_add; eassumption. }
        exists s'. split; [exact E'|]. constructor; [|exact A'].
        eapply ext_has_gate; [eapply run_ext; exact E'|]. rewrite G1, leqb_refl, orb_true_r. reflexivity.
      + inversion Ai; subst.
        unfold nthP, nth_res. cbn [nth_error ret_res]. rewrite (bind_ok fresh (Ret ci) _ s ci s eq_refl).
        assert (exists s1, run fresh (when (negb (is_nil res')) (AddGate ci AND [x; pc])) s = Ok (tt, s1) /\
                           (forall k, has_gate (bc s1) k = has_gate (bc s) k || (negb (is_nil res') && leqb k ci)))
          as (s1 & E1 & G1).
        { destruct res' as [|r1 res'']; simpl when.
          - exists s. cbn [run]. split; [reflexivity|]. intros k. simpl. rewrite orb_false_r. reflexivity.
          - destruct (addgate_ok2 ci AND [x; pc] s) as (s1 & E1 & _ & G1);
              [discriminate|exact Fci|constructor; [assumption|constructor; [exact Hpc|constructor]]|].
            exists s1. split; [exact E1|]. intros k. simpl. apply G1. }
        rewrite (bind_ok _ _ _ _ _ _ E1).
        destruct (addgate_ok2 r XOR [x; pc] s1) as (s2 & E2 & _ & G2); [discriminate| | |].
        { rewrite G1, Fr. simpl. apply andb_false_iff. right. apply leqb_neq. exact Drc. }
        { constructor; [rewrite G1; match goal with Hq : has_gate (bc s) x = true |- _ => rewrite Hq end; reflexivity|].
          constructor; [rewrite G1, Hpc; reflexivity|constructor]. }
        rewrite (bind_ok _ _ _ _ _ _ E2). cbn [tl].
        assert (has_gate (bc s2) r = true) as Hr2 by (rewrite G2, leqb_refl, orb_true_r; reflexivity).
        cut (exists s', run fresh (plus_loop inp' res' car' ci true) s2 = Ok (tt, s') /\ all_exist (bc s') res').
        { intros (s' & E' & A'). exists s'. split; [exact E'|]. constructor; [|exact A'].
          eapply ext_has_gate; [eapply run_ext; exact E'|exact Hr2]. }
        apply IH.
        * eapply Forall_impl; [|eassumption]. intros k Hk. rewrite G2, G1, Hk. reflexivity.
        * destruct res' as [|r1 res'']; [left; reflexivity|right].
          rewrite G2, G1, leqb_refl. simpl. rewrite orb_true_r. reflexivity.
        * simpl in Lc. lia.
        * exact Nd''.
        * unfold absent. apply Forall_forall. intros k Hk. rewrite G2, G1.
          eapply Forall_forall in Ab''; [|exact Hk]. rewrite Ab''. simpl.
          apply orb_false_iff. split; [apply andb_false_iff; right|]; apply leqb_neq; intros ->; contradiction.
  Qed.

  Theorem add_plus_one_total xs res ao be s :
    xs <> [] -> all_exist (bc s) xs ->
    (forall rl, res = Some rl -> rl <> [] /\ NoDup rl /\ absent (bc s) rl) ->
    exists r s', run fresh (add_plus_one xs res ao be) s = Ok (r, s').
  Proof.
    intros Hx Ax Hres. unfold add_plus_one.
    assert (exists rl s0, run fresh (match res with Some r => Ret r | None => fresh_n (S (length xs)) end) s = Ok (rl, s0) /\
              bc s0 = bc s /\ rl <> [] /\ NoDup rl /\ absent (bc s) rl)
      as (rl & s0 & E0 & Ec & Hne & Nd & Ab).
    { destruct res as [rl|].
      - destruct (Hres rl eq_refl) as (Hne & Nd & Ab). exists rl, s. cbn [run]. auto.
      - destruct (fresh_n_ok (S (length xs)) s) as (ls & s1 & E1 & Ec & L & Nd & _ & Hall).
        exists ls, s1. repeat split; auto; [destruct ls; discriminate|].
        eapply Forall_impl; [|exact Hall]. intros l (Hl & _). exact Hl. }
    rewrite (bind_ok _ _ _ _ _ _ E0).
    set (inp := rev_if be xs). set (rs := rev_if be rl).
    destruct (fresh_list_ok (length rs) rs s0) as (car & s1 & E1 & Ec1 & Lcar & Ndc & _ & Hall).
    rewrite (bind_ok _ _ _ _ _ _ E1).
    assert (forall k, has_gate (bc s1) k = has_gate (bc s) k) as G01 by (intros; rewrite Ec1, Ec; reflexivity).
    destruct rs as [|r0 rs'] eqn:Ers; [exfalso; revert Ers; apply rev_if_nonempty, Hne|].
    destruct car as [|c0 car']; [discriminate|].
    destruct inp as [|x0 inp'] eqn:Einp; [exfalso; revert Einp; apply rev_if_nonempty, Hx|].
    unfold nthP, nth_res. cbn [nth_error ret_res tl].
    rewrite (bind_ok fresh (Ret c0) _ s1 c0 s1 eq_refl). rewrite (bind_ok fresh (Ret x0) _ s1 x0 s1 eq_refl).
    assert (all_exist (bc s) (x0 :: inp')) as Ai by (rewrite <- Einp; apply Forall_forall; intros k Hk;
      eapply Forall_forall in Ax; [exact Ax|]; unfold inp in Hk; destruct be; simpl in Hk; [apply in_rev|]; exact Hk).
    inversion Ai as [|? ? Hx0 Ai']; subst.
    assert (NoDup (r0 :: rs') /\ absent (bc s) (r0 :: rs')) as (Ndr & Abr).
    { rewrite <- Ers. unfold rs. destruct be; simpl; [|auto]. split; [apply NoDup_rev, Nd|apply Forall_rev, Ab]. }
    inversion Hall as [|? ? (Fc0 & Rc0 & _) Hall']; subst. inversion Ndc as [|? ? Nc0 Ndc']; subst.
    inversion Ndr as [|? ? Nr0 Ndr']; subst. inversion Abr as [|? ? Fr0 Abr']; subst.
    rewrite Ec in Fc0.
    destruct (addgate_ok2 c0 IFF [x0] s1) as (s2 & E2 & _ & G2);
      [discriminate|rewrite G01; exact Fc0|constructor; [rewrite G01; exact Hx0|constructor]|].
    rewrite (bind_ok _ _ _ _ _ _ E2). rewrite (bind_ok fresh (Ret r0) _ s2 r0 s2 eq_refl).
    assert (r0 <> c0) as Drc by (intros ->; apply Rc0; left; reflexivity).
    destruct (addgate_ok2 r0 NOT [x0] s2) as (s3 & E3 & _ & G3);
      [discriminate|rewrite G2, G01, Fr0; simpl; apply leqb_neq; exact Drc
       |constructor; [rewrite G2, G01, Hx0; reflexivity|constructor]|].
    rewrite (bind_ok _ _ _ _ _ _ E3).
    assert (forall k, has_gate (bc s3) k = has_gate (bc s) k || leqb k c0 || leqb k r0) as G
      by (intros k; rewrite G3, G2, G01; reflexivity).
    destruct (plus_loop_ok rs' inp' car' c0 true s3) as (s4 & E4 & A4).
    { eapply Forall_impl; [|exact Ai']. intros k Hk. rewrite G, Hk. reflexivity. }
    { right. rewrite G, leqb_refl, orb_true_r. reflexivity. }
    { simpl in Lcar. lia. }
    { (* NoDup (rs' ++ car') *)
      apply NoDup_app_intro; [exact Ndr'|exact Ndc'|].
      intros k Hk1 Hk2. eapply Forall_forall in Hall'; [|exact Hk2]. destruct Hall' as (_ & Hn & _).
      apply Hn. right. exact Hk1. }
    { unfold absent. apply Forall_forall. intros k Hk. rewrite G.
      assert (k <> c0 /\ k <> r0 /\ has_gate (bc s) k = false) as (D1 & D2 & Fk).
      { apply in_app_iff in Hk as [Hk|Hk].
        - split; [intros ->; apply Rc0; right; exact Hk|]. split; [intros ->; contradiction|].
          eapply Forall_forall in Abr'; [exact Abr'|exact Hk].
        - eapply Forall_forall in Hall'; [|exact Hk]. destruct Hall' as (Fk & Hn & _).
          split; [intros ->; contradiction|]. split; [intros ->; apply Hn; left; reflexivity|].
          rewrite Ec in Fk. exact Fk. }
      rewrite Fk. simpl. apply orb_false_iff. split; apply leqb_neq; assumption. }
    rewrite (bind_ok _ _ _ _ _ _ E4).
    assert (exists s5, run fresh (when ao (iterP MarkOutput rl)) s4 = Ok (tt, s5)) as (s5 & E5).
    { destruct ao; simpl when; [|exists s4; reflexivity].
      pose proof (run_ext _ _ _ _ _ E4) as X4.
      assert (all_exist (bc s4) rl) as Arl.
      { assert (all_exist (bc s4) (r0 :: rs')) as A by
            (constructor; [eapply ext_has_gate; [exact X4|]; rewrite G, leqb_refl, orb_true_r; reflexivity|exact A4]).
        rewrite <- (rev_if_involutive be rl). fold rs. rewrite Ers.
        destruct be; unfold rev_if; [apply Forall_rev, A|exact A]. }
      clear -Arl. revert s4 Arl. induction rl as [|l rl IH]; intros s4 Arl; cbn [iterP].
      - exists s4. reflexivity.
      - inversion Arl; subst. destruct (markoutput_ok fresh l s4) as (s5 & E5); [assumption|].
        rewrite (bind_ok _ _ _ _ _ _ E5). apply IH.
        eapply all_exist_ext; [eapply run_ext; eassumption|assumption]. }
    rewrite (bind_ok _ _ _ _ _ _ E5). cbn [run]. eauto.
  Qed.
End TotalMisc.
