(* T21: _get_internal_gates regenerated = SubcircuitAlg.internal_gates, for every fuel and all arguments. *)
Require Import Cirbo.Model.Base Cirbo.Model.Gate Cirbo.Model.Circuit Cirbo.Model.Eval.
Require Import Cirbo.Model.SubcircuitPrims Cirbo.Model.SubcircuitAlg.
Require Import Cirbo.Generated.SubcircuitAlgGen Cirbo.Proofs.SubcircuitPrimsFacts.

(* the dict label_is_visited represents the set visited *)
Definition vis_rel (d : dict bool) (V : list label) : Prop :=
  forall k, py_ddict_get d k false = memb k V.

Lemma dget_dset_same {V} (d : dict V) k v : dget (dset d k v) k = Some v.
Proof. induction d as [|[k' v'] d IH]; simpl; [rewrite leqb_refl; reflexivity|].
  destruct (leqb_spec k k') as [->|Hne]; simpl; [rewrite leqb_refl; reflexivity|].
  destruct (leqb_spec k k'); [contradiction|exact IH]. Qed.

Lemma dget_dset_other {V} (d : dict V) k k' v : k' <> k -> dget (dset d k v) k' = dget d k'.
Proof. intros Hne. induction d as [|[k0 v0] d IH]; simpl.
  - destruct (leqb_spec k' k); [contradiction|reflexivity].
  - destruct (leqb_spec k k0) as [->|H0]; simpl.
    + destruct (leqb_spec k' k0); [contradiction|reflexivity].
    + destruct (leqb_spec k' k0); [reflexivity|exact IH]. Qed.

Lemma vis_rel_set d V k : vis_rel d V -> vis_rel (dset d k true) (V ++ [k]).
Proof.
  intros H k'. unfold py_ddict_get. rewrite memb_app. simpl.
  destruct (leqb_spec k' k) as [->|Hne].
  - rewrite dget_dset_same, orb_true_r. reflexivity.
  - rewrite dget_dset_other by exact Hne. rewrite orb_false_r. apply H.
Qed.

Lemma ops_loop : forall ops d V q, vis_rel d V ->
  exists d', foldM gen_get_internal_gates_for3 ops (d, q) = Ok (d', snd (fold_left bfs_visit ops (V, q))) /\
             vis_rel d' (fst (fold_left bfs_visit ops (V, q))).
Proof.
  induction ops as [|o ops IH]; intros d V q H; [exists d; split; [reflexivity|exact H]|].
  cbn [foldM fold_left]. unfold gen_get_internal_gates_for3 at 1, bfs_visit at 2 4. cbv beta iota. cbn [fst snd].
  rewrite (H o). destruct (memb o V); cbn [negb bind].
  - apply IH. exact H.
  - apply IH. apply vis_rel_set. exact H.
Qed.

Definition res_rel {A B} (R : A -> B -> Prop) (x : res A) (y : res B) : Prop :=
  match x, y with
  | Ok a, Ok b => R a b
  | Err e, Err e' => e = e'
  | _, _ => False
  end.

Lemma res_rel_bind {A B A' B'} (R : A -> B -> Prop) (R' : A' -> B' -> Prop) x y f g :
  res_rel R x y -> (forall a b, R a b -> res_rel R' (f a) (g b)) -> res_rel R' (bind x f) (bind y g).
Proof. destruct x, y; simpl; intros H K; try contradiction; auto. Qed.

Lemma res_rel_bind_left {A B A'} (R : A -> B -> Prop) (R' : A' -> B -> Prop) x y f :
  res_rel R x y -> (forall a b, R a b -> res_rel R' (f a) (Ok b)) -> res_rel R' (bind x f) y.
Proof. destruct x, y; simpl; intros H K; try contradiction; auto. Qed.

Definition st3_rel (x : list label * dict bool * list label) (y : list label * list label) : Prop :=
  fst (fst x) = fst y /\ vis_rel (snd (fst x)) (snd y).
Definition st2_rel (x : list label * dict bool) (y : list label * list label) : Prop :=
  fst x = fst y /\ vis_rel (snd x) (snd y).

Lemma while_loop c ins outs : forall fuel acc d V q, vis_rel d V ->
  res_rel st3_rel (gen_get_internal_gates_while2 fuel c ins outs (acc, d, q)) (bfs_internal fuel c ins outs acc V q).
Proof.
  induction fuel as [|fuel IH]; intros acc d V q H; [reflexivity|].
  cbn [gen_get_internal_gates_while2 bfs_internal]. cbv beta iota.
  destruct q as [|l q]; cbn [py_list_nonempty py_popleft bind]; [split; [reflexivity|exact H]|].
  replace (if negb (memb l ins) && negb (memb l outs) then Ok (acc ++ [l]) else Ok acc)
    with (@Ok (list label) (if memb l ins || memb l outs then acc else acc ++ [l]))
    by (destruct (memb l ins), (memb l outs); reflexivity).
  cbn [bind]. destruct (memb l ins); cbn [negb bind].
  - apply IH. exact H.
  - destruct (get_gate c l) as [g|e]; cbn [bind]; [|reflexivity].
    destruct (ops_loop (gops g) d V q H) as [d' [E Hd']]. rewrite E. cbn [bind]. apply IH. exact Hd'.
Qed.

Lemma outputs_loop fuel c ins outs : forall l acc d V, vis_rel d V ->
  res_rel st2_rel (foldM (gen_get_internal_gates_for1 fuel c ins outs) l (acc, d))
                  (foldM (internal_step fuel c ins outs) l (acc, V)).
Proof.
  induction l as [|o l IH]; intros acc d V H; [split; [reflexivity|exact H]|].
  cbn [foldM]. apply (res_rel_bind st2_rel).
  - unfold gen_get_internal_gates_for1, internal_step. cbv beta iota. cbn [fst snd].
    rewrite (H o).
    destruct (memb o V); cbn [negb bind app].
    + apply (res_rel_bind_left st3_rel); [apply while_loop; exact H|].
      intros [[a d'] q'] [a' V'] [H1 H2]. exact (conj H1 H2).
    + apply (res_rel_bind_left st3_rel); [apply while_loop; apply vis_rel_set; exact H|].
      intros [[a d'] q'] [a' V'] [H1 H2]. exact (conj H1 H2).
  - intros [a d'] [a' V'] [H1 H2]. cbn [fst snd] in *. subst a'. apply IH. exact H2.
Qed.

Lemma res_rel_eq_fst (x : res (list label * dict bool)) (y : res (list label * list label)) :
  res_rel st2_rel x y -> (do (a, _) <- x; Ok a) = (do r <- y; Ok (fst r)).
Proof.
  destruct x as [[a d]|e], y as [[a' V]|e']; simpl; try contradiction.
  - intros [H _]. simpl in H. subst; reflexivity.
  - intros ->; reflexivity.
Qed.

Theorem gen_get_internal_gates_eq : forall fuel c ins outs,
  gen_get_internal_gates fuel c ins outs = internal_gates fuel c ins outs.
Proof.
  intros fuel c ins outs. unfold gen_get_internal_gates, internal_gates. cbv beta iota zeta.
  apply res_rel_eq_fst. apply outputs_loop. intros k; reflexivity.
Qed.
