(* C15  Evaluation under partial assignments is sound and monotone.
   Statements only; proofs live in Proofs/.  *)
Require Import Cirbo.Model.Base Cirbo.Model.Gate Cirbo.Model.Circuit Cirbo.Model.Eval Cirbo.Model.Sem.
Require Import Cirbo.Generated.GateTypes.
Require Import Cirbo.Proofs.OpFacts Cirbo.Proofs.SemFacts Cirbo.Proofs.EvalFacts.

(* every generated three-valued operator is monotone in the information order U <= v *)
Theorem C15_operator_monotone : forall g vs vs' v,
  Forall2 st_le vs vs' -> operator_of g vs = Ok v ->
  exists v', operator_of g vs' = Ok v' /\ st_le v v'.
Proof. exact operator_of_mono. Qed.

(* netlist level, any netlist (no well-formedness needed): defining more inputs refines values *)
Theorem C15_semantics_monotone : forall c a a' l v,
  assign_le a a' -> Eval c a l v -> exists v', Eval c a' l v' /\ st_le v v'.
Proof. exact Eval_mono. Qed.

(* a value that is True/False under a partial assignment is the value under every completion *)
Theorem C15_defined_is_stable : forall c a a' l v,
  assign_le a a' -> Eval c a l v -> v <> U -> Eval c a' l v.
Proof. exact Eval_defined_stable. Qed.

(* a total assignment never yields Undefined *)
Theorem C15_total_is_defined : forall c a l v, total_on c a -> Eval c a l v -> v <> U.
Proof. exact Eval_total. Qed.

(* what the evaluators report is the semantics (so the three statements above speak about
   evaluate_full_circuit / evaluate_circuit / evaluate_circuit_outputs) *)
Theorem C15_full_evaluation_reports_semantics : forall c a d,
  inputs_are_input_gates c -> assigns_inputs_only c a ->
  evaluate_full_circuit c a = Ok d -> forall l v, dget d l = Some v -> Eval c a l v.
Proof. exact evaluate_full_circuit_sound. Qed.

Theorem C15_stack_evaluation_reports_semantics : forall fuel c a outs d,
  inputs_are_input_gates c -> assigns_inputs_only c a ->
  evaluate_circuit_fuel fuel c a outs = Ok d ->
  (forall l v, dget d l = Some v -> Eval c a l v \/ v = U) /\
  (forall o, In o (match outs with Some o => o | None => outputs c end) ->
             exists v, dget d o = Some v /\ Eval c a o v).
Proof. exact evaluate_circuit_sound. Qed.

(* non-vacuity: a concrete circuit, a partial assignment with a defined AND output *)
Example C15_example :
  let c := mkCircuit ["a"; "b"] ["o"]
             [("a", mkGate INPUT []); ("b", mkGate INPUT []); ("o", mkGate AND ["a"; "b"])]
             [("a", ["o"]); ("b", ["o"])] [] in
  evaluate_full_circuit c [("a", F)] = Ok [("a", F); ("b", U); ("o", F)]
  /\ inputs_are_input_gates c /\ assigns_inputs_only c [("a", F)].
Proof.
  split; [vm_compute; reflexivity|]. split.
  - intros l [<-|[<-|[]]]; eexists; split; reflexivity.
  - intros l. unfold dmem; simpl. destruct (leqb l "a") eqn:E; [|discriminate].
    apply leqb_eq in E; subst; simpl; auto.
Qed.
