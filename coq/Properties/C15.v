(* C15  Evaluation under partial assignments is sound and monotone.
   Statements only; proofs live in Proofs/.  *)
Require Import Cirbo.Model.Base Cirbo.Model.Gate Cirbo.Model.Circuit Cirbo.Model.Eval Cirbo.Model.Sem.
Require Import Cirbo.Generated.GateTypes.
Require Import Cirbo.Model.WF.
Require Import Cirbo.Proofs.OpFacts Cirbo.Proofs.SemFacts Cirbo.Proofs.EvalFacts.
Require Import Cirbo.Proofs.EvalComplete Cirbo.Proofs.EvalStack Cirbo.Proofs.EvalEntry
        Cirbo.Proofs.EvalMono Cirbo.Proofs.WFSound.

(* every generated three-valued operator is monotone in the information order U <= v *)
Theorem C15_operator_monotone : forall g vs vs' v,
  Forall2 st_le vs vs' -> operator_of g vs = Ok v ->
  exists v', operator_of g vs' = Ok v' /\ st_le v v'.
Proof. exact operator_of_mono. Qed.

(* netlist level, any netlist (no well-formedness needed): defining more inputs refines values *)
Theorem C15_semantics_monotone : forall c a a' l v,
  assign_le a a' -> Eval c a l v -> exists v', Eval c a' l v' /\ st_le v v'.
Proof. exact Eval_mono. Qed.

(* a value that is True/False under a partial assignment is the value under every completion *)
Theorem C15_defined_is_stable : forall c a a' l v,
  assign_le a a' -> Eval c a l v -> v <> U -> Eval c a' l v.
Proof. exact Eval_defined_stable. Qed.

(* a total assignment never yields Undefined *)
Theorem C15_total_is_defined : forall c a l v, total_on c a -> Eval c a l v -> v <> U.
Proof. exact Eval_total. Qed.

(* what the evaluators report is the semantics (so the three statements above speak about
   evaluate_full_circuit / evaluate_circuit / evaluate_circuit_outputs) *)
Theorem C15_full_evaluation_reports_semantics : forall c a d,
  inputs_are_input_gates c -> assigns_inputs_only c a ->
  evaluate_full_circuit c a = Ok d -> forall l v, dget d l = Some v -> Eval c a l v.
Proof. exact evaluate_full_circuit_sound. Qed.

Theorem C15_stack_evaluation_reports_semantics : forall fuel c a outs d,
  inputs_are_input_gates c -> assigns_inputs_only c a ->
  evaluate_circuit_fuel fuel c a outs = Ok d ->
  (forall l v, dget d l = Some v -> Eval c a l v \/ v = U) /\
  (forall o, In o (match outs with Some o => o | None => outputs c end) ->
             exists v, dget d o = Some v /\ Eval c a o v).
Proof. exact evaluate_circuit_sound. Qed.

(* non-vacuity: a concrete circuit, a partial assignment with a defined AND output *)
Example C15_example :
  let c := mkCircuit ["a"; "b"] ["o"]
             [("a", mkGate INPUT []); ("b", mkGate INPUT []); ("o", mkGate AND ["a"; "b"])]
             [("a", ["o"]); ("b", ["o"])] [] in
  evaluate_full_circuit c [("a", F)] = Ok [("a", F); ("b", U); ("o", F)]
  /\ inputs_are_input_gates c /\ assigns_inputs_only c [("a", F)].
Proof.
  split; [vm_compute; reflexivity|]. split.
  - intros l [<-|[<-|[]]]; eexists; split; reflexivity.
  - intros l. unfold dmem; simpl. destruct (leqb l "a") eqn:E; [|discriminate].
    apply leqb_eq in E; subst; simpl; auto.
Qed.

(* ------------------------------------------------------------------------------------ *)
(* The same three facts at the level of the evaluators (well-formed circuits with accepted
   arities; assignments whose keys are inputs).  a' has at least the information of a. *)

(* the evaluators are total on such circuits, for every partial assignment *)
Theorem C15_full_evaluation_total : forall c a, WF c -> arity_ok c -> assigns_inputs_only c a ->
  exists d, evaluate_full_circuit c a = Ok d /\
            forall l, has_gate c l = true -> exists v, dget d l = Some v /\ Eval c a l v.
Proof. exact evaluate_full_circuit_complete. Qed.

Theorem C15_stack_evaluation_total : forall c a outs, WF c -> arity_ok c -> assigns_inputs_only c a ->
  (forall o, In o (requested c outs) -> has_gate c o = true) ->
  exists d, evaluate_circuit c a outs = Ok d.
Proof. exact evaluate_circuit_total. Qed.

(* evaluate_full_circuit: every reported value is refined under a'; a True/False is reported
   identically under a' *)
Theorem C15_full_evaluation_monotone : forall c a a' d d',
  WF c -> arity_ok c -> assigns_inputs_only c a -> assigns_inputs_only c a' -> assign_le a a' ->
  evaluate_full_circuit c a = Ok d -> evaluate_full_circuit c a' = Ok d' ->
  forall l v, dget d l = Some v -> exists v', dget d' l = Some v' /\ st_le v v'.
Proof. exact evaluate_full_circuit_mono. Qed.

Theorem C15_full_evaluation_defined_stable : forall c a a' d d',
  WF c -> arity_ok c -> assigns_inputs_only c a -> assigns_inputs_only c a' -> assign_le a a' ->
  evaluate_full_circuit c a = Ok d -> evaluate_full_circuit c a' = Ok d' ->
  forall l v, dget d l = Some v -> v <> U -> dget d' l = Some v.
Proof. exact evaluate_full_circuit_defined_stable. Qed.

(* evaluate_circuit (any fuel, any requested outputs; no arity hypothesis needed when both
   runs return) *)
Theorem C15_stack_evaluation_monotone : forall fuel c a a' outs d d',
  WF c -> assigns_inputs_only c a -> assigns_inputs_only c a' -> assign_le a a' ->
  evaluate_circuit_fuel fuel c a outs = Ok d -> evaluate_circuit_fuel fuel c a' outs = Ok d' ->
  forall l v, dget d l = Some v -> exists v', dget d' l = Some v' /\ st_le v v'.
Proof. exact evaluate_circuit_fuel_mono. Qed.

Theorem C15_stack_evaluation_defined_stable : forall c a a' outs d d',
  WF c -> assigns_inputs_only c a -> assigns_inputs_only c a' -> assign_le a a' ->
  evaluate_circuit c a outs = Ok d -> evaluate_circuit c a' outs = Ok d' ->
  forall l v, dget d l = Some v -> v <> U -> dget d' l = Some v.
Proof. exact evaluate_circuit_defined_stable. Qed.

(* evaluate_circuit_outputs *)
Theorem C15_outputs_evaluation_monotone : forall c a a' r r',
  WF c -> arity_ok c -> assigns_inputs_only c a -> assigns_inputs_only c a' -> assign_le a a' ->
  evaluate_circuit_outputs c a = Ok r -> evaluate_circuit_outputs c a' = Ok r' ->
  forall l v, dget r l = Some v -> exists v', dget r' l = Some v' /\ st_le v v'.
Proof. exact evaluate_circuit_outputs_mono. Qed.

Theorem C15_outputs_evaluation_defined_stable : forall c a a' r r',
  WF c -> arity_ok c -> assigns_inputs_only c a -> assigns_inputs_only c a' -> assign_le a a' ->
  evaluate_circuit_outputs c a = Ok r -> evaluate_circuit_outputs c a' = Ok r' ->
  forall l v, dget r l = Some v -> v <> U -> dget r' l = Some v.
Proof. exact evaluate_circuit_outputs_defined_stable. Qed.

(* a total assignment: no Undefined at any gate (whole circuit), at any requested output (stack
   evaluator: gates it did not evaluate are reported Undefined by design), at any output *)
Theorem C15_full_evaluation_total_defined : forall c a d,
  WF c -> assigns_inputs_only c a -> total_on c a ->
  evaluate_full_circuit c a = Ok d -> forall l v, dget d l = Some v -> v <> U.
Proof. exact evaluate_full_circuit_total_defined. Qed.

Theorem C15_stack_evaluation_total_defined : forall fuel c a outs d,
  WF c -> assigns_inputs_only c a -> total_on c a ->
  evaluate_circuit_fuel fuel c a outs = Ok d ->
  forall o, In o (requested c outs) -> exists v, dget d o = Some v /\ v <> U.
Proof. exact evaluate_circuit_total_defined. Qed.

Theorem C15_outputs_evaluation_total_defined : forall c a r,
  WF c -> assigns_inputs_only c a -> total_on c a ->
  evaluate_circuit_outputs c a = Ok r -> forall l v, dget r l = Some v -> v <> U.
Proof. exact evaluate_circuit_outputs_total_defined. Qed.

(* evaluate on a Boolean vector returns Booleans *)
Theorem C15_evaluate_boolean : forall c bs, WF c -> arity_ok c -> length (inputs c) <= length bs ->
  exists rs, evaluate c (map inj bs) = Ok (map inj rs) /\
             Forall2 (fun o b => Eval c (vec_assignment c (map inj bs)) o (inj b)) (outputs c) rs.
Proof. exact evaluate_bool. Qed.

(* non-vacuity: a well-formed circuit, a partial assignment a below a total a'; OR is already
   True under a (and stays True), XOR is Undefined under a and becomes defined under a' *)
Definition C15_ex : circuit :=
  mkCircuit ["a"; "b"] ["o"; "x"]
    [("a", mkGate INPUT []); ("b", mkGate INPUT []); ("o", mkGate OR ["a"; "b"]); ("x", mkGate XOR ["a"; "b"])]
    [("a", ["o"; "x"]); ("b", ["o"; "x"])] [].

Example C15_ex_ok :
  WF C15_ex /\ arity_ok C15_ex
  /\ assigns_inputs_only C15_ex [("a", T)] /\ assigns_inputs_only C15_ex [("a", T); ("b", F)]
  /\ assign_le [("a", T)] [("a", T); ("b", F)] /\ total_on C15_ex [("a", T); ("b", F)]
  /\ evaluate_full_circuit C15_ex [("a", T)] = Ok [("a", T); ("b", U); ("x", U); ("o", T)]
  /\ evaluate_full_circuit C15_ex [("a", T); ("b", F)] = Ok [("a", T); ("b", F); ("x", T); ("o", T)]
  /\ evaluate_circuit C15_ex [("a", T)] (Some ["o"]) = Ok [("a", T); ("b", U); ("o", T); ("x", U)].
Proof.
  split; [apply wfb_sound; vm_compute; reflexivity|].
  split; [apply arity_okb_sound; vm_compute; reflexivity|].
  split; [intros l; unfold dmem; simpl; destruct (leqb_spec l "a") as [->|_]; [simpl; auto|discriminate]|].
  split; [intros l; unfold dmem; simpl; destruct (leqb_spec l "a") as [->|_]; [simpl; auto|];
          destruct (leqb_spec l "b") as [->|_]; [simpl; auto|discriminate]|].
  split; [intros l; unfold aval; simpl; destruct (leqb l "a"); [right; reflexivity|];
          destruct (leqb l "b"); [left; reflexivity|right; reflexivity]|].
  split; [|repeat split; vm_compute; reflexivity].
  intros l g Hg Ht. unfold aval. simpl in *.
  destruct (leqb l "a"); [discriminate|]. destruct (leqb l "b"); [discriminate|].
  destruct (leqb l "o"); [injection Hg as <-; discriminate|].
  destruct (leqb l "x"); [injection Hg as <-; discriminate|discriminate].
Qed.

(* ---- the evaluators these theorems are about ARE what the source says now: on every well-formed circuit each
        evaluator regenerated from circuit.py (translator T10) equals the model (proved in
        Proofs/CircuitAlgosGenSum.v; also stated under C02).  Re-stated here so that an edit of an evaluator in the
        source breaks a proof obligation of THIS property. ---- *)
Require Import Cirbo.Generated.CircuitCore Cirbo.Generated.CircuitAlgos.
Require Cirbo.Proofs.CircuitAlgosGen Cirbo.Proofs.CircuitAlgosGenSum.
Theorem C15_evaluators_regenerated : forall c, WF c ->
  (forall a, gen_evaluate_full_circuit CircuitAlgosGen.size_fuel c a = evaluate_full_circuit c a) /\
  (forall a outs,
     gen_evaluate_circuit (eval_fuel c (match outs with Some o => o | None => outputs c end)) c a outs
     = evaluate_circuit c a outs) /\
  (forall a, gen_evaluate_circuit_outputs CircuitAlgosGen.outputs_fuel c a = evaluate_circuit_outputs c a) /\
  (forall vals, gen_evaluate CircuitAlgosGen.outputs_fuel c vals = evaluate c vals) /\
  (forall vals i, gen_evaluate_at CircuitAlgosGen.at_fuel c vals (Z.of_nat i) = evaluate_at c vals i) /\
  gen_get_truth_table CircuitAlgosGen.outputs_fuel c = get_truth_table c.
Proof. exact CircuitAlgosGenSum.evaluators_regenerated_wf. Qed.
