(* C11  Bench text round-trips and the parser is faithful.
   Statements only; proofs live in Proofs/Bench*.v.
   The model (Model/Bench.v) is a character-level transcription of format_circuit / format_gate
   and of BenchToCircuit; Model/BenchLayout.v defines the layouts of a netlist.  The dispatch
   table, the aliases, the keywords and format_gate are regenerated from the source
   (Generated/BenchDispatch.v); the theorems hold for the repaired parser (fixes D11, D22). *)
Require Import Cirbo.Model.Base Cirbo.Model.Gate Cirbo.Model.Den Cirbo.Model.Circuit Cirbo.Model.Eval
        Cirbo.Model.Sem Cirbo.Model.Bench Cirbo.Model.BenchLayout.
Require Import Cirbo.Generated.GateTypes Cirbo.Generated.BenchDispatch.
Require Import Cirbo.Model.PyStr Cirbo.Generated.BenchAlgGen.
Require Import Cirbo.Proofs.BenchDispatchFacts Cirbo.Proofs.BenchLines Cirbo.Proofs.BenchFile
        Cirbo.Proofs.BenchRoundtrip Cirbo.Proofs.BenchAlgGen.
Require Import Coq.Sorting.Permutation.

(* ---- T7: the regenerated tables ---- *)
(* printing the name of a type and dispatching on it returns a handler of the same type that
   binds exactly the operand counts the operator of the type accepts *)
Theorem C11_print_then_dispatch : forall t,
  t <> INPUT ->
  exists h, lookup_processing processings (upper (opname t)) = Some h /\ htype h = t
            /\ forall n, handler_accepts h n = den_accepts t n.
Proof. exact print_then_dispatch. Qed.

(* BUFF denotes IFF, VDD denotes ALWAYS_TRUE *)
Theorem C11_aliases :
  (exists h, lookup_processing processings BUFF_NAME = Some h /\ htype h = IFF) /\
  (exists h, lookup_processing processings VDD_NAME = Some h /\ htype h = ALWAYS_TRUE).
Proof. exact alias_types. Qed.

(* ---- T20: the printer and the parser regenerated statement by statement ---- *)
(* Generated/BenchAlgGen.v is produced on every check from Gate.format_gate, Circuit.format_circuit / save_to_file /
   from_bench_string / from_bench_file and the parser classes of parser/abstract.py and parser/bench.py (every
   method these reach: convert_to_circuit, convert, _process_line, _process_input_gate, _process_output_gate,
   _process_operator_gate, _parse_name_gate, _parse_operator_gate, _eof, _add_gate, the dict _processings and the
   18 `_process_<op>` handlers stored under its 20 keys).  Each regenerated function equals the hand model the theorems below are about,
   for ALL arguments (text = 8-bit strings; Python primitives as in Model/PyStr.v); the last clause is the round
   trip stated for the regenerated functions themselves. *)
Theorem C11_bench_regenerated :
  (forall l g, gen_format_gate l g = format_gate l g) /\
  (forall c, gen_format_circuit c = format_circuit c) /\
  (forall c, gen_save_to_file c = format_circuit c) /\
  (gen_VDD_NAME = VDD_NAME /\ gen_BUFF_NAME = BUFF_NAME) /\
  gen_BenchToCircuit_new = empty_circuit /\
  (forall c out t args, gen__add_gate c out t args = Ok (emplace_gate_raw c out t args)) /\
  Forall2 (fun kh kg =>
             fst kh = fst kg /\
             forall c out args,
               snd kg c out args
               = if handler_accepts (snd kh) (List.length args)
                 then Ok (emplace_gate_raw c out (htype (snd kh)) args) else Err PyTypeError)
          processings gen__processings /\
  (forall c key out args,
     (do h <- py_dict_getitem gen__processings key; h c out args) = call_handler c key out args false) /\
  (forall c line, gen__process_input_gate c line = Ok (process_input_gate c line)) /\
  (forall c line, gen__process_output_gate c line = Ok (process_output_gate c line)) /\
  (forall line, gen__parse_name_gate line = parse_name_gate line) /\
  (forall body, gen__parse_operator_gate body = parse_operator_gate body) /\
  (forall c line, gen__process_operator_gate c line = process_operator_gate c line) /\
  (forall c line, gen__process_line c line = process_line c line) /\
  (forall c, gen__eof c = eof c) /\
  (forall c ls, gen_convert c ls = (do c' <- parse_lines ls c; eof c')) /\
  (forall c ls, gen_convert_to_circuit c ls = (do c' <- parse_lines ls c; eof c')) /\
  (forall text, gen_from_bench_string text = from_bench_string text) /\
  (forall content, gen_from_bench_file content = from_bench_file_content content) /\
  (forall c, bench_ok c ->
     exists c', gen_from_bench_string (gen_format_circuit c) = Ok c' /\ same_circuit c' c).
Proof. exact bench_regenerated. Qed.

(* ---- the round trip ---- *)
(* for every circuit whose labels are bench identifiers (bench_ok: non-empty labels without
   space ( ) , = newline and not starting with #; operands exist; the input list is the list of
   INPUT gates; operand counts accepted by the operators; unique keys) the text printed by
   format_circuit parses, and the result has the same gates (types, operand order), the same
   output list and the same input list; the order of the gate map may differ *)
Theorem C11_roundtrip : forall c,
  bench_ok c -> exists c', parse_bench (format_circuit c) = Ok c' /\ same_circuit c' c.
Proof. exact roundtrip. Qed.

(* ... and Circuit.__eq__ (dict equality of the gate maps, outputs, inputs) answers True *)
Theorem C11_roundtrip_decided_by_eq : forall c,
  bench_ok c -> exists c', parse_bench (format_circuit c) = Ok c' /\ circuit_eq_py c' c = true.
Proof. exact roundtrip_eq. Qed.

(* save_to_file then from_bench_file: the same, when no label holds a carriage return *)
Theorem C11_roundtrip_file : forall c,
  bench_ok c -> labels_no_cr c ->
  exists c', from_bench_file_content (format_circuit c) = Ok c' /\ same_circuit c' c
             /\ circuit_eq_py c' c = true.
Proof. exact roundtrip_file. Qed.

(* ---- layouts ---- *)
(* one line of the grammar, with or without its newline, has exactly its effect *)
Theorem C11_line : forall c it e,
  item_ok it = true -> (e = EmptyString \/ e = NL) ->
  process_line c (print_item it ++ e)%string = Ok (item_effect it c).
Proof. exact line_item. Qed.

(* every text of the layout grammar (lines in any order, use before definition included;
   keywords and operator names in any letter case; spaces where the parser strips them; comment
   and blank lines; BUFF / vdd spellings; final newline or not) parses to the circuit obtained by
   applying the lines top to bottom *)
Theorem C11_layout : forall its fin,
  text_ok its -> parse_bench (print_items its fin) = Ok (denote its).
Proof. exact parse_layout. Qed.

(* that circuit is the netlist of the text: a label's gate is its definition, the input and
   output lists are the declarations in text order *)
Theorem C11_layout_denotes_netlist : forall its,
  Forall (fun it => item_ok it = true) its -> NoDup (defined_labels its) ->
  (forall l, dget (gates (denote its)) l = find_def (defs its) l)
  /\ inputs (denote its) = input_decls its
  /\ outputs (denote its) = output_decls its.
Proof. exact denote_spec. Qed.

(* the parsed circuit computes exactly what the text denotes: same input and output lists as the
   netlist written down literally (definitions as the gate map), same gates, and every gate has
   the same value under every (partial) assignment *)
Theorem C11_layout_computes_netlist : forall its,
  Forall (fun it => item_ok it = true) its -> NoDup (defined_labels its) ->
  inputs (denote its) = inputs (netlist_of its) /\ outputs (denote its) = outputs (netlist_of its)
  /\ (forall l, dget (gates (denote its)) l = dget (gates (netlist_of its)) l)
  /\ forall a l v, Eval (denote its) a l v <-> Eval (netlist_of its) a l v.
Proof. exact denote_computes_netlist. Qed.

(* the order of the lines does not matter for the gates ... *)
Theorem C11_layout_order_irrelevant : forall its its',
  Forall (fun it => item_ok it = true) its -> NoDup (defined_labels its) -> Permutation its its' ->
  forall l, dget (gates (denote its)) l = dget (gates (denote its')) l.
Proof. exact denote_order_irrelevant. Qed.

(* ... nor for the value of any gate under any assignment *)
Theorem C11_layout_same_function : forall its its',
  Forall (fun it => item_ok it = true) its -> NoDup (defined_labels its) -> Permutation its its' ->
  forall a l v, Eval (denote its) a l v <-> Eval (denote its') a l v.
Proof. exact denote_same_function. Qed.

(* ---- non-vacuity ---- *)
(* a circuit with keyword-prefixed labels, a constant with operands, a BUFF, a shuffled gate
   map: the hypotheses hold and the parser output is computed *)
Definition C11_example_circuit : circuit :=
  mkCircuit ["vdd1"; "input"] ["input_x"; "OUTPUTy"; "input"]
    [("input_x", mkGate AND ["vdd1"; "input"]); ("vdd1", mkGate INPUT []);
     ("OUTPUTy", mkGate IFF ["input_x"]); ("input", mkGate INPUT []);
     ("gnd", mkGate ALWAYS_FALSE ["input"; "input"]); ("buff", mkGate XOR ["gnd"; "vdd1"; "OUTPUTy"])]
    [("vdd1", ["input_x"; "buff"]); ("input", ["input_x"; "gnd"; "gnd"]); ("input_x", ["OUTPUTy"]);
     ("gnd", ["buff"]); ("OUTPUTy", ["buff"])] [].

Example C11_example_hypotheses : bench_ok C11_example_circuit /\ labels_no_cr C11_example_circuit.
Proof.
  split; [apply bench_okb_sound; vm_compute; reflexivity|].
  unfold labels_no_cr, no_cr. repeat split.
  - destruct H as [H|[H|[H|[H|[H|[H|[]]]]]]]; injection H as <- <-; reflexivity.
  - destruct H as [H|[H|[H|[H|[H|[H|[]]]]]]]; injection H as <- <-; repeat constructor.
  - repeat constructor.
  - repeat constructor.
Qed.

Example C11_example_roundtrip :
  circuit_eq_py (match parse_bench (format_circuit C11_example_circuit) with
                 | Ok c' => c' | Err _ => empty_circuit end) C11_example_circuit = true.
Proof. vm_compute. reflexivity. Qed.

(* a text of the layout grammar: use before definition, mixed case, spaces, comment, blank line,
   aliases, no final newline *)
Definition C11_example_layout : list item :=
  [IOutput "output" "y" 1 0 2; IGate "y" 0 3 "nAnd" 1 NAND [(1, "x", 0); (0, "a", 2)]%nat 0 1;
   IComment " x is a constant"; IVdd "x" 1 1 "Vdd" 0; IBlank; IInput "Input" "a" 2 1 0;
   IGate "z" 1 1 "buff" 0 IFF [(0, "y", 0)]%nat 0 0; IGate "k" 1 1 "always_false" 0 ALWAYS_FALSE [] 2 0].

Example C11_example_layout_ok :
  text_ok C11_example_layout /\ NoDup (defined_labels C11_example_layout)
  /\ parse_bench (print_items C11_example_layout false) = Ok (denote C11_example_layout).
Proof.
  split; [split; [repeat constructor|vm_compute; reflexivity]|].
  split; [apply nodupb_NoDup; vm_compute; reflexivity|vm_compute; reflexivity].
Qed.
