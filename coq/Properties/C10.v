(* C10  Circuit composition computes the documented functional composition.
   Statements only; proofs live in Proofs/SemExtConnect.v (simulation lemma),
   SemConnectStruct.v (structure of the result), SemConnectLeft.v, SemConnectRight.v,
   SemConnectWrappers.v, SemBlock.v.  Well-formedness of the result: Proofs/WFConnect*.v (C02).

   Notation.  For connect_circuit base other tc oc right name ap = Ok r:
     mapping  = build_mapping oc tc []   (the Python dict: mapping[oc_i] = tc_i; whenever the call
                                          returns, oc has no repetitions - C10_connectors_distinct -
                                          so mapping is exactly the list of connector pairs:
                                          C10_no_pair_dropped)
     conn_ren tc oc name ap l = mapping[l] if l is a key of mapping, else prefix ++ l,
                                prefix = name ++ "@" if name <> "" and ap, else ""
     free_of xs ls            = the elements of ls that are not in xs, in order.
   Eval c a l v is the relational semantics of Model/Sem.v ("gate l of c has value v under
   the assignment a"; three-valued, a may be partial).  The attached circuit `other` is not
   modified: the model is purely functional (and the harness compares its dump). *)
(* the simple Circuit methods these theorems rest on are regenerated from the source (translator T9)
   and proved equal to the model: keep those equality lemmas in this property's proof cone *)
Require Cirbo.Proofs.CircuitCoreGen Cirbo.Proofs.CircuitCoreGen2.
(* connect_circuit and its five wrappers (and top_sort, which they iterate) are regenerated from the source by translator T10 and proved equal to the
   model these theorems are about (Properties/C02.v C02_algorithms_regenerated): keep those proofs in this
   property's cone *)
Require Cirbo.Proofs.CircuitAlgosGen Cirbo.Proofs.CircuitAlgosGen2 Cirbo.Proofs.CircuitAlgosGen3 Cirbo.Proofs.CircuitAlgosGenSum.
Require Import Cirbo.Model.Base Cirbo.Model.Gate Cirbo.Model.Circuit Cirbo.Model.Eval Cirbo.Model.Sem
        Cirbo.Model.Connect Cirbo.Model.History Cirbo.Model.WF.
Require Import Cirbo.Proofs.WFEmplace Cirbo.Proofs.WFConnect1 Cirbo.Proofs.WFConnect2 Cirbo.Proofs.WFStep Cirbo.Proofs.WFSound Cirbo.Proofs.SemConnectStruct
        Cirbo.Proofs.SemConnectLeft Cirbo.Proofs.SemConnectRight Cirbo.Proofs.SemConnectWrappers
        Cirbo.Proofs.SemBlock Cirbo.Proofs.SemConnectTotal Cirbo.Proofs.EvalEntry Cirbo.Proofs.ArityPreserve Cirbo.Proofs.ConnectPairs.

(* ---- the result is well formed (from C02) ---- *)
Theorem C10_result_wf : forall base other tc oc right name ap r,
  WF base -> inputs_nullary base -> WF other -> inputs_nullary other ->
  connect_circuit base other tc oc right name ap = Ok r -> WF r /\ inputs_nullary r.
Proof. exact connect_circuit_inv. Qed.

(* ---- ... and has accepted arities when both constituents have: copied gates keep their type and
   operand count.  Hence the evaluators are total on the result (C01_evaluate_complete,
   C01_truth_table_complete): evaluate r vals returns the list of the Eval values of the outputs
   described by the theorems below ---- *)
Theorem C10_result_arities_accepted : forall base other tc oc right name ap r,
  WF other -> connect_circuit base other tc oc right name ap = Ok r ->
  arity_ok base -> arity_ok other -> arity_ok r.
Proof. exact connect_circuit_arity_ok. Qed.

Theorem C10_result_evaluates : forall base other tc oc right name ap r vals,
  WF base -> inputs_nullary base -> WF other -> inputs_nullary other ->
  arity_ok base -> arity_ok other ->
  connect_circuit base other tc oc right name ap = Ok r -> length (inputs r) <= length vals ->
  exists vs, evaluate r vals = Ok vs /\ Forall2 (Eval r (vec_assignment r vals)) (outputs r) vs.
Proof. exact connect_circuit_evaluates. Qed.

(* ---- LEFT connection: inputs oc_i of other are fed by the gates tc_i of base
        (repeated base gates allowed, any subset of the inputs of other) ---- *)
Theorem C10_connect_left : forall base other tc oc name ap r,
  WF base -> WF other -> connect_circuit base other tc oc false name ap = Ok r ->
  WF r /\
  inputs r = inputs base ++ map (conn_ren tc oc name ap) (free_of oc (inputs other)) /\
  outputs r = free_of tc (outputs base) ++ map (conn_ren tc oc name ap) (free_of oc (outputs other)) /\
  forall a,
    (* base is untouched *)
    (forall b v, has_gate base b = true -> (Eval r a b v <-> Eval base a b v)) /\
    (* a' : connector oc_i has the value of tc_i, an unconnected input x the value of its new label *)
    forall a',
      (forall i o t, nth_error oc i = Some o -> nth_error tc i = Some t -> Eval base a t (aval a' o)) /\
      (forall x, In x (inputs other) -> ~ In x oc -> aval a' x = aval a (conn_ren tc oc name ap x)) ->
      (forall l v, has_gate other l = true ->
                   (Eval r a (conn_ren tc oc name ap l) v <-> Eval other a' l v)) /\
      (forall vs, Forall2 (Eval r a) (outputs r) vs <->
                  exists vb vo, vs = vb ++ vo /\
                                Forall2 (Eval base a) (free_of tc (outputs base)) vb /\
                                Forall2 (Eval other a') (free_of oc (outputs other)) vo).
Proof. exact connect_left_correct. Qed.

(* such an a' exists whenever the connectors tc have values ws in base *)
Theorem C10_left_induced_assignment : forall base other tc oc name ap r a ws,
  WF base -> WF other -> connect_circuit base other tc oc false name ap = Ok r ->
  Forall2 (Eval base a) tc ws ->
  left_induced base other tc oc (conn_ren tc oc name ap) a
               (left_assignment (conn_ren tc oc name ap) a oc ws other).
Proof. exact left_induced_exists. Qed.

(* ---- RIGHT connection: the base inputs tc_i are replaced by the gates oc_i of other
        (any gates of other, also internal ones) ---- *)
Theorem C10_connect_right : forall base other tc oc name ap r,
  WF base -> inputs_nullary base -> WF other -> connect_circuit base other tc oc true name ap = Ok r ->
  WF r /\
  inputs r = filter (is_input_gate r) (inputs base) ++ map (conn_ren tc oc name ap) (free_of oc (inputs other)) /\
  (* a connector base input stays an input exactly when the gate written over it is an input *)
  (forall o t, dget (build_mapping oc tc []) o = Some t -> is_input_gate r t = is_input_gate other o) /\
  (forall b, has_gate base b = true -> (forall o, dget (build_mapping oc tc []) o <> Some b) ->
             is_input_gate r b = is_input_gate base b) /\
  outputs r = free_of tc (outputs base) ++ map (conn_ren tc oc name ap) (free_of oc (outputs other)) /\
  (* a' : every input x of other has the value of its new label *)
  forall a a', (forall x, In x (inputs other) -> aval a' x = aval a (conn_ren tc oc name ap x)) ->
    (forall l v, has_gate other l = true -> (Eval r a (conn_ren tc oc name ap l) v <-> Eval other a' l v)) /\
    (* a'' : the base input mapping[o] has the value of gate o of other, the other base inputs keep a *)
    forall a'',
      (forall o t, dget (build_mapping oc tc []) o = Some t -> Eval other a' o (aval a'' t)) /\
      (forall x, In x (inputs base) -> (forall o, dget (build_mapping oc tc []) o <> Some x) ->
                 aval a'' x = aval a x) ->
      (forall b v, has_gate base b = true -> (Eval r a b v <-> Eval base a'' b v)) /\
      (forall vs, Forall2 (Eval r a) (outputs r) vs <->
                  exists vb vo, vs = vb ++ vo /\
                                Forall2 (Eval base a'') (free_of tc (outputs base)) vb /\
                                Forall2 (Eval other a') (free_of oc (outputs other)) vo).
Proof. exact connect_right_correct. Qed.

(* the connector map for duplicate-free oc is the list of pairs; keys are exactly oc *)
Theorem C10_mapping_pairs : forall oc tc o t,
  NoDup oc ->
  (dget (build_mapping oc tc []) o = Some t <->
   exists i, nth_error oc i = Some o /\ nth_error tc i = Some t).
Proof. exact bm_nil_nth_iff. Qed.

(* whenever connect_circuit returns, in either direction: the gates of `other` in oc are pairwise distinct,
   in a right connection the base inputs in tc too, and the lists are equally long; hence every connector
   pair (oc_i, tc_i) is in the map - no pair is dropped.  (Before the repair D40 a right connection with a
   repeated gate of `other` silently kept only the last pair.) *)
Theorem C10_connectors_distinct : forall base other tc oc right name ap r,
  connect_circuit base other tc oc right name ap = Ok r ->
  NoDup oc /\ (right = true -> NoDup tc) /\ length tc = length oc.
Proof. exact connect_connectors_distinct. Qed.

Theorem C10_no_pair_dropped : forall base other tc oc right name ap r,
  connect_circuit base other tc oc right name ap = Ok r ->
  forall o t, dget (build_mapping oc tc []) o = Some t <->
              exists i, nth_error oc i = Some o /\ nth_error tc i = Some t.
Proof. exact connect_mapping_is_pairs. Qed.

Theorem C10_mapping_keys : forall oc tc x,
  length tc = length oc -> (dget (build_mapping oc tc []) x = None <-> ~ In x oc).
Proof. exact bm_nil_none_iff. Qed.

(* the labels given to the copied gates are not labels of base *)
Theorem C10_new_labels_fresh : forall base other tc oc right name ap r,
  WF other -> connect_circuit base other tc oc right name ap = Ok r ->
  forall l, has_gate other l = true -> dget (build_mapping oc tc []) l = None ->
            has_gate base (conn_ren tc oc name ap l) = false.
Proof. exact connect_new_labels_fresh. Qed.

(* ---- the wrappers (LeftCorrect / RightCorrect are the conclusions of the two theorems above) ---- *)
Theorem C10_connect_left_wrapper : forall base other tc name ap r,
  WF base -> WF other -> connect_left base other tc name ap = Ok r ->
  LeftCorrect base other tc (inputs other) name ap r.
Proof. exact connect_left_wrapper. Qed.

Theorem C10_connect_right_wrapper : forall base other oc name ap r,
  WF base -> inputs_nullary base -> WF other -> connect_right base other oc name ap = Ok r ->
  RightCorrect base other (inputs base) oc name ap r.
Proof. exact connect_right_wrapper. Qed.

Theorem C10_connect_inputs_wrapper : forall base other name ap r,
  WF base -> inputs_nullary base -> WF other -> connect_inputs base other name ap = Ok r ->
  RightCorrect base other (inputs base) (inputs other) name ap r.
Proof. exact connect_inputs_wrapper. Qed.

Theorem C10_extend_circuit_left : forall base other tc oc name ap r,
  WF base -> WF other -> extend_circuit base other tc oc false name ap = Ok r ->
  LeftCorrect base other (extend_tc base tc false) (extend_oc other oc false) name ap r.
Proof. exact extend_circuit_left_wrapper. Qed.

Theorem C10_extend_circuit_right : forall base other tc oc name ap r,
  WF base -> inputs_nullary base -> WF other -> extend_circuit base other tc oc true name ap = Ok r ->
  RightCorrect base other (extend_tc base tc true) (extend_oc other oc true) name ap r.
Proof. exact extend_circuit_right_wrapper. Qed.

Theorem C10_add_circuit : forall base other name ap r,
  WF base -> WF other -> add_circuit base other name ap = Ok r ->
  WF r /\
  inputs r = inputs base ++ map (fun x => (conn_prefix name ap ++ x)%string) (inputs other) /\
  outputs r = outputs base ++ map (fun x => (conn_prefix name ap ++ x)%string) (outputs other) /\
  forall a,
    (forall b v, has_gate base b = true -> (Eval r a b v <-> Eval base a b v)) /\
    forall a', (forall x, In x (inputs other) -> aval a' x = aval a (conn_prefix name ap ++ x)%string) ->
               forall l v, has_gate other l = true ->
                           (Eval r a (conn_prefix name ap ++ l)%string v <-> Eval other a' l v).
Proof. exact add_circuit_wrapper. Qed.

(* ---- block extraction (both directions): the block `name` exists, into_circuit returns a
        well formed circuit s whose inputs are the (renamed) inputs of other (first occurrences,
        when a base connector is repeated), whose outputs are the renamed outputs of other, and
        every gate of other - its outputs in particular - has in s the value it has in other ---- *)
Theorem C10_block_extract : forall base other tc oc right name ap r,
  WF base -> inputs_nullary base -> WF other -> inputs_nullary other ->
  connect_circuit base other tc oc right name ap = Ok r -> name <> "" ->
  exists blk s,
    dget (blocks r) name = Some blk /\
    binputs blk = map (conn_ren tc oc name ap) (inputs other) /\
    boutputs blk = map (conn_ren tc oc name ap) (outputs other) /\
    block_into_circuit r blk = Ok s /\ WF s /\
    inputs s = nub_first (map (conn_ren tc oc name ap) (inputs other)) /\
    outputs s = map (conn_ren tc oc name ap) (outputs other) /\
    forall a a', (forall x, In x (inputs other) -> aval a' x = aval a (conn_ren tc oc name ap x)) ->
                 forall l v, has_gate other l = true ->
                             (Eval s a (conn_ren tc oc name ap l) v <-> Eval other a' l v).
Proof. exact connect_block_extract. Qed.

Theorem C10_nub_first_nodup : forall l, NoDup l -> nub_first l = l.
Proof. exact nub_first_nodup. Qed.

(* Block.into_circuit in general: when it returns and what it returns *)
Theorem C10_block_into_circuit_spec : forall c b,
  (forall l, In l (bgates b) -> has_gate c l = true) ->
  (forall l g o, In l (bgates b) -> ~ In l (binputs b) -> dget (gates c) l = Some g -> In o (gops g) ->
                 In o (binputs b) \/ In o (bgates b)) ->
  (forall o, In o (boutputs b) -> In o (binputs b) \/ In o (bgates b)) ->
  exists s, block_into_circuit c b = Ok s /\
    (forall x, dget (gates s) x =
               if memb x (binputs b) then Some (mkGate INPUT [])
               else if memb x (bgates b) then dget (gates c) x else None) /\
    outputs s = boutputs b /\
    ((forall l, In l (bgates b) -> ~ In l (binputs b) -> is_input_gate c l = false) ->
     inputs s = nub_first (binputs b)).
Proof. exact block_into_circuit_spec. Qed.

(* ---- totality of a left connection: it returns normally as soon as the arguments pass the
        documented checks and no copied gate label / block name clashes with one of base
        (copied labels cannot clash with each other: prefixing is injective) ---- *)
Theorem C10_connect_left_total : forall base other tc oc name ap,
  WF base -> WF other ->
  dmem (blocks base) name = false ->
  (forall t, In t tc -> has_gate base t = true) ->
  (forall o, In o oc -> is_input_gate other o = true) -> NoDup oc -> length tc = length oc ->
  (forall l, has_gate other l = true -> ~ In l oc ->
             has_gate base (conn_prefix name ap ++ l)%string = false) ->
  (forall k, dmem (blocks other) k = true -> dmem (blocks base) (conn_prefix name ap ++ k)%string = false) ->
  exists r, connect_circuit base other tc oc false name ap = Ok r.
Proof. exact connect_left_total. Qed.

Theorem C10_prefix_injective : forall p x y : string, (p ++ x)%string = (p ++ y)%string -> x = y.
Proof. exact append_inj_l. Qed.

(* ---- non-vacuity: concrete compositions satisfying the hypotheses ---- *)
Definition C10_ex_base : circuit :=
  mkCircuit ["a"; "b"] ["g"]
    [("a", mkGate INPUT []); ("b", mkGate INPUT []); ("g", mkGate AND ["a"; "b"])]
    [("a", ["g"]); ("b", ["g"])] [].
Definition C10_ex_other : circuit :=
  mkCircuit ["p"; "q"; "s"] ["n"]
    [("p", mkGate INPUT []); ("q", mkGate INPUT []); ("s", mkGate INPUT []);
     ("m", mkGate XOR ["p"; "q"]); ("n", mkGate OR ["m"; "s"])]
    [("p", ["m"]); ("q", ["m"]); ("m", ["n"]); ("s", ["n"])] [].

(* left, with the base gate g repeated and the input s of other left unconnected *)
Example C10_example_left :
  WF C10_ex_base /\ inputs_nullary C10_ex_base /\ WF C10_ex_other /\ inputs_nullary C10_ex_other /\
  exists r, connect_circuit C10_ex_base C10_ex_other ["g"; "g"] ["p"; "q"] false "B" true = Ok r /\
            inputs r = ["a"; "b"; "B@s"] /\ outputs r = ["B@n"] /\
            exists blk s, dget (blocks r) "B" = Some blk /\ block_into_circuit r blk = Ok s /\
                          inputs s = ["g"; "B@s"] /\ outputs s = ["B@n"].
Proof.
  split; [apply wfb_sound; vm_compute; reflexivity|].
  split; [apply nullaryb_sound; vm_compute; reflexivity|].
  split; [apply wfb_sound; vm_compute; reflexivity|].
  split; [apply nullaryb_sound; vm_compute; reflexivity|].
  eexists; split; [vm_compute; reflexivity|]. split; [reflexivity|]. split; [reflexivity|].
  eexists; eexists; split; [vm_compute; reflexivity|]. split; [vm_compute; reflexivity|].
  split; reflexivity.
Qed.

(* right, with the internal gate m of other written over the base input a *)
Example C10_example_right :
  exists r, connect_circuit C10_ex_base C10_ex_other ["a"] ["m"] true "B" true = Ok r /\
            inputs r = ["b"; "B@p"; "B@q"; "B@s"] /\ outputs r = ["g"; "B@n"] /\
            dget (gates r) "a" = Some (mkGate XOR ["B@p"; "B@q"]) /\
            exists blk s, dget (blocks r) "B" = Some blk /\ block_into_circuit r blk = Ok s /\
                          inputs s = ["B@p"; "B@q"; "B@s"] /\ outputs s = ["B@n"].
Proof.
  eexists; split; [vm_compute; reflexivity|]. split; [reflexivity|]. split; [reflexivity|].
  split; [reflexivity|].
  eexists; eexists; split; [vm_compute; reflexivity|]. split; [vm_compute; reflexivity|].
  split; reflexivity.
Qed.
