(* C09  Subtraction, division, sqrt, comparison and gadget generators are exact.
   Statements only; proofs live in Proofs/.

   Reading guide.  `run fresh p s = Ok (r, s')`: the generator p, started on the builder state s
   (host circuit `bc s`, uuid counter `bk s`), returns r and leaves the state s'; `fresh` is the
   naming function of the uuid counter and is universally quantified (no distinctness
   hypothesis).  `bvals c a ls bs`: under the assignment a the gates ls of circuit c have the
   Boolean values bs in the relational semantics Sem.Eval.  `decode be v`: the number spelt by
   the bit vector v (little endian; big endian when be).  `ext c c'`: c' is c plus fresh
   non-INPUT gates whose operands exist, plus marked outputs (see C09_extension_meaning). *)
Require Import Cirbo.Model.Base Cirbo.Model.Gate Cirbo.Model.Den Cirbo.Model.Circuit
  Cirbo.Model.Eval Cirbo.Model.Sem Cirbo.Model.Builder.
Require Import Cirbo.Generated.ArithTables Cirbo.Generated.ArithCells.
Require Import Cirbo.Model.ArithSub Cirbo.Model.ArithSum2 Cirbo.Model.ArithDiv Cirbo.Model.ArithSqrt
  Cirbo.Model.ArithMisc.
Require Import Cirbo.Model.ArithGen.
Require Import Cirbo.Proofs.BuilderFacts Cirbo.Proofs.ArithFacts Cirbo.Proofs.ArithSubFacts
  Cirbo.Proofs.ArithSum2Facts Cirbo.Proofs.ArithMiscFacts Cirbo.Proofs.ArithDivFacts
  Cirbo.Proofs.ArithSqrtFacts Cirbo.Proofs.ArithGenFacts Cirbo.Proofs.TotalFacts
  Cirbo.Proofs.ArithTotalFacts Cirbo.Proofs.ArithTotalMiscFacts.
Require Import Cirbo.Model.PyPrims Cirbo.Generated.ArithGen09 Cirbo.Proofs.ArithGen09G.
Require Import Coq.Logic.FinFun.
Open Scope Z_scope.

(* ---- the builder layer ---------------------------------------------------------------- *)
(* the regenerated table binary_tt_to_type denotes the 4-character string: character 2l+r *)
Theorem C09_truth_table_gate_types : forall t l r,
  den (binary_tt_to_type t) [l; r] = Some (tt_fun t l r).
Proof. exact binary_tt_to_type_den. Qed.

(* EXTENSION, for every program built from the builder primitives *)
Theorem C09_every_generator_only_extends : forall fresh A (p : prog A) s r s',
  run fresh p s = Ok (r, s') -> ext (bc s) (bc s').
Proof. exact run_ext. Qed.

(* only fresh non-INPUT gates are appended, inputs and blocks are untouched, outputs are only
   appended; every pre-existing gate keeps its value under every assignment (and, on a host whose
   operands all exist, has no other value than before) *)
Theorem C09_extension_meaning : forall c c',
  ext c c' ->
  (exists ng m, gates c' = gates c ++ ng /\ Forall (new_entry c) ng /\ NoDup (dkeys ng) /\
                inputs c' = inputs c /\ blocks c' = blocks c /\ outputs c' = outputs c ++ m) /\
  (forall a l v, Eval c a l v -> Eval c' a l v) /\
  (closed c -> closed c' /\ forall a l v, has_gate c l = true -> Eval c' a l v -> Eval c a l v).
Proof. exact ext_meaning. Qed.

(* STEP: the gate added by add_gate_from_tt computes the table of its operands' values *)
Theorem C09_gate_from_tt_step : forall fresh t x y s l s',
  run fresh (gate_tt t x y) s = Ok (l, s') ->
  ext (bc s) (bc s') /\ has_gate (bc s) l = false /\
  has_gate (bc s) x = true /\ has_gate (bc s) y = true /\
  gates (bc s') = gates (bc s) ++ [(l, mkGate (binary_tt_to_type t) [x; y])] /\
  outputs (bc s') = outputs (bc s) /\
  forall a bx by_, bval (bc s) a x bx -> bval (bc s) a y by_ -> bval (bc s') a l (tt_fun t bx by_).
Proof. exact gate_tt_spec. Qed.

(* ---- subtraction --------------------------------------------------------------------- *)
Theorem C09_sub_exact : forall fresh xs ys be s rs s',
  run fresh (add_sub_two_numbers xs ys be) s = Ok (rs, s') ->
  ext (bc s) (bc s') /\ inputs (bc s') = inputs (bc s) /\ outputs (bc s') = outputs (bc s) /\
  length rs = length xs /\
  forall asg xv yv, bvals (bc s) asg xs xv -> bvals (bc s) asg ys yv ->
    exists rv, bvals (bc s') asg rs rv /\
      decode be rv = (decode be xv - decode be yv) mod 2 ^ Z.of_nat (length xs).
Proof. exact add_sub_two_numbers_correct. Qed.

Theorem C09_sub_with_compare_exact : forall fresh xs ys be s rs bor s',
  run fresh (add_subtract_with_compare xs ys be) s = Ok ((rs, bor), s') ->
  ext (bc s) (bc s') /\ inputs (bc s') = inputs (bc s) /\ outputs (bc s') = outputs (bc s) /\
  length rs = Nat.max (length xs) (length ys) /\
  forall asg xv yv, bvals (bc s) asg xs xv -> bvals (bc s) asg ys yv ->
    exists rv bv, bvals (bc s') asg rs rv /\ bval (bc s') asg bor bv /\
      decode be rv = (decode be xv - decode be yv) mod 2 ^ Z.of_nat (Nat.max (length xs) (length ys)) /\
      bv = (decode be xv <? decode be yv).
Proof. exact add_subtract_with_compare_correct. Qed.

(* ---- division and square root (all widths) --------------------------------------------- *)
(* add_div_mod raises unless both operands have the same, non-zero width *)
Theorem C09_div_mod_exact : forall fresh xs ys be s qs rs s',
  run fresh (add_div_mod xs ys be) s = Ok ((qs, rs), s') ->
  ext (bc s) (bc s') /\ inputs (bc s') = inputs (bc s) /\ outputs (bc s') = outputs (bc s) /\
  length ys = length xs /\ length qs = length xs /\ length rs = length xs /\
  forall asg xv yv, bvals (bc s) asg xs xv -> bvals (bc s) asg ys yv ->
    exists qv rv, bvals (bc s') asg qs qv /\ bvals (bc s') asg rs rv /\
      decode be qv = (if decode be yv =? 0 then 0 else decode be xv / decode be yv) /\
      decode be rv = (if decode be yv =? 0 then 0 else decode be xv mod decode be yv).
Proof. exact add_div_mod_correct. Qed.

(* floor(sqrt) on ceil(n/2) bits *)
Theorem C09_sqrt_exact : forall fresh xs be s rs s',
  run fresh (add_sqrt xs be) s = Ok (rs, s') ->
  ext (bc s) (bc s') /\ inputs (bc s') = inputs (bc s) /\ outputs (bc s') = outputs (bc s) /\
  length rs = ((length xs + 1) / 2)%nat /\
  forall asg xv, bvals (bc s) asg xs xv ->
    exists rv, bvals (bc s') asg rs rv /\ decode be rv = Z.sqrt (decode be xv).
Proof. exact add_sqrt_correct. Qed.

(* the ripple adder used by add_sqrt *)
Theorem C09_sum_two_numbers_exact : forall fresh xs ys be s rs s',
  run fresh (add_sum_two_numbers xs ys be) s = Ok (rs, s') ->
  ext (bc s) (bc s') /\ inputs (bc s') = inputs (bc s) /\ outputs (bc s') = outputs (bc s) /\
  length rs = S (Nat.max (length xs) (length ys)) /\
  forall c, ext (bc s') c -> forall asg xv yv, bvals c asg xs xv -> bvals c asg ys yv ->
    exists rv, bvals c asg rs rv /\ decode be rv = decode be xv + decode be yv.
Proof. exact add_sum_two_numbers_correct. Qed.

(* ---- equality with a constant -------------------------------------------------------- *)
(* (bits_val xv =? num) is False for every operand value when num is negative or >= 2^n *)
Theorem C09_equal_exact : forall fresh xs num s r s',
  run fresh (add_equal xs num) s = Ok (r, s') -> xs <> [] ->
  ext (bc s) (bc s') /\ inputs (bc s') = inputs (bc s) /\ outputs (bc s') = outputs (bc s) /\
  forall asg xv, bvals (bc s) asg xs xv -> bval (bc s') asg r (bits_val xv =? num).
Proof. exact add_equal_correct. Qed.

(* ---- gadgets of generation.py -------------------------------------------------------- *)
Theorem C09_plus_one_exact : forall fresh xs res ao be s r s',
  run fresh (add_plus_one xs res ao be) s = Ok (r, s') ->
  ext (bc s) (bc s') /\ inputs (bc s') = inputs (bc s) /\
  outputs (bc s') = outputs (bc s) ++ (if ao then r else []) /\
  (forall r0, res = Some r0 -> r = r0) /\ (res = None -> length r = S (length xs)) /\
  forall asg xv, bvals (bc s) asg xs xv ->
    exists rv, bvals (bc s') asg r rv /\
      decode be rv = (decode be xv + 1) mod 2 ^ Z.of_nat (length r).
Proof. exact add_plus_one_correct. Qed.

Theorem C09_if_then_else_exact : forall fresh i t e res ao s r s',
  run fresh (add_if_then_else i t e res ao) s = Ok (r, s') ->
  ext (bc s) (bc s') /\ inputs (bc s') = inputs (bc s) /\
  outputs (bc s') = outputs (bc s) ++ (if ao then [r] else []) /\
  (forall r0, res = Some r0 -> r = r0) /\ has_gate (bc s) r = false /\
  forall asg iv tv ev, bval (bc s) asg i iv -> bval (bc s) asg t tv -> bval (bc s) asg e ev ->
    bval (bc s') asg r (if iv then tv else ev).
Proof. exact add_if_then_else_correct. Qed.

Theorem C09_pairwise_if_then_else_exact : forall fresh is_ ts es res ao s r s',
  run fresh (add_pairwise_if_then_else is_ ts es res ao) s = Ok (r, s') ->
  ext (bc s) (bc s') /\ inputs (bc s') = inputs (bc s) /\
  outputs (bc s') = outputs (bc s) ++ (if ao then r else []) /\
  (forall r0, res = Some r0 -> r = r0) /\ length r = length is_ /\
  length ts = length is_ /\ length es = length is_ /\
  forall asg iv tv ev, bvals (bc s) asg is_ iv -> bvals (bc s) asg ts tv -> bvals (bc s) asg es ev ->
    bvals (bc s') asg r (map3 (fun i t e : bool => if i then t else e) iv tv ev).
Proof. exact add_pairwise_if_then_else_correct. Qed.

Theorem C09_pairwise_xor_exact : forall fresh xs ys res ao s r s',
  run fresh (add_pairwise_xor xs ys res ao) s = Ok (r, s') ->
  ext (bc s) (bc s') /\ inputs (bc s') = inputs (bc s) /\
  outputs (bc s') = outputs (bc s) ++ (if ao then r else []) /\
  (forall r0, res = Some r0 -> r = r0) /\ length r = length xs /\ length ys = length xs /\
  forall asg xv yv, bvals (bc s) asg xs xv -> bvals (bc s) asg ys yv ->
    bvals (bc s') asg r (map2 xorb xv yv).
Proof. exact add_pairwise_xor_correct. Qed.

(* ---- "every add_* form works on arbitrary existing gates" ------------------------------------ *)
(* The model returns Ok (so the theorems above apply) whenever the operands are existing gates of
   the host, the widths are as documented and caller-chosen labels are new and distinct -- for
   every injective naming function of the uuid counter.  `all_exist c ls`: every label of ls names
   a gate of c;  `absent c ls`: none does. *)
Theorem C09_sub_works : forall fresh, Injective fresh -> forall xs ys be s,
  xs <> [] -> ys <> [] -> all_exist (bc s) xs -> all_exist (bc s) ys ->
  exists r s', run fresh (add_sub_two_numbers xs ys be) s = Ok (r, s').
Proof. exact (fun fresh Hinj => add_sub_two_numbers_total fresh (injective_fresh_total fresh Hinj)). Qed.

Theorem C09_sub_with_compare_works : forall fresh, Injective fresh -> forall xs ys be s,
  xs <> [] -> ys <> [] -> all_exist (bc s) xs -> all_exist (bc s) ys ->
  exists r s', run fresh (add_subtract_with_compare xs ys be) s = Ok (r, s').
Proof. exact (fun fresh Hinj => add_subtract_with_compare_total fresh (injective_fresh_total fresh Hinj)). Qed.

Theorem C09_div_mod_works : forall fresh, Injective fresh -> forall xs ys be s,
  xs <> [] -> length ys = length xs -> all_exist (bc s) xs -> all_exist (bc s) ys ->
  exists r s', run fresh (add_div_mod xs ys be) s = Ok (r, s').
Proof. exact (fun fresh Hinj => add_div_mod_total fresh (injective_fresh_total fresh Hinj)). Qed.

Theorem C09_sqrt_works : forall fresh, Injective fresh -> forall xs be s,
  xs <> [] -> all_exist (bc s) xs -> exists r s', run fresh (add_sqrt xs be) s = Ok (r, s').
Proof. exact (fun fresh Hinj => add_sqrt_total fresh (injective_fresh_total fresh Hinj)). Qed.

Theorem C09_equal_works : forall fresh, Injective fresh -> forall xs num s,
  xs <> [] -> all_exist (bc s) xs -> exists r s', run fresh (add_equal xs num) s = Ok (r, s').
Proof. exact (fun fresh Hinj => add_equal_total fresh (injective_fresh_total fresh Hinj)). Qed.

Theorem C09_plus_one_works : forall fresh, Injective fresh -> forall xs res ao be s,
  xs <> [] -> all_exist (bc s) xs ->
  (forall rl, res = Some rl -> rl <> [] /\ NoDup rl /\ absent (bc s) rl) ->
  exists r s', run fresh (add_plus_one xs res ao be) s = Ok (r, s').
Proof. exact add_plus_one_total. Qed.

Theorem C09_if_then_else_works : forall fresh, Injective fresh -> forall i t e res ao s,
  has_gate (bc s) i = true -> has_gate (bc s) t = true -> has_gate (bc s) e = true ->
  (forall r0, res = Some r0 -> has_gate (bc s) r0 = false) ->
  exists r s', run fresh (add_if_then_else i t e res ao) s = Ok (r, s').
Proof. exact add_if_then_else_total. Qed.

(* caller-chosen result labels must not be of the uuid shape: the temporaries of pair i are
   generated after the labels were chosen and could otherwise take the label of pair i+1 *)
Theorem C09_pairwise_if_then_else_works : forall fresh, Injective fresh -> forall is_ ts es res ao s,
  all_exist (bc s) is_ -> all_exist (bc s) ts -> all_exist (bc s) es ->
  length ts = length is_ -> length es = length is_ ->
  (forall rl, res = Some rl -> length rl = length is_ /\ NoDup rl /\ absent (bc s) rl /\
                               forall r k, In r rl -> r <> fresh k) ->
  exists r s', run fresh (add_pairwise_if_then_else is_ ts es res ao) s = Ok (r, s').
Proof. exact add_pairwise_if_then_else_total. Qed.

Theorem C09_pairwise_xor_works : forall fresh, Injective fresh -> forall xs ys res ao s,
  all_exist (bc s) xs -> all_exist (bc s) ys -> length ys = length xs ->
  (forall rl, res = Some rl -> length rl = length xs /\ NoDup rl /\ absent (bc s) rl) ->
  exists r s', run fresh (add_pairwise_xor xs ys res ao) s = Ok (r, s').
Proof. exact add_pairwise_xor_total. Qed.

(* non-vacuity of the hypothesis: the naming function the harness uses is injective *)
Example C09_short_label_injective : Injective short_label.
Proof. exact short_label_injective. Qed.

(* ---- the generate_* wrappers --------------------------------------------------------------- *)
(* `assigns asg ins bs`: the assignment gives the inputs ins the Boolean values bs *)
Theorem C09_generate_sub_two_numbers : forall fresh k0 ins size_a be c,
  generate_sub_two_numbers fresh k0 ins size_a be = Ok c ->
  inputs c = ins /\ length (outputs c) = length (firstn size_a ins) /\
  forall asg bs, assigns asg ins bs ->
    exists rv, bvals c asg (outputs c) rv /\
      decode be rv = (decode be (firstn size_a bs) - decode be (skipn size_a bs))
                     mod 2 ^ Z.of_nat (length (firstn size_a ins)).
Proof. exact generate_sub_two_numbers_correct. Qed.

Theorem C09_generate_div_mod : forall fresh k0 ins n be c,
  generate_div_mod fresh k0 ins n be = Ok c ->
  inputs c = ins /\ length (skipn n ins) = length (firstn n ins) /\
  exists qs rs, outputs c = qs ++ rs /\ length qs = length (firstn n ins) /\ length rs = length (firstn n ins) /\
  forall asg bs, assigns asg ins bs ->
    exists qv rv, bvals c asg qs qv /\ bvals c asg rs rv /\
      let A := decode be (firstn n bs) in let B := decode be (skipn n bs) in
      decode be qv = (if B =? 0 then 0 else A / B) /\ decode be rv = (if B =? 0 then 0 else A mod B).
Proof. exact generate_div_mod_correct. Qed.

Theorem C09_generate_sqrt : forall fresh k0 ins be c,
  generate_sqrt fresh k0 ins be = Ok c ->
  inputs c = ins /\ length (outputs c) = ((length ins + 1) / 2)%nat /\
  forall asg bs, assigns asg ins bs ->
    exists rv, bvals c asg (outputs c) rv /\ decode be rv = Z.sqrt (decode be bs).
Proof. exact generate_sqrt_correct. Qed.

Theorem C09_generate_equal : forall fresh k0 ins num c,
  generate_equal fresh k0 ins num = Ok c -> ins <> [] ->
  inputs c = ins /\ exists o, outputs c = [o] /\
  forall asg bs, assigns asg ins bs -> bval c asg o (bits_val bs =? num).
Proof. exact generate_equal_correct. Qed.

Theorem C09_generate_plus_one : forall fresh k0 xs zs be c,
  generate_plus_one fresh k0 xs zs be = Ok c ->
  inputs c = xs /\ outputs c = zs /\
  forall asg bs, assigns asg xs bs ->
    exists rv, bvals c asg zs rv /\ decode be rv = (decode be bs + 1) mod 2 ^ Z.of_nat (length zs).
Proof. exact generate_plus_one_correct. Qed.

Theorem C09_generate_if_then_else : forall fresh k0 i t e r c,
  generate_if_then_else fresh k0 i t e r = Ok c ->
  inputs c = [i; t; e] /\ outputs c = [r] /\
  forall asg iv tv ev, assigns asg [i; t; e] [iv; tv; ev] -> bval c asg r (if iv then tv else ev).
Proof. exact generate_if_then_else_correct. Qed.

Theorem C09_generate_pairwise_if_then_else : forall fresh k0 is_ ts es rs c,
  generate_pairwise_if_then_else fresh k0 is_ ts es rs = Ok c ->
  inputs c = is_ ++ ts ++ es /\ outputs c = rs /\
  length ts = length is_ /\ length es = length is_ /\ length rs = length is_ /\
  forall asg bs, assigns asg (is_ ++ ts ++ es) bs ->
    let n := length is_ in
    bvals c asg rs (map3 (fun i t e : bool => if i then t else e)
                         (firstn n bs) (firstn n (skipn n bs)) (skipn n (skipn n bs))).
Proof. exact generate_pairwise_if_then_else_correct. Qed.

Theorem C09_generate_pairwise_xor : forall fresh k0 xs ys rs c,
  generate_pairwise_xor fresh k0 xs ys rs = Ok c ->
  inputs c = xs ++ ys /\ outputs c = rs /\ length ys = length xs /\ length rs = length xs /\
  forall asg bs, assigns asg (xs ++ ys) bs ->
    bvals c asg rs (map2 xorb (firstn (length xs) bs) (skipn (length xs) bs)).
Proof. exact generate_pairwise_xor_correct. Qed.


(* ---- the second tie of the generator ALGORITHMS ------------------------------------------------ *)
(* Translator T14 (translator/t14_arith_gen.py) regenerates, on every run, each add_* generator and each
   generate_* wrapper of the property from the STATEMENTS of its Python source as gen_<name>
   (Generated/ArithGen09.v: loops as folds in the builder monad, list stores / appends / reversals, Python
   indexing and slicing on Z, the cells and tables of T4, the builder primitives for the uuid labels and
   add_gate / emplace_gate / mark_as_output).  Each of them runs exactly like the hand model the theorems above
   are about: same result, same final state, same error -- for every argument, every host state and every naming
   function.  py_bare_labels n = [str(0); ...; str(n-1)] are the inputs of Circuit.bare_circuit(n);
   gen__generate_labels p n = [p_0; ...; p_(n-1)] is the regenerated _generate_labels.  The only side condition:
   a negative size_of_input_a is a Python slice from the end, which the nat parameter of the hand model cannot
   express (Proofs/ArithGen09G.v: generate_sub_negative_size_differs). *)
Theorem C09_generators_regenerated :
  (forall a b be fresh s,
     run fresh (gen_add_sub_two_numbers a b be) s = run fresh (add_sub_two_numbers a b be) s) /\
  (forall a b be fresh s,
     run fresh (gen_add_subtract_with_compare a b be) s = run fresh (add_subtract_with_compare a b be) s) /\
  (forall a b be fresh s,
     run fresh (gen_add_div_mod a b be) s = run fresh (add_div_mod a b be) s) /\
  (forall x be fresh s,
     run fresh (gen_add_sqrt x be) s = run fresh (add_sqrt x be) s) /\
  (forall x num fresh s,
     run fresh (gen_add_equal x num) s = run fresh (add_equal x num) s) /\
  (forall x res ao be fresh s,
     run fresh (gen_add_plus_one x res ao be) s = run fresh (add_plus_one x res ao be) s) /\
  (forall i t e res ao fresh s,
     run fresh (gen_add_if_then_else i t e res ao) s = run fresh (add_if_then_else i t e res ao) s) /\
  (forall is_ ts es res ao fresh s,
     run fresh (gen_add_pairwise_if_then_else is_ ts es res ao) s
     = run fresh (add_pairwise_if_then_else is_ ts es res ao) s) /\
  (forall xs ys res ao fresh s,
     run fresh (gen_add_pairwise_xor xs ys res ao) s = run fresh (add_pairwise_xor xs ys res ao) s) /\
  (* the generate_* wrappers, on the input labels the source builds *)
  (forall fresh k0 sa sb be, 0 <= sa ->
     gen_generate_sub_two_numbers fresh k0 sa sb be
     = generate_sub_two_numbers fresh k0 (py_bare_labels (sa + sb)) (Z.to_nat sa) be) /\
  (forall fresh k0 n be,
     gen_generate_div_mod fresh k0 n be = generate_div_mod fresh k0 (py_bare_labels (2 * n)) (Z.to_nat n) be) /\
  (forall fresh k0 n be,
     gen_generate_sqrt fresh k0 n be = generate_sqrt fresh k0 (py_bare_labels n) be) /\
  (forall fresh k0 n num,
     gen_generate_equal fresh k0 n num = generate_equal fresh k0 (py_bare_labels n) num) /\
  (forall fresh k0 il ol be,
     gen_generate_plus_one fresh k0 il ol be
     = generate_plus_one fresh k0 (rev_if be (gen__generate_labels "x" il))
         (rev_if be (gen__generate_labels "z" ol)) be) /\
  (forall fresh k0,
     gen_generate_if_then_else fresh k0 = generate_if_then_else fresh k0 "if" "then" "else" "if_then_else") /\
  (forall fresh k0 n,
     gen_generate_pairwise_if_then_else fresh k0 n
     = generate_pairwise_if_then_else fresh k0 (gen__generate_labels "if" n) (gen__generate_labels "then" n)
         (gen__generate_labels "else" n) (gen__generate_labels "if_then_else" n)) /\
  (forall fresh k0 n,
     gen_generate_pairwise_xor fresh k0 n
     = generate_pairwise_xor fresh k0 (gen__generate_labels "x" n) (gen__generate_labels "y" n)
         (gen__generate_labels "xor" n)).
Proof. exact generators_regenerated. Qed.

(* ---- non-vacuity: the generators do return Ok ---------------------------------------- *)
Example C09_example_runs :
  let host := mkCircuit ["a"; "b"; "c"] ["g"]
      [("a", mkGate INPUT []); ("b", mkGate INPUT []); ("c", mkGate INPUT []); ("g", mkGate AND ["a"; "b"])]
      [("a", ["g"]); ("b", ["g"])] [] in
  is_ok (run short_label (add_sub_two_numbers ["a"; "g"] ["c"] true) (mkB host 1)) = true /\
  is_ok (run short_label (add_subtract_with_compare ["g"] ["c"; "a"] true) (mkB host 1)) = true /\
  is_ok (run short_label (add_equal ["a"; "g"; "c"] 5) (mkB host 1)) = true /\
  is_ok (run short_label (add_plus_one ["g"; "c"] None false true) (mkB host 1)) = true /\
  is_ok (run short_label (add_pairwise_if_then_else ["a"] ["g"] ["c"] (Some ["r"]) true) (mkB host 1)) = true /\
  is_ok (run short_label (add_pairwise_xor ["a"; "b"] ["g"; "c"] None true) (mkB host 1)) = true /\
  is_ok (run short_label (add_div_mod ["a"; "g"] ["c"; "b"] false) (mkB host 1)) = true /\
  is_ok (run short_label (add_sqrt ["a"; "g"; "c"] false) (mkB host 1)) = true /\
  is_ok (generate_div_mod short_label 1 ["0"; "1"; "2"; "3"] 2 true) = true /\
  is_ok (generate_plus_one short_label 1 ["x_1"; "x_0"] ["z_2"; "z_1"; "z_0"] true) = true.
Proof. vm_compute. repeat split. Qed.
