(* C05  The circuit-to-CNF reduction is exact.
   Statements only; proofs live in Proofs/Tseytin*.v.  The clause templates
   (Generated/Tseytin.v: template_of) are regenerated from cirbo/sat/cnf/tseytin.py on every
   check; the transformation itself (Model/TseytinAlg.v) is tied to the code twice: it is
   regenerated statement by statement from the source on every check
   (Generated/TseytinAlgGen.v, translator T13) and proved equal to the hand model
   (C05_algorithm_regenerated), and by exact clause-list correspondence.  Literals are non-zero integers, sigma : Z -> bool values the
   variables, `lval` a literal, `sat` a clause list. *)
Require Import Cirbo.Model.Base Cirbo.Model.Gate Cirbo.Model.Den Cirbo.Model.Circuit Cirbo.Model.Eval
        Cirbo.Model.Sem Cirbo.Model.Cnf Cirbo.Model.TseytinAlg Cirbo.Model.TseytinCases.
Require Import Cirbo.Generated.Tseytin Cirbo.Generated.TseytinAlgGen Cirbo.Generated.SatQueryGen.
Require Import Cirbo.Proofs.TseytinAlgGen Cirbo.Proofs.SatQueryGen.
Require Import Cirbo.Proofs.TseytinTemplates Cirbo.Proofs.TseytinSound Cirbo.Proofs.TseytinSat
        Cirbo.Proofs.TseytinFuel Cirbo.Proofs.TseytinExamples.
Local Open Scope Z_scope.

(* (i) every clause template is exact, for every gate type and EVERY arity its operator accepts
   (n-ary AND/OR/XOR/NAND/NOR/NXOR for any number >= 2 of operands, repeated operands and
   negative literals included): the clauses hold under sigma iff the top literal has the value
   of the gate's Boolean function on the operand literals *)
Theorem C05_template_exact : forall g top lits cl sigma,
  top <> 0 -> Forall (fun l => l <> 0) lits ->
  den_accepts g (length lits) = true ->
  template_of g top lits = Ok cl ->
  (sat sigma cl = true <-> den g (map (lval sigma) lits) = Some (lval sigma top)).
Proof. exact template_exact. Qed.

(* ... and no template raises (IndexError) at an accepted arity *)
Theorem C05_template_total : forall g top lits,
  den_accepts g (length lits) = true -> exists cl, template_of g top lits = Ok cl.
Proof. exact template_accepts. Qed.

(* (ii) the whole formula.  c: input list duplicate-free and exactly the INPUT gates, every
   other gate has an accepted operand count (tseytin_wf); a: total on the inputs.  Whenever
   the transformation returns (cnf f, label -> variable map lit) for the selection outs:
     - input i is variable i+1;  every selected output is encoded;
     - f together with the input assignment is satisfiable  <->  all selected outputs are True;
     - every satisfying valuation that agrees with a on the inputs gives EVERY encoded gate
       its evaluated value (the extension is unique on the encoded gates). *)
Theorem C05_reduction_exact : forall c a outs f lit,
  tseytin_wf c = true -> total_on c a -> tseytin c outs = Ok (f, lit) ->
  exists sel, selected_outputs c outs = Ok sel /\
    (forall i l, nth_error (inputs c) i = Some l -> dget lit l = Some (Z.of_nat i + 1)) /\
    (forall o, In o sel -> dmem lit o = true) /\
    ((exists sigma, sat sigma f = true /\ agrees_on_inputs c a sigma)
       <-> Forall (fun o => Eval c a o T) sel) /\
    (forall sigma, sat sigma f = true -> agrees_on_inputs c a sigma ->
                   forall l v, dget lit l = Some v -> Eval c a l (inj (sigma v))).
Proof. exact tseytin_exact. Qed.

(* outputs=None (Cnf.from_circuit) selects every output, in order *)
Theorem C05_default_selects_all_outputs : forall c, selected_outputs c None = Ok (outputs c).
Proof. exact selected_outputs_default. Qed.

(* the transformation does return on every closed, acyclic netlist with accepted arities and a
   valid selection (no exception, fuel size+1 suffices) ... *)
Theorem C05_returns_on_wellformed : forall c outs sel,
  acyclic c -> closedb c = true -> arity_okb c = true ->
  selected_outputs c outs = Ok sel -> exists r, tseytin c outs = Ok r.
Proof. exact tseytin_total. Qed.

(* ... the model's fuel (a bound on the recursion depth; CPython's own recursion limit is a
   runtime fact outside the model) is never exhausted on an acyclic netlist, and never
   influences a result *)
Theorem C05_fuel_adequate : forall c outs e, acyclic c -> tseytin c outs = Err e -> e <> OutOfFuel.
Proof. exact tseytin_never_out_of_fuel. Qed.

Theorem C05_result_independent_of_fuel : forall c outs f1 f2 r1 r2,
  tseytin_fuel f1 c outs = Ok r1 -> tseytin_fuel f2 c outs = Ok r2 -> r1 = r2.
Proof. exact tseytin_fuel_deterministic. Qed.

(* (iii) is_circuit_satisfiable, for ANY solver that is sound and complete (H-solver) *)
Theorem C05_circuit_sat_model : forall solve : list (list Z) -> option (list Z),
  (forall f m, solve f = Some m -> sat (sigma_of_model m) f = true) ->
  forall c m, tseytin_wf c = true -> is_circuit_satisfiable solve c = Ok (Some m) ->
  exists f, tseytin_cnf c None = Ok f /\ sat (sigma_of_model m) f = true /\
    total_on c (assignment_of c (sigma_of_model m)) /\
    agrees_on_inputs c (assignment_of c (sigma_of_model m)) (sigma_of_model m) /\
    Forall (fun o => Eval c (assignment_of c (sigma_of_model m)) o T) (outputs c).
Proof. exact circuit_sat_model. Qed.

Theorem C05_circuit_unsat : forall solve : list (list Z) -> option (list Z),
  (forall f, solve f = None -> forall sigma, sat sigma f = false) ->
  forall c, tseytin_wf c = true -> is_circuit_satisfiable solve c = Ok None ->
  forall a, total_on c a -> ~ Forall (fun o => Eval c a o T) (outputs c).
Proof. exact circuit_unsat. Qed.

Theorem C05_circuit_sat_answer : forall solve : list (list Z) -> option (list Z),
  (forall f m, solve f = Some m -> sat (sigma_of_model m) f = true) ->
  (forall f, solve f = None -> forall sigma, sat sigma f = false) ->
  forall c r, tseytin_wf c = true -> is_circuit_satisfiable solve c = Ok r ->
  ((exists m, r = Some m) <-> exists a, total_on c a /\ Forall (fun o => Eval c a o T) (outputs c)).
Proof. exact circuit_sat_answer. Qed.

(* (iv) the hand model IS the code: gen_tseytin_transformation (Generated/TseytinAlgGen.v) is
   regenerated on every check from the statements of tseytin_transformation and its closures
   (__register_new_gate, the defaultdict saved_lits, get_lit, the recursive process_gate, the
   numbering loop over circuit.inputs, the default selection, the loop over the selected outputs
   with its unit clauses, `return Cnf(cnf)`), calling the regenerated accessors of circuit.py
   (T9) and the regenerated templates (T2).  It returns the final closure state and the raw
   clause list of the returned Cnf object.  For ALL circuits, selections and fuels - no side
   condition - the raw list and the final saved_lits are what the model returns (same error
   otherwise); `tseytin` / `tseytin_cnf`, the objects of the theorems above, are the instance
   fuel = size + 1. *)
Theorem C05_algorithm_regenerated : forall c outs,
  (forall fuel, (do r <- gen_tseytin_transformation fuel c outs; Ok (snd r, saved (fst r)))
                = tseytin_fuel fuel c outs) /\
  (do r <- gen_tseytin_transformation (S (size c)) c outs; Ok (snd r, saved (fst r))) = tseytin c outs /\
  (do r <- gen_tseytin_transformation (S (size c)) c outs; Ok (snd r)) = tseytin_cnf c outs.
Proof. exact algorithm_regenerated. Qed.

(* (v) the satisfiability QUERY itself (cirbo/sat/sat.py is_satisfiable / is_circuit_satisfiable, Cnf.from_circuit,
   Cnf.get_raw) is regenerated on every check by translator T27, whose fail-closed grammar accepts only the glue that
   hands the raw clause list to the solver once and whole and returns the solver's answer and model as they are.  The
   regenerated query is the query the theorems (iii) speak about, for every solver and every circuit; and the
   formula the solver receives is the clause list of the transformation itself. *)
Theorem C05_query_regenerated : forall (solve : list (list Z) -> option (list Z)) (c : circuit),
  gen_is_circuit_satisfiable solve c = is_circuit_satisfiable solve c.
Proof. exact query_regenerated. Qed.

Theorem C05_query_hands_whole_formula : forall (solve : list (list Z) -> option (list Z)) (c : circuit) r,
  gen_is_circuit_satisfiable solve c = Ok r <->
  exists f, tseytin_cnf c None = Ok f /\ gen_is_satisfiable solve f = r /\ solve f = r.
Proof. exact query_hands_whole_formula. Qed.

(* ---- non-vacuity: the hypotheses are satisfiable ---------------------------------- *)
(* a circuit with a 3-operand XOR satisfies every hypothesis, the transformation returns on it,
   and a total assignment makes all its outputs True *)
Example C05_ex_hypotheses :
  tseytin_wf ex_circuit = true /\ closedb ex_circuit = true /\ acyclic ex_circuit /\
  total_on ex_circuit ex_assignment /\
  Forall (fun o => Eval ex_circuit ex_assignment o T) (outputs ex_circuit) /\
  exists f lit, tseytin ex_circuit None = Ok (f, lit) /\ length f = 13%nat.
Proof.
  exact (conj (proj1 ex_wf) (conj (proj2 ex_wf) (conj ex_acyclic (conj ex_total (conj ex_outputs_true ex_runs))))).
Qed.

(* the regenerated XOR template at arity 3 *)
Example C05_ex_xor3 :
  template_of XOR 4 [1; 2; 3] =
  Ok [[-1; -2; -3; 4]; [-1; -2; 3; -4]; [-1; 2; -3; -4]; [-1; 2; 3; 4];
      [1; -2; -3; -4]; [1; -2; 3; 4]; [1; 2; -3; 4]; [1; 2; 3; -4]].
Proof. exact ex_xor3_template. Qed.

(* a sound and complete solver exists (exhaustive search), and answers on the example *)
Example C05_ex_solver :
  exists solve : list (list Z) -> option (list Z),
    (forall f m, solve f = Some m -> sat (sigma_of_model m) f = true) /\
    (forall f, solve f = None -> forall sigma, sat sigma f = false).
Proof. exact solver_hypotheses_satisfiable. Qed.

Example C05_ex_query : exists m, is_circuit_satisfiable brute_solve ex_circuit = Ok (Some m).
Proof. exact ex_query. Qed.
