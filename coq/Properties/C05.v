(* C05 stub *)
Require Import Cirbo.Model.Base Cirbo.Model.Cnf Cirbo.Model.TseytinAlg Cirbo.Model.TseytinCases.
