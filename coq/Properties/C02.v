(* C02  Circuits stay well formed under every history of public mutations.
   (theorems are added below as their proofs are completed) *)
Require Import Cirbo.Model.Base Cirbo.Model.Gate Cirbo.Model.Circuit Cirbo.Model.History Cirbo.Model.WF.
