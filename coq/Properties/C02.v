(* C02  Circuits stay well formed under every history of public mutations.
   Statements only; proofs live in Proofs/WF*.v.

   Full statement (target):
     Theorem C02_step_wf : forall c o c', Inv c -> op_ok c o -> step c o = Ok c' -> Inv c'.
     Theorem C02_history_wf : forall os c c', Inv c -> history_ok c os -> foldM step os c = Ok c' -> Inv c'.
   where Inv c := WF c /\ inputs_nullary c (INPUT gates have no operands: a companion invariant that
   replace_inputs and the bench converters silently rely on) and op_ok collects the conditions on the
   ARGUMENTS of a call (Proofs/WFStep.v).  The `_partial` theorems restrict the operation to the
   constructors for which the preservation lemma is finished (`covered`). *)
Require Import Cirbo.Model.Base Cirbo.Model.Gate Cirbo.Model.Circuit Cirbo.Model.History Cirbo.Model.WF.
Require Import Cirbo.Proofs.WFBase Cirbo.Proofs.WFEmplace Cirbo.Proofs.WFStep.

Theorem C02_empty_wf : WF empty_circuit /\ inputs_nullary empty_circuit.
Proof. exact Inv_empty. Qed.

Theorem C02_step_wf_partial : forall c o c',
  covered o = true -> Inv c -> op_ok c o -> step c o = Ok c' -> Inv c'.
Proof. exact step_inv_partial. Qed.

Theorem C02_history_wf_partial : forall os c c',
  forallb covered os = true -> Inv c -> history_ok c os -> foldM step os c = Ok c' -> Inv c'.
Proof. exact history_inv_partial. Qed.
