(* C02  Circuits stay well formed under every history of public mutations.
   Statements only; proofs live in Proofs/WF*.v (per-operation preservation lemmas),
   Proofs/WFStep.v (assembly) and Proofs/WFSound.v (the executable check wfb).

   The invariant carried along a history is
     Inv c := WF c /\ inputs_nullary c
   WF (Model/WF.v) is the well-formedness of the property text; inputs_nullary ("an INPUT gate
   has no operands", Proofs/WFEmplace.v) is a companion invariant that had to be added:
   replace_inputs, the bench converters and the right connection silently rely on it
   (counterexamples: Proofs/WFBench.v cex_nullary_breaks, Proofs/WFConnect.v).

   op_ok c o (Proofs/WFStep.v) is what "valid arguments" means for the call o in state c:
     - emplace_gate / add_gate of an INPUT gate: no operands;
     - connect_circuit and its five wrappers, replace_subcircuit: the circuit argument satisfies Inv;
     - into_bench: the comparison-like gates (LT LEQ GT GEQ LIFF RIFF LNOT RNOT) of c have at most two
       operands (the converters read operands 0 and 1 and drop the rest without updating the users
       index: Proofs/WFBench.v cex_ternary_breaks);
     - all other calls: no condition.
   history_ok c os: every call of the history satisfies op_ok in the state it is applied to. *)
Require Import Cirbo.Model.Base Cirbo.Model.Gate Cirbo.Model.Circuit Cirbo.Model.Connect
        Cirbo.Model.History Cirbo.Model.WF.
Require Import Cirbo.Proofs.WFBase Cirbo.Proofs.WFEmplace Cirbo.Proofs.WFStep Cirbo.Proofs.WFSound.
Require Import Cirbo.Generated.Converters Cirbo.Proofs.WFBench Cirbo.Proofs.ConvertersGen Cirbo.Proofs.ConvertersGenWF.

Theorem C02_empty_wf : WF empty_circuit /\ inputs_nullary empty_circuit.
Proof. exact Inv_empty. Qed.

(* every modelled public mutator (all 24 constructors of History.op) preserves the invariant *)
Theorem C02_step_wf : forall c o c',
  Inv c -> op_ok c o -> step c o = Ok c' -> Inv c'.
Proof. exact step_inv. Qed.

Theorem C02_history_wf : forall os c c',
  Inv c -> history_ok c os -> foldM step os c = Ok c' -> Inv c'.
Proof. exact history_inv. Qed.

(* circuits built from scratch are well formed *)
Theorem C02_history_wf_from_empty : forall os c',
  history_ok empty_circuit os -> foldM step os empty_circuit = Ok c' -> WF c'.
Proof. exact history_wf_from_empty. Qed.

(* the into_bench case once more, for the driver of Model/Connect.v run over the rewrite rules that
   translator T6 regenerates from converters.py on every check (Generated/Converters.v); normal
   returns of generated_into_bench and of the into_bench used by `step` coincide
   (Properties/C14.v C14_rules_regenerated).  binary_le' : the comparison-like gates of c have at
   most two operands (the into_bench clause of op_ok, in the weaker form the proof uses). *)
Theorem C02_into_bench_regenerated_wf : forall c fresh c',
  WF c -> inputs_nullary c -> binary_le' c -> generated_into_bench c fresh = Ok c' ->
  WF c' /\ inputs_nullary c'.
Proof. exact generated_into_bench_inv_le. Qed.

(* the executable check that the correspondence harness evaluates on every dumped
   implementation state is exactly WF *)
Theorem C02_wfb_sound : forall c, wfb c = true -> WF c.
Proof. exact wfb_sound. Qed.

Theorem C02_wfb_complete : forall c, WF c -> wfb c = true.
Proof. exact wfb_complete. Qed.

(* non-vacuity: a history through 11 kinds of calls (a left connection of another circuit, the
   bench conversion of an LT gate, block removal, ...) whose side conditions hold, which runs to
   completion, and ends in a state that passes the executable check *)
Definition C02_ex_other : circuit :=
  mkCircuit ["i"] ["n"] [("i", mkGate INPUT []); ("n", mkGate NOT ["i"])] [("i", ["n"])] [].

Definition C02_ex_history : list op :=
  [OpAddInputs ["a"; "b"]; OpEmplace "g" AND ["a"; "b"]; OpEmplace "h" LT ["a"; "g"]; OpMarkOutput "h";
   OpRename "a" "x"; OpMakeBlock "B" ["g"] ["g"] None;
   OpConnect C02_ex_other ["h"] ["i"] false "sub" true;
   OpIntoBench ["f1"]; OpRemoveBlock "sub"; OpReplaceInputs ["b"] []; OpCopy].

Example C02_example :
  history_ok empty_circuit C02_ex_history /\
  exists c', foldM step C02_ex_history empty_circuit = Ok c' /\ wfb c' = true /\ size c' = 5.
Proof.
  split.
  - unfold C02_ex_history.
    repeat (split; [first [exact I | (intros; discriminate) | idtac]
                   | let c' := fresh "c" in let H := fresh "H" in
                     intros c' H; vm_compute in H; injection H as <-]).
    + apply Inv_b; vm_compute; reflexivity.
    + intros l g Hg Ht. vm_compute in Hg.
      repeat match type of Hg with (if ?b then _ else _) = _ => destruct b end;
      try discriminate; injection Hg as <-; try discriminate; reflexivity.
    + exact I.
  - eexists; split; [vm_compute; reflexivity|]. split; vm_compute; reflexivity.
Qed.
