(* C02  Circuits stay well formed under every history of public mutations.
   Statements only; proofs live in Proofs/WF*.v (per-operation preservation lemmas),
   Proofs/WFStep.v (assembly) and Proofs/WFSound.v (the executable check wfb).

   The invariant carried along a history is
     Inv c := WF c /\ inputs_nullary c
   WF (Model/WF.v) is the well-formedness of the property text; inputs_nullary ("an INPUT gate
   has no operands", Proofs/WFEmplace.v) is a companion invariant that had to be added:
   replace_inputs, the bench converters and the right connection silently rely on it
   (counterexamples: Proofs/WFBench.v cex_nullary_breaks, Proofs/WFConnect.v).

   op_ok c o (Proofs/WFStep.v) is what "valid arguments" means for the call o in state c:
     - emplace_gate / add_gate of an INPUT gate: no operands;
     - connect_circuit and its five wrappers, replace_subcircuit: the circuit argument satisfies Inv;
     - into_bench: the comparison-like gates (LT LEQ GT GEQ LIFF RIFF LNOT RNOT) of c have at most two
       operands (the converters read operands 0 and 1 and drop the rest without updating the users
       index: Proofs/WFBench.v cex_ternary_breaks);
     - all other calls: no condition.
   history_ok c os: every call of the history satisfies op_ok in the state it is applied to. *)
Require Import Cirbo.Model.Base Cirbo.Model.Gate Cirbo.Model.Circuit Cirbo.Model.Connect
        Cirbo.Model.History Cirbo.Model.WF.
Require Import Cirbo.Proofs.WFBase Cirbo.Proofs.WFEmplace Cirbo.Proofs.WFStep Cirbo.Proofs.WFSound.
Require Import Cirbo.Generated.Converters Cirbo.Proofs.WFBench Cirbo.Proofs.ConvertersGen Cirbo.Proofs.ConvertersGenWF.
Require Import Cirbo.Model.Eval Cirbo.Model.TseytinAlg.
Require Import Cirbo.Generated.CircuitCore Cirbo.Proofs.CircuitCoreGen Cirbo.Proofs.CircuitCoreGen2.
Require Import Cirbo.Model.Traverse Cirbo.Model.Bench Cirbo.Generated.CircuitAlgos Cirbo.Proofs.CircuitAlgosGen
        Cirbo.Proofs.CircuitAlgosGen2 Cirbo.Proofs.CircuitAlgosGen3 Cirbo.Proofs.CircuitAlgosGen4
        Cirbo.Proofs.CircuitAlgosGen5 Cirbo.Proofs.CircuitAlgosGen6 Cirbo.Proofs.CircuitAlgosGen7
        Cirbo.Proofs.CircuitAlgosGenSum.

Theorem C02_empty_wf : WF empty_circuit /\ inputs_nullary empty_circuit.
Proof. exact Inv_empty. Qed.

(* every modelled public mutator (all 24 constructors of History.op) preserves the invariant *)
Theorem C02_step_wf : forall c o c',
  Inv c -> op_ok c o -> step c o = Ok c' -> Inv c'.
Proof. exact step_inv. Qed.

Theorem C02_history_wf : forall os c c',
  Inv c -> history_ok c os -> foldM step os c = Ok c' -> Inv c'.
Proof. exact history_inv. Qed.

(* circuits built from scratch are well formed *)
Theorem C02_history_wf_from_empty : forall os c',
  history_ok empty_circuit os -> foldM step os empty_circuit = Ok c' -> WF c'.
Proof. exact history_wf_from_empty. Qed.

(* the into_bench case once more, for the driver of Model/Connect.v run over the rewrite rules that
   translator T6 regenerates from converters.py on every check (Generated/Converters.v); normal
   returns of generated_into_bench and of the into_bench used by `step` coincide
   (Properties/C14.v C14_rules_regenerated).  binary_le' : the comparison-like gates of c have at
   most two operands (the into_bench clause of op_ok, in the weaker form the proof uses). *)
Theorem C02_into_bench_regenerated_wf : forall c fresh c',
  WF c -> inputs_nullary c -> binary_le' c -> generated_into_bench c fresh = Ok c' ->
  WF c' /\ inputs_nullary c'.
Proof. exact generated_into_bench_inv_le. Qed.

(* the executable check that the correspondence harness evaluates on every dumped
   implementation state is exactly WF *)
Theorem C02_wfb_sound : forall c, wfb c = true -> WF c.
Proof. exact wfb_sound. Qed.

Theorem C02_wfb_complete : forall c, WF c -> wfb c = true.
Proof. exact wfb_complete. Qed.

(* The simple accessors, validators and mutators of the model are not only hand-written: translator T9
   regenerates them from cirbo/core/circuit/{validation,utils,circuit}.py as gen_<name>
   (Generated/CircuitCore.v) on every check, and each is equal to the model definition for ALL arguments.
   An edit of one of these methods changes a generated definition and breaks the corresponding equality.
   - add_gate takes a Gate object: the model passes label, type and operands separately;
   - exclusion_gates=None of check_block_has_no_users is the empty set;
   - gen_replace_inputs_replace_inputs is the local closure _replace_inputs;
   - make_block returns the new Block (the model keeps the circuit only): first component = model,
     second component = the block stored under its name;
   - _remove_gate deletes blocks in a loop over a snapshot, the model filters: equal whenever the keys of the
     block dict are unique (true of every Python dict; part of WF: wf_bkeys.  The hypothesis is necessary
     for the association-list representation: Proofs/CircuitCoreGen.v remove_gate_dup_keys_differs). *)
Theorem C02_core_methods_regenerated :
  (forall c l, gen_has_gate c l = has_gate c l) /\
  (forall c l, gen_get_gate c l = get_gate c l) /\
  (forall c l, gen_get_gate_users c l = get_gate_users c l) /\
  (forall c b, gen_get_block c b = get_block c b) /\
  (forall ls c, gen_check_gates_exist ls c = check_gates_exist ls c) /\
  (forall l c, gen_check_label_doesnt_exist l c = check_label_doesnt_exist l c) /\
  (forall l c, gen_check_gate_has_not_users l c = check_gate_has_not_users l c) /\
  (forall b c, gen_check_block_doesnt_exist b c = check_block_doesnt_exist b c) /\
  (forall b c excl, gen_check_block_has_no_users b c excl
                    = check_block_has_no_users b c (match excl with Some e => e | None => [] end)) /\
  (forall ordered old, gen_order_list ordered old = order_list ordered old) /\
  (forall c g u, gen__add_user c g u = Ok (add_user c g u)) /\
  (forall c g u, gen__remove_user c g u = Ok (remove_user c g u)) /\
  (forall c l t ops, gen__emplace_gate c l t ops = Ok (emplace_gate_raw c l t ops)) /\
  (forall c l g, gen__add_gate c l g = Ok (emplace_gate_raw c l (gtyp g) (gops g))) /\
  (forall c l t ops, gen_emplace_gate c l t ops = emplace_gate c l t ops) /\
  (forall c l g, gen_add_gate c l g = add_gate c l (gtyp g) (gops g)) /\
  (forall c ls, gen_add_inputs c ls = add_inputs c ls) /\
  (forall c l, gen_mark_as_output c l = mark_as_output c l) /\
  (forall c outs, gen_set_outputs c outs = set_outputs c outs) /\
  (forall c ins, gen_set_inputs c ins = set_inputs c ins) /\
  (forall c ins, gen_order_inputs c ins = order_inputs c ins) /\
  (forall c outs, gen_order_outputs c outs = order_outputs c outs) /\
  (forall c ls t, gen_replace_inputs_replace_inputs c ls t = replace_inputs_with c ls t) /\
  (forall c tt ff, gen_replace_inputs c tt ff = replace_inputs c tt ff) /\
  (forall c b, gen_delete_block c b = delete_block c b) /\
  (forall c n gs outs ins, (do r <- gen_make_block c n gs outs ins; Ok (fst r)) = make_block c n gs outs ins) /\
  (forall c n gs outs ins c' b, gen_make_block c n gs outs ins = Ok (c', b) -> get_block c' n = Ok b) /\
  (forall c l, NoDup (dkeys (blocks c)) -> gen__remove_gate c l = remove_gate_raw c l) /\
  (forall c l, NoDup (dkeys (blocks c)) -> gen_remove_gate c l = remove_gate c l) /\
  (forall c b, NoDup (dkeys (blocks c)) -> gen__remove_block c b = remove_block_raw c b) /\
  (forall c b, NoDup (dkeys (blocks c)) -> gen_remove_block c b = remove_block c b).
Proof. exact core_methods_regenerated. Qed.

(* second group (grammar extended by list indexing, enumerate, item stores through a reference and two in-place
   idioms): the index accessors, Block._rename_gate and rename_gate.  index_of_input and all_indexes_of_output have
   no counterpart in the model: they are regenerated as parts of gen_rename_gate. *)
Theorem C02_core_methods_regenerated_2 :
  (forall c i, gen_output_at_index c i = output_at_index_z c i) /\
  (forall c i, gen_output_at_index c (Z.of_nat i) = output_at_index c i) /\
  (forall c i, gen_input_at_index c (Z.of_nat i)
               = match nth_error (inputs c) i with Some x => Ok x | None => Err GateDoesntExistError end) /\
  (forall b old new, gen_Block__rename_gate b old new = Ok (rename_in_block old new b)) /\
  (forall c old new, gen_rename_gate c old new = rename_gate c old new).
Proof. exact core_methods_regenerated_2. Qed.

(* the uniqueness hypothesis follows from the invariant of C02_step_wf *)
Theorem C02_core_removal_regenerated_wf : forall c,
  WF c ->
  (forall l, gen_remove_gate c l = remove_gate c l) /\ (forall b, gen_remove_block c b = remove_block c b).
Proof. exact core_removal_regenerated_wf. Qed.

(* third group: the ALGORITHMIC methods.  Translator T10 (translator/t10_circuit_algos.py; grammar of T9 extended
   by while loops on explicit fuel, generators, local dicts / sets, a second circuit argument, builders of a new
   circuit, lambdas selected by a flag, comprehensions that can raise) regenerates top_sort, connect_circuit and
   its five wrappers, __copy__, Block.into_circuit, evaluate_full_circuit, evaluate_circuit,
   evaluate_circuit_outputs, evaluate, evaluate_at, get_truth_table (and the properties size, input_size) from
   circuit.py as gen_<name> (Generated/CircuitAlgos.v) on every check.
   - fuel: every `while` loop of the source is a Fixpoint on explicit fuel and the fuel is a parameter of the
     generated function: a number for a loop of the function itself, a function of the circuit for a fuel
     parameter of a function it calls (applied, at the call, to the circuit the callee runs on).  The statements
     instantiate them with the fuel the model uses:
       size_fuel c = S (size c) (top_sort, the loop of make_block_from_slice),
       outputs_fuel c = eval_fuel c (outputs c), at_fuel c = 2 * (1 + sum_arity c) + 1 (evaluate_circuit),
       traverse_fuel_of starts inverse c = traverse_fuel c (the start list) (_traverse_circuit);
   - keys_ok c := NoDup (dkeys (gates c)): the gate map has no repeated key.  True of every Python dict and part
     of WF; necessary for the association-list representation (C02_algorithms_corners, first part): top_sort
     builds its indegree dict by a dict comprehension over the gate map, the model by a map;
   - top_sort is a generator of Gate objects: gen_top_sort returns the (label, gate) pairs it yields; their
     labels are the model's list and every pair is an entry of the gate map.  A consumer loop
     (`for g in self.top_sort(...)`) runs over the complete list, as in the model;
   - gates_for_block of connect_circuit is a Python set: the generated code keeps it as a duplicate-free list
     and `list(gates_for_block)` lists its elements in gate-map order followed by the elements that are not
     gates of self; the equality with the model (which canonicalises `blk`) includes the proof that every
     element is a gate of self;
   - evaluate_circuit: the source decides "all operands are assigned" by `cur_gate.label == queue_[-1]`, the
     model by "nothing was pushed".  They differ only when a gate is its own unassigned operand: the source then
     raises KeyError (or GateTypeNoOperatorError) where the model pushes until it runs out of fuel.
     agree c g h := g = h \/ (h = Err OutOfFuel /\ (exists e, g = Err e) /\ some gate of c is its own operand)
     (C02_algorithms_agree_spec); it implies equal normal returns and equal is_ok, and equality whenever no gate
     is its own operand (C02_algorithms_agree_consequences), in particular on well-formed circuits
     (C02_evaluators_regenerated_wf).  The corner is real (C02_algorithms_corners, second part);
   - evaluate_at: output_index is a Python int, the model takes a natural number: stated for Z.of_nat i. *)
Theorem C02_algorithms_regenerated :
  (forall c, gen_size c = size c) /\
  (forall c, gen_input_size c = length (inputs c)) /\
  (forall c inv, keys_ok c -> (do r <- gen_top_sort (S (size c)) c inv; Ok (map fst r)) = top_sort inv c) /\
  (forall c inv fuel r, gen_top_sort fuel c inv = Ok r -> Forall (fun p => get_gate c (fst p) = Ok (snd p)) r) /\
  (forall c other tc oc right name ap, keys_ok other ->
     gen_connect_circuit size_fuel c other tc oc right name ap = connect_circuit c other tc oc right name ap) /\
  (forall c other tc name ap, keys_ok other ->
     gen_connect_left size_fuel c other tc name ap = connect_left c other tc name ap) /\
  (forall c other oc name ap, keys_ok other ->
     gen_connect_right size_fuel c other oc name ap = connect_right c other oc name ap) /\
  (forall c other name ap, keys_ok other ->
     gen_connect_inputs size_fuel c other name ap = connect_inputs c other name ap) /\
  (forall c other tc oc right name ap, keys_ok other ->
     gen_extend_circuit size_fuel c other tc oc right name ap = extend_circuit c other tc oc right name ap) /\
  (forall c other name ap, keys_ok other ->
     gen_add_circuit size_fuel c other name ap = add_circuit c other name ap) /\
  (forall c, keys_ok c -> gen___copy__ size_fuel c = copy_circuit c) /\
  (forall b c, gen_Block_into_circuit b c = block_into_circuit c b) /\
  (forall c a, keys_ok c -> gen_evaluate_full_circuit size_fuel c a = evaluate_full_circuit c a) /\
  (forall c a outs fuel, agree c (gen_evaluate_circuit fuel c a outs) (evaluate_circuit_fuel fuel c a outs)) /\
  (forall c a outs,
     agree c (gen_evaluate_circuit (eval_fuel c (match outs with Some o => o | None => outputs c end)) c a outs)
           (evaluate_circuit c a outs)) /\
  (forall c a, agree c (gen_evaluate_circuit_outputs outputs_fuel c a) (evaluate_circuit_outputs c a)) /\
  (forall c vals, agree c (gen_evaluate outputs_fuel c vals) (evaluate c vals)) /\
  (forall c vals i,
     agree c (gen_evaluate_at at_fuel c vals (Z.of_nat i)) (evaluate_at c vals i)) /\
  (forall c, agree c (gen_get_truth_table outputs_fuel c) (get_truth_table c)).
Proof. exact algorithms_regenerated. Qed.

Theorem C02_algorithms_agree_spec : forall A (c : circuit) (g h : res A),
  agree c g h <->
  (g = h \/ (h = Err OutOfFuel /\ (exists e, g = Err e) /\
             exists l gt, dget (gates c) l = Some gt /\ In l (gops gt))).
Proof. exact agree_spec. Qed.

Theorem C02_algorithms_agree_consequences : forall A (c : circuit) (g h : res A), agree c g h ->
  (forall x, g = Ok x <-> h = Ok x) /\ is_ok g = is_ok h /\
  (h <> Err OutOfFuel -> g = h) /\
  ((forall l gt, dget (gates c) l = Some gt -> ~ In l (gops gt)) -> g = h).
Proof. exact agree_consequences. Qed.

(* on a well-formed circuit (unique keys, acyclic) every regenerated evaluator EQUALS the model *)
Theorem C02_evaluators_regenerated_wf : forall c, WF c ->
  (forall a, gen_evaluate_full_circuit size_fuel c a = evaluate_full_circuit c a) /\
  (forall a outs,
     gen_evaluate_circuit (eval_fuel c (match outs with Some o => o | None => outputs c end)) c a outs
     = evaluate_circuit c a outs) /\
  (forall a, gen_evaluate_circuit_outputs outputs_fuel c a = evaluate_circuit_outputs c a) /\
  (forall vals, gen_evaluate outputs_fuel c vals = evaluate c vals) /\
  (forall vals i, gen_evaluate_at at_fuel c vals (Z.of_nat i) = evaluate_at c vals i) /\
  gen_get_truth_table outputs_fuel c = get_truth_table c.
Proof. exact evaluators_regenerated_wf. Qed.

(* keys_ok follows from the invariant of C02_step_wf *)
Theorem C02_algorithms_keys_ok_wf : forall c, WF c -> keys_ok c.
Proof. exact WF_keys_ok. Qed.

(* both side conditions are necessary *)
Theorem C02_algorithms_corners :
  ((do r <- gen_top_sort 3 dup_keys_circuit true; Ok (map fst r)) <> top_sort true dup_keys_circuit) /\
  (gen_evaluate_circuit (eval_fuel self_loop_circuit ["g"]) self_loop_circuit [] None = Err PyKeyError /\
   evaluate_circuit self_loop_circuit [] None = Err OutOfFuel).
Proof. exact algorithms_corners. Qed.

(* fourth group (T10): make_block_from_slice, get_gates_truth_table, format_circuit, the driver loop of into_bench,
   _traverse_circuit with its wrappers dfs / bfs, and validation.check_circuit_has_no_cycles.
   - make_block_from_slice collects the gates in a Python set and starts its work list with `list(gates)`, whose
     order is the hash order of the strings.  The regenerated function takes the gate-map order, the model the
     order of the `outputs` argument; the loop itself is the same function (Proofs/CircuitAlgosGen4.v
     gen_slice_loop_eq).  The order is irrelevant for the result (the loop computes the least set containing the
     start gates and closed under "operand that is not a block input"; the stored gate list is canonical):
     slice_agree g h := the circuit returned by g is h's, or both raise GateDoesntExistError / CreateBlockError
     (possibly a different one of the two: C02_slice_corner).  The second clause: the Block returned by the
     source is the one stored under its name;
   - into_bench: the rules are regenerated by T6 (generated_convert_gate); the driver loop over a snapshot of
     the gate map, handing one uuid4().hex value to every rule that needs one, is regenerated here and equals the
     driver of Proofs/ConvertersGen.v, hence (C14_rules_regenerated) has the normal returns of the model and
     equals it outside the LT / LEQ one-operand corner;
   - _traverse_circuit: the five hooks are observed as the event log of the model (a call of a hook = an event,
     a yield = EvYield); on_discover_hook may raise depending on the label and state of the discovered gate
     (`abort`); keys_ok is needed only with topsort_unvisited (it calls top_sort). *)
Theorem C02_algorithms_regenerated_2 :
  (forall c name ins outs, keys_ok c ->
     slice_agree (gen_make_block_from_slice (S (size c)) c name ins outs) (make_block_from_slice c name ins outs)) /\
  (forall fuel c name ins outs c' b,
     gen_make_block_from_slice fuel c name ins outs = Ok (c', b) -> get_block c' name = Ok b) /\
  (forall c, keys_ok c -> gen_get_gates_truth_table size_fuel c = get_gates_truth_table c) /\
  (forall c, gen_format_circuit c = Ok (format_circuit c)) /\
  (forall c fresh, gen_into_bench c fresh = generated_into_bench c fresh) /\
  (forall c fresh c', gen_into_bench c fresh = Ok c' <-> into_bench c fresh = Ok c') /\
  (forall c fresh,
     (forall x g, In (x, g) (gates c) -> gtyp g = LT \/ gtyp g = LEQ -> length (gops g) <> 1%nat) ->
     gen_into_bench c fresh = into_bench c fresh) /\
  (forall c mode starts inverse tsu abort, (tsu = true -> keys_ok c) ->
     gen__traverse_circuit (traverse_fuel c (start_queue c starts inverse)) size_fuel c mode starts inverse tsu abort
     = traverse mode inverse c starts tsu abort) /\
  (forall c starts inverse tsu abort, (tsu = true -> keys_ok c) ->
     gen_dfs (traverse_fuel_of starts inverse) size_fuel c starts inverse tsu abort
     = traverse DFS inverse c starts tsu abort) /\
  (forall c starts inverse tsu abort, (tsu = true -> keys_ok c) ->
     gen_bfs (traverse_fuel_of starts inverse) size_fuel c starts inverse tsu abort
     = traverse BFS inverse c starts tsu abort) /\
  (forall c starts,
     gen_check_circuit_has_no_cycles (traverse_fuel_of starts false) size_fuel c starts
     = check_circuit_has_no_cycles_from c starts).
Proof. exact algorithms_regenerated_2. Qed.

Theorem C02_slice_agree_spec : forall (g : res (circuit * block)) (h : res circuit),
  slice_agree g h <->
  ((do p <- g; Ok (fst p)) = h \/
   (exists e1 e2, g = Err e1 /\ h = Err e2 /\
      (e1 = GateDoesntExistError \/ e1 = CreateBlockError) /\ (e2 = GateDoesntExistError \/ e2 = CreateBlockError))).
Proof. exact slice_agree_spec. Qed.

Theorem C02_slice_agree_consequences : forall (g : res (circuit * block)) (h : res circuit), slice_agree g h ->
  (forall c', (exists b, g = Ok (c', b)) <-> h = Ok c') /\ is_ok g = is_ok h.
Proof. exact slice_agree_consequences. Qed.

Theorem C02_slice_corner :
  gen_make_block_from_slice 4 slice_corner "B" [] ["a"; "b"] = Err CreateBlockError /\
  make_block_from_slice slice_corner "B" [] ["a"; "b"] = Err GateDoesntExistError.
Proof. exact slice_corner_real. Qed.

(* replace_subcircuit (T10).  inputs_mapping / outputs_mapping are Python dicts: association lists with unique keys;
   uuid.uuid4().hex is the next element of the stream `fresh` (the model takes the one value it needs);
   the four fuel parameters are those of make_block_from_slice, of top_sort on the new subcircuit, and of the final
   cycle check (all_gates_fuel c = traverse_fuel c (all gate labels), and the unused top_sort fuel of dfs), each
   applied to the state the callee runs on, as the model does.  The method calls make_block_from_slice, so the same
   corner is inherited: rs_agree g h := g = h, or both raise GateDoesntExistError / CreateBlockError (possibly a
   different one of the two).  WF c is used for: unique gate keys after the renamings (slice), unique block keys
   (_remove_block). *)
Theorem C02_replace_subcircuit_regenerated : forall c sub imap omap f rest,
  WF c -> keys_ok sub -> NoDup (dkeys imap) -> NoDup (dkeys omap) ->
  rs_agree (gen_replace_subcircuit size_fuel size_fuel all_gates_fuel size_fuel c sub imap omap (f :: rest))
           (replace_subcircuit c sub imap omap f).
Proof. exact replace_subcircuit_regenerated. Qed.

Theorem C02_rs_agree_spec : forall g h : res circuit,
  rs_agree g h <->
  (g = h \/
   (exists e1 e2, g = Err e1 /\ h = Err e2 /\
      (e1 = GateDoesntExistError \/ e1 = CreateBlockError) /\ (e2 = GateDoesntExistError \/ e2 = CreateBlockError))).
Proof. exact rs_agree_spec. Qed.

Theorem C02_rs_agree_consequences : forall g h : res circuit, rs_agree g h ->
  (forall c', g = Ok c' <-> h = Ok c') /\ is_ok g = is_ok h.
Proof. exact rs_agree_consequences. Qed.

(* non-vacuity of the hypotheses of the regeneration theorems: a well-formed circuit, a replacement whose mappings
   have unique keys; the regenerated replace_subcircuit returns, and returns the model's circuit *)
Definition C02_ex_base : circuit :=
  mkCircuit ["a"; "b"] ["h"]
            [("a", mkGate INPUT []); ("b", mkGate INPUT []); ("g", mkGate AND ["a"; "b"]); ("h", mkGate NOT ["g"])]
            [("a", ["g"]); ("b", ["g"]); ("g", ["h"])] [].
Definition C02_ex_sub : circuit :=
  mkCircuit ["x"; "y"] ["z"]
            [("x", mkGate INPUT []); ("y", mkGate INPUT []); ("z", mkGate OR ["x"; "y"])]
            [("x", ["z"]); ("y", ["z"])] [].

Example C02_regeneration_example :
  WF C02_ex_base /\ keys_ok C02_ex_sub /\
  exists c', gen_replace_subcircuit size_fuel size_fuel all_gates_fuel size_fuel C02_ex_base C02_ex_sub
               [("a", "x"); ("b", "y")] [("g", "z")] ["u1"] = Ok c' /\
             replace_subcircuit C02_ex_base C02_ex_sub [("a", "x"); ("b", "y")] [("g", "z")] "u1" = Ok c' /\
             size c' = 4 /\
             gen_dfs (traverse_fuel_of None false) size_fuel c' None false true no_abort
             = traverse DFS false c' None true no_abort.
Proof.
  split; [apply C02_wfb_sound; vm_compute; reflexivity|].
  split; [apply nodupb_NoDup; vm_compute; reflexivity|].
  eexists. split; [vm_compute; reflexivity|]. split; [vm_compute; reflexivity|]. split; vm_compute; reflexivity.
Qed.

(* non-vacuity: a history through 11 kinds of calls (a left connection of another circuit, the
   bench conversion of an LT gate, block removal, ...) whose side conditions hold, which runs to
   completion, and ends in a state that passes the executable check *)
Definition C02_ex_other : circuit :=
  mkCircuit ["i"] ["n"] [("i", mkGate INPUT []); ("n", mkGate NOT ["i"])] [("i", ["n"])] [].

Definition C02_ex_history : list op :=
  [OpAddInputs ["a"; "b"]; OpEmplace "g" AND ["a"; "b"]; OpEmplace "h" LT ["a"; "g"]; OpMarkOutput "h";
   OpRename "a" "x"; OpMakeBlock "B" ["g"] ["g"] None;
   OpConnect C02_ex_other ["h"] ["i"] false "sub" true;
   OpIntoBench ["f1"]; OpRemoveBlock "sub"; OpReplaceInputs ["b"] []; OpCopy].

Example C02_example :
  history_ok empty_circuit C02_ex_history /\
  exists c', foldM step C02_ex_history empty_circuit = Ok c' /\ wfb c' = true /\ size c' = 5.
Proof.
  split.
  - unfold C02_ex_history.
    repeat (split; [first [exact I | (intros; discriminate) | idtac]
                   | let c' := fresh "c" in let H := fresh "H" in
                     intros c' H; vm_compute in H; injection H as <-]).
    + apply Inv_b; vm_compute; reflexivity.
    + intros l g Hg Ht. vm_compute in Hg.
      repeat match type of Hg with (if ?b then _ else _) = _ => destruct b end;
      try discriminate; injection Hg as <-; try discriminate; reflexivity.
    + exact I.
  - eexists; split; [vm_compute; reflexivity|]. split; vm_compute; reflexivity.
Qed.
