(* C13  A miter is true exactly where the two circuits differ.
   Statements only; proofs live in Proofs/SemMiterXor.v and Proofs/SemMiter.v (corollaries of
   the C10 composition theorems, Proofs/SemConnect*.v).

   build_miter l r ln rn (Model/Miter.v; ln, rn are the block names, "circuit1"/"circuit2" in
   the implementation).  Eval c a g v: gate g of c has value v under the assignment a
   (Model/Sem.v).  The operands are not modified: the model is purely functional (and the
   harness compares their dumps). *)
Require Import Cirbo.Model.Base Cirbo.Model.Gate Cirbo.Model.Circuit Cirbo.Model.Eval Cirbo.Model.Sem
        Cirbo.Model.Connect Cirbo.Model.WF Cirbo.Model.Miter.
Require Import Cirbo.Proofs.WFSound Cirbo.Proofs.SemMiter Cirbo.Proofs.SemMiterTotal
        Cirbo.Proofs.ArityPreserve Cirbo.Proofs.MiterEntry.
Require Import Cirbo.Generated.MiterGen Cirbo.Proofs.CircuitAlgosGen Cirbo.Proofs.MiterGen.
From Coq Require Import ZArith.

(* mismatched shapes are rejected with the dedicated error (whatever the circuits are) *)
Theorem C13_mismatched_shapes_rejected : forall l r ln rn,
  length (inputs l) <> length (inputs r) \/ length (outputs l) <> length (outputs r) ->
  build_miter l r ln rn = Err MiterDifferentShapesError.
Proof. exact build_miter_shapes. Qed.

Theorem C13_ok_implies_equal_shapes : forall l r ln rn m,
  build_miter l r ln rn = Ok m ->
  length (inputs l) = length (inputs r) /\ length (outputs l) = length (outputs r).
Proof. exact build_miter_ok_shapes. Qed.

(* interface and function, relational form: a_l / a_r are ANY assignments of l / r that give
   input x of l the value of the miter input ln@x, and the i-th input of r the value of the
   i-th input of l.  Any number of outputs >= 1 (one output: the top gate is IFF, not OR). *)
Theorem C13_miter_correct : forall l r ln rn m,
  WF l -> WF r -> ln <> "" -> rn <> "" -> build_miter l r ln rn = Ok m ->
  WF m /\
  inputs m = map (fun x => ((ln ++ "@") ++ x)%string) (inputs l) /\
  outputs m = ["big_or"] /\
  (outputs l <> [] -> arity_ok l -> arity_ok r ->
   forall a a_l a_r,
     (forall x, In x (inputs l) -> aval a ((ln ++ "@") ++ x)%string <> U) ->
     (forall x, In x (inputs l) -> aval a_l x = aval a ((ln ++ "@") ++ x)%string) ->
     (forall i x y, nth_error (inputs l) i = Some x -> nth_error (inputs r) i = Some y ->
                    aval a_r y = aval a ((ln ++ "@") ++ x)%string) ->
     exists b, Eval m a "big_or" (inj b) /\
               (b = true <->
                exists i o_l o_r vl vr,
                  nth_error (outputs l) i = Some o_l /\ nth_error (outputs r) i = Some o_r /\
                  Eval l a_l o_l vl /\ Eval r a_r o_r vr /\ vl <> vr)).
Proof. exact build_miter_correct. Qed.

(* headline form: for every total assignment a of the miter inputs the output is defined,
   and it is True exactly when some pair of corresponding outputs differs *)
Theorem C13_miter_true_iff_differ : forall l r ln rn m,
  WF l -> WF r -> arity_ok l -> arity_ok r -> ln <> "" -> rn <> "" -> outputs l <> [] ->
  build_miter l r ln rn = Ok m ->
  forall a, (forall x, In x (inputs m) -> aval a x <> U) ->
    (exists b, Eval m a "big_or" (inj b)) /\
    (Eval m a "big_or" T <->
     exists i o_l o_r vl vr,
       nth_error (outputs l) i = Some o_l /\ nth_error (outputs r) i = Some o_r /\
       Eval l (miter_left_assignment ln a l) o_l vl /\
       Eval r (miter_right_assignment ln a l r) o_r vr /\ vl <> vr).
Proof. exact build_miter_true_iff_differ. Qed.

(* the same at the entry point evaluate: the miter has accepted arities again, so evaluate returns
   on it (completeness of the evaluators, C01), and for every Boolean input vector it returns the
   one-element list [b] with b = "evaluate l and evaluate r return different output vectors" *)
Theorem C13_miter_arities_accepted : forall l r ln rn m,
  WF l -> WF r -> outputs l <> [] ->
  build_miter l r ln rn = Ok m -> arity_ok l -> arity_ok r -> arity_ok m.
Proof. exact build_miter_arity_ok. Qed.

Theorem C13_miter_evaluate : forall l r ln rn m bs,
  WF l -> WF r -> arity_ok l -> arity_ok r -> ln <> "" -> rn <> "" -> outputs l <> [] ->
  build_miter l r ln rn = Ok m -> length (inputs l) <= length bs ->
  exists vl vr b,
    evaluate l (map inj bs) = Ok vl /\ evaluate r (map inj bs) = Ok vr /\
    evaluate m (map inj bs) = Ok [inj b] /\ (b = true <-> vl <> vr).
Proof. exact build_miter_evaluate. Qed.

(* and its truth table is one row of 2^n entries *)
Theorem C13_miter_truth_table_returns : forall l r ln rn m,
  WF l -> WF r -> arity_ok l -> arity_ok r -> ln <> "" -> rn <> "" -> outputs l <> [] ->
  build_miter l r ln rn = Ok m ->
  exists row, get_truth_table m = Ok [row] /\ length row = 2 ^ length (inputs l).
Proof. exact build_miter_truth_table_returns. Qed.

(* totality: with the implementation's block names build_miter returns normally for ALL well
   formed operands of equal shapes (whatever their labels and blocks are) ... *)
Theorem C13_miter_total_default_names : forall l r,
  WF l -> WF r ->
  length (inputs l) = length (inputs r) -> length (outputs l) = length (outputs r) ->
  exists m, build_miter l r "circuit1" "circuit2" = Ok m.
Proof. exact build_miter_total_default. Qed.

(* ... and for arbitrary block names exactly when no prefixed gate label or block name clashes
   (MiterNoClash, Proofs/SemMiterTotal.v: ln <> rn, "pairwise_xor" is neither name, no ln@k / rn@k
   block equals another block name, no rn@y equals some ln@g, no "pairwise_xor@xor_i" or "big_or"
   equals some ln@g / rn@y; y ranges over the gates of r that are not inputs) *)
Theorem C13_miter_total : forall l r ln rn,
  WF l -> WF r ->
  length (inputs l) = length (inputs r) -> length (outputs l) = length (outputs r) ->
  ln <> "" -> rn <> "" -> MiterNoClash l r ln rn ->
  exists m, build_miter l r ln rn = Ok m.
Proof. exact build_miter_total. Qed.

Theorem C13_default_names_no_clash : forall l r, MiterNoClash l r "circuit1" "circuit2".
Proof. exact default_names_no_clash. Qed.

(* the model is the code: build_miter of sat/miter.py and generate_pairwise_xor (with add_pairwise_xor,
   _generate_labels) of synthesis/generation/generation.py are regenerated from the source statement by statement on
   every run (translator T12, Generated/MiterGen.v: gen_build_miter calls the Circuit methods regenerated by T9 / T10
   in the order and with the arguments of the source) and equal the hand model the theorems above are about.
   size_fuel is the fuel of the model's top_sort.  The side condition (the gate maps of the operands have no repeated
   key, part of WF) comes from the equality of the regenerated connect_circuit with the model (C02_algorithms_regenerated).
   gen_build_miter_defaults is the call with the default block names of the signature; the generated
   generate_pairwise_xor takes a Python int (Z), range(n) is empty for n <= 0. *)
Theorem C13_build_miter_regenerated :
  (forall l r ln rn, NoDup (dkeys (gates l)) -> NoDup (dkeys (gates r)) ->
     gen_build_miter size_fuel size_fuel size_fuel l r ln rn = build_miter l r ln rn) /\
  (forall l r ln rn, WF l -> WF r ->
     gen_build_miter size_fuel size_fuel size_fuel l r ln rn = build_miter l r ln rn) /\
  (forall l r, NoDup (dkeys (gates l)) -> NoDup (dkeys (gates r)) ->
     gen_build_miter_defaults size_fuel size_fuel size_fuel l r = build_miter l r "circuit1" "circuit2") /\
  (forall z, gen_generate_pairwise_xor z = generate_pairwise_xor (Z.to_nat z)) /\
  (forall n, gen_generate_pairwise_xor (Z.of_nat n) = generate_pairwise_xor n) /\
  (forall p z, gen__generate_labels p z = generate_labels p (Z.to_nat z)).
Proof. exact miter_regenerated. Qed.

(* non-vacuity: two 2-input circuits sharing labels, two outputs (one of them an input),
   and a single-output pair; default block names *)
Definition C13_ex_l : circuit :=
  mkCircuit ["a"; "b"] ["g"; "a"]
    [("a", mkGate INPUT []); ("b", mkGate INPUT []); ("g", mkGate AND ["a"; "b"])]
    [("a", ["g"]); ("b", ["g"])] [].
Definition C13_ex_r : circuit :=
  mkCircuit ["a"; "c"] ["h"; "a"]
    [("a", mkGate INPUT []); ("c", mkGate INPUT []); ("h", mkGate NOR ["a"; "c"])]
    [("a", ["h"]); ("c", ["h"])] [].
Definition C13_ex_l1 : circuit :=
  mkCircuit ["a"; "b"] ["g"] (gates C13_ex_l) (users C13_ex_l) [].
Definition C13_ex_r1 : circuit :=
  mkCircuit ["a"; "c"] ["h"] (gates C13_ex_r) (users C13_ex_r) [].

Example C13_example :
  WF C13_ex_l /\ WF C13_ex_r /\ arity_ok C13_ex_l /\ arity_ok C13_ex_r /\
  (exists m, build_miter C13_ex_l C13_ex_r "circuit1" "circuit2" = Ok m /\
             inputs m = ["circuit1@a"; "circuit1@b"] /\
             dget (gates m) "big_or" = Some (mkGate OR ["pairwise_xor@xor_0"; "pairwise_xor@xor_1"])) /\
  WF C13_ex_l1 /\ WF C13_ex_r1 /\
  (exists m, build_miter C13_ex_l1 C13_ex_r1 "circuit1" "circuit2" = Ok m /\
             dget (gates m) "big_or" = Some (mkGate IFF ["pairwise_xor@xor_0"])).
Proof.
  split; [apply wfb_sound; vm_compute; reflexivity|].
  split; [apply wfb_sound; vm_compute; reflexivity|].
  split; [apply arity_okb_sound; vm_compute; reflexivity|].
  split; [apply arity_okb_sound; vm_compute; reflexivity|].
  split; [eexists; split; [vm_compute; reflexivity|]; split; reflexivity|].
  split; [apply wfb_sound; vm_compute; reflexivity|].
  split; [apply wfb_sound; vm_compute; reflexivity|].
  eexists; split; [vm_compute; reflexivity|]. reflexivity.
Qed.

(* the example at the entry points: on (a, b) = (F, F) the outputs are [F; F] vs [T; F] (differ),
   on (T, F) they are [F; T] vs [F; T] (equal) *)
Example C13_example_evaluate :
  exists m, build_miter C13_ex_l C13_ex_r "circuit1" "circuit2" = Ok m /\
    evaluate C13_ex_l [F; F] = Ok [F; F] /\ evaluate C13_ex_r [F; F] = Ok [T; F] /\ evaluate m [F; F] = Ok [T] /\
    evaluate C13_ex_l [T; F] = Ok [F; T] /\ evaluate C13_ex_r [T; F] = Ok [F; T] /\ evaluate m [T; F] = Ok [F] /\
    get_truth_table m = Ok [[T; F; F; T]].
Proof. eexists; split; [vm_compute; reflexivity|]. repeat split; vm_compute; reflexivity. Qed.
