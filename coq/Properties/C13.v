(* C13 (theorems are added as their proofs are completed) *)
Require Import Cirbo.Model.Base Cirbo.Model.Gate Cirbo.Model.Circuit Cirbo.Model.Connect Cirbo.Model.Miter.
