(* C04  SAT-based subcircuit minimization returns an equivalent, not larger circuit.

   The search itself (cut enumeration by an external library, the SAT solver's model, the
   order of processing) is NOT verified: the end-to-end property is checked by the oracle of
   props/c04.py on every run.  What is proved here, for the executable model, is
     (1) the pattern simulation, for every cut size: eval_pattern (translated from the source)
         computes bit by bit the denotation Den.den of the gate type, `max_pattern - x` is the
         complement, _generate_inputs_tt lists the projections, and simulating a cone node by
         node yields for every node its truth table over the cut leaves; the don't-care table
         handed to the synthesiser is the cone function on the care rows;
     (2) the trivial-replacement statement (equal patterns = equal functions, complementary
         patterns = negated function: what defect D15b violated);
     (3) the care-set substitution theorem for the function replace_subcircuit
         (C04_care_set_substitution: if the cone check accepts host cone vs. replacement on the
         care set and the care set covers the reachable leaf vectors, every surviving gate keeps
         its value under every Boolean input vector), and a verified validator for one
         replacement step on recorded states: check_step (cones agree on the compared leaf
         vectors) and check_subst (plus frame conditions): an accepted step preserves the value
         of every surviving gate, in particular of every circuit output.
     (4) a verified validator for WHOLE recorded runs (Model/SubcircuitRun.check_run,
         C04_validated_run): the argument circuit, the recorded events in order (replacement
         steps and trivial-branch merges, each with its state before and after) and the returned
         circuit; if the states chain from the argument to the result and every event is
         accepted by its validator, the returned circuit has the same inputs, as many outputs
         and the same truth table as the argument.
     (5) the CODE of the pure parts is regenerated from the current source on every check (translator T21,
         Generated/SubcircuitAlgGen.v) and proved equal to the hand-written functions the theorems above are about
         (C04_cone_code_regenerated): the per-cut simulation loop, _get_subcircuits as a whole,
         evaluate_truth_table_with_dont_cares, _eval_dont_cares, _get_internal_gates and the classification of the
         outputs of a subcircuit inside minimize_subcircuits.
   Every call of Circuit.replace_subcircuit made by minimize_subcircuits during the check is
   replayed through the model and validated with check_subst, and every run that returns is
   validated end to end with check_run (harness/patcorr.py).

   Vocabulary
     ConeEval c rho l b     Boolean value b of gate l when the labels bound in rho (the cut
                            leaves) are read from rho and the other gates are computed by den
     row_assign leaves i    the i-th leaf assignment: the j-th leaf carries bit j of i
     cone_okb c leaves [] nodes   nodes is a topological order of a cone over leaves whose gates
                            have a type and operand count that eval_pattern handles
     compared k care v      v is in the care set, or (care = None) has one Boolean per leaf
     replaced_internal old new outs   gates of old, except outs, that changed or disappeared, and the
                            gates of old that depend on one of them without passing through outs
                            (a new gate can get the label, type and operands of a removed one) *)
Require Import Cirbo.Model.Base Cirbo.Model.Gate Cirbo.Model.Den Cirbo.Model.Circuit
        Cirbo.Model.Eval Cirbo.Model.Sem Cirbo.Model.ConeSem Cirbo.Model.PatternSim
        Cirbo.Model.SubcircuitValidator Cirbo.Model.Connect Cirbo.Model.WF
        Cirbo.Model.PatCases Cirbo.Model.SubcircuitRun.
Require Import Cirbo.Generated.GateTypes Cirbo.Generated.PatternOps.
Require Import Cirbo.Proofs.EvalFacts Cirbo.Proofs.PatternBits Cirbo.Proofs.PatternFacts
        Cirbo.Proofs.InputsTT Cirbo.Proofs.ConeSim Cirbo.Proofs.ConeFacts
        Cirbo.Proofs.ValidatorFacts Cirbo.Proofs.MergeFacts Cirbo.Proofs.CareFacts Cirbo.Proofs.SolverTable
        Cirbo.Proofs.C04Examples.
Require Import Cirbo.Model.Traverse Cirbo.Model.SubcircuitPrims Cirbo.Model.SubcircuitAlg Cirbo.Generated.SubcircuitAlgGen
        Cirbo.Model.SubcircuitGlue Cirbo.Proofs.SubcircuitAlgGen.
From Coq Require Import Permutation.
Require Import Cirbo.Proofs.WFEmplace Cirbo.Proofs.WFStep Cirbo.Proofs.EvalEntry Cirbo.Proofs.TruthTable
        Cirbo.Proofs.SemReplaceSub Cirbo.Proofs.C04Replace Cirbo.Proofs.C04Run Cirbo.Proofs.C04RunExample.

(* ---- (1) pattern operations, every width ---- *)
Theorem C04_max_pattern : forall n, max_pattern n = (2 ^ (2 ^ n) - 1)%N.
Proof. exact max_pattern_eq. Qed.

(* below 2^W, `2^W - 1 - x` is the bitwise complement on W bits *)
Theorem C04_complement_bits : forall W x i,
  (x < 2 ^ W)%N -> (i < W)%N -> N.testbit (2 ^ W - 1 - x) i = negb (N.testbit x i).
Proof. exact testbit_compl. Qed.

(* for each of the eleven supported types with an operand count that eval_pattern reads
   completely (NOT: 1; GEQ LT LEQ GT: 2; AND OR XOR NAND NOR NXOR: 2 or more) and operands
   below 2^(2^n): the result is again below 2^(2^n) and bit i of it is den of the type applied
   to bit i of the operands, for every row i < 2^n *)
Theorem C04_eval_pattern_den : forall n t ops,
  pattern_arity_ok t (length ops) = true ->
  Forall (fun p => (p < 2 ^ (2 ^ n))%N) ops ->
  exists r, eval_pattern (max_pattern n) t ops = Ok r /\ (r < 2 ^ (2 ^ n))%N /\
    forall i, (i < 2 ^ n)%N -> den t (map (fun p => N.testbit p i) ops) = Some (N.testbit r i).
Proof. exact eval_pattern_den. Qed.

(* the other eight gate types raise UnsupportedOperationError (modelled as GenerationError);
   too few operands raise IndexError *)
Theorem C04_eval_pattern_unsupported : forall mp t ops,
  pattern_supported t = false -> eval_pattern mp t ops = Err GenerationError.
Proof. exact eval_pattern_unsupported. Qed.

Theorem C04_eval_pattern_short : forall mp t ops,
  pattern_supported t = true -> length ops < pattern_min_operands t ->
  eval_pattern mp t ops = Err PyIndexError.
Proof. exact eval_pattern_short. Qed.

(* _generate_inputs_tt n: n patterns below 2^(2^n); bit i of the j-th is bit j of i *)
Theorem C04_generate_inputs_tt : forall n,
  length (generate_inputs_tt n) = N.to_nat n /\
  forall j, (j < n)%N ->
    (nth (N.to_nat j) (generate_inputs_tt n) 0 < 2 ^ (2 ^ n))%N /\
    forall i, (i < 2 ^ n)%N ->
      N.testbit (nth (N.to_nat j) (generate_inputs_tt n) 0%N) i = N.testbit i j.
Proof. exact generate_inputs_tt_spec. Qed.

(* the patterns of a simulated cone are the truth tables of its nodes over the cut *)
Theorem C04_patterns_are_truth_tables : forall c leaves nodes d,
  NoDup leaves -> cone_okb c leaves [] nodes = true ->
  simulate_cone c leaves nodes = Ok d ->
  (forall l p, dget d l = Some p ->
     (p < 2 ^ (2 ^ N.of_nat (length leaves)))%N /\
     forall i, (i < 2 ^ N.of_nat (length leaves))%N ->
       ConeEval c (row_assign leaves i) l (N.testbit p i)) /\
  (forall l, In l leaves \/ In l nodes -> dmem d l = true).
Proof. exact simulate_cone_truth_tables. Qed.

Theorem C04_simulation_total : forall c leaves nodes,
  NoDup leaves -> cone_okb c leaves [] nodes = true ->
  exists d, simulate_cone c leaves nodes = Ok d.
Proof. exact simulate_cone_total. Qed.

(* every Boolean leaf vector is one of the rows *)
Theorem C04_rows_cover : forall leaves v,
  length v = length leaves ->
  exists i, (i < 2 ^ N.of_nat (length leaves))%N /\ row_assign leaves i = combine leaves v.
Proof. exact row_assign_cover. Qed.

(* the table with don't-cares given to the synthesiser: closed form of the shifting loop,
   and its meaning - on a care row the cell is the cone output's value under that leaf
   vector (leaves in the order of _Subcircuit.inputs), elsewhere it is DontCare *)
Theorem C04_dont_care_table_closed_form : forall n pats care,
  tt_with_dont_cares n pats care =
  map (fun p => map (dc_cell care p)
                    (combine (seq 0 (length (all_bool_vectors n))) (all_bool_vectors n))) pats.
Proof. exact tt_with_dont_cares_spec. Qed.

Theorem C04_dont_care_table_is_cone_function : forall c leaves nodes d outs care,
  NoDup leaves -> cone_okb c leaves [] nodes = true ->
  simulate_cone c leaves nodes = Ok d ->
  (forall o, In o outs -> In o leaves \/ In o nodes) ->
  Forall2 (fun o row => Forall2 (cell_ok c leaves care o) (all_bool_vectors (length leaves)) row)
          outs (tt_with_dont_cares (length leaves) (map (pat_get d) outs) care).
Proof. exact dont_care_table_is_cone_function. Qed.

(* ---- (2) trivial replacement ---- *)
Theorem C04_equal_patterns_equal_functions : forall c leaves nodes d o p l q,
  NoDup leaves -> cone_okb c leaves [] nodes = true ->
  simulate_cone c leaves nodes = Ok d ->
  dget d o = Some p -> dget d l = Some q ->
  p = q ->
  forall v, length v = length leaves ->
    exists b, ConeEval c (combine leaves v) o b /\ ConeEval c (combine leaves v) l b.
Proof. exact equal_patterns_equal_functions. Qed.

Theorem C04_complementary_patterns_negated_functions : forall c leaves nodes d o p l q,
  NoDup leaves -> cone_okb c leaves [] nodes = true ->
  simulate_cone c leaves nodes = Ok d ->
  dget d o = Some p -> dget d l = Some q ->
  p = (max_pattern (N.of_nat (length leaves)) - q)%N ->
  forall v, length v = length leaves ->
    exists b, ConeEval c (combine leaves v) o (negb b) /\ ConeEval c (combine leaves v) l b.
Proof. exact complementary_patterns_negated_functions. Qed.

(* ---- cone semantics ---- *)
Theorem C04_ConeEval_functional : forall c rho l b b',
  ConeEval c rho l b -> ConeEval c rho l b' -> b = b'.
Proof. exact ConeEval_functional. Qed.

Theorem C04_cone_eval_sound : forall c rho fuel l b,
  cone_eval fuel c rho l = Some b -> ConeEval c rho l b.
Proof. exact cone_eval_sound. Qed.

(* if the leaves have the values v in the circuit semantics, cone values are circuit values *)
Theorem C04_ConeEval_Eval : forall c a ls v l b,
  Forall2 (fun x y => Eval c a x (inj y)) ls v ->
  ConeEval c (combine ls v) l b -> Eval c a l (inj b).
Proof. exact ConeEval_Eval. Qed.

(* ---- (3) the step validator ---- *)
Theorem C04_check_step_sound : forall old new leaves outs care,
  check_step old new leaves outs care = true ->
  forall v, compared (length leaves) care v ->
  forall o, In o outs ->
    exists b, ConeEval old (combine leaves v) o b /\ ConeEval new (combine leaves v) o b.
Proof. exact check_step_sound. Qed.

(* with label maps (keys of inputs_mapping / outputs_mapping are renamed to their values) *)
Theorem C04_check_step_map_sound_Eval : forall old new leaves outs care a a' v,
  check_step_map old new leaves outs care = true ->
  compared (length leaves) care v ->
  Forall2 (fun l b => Eval old a l (inj b)) (map fst leaves) v ->
  Forall2 (fun l b => Eval new a' l (inj b)) (map snd leaves) v ->
  forall o o', In (o, o') outs ->
    exists b, Eval old a o (inj b) /\ Eval new a' o' (inj b).
Proof. exact check_step_map_sound_Eval. Qed.

(* The care-set substitution theorem (DESIGN 7/C04 (ii)) as a theorem about the FUNCTION
   Connect.replace_subcircuit.  Let c be well formed with accepted arities, sub well formed,
   replace_subcircuit c sub imap omap fresh = Ok c'.  The cut is the list of keys of imap, the
   replaced cone outputs the keys of omap; imap / omap pair each of them with its label in sub.
   If the executable cone check accepts host cone vs. replacement on every compared leaf vector
   (check_step_map c sub imap omap care: all 2^k vectors, or the care set) and the care set
   contains every leaf vector that occurs under some Boolean primary-input vector
   (care_covers, C04_care_covers_sound), then under EVERY Boolean primary-input vector x every
   surviving gate g of the host has in c' the value it had in c (modulo the renaming rho of the
   mapped gates to their mapped labels, C19_replace_subcircuit_renaming; a' is any assignment
   of c' that gives the renamed inputs the values of x).  g survives iff its renamed label is
   still a gate and is not an internal gate of the replacement.  The proviso "no leaf depends
   on a replaced output" of the design is not needed: the statement holds whenever
   replace_subcircuit returns normally (as C19_replace_subcircuit_semantics does).
   Proof: acceptance by the check implies, per host assignment, the equivalence hypothesis of
   C19_replace_subcircuit_semantics (Proofs/C04Replace.v). *)
Theorem C04_care_set_substitution : forall c sub imap omap fresh c' care,
  Inv c -> Inv sub -> arity_ok c ->
  replace_subcircuit c sub imap omap fresh = Ok c' ->
  check_step_map c sub imap omap care = true ->
  match care with Some K => care_covers c (dkeys imap) K = true | None => True end ->
  forall x a', length x = length (inputs c) ->
  (forall l, In l (inputs c) -> aval a' (ren_all (imap ++ omap) l) = aval (bool_assignment c x) l) ->
  forall g v, has_gate c g = true -> has_gate c' (ren_all (imap ++ omap) g) = true ->
    has_gate sub (ren_all (imap ++ omap) g) = false \/
    In (ren_all (imap ++ omap) g) (dvals imap ++ dvals omap) ->
    (Eval c' a' (ren_all (imap ++ omap) g) v <-> Eval c (bool_assignment c x) g v).
Proof. exact care_set_replace_subcircuit. Qed.

(* in particular the circuit outputs are the renamed old ones and carry the same values *)
Theorem C04_care_set_substitution_outputs : forall c sub imap omap fresh c' care,
  Inv c -> Inv sub -> arity_ok c ->
  replace_subcircuit c sub imap omap fresh = Ok c' ->
  check_step_map c sub imap omap care = true ->
  match care with Some K => care_covers c (dkeys imap) K = true | None => True end ->
  forall x a', length x = length (inputs c) ->
  (forall l, In l (inputs c) -> aval a' (ren_all (imap ++ omap) l) = aval (bool_assignment c x) l) ->
  outputs c' = map (ren_all (imap ++ omap)) (outputs c) /\
  forall vs, Forall2 (Eval c' a') (outputs c') vs <->
             Forall2 (Eval c (bool_assignment c x)) (outputs c) vs.
Proof. exact care_set_replace_subcircuit_outputs. Qed.

(* at the entry points: when also the replacement has accepted arities and no primary input is
   removed (an input that is itself a replaced cone output would be), evaluate returns the same
   result on every Boolean input vector and the truth table is the same, as results *)
Theorem C04_care_set_substitution_truth_table : forall c sub imap omap fresh c' care,
  Inv c -> Inv sub -> arity_ok c -> arity_ok sub ->
  replace_subcircuit c sub imap omap fresh = Ok c' ->
  check_step_map c sub imap omap care = true ->
  match care with Some K => care_covers c (dkeys imap) K = true | None => True end ->
  inputs c' = map (ren_all (imap ++ omap)) (inputs c) ->
  (forall x, length x = length (inputs c) -> evaluate c' (map inj x) = evaluate c (map inj x)) /\
  get_truth_table c' = get_truth_table c.
Proof. exact care_set_replace_subcircuit_entry. Qed.

Example C04_example_care_set_replacement_truth_table :
  arity_ok c04_dc_sub /\
  exists c', replace_subcircuit c04_dc_old c04_dc_sub c04_dc_imap c04_dc_omap "f" = Ok c' /\
    inputs c' = map (ren_all (c04_dc_imap ++ c04_dc_omap)) (inputs c04_dc_old) /\
    get_truth_table c' = Ok [[T; T; T; T]] /\ get_truth_table c04_dc_old = Ok [[T; T; T; T]].
Proof. exact c04_dc_replace_entry. Qed.

(* the step of the theorem: what the check gives per Boolean input vector is exactly the
   hypothesis of C19_replace_subcircuit_semantics *)
Theorem C04_check_implies_equivalence : forall c sub imap omap fresh c' care,
  Inv c -> arity_ok c ->
  replace_subcircuit c sub imap omap fresh = Ok c' ->
  check_step_map c sub imap omap care = true ->
  match care with Some K => care_covers c (dkeys imap) K = true | None => True end ->
  forall x, length x = length (inputs c) ->
  forall b, (forall k, In k (dkeys imap) ->
               Eval c (bool_assignment c x) k (aval b (ren_all (imap ++ omap) k))) ->
    forall k v, In k (dkeys omap) -> Eval c (bool_assignment c x) k v ->
                Eval sub b (ren_all (imap ++ omap) k) v.
Proof. exact check_gives_equivalence. Qed.

(* non-vacuity, with a replacement that is correct only on the care set *)
Example C04_example_care_set_replacement :
  Inv c04_dc_old /\ Inv c04_dc_sub /\ arity_ok c04_dc_old /\
  (exists c', replace_subcircuit c04_dc_old c04_dc_sub c04_dc_imap c04_dc_omap "f" = Ok c' /\
              gates c' = gates c04_dc_new) /\
  check_step_map c04_dc_old c04_dc_sub c04_dc_imap c04_dc_omap (Some c04_dc_care) = true /\
  check_step_map c04_dc_old c04_dc_sub c04_dc_imap c04_dc_omap None = false /\
  care_covers c04_dc_old (dkeys c04_dc_imap) c04_dc_care = true.
Proof. exact c04_dc_replace_ok. Qed.

(* Validator form (what the harness evaluates on the recorded states before / after every
   Circuit.replace_subcircuit call of minimize_subcircuits): the same conclusion for any two
   states old / new that the executable check_subst accepts - the cone agreement and the frame
   conditions (new is acyclic: a checked operands-first order; the leaves survive and are not
   cone outputs; no gate outside the replaced internal gates, other than a cone output, reads
   one of them; same interface; only cone gates touched) are checked on the two states.
   If check_subst accepts the step old -> new, then under every assignment for which the
   leaves carry a compared Boolean vector, every gate of old other than the replaced internal
   gates has in new the value it had in old. *)
Theorem C04_validator_substitution : forall old new leaves outs care a,
  check_subst old new leaves outs care = true ->
  (exists v, compared (length leaves) care v /\
             Forall2 (fun l b => Eval old a l (inj b)) leaves v) ->
  forall l v, ~ In l (replaced_internal old new outs) -> Eval old a l v -> Eval new a l v.
Proof. exact care_set_substitution. Qed.

Theorem C04_accepted_step_preserves_outputs : forall old new leaves outs care,
  check_subst old new leaves outs care = true ->
  inputs new = inputs old /\ outputs new = outputs old /\
  forall a,
    (exists v, compared (length leaves) care v /\
               Forall2 (fun l b => Eval old a l (inj b)) leaves v) ->
    forall o v, In o (outputs old) -> Eval old a o v -> Eval new a o v.
Proof. exact accepted_step_preserves_outputs. Qed.

(* the "all outputs trivial" branch (no replace_subcircuit call): a cone output o with the
   pattern of the leaf l is merged into l.  If check_merge accepts the states before / after:
   every gate other than o keeps its value, l has the value o had, and the i-th circuit
   output keeps its value *)
Theorem C04_merge_substitution : forall old new leaves o l care a,
  check_merge old new leaves o l care = true ->
  (exists v, compared (length leaves) care v /\
             Forall2 (fun x b => Eval old a x (inj b)) leaves v) ->
  inputs new = inputs old /\
  (forall x v, x <> o -> Eval old a x v -> Eval new a x v) /\
  (forall v, Eval old a o v -> Eval new a l v) /\
  (forall i x v, nth_error (outputs old) i = Some x -> Eval old a x v ->
     exists x', nth_error (outputs new) i = Some x' /\ Eval new a x' v).
Proof. exact merge_substitution. Qed.

(* the care-set hypothesis is itself checkable: care_covers re-computes _eval_dont_cares *)
Theorem C04_care_covers_sound : forall c leaves care,
  inputs_are_input_gates c ->
  care_covers c leaves care = true ->
  forall x, length x = length (inputs c) ->
  exists a v, zip_inputs (inputs c) (map inj x) [] = Ok a /\ In v care /\
              Forall2 (fun l b => Eval c a l (inj b)) leaves v.
Proof. exact care_covers_sound. Qed.

(* ---- (4) whole runs: the steps chain from the argument circuit to the returned circuit ----
   A recorded run of minimize_subcircuits is the argument circuit c0 (dumped at the entry), the
   list of events in the order they happened and the returned circuit cn.  An event is
   EvReplace (before, after, leaves, outs, care) - a call of Circuit.replace_subcircuit that took
   effect - or EvMerge (before, after, leaves, o, l, care) - an output equal to a cut leaf merged
   into that leaf - with exactly the data of PatCases.val_case / merge_case.
   check_run c0 evs cn (Model/SubcircuitRun.v) is true iff
     - the first event's before-state is c0, the after-state of every event is the before-state
       of the next one, the last after-state is cn (no events: cn is c0); states are compared
       with History.circuit_eqb, which reflects equality of the circuit records (inputs,
       outputs, gates with their order, users index, blocks);
     - every event is accepted by its validator: check_val_case (check_subst + care_covers),
       check_merge_case (check_merge + care_covers);
     - in the before-state of every event the listed inputs are INPUT gates, and for an event
       compared on all 2^k leaf vectors (care = None) every leaf evaluates to a Boolean under
       every Boolean input vector (leaves_boolean).  The step validators do not establish this
       for the next state, so it is checked, not assumed;
     - wfb cn and run_arity_okb cn: the returned circuit is well formed with accepted operand
       counts (check_subst / check_merge do not look at the users index or the blocks).
   C04_check_run_structure spells this reading out. *)
Theorem C04_check_run_structure : forall c0 evs cn,
  check_run c0 evs cn = true ->
  Forall (fun e => check_event e = true) evs /\
  match evs with
  | [] => cn = c0
  | e :: _ => ev_before e = c0 /\ ev_after (last evs e) = cn
  end /\
  (forall i e e', nth_error evs i = Some e -> nth_error evs (S i) = Some e' -> ev_before e' = ev_after e) /\
  wfb cn = true /\ run_arity_okb cn = true.
Proof. exact check_run_structure. Qed.

(* THE END-TO-END THEOREM.  If check_run accepts the recorded run and the argument circuit is
   well formed (WF, the invariant of C02) with accepted operand counts, then the returned
   circuit has the inputs of the argument and as many outputs, and for every Boolean input
   vector x: the i-th output of cn has (in the relational semantics Eval) every value the i-th
   output of c0 has; the output vectors coincide; evaluate returns the same vector for both;
   and both truth tables exist and are equal.
   Hypotheses: WF c0 and arity_ok c0 are used only to pass from Eval to the evaluators
   (EvalEntry.evaluate_complete needs them: without arity_ok an operator raises, without WF the
   positional assignment of evaluate is not the one of Eval) and for the converse direction of
   the <->; the position-wise statement needs neither (C04_validated_run_semantics). *)
Theorem C04_validated_run : forall c0 evs cn,
  WF c0 -> arity_ok c0 ->
  check_run c0 evs cn = true ->
  inputs cn = inputs c0 /\ length (outputs cn) = length (outputs c0) /\
  (forall x, length x = length (inputs c0) ->
     (forall i o v, nth_error (outputs c0) i = Some o -> Eval c0 (bool_assignment c0 x) o v ->
        exists o', nth_error (outputs cn) i = Some o' /\ Eval cn (bool_assignment cn x) o' v) /\
     (forall vs, Forall2 (Eval cn (bool_assignment cn x)) (outputs cn) vs <->
                 Forall2 (Eval c0 (bool_assignment c0 x)) (outputs c0) vs) /\
     exists vs, evaluate c0 (map inj x) = Ok vs /\ evaluate cn (map inj x) = Ok vs) /\
  exists tt, get_truth_table c0 = Ok tt /\ get_truth_table cn = Ok tt.
Proof. exact validated_run. Qed.

(* without any hypothesis on c0: a is the assignment evaluate builds from the vector x *)
Theorem C04_validated_run_semantics : forall c0 evs cn,
  check_run c0 evs cn = true ->
  inputs cn = inputs c0 /\ length (outputs cn) = length (outputs c0) /\
  WF cn /\ arity_ok cn /\
  forall x a, length x = length (inputs c0) -> zip_inputs (inputs c0) (map inj x) [] = Ok a ->
  forall i o v, nth_error (outputs c0) i = Some o -> Eval c0 a o v ->
    exists o', nth_error (outputs cn) i = Some o' /\ Eval cn a o' v.
Proof. exact validated_run_sem. Qed.

(* what the harness evaluates (PatCases-style case: check_run_case = check_run_closed): the
   hypotheses about c0 are checked too, so the conclusion holds with no hypothesis left *)
Theorem C04_validated_run_closed : forall c0 evs cn,
  check_run_closed c0 evs cn = true ->
  WF c0 /\ arity_ok c0 /\ WF cn /\ arity_ok cn /\
  inputs cn = inputs c0 /\ length (outputs cn) = length (outputs c0) /\
  (forall x, length x = length (inputs c0) ->
     exists vs, evaluate c0 (map inj x) = Ok vs /\ evaluate cn (map inj x) = Ok vs) /\
  exists tt, get_truth_table c0 = Ok tt /\ get_truth_table cn = Ok tt.
Proof. exact validated_run_closed. Qed.

(* non-vacuity: a recorded run with two events (a merge, then a replacement) *)
Example C04_example_validated_run :
  WF c04_run_c0 /\ arity_ok c04_run_c0 /\
  length c04_run_events = 2 /\
  check_run c04_run_c0 c04_run_events c04_run_c2 = true /\
  check_run_closed c04_run_c0 c04_run_events c04_run_c2 = true /\
  get_truth_table c04_run_c0 = Ok [[T; F; F; T]; [F; T; F; T]] /\
  get_truth_table c04_run_c2 = Ok [[T; F; F; T]; [F; T; F; T]].
Proof. exact c04_run_accepted. Qed.

(* the chain conditions bite: a missing event, an edit after the last event (outputs swapped),
   a wrong order are rejected although every single event is accepted by its validator *)
Example C04_example_run_rejected :
  check_run c04_run_c0 [c04_run_replace] c04_run_c2 = false /\
  check_run c04_run_c0 [c04_run_merge] c04_run_c2 = false /\
  check_run c04_run_c0 c04_run_events c04_run_c2_edited = false /\
  check_run c04_run_c0 [c04_run_replace; c04_run_merge] c04_run_c2 = false /\
  check_run c04_run_c0 [] c04_run_c2 = false /\ check_run c04_run_c0 [] c04_run_c0 = true /\
  check_event c04_run_merge = true /\ check_event c04_run_replace = true.
Proof. exact c04_run_rejected. Qed.

(* ---- (5) the code of the pure parts, regenerated from cirbo/minimization/subcircuit.py by translator T21 ----
   gen_* are the definitions of Generated/SubcircuitAlgGen.v, built statement by statement from the current source;
   the right-hand sides are the hand-written models: PatternSim (simulate_cone, cone_size, cone_outputs,
   tt_with_dont_cares, reachable_vectors) and, for the parts that had no model before, Model/SubcircuitAlg.v
   (nested_cut, filter_cuts, fill_cut, internal_gates, classify_outputs) composed in Model/SubcircuitGlue.v
   (subcircuit_of_cut, get_subcircuits_model, dont_care_strings).
   Conventions of the translation (trusted; stated in Generated/SubcircuitAlgGen.v and Model/SubcircuitPrims.v):
   ints are N (patterns: `MAX - p` truncates at 0 as in T5); a Python set is the list of its distinct elements in
   insertion order and ITERATING over it yields `set_iter s` for an arbitrary function set_iter - the leaf order of a
   cut is set_iter (set(cut)), as in the hand model, where it is a parameter; reading a defaultdict does not insert;
   _Subcircuit objects are records; `while` loops run on fuel (the hand models of the searches take the same fuel;
   for _eval_dont_cares any fuel above the number of inputs is enough); inputs_tt strings denote leaf vectors
   (care_of_strings).  Side conditions: set_iter returns a permutation; the cuts have no repeated leaf and at most
   cut_size leaves (what the enumerator returns; a longer cut raises KeyError in the table of input patterns); the
   circuit inputs are distinct (with a repeated input the in-place counter of _eval_dont_cares and zip_inputs
   differ). *)
Theorem C04_cone_code_regenerated :
  (* (b) _Subcircuit.evaluate_truth_table_with_dont_cares, all objects *)
  (forall self,
     gen_Subcircuit_evaluate_truth_table_with_dont_cares self =
     Ok (tt_with_dont_cares (length (Subcircuit_inputs self))
                            (map (pat_get (Subcircuit_patterns self)) (Subcircuit_outputs self))
                            (care_of_strings (Subcircuit_inputs_tt self)))) /\
  (* (a) the body of the loop over the good cuts of _get_subcircuits *)
  (forall set_iter c cut_nodes node_pos outputs_set inputs_tt subs cut,
     Permutation (set_iter (py_set_of_list cut)) (py_set_of_list cut) ->
     Permutation (set_iter (cm_get cut_nodes cut [])) (cm_get cut_nodes cut []) ->
     length (set_iter (py_set_of_list cut)) = length cut ->
     (forall x, memb x outputs_set = memb x (outputs c)) ->
     py_adict_getitem N.eqb inputs_tt (py_len cut) = Ok (generate_inputs_tt (py_len cut)) ->
     gen_get_subcircuits_for9 set_iter c cut_nodes node_pos outputs_set inputs_tt subs cut =
     do s <- subcircuit_of_cut set_iter c cut_nodes node_pos cut; Ok (subs ++ [s])) /\
  (* (a) _get_subcircuits as a whole: sorting, cut filtering, node sets, per-cut simulation *)
  (forall set_iter fuel c cuts cn max_size cut_size,
     (forall s, Permutation (set_iter s) s) ->
     Forall (fun cut => NoDup cut /\ (py_len cut <= cut_size)%N) cuts ->
     gen_get_subcircuits set_iter fuel c cuts cn max_size cut_size =
     get_subcircuits_model set_iter fuel c cuts cn max_size) /\
  (forall cn cut1 cut2, gen_get_subcircuits_is_nested_cut cn cut1 cut2 = Ok (nested_cut cn cut1 cut2)) /\
  (* (c) _eval_dont_cares *)
  (forall fuel c subs, NoDup (inputs c) -> length (inputs c) < fuel ->
     gen_eval_dont_cares fuel c subs =
     do _ <- mapM (fun x => do a <- zip_inputs (inputs c) (map inj x) []; evaluate_full_circuit c a)
                  (all_bool_vectors (length (inputs c)));
     mapM (fun sub => do vs <- reachable_vectors c (Subcircuit_inputs sub);
                      Ok (set_Subcircuit_inputs_tt sub (dont_care_strings vs))) subs) /\
  (forall vs v, vec_mem v (care_of_strings (dont_care_strings vs)) = vec_mem v vs) /\
  (* (d) _get_internal_gates, every fuel *)
  (forall fuel c ins outs, gen_get_internal_gates fuel c ins outs = internal_gates fuel c ins outs) /\
  (* (e) the classification of the outputs inside minimize_subcircuits *)
  (forall sub inputs,
     gen_classify_outputs sub inputs =
     let r := classify_outputs (Subcircuit_patterns sub) inputs (Subcircuit_outputs sub) in
     Ok (cl_found r, max_pattern (N.of_nat (length inputs)), cl_filtered r, cl_filtered_lst r, cl_trivial r,
         cl_negated r)) /\
  (forall pats leaves outs,
     let r := classify_outputs pats leaves outs in
     let mx := max_pattern (N.of_nat (length leaves)) in
     (forall o l, dget (cl_trivial r) o = Some l ->
        pat_get pats o = pat_get pats l /\ (In l leaves \/ In l (cl_filtered_lst r))) /\
     (forall o l, dget (cl_negated r) o = Some l ->
        pat_get pats l = (mx - pat_get pats o)%N /\ (In l leaves \/ In l (cl_filtered_lst r)))).
Proof. exact cone_code_regenerated. Qed.

(* the regenerated code runs: the example circuit with the cut family of its three inner cones (set_iter = identity) *)
Example C04_example_regenerated_run :
  exists s1 s2 s3,
    gen_get_subcircuits (fun s => s) 20 c04_old (map fst regen_cut_nodes) regen_cut_nodes 9 5 = Ok [s1; s2; s3] /\
    s1 = mk_gen_Subcircuit ["b"; "a"] ["b"; "a"; "w"; "x"; "y"] ["w"; "y"] 2 []
                           [("a", 10%N); ("b", 12%N); ("w", 6%N); ("x", 8%N); ("y", 7%N)] /\
    (exists t1 t2 t3, gen_eval_dont_cares 10 c04_old [s1; s2; s3] = Ok [t1; t2; t3] /\
                      Subcircuit_inputs_tt t1 = ["00"; "01"; "10"; "11"]) /\
    gen_classify_outputs s1 (Subcircuit_inputs s1) =
      Ok ([(12%N, "b"); (10%N, "a"); (6%N, "w"); (7%N, "y")], 15%N, ["w"; "y"], ["w"; "y"], [], []) /\
    gen_get_internal_gates 20 c04_old ["a"; "b"] ["y"] = Ok ["x"] /\
    gen_get_internal_gates 1 c04_old ["a"; "b"] ["y"] = Err OutOfFuel.
Proof. exact regenerated_example. Qed.

(* ---- the added hypotheses are necessary (witnesses) ---- *)
(* operand count: eval_pattern ignores a surplus operand of a comparison gate (den = None:
   such a gate cannot be evaluated at all) *)
Example C04_cex_surplus_operand :
  eval_pattern (max_pattern 0) GEQ [1; 1; 0]%N = Ok 1%N /\
  den GEQ (map (fun p => N.testbit p 0) [1; 1; 0]%N) = None.
Proof. exact c04_cex_surplus_operand. Qed.

(* n-ary gates are folded over all operands (the unrepaired code, defect D25, read only two) *)
Example C04_example_ternary_and :
  eval_pattern (max_pattern 0) AND [1; 1; 0]%N = Ok 0%N /\
  den AND (map (fun p => N.testbit p 0) [1; 1; 0]%N) = Some false.
Proof. exact c04_ternary_and. Qed.

(* cone_okb: a cone node that is not listed makes its users read the default pattern 0 *)
Example C04_cex_missing_node :
  cone_okb c04_old ["a"; "b"] [] ["a"; "b"; "y"] = false /\
  simulate_cone c04_old ["a"; "b"] ["a"; "b"; "y"] = Ok [("a", 10%N); ("b", 12%N); ("y", 15%N)] /\
  N.testbit 15 3 = true /\
  ConeEval c04_old (row_assign ["a"; "b"] 3) "y" false.
Proof. exact c04_cex_missing_node. Qed.

(* ---- non-vacuity ---- *)
Example C04_example_cone : NoDup ["a"; "b"] /\ cone_okb c04_old ["a"; "b"] [] ["a"; "b"; "x"; "y"] = true.
Proof. exact c04_old_cone_ok. Qed.

Example C04_example_simulation :
  simulate_cone c04_old ["a"; "b"] ["a"; "b"; "x"; "y"] =
  Ok [("a", 10%N); ("b", 12%N); ("x", 8%N); ("y", 7%N)].
Proof. exact c04_old_simulation. Qed.

Example C04_example_step_accepted : check_subst c04_old c04_new ["a"; "b"] ["y"] None = true.
Proof. exact c04_step_accepted. Qed.

Example C04_example_step_rejected : check_step c04_old c04_bad ["a"; "b"] ["y"] None = false.
Proof. exact c04_step_rejected. Qed.

Example C04_example_care_set_step :
  check_subst c04_dc_old c04_dc_new ["u"; "v"] ["t"] None = false /\
  check_subst c04_dc_old c04_dc_new ["u"; "v"] ["t"] (Some c04_dc_care) = true /\
  care_covers c04_dc_old ["u"; "v"] c04_dc_care = true.
Proof. exact c04_dc_step. Qed.

Example C04_example_merge :
  check_merge c04_merge_old c04_merge_new ["a"; "b"] "o" "a" None = true /\
  check_merge c04_merge_old c04_merge_new ["a"; "b"] "o" "b" None = false.
Proof. exact c04_merge_accepted. Qed.
