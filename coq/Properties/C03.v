(* C03  Simplification passes preserve the function, the interface and their argument.
   Statements only; proofs live in Proofs/PassRebuild.v (the generic rebuild-with-remap lemma),
   PassRR.v, PassMU.v, PassMD.v, PassTT.v + PassME.v (one file per pass), PassPipeline.v and
   PassAll.v (lift to pipelines, explicit forms, example).

   Vocabulary:
     WF c          the well-formedness invariant of C02 (Model/WF.v)
     arity_ok c    every non-INPUT gate has a number of operands accepted by its operator
                   (otherwise evaluating the circuit raises in Python and Eval has no value)
     Eval c a l v  the relational semantics of C01 (Model/Sem.v): gate l has the three-valued
                   value v under the (possibly partial) assignment a
     total_on c a  a assigns True/False to every INPUT gate of c
     reach (ops_of c) (outputs c) x    x is reachable from an output along operand edges
     all_leaves P t / tv_of / keep_of (Proofs/PassPipeline.v): a predicate on the leaf passes of a
                   nested pipeline; tv_of t = false only for MergeEquivalentGates (function kept on
                   total assignments only), keep_of t = false only for
                   RemoveRedundantGates(allow_inputs_removal=True)
   "The argument circuit is not modified" is true by construction in the model (circuits are
   immutable values); on the implementation the harness compares the dump of the argument
   before and after every call.
   Every theorem is stated for an arbitrary result  P c = Ok c'; that the passes never fail on
   well-formed circuits is stated separately (C03_*_total). *)
Require Import Cirbo.Model.Base Cirbo.Model.Gate Cirbo.Model.Circuit Cirbo.Model.Eval Cirbo.Model.Sem
        Cirbo.Model.Passes Cirbo.Model.WF.
Require Import Cirbo.Proofs.TraverseInv Cirbo.Proofs.PassRebuild Cirbo.Proofs.PassRR Cirbo.Proofs.PassMU
        Cirbo.Proofs.PassMD Cirbo.Proofs.PassPipeline Cirbo.Proofs.PassTotal Cirbo.Proofs.PassAll
        Cirbo.Proofs.PassWitness Cirbo.Proofs.PassEntry.
Require Import Cirbo.Generated.PassesGen Cirbo.Generated.PipelineGen Cirbo.Proofs.PassesGen.
Require Import Cirbo.Generated.TransformerGen Cirbo.Proofs.TransformerGen.

(* ---- RemoveRedundantGates() ---- *)
Theorem C03_remove_redundant_gates : forall c c',
  WF c -> arity_ok c -> remove_redundant_gates false c = Ok c' ->
  WF c' /\ arity_ok c' /\ inputs c' = inputs c /\ length (outputs c') = length (outputs c) /\
  (forall a i d d' v, i < length (outputs c) ->
     (Eval c' a (nth i (outputs c') d') v <-> Eval c a (nth i (outputs c) d) v)) /\
  size c' <= size c.
Proof. exact rr_false_explicit. Qed.

(* ---- RemoveRedundantGates(allow_inputs_removal=True): the remaining inputs are the inputs
   reachable from the outputs, in the original order; the removed inputs cannot matter: the
   assignment a' given to the result may differ from a outside the remaining inputs ---- *)
Theorem C03_remove_redundant_gates_inputs : forall c c',
  WF c -> arity_ok c -> remove_redundant_gates true c = Ok c' ->
  WF c' /\ arity_ok c' /\
  inputs c' = filter (has_gate c') (inputs c) /\
  (forall x, has_gate c' x = true <-> reach (ops_of c) (outputs c) x) /\
  outputs c' = outputs c /\
  (forall a a', (forall x, In x (inputs c') -> aval a x = aval a' x) ->
     forall i d d' v, i < length (outputs c) ->
       (Eval c' a' (nth i (outputs c') d') v <-> Eval c a (nth i (outputs c) d) v)) /\
  size c' <= size c.
Proof. exact rr_true_explicit. Qed.

(* ---- MergeUnaryOperators ---- *)
Theorem C03_merge_unary_operators : forall c c',
  WF c -> arity_ok c -> merge_unary_operators c = Ok c' ->
  WF c' /\ arity_ok c' /\ inputs c' = inputs c /\ length (outputs c') = length (outputs c) /\
  (forall a i d d' v, i < length (outputs c) ->
     (Eval c' a (nth i (outputs c') d') v <-> Eval c a (nth i (outputs c) d) v)) /\
  size c' <= size c.
Proof. exact mu_explicit. Qed.

(* ---- MergeDuplicateGates ---- *)
Theorem C03_merge_duplicate_gates : forall c c',
  WF c -> arity_ok c -> merge_duplicate_gates c = Ok c' ->
  WF c' /\ arity_ok c' /\ inputs c' = inputs c /\ length (outputs c') = length (outputs c) /\
  (forall a i d d' v, i < length (outputs c) ->
     (Eval c' a (nth i (outputs c') d') v <-> Eval c a (nth i (outputs c) d) v)) /\
  size c' <= size c.
Proof. exact md_explicit. Qed.

(* ---- MergeEquivalentGates: gates are merged when their TRUTH TABLES agree, so the function is
   preserved under every total assignment (the truth table is identical); under a partial
   assignment two such gates may differ (x AND NOT x is Undefined where ALWAYS_FALSE is False) ---- *)
Theorem C03_merge_equivalent_gates : forall c c',
  WF c -> arity_ok c -> merge_equivalent_gates c = Ok c' ->
  WF c' /\ arity_ok c' /\ inputs c' = inputs c /\ length (outputs c') = length (outputs c) /\
  (forall a, total_on c a -> forall i d d' v, i < length (outputs c) ->
     (Eval c' a (nth i (outputs c') d') v <-> Eval c a (nth i (outputs c) d) v)) /\
  size c' <= size c.
Proof. exact me_explicit. Qed.

(* ---- every pipeline: Transformer.apply_transformers(c, ts) for arbitrary nested compositions
   (linearisation with implied post passes, removal of repeated idempotent passes) ---- *)
Theorem C03_pipeline : forall c ts c',
  WF c -> arity_ok c -> apply_transformers c ts = Ok c' ->
  WF c' /\ arity_ok c' /\
  inputs c' = filter (has_gate c') (inputs c) /\
  (forallb (all_leaves keep_of) ts = true -> inputs c' = inputs c) /\
  length (outputs c') = length (outputs c) /\
  (forall a a', forallb (all_leaves tv_of) ts = true \/ total_on c a ->
     (forall x, In x (inputs c') -> aval a x = aval a' x) ->
     forall i d d' v, i < length (outputs c) ->
       (Eval c' a' (nth i (outputs c') d') v <-> Eval c a (nth i (outputs c) d) v)) /\
  size c' <= size c.
Proof. exact pipeline_explicit. Qed.

(* ---- cleanup(c, use_heavy): light = RR | MU | MD, heavy adds ME ---- *)
Theorem C03_cleanup : forall c b c',
  WF c -> arity_ok c -> cleanup c b = Ok c' ->
  WF c' /\ arity_ok c' /\ inputs c' = inputs c /\ length (outputs c') = length (outputs c) /\
  (forall a, b = false \/ total_on c a -> forall i d d' v, i < length (outputs c) ->
     (Eval c' a (nth i (outputs c') d') v <-> Eval c a (nth i (outputs c) d) v)) /\
  size c' <= size c.
Proof. exact cleanup_explicit. Qed.

(* ---- the semantic core: rebuild-with-remap.  n is well formed, every gate of n is a gate of c
   with the same label and type whose operands are related by R to the original ones, and R-related
   labels have the same value in c: then every gate of n has in n the value it has in c ---- *)
Theorem C03_rebuild_with_remap : forall c a R n,
  WF n -> sim c R n -> (forall x' x, R x' x -> forall v, Eval c a x' v <-> Eval c a x v) ->
  forall l, has_gate n l = true -> forall v, Eval n a l v <-> Eval c a l v.
Proof. exact rebuild_sem. Qed.

(* ---- "an identical truth table", on the executable entry points, as equalities of results: for
   every pipeline that keeps the inputs (in particular each of RR(), MU, MD, ME alone, as [t]) and
   for cleanup, get_truth_table of the result EQUALS get_truth_table of the argument, and both
   calls return (completeness of the evaluators, C01); likewise evaluate on every Boolean vector
   (any length), and on every three-valued vector when no MergeEquivalentGates is involved ---- *)
Theorem C03_pipeline_truth_table : forall c ts c',
  WF c -> arity_ok c -> forallb (all_leaves keep_of) ts = true -> apply_transformers c ts = Ok c' ->
  get_truth_table c' = get_truth_table c.
Proof. exact pipeline_truth_table_eq. Qed.

Theorem C03_pipeline_truth_table_returns : forall c ts c',
  WF c -> arity_ok c -> forallb (all_leaves keep_of) ts = true -> apply_transformers c ts = Ok c' ->
  exists tt, get_truth_table c = Ok tt /\ get_truth_table c' = Ok tt.
Proof. exact pipeline_truth_table_ok. Qed.

Theorem C03_pipeline_evaluate : forall c ts c',
  WF c -> arity_ok c -> forallb (all_leaves keep_of) ts = true -> apply_transformers c ts = Ok c' ->
  (forall vals, forallb (all_leaves tv_of) ts = true \/ (exists bs, vals = map inj bs) ->
                evaluate c' vals = evaluate c vals) /\
  get_truth_table c' = get_truth_table c.
Proof. exact pipeline_entry_eq. Qed.

Theorem C03_cleanup_truth_table : forall c b c',
  WF c -> arity_ok c -> cleanup c b = Ok c' -> get_truth_table c' = get_truth_table c.
Proof. exact cleanup_truth_table_eq. Qed.

Theorem C03_cleanup_truth_table_returns : forall c b c',
  WF c -> arity_ok c -> cleanup c b = Ok c' ->
  exists tt, get_truth_table c = Ok tt /\ get_truth_table c' = Ok tt.
Proof. exact cleanup_truth_table_ok. Qed.

Theorem C03_cleanup_evaluate : forall c b c',
  WF c -> arity_ok c -> cleanup c b = Ok c' ->
  (forall vals, b = false \/ (exists bs, vals = map inj bs) -> evaluate c' vals = evaluate c vals) /\
  get_truth_table c' = get_truth_table c.
Proof. exact cleanup_entry_eq. Qed.

(* ---- totality: the passes and every pipeline return a circuit (no CircuitValidationError from
   emplace_gate, no IndexError from the positional operand getters, no fuel exhaustion) ---- *)
Theorem C03_remove_redundant_gates_total : forall air c,
  WF c -> exists c', remove_redundant_gates air c = Ok c'.
Proof. exact rr_total. Qed.

Theorem C03_merge_unary_operators_total : forall c,
  WF c -> arity_ok c -> exists c', merge_unary_operators c = Ok c'.
Proof. exact mu_total. Qed.

Theorem C03_merge_duplicate_gates_total : forall c,
  WF c -> exists c', merge_duplicate_gates c = Ok c'.
Proof. exact md_total. Qed.

Theorem C03_merge_equivalent_gates_total : forall c,
  WF c -> arity_ok c -> exists c', merge_equivalent_gates c = Ok c'.
Proof. exact me_total. Qed.

Theorem C03_pipeline_total : forall c ts,
  WF c -> arity_ok c -> exists c', apply_transformers c ts = Ok c'.
Proof. exact pipeline_total. Qed.

Theorem C03_cleanup_total : forall c b,
  WF c -> arity_ok c -> exists c', cleanup c b = Ok c'.
Proof. exact cleanup_total. Qed.

(* ---- the two restrictions in the statements above are necessary ---- *)
(* MergeEquivalentGates does NOT preserve the three-valued function.  me_wit: x input; nx = NOT x;
   g = AND(x, nx); k = ALWAYS_FALSE; outputs g, k.  g and k have the same truth table, the output k
   is replaced by g; with x undefined g is Undefined while k was False *)
Theorem C03_merge_equivalent_gates_three_valued_refuted :
  WF me_wit /\ (forall l g, dget (gates me_wit) l = Some g -> gtyp g <> INPUT ->
                            Den.den_accepts (gtyp g) (length (gops g)) = true) /\
  exists c', merge_equivalent_gates me_wit = Ok c' /\ outputs c' = ["g"; "g"] /\
    ~ (forall v, Eval c' [] (nth 1 (outputs c') "") v <-> Eval me_wit [] (nth 1 (outputs me_wit) "") v).
Proof. exact me_three_valued_refuted. Qed.

(* MergeUnaryOperators needs arity_ok.  mu_wit: x input; y = AND(x) (ONE operand: evaluating it
   raises TypeError); z = NOT x; l = LNOT(z, y); o = OR(l, x); output o.  l is remapped to its even
   parent x: the result's o = OR(x, x) has a value, the argument's o has none *)
Theorem C03_merge_unary_operators_arity_needed :
  WF mu_wit /\
  exists c', merge_unary_operators mu_wit = Ok c' /\ outputs c' = ["o"] /\
    (exists v, Eval c' [] "o" v) /\ (forall v, ~ Eval mu_wit [] "o" v).
Proof. exact mu_arity_needed. Qed.

(* ---- the model is the code: the pass ALGORITHMS are regenerated from the source on every run ----
   Translator T15 (translator/t15_passes.py) turns every `_transform` of minimization/simplification/*.py (and the
   helpers _find_equivalent_gates_groups / _replace_equivalent_gates / the dataclass _Keep of merge_equivalent_gates.py)
   into Generated/PassesGen.v statement by statement: the nested closures with `nonlocal` state become state-passing
   functions, `more_itertools.consume(circuit.dfs(.. hooks ..))` becomes the fold of the translated hooks over the
   event log of Traverse.traverse, in order (T10 regenerates the traversal itself: C20), the dict keyed by
   (type, *sorted(operands)) becomes an association list with `sorted` as insertion sort on strings, the shared
   mutable _Keep objects become cells of a heap.  The regenerated functions EQUAL the hand model the theorems above
   are about, for EVERY circuit (no well-formedness hypothesis).  _replace_equivalent_gates alone is equal for groups
   without a repeated label whose members all have at least two elements (the library keeps the LAST group of a
   repeated label, the model the FIRST), which is what _find_equivalent_gates_groups returns for every circuit. *)
Theorem C03_passes_regenerated :
  (forall allow c, gen_RemoveRedundantGates_transform allow c = remove_redundant_gates allow c) /\
  (forall c, gen_MergeUnaryOperators_transform c = merge_unary_operators c) /\
  (forall c, gen_MergeDuplicateGates_transform c = merge_duplicate_gates c) /\
  (forall c, gen_find_equivalent_gates_groups c = find_equivalent_groups c) /\
  (forall c groups, NoDup (concat groups) -> Forall (fun g => 1 < length g) groups ->
     gen_replace_equivalent_gates c groups = replace_equivalent_gates c groups) /\
  (forall c groups, find_equivalent_groups c = Ok groups ->
     NoDup (concat groups) /\ Forall (fun g => 1 < length g) groups) /\
  (forall c, gen_MergeEquivalentGates_transform c = merge_equivalent_gates c) /\
  (forall t c,
     match t with
     | TRR a => gen_RemoveRedundantGates_transform a c
     | TMU => gen_MergeUnaryOperators_transform c
     | TMD => gen_MergeDuplicateGates_transform c
     | TME => gen_MergeEquivalentGates_transform c
     | TComp _ => Err PyTypeError
     end = transform_leaf t c) /\
  (* the pipeline machinery (Generated/PipelineGen.v): the class attribute __idempotent__, the pre / post
     transformer lists that the constructors hand to Transformer.__init__ (as_distinct of a leaf is built from
     them), the reduction loop Transformer.linearize_reduce_transformers and cleanup are regenerated;
     linearize_transformers / as_distinct / apply_transformers / transform / `|` / the __eq__ methods: see
     C03_pipeline_machinery_regenerated below (translator T24) *)
  (forall t, gen_is_idempotent t = is_leaf_idempotent t) /\
  (forall t, (forall ts, t <> TComp ts) ->
     as_distinct t = linearize (gen_pre_transformers t) ++ [t] ++ linearize (gen_post_transformers t)) /\
  (forall ts, gen_linearize_reduce_transformers ts = Ok (linearize_reduce ts)) /\
  (forall c heavy, gen_cleanup c heavy = cleanup c heavy).
Proof. exact passes_regenerated. Qed.

(* the dispatching methods of core/circuit/transformer.py - linearize_transformers, as_distinct (both classes),
   apply_transformers, transform, TransformerComposition._transform, the three __eq__ (Transformer,
   RemoveRedundantGates, TransformerComposition), __or__ / __ror__ - are regenerated as well (translator T24,
   Generated/TransformerGen.v): dynamic dispatch on `self` is a match on the constructor with one arm per class body,
   generators are run to completion, the mutual recursion through the class hierarchy is a mutual Fixpoint on explicit
   fuel (`gen_f` = `gen_f_fuel` at a default fuel; the results are proved independent of the fuel above a bound),
   functools.reduce is a monadic fold, `return NotImplemented` is None.  They equal the hand model for EVERY
   transformer term and circuit.  The NotImplemented protocol is modelled between transformer objects only
   (`other` ranges over Passes.transformer, not over arbitrary Python objects). *)
Theorem C03_pipeline_machinery_regenerated :
  (* as_distinct (Transformer's and TransformerComposition's, imply_deps True / False) and linearize_transformers,
     with the default fuel and with every fuel above a bound *)
  (forall t, gen_as_distinct t true = Ok (as_distinct t)) /\
  (forall t, gen_as_distinct t false = Ok (match t with TComp _ => as_distinct t | _ => [t] end)) /\
  (forall ts, gen_linearize_transformers ts = Ok (linearize ts)) /\
  (forall t, exists n, forall f, n <= f -> gen_as_distinct_fuel f t true = Ok (as_distinct t)) /\
  (forall ts, exists n, forall f, n <= f -> gen_linearize_transformers_fuel f ts = Ok (linearize ts)) /\
  (* apply_transformers(circuit, list) / (circuit, composition) / (circuit, a transformer that is not a composition:
     TypeError, not iterable); every fuel >= 2 *)
  (forall c ts, gen_apply_transformers c (inl ts) = apply_transformers c ts) /\
  (forall f c ts, gen_apply_transformers_fuel (S (S f)) c (inl ts) = apply_transformers c ts) /\
  (forall f c ts, gen_apply_transformers_fuel (S (S f)) c (inr (TComp ts)) = apply_transformers c [TComp ts]) /\
  (forall f c t, (forall l, t <> TComp l) -> gen_apply_transformers_fuel (S f) c (inr t) = Err PyTypeError) /\
  (* x._transform(c): the four passes (T15) for a leaf, TransformerComposition._transform for a composition;
     x.transform(c) *)
  (forall f t c, (forall l, t <> TComp l) -> gen__transform_fuel (S f) t c = transform_leaf t c) /\
  (forall f c ts, gen__transform_fuel (S (S (S f))) (TComp ts) c = apply_transformers c [TComp ts]) /\
  (forall t c, gen_transform t c = transform t c) /\
  (* `a == b`: Transformer.__eq__, RemoveRedundantGates.__eq__, TransformerComposition.__eq__ and the NotImplemented
     protocol (the reflected call always answers: the identity fallback is never reached) *)
  (forall a b, gen_py_eq a b = transformer_eqb a b) /\
  (forall a b, gen___eq__ a b = None -> gen___eq__ b a <> None) /\
  (* `a | b`: __or__ answers between transformers; __ror__ (never reached between transformers) is its mirror image *)
  (forall a b, gen___or__ a b = Ok (Some (pipe a b))) /\
  (forall a b, gen___ror__ b a = Ok (Some (TComp (match a with TComp l => l | _ => [a] end ++ as_distinct b)))) /\
  (forall a b, gen_py_or a b = Ok (Some (pipe a b))).
Proof. exact transformer_regenerated. Qed.

(* ---- non-vacuity: inputs a b u; n1 = NOT a; n2 = NOT n1; g1 = AND(n2,b); g2 = AND(b,n2);
   e = OR(g1,g2); d = NOT b (dead); outputs e, g2, n2 ---- *)
Example C03_example_hypotheses : WF c03_ex /\ arity_ok c03_ex.
Proof. exact c03_ex_ok. Qed.

Example C03_example_runs :
  (exists c', remove_redundant_gates false c03_ex = Ok c' /\ size c' = 8) /\
  (exists c', remove_redundant_gates true c03_ex = Ok c' /\ size c' = 7 /\ inputs c' = ["a"; "b"]) /\
  (exists c', merge_unary_operators c03_ex = Ok c' /\ outputs c' = ["e"; "g2"; "a"]) /\
  (exists c', merge_duplicate_gates c03_ex = Ok c' /\ dget (gates c') "e" = Some (mkGate OR ["g2"; "g2"])) /\
  (exists c', merge_equivalent_gates c03_ex = Ok c' /\ outputs c' = ["g1"; "g1"; "a"]) /\
  (exists c', cleanup c03_ex true = Ok c' /\ size c' = 4 /\ inputs c' = ["a"; "b"; "u"] /\
              outputs c' = ["g2"; "g2"; "a"]).
Proof. exact c03_ex_runs. Qed.
