(* C14  Conversion to the bench basis preserves the function.
   Statements only; proofs live in Proofs/SemBench.v (rules, shape of one step, loop induction),
   Proofs/SemBench2.v (semantics, types, blocks), Proofs/WFBench.v (well-formedness, C02) and
   Proofs/EntryEq.v (entry points, by the completeness of the evaluators, C01).

   Hypotheses: Inv c = WF c /\ inputs_nullary c (the invariant of C02) and arity_ok c (every
   operand count is accepted by its operator).  "at least one input" is NOT needed as a
   hypothesis: a circuit without inputs that contains a constant gate makes into_bench return
   Err GateDoesntExistError, and all statements are about `into_bench c fresh = Ok c'`.
   No hypothesis on the fresh labels either: emplace_gate rejects a label that exists.
   The function is preserved for TOTAL assignments only (ALWAYS_TRUE becomes OR(x, NOT x); and a
   rewritten comparison gate may be more defined than the original under a partial assignment:
   C14_partial_assignments_differ). *)
(* the simple Circuit methods these theorems rest on are regenerated from the source (translator T9)
   and proved equal to the model: keep those equality lemmas in this property's proof cone *)
Require Cirbo.Proofs.CircuitCoreGen Cirbo.Proofs.CircuitCoreGen2.
Require Import Cirbo.Model.Base Cirbo.Model.Gate Cirbo.Model.Den Cirbo.Model.Circuit Cirbo.Model.Connect
        Cirbo.Model.Eval Cirbo.Model.Sem Cirbo.Model.History Cirbo.Model.WF.
Require Import Cirbo.Generated.Operators Cirbo.Generated.GateTypes.
Require Import Cirbo.Proofs.WFEmplace Cirbo.Proofs.WFStep Cirbo.Proofs.SemExt Cirbo.Proofs.SemBench
        Cirbo.Proofs.SemBench2 Cirbo.Proofs.C14Final Cirbo.Proofs.WFBench Cirbo.Proofs.SemCex
        Cirbo.Proofs.EntryEq.
Require Import Cirbo.Generated.Converters Cirbo.Proofs.ConvertersGen.

(* ---- the rewrite rules, locally ---- *)
Theorem C14_rules_denotation : forall a b x bs,
  den LT [a; b] = den AND [negb a; b] /\ den LEQ [a; b] = den OR [negb a; b] /\
  den GT [a; b] = den AND [a; negb b] /\ den GEQ [a; b] = den OR [a; negb b] /\
  den LIFF [a; b] = den IFF [a] /\ den RIFF [a; b] = den IFF [b] /\
  den LNOT [a; b] = den NOT [a] /\ den RNOT [a; b] = den NOT [b] /\
  den ALWAYS_TRUE bs = den OR [x; negb x] /\ den ALWAYS_FALSE bs = den AND [x; negb x].
Proof. exact rules_denotation. Qed.

(* on three-valued states the comparison rules only refine (information order st_le) *)
Theorem C14_rules_three_valued_refine : forall a b,
  st_le (oplt_ a b) (opand_ (opnot_ a) b []) /\ st_le (opleq_ a b) (opor_ (opnot_ a) b []) /\
  st_le (opgt_ a b) (opand_ a (opnot_ b) []) /\ st_le (opgeq_ a b) (opor_ a (opnot_ b) []).
Proof. exact rules_three_valued_refine. Qed.

(* ---- the tie of the rules to the source (translator T6) ----
   Generated/Converters.v is regenerated from cirbo/core/circuit/converters.py on every check: one
   Gallina function per `_convert_*` function with the same statement sequence, the `_convertors`
   dict as a match (generated_convert_gate) and the set of rules that draw a uuid4
   (generated_needs_fresh).  The model the theorems below are about is that regenerated code:
   the FULL statement would be
     forall c l g fresh, generated_convert_gate c l g fresh = convert_gate c l g fresh
   and it is false in one corner, for the error KIND only: Python evaluates `_gate.operands[1]` of
   _convert_lt / _convert_leq after emplace_gate, the hand model reads both operands first; for an
   LT / LEQ gate with exactly one operand whose helper cannot be emplaced the source raises
   CircuitValidationError and the hand model says PyIndexError (C14_rules_error_kind_corner).
   Proved: the two are equal outside that corner, and in it both are errors of exactly these kinds;
   hence normal returns coincide, for one rule and for the whole conversion (generated_into_bench =
   the driver of Model/Connect.v over the regenerated rules), so every theorem of this file and the
   into_bench case of C02, all of the form `into_bench c fresh = Ok c' -> ...`, holds verbatim for
   the regenerated rules. *)
Theorem C14_rules_regenerated :
  (forall t, generated_needs_fresh t = needs_fresh t) /\
  (forall c l g fresh,
     generated_convert_gate c l g fresh = convert_gate c l g fresh \/
     ((gtyp g = LT \/ gtyp g = LEQ) /\ length (gops g) = 1%nat /\
      generated_convert_gate c l g fresh = Err CircuitValidationError /\
      convert_gate c l g fresh = Err PyIndexError)) /\
  (forall c l g fresh c',
     generated_convert_gate c l g fresh = Ok c' <-> convert_gate c l g fresh = Ok c') /\
  (forall c fresh c', generated_into_bench c fresh = Ok c' <-> into_bench c fresh = Ok c').
Proof. exact rules_regenerated. Qed.

(* full equality (errors included) when no LT / LEQ gate has exactly one operand, in particular
   under arity_ok *)
Theorem C14_rules_regenerated_eq : forall c fresh,
  (forall x g, In (x, g) (gates c) -> gtyp g = LT \/ gtyp g = LEQ -> length (gops g) <> 1%nat) ->
  generated_into_bench c fresh = into_bench c fresh.
Proof. exact generated_into_bench_eq. Qed.

(* the corner is real *)
Theorem C14_rules_error_kind_corner :
  generated_convert_gate cex_kind "l" (mkGate LT ["a"]) "X" = Err CircuitValidationError /\
  convert_gate cex_kind "l" (mkGate LT ["a"]) "X" = Err PyIndexError.
Proof. exact err_kind_differs. Qed.

(* ---- the conversion ---- *)
Theorem C14_interface_unchanged : forall c fresh c',
  Inv c -> arity_ok c -> into_bench c fresh = Ok c' ->
  inputs c' = inputs c /\ outputs c' = outputs c.
Proof. exact into_bench_io'. Qed.

Theorem C14_well_formed : forall c fresh c',
  Inv c -> arity_ok c -> into_bench c fresh = Ok c' -> Inv c'.
Proof. exact into_bench_wf'. Qed.

(* every gate of the original circuit computes the same value after the conversion, under every
   total assignment (a is total on c iff it is total on c') *)
Theorem C14_function_preserved : forall c fresh c' a,
  Inv c -> arity_ok c -> into_bench c fresh = Ok c' -> total_on c a ->
  forall l v, has_gate c l = true -> (Eval c' a l v <-> Eval c a l v).
Proof. exact into_bench_sem'. Qed.

Theorem C14_total_assignments : forall c fresh c' a,
  Inv c -> arity_ok c -> into_bench c fresh = Ok c' -> (total_on c a <-> total_on c' a).
Proof. exact into_bench_total_on'. Qed.

(* hence the same truth table: the output vector is the same function of the inputs *)
Theorem C14_truth_table_preserved : forall c fresh c' a,
  Inv c -> arity_ok c -> into_bench c fresh = Ok c' -> total_on c a ->
  forall vs, Forall2 (Eval c' a) (outputs c') vs <-> Forall2 (Eval c a) (outputs c) vs.
Proof. exact into_bench_outputs_sem'. Qed.

(* the same at the entry points, as equalities of results: evaluate on every Boolean input vector
   (of any length: on a vector shorter than the input list both calls raise IndexError) and the
   truth table.  Both calls return (C14_get_truth_table_returns): the evaluators are total on
   well-formed circuits with accepted arities (C01) and the converted circuit is one
   (C14_well_formed, C14_arities_accepted). *)
Theorem C14_arities_accepted : forall c fresh c',
  Inv c -> arity_ok c -> into_bench c fresh = Ok c' -> arity_ok c'.
Proof. exact into_bench_arity_ok. Qed.

Theorem C14_evaluate : forall c fresh c' bs,
  Inv c -> arity_ok c -> into_bench c fresh = Ok c' ->
  evaluate c' (map inj bs) = evaluate c (map inj bs).
Proof. exact into_bench_evaluate_eq. Qed.

Theorem C14_get_truth_table : forall c fresh c',
  Inv c -> arity_ok c -> into_bench c fresh = Ok c' -> get_truth_table c' = get_truth_table c.
Proof. exact into_bench_truth_table_eq. Qed.

Theorem C14_get_truth_table_returns : forall c fresh c',
  Inv c -> arity_ok c -> into_bench c fresh = Ok c' ->
  exists tt, get_truth_table c = Ok tt /\ get_truth_table c' = Ok tt.
Proof. exact into_bench_truth_table_ok. Qed.

(* only INPUT, NOT, AND, OR, NAND, NOR, XOR, NXOR and buffer (IFF) gates remain *)
Theorem C14_bench_basis : forall c fresh c',
  Inv c -> arity_ok c -> into_bench c fresh = Ok c' ->
  forall x g, dget (gates c') x = Some g ->
    In (gtyp g) [INPUT; NOT; AND; OR; NAND; NOR; XOR; NXOR; IFF].
Proof. exact into_bench_basis'. Qed.

(* old gates survive; blocks keep their names (and order), inputs and outputs and only gain
   helper gates; every new gate x is the helper of a rewritten gate l of c (it carries the helper
   label prefix ++ l ++ fresh and is an operand of l in c') and lies in every block that has l
   among its gates *)
Theorem C14_helpers_in_blocks : forall c fresh c',
  Inv c -> arity_ok c -> into_bench c fresh = Ok c' ->
  (forall x, has_gate c x = true -> has_gate c' x = true) /\
  dkeys (blocks c') = dkeys (blocks c) /\
  (forall b, match dget (blocks c) b with
             | None => dget (blocks c') b = None
             | Some b0 => exists extra,
                 dget (blocks c') b = Some (mkBlock (binputs b0) (bgates b0 ++ extra) (boutputs b0)) /\
                 forall x, In x extra -> has_gate c x = false /\ has_gate c' x = true
             end) /\
  (forall x, has_gate c' x = true -> has_gate c x = false ->
     exists l, has_gate c l = true /\ is_helper_label l x /\ In x (ops_of c' l) /\
       forall b b0, dget (blocks c) b = Some b0 -> In l (bgates b0) ->
                    exists bc, dget (blocks c') b = Some bc /\ In x (bgates bc)).
Proof. exact into_bench_blocks_spec'. Qed.

(* the restriction to total assignments cannot be dropped *)
Theorem C14_partial_assignments_differ :
  wfb cex_partial = true /\ arity_ok cex_partial /\
  exists c', into_bench cex_partial ["X"] = Ok c' /\
             Eval cex_partial [("b", T)] "g" U /\ Eval c' [("b", T)] "g" F.
Proof. exact into_bench_partial_assignment_differs. Qed.

(* arity_ok cannot be dropped either: a comparison gate with three operands has no value
   (TypeError), the converter reads two of them and the converted gate has a value (the same
   state breaks the users index, C02: Proofs/WFBench.v cex_ternary_breaks) *)
Theorem C14_arity_needed :
  wfb cex_ternary = true /\ inputs_nullary cex_ternary /\
  exists c', into_bench cex_ternary ["X"] = Ok c' /\
    (forall v, ~ Eval cex_ternary [("a", T); ("b", T); ("d", T)] "l" v) /\
    Eval c' [("a", T); ("b", T); ("d", T)] "l" F.
Proof. exact into_bench_bad_arity_gains_value. Qed.

(* ---- non-vacuity: a circuit over comparison, projection and constant gates, one of them with
   a duplicated operand, with outputs and a block, that satisfies all hypotheses ---- *)
Example C14_example :
  Inv C14_ex /\ arity_ok C14_ex /\ inputs C14_ex <> [] /\
  exists c', into_bench C14_ex ["f1"; "f2"; "f3"] = Ok c' /\ size c' = 10 /\
             total_on C14_ex [("x", T); ("y", F)].
Proof. exact C14_ex_ok. Qed.

(* ---- Circuit.into_bench (the driver loop around the converter rules) as the source says it now (translator T10)
        returns normally exactly when the model does, and equals the model whenever no LT / LEQ gate has a single
        operand (proved in Proofs/CircuitAlgosGen5.v, also stated under C02); re-stated here so that an edit of the
        driver breaks a proof obligation of THIS property. ---- *)
Require Cirbo.Proofs.CircuitAlgosGen5.
Theorem C14_into_bench_regenerated :
  (forall c fresh c', Cirbo.Generated.CircuitAlgos.gen_into_bench c fresh = Ok c' <-> into_bench c fresh = Ok c') /\
  (forall c fresh,
     (forall x g, In (x, g) (gates c) -> gtyp g = LT \/ gtyp g = LEQ -> length (gops g) <> 1%nat) ->
     Cirbo.Generated.CircuitAlgos.gen_into_bench c fresh = into_bench c fresh).
Proof. split; [exact CircuitAlgosGen5.gen_into_bench_ok | exact CircuitAlgosGen5.gen_into_bench_model]. Qed.
