(* C01  Evaluation equals the denotational semantics of the gate network.
   Statements only; proofs live in Proofs/. *)
Require Import Cirbo.Model.Base Cirbo.Model.Gate Cirbo.Model.Den Cirbo.Model.Circuit Cirbo.Model.Eval Cirbo.Model.Sem.
Require Import Cirbo.Generated.GateTypes.
Require Import Cirbo.Proofs.OpFacts Cirbo.Proofs.SemFacts Cirbo.Proofs.EvalFacts.

(* (a) the generated operator tables are the fixed Boolean function of every gate type,
   for every arity; they raise exactly where the denotation is undefined *)
Theorem C01_operators_denote : forall g bs,
  operator_of g (map inj bs) =
  match den g bs with Some b => Ok (inj b) | None => Err (arity_err g) end.
Proof. exact operator_of_den. Qed.

(* the semantics is a function of the netlist and the assignment *)
Theorem C01_semantics_functional : forall c a l v v', Eval c a l v -> Eval c a l v' -> v = v'.
Proof. exact Eval_functional. Qed.

(* under a total assignment each gate's value is the denotation of its type applied to the
   Boolean values of its operands (composition of the fixed functions) *)
Theorem C01_semantics_composes_denotations : forall c a l g vs v,
  dget (gates c) l = Some g -> gtyp g <> INPUT ->
  Forall2 (Eval c a) (gops g) vs -> total_on c a -> Eval c a l v ->
  exists bs b, vs = map inj bs /\ den (gtyp g) bs = Some b /\ v = inj b.
Proof. exact Eval_den. Qed.

(* (b) whole-circuit evaluation reports the semantics at every gate *)
Theorem C01_full_evaluation_sound : forall c a d,
  inputs_are_input_gates c -> assigns_inputs_only c a ->
  evaluate_full_circuit c a = Ok d -> forall l v, dget d l = Some v -> Eval c a l v.
Proof. exact evaluate_full_circuit_sound. Qed.

(* (b) stack evaluation reports the semantics at every requested output, and at every other
   gate either the semantics or Undefined (unreached part) *)
Theorem C01_stack_evaluation_sound : forall fuel c a outs d,
  inputs_are_input_gates c -> assigns_inputs_only c a ->
  evaluate_circuit_fuel fuel c a outs = Ok d ->
  (forall l v, dget d l = Some v -> Eval c a l v \/ v = U) /\
  (forall o, In o (match outs with Some o => o | None => outputs c end) ->
             exists v, dget d o = Some v /\ Eval c a o v).
Proof. exact evaluate_circuit_sound. Qed.
