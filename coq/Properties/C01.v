(* C01  Evaluation equals the denotational semantics of the gate network.
   Statements only; proofs live in Proofs/. *)
(* the evaluation entry points (evaluate_full_circuit, evaluate_circuit, evaluate_circuit_outputs, evaluate,
   evaluate_at, get_truth_table) and top_sort are regenerated from the source by translator T10 and proved equal to the
   model these theorems are about (Properties/C02.v C02_algorithms_regenerated): keep those proofs in this
   property's cone *)
Require Cirbo.Proofs.CircuitAlgosGen Cirbo.Proofs.CircuitAlgosGen2 Cirbo.Proofs.CircuitAlgosGen3 Cirbo.Proofs.CircuitAlgosGenSum.
Require Import Cirbo.Model.Base Cirbo.Model.Gate Cirbo.Model.Den Cirbo.Model.Circuit Cirbo.Model.Eval Cirbo.Model.Sem.
Require Import Cirbo.Generated.GateTypes.
Require Import Cirbo.Model.WF.
Require Import Cirbo.Proofs.OpFacts Cirbo.Proofs.SemFacts Cirbo.Proofs.EvalFacts.
Require Import Cirbo.Proofs.EvalComplete Cirbo.Proofs.EvalStack Cirbo.Proofs.EvalEntry
        Cirbo.Proofs.TruthTable Cirbo.Proofs.SemInvariance Cirbo.Proofs.SemRename Cirbo.Proofs.WFSound.
Require Import Cirbo.Proofs.TraverseInv.
Require Import Coq.Sorting.Permutation.

(* (a) the generated operator tables are the fixed Boolean function of every gate type,
   for every arity; they raise exactly where the denotation is undefined *)
Theorem C01_operators_denote : forall g bs,
  operator_of g (map inj bs) =
  match den g bs with Some b => Ok (inj b) | None => Err (arity_err g) end.
Proof. exact operator_of_den. Qed.

(* the semantics is a function of the netlist and the assignment *)
Theorem C01_semantics_functional : forall c a l v v', Eval c a l v -> Eval c a l v' -> v = v'.
Proof. exact Eval_functional. Qed.

(* under a total assignment each gate's value is the denotation of its type applied to the
   Boolean values of its operands (composition of the fixed functions) *)
Theorem C01_semantics_composes_denotations : forall c a l g vs v,
  dget (gates c) l = Some g -> gtyp g <> INPUT ->
  Forall2 (Eval c a) (gops g) vs -> total_on c a -> Eval c a l v ->
  exists bs b, vs = map inj bs /\ den (gtyp g) bs = Some b /\ v = inj b.
Proof. exact Eval_den. Qed.

(* (b) whole-circuit evaluation reports the semantics at every gate *)
Theorem C01_full_evaluation_sound : forall c a d,
  inputs_are_input_gates c -> assigns_inputs_only c a ->
  evaluate_full_circuit c a = Ok d -> forall l v, dget d l = Some v -> Eval c a l v.
Proof. exact evaluate_full_circuit_sound. Qed.

(* (b) stack evaluation reports the semantics at every requested output, and at every other
   gate either the semantics or Undefined (unreached part) *)
Theorem C01_stack_evaluation_sound : forall fuel c a outs d,
  inputs_are_input_gates c -> assigns_inputs_only c a ->
  evaluate_circuit_fuel fuel c a outs = Ok d ->
  (forall l v, dget d l = Some v -> Eval c a l v \/ v = U) /\
  (forall o, In o (match outs with Some o => o | None => outputs c end) ->
             exists v, dget d o = Some v /\ Eval c a o v).
Proof. exact evaluate_circuit_sound. Qed.

(* ------------------------------------------------------------------------------------ *)
(* the generated operators accept exactly the arities of the denotation, also on
   three-valued arguments *)
Theorem C01_operators_accept : forall g vs,
  den_accepts g (length vs) = true -> exists v, operator_of g vs = Ok v.
Proof. exact operator_of_accepts. Qed.

Theorem C01_operators_reject : forall g vs,
  den_accepts g (length vs) = false -> operator_of g vs = Err (arity_err g).
Proof. exact operator_of_rejects. Qed.

(* the semantics exists (and by C01_semantics_functional is unique) at every gate of a
   well-formed circuit with accepted arities, for every (partial) assignment *)
Theorem C01_semantics_exists : forall c a, WF c -> arity_ok c ->
  forall l, has_gate c l = true -> exists v, Eval c a l v.
Proof. exact Eval_exists. Qed.

(* arity_ok is necessary for that: a gate with a rejected arity has no value *)
Theorem C01_semantics_needs_arity : forall c a l g v,
  dget (gates c) l = Some g -> gtyp g <> INPUT -> Eval c a l v ->
  den_accepts (gtyp g) (length (gops g)) = true.
Proof. exact Eval_needs_arity. Qed.

(* (b) whole-circuit evaluation is total and reports exactly the semantics at exactly the gates *)
Theorem C01_full_evaluation_complete : forall c a, WF c -> arity_ok c -> assigns_inputs_only c a ->
  exists d, evaluate_full_circuit c a = Ok d /\
            forall l, has_gate c l = true -> exists v, dget d l = Some v /\ Eval c a l v.
Proof. exact evaluate_full_circuit_complete. Qed.

Theorem C01_full_evaluation_exact : forall c a, WF c -> arity_ok c -> assigns_inputs_only c a ->
  exists d, evaluate_full_circuit c a = Ok d /\
            forall l v, dget d l = Some v <-> (has_gate c l = true /\ Eval c a l v).
Proof. exact evaluate_full_circuit_exact. Qed.

(* (b) the stack evaluator: the fuel 2 * (|outs| + sum of arities) + 1 used by evaluate_circuit
   (and any larger fuel) is adequate - never OutOfFuel, no other error - when the requested
   outputs exist *)
Theorem C01_stack_evaluation_fuel_adequate : forall c a outs fuel,
  WF c -> arity_ok c -> assigns_inputs_only c a ->
  (forall o, In o (requested c outs) -> has_gate c o = true) ->
  eval_fuel c (requested c outs) <= fuel ->
  exists d, evaluate_circuit_fuel fuel c a outs = Ok d.
Proof. exact evaluate_circuit_fuel_adequate. Qed.

(* ... and reports the semantics at every requested output, the semantics or Undefined at every
   other gate, and has exactly the gates as keys *)
Theorem C01_stack_evaluation_complete : forall c a outs,
  WF c -> arity_ok c -> assigns_inputs_only c a ->
  (forall o, In o (requested c outs) -> has_gate c o = true) ->
  exists d, evaluate_circuit c a outs = Ok d /\
    (forall o, In o (requested c outs) -> exists v, dget d o = Some v /\ Eval c a o v) /\
    (forall l v, dget d l = Some v -> Eval c a l v \/ v = U) /\
    (forall l, has_gate c l = true <-> dmem d l = true).
Proof. exact evaluate_circuit_complete. Qed.

(* ... and every gate that is neither an input nor reachable from the requested outputs along
   operand edges is reported Undefined ("unreachable part will be Undefined") *)
Theorem C01_stack_evaluation_unreached_undefined : forall fuel c a outs d l,
  assigns_inputs_only c a -> evaluate_circuit_fuel fuel c a outs = Ok d ->
  has_gate c l = true -> ~ In l (inputs c) -> ~ reach (ops_of c) (requested c outs) l ->
  dget d l = Some U.
Proof. exact evaluate_circuit_unreached. Qed.

(* all entry points return the same values: whole circuit, stack, outputs dictionary ... *)
Theorem C01_entry_points_agree : forall c a, WF c -> arity_ok c -> assigns_inputs_only c a ->
  exists dfull dstack r,
    evaluate_full_circuit c a = Ok dfull /\ evaluate_circuit c a None = Ok dstack /\
    evaluate_circuit_outputs c a = Ok r /\
    forall o, In o (outputs c) ->
      exists v, dget dfull o = Some v /\ dget dstack o = Some v /\ dget r o = Some v /\ Eval c a o v.
Proof. exact entry_points_agree. Qed.

(* ... and the positional ones (evaluate; evaluate_at is its i-th component) *)
Theorem C01_evaluate_agrees_with_full : forall c vals,
  WF c -> arity_ok c -> length (inputs c) <= length vals ->
  exists dfull vs, evaluate_full_circuit c (vec_assignment c vals) = Ok dfull /\ evaluate c vals = Ok vs /\
    Forall2 (fun o v => dget dfull o = Some v) (outputs c) vs.
Proof. exact evaluate_agrees_with_full. Qed.

Theorem C01_evaluate_at_is_component : forall c vals i o,
  WF c -> arity_ok c -> length (inputs c) <= length vals -> nth_error (outputs c) i = Some o ->
  exists vs v, evaluate c vals = Ok vs /\ evaluate_at c vals i = Ok v /\ nth_error vs i = Some v.
Proof. exact evaluate_at_nth. Qed.

(* (b) evaluate_circuit_outputs: keys are the outputs, values the semantics *)
Theorem C01_outputs_evaluation_complete : forall c a,
  WF c -> arity_ok c -> assigns_inputs_only c a ->
  exists r, evaluate_circuit_outputs c a = Ok r /\
    (forall o, In o (outputs c) -> exists v, dget r o = Some v /\ Eval c a o v) /\
    (forall l, dmem r l = true -> In l (outputs c)).
Proof. exact evaluate_circuit_outputs_complete. Qed.

(* the assignment evaluate / evaluate_at / the truth tables build from a positional vector:
   defined iff there are at least as many values as inputs; on duplicate-free inputs it is the
   association list  combine inputs vals, so the i-th input gets the i-th value *)
Theorem C01_zip_inputs_short : forall ins vals acc,
  length vals < length ins -> zip_inputs ins vals acc = Err PyIndexError.
Proof. exact zip_inputs_short. Qed.

Theorem C01_zip_inputs : forall c vals, WF c -> length (inputs c) <= length vals ->
  zip_inputs (inputs c) vals [] = Ok (vec_assignment c vals).
Proof. exact zip_inputs_wf. Qed.

Theorem C01_zip_inputs_keys : forall c vals, length (inputs c) <= length vals ->
  dkeys (vec_assignment c vals) = inputs c.
Proof. exact vec_assignment_keys. Qed.

Theorem C01_zip_inputs_nth : forall c vals i l, WF c ->
  nth_error (inputs c) i = Some l -> dget (vec_assignment c vals) l = nth_error vals i.
Proof. exact vec_assignment_nth. Qed.

(* without duplicate-freeness: keys and the origin of every value *)
Theorem C01_zip_inputs_general : forall ins vals acc a, zip_inputs ins vals acc = Ok a ->
  forall l v, dget a l = Some v ->
    (dget acc l = Some v /\ ~ In l ins) \/
    exists i, nth_error ins i = Some l /\ nth_error vals i = Some v.
Proof. exact zip_inputs_val. Qed.

(* (b) evaluate: the list of semantic values of the outputs (repeated outputs repeat) *)
Theorem C01_evaluate_complete : forall c vals, WF c -> arity_ok c -> length (inputs c) <= length vals ->
  exists vs, evaluate c vals = Ok vs /\ Forall2 (Eval c (vec_assignment c vals)) (outputs c) vs.
Proof. exact evaluate_complete. Qed.

Theorem C01_evaluate_sound : forall c vals vs, WF c -> evaluate c vals = Ok vs ->
  length (inputs c) <= length vals /\ Forall2 (Eval c (vec_assignment c vals)) (outputs c) vs.
Proof. exact evaluate_sound. Qed.

Theorem C01_evaluate_short : forall c vals,
  length vals < length (inputs c) -> evaluate c vals = Err PyIndexError.
Proof. exact evaluate_short. Qed.

(* (b) evaluate_at: the semantic value of the i-th output *)
Theorem C01_evaluate_at_complete : forall c vals i o,
  WF c -> arity_ok c -> length (inputs c) <= length vals -> nth_error (outputs c) i = Some o ->
  exists v, evaluate_at c vals i = Ok v /\ Eval c (vec_assignment c vals) o v.
Proof. exact evaluate_at_complete. Qed.

Theorem C01_evaluate_at_out_of_range : forall c vals i, WF c -> length (inputs c) <= length vals ->
  nth_error (outputs c) i = None -> evaluate_at c vals i = Err GateDoesntExistError.
Proof. exact evaluate_at_out_of_range. Qed.

(* itertools.product((False, True), repeat=n): 2^n vectors; the i-th one has length n and is the
   binary expansion of i, most significant bit first; every n-bit vector is listed *)
Theorem C01_all_bool_vectors_length : forall n, length (all_bool_vectors n) = 2 ^ n.
Proof. exact abv_length. Qed.

Theorem C01_all_bool_vectors_nth : forall n i bs, nth_error (all_bool_vectors n) i = Some bs ->
  length bs = n /\ val_be bs = i.
Proof. exact abv_nth. Qed.

Theorem C01_all_bool_vectors_bits : forall n i bs j,
  nth_error (all_bool_vectors n) i = Some bs -> j < n ->
  nth j bs false = Nat.testbit i (n - 1 - j).
Proof. exact abv_nth_testbit. Qed.

Theorem C01_all_bool_vectors_complete : forall bs,
  nth_error (all_bool_vectors (length bs)) (val_be bs) = Some bs.
Proof. exact abv_complete. Qed.

(* (b) get_truth_table: row j, column i is the semantic value of output j under the i-th vector *)
Theorem C01_truth_table_complete : forall c, WF c -> arity_ok c ->
  exists tt, get_truth_table c = Ok tt /\ length tt = length (outputs c) /\
    forall j o i x, nth_error (outputs c) j = Some o ->
      nth_error (all_bool_vectors (length (inputs c))) i = Some x ->
      exists row v, nth_error tt j = Some row /\ length row = 2 ^ length (inputs c) /\
                    nth_error row i = Some v /\ Eval c (bool_assignment c x) o v.
Proof. exact get_truth_table_complete. Qed.

(* (b) get_gates_truth_table: one column per gate (exactly the gates), listing its semantic
   values under all vectors in the same order *)
Theorem C01_gates_truth_table_complete : forall c, WF c -> arity_ok c ->
  exists t, get_gates_truth_table c = Ok t /\
    (forall l, has_gate c l = true ->
       exists col, dget t l = Some col /\
         Forall2 (fun x v => Eval c (bool_assignment c x) l v)
                 (all_bool_vectors (length (inputs c))) col) /\
    (forall l, dmem t l = true -> has_gate c l = true).
Proof. exact get_gates_truth_table_complete. Qed.

(* Boolean vectors give total assignments, so all of the above values are inj of a Boolean
   (C01_semantics_composes_denotations applies) *)
Theorem C01_bool_vector_total : forall c bs, WF c -> length (inputs c) <= length bs ->
  total_on c (vec_assignment c (map inj bs)).
Proof. exact vec_assignment_total. Qed.

(* (c) invariance.  The semantics depends on the gate map and the assignment only as finite
   maps: insertion order, the input/output lists, users index and blocks do not matter *)
Theorem C01_semantics_extensional : forall c c' a a' l v,
  (forall k, dget (gates c) k = dget (gates c') k) -> (forall k, aval a k = aval a' k) ->
  (Eval c a l v <-> Eval c' a' l v).
Proof. exact Eval_ext. Qed.

Theorem C01_semantics_gate_order : forall c c' a l v,
  NoDup (dkeys (gates c)) -> Permutation (gates c) (gates c') ->
  (Eval c a l v <-> Eval c' a l v).
Proof. exact Eval_gate_order. Qed.

Theorem C01_full_evaluation_gate_order : forall c c' a a',
  WF c -> WF c' -> arity_ok c -> same_gates c c' -> same_assignment a a' ->
  assigns_inputs_only c a -> assigns_inputs_only c' a' ->
  exists d d', evaluate_full_circuit c a = Ok d /\ evaluate_full_circuit c' a' = Ok d' /\
               forall l, dget d l = dget d' l.
Proof. exact evaluate_full_circuit_order. Qed.

(* (c) an injective renaming of every label (keys, operands, inputs, outputs, users, block
   members, assignment keys) transports the semantics, in both directions *)
Theorem C01_semantics_label_renaming : forall (r : label -> label),
  (forall x y, r x = r y -> x = y) ->
  forall c a l v, Eval c a l v <-> Eval (rename_circuit r c) (rename_assignment r a) (r l) v.
Proof. exact Eval_rename. Qed.

Theorem C01_semantics_label_renaming_image : forall (r : label -> label),
  (forall x y, r x = r y -> x = y) ->
  forall c a l' v, Eval (rename_circuit r c) (rename_assignment r a) l' v -> exists l, l' = r l.
Proof. exact Eval_rename_image. Qed.

(* (c) at the level of the entry points.  Insertion order: two well-formed circuits with the same
   gate map as a finite map and the same input / output lists have the same evaluate results and
   the same truth table *)
Theorem C01_evaluate_gate_order : forall c c' vals, WF c -> WF c' -> arity_ok c ->
  same_gates c c' -> inputs c = inputs c' -> outputs c = outputs c' ->
  evaluate c' vals = evaluate c vals.
Proof. exact evaluate_gate_order. Qed.

Theorem C01_truth_table_gate_order : forall c c', WF c -> WF c' -> arity_ok c ->
  same_gates c c' -> inputs c = inputs c' -> outputs c = outputs c' ->
  get_truth_table c' = get_truth_table c.
Proof. exact get_truth_table_gate_order. Qed.

(* Labels: injective renaming preserves well-formedness; evaluate and the truth table of the
   renamed circuit are EQUAL to the original ones; evaluate_full_circuit reports at r l the
   value the original reports at l and has no other keys *)
Theorem C01_renaming_preserves_WF : forall (r : label -> label),
  (forall x y, r x = r y -> x = y) -> forall c, WF c -> WF (rename_circuit r c).
Proof. exact WF_rename. Qed.

Theorem C01_evaluate_label_renaming : forall (r : label -> label),
  (forall x y, r x = r y -> x = y) ->
  forall c vals, WF c -> arity_ok c -> evaluate (rename_circuit r c) vals = evaluate c vals.
Proof. exact evaluate_rename. Qed.

Theorem C01_truth_table_label_renaming : forall (r : label -> label),
  (forall x y, r x = r y -> x = y) ->
  forall c, WF c -> arity_ok c -> get_truth_table (rename_circuit r c) = get_truth_table c.
Proof. exact get_truth_table_rename. Qed.

Theorem C01_full_evaluation_label_renaming : forall (r : label -> label),
  (forall x y, r x = r y -> x = y) ->
  forall c a, WF c -> arity_ok c -> assigns_inputs_only c a ->
  exists d d', evaluate_full_circuit c a = Ok d /\
               evaluate_full_circuit (rename_circuit r c) (rename_assignment r a) = Ok d' /\
               (forall l, dget d' (r l) = dget d l) /\
               (forall l', dmem d' l' = true -> exists l, l' = r l).
Proof. exact evaluate_full_circuit_rename. Qed.

(* ------------------------------------------------------------------------------------ *)
(* non-vacuity and (c) "duplicated operands / outputs need no special case": a well-formed
   circuit with a shared gate, an AND with a duplicated operand, a dead gate, an unused input,
   an output that is an input and a duplicated output; all entry points on it *)
Definition C01_ex : circuit :=
  mkCircuit ["a"; "b"; "u"] ["o"; "a"; "o"]
    [("a", mkGate INPUT []); ("b", mkGate INPUT []); ("u", mkGate INPUT []);
     ("n", mkGate NOT ["a"]); ("d", mkGate AND ["n"; "n"]); ("x", mkGate XOR ["n"; "b"; "d"]);
     ("o", mkGate OR ["d"; "x"]); ("dead", mkGate ALWAYS_TRUE [])]
    [("a", ["n"]); ("n", ["d"; "d"; "x"]); ("b", ["x"]); ("d", ["x"; "o"]); ("x", ["o"])] [].

Example C01_ex_wf : WF C01_ex /\ arity_ok C01_ex.
Proof. split; [apply wfb_sound; vm_compute; reflexivity|apply arity_okb_sound; vm_compute; reflexivity]. Qed.

Example C01_ex_runs :
  evaluate_full_circuit C01_ex [("a", F); ("b", T)]
    = Ok [("a", F); ("b", T); ("u", U); ("dead", T); ("n", T); ("d", T); ("x", T); ("o", T)]
  /\ evaluate_circuit C01_ex [("a", F); ("b", T)] None
    = Ok [("a", F); ("b", T); ("u", U); ("n", T); ("d", T); ("x", T); ("o", T); ("dead", U)]
  /\ evaluate_circuit_outputs C01_ex [("a", F); ("b", T)] = Ok [("o", T); ("a", F)]
  /\ evaluate C01_ex [F; T; U] = Ok [T; F; T]
  /\ evaluate_at C01_ex [F; T; U] 2 = Ok T
  /\ assigns_inputs_only C01_ex [("a", F); ("b", T)].
Proof.
  repeat (split; [vm_compute; reflexivity|]).
  intros l. unfold dmem; simpl.
  destruct (leqb_spec l "a") as [->|_]; [simpl; auto|].
  destruct (leqb_spec l "b") as [->|_]; [simpl; auto|discriminate].
Qed.

(* the AND gate with the duplicated operand n,n has the value of n: no special case *)
Example C01_ex_duplicated_operand : forall a v,
  Eval C01_ex a "n" v -> Eval C01_ex a "d" v.
Proof.
  intros a v H. eapply EvalGate with (vs := [v; v]); [reflexivity|discriminate| |destruct v; reflexivity].
  repeat constructor; exact H.
Qed.

Example C01_ex_truth_table :
  get_truth_table C01_ex = Ok [[T; T; T; T; F; F; T; T]; [F; F; F; F; T; T; T; T]; [T; T; T; T; F; F; T; T]].
Proof. vm_compute; reflexivity. Qed.

Example C01_all_bool_vectors_3 :
  all_bool_vectors 2 = [[false; false]; [false; true]; [true; false]; [true; true]].
Proof. reflexivity. Qed.

(* renaming: an injective renaming (prefixing) applied to the example *)
Example C01_ex_renamed :
  evaluate_full_circuit (rename_circuit (String "p") C01_ex) (rename_assignment (String "p") [("a", F); ("b", T)])
  = Ok [("pa", F); ("pb", T); ("pu", U); ("pdead", T); ("pn", T); ("pd", T); ("px", T); ("po", T)]
  /\ (forall x y, String "p" x = String "p" y -> x = y).
Proof. split; [vm_compute; reflexivity|intros x y H; injection H; auto]. Qed.
