(* C07 placeholder while the proofs are developed *)
Require Import Cirbo.Model.Base Cirbo.Model.Gate Cirbo.Model.Den Cirbo.Model.Circuit
  Cirbo.Model.Eval Cirbo.Model.Sem Cirbo.Model.Builder.
Require Import Cirbo.Model.ArithSumN Cirbo.Model.ArithSumW Cirbo.Model.SumCases.
Require Import Cirbo.Proofs.BuilderFacts.

Theorem C07_every_generator_only_extends : forall fresh A (p : prog A) s r s',
  run fresh p s = Ok (r, s') -> ext (bc s) (bc s').
Proof. exact run_ext. Qed.
