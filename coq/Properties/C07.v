(* C07  Summation generators compute exact sums within the promised basis and size.
   Statements only; proofs live in Proofs/ArithSum*.v.

   Reading guide (as in C09).  `run fresh p s = Ok (r, s')`: the generator p, started on the builder
   state s (host circuit `bc s`, uuid counter `bk s`), returns r and leaves the state s'; `fresh` is
   the naming function of the uuid counter and is universally quantified.  `bvals c a ls bs`: under
   the assignment a the gates ls of circuit c have the Boolean values bs in the relational
   semantics Sem.Eval.  `decode be v`: the number spelt by the bit vector v (little endian; big
   endian when be).  `ones v`: the number of true bits.  `wvalue levels v` = sum_i v_i * 2^level_i.
   `ext c c'`: c' is c plus fresh non-INPUT gates whose operands exist (C07_extension_meaning):
   only fresh gates are added and every pre-existing gate keeps its function.
   `adds T c c' g`: c' is c plus exactly g gates, all of a type in T (C07_adds_meaning);
   T = t_aig = {AND, OR, GT}, T = t_xaig = {AND, OR, GT, XOR} (C07_basis_sets).
   `basis` is the Python value passed (BEnum member / BStr string in any letter case);
   every theorem speaks about the RESOLVED basis b = GenerationBasis(basis.upper()).
   The model is of the repaired code (fixes/D5, D6, D7). *)
Require Import Cirbo.Model.Base Cirbo.Model.Gate Cirbo.Model.Den Cirbo.Model.Circuit
  Cirbo.Model.Eval Cirbo.Model.Sem Cirbo.Model.Builder.
Require Import Cirbo.Generated.ArithTables Cirbo.Generated.ArithCells.
Require Import Cirbo.Model.ArithSub Cirbo.Model.ArithSum2 Cirbo.Model.ArithSumN Cirbo.Model.ArithSumW
  Cirbo.Model.ArithGen Cirbo.Model.SumCases.
Require Import Cirbo.Proofs.BuilderFacts Cirbo.Proofs.ArithFacts Cirbo.Proofs.ArithGenFacts
  Cirbo.Proofs.ArithSumCells Cirbo.Proofs.ArithSumNFacts Cirbo.Proofs.ArithSumTopFacts
  Cirbo.Proofs.ArithSumPow2Facts Cirbo.Proofs.ArithSumWFacts Cirbo.Proofs.ArithSumWCount
  Cirbo.Proofs.ArithSumGenFacts
  Cirbo.Proofs.ArithSumStruct Cirbo.Proofs.ArithSumStructA Cirbo.Proofs.ArithSumStructB
  Cirbo.Proofs.ArithSumStructC Cirbo.Proofs.ArithSumFinal.
Require Import Cirbo.Proofs.TotalFacts Cirbo.Proofs.ArithSumMinted Cirbo.Proofs.ArithSumResultsQ
  Cirbo.Proofs.ArithSumTotalFinal.
Require Import Cirbo.Model.PyPrims Cirbo.Generated.ArithGen07 Cirbo.Proofs.ArithGen07H.
Require Import Coq.Logic.FinFun.
Open Scope Z_scope.

(* ---- the builder layer (shared with C09) -------------------------------------------------------- *)
Theorem C07_every_generator_only_extends : forall fresh A (p : prog A) s r s',
  run fresh p s = Ok (r, s') -> ext (bc s) (bc s').
Proof. exact run_ext. Qed.

Theorem C07_extension_meaning : forall c c',
  ext c c' ->
  (exists ng m, gates c' = gates c ++ ng /\ Forall (new_entry c) ng /\ NoDup (dkeys ng) /\
                inputs c' = inputs c /\ blocks c' = blocks c /\ outputs c' = outputs c ++ m) /\
  (forall a l v, Eval c a l v -> Eval c' a l v) /\
  (closed c -> closed c' /\ forall a l v, has_gate c l = true -> Eval c' a l v -> Eval c a l v).
Proof. exact ext_meaning. Qed.

Theorem C07_adds_meaning : forall T c c' n,
  adds T c c' n <->
  exists ng, gates c' = gates c ++ ng /\ Forall (fun kg => T (gtyp (snd kg)) = true) ng /\ length ng = n.
Proof. exact adds_meaning. Qed.

Theorem C07_basis_sets :
  (forall t, t_aig t = true <-> t = AND \/ t = OR \/ t = GT) /\
  (forall t, t_xaig t = true <-> t = AND \/ t = OR \/ t = GT \/ t = XOR).
Proof. exact basis_sets. Qed.

(* ---- basis dispatch: however the basis is spelled --------------------------------------------------- *)
Theorem C07_basis_resolution :
  (forall b, resolve_basis (BEnum b) = Ok b) /\
  (forall s b, resolve_basis (BStr s) = Ok b <-> upper s = basis_name b) /\
  (forall s, (forall b, upper s <> basis_name b) -> resolve_basis (BStr s) = Err PyValueError).
Proof. exact resolve_basis_meaning. Qed.

(* ---- the regenerated cells: arithmetic identity, gate count, gate types ------------------------- *)
Theorem C07_cells_exact :
  cell2_spec t_xaig 2 add_sum2 /\ cell3_spec t_xaig 5 add_sum3 /\
  cell2_spec t_aig 3 add_sum2_aig /\ cell3_spec t_aig 7 add_sum3_aig.
Proof. exact cells_exact. Qed.

Theorem C07_stockmeyer_block_exact : forall fresh z x xy s r s',
  run fresh (add_stockmeyer_block [z; x; xy]) s = Ok (r, s') ->
  exists w0 w1, r = [w0; w1] /\ outputs (bc s') = outputs (bc s) /\ adds t_xaig (bc s) (bc s') 4 /\
    forall c, ext (bc s') c -> forall asg vz vx vxy, bval c asg z vz -> bval c asg x vx -> bval c asg xy vxy ->
      exists v0 v1, bval c asg w0 v0 /\ bval c asg w1 v1 /\
                    Z.b2z vz + (Z.b2z vx + Z.b2z (xorb vx vxy)) = Z.b2z v0 + 2 * Z.b2z v1.
Proof. exact add_stockmeyer_block_cell. Qed.

(* z + (x1 + y1) + (x2 + y2) = z' + 2 (x' + y'), a pair (x, x xor y) standing for the bits x, y *)
Theorem C07_mdfa_exact : forall fresh z x1 xy1 x2 xy2 s r s',
  run fresh (add_mdfa [z; x1; xy1; x2; xy2]) s = Ok (r, s') ->
  exists z' a ab, r = [z'; a; ab] /\ outputs (bc s') = outputs (bc s) /\ adds t_xaig (bc s) (bc s') 8 /\
    forall c, ext (bc s') c -> forall asg vz v1 w1 v2 w2,
      bval c asg z vz -> bval c asg x1 v1 -> bval c asg xy1 w1 -> bval c asg x2 v2 -> bval c asg xy2 w2 ->
      exists uz ua uab, bval c asg z' uz /\ bval c asg a ua /\ bval c asg ab uab /\
        Z.b2z vz + (Z.b2z v1 + Z.b2z (xorb v1 w1)) + (Z.b2z v2 + Z.b2z (xorb v2 w2)) =
        Z.b2z uz + 2 * (Z.b2z ua + Z.b2z (xorb ua uab)).
Proof. exact add_mdfa_cell. Qed.

Theorem C07_simplified_mdfa_exact : forall fresh x1 xy1 x2 xy2 s r s',
  run fresh (add_simplified_mdfa [x1; xy1; x2; xy2]) s = Ok (r, s') ->
  exists z' a ab, r = [z'; a; ab] /\ outputs (bc s') = outputs (bc s) /\ adds t_xaig (bc s) (bc s') 6 /\
    forall c, ext (bc s') c -> forall asg v1 w1 v2 w2,
      bval c asg x1 v1 -> bval c asg xy1 w1 -> bval c asg x2 v2 -> bval c asg xy2 w2 ->
      exists uz ua uab, bval c asg z' uz /\ bval c asg a ua /\ bval c asg ab uab /\
        (Z.b2z v1 + Z.b2z (xorb v1 w1)) + (Z.b2z v2 + Z.b2z (xorb v2 w2)) =
        Z.b2z uz + 2 * (Z.b2z ua + Z.b2z (xorb ua uab)).
Proof. exact add_simplified_mdfa_cell. Qed.

(* ---- bit counters, ALL operand counts -------------------------------------------------------------- *)
(* add_sum_n_bits: the result spells the number of ones (level of bit i = its position, hence
   pairwise distinct); only gates of the resolved basis are added; the documented bounds
   (C07_documented_bounds): AIG gates <= 7 n - 3 m, XAIG gates <= 4.5 n - 2 m *)
Theorem C07_documented_bounds : forall b g m n,
  nbits_bound b g m n <->
  match b with AIG => (g + 3 * m <= 7 * n)%nat | XAIG => (2 * g + 4 * m <= 9 * n)%nat end.
Proof. intros []; reflexivity. Qed.

Theorem C07_sum_n_bits_exact : forall fresh basis be xs s rs s',
  run fresh (add_sum_n_bits basis be xs) s = Ok (rs, s') ->
  exists b, resolve_basis basis = Ok b /\
    ext (bc s) (bc s') /\ inputs (bc s') = inputs (bc s) /\ outputs (bc s') = outputs (bc s) /\
    (exists g, adds (t_of b) (bc s) (bc s') g /\ nbits_bound b g (length rs) (length xs)) /\
    forall asg xv, bvals (bc s) asg xs xv ->
      exists rv, bvals (bc s') asg rs rv /\ decode be rv = ones xv.
Proof. exact add_sum_n_bits_final. Qed.

(* the XAIG counter returns Ok for every n <= 64 on the bare circuit (the fuel of the modelled
   loops suffices), with m = number of binary digits of n and pairwise distinct result labels *)
Theorem C07_sum_n_bits_xaig_returns_upto64 : forall n, (1 <= n <= 64)%nat ->
  exists c rs s',
    bare n = Ok c /\ run hex_label (add_sum_n_bits (BEnum XAIG) false (in_labels n 0)) (mkB c 1) = Ok (rs, s') /\
    (2 * N.of_nat (length (added c (bc s'))) + 4 * N.of_nat (length rs) <= 9 * N.of_nat n)%N /\
    Forall (fun kg => t_xaig (gtyp (snd kg)) = true) (added c (bc s')) /\
    length rs = bitlen n /\ NoDup rs.
Proof. exact nbits_xaig_upto64. Qed.

(* add_sum_n_bits_easy ("approximately 5 n" gates): gates <= 5 n - 3 m *)
Theorem C07_sum_n_bits_easy_exact : forall fresh be xs s rs s',
  run fresh (add_sum_n_bits_easy be xs) s = Ok (rs, s') ->
  ext (bc s) (bc s') /\ inputs (bc s') = inputs (bc s) /\ outputs (bc s') = outputs (bc s) /\
  (exists g, adds t_xaig (bc s) (bc s') g /\ (g + 3 * length rs <= 5 * length xs)%nat) /\
  forall asg xv, bvals (bc s) asg xs xv ->
    exists rv, bvals (bc s') asg rs rv /\ decode be rv = ones xv.
Proof. exact add_sum_n_bits_easy_final. Qed.

(* add_sum_pow2_m1 returns, level by level, lists of bits of weight 2^level; level 0 holds one bit.
   (`filter(None, .)` of the implementation would drop a label that is the empty string: the
   value clause asks that "" is not a gate of the final circuit.) *)
Theorem C07_sum_pow2_m1_exact : forall fresh basis be xs s cols s',
  run fresh (add_sum_pow2_m1 basis be xs) s = Ok (cols, s') ->
  ext (bc s) (bc s') /\ inputs (bc s') = inputs (bc s) /\ outputs (bc s') = outputs (bc s) /\
  ((2 <= length xs)%nat -> exists b, resolve_basis basis = Ok b) /\
  (forall b, resolve_basis basis = Ok b -> exists g, adds (t_of b) (bc s) (bc s') g) /\
  (exists l0, hd_error cols = Some [l0]) /\
  (has_gate (bc s') "" = false -> forall asg xv, bvals (bc s) asg xs xv ->
     exists cvs, Forall2 (bvals (bc s') asg) cols cvs /\ cols_val cvs = ones xv).
Proof. exact add_sum_pow2_m1_final. Qed.

(* AIG bit counter, easy counter, pow2_m1 in both bases return Ok for every n <= 40 (the fuel of
   the model's loops suffices), with m = number of binary digits of n *)
Theorem C07_bit_counters_return_upto40 :
  forallb (fun n => nbits_struct_ok AIG n && easy_struct_ok n
                    && pow2_struct_ok XAIG n && pow2_struct_ok AIG n) (seq 1 40) = true.
Proof. exact bit_counters_struct_upto40. Qed.

(* ---- weighted sums, ALL weight vectors -------------------------------------------------------------- *)
(* sum_i val(bit_i) 2^level_i = sum_j val(x_j) 2^w_j, levels strictly increasing; gate-count bounds
   as documented after fixes/D27.patch: AIG gates <= 7 n - 3 m, XAIG gates <= 5 n - 2 m *)
Theorem C07_weighted_documented_bounds : forall b g m n,
  weighted_bound b g m n <->
  match b with AIG => (g + 3 * m <= 7 * n)%nat | XAIG => (g + 2 * m <= 5 * n)%nat end.
Proof. intros []; reflexivity. Qed.

Theorem C07_sum_n_weighted_bits_exact : forall fresh basis inp s res s',
  run fresh (add_sum_n_weighted_bits basis inp) s = Ok (res, s') ->
  exists b, resolve_basis basis = Ok b /\
    ext (bc s) (bc s') /\ inputs (bc s') = inputs (bc s) /\ outputs (bc s') = outputs (bc s) /\
    (exists g, adds (t_of b) (bc s) (bc s') g /\ weighted_bound b g (length res) (length inp)) /\
    incr res /\
    forall asg vs, bvals (bc s) asg (map snd inp) vs ->
      exists rv, bvals (bc s') asg (map snd res) rv /\ wvalue (map fst res) rv = wvalue (map fst inp) vs.
Proof. exact add_sum_n_weighted_bits_final. Qed.

(* gates <= 5 n - 3 m (XAIG) and 7 n - 3 m (AIG) *)
Theorem C07_sum_n_weighted_bits_naive_exact : forall fresh basis inp s res s',
  run fresh (add_sum_n_weighted_bits_naive basis inp) s = Ok (res, s') ->
  exists b, resolve_basis basis = Ok b /\
    ext (bc s) (bc s') /\ inputs (bc s') = inputs (bc s) /\ outputs (bc s') = outputs (bc s) /\
    (exists g, adds (t_of b) (bc s) (bc s') g /\
               (g + 3 * length res <= (match b with AIG => 7 | XAIG => 5 end) * length inp)%nat) /\
    incr res /\
    forall asg vs, bvals (bc s) asg (map snd inp) vs ->
      exists rv, bvals (bc s') asg (map snd res) rv /\ wvalue (map fst res) rv = wvalue (map fst inp) vs.
Proof. exact add_sum_n_weighted_bits_naive_final. Qed.

Theorem C07_levels_pairwise_distinct : forall res,
  incr res ->
  NoDup (map fst res) /\
  forall i j a b, (i < j)%nat -> nth_error (map fst res) i = Some a -> nth_error (map fst res) j = Some b -> (a < b)%N.
Proof. exact levels_distinct. Qed.

(* DEFECT D27: the bound documented in the pinned source for the efficient weighted sum in XAIG,
   gates <= 4.5 n - 2 m, is false: 25 bits (six of weight 2^0, three of each weight 2^1..2^6, one
   of weight 2^7) need 4.5 n - 2 m + 0.5 gates *)
Theorem C07_weighted_documented_bound_refuted :
  exists c res s',
    bare (length refuting_weights) = Ok c /\
    run hex_label (add_sum_n_weighted_bits (BEnum XAIG)
                     (combine refuting_weights (in_labels (length refuting_weights) 0))) (mkB c 1) = Ok (res, s') /\
    (9 * N.of_nat (length refuting_weights) <
     2 * N.of_nat (length (added c (bc s'))) + 4 * N.of_nat (length res))%N.
Proof. exact weighted_documented_bound_refuted. Qed.

(* (the tighter 4.5 n - 2 m does hold, by kernel computation, for every weight vector of length <= 6
   over the weights 0..3 on the bare circuit) *)
Theorem C07_weighted_xaig_size_small_vectors : forall ws, In ws small_vectors ->
  exists c res s',
    bare (length ws) = Ok c /\
    run hex_label (add_sum_n_weighted_bits (BEnum XAIG) (combine ws (in_labels (length ws) 0))) (mkB c 1) = Ok (res, s') /\
    (2 * N.of_nat (length (added c (bc s'))) + 4 * N.of_nat (length res) <= 9 * N.of_nat (length ws))%N.
Proof. exact weighted_xaig_small_vectors. Qed.

(* both generators in both bases return Ok, within their bounds, with strictly increasing levels
   and gates of the basis only, for the partial-product shapes of every (n, m) <= 8 *)
Theorem C07_weighted_struct_pp_shapes_upto8 : forallb weighted_all_ok (pp_shapes 8) = true.
Proof. exact weighted_struct_pp_shapes_upto8. Qed.

(* ---- two-number adders, ALL widths -------------------------------------------------------------------- *)
Theorem C07_sum_two_numbers_exact : forall fresh xs ys be s rs s',
  run fresh (add_sum_two_numbers xs ys be) s = Ok (rs, s') ->
  ext (bc s) (bc s') /\ inputs (bc s') = inputs (bc s) /\ outputs (bc s') = outputs (bc s) /\
  length rs = S (Nat.max (length xs) (length ys)) /\
  forall asg xv yv, bvals (bc s) asg xs xv -> bvals (bc s) asg ys yv ->
    exists rv, bvals (bc s') asg rs rv /\ decode be rv = decode be xv + decode be yv.
Proof. exact add_sum_two_numbers_final. Qed.

Theorem C07_sum_two_numbers_with_shift_exact : forall fresh sh xs ys be s rs s',
  run fresh (add_sum_two_numbers_with_shift sh xs ys be) s = Ok (rs, s') ->
  ext (bc s) (bc s') /\ inputs (bc s') = inputs (bc s) /\ outputs (bc s') = outputs (bc s) /\
  forall asg xv yv, bvals (bc s) asg xs xv -> bvals (bc s) asg ys yv ->
    exists rv, bvals (bc s') asg rs rv /\ decode be rv = decode be xv + decode be yv * 2 ^ Z.of_nat sh.
Proof. exact add_sum_two_numbers_with_shift_final. Qed.

(* ---- the generate_* wrappers ---------------------------------------------------------------------------- *)
Theorem C07_generate_sum_n_bits : forall fresh k0 ins basis be c,
  generate_sum_n_bits fresh k0 ins basis be = Ok c ->
  exists b, resolve_basis basis = Ok b /\
    inputs c = ins /\ only_basis (t_of b) c /\
    (exists g, length (gates c) = (length ins + g)%nat /\ nbits_bound b g (length (outputs c)) (length ins)) /\
    forall asg bs, assigns asg ins bs ->
      exists rv, bvals c asg (outputs c) rv /\ decode be rv = ones bs.
Proof. exact generate_sum_n_bits_correct. Qed.

Theorem C07_generate_sum_weighted_bits_efficient : forall fresh k0 ins weights basis c,
  generate_sum_weighted_bits_efficient fresh k0 ins weights basis = Ok c -> length weights = length ins ->
  exists b, resolve_basis basis = Ok b /\
    inputs c = ins /\ only_basis (t_of b) c /\
    (exists g, length (gates c) = (length ins + g)%nat /\
               match b with
               | AIG => (g + 3 * length (outputs c) <= 7 * length ins)%nat
               | XAIG => (g + 2 * length (outputs c) <= 5 * length ins)%nat
               end) /\
    exists res, outputs c = map snd res /\ incr res /\
      forall asg bs, assigns asg ins bs ->
        exists rv, bvals c asg (outputs c) rv /\ wvalue (map fst res) rv = wvalue weights bs.
Proof. exact generate_sum_weighted_bits_efficient_correct. Qed.

Theorem C07_generate_sum_weighted_bits_naive : forall fresh k0 ins weights basis c,
  generate_sum_weighted_bits_naive fresh k0 ins weights basis = Ok c -> length weights = length ins ->
  exists b, resolve_basis basis = Ok b /\
    inputs c = ins /\ only_basis (t_of b) c /\
    (length (gates c) + 3 * length (outputs c) <= (match b with AIG => 8 | XAIG => 6 end) * length ins)%nat /\
    exists res, outputs c = map snd res /\ incr res /\
      forall asg bs, assigns asg ins bs ->
        exists rv, bvals c asg (outputs c) rv /\ wvalue (map fst res) rv = wvalue weights bs.
Proof. exact generate_sum_weighted_bits_naive_correct. Qed.

(* ---- "every summation generator works", ALL sizes -------------------------------------------------------- *)
(* The value theorems above are conditional on the model run returning Ok.  The run DOES return Ok,
   for every operand count / weight vector / width / shift: the fuel of every modelled while loop
   suffices, every `cannot happen` branch of the model (now_solo[0] of an empty level; the sentinel
   `break` of the weighted loops, Err PyAssertionError in the model; out[it][0] of an empty block) is
   unreachable, every operand of every new gate exists and every new label is unoccupied -- whenever
   the operand labels name gates of the host (`all_exist c ls`), the basis resolves, and the naming
   function of the uuid counter is injective (as in the C09 works-theorems).  The remaining
   hypotheses exclude exactly the inputs on which the implementation itself raises:
     - weighted sums: an empty operand list (max([]) raises ValueError);
     - add_sum_two_numbers: an empty operand (input_labels_x[0] raises IndexError);
     - add_sum_two_numbers_with_shift: shift < len(a) with b empty, shift > len(a) = 0 (IndexError);
     - add_sum_pow2_m1: n = 0 (assert n > 0); the basis is only resolved for n >= 2;
       the uuid labels are never "" (shown necessary by C07_pow2_m1_needs_nonempty_uuid_labels: the
       first bit of every block is a cell output, i.e. carries a uuid label, and must survive
       filter(None, .)); the value corollary moreover needs that "" is not a gate of the host.
   `..._total_exact` = works + the value theorem: an unconditional statement. *)
Theorem C07_sum_n_bits_works : forall fresh, Injective fresh -> forall basis b be xs s,
  resolve_basis basis = Ok b -> all_exist (bc s) xs ->
  exists rs s', run fresh (add_sum_n_bits basis be xs) s = Ok (rs, s').
Proof. exact add_sum_n_bits_works. Qed.

Theorem C07_sum_n_bits_total_exact : forall fresh, Injective fresh -> forall basis b be xs s,
  resolve_basis basis = Ok b -> all_exist (bc s) xs ->
  exists rs s', run fresh (add_sum_n_bits basis be xs) s = Ok (rs, s') /\
    ext (bc s) (bc s') /\ inputs (bc s') = inputs (bc s) /\ outputs (bc s') = outputs (bc s) /\
    (exists g, adds (t_of b) (bc s) (bc s') g /\ nbits_bound b g (length rs) (length xs)) /\
    forall asg xv, bvals (bc s) asg xs xv ->
      exists rv, bvals (bc s') asg rs rv /\ decode be rv = ones xv.
Proof. exact add_sum_n_bits_total_exact. Qed.

Theorem C07_sum_n_bits_easy_works : forall fresh, Injective fresh -> forall be xs s,
  all_exist (bc s) xs -> exists rs s', run fresh (add_sum_n_bits_easy be xs) s = Ok (rs, s').
Proof. exact add_sum_n_bits_easy_works. Qed.

Theorem C07_sum_n_bits_easy_total_exact : forall fresh, Injective fresh -> forall be xs s,
  all_exist (bc s) xs ->
  exists rs s', run fresh (add_sum_n_bits_easy be xs) s = Ok (rs, s') /\
    ext (bc s) (bc s') /\ inputs (bc s') = inputs (bc s) /\ outputs (bc s') = outputs (bc s) /\
    (exists g, adds t_xaig (bc s) (bc s') g /\ (g + 3 * length rs <= 5 * length xs)%nat) /\
    forall asg xv, bvals (bc s) asg xs xv ->
      exists rv, bvals (bc s') asg rs rv /\ decode be rv = ones xv.
Proof. exact add_sum_n_bits_easy_total_exact. Qed.

Theorem C07_sum_pow2_m1_works : forall fresh, Injective fresh -> forall basis be xs s,
  xs <> [] -> all_exist (bc s) xs -> ((2 <= length xs)%nat -> exists b, resolve_basis basis = Ok b) ->
  (forall k, fresh k <> ""%string) ->
  exists cols s', run fresh (add_sum_pow2_m1 basis be xs) s = Ok (cols, s').
Proof. exact add_sum_pow2_m1_works. Qed.

(* with "" not a gate of the host and never a uuid label, "" is not a gate of the final circuit, and
   the value clause of C07_sum_pow2_m1_exact becomes unconditional *)
Theorem C07_sum_pow2_m1_total_exact : forall fresh, Injective fresh -> forall basis be xs s,
  xs <> [] -> all_exist (bc s) xs -> ((2 <= length xs)%nat -> exists b, resolve_basis basis = Ok b) ->
  has_gate (bc s) "" = false -> (forall k, fresh k <> ""%string) ->
  exists cols s', run fresh (add_sum_pow2_m1 basis be xs) s = Ok (cols, s') /\
    ext (bc s) (bc s') /\ inputs (bc s') = inputs (bc s) /\ outputs (bc s') = outputs (bc s) /\
    (forall b, resolve_basis basis = Ok b -> exists g, adds (t_of b) (bc s) (bc s') g) /\
    (exists l0, hd_error cols = Some [l0]) /\
    has_gate (bc s') "" = false /\
    forall asg xv, bvals (bc s) asg xs xv ->
      exists cvs, Forall2 (bvals (bc s') asg) cols cvs /\ cols_val cvs = ones xv.
Proof. exact add_sum_pow2_m1_total_exact. Qed.

(* every gate of the final circuit of a generator that only calls add_gate_from_tt is a gate of the
   host or carries a uuid label; all summation generators are of this kind *)
Theorem C07_new_gates_carry_uuid_labels : forall fresh A (p : prog A), gen_only p ->
  forall s r s', run fresh p s = Ok (r, s') ->
  forall l, has_gate (bc s') l = true -> has_gate (bc s) l = true \/ exists k, l = fresh k.
Proof. exact gen_only_grown. Qed.

(* the result labels of a bit counter on at least two operands are outputs of cells: uuid labels *)
Theorem C07_sum_n_bits_results_carry_uuid_labels : forall fresh basis be xs s rs s',
  run fresh (add_sum_n_bits basis be xs) s = Ok (rs, s') -> (2 <= length xs)%nat ->
  Forall (fun l => exists k, l = fresh k) rs.
Proof. exact (fun fresh => add_sum_n_bits_Q fresh (fun l => exists k, l = fresh k) (fun k => ex_intro _ k eq_refl)). Qed.

Theorem C07_sum_n_weighted_bits_works : forall fresh, Injective fresh -> forall basis b inp s,
  resolve_basis basis = Ok b -> inp <> [] -> all_exist (bc s) (map snd inp) ->
  exists res s', run fresh (add_sum_n_weighted_bits basis inp) s = Ok (res, s').
Proof. exact add_sum_n_weighted_bits_works. Qed.

Theorem C07_sum_n_weighted_bits_total_exact : forall fresh, Injective fresh -> forall basis b inp s,
  resolve_basis basis = Ok b -> inp <> [] -> all_exist (bc s) (map snd inp) ->
  exists res s', run fresh (add_sum_n_weighted_bits basis inp) s = Ok (res, s') /\
    ext (bc s) (bc s') /\ inputs (bc s') = inputs (bc s) /\ outputs (bc s') = outputs (bc s) /\
    (exists g, adds (t_of b) (bc s) (bc s') g /\ weighted_bound b g (length res) (length inp)) /\
    incr res /\
    forall asg vs, bvals (bc s) asg (map snd inp) vs ->
      exists rv, bvals (bc s') asg (map snd res) rv /\ wvalue (map fst res) rv = wvalue (map fst inp) vs.
Proof. exact add_sum_n_weighted_bits_total_exact. Qed.

Theorem C07_sum_n_weighted_bits_naive_works : forall fresh, Injective fresh -> forall basis b inp s,
  resolve_basis basis = Ok b -> inp <> [] -> all_exist (bc s) (map snd inp) ->
  exists res s', run fresh (add_sum_n_weighted_bits_naive basis inp) s = Ok (res, s').
Proof. exact add_sum_n_weighted_bits_naive_works. Qed.

Theorem C07_sum_n_weighted_bits_naive_total_exact : forall fresh, Injective fresh -> forall basis b inp s,
  resolve_basis basis = Ok b -> inp <> [] -> all_exist (bc s) (map snd inp) ->
  exists res s', run fresh (add_sum_n_weighted_bits_naive basis inp) s = Ok (res, s') /\
    ext (bc s) (bc s') /\ inputs (bc s') = inputs (bc s) /\ outputs (bc s') = outputs (bc s) /\
    (exists g, adds (t_of b) (bc s) (bc s') g /\
               (g + 3 * length res <= (match b with AIG => 7 | XAIG => 5 end) * length inp)%nat) /\
    incr res /\
    forall asg vs, bvals (bc s) asg (map snd inp) vs ->
      exists rv, bvals (bc s') asg (map snd res) rv /\ wvalue (map fst res) rv = wvalue (map fst inp) vs.
Proof. exact add_sum_n_weighted_bits_naive_total_exact. Qed.

Theorem C07_sum_two_numbers_works : forall fresh, Injective fresh -> forall xs ys be s,
  xs <> [] -> ys <> [] -> all_exist (bc s) xs -> all_exist (bc s) ys ->
  exists rs s', run fresh (add_sum_two_numbers xs ys be) s = Ok (rs, s').
Proof. exact add_sum_two_numbers_works. Qed.

Theorem C07_sum_two_numbers_total_exact : forall fresh, Injective fresh -> forall xs ys be s,
  xs <> [] -> ys <> [] -> all_exist (bc s) xs -> all_exist (bc s) ys ->
  exists rs s', run fresh (add_sum_two_numbers xs ys be) s = Ok (rs, s') /\
    ext (bc s) (bc s') /\ inputs (bc s') = inputs (bc s) /\ outputs (bc s') = outputs (bc s) /\
    length rs = S (Nat.max (length xs) (length ys)) /\
    forall asg xv yv, bvals (bc s) asg xs xv -> bvals (bc s) asg ys yv ->
      exists rv, bvals (bc s') asg rs rv /\ decode be rv = decode be xv + decode be yv.
Proof. exact add_sum_two_numbers_total_exact. Qed.

Theorem C07_sum_two_numbers_with_shift_works : forall fresh, Injective fresh -> forall sh xs ys be s,
  all_exist (bc s) xs -> all_exist (bc s) ys ->
  ((sh < length xs)%nat -> ys <> []) -> ((length xs < sh)%nat -> xs <> []) ->
  exists rs s', run fresh (add_sum_two_numbers_with_shift sh xs ys be) s = Ok (rs, s').
Proof. exact add_sum_two_numbers_with_shift_works. Qed.

Theorem C07_sum_two_numbers_with_shift_total_exact : forall fresh, Injective fresh -> forall sh xs ys be s,
  all_exist (bc s) xs -> all_exist (bc s) ys ->
  ((sh < length xs)%nat -> ys <> []) -> ((length xs < sh)%nat -> xs <> []) ->
  exists rs s', run fresh (add_sum_two_numbers_with_shift sh xs ys be) s = Ok (rs, s') /\
    ext (bc s) (bc s') /\ inputs (bc s') = inputs (bc s) /\ outputs (bc s') = outputs (bc s) /\
    forall asg xv yv, bvals (bc s) asg xs xv -> bvals (bc s) asg ys yv ->
      exists rv, bvals (bc s') asg rs rv /\ decode be rv = decode be xv + decode be yv * 2 ^ Z.of_nat sh.
Proof. exact add_sum_two_numbers_with_shift_total_exact. Qed.

(* the wrappers: pairwise distinct input labels (bare_circuit's are), at least one weight *)
Theorem C07_generate_sum_n_bits_works : forall fresh, Injective fresh -> forall k0 ins basis b be,
  NoDup ins -> resolve_basis basis = Ok b -> exists c, generate_sum_n_bits fresh k0 ins basis be = Ok c.
Proof. exact generate_sum_n_bits_works. Qed.

Theorem C07_generate_sum_n_bits_total_exact : forall fresh, Injective fresh -> forall k0 ins basis b be,
  NoDup ins -> resolve_basis basis = Ok b ->
  exists c, generate_sum_n_bits fresh k0 ins basis be = Ok c /\
    inputs c = ins /\ only_basis (t_of b) c /\
    (exists g, length (gates c) = (length ins + g)%nat /\ nbits_bound b g (length (outputs c)) (length ins)) /\
    forall asg bs, assigns asg ins bs ->
      exists rv, bvals c asg (outputs c) rv /\ decode be rv = ones bs.
Proof. exact generate_sum_n_bits_total_exact. Qed.

Theorem C07_generate_sum_weighted_bits_efficient_works : forall fresh, Injective fresh -> forall k0 ins weights basis b,
  NoDup ins -> ins <> [] -> length weights = length ins -> resolve_basis basis = Ok b ->
  exists c, generate_sum_weighted_bits_efficient fresh k0 ins weights basis = Ok c.
Proof. exact generate_sum_weighted_bits_efficient_works. Qed.

Theorem C07_generate_sum_weighted_bits_efficient_total_exact : forall fresh, Injective fresh -> forall k0 ins weights basis b,
  NoDup ins -> ins <> [] -> length weights = length ins -> resolve_basis basis = Ok b ->
  exists c, generate_sum_weighted_bits_efficient fresh k0 ins weights basis = Ok c /\
    inputs c = ins /\ only_basis (t_of b) c /\
    (exists g, length (gates c) = (length ins + g)%nat /\
               match b with
               | AIG => (g + 3 * length (outputs c) <= 7 * length ins)%nat
               | XAIG => (g + 2 * length (outputs c) <= 5 * length ins)%nat
               end) /\
    exists res, outputs c = map snd res /\ incr res /\
      forall asg bs, assigns asg ins bs ->
        exists rv, bvals c asg (outputs c) rv /\ wvalue (map fst res) rv = wvalue weights bs.
Proof. exact generate_sum_weighted_bits_efficient_total_exact. Qed.

Theorem C07_generate_sum_weighted_bits_naive_works : forall fresh, Injective fresh -> forall k0 ins weights basis b,
  NoDup ins -> ins <> [] -> length weights = length ins -> resolve_basis basis = Ok b ->
  exists c, generate_sum_weighted_bits_naive fresh k0 ins weights basis = Ok c.
Proof. exact generate_sum_weighted_bits_naive_works. Qed.

Theorem C07_generate_sum_weighted_bits_naive_total_exact : forall fresh, Injective fresh -> forall k0 ins weights basis b,
  NoDup ins -> ins <> [] -> length weights = length ins -> resolve_basis basis = Ok b ->
  exists c, generate_sum_weighted_bits_naive fresh k0 ins weights basis = Ok c /\
    inputs c = ins /\ only_basis (t_of b) c /\
    (length (gates c) + 3 * length (outputs c) <= (match b with AIG => 8 | XAIG => 6 end) * length ins)%nat /\
    exists res, outputs c = map snd res /\ incr res /\
      forall asg bs, assigns asg ins bs ->
        exists rv, bvals c asg (outputs c) rv /\ wvalue (map fst res) rv = wvalue weights bs.
Proof. exact generate_sum_weighted_bits_naive_total_exact. Qed.

(* ---- the second tie to the source: the ALGORITHMS regenerated from summation.py (translator T18) ------------ *)
(* Generated/ArithGen07.v is written by translator/t18_sum_gen.py from the statements of
   cirbo/synthesis/generation/arithmetics/summation.py on every check; each gen_f runs EXACTLY like the hand model the
   theorems above are about (same result, same final state, same error, same OutOfFuel) for all arguments. Python
   ints are Z in the generated text: the shift and the weights are embedded from nat / N (non-negative values; a
   negative shift makes the Python slices count from the end: Proofs/ArithGen07H.with_shift_negative_differs).
   The generate_* wrappers are compared on the input labels the source builds (str(0) .. str(n-1)). *)
Theorem C07_generators_regenerated :
  (forall a b be fresh s,
     run fresh (gen_add_sum_two_numbers a b be) s = run fresh (add_sum_two_numbers a b be) s) /\
  (forall shift a b be fresh s,
     run fresh (gen_add_sum_two_numbers_with_shift (Z.of_nat shift) a b be) s
     = run fresh (add_sum_two_numbers_with_shift shift a b be) s) /\
  (forall xs be fresh s,
     run fresh (gen_add_sum_n_bits_easy xs be) s = run fresh (add_sum_n_bits_easy be xs) s) /\
  (forall xs be basis fresh s,
     run fresh (gen_add_sum_pow2_m1 xs be basis) s = run fresh (add_sum_pow2_m1 basis be xs) s) /\
  (forall xs basis be fresh s,
     run fresh (gen_add_sum_n_bits xs basis be) s = run fresh (add_sum_n_bits basis be xs) s) /\
  (forall xs fresh s,
     run fresh (gen__add_sum_n_bits xs) s = run fresh (add_sum_n_bits_xaig xs) s) /\
  (forall xs fresh s,
     run fresh (gen__add_sum_n_bits_aig xs) s = run fresh (add_sum_n_bits_aig xs) s) /\
  (forall inp basis fresh s,
     run fresh (gen_add_sum_n_weighted_bits_naive (map (fun p => (Z.of_N (fst p), snd p)) inp) basis) s
     = run fresh (bdo r <- add_sum_n_weighted_bits_naive basis inp; Ret (map (fun p => (Z.of_N (fst p), snd p)) r)) s) /\
  (forall inp basis fresh s,
     run fresh (gen_add_sum_n_weighted_bits (map (fun p => (Z.of_N (fst p), snd p)) inp) basis) s
     = run fresh (bdo r <- add_sum_n_weighted_bits basis inp; Ret (map (fun p => (Z.of_N (fst p), snd p)) r)) s) /\
  (forall fresh k0 n basis be,
     gen_generate_sum_n_bits fresh k0 n basis be = generate_sum_n_bits fresh k0 (py_bare_labels n) basis be) /\
  (forall fresh k0 ws basis,
     gen_generate_sum_weighted_bits_efficient fresh k0 (map Z.of_N ws) basis
     = generate_sum_weighted_bits_efficient fresh k0 (py_bare_labels (Z.of_nat (length ws))) ws basis) /\
  (forall fresh k0 ws basis,
     gen_generate_sum_weighted_bits_naive fresh k0 (map Z.of_N ws) basis
     = generate_sum_weighted_bits_naive fresh k0 (py_bare_labels (Z.of_nat (length ws))) ws basis).
Proof. exact sum_generators_regenerated. Qed.

(* ---- non-vacuity: the hypotheses are satisfiable ------------------------------------------------------- *)
Definition demo_host : circuit :=
  match circuit_with_inputs ["a"; "b"; "c"; "d"; "e"] with Ok c => c | Err _ => empty_circuit end.

Example C07_nonvacuous_n_bits :
  is_ok (run hex_label (add_sum_n_bits (BStr "aig") true ["a"; "b"; "c"; "d"; "e"]) (mkB demo_host 1)) = true /\
  is_ok (run hex_label (add_sum_n_bits (BEnum XAIG) false ["a"; "b"; "c"; "d"; "e"]) (mkB demo_host 1)) = true /\
  is_ok (run hex_label (add_sum_pow2_m1 (BStr "Aig") false ["a"; "b"; "c"; "d"]) (mkB demo_host 1)) = true.
Proof. vm_compute. repeat split. Qed.

Example C07_nonvacuous_weighted :
  is_ok (run hex_label (add_sum_n_weighted_bits (BStr "xaig") [(0, "a"); (0, "b"); (1, "c"); (1, "a"); (3, "e")]%N)
             (mkB demo_host 1)) = true /\
  is_ok (run hex_label (add_sum_n_weighted_bits_naive (BStr "AIG") [(2, "a"); (0, "b"); (2, "c"); (2, "d")]%N)
             (mkB demo_host 1)) = true /\
  is_ok (run hex_label (add_sum_two_numbers_with_shift 3 ["a"] ["b"; "c"] true) (mkB demo_host 1)) = true.
Proof. vm_compute. repeat split. Qed.

(* the hypotheses of the works / total_exact theorems are satisfiable: an injective naming function
   that never yields "", a host whose gates are the operands and in which "" is not a gate *)
Example C07_works_hypotheses_satisfiable :
  Injective short_label /\ (forall k, short_label k <> ""%string) /\
  all_exist demo_host ["a"; "b"; "c"; "d"; "e"] /\ has_gate demo_host "" = false /\
  NoDup ["a"; "b"; "c"; "d"; "e"]%string /\
  is_ok (run short_label (add_sum_pow2_m1 (BEnum AIG) true ["a"; "b"; "c"; "d"; "e"]) (mkB demo_host 1)) = true.
Proof.
  split; [exact short_label_injective|]. split; [exact short_label_nonempty|].
  split; [repeat constructor|]. split; [reflexivity|]. split; [|vm_compute; reflexivity].
  repeat constructor; simpl; intuition discriminate.
Qed.

(* the hypothesis `forall k, fresh k <> ""` of C07_sum_pow2_m1_works cannot be dropped: with an
   injective naming function whose first label is "", filter(None, .) empties out[0] and the
   implementation's out[0][len(out[0]) - 1] raises IndexError *)
Example C07_pow2_m1_needs_nonempty_uuid_labels :
  Injective empty_first /\
  run empty_first (add_sum_pow2_m1 (BEnum XAIG) false ["a"; "b"]) (mkB demo_host 0) = Err PyIndexError.
Proof. split; [exact empty_first_injective|vm_compute; reflexivity]. Qed.
